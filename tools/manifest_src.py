# Source of MANIFEST.json (tools/mkmanifest.py).  One entry per claimed property.
NOTES = "Machine-checked proof in Coq; see DESIGN.md. Properties not yet claimed are listed under not_applicable with reason 'not built yet' and will move to checks as they are built."

NOT_APPLICABLE = {}

CLAIMED = {
    "C13": {
        "text": "Theorems for EVERY device state and EVERY list of units (any history): a failing message leaves the state of its executed prefix plus exactly its error appended to the queue and exactly that error's class bit ORed into ESR, nothing else; a succeeding message without *OPC only ever shrinks the queue (by the queue queries) and sets no ESR bit; per-command specifications of SYST:ERR[:NEXT]?, :COUNt?, :ALL? (incl. the empty-queue answers) and *ESR? read-then-clear. The model is an operation-level state machine of the mandated handlers and of Node::run's error hook on the documented wiring; it is tied to the code on every run by differential execution of random message histories (real byte messages through the real tree, the library's VecErrorQueue, push_error wiring) comparing returned error, response bytes, hook-call count, queue and ESR after every message.",
        "note": "Kernel-checked, closed under the global context. Operation-level model: the message-text -> operation mapping is a template table in tools/props/statuslib.py (trusted, exercised on every case); lexing/dispatch of the same bytes is modelled separately (C02/C04/C06).",
        "technique": "Coq proof (induction over units / case analysis over mandated commands) + model/impl correspondence on message histories",
    },
    "C15": {
        "text": "Theorem for ANY history of condition updates (arbitrary values), ENABle/PTR/NTR writes, queries, *CLS and PRESet and every bit position i<16: the event bit reads 1 iff, since the last read/clear of the event register, the condition bit made a 0->1 transition with its PTR bit set or a 1->0 transition with its NTR bit set (a declarative history predicate independent of the bitwise formula), proved by induction over the history from a bitwise lemma; event read returns-and-clears, other reads are pure, enable/filters read back the last write masked to 15 bits, bit 15 of every response clear, PRESet values. Tied to the code by differential execution of random interleavings on both register sets through real messages and EventRegister::set_condition.",
        "note": "Kernel-checked, closed under the global context; u16 registers modelled as N with explicit 16-bit complement; message->operation mapping as for C13. PRESet additionally zeroes the stored condition (code behaviour, DESIGN 7.5), mirrored in the history spec.",
        "technique": "Coq proof (bitwise lemma + induction over operation history against a declarative latch predicate) + model/impl correspondence",
    },
    "C16": {
        "text": "Theorems for arbitrary device states (hence every reachable one), both MAV values and every bit position: each bit of the *STB? answer is characterised exactly (bit 2 queue non-empty, bits 3/7 QUES/OPER summary, bit 4 MAV, bit 5 ESR&ESE, bit 6 iff a reported bit is enabled by SRE, others clear); *STB? is pure; *ESE/*SRE read back; *CLS clears ESR, both event registers and the queue and nothing else; *OPC ORs bit 0 and queues -800; *OPC?/*TST? answers; *RST/*WAI frame. Tied to the code by differential execution of random histories (common commands over every bit, status subsystem, failing messages of every class, device-side condition changes, tst() results, MAV both ways) with the full device state compared after every step. Two genuine defects found this way were repaired in /repo (fix: commits 22c0d9b, 77bd8d1).",
        "note": "Kernel-checked, closed under the global context. 'Summary' is condition&enable as scpi-rs documents it (DESIGN 7.4). Operation-level model, mapping as for C13.",
        "technique": "Coq proof (bitwise characterisation, frame lemmas) + model/impl correspondence on message histories",
    },
    "C12": {
        "text": 'Unbounded theorems (any capacity >= 1, any history, any error values) about an executable list model of both ErrorQueue implementations: boundedness and absence of panic by induction over the history, exact overflow behaviour (-350 in the newest slot, N-1 older entries kept), FIFO refinement to the unbounded queue while nothing overflows, order preservation in general. The model is tied to the code on every run by differential execution of random operation histories on ArrayVec<Error,N> and Vec<Error>.',
        "note": 'Kernel-checked for the model; the model/code tie is differential testing (strength bounded by the generator, distribution in the evidence). arrayvec and Vec are modelled as lists.',
        "technique": 'Coq proof (induction over operation history) + model/impl correspondence',
    },
    "C14": {
        "text": 'Theorem over every integer (hence all 65536 i16 codes): the esr_mask table regenerated from the source on every run equals the IEEE 488.2 class table; look-up round trip proved generically over the regenerated error table. Exhaustive comparison of the live crate with the model and, independently of the tables, with the spec.',
        "note": 'Translator (regex) output is validated exhaustively against the live crate; ScpiError derive modelled as first-match lists.',
        "technique": 'Coq proof over translator-regenerated tables + exhaustive correspondence',
    },
    "C03": {
        "text": 'Theorem for definitions of SCPI shape of ANY length and candidates of ANY length over ALL byte values (not just <= 12 characters over letters, digits, underscore): mnemonic_match decides exactly the declarative short-form / long-form rule with the default-1 suffix (boolean equality with the spec and its Prop reading), plus the closed form of mnemonic_compare used for keywords. The executable model is a statement-by-statement transcription of util.rs and is tied to the code on every run by differential execution of generated (definition, candidate) pairs through mnemonic_match, mnemonic_compare and Token::match_program_header.',
        "note": 'Kernel-checked for the model, closed under the global context; the tie to the code is differential testing (generator distribution in the evidence). core ascii helpers modelled by their documented ranges.',
        "technique": 'Coq proof (iff-characterisation against a declarative spec) + model/impl correspondence',
    },
}
