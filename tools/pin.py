#!/usr/bin/env python3
"""pin.py Cxx — (re)generate coq/Pins/Cxx.v from coq/Properties/Cxx.v.

Pins restate every property theorem as `Check (Cxx.name : statement).` so that a
statement cannot be quietly weakened: Pins/*.v are committed, compiled by every
check, and only regenerated deliberately with this tool."""
import os, re, sys
sys.path.insert(0, os.path.dirname(os.path.abspath(__file__)))
from vlib import COQ, strip_coq_comments


def pin(pid):
    txt = strip_coq_comments(open(os.path.join(COQ, "Properties", pid + ".v")).read())
    # drop proofs
    txt = re.sub(r"(?s)\bProof\.(.*?)\b(Qed|Defined)\.", "", txt)
    txt = re.sub(r"(?m)^\s*Print Assumptions[^\n]*\n", "", txt)
    # drop examples (statement up to the first sentence end)
    txt = re.sub(r"(?s)\bExample\s+[A-Za-z0-9_']+\s*:.*?\.\s*(?=\n)", "", txt)
    insec = re.search(r"(?m)^\s*Section\b", txt) is not None
    def repl(m):
        if insec:   # the theorem is generalised over the section variables it uses: pin it by re-proving the statement from it
            return f"Goal{m.group(2)}.\nProof. apply VF.Properties.{pid}.{m.group(1)}. Qed."
        return f"Check (VF.Properties.{pid}.{m.group(1)} :{m.group(2)})."
    txt = re.sub(r"(?s)\bTheorem\s+([A-Za-z0-9_']+)\s*:(.*?)\.\s*(?=\n|$)", repl, txt)
    out = (f"(* GENERATED ONCE by tools/pin.py from Properties/{pid}.v and committed: the pinned statements. *)\n"
           f"From VF.Properties Require {pid}.\n" + txt.strip() + "\n")
    os.makedirs(os.path.join(COQ, "Pins"), exist_ok=True)
    with open(os.path.join(COQ, "Pins", pid + ".v"), "w") as f:
        f.write(out)
    print("pinned", pid)


if __name__ == "__main__":
    for p in sys.argv[1:]:
        pin(p)
