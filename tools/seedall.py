#!/usr/bin/env python3
"""seedall.py [Cxx-mK ...] [--checks C01,C02] : apply each seeded change to /repo, run the checks
(default: the change's own property), record the outcome in its meta.json, undo the change."""
import json, os, subprocess, sys
VERIF = os.path.dirname(os.path.dirname(os.path.abspath(__file__)))
args = [a for a in sys.argv[1:] if not a.startswith("--")]
checks = None
if "--checks" in sys.argv:
    checks = sys.argv[sys.argv.index("--checks") + 1].split(","); args = [a for a in args if a != ",".join(checks)]
dirs = args or sorted(os.listdir(os.path.join(VERIF, "seeded")))
claimed = {c["property_id"] for c in json.load(open(os.path.join(VERIF, "MANIFEST.json")))["checks"]}
for d in dirs:
    mdir = os.path.join(VERIF, "seeded", d)
    meta = json.load(open(os.path.join(mdir, "meta.json")))
    cs = checks or [meta["property"]]
    cs = [c for c in cs if os.path.exists(os.path.join(VERIF, "tools", "props", c + ".py"))]
    if not cs:
        print(d, "no check built yet"); continue
    r = subprocess.run([os.path.join(VERIF, "tools", "seedrun.sh"), mdir] + cs, stdout=subprocess.PIPE, stderr=subprocess.STDOUT, text=True)
    det = []
    for line in r.stdout.split("\n"):
        if line.startswith("== "):
            f = line.split()
            if "exit=1" in line: det.append(f[1])
    if "patch does not apply" in r.stdout:
        print(d, "PATCH DOES NOT APPLY"); continue
    meta["checks_run"] = sorted(set(meta.get("checks_run", []) + cs))
    meta["detected_by"] = sorted(set([x for x in meta.get("detected_by", []) if x not in cs] + det))
    json.dump(meta, open(os.path.join(mdir, "meta.json"), "w"), indent=1)
    print(d, "checks", cs, "-> detected by", det or "NONE")
