#!/usr/bin/env python3
"""seed_import.py <Cxx> <worktree> <mk> <crate> <needs> [--features X] : confirm (seed_confirm.py) then
store under /verif/seeded/<Cxx>-<mk>/ with meta.json."""
import json, os, shutil, subprocess, sys
pid, wt, mk, crate, needs = sys.argv[1:6]
rest = sys.argv[6:]
mdir = os.path.join(wt, "out", mk)
r = subprocess.run([sys.executable, os.path.join(os.path.dirname(__file__), "seed_confirm.py"), wt, mdir, crate] + rest,
                   stdout=subprocess.PIPE, stderr=subprocess.STDOUT, text=True)
print(r.stdout)
if r.returncode != 0:
    sys.exit(1)
dst = f"/verif/seeded/{pid}-{mk}"
os.makedirs(dst, exist_ok=True)
for f in ("patch.diff", "demo.rs", "notes.md"):
    shutil.copyfile(os.path.join(mdir, f), os.path.join(dst, f))
meta = {"property": pid, "needs_to_manifest": needs, "demo_goes_in": crate + "/tests/",
        "confirmed_by": "tools/seed_confirm.py in scratch worktree " + wt + ": " + " | ".join(l for l in r.stdout.strip().split("\n") if ":" in l or l == "CONFIRMED"),
        "checks_run": [], "detected_by": []}
json.dump(meta, open(os.path.join(dst, "meta.json"), "w"), indent=1)
print("stored", dst)
