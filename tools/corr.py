#!/usr/bin/env python3
"""tools/corr.py Cxx [tier] [seed] : development aid — correspondence only (no proofs/audit/evidence)."""
import sys, os, importlib, random
HERE = os.path.dirname(os.path.abspath(__file__))
sys.path.insert(0, HERE); sys.path.insert(0, os.path.join(HERE, "props"))
import vlib
pid = sys.argv[1]; tier = sys.argv[2] if len(sys.argv) > 2 else "quick"; seed = int(sys.argv[3]) if len(sys.argv) > 3 else 1
P = importlib.import_module(pid)
ok, out = vlib.coq_make(["Run.vo"]); assert ok, out[-2000:]
rng = random.Random(seed)
if hasattr(P, "pre_build"): P.pre_build(rng, tier)
ok, out = vlib.build_harness("debug"); assert ok, out[-2000:]
cases = list(P.corpus()) + list(P.generate(rng, tier))
lines = [P.harness_line(c) for c in cases]
impl = vlib.run_harness(lines, "debug")
res, errs = vlib.run_coq_cases([P.coq_term(c) for c in cases], P.IMPORTS, pid + "corr")
if errs: print("COQ ERR", errs[0][-1500:])
bad = drift = 0
for c, ln, a, b in zip(cases, lines, impl, res):
    why = P.impl_oracle(c, a) if hasattr(P, "impl_oracle") else None
    if why:
        bad += 1
        if bad <= 6: print("ORACLE", why, "\n  case", ln[:600], "\n  impl", (a or "")[:600])
    if b is None or b == 'SKIP' or (P.equal(a, b) if hasattr(P, 'equal') else a == b): continue
    if P.obs(a) == P.obs(b):
        drift += 1
        for x, y in zip(a.split(" | "), b.split(" | ")):
            if x != y and drift <= 3: print("DRIFT impl ", x[:400]); print("      model", y[:400]); print("      msgs", [bytes.fromhex(m) if m != "-" else b"" for m in ln.split(" ")[4:]])
        continue
    bad += 1
    if bad <= 6:
        print("DIFF case", ln[:900])
        for x, y in zip(a.split(" | "), b.split(" | ")):
            print("  " + ("   " if x == y else ">>>") + " impl ", x[:500])
            if x != y: print("      model ", y[:500])
print(pid, "cases", len(cases), "bad", bad, "drift", drift)
sys.exit(1 if bad else 0)
