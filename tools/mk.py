#!/usr/bin/env python3
"""tools/mk.py [targets...] : regenerate gen/, Makefile; make the targets (all when none)."""
import sys, os
sys.path.insert(0, os.path.dirname(os.path.abspath(__file__)))
import vlib
ok, out, _failed = vlib.translate(); print(out)
ok, out = vlib.coq_make(sys.argv[1:])
print(out[-3000:])
sys.exit(0 if ok else 1)
