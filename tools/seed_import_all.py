#!/usr/bin/env python3
"""seed_import_all.py <Cxx> : import every /tmp/mut_<Cxx>/out/m*/ (crate from the first line of notes.md)."""
import os, re, subprocess, sys
pid = sys.argv[1]
wt = f"/tmp/mut_{pid}"
for mk in sorted(os.listdir(os.path.join(wt, "out"))):
    d = os.path.join(wt, "out", mk)
    if not os.path.exists(os.path.join(d, "patch.diff")):
        continue
    notes = open(os.path.join(d, "notes.md")).read()
    m = re.search(r"crate:\s*`?(scpi-contrib|scpi)`?", notes)
    crate = m.group(1) if m else "scpi"
    needs = ""
    mm = re.search(r"(?is)(needed|needs)[^\n]*manifest[^\n]*\n+(.{20,400}?)(\n\n|\Z)", notes)
    if mm: needs = " ".join(mm.group(2).split())
    else: needs = " ".join(notes.split("\n", 1)[1].split())[:300]
    r = subprocess.run([sys.executable, os.path.join(os.path.dirname(__file__), "seed_import.py"), pid, wt, mk, crate, needs])
    print(pid, mk, "->", r.returncode)
