#!/usr/bin/env python3
"""tools/one.py Cxx '<case line>' : run one case on implementation and model, show both (split at ' | ')."""
import sys, os, importlib
HERE = os.path.dirname(os.path.abspath(__file__))
sys.path.insert(0, HERE); sys.path.insert(0, os.path.join(HERE, "props"))
import vlib
pid, line = sys.argv[1], sys.argv[2]
P = importlib.import_module(pid)
c = P.case_of_line(line)
impl = vlib.run_harness([P.harness_line(c)], "debug")[0]
res, errs = vlib.run_coq_cases([P.coq_term(c)], P.IMPORTS, pid + "one")
print("coq term:", P.coq_term(c)[:2000])
if errs: print("ERR", errs)
a = impl.split(" | "); b = (res[0] or "").split(" | ")
for i in range(max(len(a), len(b))):
    x = a[i] if i < len(a) else None; y = b[i] if i < len(b) else None
    print(("   " if x == y else ">>>"), i, "impl :", x)
    if x != y: print("      ", "model:", y)
