#!/usr/bin/env python3
"""Regenerates MANIFEST.json from tools/manifest_src.py (one entry per claimed property) and validates it."""
import json, os, sys
HERE = os.path.dirname(os.path.abspath(__file__))
sys.path.insert(0, HERE)
import manifest_src as M
ALL = ["C%02d" % i for i in range(1, 21)]
checks = []
for pid in ALL:
    if pid not in M.CLAIMED:
        continue
    c = M.CLAIMED[pid]
    checks.append({
        "property_id": pid,
        "quick_cmd": f"./check {pid} --tier quick",
        "thorough_cmd": f"./check {pid} --tier thorough",
        "evidence_file": f"/verif/evidence/{pid}.json",
        "replay_cmd_template": f"./check {pid} --replay {{path}}",
        "engine": "coq",
        "level_claimed": {"category": "proof", "text": c["text"], "design_ref": f"DESIGN.md section 5, {pid}"},
        "level_note": c["note"],
        "technique": c["technique"],
    })
na = [{"property_id": p, "reason": M.NOT_APPLICABLE.get(p, "check not built yet (planned: DESIGN.md section 5); not claimed")}
      for p in ALL if p not in M.CLAIMED]
man = {
    "version": 1,
    "setup_cmd": "./setup.sh",
    "hooks": {
        "guard": "scpi_rs_verif",
        "enable": "no hooks are needed: the harness uses only public API of /repo's crates (RUSTFLAGS=\"--cfg scpi_rs_verif\" would enable them if any existed)",
        "baseline_off_cmd": "cd /repo && cargo test --workspace --no-fail-fast --offline",
        "source_commits": [],
        "add_only": True,
    },
    "engines": [{"name": "coq", "path": "/verif/coq", "serves_properties": [c["property_id"] for c in checks],
                 "kind_free_text": "Coq 8.16.1 development (model, specs, proofs) + Rust correspondence harness + Python driver ./check"}],
    "checks": checks,
    "notes": M.NOTES,
    "not_applicable": na,
}
json.dump(man, open(os.path.join(os.path.dirname(HERE), "MANIFEST.json"), "w"), indent=1)
try:
    import jsonschema
    jsonschema.validate(man, json.load(open("/root/.vp/MANIFEST.schema.json")))
    print("MANIFEST.json valid;", len(checks), "checks,", len(na), "not claimed")
except ImportError:
    print("MANIFEST.json written (jsonschema not available)")
