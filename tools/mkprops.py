#!/usr/bin/env python3
"""mkprops.py Cxx "<header comment>" "<imports>" File_proofs:name[,name...] [File2:...] [--examples file]
Generates coq/Properties/Cxx.v: every named Theorem/Lemma of the proofs files restated verbatim as
`Theorem Cxx_<name> : <statement>. Proof. exact <name>. Qed.` + Print Assumptions, then Pins/Cxx.v."""
import os, re, sys
sys.path.insert(0, os.path.dirname(os.path.abspath(__file__)))
from vlib import COQ, strip_coq_comments
import pin

pid, header, imports = sys.argv[1:4]
specs = [a for a in sys.argv[4:] if not a.startswith("--")]
section = None
if "--section" in sys.argv:
    section = sys.argv[sys.argv.index("--section") + 1]
    specs = [a for a in specs if a != section]
extra = None
if "--examples" in sys.argv:
    extra = open(sys.argv[sys.argv.index("--examples") + 1]).read()
out = [f"(* {pid} — {header}\n   Statements only: each theorem is closed by `exact` of a lemma proved in the *_proofs.v files. *)", imports, ""]
names = []
if section:
    out.append(f"Section {pid}_statements.\n{section}\n")
for sp in specs:
    if sp == "--examples" or (extra is not None and sp == sys.argv[sys.argv.index("--examples") + 1]):
        continue
    if sp.startswith("@"):                      # raw vernacular (imports / scope switches) between groups
        out.append(sp[1:] + "\n"); continue
    f, ns = sp.split(":")
    txt = strip_coq_comments(open(os.path.join(COQ, f + ".v")).read())
    for n in ns.split(","):
        m = re.search(r"(?s)\b(?:Theorem|Lemma|Corollary)\s+" + re.escape(n) + r"\b(.*?)\.\s*\n\s*Proof\b", txt)
        if not m:
            raise SystemExit(f"statement of {n} not found in {f}.v")
        stmt = m.group(1).strip()
        if not stmt.startswith(":"):
            # binders before the colon: turn `(x : T) ... : S` into forall
            b, s = stmt.split(":", 1) if stmt.startswith("(") is False else (None, None)
            raise SystemExit(f"{n}: binder-style statements are not supported, restate with forall")
        # inside a Section the proved lemma is generalised over the section variables it uses: `apply` instantiates them
        tac = f"apply {n}" if section else f"exact {n}"
        out.append(f"Theorem {pid}_{n} {stmt}.\nProof. {tac}. Qed.\n")
        names.append(f"{pid}_{n}")
if section:
    out.append(f"End {pid}_statements.\n")
if extra:
    out.append(extra)
out += [f"Print Assumptions {n}." for n in names]
with open(os.path.join(COQ, "Properties", pid + ".v"), "w") as fh:
    fh.write("\n".join(out) + "\n")
pin.pin(pid)
print("wrote Properties/%s.v with %d theorems" % (pid, len(names)))
