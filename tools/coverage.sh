#!/bin/sh
# tools/coverage.sh [Cxx ...] — development aid, not a check: which lines of /repo's library source do the
# correspondence streams of the checks execute?  Builds the harness with nightly + -C instrument-coverage into
# /tmp/covt, runs the quick tier of the given checks (default: all) against that binary (evidence redirected), merges the
# profiles and prints a per-file summary plus the uncovered lines (tools/coverage_report.txt).
set -e
BIN=$(dirname "$(rustc +nightly --print target-libdir)")/bin
cd /verif/harness
mkdir -p /tmp/covbuild; LLVM_PROFILE_FILE=/tmp/covbuild/b-%p.profraw CARGO_NET_OFFLINE=true CARGO_TARGET_DIR=/tmp/covt RUSTFLAGS="-C instrument-coverage" cargo +nightly build --offline --quiet
rm -rf /tmp/covprof; mkdir -p /tmp/covprof /tmp/cov_evidence
cd /verif
export VERIF_HARNESS_EXE=/tmp/covt/debug/vharness LLVM_PROFILE_FILE=/tmp/covprof/c-%p-%8m.profraw VERIF_EVIDENCE_DIR=/tmp/cov_evidence
[ $# -eq 0 ] && set -- C01 C02 C03 C04 C05 C06 C07 C08 C09 C10 C11 C12 C13 C14 C15 C16 C17 C18 C19 C20
for c in "$@"; do ./check $c --tier quick > /tmp/covrun_$c.log 2>&1 || true; tail -1 /tmp/covrun_$c.log; done
unset VERIF_HARNESS_EXE LLVM_PROFILE_FILE
"$BIN/llvm-profdata" merge -sparse /tmp/covprof/*.profraw -o /tmp/cov.profdata
"$BIN/llvm-cov" report /tmp/covt/debug/vharness -instr-profile=/tmp/cov.profdata $(find /repo/scpi/src /repo/scpi-contrib/src -name '*.rs' | grep -v tests) | tee /verif/tools/coverage_report.txt
"$BIN/llvm-cov" show /tmp/covt/debug/vharness -instr-profile=/tmp/cov.profdata --show-line-counts $(find /repo/scpi/src /repo/scpi-contrib/src -name '*.rs' | grep -v tests) > /tmp/cov_show.txt
