#!/bin/sh
# Regenerates coq/Properties/Cxx.v and coq/Pins/Cxx.v (tools/mkprops.py) for the properties whose statement files are
# generated.  (C03, C12, C13, C14, C15, C16 have hand-written Properties/ files from the first sessions; their pins come
# from tools/pin.py.)  Run from /verif after changing a *_proofs.v statement or adding a theorem.
set -e
cd "$(dirname "$0")/.."
SEC='Context {D : Type}.'
python3 tools/mkprops.py C01 "Arbitrary input is processed totally: no panic, overflow, hang or internal error" "From VF Require Import Base Gen_Errors Lexer Response Tree Conv Lists Lexer_proofs Tree_proofs Conv_proofs Lists_proofs.
Open Scope N_scope." Lexer_proofs:lex_next_no_panic,lex_progress,lex_total,lex_params_total,tokenize_shape Tree_proofs:run_tokens_total,run_total,pull_only_data,pull_req_only_data Conv_proofs:conv_total Lists_proofs:nlist_total,clist_total,spec_values_total,spec_tuple_total --section "$SEC"
python3 tools/mkprops.py C02 "Compound-command header paths resolve to exactly the SCPI-designated handler" "From VF Require Import Base Gen_Errors Lexer Mnemonic Grammar Response Tree HeaderSpec Header_proofs MessageSpec Message_proofs.
Open Scope N_scope." Header_proofs:resolve_sound,resolve_undefined,exec_undefined_invokes_nothing,resolve_complete,designation_unique,default_branch_omitted,default_leaf_omitted,node_spelled_out,unit_absolute,unit_common_keeps_context,unit_relative,message_starts_at_root Message_proofs:message_semantics --section "$SEC"
python3 tools/mkprops.py C04 "Lexing is faithful: element boundaries and types follow IEEE 488.2 section 7" "From VF Require Import Base Gen_Errors Fmt Lexer Grammar Lexer_proofs Grammar_proofs Message_proofs2 Message_proofs3 Lexer_ranges.
Open Scope N_scope." Grammar_proofs:lex_faithful Message_proofs2:lex_faithful_trailing_separator,lex_empty Message_proofs3:tokenize_prefix Lexer_ranges:lex_next_range,lex_next_range_suffix,tokenize_ranges,tokenize_params_ranges,payload_bytes_from_input,payload_total_length,tokenize_tiles,tokenize_params_tiles,range_mnemonic,range_char,range_dec,range_decsuffix,range_nondec,range_string,range_block,range_block_definite,range_expr,range_separator Lexer_proofs:lex_total,lex_params_total,lex_progress,tokenize_shape,lex_error_class,mnemonic_13,chardata_13,unterminated_string,non_ascii_in_string,non_ascii_outside,block_truncated,block_bad_header,doubled_colon,colon_in_data,colon_in_common,comma_in_header,doubled_comma,comma_after_header_sep,missing_separator_after_chardata,missing_separator_after_string
python3 tools/mkprops.py C05 "Units run in order; the first error aborts the message and is reported once" "From VF Require Import Base Gen_Errors Lexer Grammar Response Tree Tree_proofs HeaderSpec MessageSpec Message_proofs Message_proofs2 MessageSpec3 Message_proofs3.
Open Scope N_scope." Tree_proofs:hook_exactly_once,exec_invokes_at_most_once,first_error_aborts,stream_error_aborts,trace_bounded_by_units,leftover_is_108 Message_proofs:message_semantics,message_semantics_tokens,layout_independent,spec_units_ok_trace,spec_units_err_trace,spec_units_trace_extends Message_proofs2:message_semantics_empty,message_semantics_trailing_separator Message_proofs3:message_prefix_semantics,run_from_prefix_semantics,bad_unit_aborts,prefix_trace_preserved,failed_prefix_tail_irrelevant,failed_prefix_trace_exact,spec_units_prefix --section "$SEC"
python3 tools/mkprops.py C06 "A handler sees exactly its own unit's parameters; wrong arity is an error" "From VF Require Import Base Gen_Errors Lexer Grammar Response Tree Tree_proofs HeaderSpec MessageSpec Message_proofs.
Open Scope N_scope." Tree_proofs:pull_only_data,pull_req_only_data,pull_consumes_only_data,pull_req_consumes_only_data,pull_first_datum,pull_next_datum,pull_at_unit_end,handler_stays_in_unit,leftover_is_108 Message_proofs:message_semantics,spec_prog_consumes_prefix --section "$SEC"
FL='@(* the float the model reads for a decimal literal IS the correctly rounded IEEE-754 value (Flocq 4.1) *)
From Coq Require Import Reals.
From Flocq Require Import Core.Core IEEE754.BinarySingleNaN.
From VF Require Import Float_proofs.
Local Close Scope Q_scope.
Local Open Scope Z_scope.'
QH="From Coq Require Import QArith Qabs Floats.SpecFloat.
From VF Require Import Base Gen_Errors Fmt Lexer Mnemonic Conv Conv_proofs.
Local Open Scope Q_scope."
python3 tools/mkprops.py C07 "Integer parameters convert to the exactly rounded value or a range error" "$QH" Conv_proofs:int_conv_correct,round_half_away_nearest,round_half_away_none,nr1_exact,nr1_range,int_result_in_range,nondec_exact,int_keywords,int_suffix_rejected,int_other_rejected,accept_int "$FL" Float_proofs:dec2sf_correct_f64,dec2sf_correct_f32
python3 tools/mkprops.py C08 "Float, boolean and keyword parameters convert to the exact denoted value" "$QH" Conv_proofs:float_conv_dec,float_keywords,bool_numeric,bool_numeric_total,bool_onoff,accept_float,accept_bool,accept_bytes,conv_error_codes,conv_total "$FL" Float_proofs:dec2sf_correct_f64,dec2sf_correct_f32,dec2sf_core_correct_f64,dec2sf_core_correct_f32,dec_value_sign
python3 tools/mkprops.py C09 "Response data is well-formed and denotes exactly the value that was formatted" "From VF Require Import Base Gen_Errors Gen_Consts ErrTable Fmt Lexer Grammar Response Conv Fmt_proofs ResponseDecoder ResponseDecoder_proofs.
Open Scope N_scope." Fmt_proofs:int_text,fmt_N_digits,int_dec_rt,radix_rt,bool_rt,string_text,string_non_ascii,string_rt,string_exact_when_no_quote,block_text,block_too_long,block_rt,char_rt,expr_rt,error_text,error_rt,list_empty,list_text,int_list_rt ResponseDecoder_proofs:response_decodes,emit_message_text,unit_count_preserved,item_count_preserved,separators_inside_string_are_data,separators_inside_block_are_data,decode_response_fuel
python3 tools/mkprops.py C10 "Responses are framed exactly: ; between units, , between data, one final NL" "From VF Require Import Base Gen_Errors Gen_Consts Fmt Lexer Grammar Response Tree HeaderSpec MessageSpec Resp_proofs Message_proofs Message_proofs2 ResponseDecoder ResponseDecoder_proofs.
Open Scope N_scope." Resp_proofs:framing,unit_text_structure,event_writes_nothing Message_proofs2:spec_message_framing,message_semantics_empty,message_semantics_trailing_separator Message_proofs:message_semantics ResponseDecoder_proofs:response_decodes,framed_run_decodes,unit_count_preserved,item_count_preserved --section "$SEC"
python3 tools/mkprops.py C11 "Fixed-capacity, allocation-free operation: overflow is an error, never a panic" "From VF Require Import Base Gen_Errors Gen_Consts Fmt Lexer Response Tree Resp_proofs Tree_proofs.
Open Scope N_scope." Resp_proofs:run_never_exceeds_capacity,cap_fits,cap_prefix,cap_overflow,push_fits,push_error_is_225,push_appends Tree_proofs:run_total --section "$SEC"
python3 tools/mkprops.py C17 "numeric_value parameters resolve MIN/MAX/DEF and never leave [min,max] (for ANY carrier type with a possibly partial order)" "From VF Require Import Base Gen_Errors Lexer Mnemonic MnemonicSpec Numeric Numeric_proofs." Numeric_proofs:keyword_tests,nv_keywords,nv_other_elements,nv_value_spec,build_fields,finish_max,finish_min,finish_default,finish_up_down,finish_value,value_in_range,resolved_in_range,out_of_range_only_for_values --section "Context {T : Type}.
Variable leb : T -> T -> bool.
Variable convT : token -> outcome (res T).
Variables tmax tmin : T.
Notation try_from := (nv_try_from convT).
Notation fin := (finish leb).
Notation bld := (build tmax tmin).
Notation last_max := (@Numeric_proofs.last_max T tmax).
Notation last_min := (@Numeric_proofs.last_min T tmin).
Notation last_default := (@Numeric_proofs.last_default T)."
python3 tools/mkprops.py C18 "Unit suffixes scale by their SCPI multiplier; unknown suffixes are rejected" "From Coq Require Import QArith String.
From VF Require Import Base Gen_Errors Lexer Conv Gen_Suffix SuffixSpec Suffix Suffix_proofs.
Open Scope string_scope." Suffix_proofs:suffix_table_ok,suffix_conversion_is_scpi,lookup_sound,lookup_none,unknown_suffix_rejected,non_numeric_rejected,bare_number_in_base_unit,suffixed_number_value,amplitude_classifies,amplitude_plain,db_number_unchanged,db_bare_number
python3 tools/mkprops.py C19 "Channel lists and numeric lists parse to exactly the SCPI-denoted entries" "From VF Require Import Base Gen_Errors ErrTable Fmt Lexer Grammar Lists ListGrammar Lists_proofs.
Open Scope N_scope." Lists_proofs:num_entries,chan_entries,not_a_channel_list,spec_dims_ok,tuple_conv,tuple_conv_wrong_dimension,spec_empty_dimension,nl_leading_comma,nl_doubled_comma,nl_missing_separator,nl_third_range_end,cl_leading_comma,cl_doubled_comma,cl_third_range_end,cl_unequal_dimensions,cl_foreign_character,cl_foreign_character_exact,nlist_total,clist_total,spec_values_total,spec_tuple_total
python3 tools/mkprops.py C20 "Derived enums map mnemonics to variants and back consistently" "From VF Require Import Base Gen_Errors Lexer Mnemonic MnemonicSpec Enum Enum_proofs.
Open Scope N_scope." Enum_proofs:from_sound,from_first,from_none,from_iff,try_from_char,try_from_other,illegal_iff,mnemonic_own,short_form_shape,response_form,response_matches_own,enum_roundtrip
