"""Shared machinery of the ./check driver (DESIGN 2.4).

Flow for one property: translate -> make (Coq, full .vo) -> audit (forbidden
words, Print Assumptions allow-list, pinned statements) -> build harness from
/repo's working tree -> corpus + generated cases on implementation and model
-> compare through the property's observation function -> evidence / replay.
"""
import fcntl, hashlib, json, os, random, re, shutil, subprocess, sys, time
from concurrent.futures import ThreadPoolExecutor

VERIF = os.path.dirname(os.path.dirname(os.path.abspath(__file__)))
REPO = os.environ.get("VERIF_REPO", "/repo")
COQ = os.path.join(VERIF, "coq")
BUILD = os.path.join(VERIF, ".build")
HARNESS = os.path.join(VERIF, "harness")
EVID = os.environ.get("VERIF_EVIDENCE_DIR") or os.path.join(VERIF, "evidence")   # seeded-change runs redirect it
REPLAYS = os.path.join(VERIF, "replays")
KNOWN = os.path.join(VERIF, "known_findings.txt")
NCPU = min(16, os.cpu_count() or 4)

FORBIDDEN = re.compile(
    r"\b(Admitted|admit|Axiom|Axioms|Parameter|Parameters|Conjecture|Conjectures|Hypothesis|Hypotheses|Variable|Variables|"
    r"Admit Obligations|Unset Guard Checking|Unset Positivity Checking|Unset Universe Checking|bypass_check|"
    r"type-in-type|impredicative-set|native_compute)\b")

# the four standard-library axioms Flocq's real-number development rests on (DESIGN 4)
FLOCQ_AXIOMS = {
    "ClassicalDedekindReals.sig_forall_dec",
    "ClassicalDedekindReals.sig_not_dec",
    "FunctionalExtensionality.functional_extensionality_dep",
    "Classical_Prop.classic",
}

ENV = dict(os.environ, CARGO_NET_OFFLINE="true")


def log(*a):
    print(*a, flush=True)


class Lock:
    def __init__(self, name):
        os.makedirs(BUILD, exist_ok=True)
        self.path = os.path.join(BUILD, name + ".lock")

    def __enter__(self):
        self.f = open(self.path, "w")
        fcntl.flock(self.f, fcntl.LOCK_EX)
        return self

    def __exit__(self, *a):
        fcntl.flock(self.f, fcntl.LOCK_UN)
        self.f.close()


def run(cmd, cwd=None, timeout=None, input=None, env=None):
    p = subprocess.run(cmd, cwd=cwd, timeout=timeout, input=input, env=env or ENV,
                       stdout=subprocess.PIPE, stderr=subprocess.STDOUT, text=True)
    return p.returncode, p.stdout


# ------------------------------------------------------------------ Coq side
def translate():
    """regenerate coq/gen/*.v from /repo.  Returns (ok, text, failed): `failed` lists the generated files that could be
    produced neither from the source text (regular expressions) nor — for the error table, the ESR classes and the
    response separators — from the exhaustive behavioural dump of the compiled crate (harness kind `dumptab`)."""
    tr = os.path.join(VERIF, "tools", "translate.py")
    rc, out = run([sys.executable, tr], cwd=VERIF, timeout=120)
    text = out.strip()
    if rc == 0:
        return True, text, []
    failed = re.findall(r"translate: FAILED (Gen_\w+\.v)", out)
    if not failed:
        return False, text, ["Gen_Errors.v", "Gen_Esr.v", "Gen_Consts.v", "Gen_Suffix.v"]
    fb = [f for f in failed if f in ("Gen_Errors.v", "Gen_Esr.v", "Gen_Consts.v")]
    still = [f for f in failed if f not in fb]
    if fb:
        ok, bout = build_harness("debug")
        res = run_harness(["dumptab"], "debug") if ok else None
        if res and res[0] and res[0].startswith("E "):
            rc2, out2 = run([sys.executable, tr, "--from-dump", ",".join(fb)], cwd=VERIF, timeout=120, input=res[0])
            text += "\n" + out2.strip()
            if rc2 != 0: still += fb
        else:
            text += "\ntranslate: behavioural fallback unavailable (harness does not build / dump failed)"
            still += fb
    return (not still), text, still


def gen_deps(pid, targets):
    """the generated files (coq/gen/Gen_*.v) the property's targets transitively depend on"""
    req = {}
    for rel in coq_project_files():
        mod = os.path.splitext(os.path.basename(rel))[0] if not rel.startswith(("Properties", "Pins", "NonVacuous")) else rel[:-2].replace("/", ".")
        txt = strip_coq_comments(open(os.path.join(COQ, rel)).read())
        deps = set()
        for m in re.finditer(r"From\s+VF(?:\.(\w+))?\s+Require\s+(?:Import\s+|Export\s+)?([^.]*)\.", txt):
            for name in m.group(2).split():
                deps.add((m.group(1) + "." if m.group(1) else "") + name)
        req[mod] = deps
    # Run.v is the common case runner and imports every model: it is not what makes a PROPERTY depend on a table
    todo = [t[:-3].replace("/", ".") for t in targets if t != "Run.vo"] + ["Properties." + pid, "Pins." + pid]
    seen = set()
    while todo:
        x = todo.pop()
        if x in seen: continue
        seen.add(x)
        todo += list(req.get(x, ()))
    return sorted(x + ".v" for x in seen if x.startswith("Gen_"))


def coq_project_files():
    files = []
    for root, _, names in os.walk(COQ):
        for n in names:
            if n.endswith(".v") and not n.startswith("cases_") and not n.startswith("."):
                files.append(os.path.relpath(os.path.join(root, n), COQ))
    return sorted(files)


def coq_makefile():
    proj = open(os.path.join(COQ, "_CoqProject")).read()
    allp = proj + "\n".join(coq_project_files()) + "\n"
    p = os.path.join(COQ, "_CoqProject.all")
    old = open(p).read() if os.path.exists(p) else None
    if old != allp or not os.path.exists(os.path.join(COQ, "Makefile")):
        with open(p, "w") as f:
            f.write(allp)
        rc, out = run(["coq_makefile", "-f", "_CoqProject.all", "-o", "Makefile"], cwd=COQ, timeout=120)
        if rc != 0:
            raise RuntimeError("coq_makefile failed: " + out)


def coq_make(targets, timeout=1500):
    """full .vo build of the given targets; returns (ok, output)"""
    coq_makefile()
    rc, out = run(["timeout", str(timeout), "make", "-j%d" % NCPU] + targets, cwd=COQ, timeout=timeout + 30)
    return rc == 0, out


def audit_sources():
    """forbidden vernacular anywhere in the development (comments stripped)"""
    bad = []
    for rel in coq_project_files():
        txt = open(os.path.join(COQ, rel)).read()
        txt = strip_coq_comments(txt)
        # Section-local Variable/Hypothesis are allowed: only flag them outside sections
        depth = 0
        for ln, line in enumerate(txt.split("\n"), 1):
            if re.match(r"\s*Section\b", line): depth += 1
            if re.match(r"\s*End\b", line) and depth > 0: depth -= 1
            for m in FORBIDDEN.finditer(line):
                w = m.group(1)
                if w in ("Variable", "Variables", "Hypothesis", "Hypotheses") and depth > 0:
                    continue
                if w in ("Parameter", "Parameters") and re.search(r"\(\*|Print", line):
                    continue
                bad.append(f"{rel}:{ln}: {w}")
    return bad


def strip_coq_comments(txt):
    out = []
    depth = 0
    i = 0
    instr = False
    while i < len(txt):
        if not instr and txt.startswith("(*", i):
            depth += 1; i += 2; continue
        if not instr and depth > 0 and txt.startswith("*)", i):
            depth -= 1; i += 2; continue
        c = txt[i]
        if depth == 0:
            if c == '"':
                instr = not instr
            out.append(c)
        elif c == "\n":
            out.append(c)
        i += 1
    return "".join(out)


def property_theorems(pid):
    """names of the Theorems stated in Properties/<pid>.v"""
    txt = strip_coq_comments(open(os.path.join(COQ, "Properties", pid + ".v")).read())
    return re.findall(r"^\s*Theorem\s+([A-Za-z0-9_']+)", txt, re.M)


def audit_property(pid, allowed_axioms):
    """compile Properties/<pid>.v by hand, capture Print Assumptions; returns
    (ok, obligations, discharged, details)"""
    os.makedirs(BUILD, exist_ok=True)
    os.makedirs(os.path.join(BUILD, "audit"), exist_ok=True)
    src = os.path.join(COQ, "Properties", pid + ".v")
    txt = strip_coq_comments(open(src).read())
    theorems = property_theorems(pid)
    printed = re.findall(r"^\s*Print Assumptions\s+([A-Za-z0-9_']+)\s*\.", txt, re.M)
    details = []
    missing = [t for t in theorems if t not in printed]
    if missing:
        details.append("no Print Assumptions for: " + ", ".join(missing))
    # every theorem must be closed by `exact` (statement files hold no proof scripts)
    rc, out = run(["timeout", "600", "coqc", "-Q", ".", "VF", "-w", "-notation-overridden",
                   "-o", os.path.join(BUILD, "audit", pid + ".vo"), src], cwd=COQ, timeout=630)
    if rc != 0:
        return False, len(theorems), 0, ["Properties/%s.v does not compile: %s" % (pid, out[-800:])]
    # split output into blocks, one per Print Assumptions, in order
    blocks = re.split(r"(?m)^(?=Closed under the global context|Axioms:)", out)
    blocks = [b for b in blocks if b.startswith("Closed under") or b.startswith("Axioms:")]
    discharged = 0
    axioms_used = {}
    if len(blocks) != len(printed):
        details.append(f"{len(printed)} Print Assumptions but {len(blocks)} answers")
    for name, b in zip(printed, blocks):
        if b.startswith("Closed under"):
            ax = set()
        else:
            ax = set(re.findall(r"(?m)^([A-Za-z0-9_.']+)\s*:", b[len("Axioms:"):]))
        axioms_used[name] = sorted(ax)
        extra = ax - set(allowed_axioms)
        if extra:
            details.append(f"{name} depends on non-allow-listed axioms: {sorted(extra)}")
        elif name in theorems:
            discharged += 1
    ok = not details and discharged == len(theorems)
    return ok, len(theorems), discharged, details + [json.dumps(axioms_used)]


def coqchk_property(pid, allowed_axioms, timeout=1500):
    """thorough tier: re-check Properties/<pid>.vo and everything it depends on with the independent checker;
    returns (ok, summary)"""
    rc, out = run(["timeout", str(timeout), "coqchk", "-o", "-silent", "-Q", ".", "VF", "VF.Properties." + pid], cwd=COQ, timeout=timeout + 30)
    if rc != 0:
        return False, "coqchk failed: " + out[-400:]
    m = re.search(r"\* Axioms:(.*?)\n\s*\n\* Constants/Inductives relying on type-in-type:(.*?)\n\s*\n\* Constants/Inductives relying on unsafe \(co\)fixpoints:(.*?)\n\s*\n\* Inductives whose positivity is assumed:(.*?)(\n\s*\n|$)", out, re.S)
    if not m:
        return False, "coqchk summary not understood: " + out[-300:]
    axioms = [a.strip() for a in m.group(1).split("\n") if a.strip() and a.strip() != "<none>"]
    others = [x.strip() for x in (m.group(2), m.group(3), m.group(4)) if x.strip() != "<none>"]
    names = set(a.split(":")[0].strip().replace("Coq.Logic.", "").replace("Coq.Reals.", "") for a in axioms)
    extra = [n for n in names if not any(n.endswith(al.split(".")[-1]) for al in allowed_axioms)]
    ok = not extra and not others
    return ok, "coqchk: axioms=%s%s" % (sorted(names) or "none", (" NOT ALLOWED: %s %s" % (extra, others)) if not ok else "")


def check_pins(pid):
    """Pins/<pid>.v re-states every property theorem with `Check (name : stmt)`;
    it is compiled by make.  Here: every theorem must be pinned."""
    p = os.path.join(COQ, "Pins", pid + ".v")
    if not os.path.exists(p):
        return ["Pins/%s.v missing" % pid]
    txt = strip_coq_comments(open(p).read())
    pinned = set(x.split(".")[-1] for x in re.findall(r"Check\s*\(\s*([A-Za-z0-9_'.]+)\s*:", txt))
    pinned |= set(x.split(".")[-1] for x in re.findall(r"Proof\.\s*apply\s+([A-Za-z0-9_'.]+?)\.\s*Qed\.", txt))
    return ["not pinned: " + t for t in property_theorems(pid) if t not in pinned]


def run_coq_cases(terms, imports, tag, timeout=900):
    if len(terms) > 50000: timeout = max(timeout, 3000)   # thorough tiers: a shard of many long literals can take more than 15 min on a loaded machine
    """evaluate Coq terms of type string with vm_compute, sharded over NCPU coqc
    processes.  Returns list of result strings (None where evaluation failed)."""
    if not terms:
        return []
    os.makedirs(BUILD, exist_ok=True)
    per = max(1, min(400, (len(terms) + NCPU - 1) // NCPU))
    shards = [list(range(i, min(i + per, len(terms)))) for i in range(0, len(terms), per)]
    results = [None] * len(terms)

    def one(k):
        idx = shards[k]
        d = os.path.join(BUILD, "cases", tag)
        os.makedirs(d, exist_ok=True)
        name = f"cases_{k}"
        path = os.path.join(d, name + ".v")
        with open(path, "w") as f:
            f.write(imports + "\nOpen Scope string_scope.\n")
            f.write("Definition cases : list string := [\n")
            f.write(";\n".join("  (" + terms[i] + ")" for i in idx))
            f.write("\n].\nEval vm_compute in cases.\n")
        # long histories make deep (non tail-recursive) string concatenations: lift the stack limit for the evaluator
        rc, out = run(["sh", "-c", "ulimit -s unlimited 2>/dev/null || ulimit -s 4000000 2>/dev/null; exec timeout %d coqc -noglob -Q '%s' VF -w -notation-overridden '%s'"
                       % (timeout, COQ, path)], cwd=d, timeout=timeout + 30)
        if rc != 0:
            return k, None, out[-2000:]
        strs = re.findall(r'"([^"]*)"', out)
        if len(strs) != len(idx):
            return k, None, f"expected {len(idx)} strings, parsed {len(strs)}: {out[:500]}"
        return k, strs, ""

    errors = []
    with ThreadPoolExecutor(max_workers=NCPU) as ex:
        for k, strs, err in ex.map(one, range(len(shards))):
            if strs is None:
                errors.append(err)
            else:
                for i, s in zip(shards[k], strs):
                    results[i] = s
    shutil.rmtree(os.path.join(BUILD, "cases", tag), ignore_errors=True)
    return results, errors


# ---------------------------------------------------------------- Rust side
def build_harness(profile="debug", timeout=1200):
    with Lock("cargo"):
        shutil.copyfile(os.path.join(REPO, "Cargo.lock"), os.path.join(HARNESS, "Cargo.lock"))
        cmd = ["timeout", str(timeout), "cargo", "build", "--offline", "--quiet"]
        if profile == "release":
            cmd.append("--release")
        env = dict(ENV)
        rc, out = run(cmd, cwd=HARNESS, timeout=timeout + 30, env=env)
    return rc == 0, out


def run_harness(lines, profile="debug", timeout=900):
    """feed case lines to the harness; split over NCPU processes"""
    if not lines:
        return []
    exe = os.path.join(HARNESS, "target", profile, "vharness")
    if os.environ.get("VERIF_HARNESS_EXE"):      # tools/coverage.py: an instrumented build of the same crate
        exe = os.environ["VERIF_HARNESS_EXE"]
    n = min(NCPU, max(1, len(lines) // 50))
    chunks = [lines[i::n] for i in range(n)]

    def one(chunk):
        outl = []
        todo = list(chunk)
        while todo:
            try:
                p = subprocess.run(["timeout", str(timeout), exe], input="\n".join(todo) + "\n",
                                   stdout=subprocess.PIPE, stderr=subprocess.PIPE, text=True, timeout=timeout + 30)
                got = p.stdout.split("\n"); rc = p.returncode
            except subprocess.TimeoutExpired as e:
                got = (e.stdout or b"").decode(errors="replace").split("\n") if isinstance(e.stdout, bytes) else (e.stdout or "").split("\n"); rc = 124
            if got and got[-1] == "":
                got.pop()
            if len(got) >= len(todo):
                outl += got[:len(todo)]
                break
            # the process died before finishing (abort / stack overflow / watchdog): the case after the
            # last complete answer is the culprit unless that answer is itself the HANG report
            if got and got[-1].startswith("HANG"):
                outl += got
                todo = todo[len(got):]
            else:
                outl += got + ["CRASH rc=%d" % rc]
                todo = todo[len(got) + 1:]
        return outl

    with ThreadPoolExecutor(max_workers=n) as ex:
        outs = list(ex.map(one, chunks))
    res = [None] * len(lines)
    for k, o in enumerate(outs):
        for j, s in enumerate(o):
            res[k + j * n] = s
    return res


# ----------------------------------------------------------- known findings
def load_known():
    known, fixed = [], []
    if os.path.exists(KNOWN):
        for line in open(KNOWN):
            line = line.rstrip("\n")
            if line.startswith("known:"):
                m = re.match(r"known:\s*property=(\S+)\s+match=(\S+)\s+::\s*(.*)", line)
                if m:
                    known.append((m.group(1), re.compile(m.group(2)), m.group(3)))
            elif line.startswith("fixed:"):
                fixed.append(line)
    return known, fixed


# ------------------------------------------------------------------- driver
class Violation:
    def __init__(self, case_line, impl, model, why, no_input=False):
        self.case_line, self.impl, self.model, self.why, self.no_input = case_line, impl, model, why, no_input


def write_replay(pid, v, extra=None):
    os.makedirs(REPLAYS, exist_ok=True)
    h = hashlib.sha1(((v.case_line or "") + "|" + v.why).encode()).hexdigest()[:12]
    path = os.path.join(REPLAYS, f"{pid}-{h}.json")
    with open(path, "w") as f:
        json.dump({"property": pid, "case": v.case_line, "impl": v.impl, "model_or_spec": v.model,
                   "why": v.why, "no_failing_input_found": v.no_input, **(extra or {})}, f, indent=1)
    return path


def write_evidence(pid, tier, seed, coverage, assumptions, wall, nviol):
    os.makedirs(EVID, exist_ok=True)
    ev = {"property_id": pid, "tier": tier, "seed": seed, "level": "proof", "coverage": coverage,
          "assumptions": assumptions, "wall_s": round(wall, 2), "violations": nviol}
    with open(os.path.join(EVID, pid + ".json"), "w") as f:
        json.dump(ev, f, indent=1)


TRUSTED_BASE = [
    "Coq 8.16.1 kernel (coqc; vm_compute for closed finite facts only; no native_compute)",
    "tools/translate.py (regex translator of error table, esr arms, suffix tables, response constants), validated behaviourally against the live crate on every run",
    "correspondence check: harness/ (Rust, public API of /repo only), tools/props/*.py case generators, coqc vm_compute evaluation of the model in coq/Run.v",
    "modelled, not verified: lexical-core 0.8.5 float parse/write (specified as correct rounding, validated per case), arrayvec 0.7.8, alloc::Vec, uom 0.36 unit coefficients, core slice/ascii helpers, rustc IEEE-754 semantics",
]
