"""Translator, part 2: the unit-suffix tables of scpi/src/parser/suffix.rs -> coq/gen/Gen_Suffix.v.
A small bracket-matching reader of the `impl_unit!` / `impl_logarithmic_unit!` macro INVOCATIONS (any delimiter, any
layout, comments, trailing commas, entries in any formatting).  The macro BODY is not interpreted: that a table entry is
looked up case-insensitively and that everything else is rejected is checked behaviourally for every entry and for near
misses by C18's correspondence stream; the order of the entries matters only if one spelling occurs twice in a table,
which is rejected here."""
import os, re


class TranslateError(Exception):
    pass


def _strip_comments(src):
    out = []; i = 0; n = len(src)
    while i < n:
        c = src[i]
        if src.startswith("//", i):
            j = src.find("\n", i); i = n if j < 0 else j
        elif src.startswith("/*", i):
            depth = 1; i += 2
            while i < n and depth:
                if src.startswith("/*", i): depth += 1; i += 2
                elif src.startswith("*/", i): depth -= 1; i += 2
                else: i += 1
        elif c == '"':
            j = i + 1
            while j < n and src[j] != '"':
                j += 2 if src[j] == "\\" else 1
            out.append(src[i:j + 1]); i = j + 1
        elif c == "'" and i + 2 < n and (src[i + 2] == "'" or (src[i + 1] == "\\" and i + 3 < n and src[i + 3] == "'")):
            j = i + (3 if src[i + 2] == "'" else 4); out.append(src[i:j]); i = j
        else:
            out.append(c); i += 1
    return "".join(out)


def _invocations(src, name):
    """bodies of `name![ ... ]` / `name!( ... )` / `name!{ ... }` (not the macro_rules! definition)"""
    res = []
    for m in re.finditer(r"(?<![A-Za-z0-9_])" + re.escape(name) + r"\s*!\s*([\[\(\{])", src):
        before = src[max(0, m.start() - 40):m.start()]
        if re.search(r"macro_rules\s*!\s*$", before): continue
        open_c = m.group(1); close_c = {"[": "]", "(": ")", "{": "}"}[open_c]
        depth = 1; i = m.end(); instr = False
        while i < len(src) and depth:
            c = src[i]
            if instr:
                if c == "\\": i += 1
                elif c == '"': instr = False
            elif c == '"': instr = True
            elif c == open_c: depth += 1
            elif c == close_c: depth -= 1
            i += 1
        if depth: raise TranslateError("unbalanced delimiter in an invocation of " + name)
        res.append(src[m.end():i - 1])
    return res


def _entries(body):
    out = []
    for part in [p.strip() for p in body.split(",")]:
        if not part: continue
        m = re.fullmatch(r'((?:b"(?:[^"\\]|\\.)*"\s*\|?\s*)+)=>\s*([A-Za-z_][A-Za-z_0-9]*)', part, re.S)
        if not m:
            raise TranslateError(f"suffix entry not understood: {part!r}")
        sufs = re.findall(r'b"((?:[^"\\]|\\.)*)"', m.group(1))
        if any("\\" in s for s in sufs): raise TranslateError("escape in a suffix literal")
        out.append((sorted(sufs), m.group(2)))
    if not out: raise TranslateError("empty suffix table")
    out.sort(key=lambda e: (e[1], e[0]))      # canonical order: without a repeated spelling the order carries no meaning
    seen = set()
    for sufs, _ in out:
        for s in sufs:
            if s.upper() in seen: raise TranslateError(f"suffix {s!r} occurs twice in one table (the order of the entries would matter)")
            seen.add(s.upper())
    return out


def parse(repo):
    src = _strip_comments(open(os.path.join(repo, "scpi/src/parser/suffix.rs")).read())
    units, logs = [], []
    for body in _invocations(src, "impl_unit"):
        if ";" not in body: raise TranslateError("impl_unit! invocation without `;`")
        head, ents = body.split(";", 1)
        h = [x.strip() for x in head.split(",")]
        if len(h) != 3 or not re.fullmatch(r"[A-Za-z]+", h[1]) or not re.fullmatch(r"[a-z_0-9]+", h[2]):
            raise TranslateError(f"impl_unit! header not understood: {head!r}")
        units.append((h[1], h[2], _entries(ents)))
    for body in _invocations(src, "impl_logarithmic_unit"):
        if ";" not in body: raise TranslateError("impl_logarithmic_unit! invocation without `;`")
        head, ents = body.split(";", 1)
        h = [x.strip() for x in head.split(",")]
        if len(h) != 2 or not re.fullmatch(r"[A-Za-z]+", h[1]):
            raise TranslateError(f"impl_logarithmic_unit! header not understood: {head!r}")
        logs.append((h[1], _entries(ents)))
    if not units or not logs:
        raise TranslateError(f"{len(units)} impl_unit / {len(logs)} impl_logarithmic_unit invocations found")
    # canonical order (by quantity name): the order of the invocations in the file carries no meaning
    units.sort(key=lambda u: u[0]); logs.sort(key=lambda u: u[0])
    if len({u[0] for u in units}) != len(units) or len({u[0] for u in logs}) != len(logs):
        raise TranslateError("a quantity has two tables")
    return units, logs


def cb(b):
    return "[" + "; ".join(str(x) for x in b) + "]%N"


def gen_suffix(repo):
    units, logs = parse(repo)
    L = ["(* GENERATED by tools/translate_suffix.py from scpi/src/parser/suffix.rs — do not edit *)",
         "From VF Require Import Base.", "Open Scope string_scope.", "",
         "(* quantity, base unit (for a bare number), entries in source order: (spellings, uom unit) *)",
         "Definition suffix_tables : list (string * string * list (list (list N) * string)) := ["]
    L.append(";\n".join('  ("%s", "%s", [%s])' % (q, base, "; ".join('([%s], "%s")' % ("; ".join(cb(s.encode()) for s in sufs), u) for sufs, u in ents))
                        for q, base, ents in units))
    L.append("].")
    L.append("(* logarithmic (dB) suffixes: quantity, entries (spellings, reference unit) *)")
    L.append("Definition log_tables : list (string * list (list (list N) * string)) := [")
    L.append(";\n".join('  ("%s", [%s])' % (q, "; ".join('([%s], "%s")' % ("; ".join(cb(s.encode()) for s in sufs), u) for sufs, u in ents)) for q, ents in logs))
    L.append("].")
    L.append("")
    return "\n".join(L)
