"""Decimal literals and exact-arithmetic oracles for C07/C08/C09 (independent of the Coq model and of
lexical-core): correctly rounded binary floats from exact rationals, the integer-conversion rule of C07."""
from fractions import Fraction as Fr
import math

FMT = {"f32": (24, 128, 32), "f64": (53, 1024, 64)}          # precision, emax, width
INTS = {"i8": (-2**7, 2**7 - 1, "f32"), "u8": (0, 2**8 - 1, "f32"), "i16": (-2**15, 2**15 - 1, "f32"), "u16": (0, 2**16 - 1, "f32"),
        "i32": (-2**31, 2**31 - 1, "f64"), "u32": (0, 2**32 - 1, "f64"), "i64": (-2**63, 2**63 - 1, "f64"), "u64": (0, 2**64 - 1, "f64"),
        "isize": (-2**63, 2**63 - 1, "f64"), "usize": (0, 2**64 - 1, "f64")}


def literal_value(lit: bytes):
    """exact rational value of an NRf literal, or None"""
    s = lit.decode("ascii")
    try:
        neg = s.startswith("-")
        t = s.lstrip("+-")
        mant, _, ex = t.replace("E", "e").partition("e")
        ip, _, fp = mant.partition(".")
        if not (ip + fp) or not (ip + fp).isdigit(): return None
        e = int(ex) if ex else 0
        if abs(e) > 6000: return None            # astronomically large exponents: left to the model
        q = Fr(int(ip + fp)) * Fr(10) ** (e - len(fp))
        return (-q if neg else q), neg
    except (ValueError, ZeroDivisionError):
        return None


def round_nearest_even(q: Fr):
    fl = math.floor(q); r = q - fl
    if r < Fr(1, 2): return fl
    if r > Fr(1, 2): return fl + 1
    return fl if fl % 2 == 0 else fl + 1


def rn_float(q: Fr, neg: bool, fmt: str):
    """correctly rounded (nearest even) binary float: returns ('inf'|'zero'|'fin', sign, m, e) with value m*2^e"""
    prec, emax, _ = FMT[fmt]
    emin = 3 - emax - prec                      # exponent of the least subnormal bit (FLT_exp): -149 / -1074
    a = abs(q)
    if a == 0: return ("zero", neg, 0, 0)
    # exponent e with 2^(prec-1) <= a / 2^e < 2^prec, not below emin
    e = (a.numerator.bit_length() - a.denominator.bit_length()) - prec
    while a / Fr(2) ** e >= 2 ** prec: e += 1
    while a / Fr(2) ** e < 2 ** (prec - 1): e -= 1
    e = max(e, emin)
    m = round_nearest_even(a / Fr(2) ** e)
    if m == 2 ** prec: m //= 2; e += 1
    if e + prec > emax: return ("inf", neg, 0, 0)
    if m == 0: return ("zero", neg, 0, 0)
    return ("fin", neg, m, e)


def float_bits(r, fmt: str) -> int:
    prec, emax, w = FMT[fmt]
    kind, neg, m, e = r
    sgn = (1 << (w - 1)) if neg else 0
    ebits = w - prec
    if kind == "zero": return sgn
    if kind == "inf": return sgn + (((1 << ebits) - 1) << (prec - 1))
    if m < (1 << (prec - 1)): return sgn + m                 # subnormal (e == emin)
    return sgn + ((e + emax - 2 + prec) << (prec - 1)) + (m - (1 << (prec - 1)))


def float_value(r) -> Fr:
    kind, neg, m, e = r
    v = Fr(m) * Fr(2) ** e
    return -v if neg else v


def nearest_ints(x: Fr):
    fl = math.floor(x); r = x - fl
    if r < Fr(1, 2): return {fl}
    if r > Fr(1, 2): return {fl + 1}
    return {fl, fl + 1}


def int_allowed(ty: str, lit: bytes):
    """the outcomes C07 allows for a decimal literal: set of ('ok', n) / ('err', -222)"""
    lo, hi, fmt = INTS[ty]
    lv = literal_value(lit)
    if lv is None: return None
    q, neg = lv
    xs = [q]
    d = rn_float(q, neg, fmt)
    res = set()
    if d[0] == "inf": res.add(("err", -222))
    else: xs.append(float_value(d))
    for x in xs:
        for n in nearest_ints(x):
            res.add(("ok", n) if lo <= n <= hi else ("err", -222))
    return res


# ---------------------------------------------------------------- literal generators
def dec_str(fr: Fr, digits=3) -> str:
    sign = "-" if fr < 0 else ""
    a = abs(fr); ip = a.numerator // a.denominator; r = a - ip
    fs = ""
    for _ in range(digits):
        r *= 10; d = r.numerator // r.denominator; fs += str(d); r -= d
    return "%s%d.%s" % (sign, ip, fs)


ZEROS = ["0", "-0", "+0", "0.0", "-0.0", ".0", "0.", "0e0", "0E5", "-.0e-3", "00", "000.000", "0e400", "1e-320", "-1e-320", "1e-46", "4e-324", "2e-324", "1e-400", "-1e-400"]
GENERAL = ["0.4", "0.5", "0.6", "-0.4", "-0.5", "-0.6", "0.49999999999999994", "0.49999997", "0.50000001", "0.5000000000000001", "1.5", "2.5", "-1.5", "-2.5", "3.5",
           "1e400", "-1e400", "1e30", "-1e30", "1e39", "3.4028235e38", "3.4028236e38", "3.40282357e38", "1.7976931348623157e308", "1.7976931348623159e308", "1.8e308",
           "4503599627370497.0", "-4503599627370497.0", "4503599627370496.5", "4503599627370495.5", "9007199254740993.0", "9007199254740992.5",
           "16777217.0", "16777216.5", "8388609.0", "8388608.5", "4194304.5", "123456789.0", "3000000001.0", "1e0", "1E+2", "1e-2", "12.e1", "+.5E1", "1.000000000000000000000001e3",
           "1" + "0" * 40, "1" + "0" * 40 + ".0", "0." + "0" * 40 + "1", "9" * 25, "0.1", "0.3", "1.1e1", "655.35e2", "2.55e2", "25.5e1", "127.5", "-128.5", "255.5", "65535.5", "-32768.5", "32767.5"]


# spellings at the internal limits of a reader: exponents beyond any 16-bit bound, zero-padded exponents and mantissas,
# digit runs of 255 / 256 / 257 / 512, literals longer than 1100 bytes whose decisive digit lies beyond byte 1100
LIMITS = (["0e32001", "0e99999", "-0.0E+99999", "1e-40000", "1e32001", "1e-32001", "0e-32001", "5e-32769", "0E65536", "1e65535", "-1e65536",
           "1E+0000000003", "2.5E-0000000001", "0.04E+0000000001", "1e00000000000000000002", "1E-00000000000", "5E+000000000000", "7e-0000000000000000000001",
           "0" * 37 + "42", "0" * 400 + "7", "-" + "0" * 50 + "1", "0" * 39, "0" * 38 + "1.5", "0" * 254 + "5", "0" * 255 + "5", "0" * 256 + "5", "." + "0" * 255 + "5",
           "." + "0" * 256 + "5", "0" * 511 + "1", "0" * 512 + ".5", "1." + "0" * 255 + "1", "0." + "5" * 256, "00000000000000000000000000000000000000127", "-" + "0" * 40 + "128",
           "9007199254740993." + "0" * 1090 + "1", "16777217." + "0" * 1100 + "1", "0.5" + "0" * 1200 + "1", "0.4" + "9" * 1200, "1." + "0" * 1099 + "1", "2.5" + "0" * 1100 + "1",
           "8388608.5" + "0" * 1100 + "1", "4503599627370496.5" + "0" * 1085 + "1", "0." + "0" * 1100 + "1"]
          # mantissas beyond 64 / 128 bits whose exponent brings the value back into range (and the mirror image: tiny
          # mantissas with a large positive exponent)
          + [m + "0" * k + ("e-%d" % k) for m in ("255", "-128", "127", "65535", "-32768", "4294967295", "2147483647", "18446744073709551615",
                                                    "9223372036854775807", "-9223372036854775808", "1", "42") for k in (17, 20, 36, 37, 38, 39, 40, 45)]
          + ["0." + "0" * k + m + ("e%d" % (k + len(m))) for m in ("255", "127", "65535", "4294967295") for k in (20, 38, 40)]
          + ["255" + "0" * 38 + "E-38", "25.5" + "0" * 40 + "e1", "-12.8" + "0" * 45 + "e1", "2.55" + "9" * 0 + "0" * 39 + "e2"])


def f32_double_rounding_literals(rng, n):
    """decimal literals that lie so close to (but not on) the midpoint of two adjacent f32 values that rounding them to
    f64 first lands exactly on the midpoint: parsing through f64 and narrowing then gives the wrong neighbour"""
    import struct
    out = []
    for digits, quota in ((15, n // 2), (14, n // 8), (17, n // 4), (20, n - n // 2 - n // 8 - n // 4)):
        got = []
        tries = 0
        while len(got) < quota and tries < 400000:
            tries += 1
            e = rng.randint(-30, 40)
            mant = rng.randint(2 ** 23, 2 ** 24 - 1)
            mid = Fr(2 * mant + 1, 2) * Fr(2) ** (e - 23)            # midpoint between mant and mant+1 at exponent e
            midf = float(mid)
            if Fr(midf) != mid: continue
            s = "%.*e" % (digits - 1, midf)                          # nearest decimal with that many significant digits
            for cand in (s, _nudge(s, +1), _nudge(s, -1)):
                v = Fr(cand)
                if v == mid or float(cand) != midf: continue         # must round to the midpoint in f64, without being it
                lo = Fr(mant) * Fr(2) ** (e - 23); hi = Fr(mant + 1) * Fr(2) ** (e - 23)
                correct = hi if v > mid else lo
                twice = struct.unpack("<f", struct.pack("<f", midf))[0]     # ties-to-even of the midpoint
                if Fr(twice) != correct:
                    got.append(cand if rng.random() < 0.5 else "-" + cand)
        out += got[:quota]
    return list(dict.fromkeys(out))


def _nudge(s, d):
    """add d units in the last place of the mantissa of a %e-formatted literal"""
    m, e = s.split("e")
    digs = m.replace(".", "")
    n = int(digs) + d
    if n <= 0: return s
    t = str(n)
    if len(t) != len(digs): return s
    return t[0] + "." + t[1:] + "e" + e


def int_literals(rng, ty, n_random):
    lo, hi, fmt = INTS[ty]
    out = list(ZEROS) + list(GENERAL) + list(LIMITS)
    for b in (lo, hi):
        for d in ["-1", "-0.6", "-0.501", "-0.5", "-0.499", "-0.4", "0", "0.4", "0.499", "0.5", "0.501", "0.6", "1", "1.5", "2"]:
            out.append(dec_str(Fr(b) + Fr(d)))
        out += [str(b), str(b) + ".0", "%de0" % b, "%d.0e0" % b, str(b + 1), str(b - 1), str(b + 1) + ".0", str(b - 1) + ".0", "%d.5" % b, "%d.49" % b,
                "%s%se1" % ("-" if b < 0 else "", str(abs(b))[:-1] + "." + str(abs(b))[-1]) if abs(b) >= 10 else "0"]
        for k in (1, 2, 1024, 2048, 4096):
            out += [str(b + k) + ".0", str(b - k) + ".0", str(b + k) + ".5", str(b - k) + ".5"]
    for _ in range(n_random):
        k = rng.randrange(6)
        if k == 0: s = "%d.%d" % (rng.randint(lo - 5, hi + 5), rng.randint(0, 999))
        elif k == 1: s = "%de%d" % (rng.randint(-99999, 99999), rng.randint(-8, 20))
        elif k == 2: s = "%d.%de%d" % (rng.randint(-999, 999), rng.randint(0, 99999), rng.randint(-5, 20))
        elif k == 3: s = dec_str(Fr(rng.randint(lo - 2, hi + 2)) + Fr(rng.choice([0, 1, 2, 3, 4, 5, 6, 7, 8, 9]), 10) * rng.choice([1, -1]), 1)
        elif k == 4: s = str(rng.randint(lo - 300, hi + 300))
        else: s = "%d.5" % rng.randint(lo - 2, hi + 2)
        if rng.random() < 0.1: s = "+" + s if not s.startswith("-") else s
        if rng.random() < 0.1: s = s.replace("e", "E")
        out.append(s)
    return [x.encode() for x in out]


def float_literals(rng, fmt, n_random):
    prec, emax, w = FMT[fmt]
    out = list(ZEROS) + list(GENERAL) + list(LIMITS)
    if fmt == "f32": out += f32_double_rounding_literals(rng, 40 if n_random < 1000 else 400)
    emin = 3 - emax - prec

    def exact(fr, sig=None):
        """a decimal spelling of an exact binary rational (terminating), possibly very long"""
        neg = fr < 0; a = abs(fr)
        k = 0
        while a.denominator != 1: a *= 10; k += 1
        s = str(a.numerator)
        return ("-" if neg else "") + s + ("e-%d" % k if k else "")
    # halfway points between adjacent floats, and their close neighbours, at many exponents
    for _ in range(n_random // 4):
        e = rng.choice([emin, emin, emin + 1, -30, -1, 0, 1, 10, 60, emax - prec - 1, rng.randint(emin, emax - prec - 1)])
        m = rng.choice([1, 2, 3, 2 ** (prec - 1) - 1, 2 ** (prec - 1), 2 ** prec - 2, 2 ** prec - 1, rng.randint(1, 2 ** prec - 1)])
        mid = (Fr(2 * m + 1) / 2) * Fr(2) ** e
        out.append(exact(mid))
        tiny = Fr(1, 10 ** rng.choice([20, 40, 60])) * mid
        out.append(exact_trunc(mid + tiny)); out.append(exact_trunc(mid - tiny))
        out.append(exact(Fr(m) * Fr(2) ** e))
    for _ in range(n_random):
        k = rng.randrange(5)
        if k == 0: s = "%d.%de%d" % (rng.randint(0, 9), rng.randint(0, 10 ** rng.choice([3, 8, 17, 30])), rng.randint(-400, 400))
        elif k == 1: s = "%de%d" % (rng.randint(1, 10 ** rng.choice([1, 9, 17, 19, 25])), rng.randint(-350, 330))
        elif k == 2: s = "%.17g" % rng.uniform(-1e6, 1e6)
        elif k == 3: s = "1e%d" % rng.randint(-400, 400)
        else: s = "%d" % (2 ** rng.randint(0, 200))
        if rng.random() < 0.3 and not s.startswith("-"): s = "-" + s
        if "inf" in s or "nan" in s: continue
        out.append(s)
    # plain integers of every length: fast paths through an integer parser wrap or overflow at 2^31/2^32/2^63/2^64 and at 10^k
    for b in (2**31, 2**32, 2**53, 2**63, 2**64, 10**9, 10**10, 10**19, 10**20, 5294967296, 6000000000, 9999999999, 2**128):
        for d in (-1, 0, 1): out.append(str(b + d)); out.append("+" + str(b + d)); out.append("-" + str(b + d))
    for _ in range(n_random // 3):
        out.append(rng.choice(["", "", "+", "-", "0", "000"]) + str(rng.randrange(10 ** rng.randint(1, 40))))
    out += ["1e4000", "1e-4000", "1e99999999999", "-1e-99999999999", "123456789e-4000", "0." + "0" * 400 + "1e401"]
    return [x.encode() for x in out]


def exact_trunc(fr: Fr, digits=80) -> str:
    """decimal spelling of fr truncated to `digits` significant digits (enough to stay on the same side of a midpoint)"""
    neg = fr < 0; a = abs(fr)
    if a == 0: return "0"
    e = 0
    while a >= 10: a /= 10; e += 1
    while a < 1: a *= 10; e -= 1
    n = int(a * 10 ** (digits - 1))
    s = str(n)
    return ("-" if neg else "") + s[0] + "." + s[1:] + "e%d" % e
