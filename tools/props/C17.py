"""C17 — numeric_value parameters resolve MIN/MAX/DEF and never leave [min,max]."""
import struct
from common import *

PID = "C17"
TARGETS = ["Run.vo", "Numeric_proofs.vo", "NonVacuous/C17.vo"]
IMPORTS = "From Coq Require Import Floats.SpecFloat.\nFrom VF Require Import Base Show Gen_Errors Lexer Conv Numeric Run."
ALLOWED_AXIOMS = []
PROFILES = ["debug"]
RULE = ("data elements of all kinds (keywords MINimum/MAXimum/DEFault/UP/DOWN in short and long form, any case, and near misses such "
        "as MAXI, DEFAUL, MAXIMUMM, UP1; numbers incl. values exactly on the bounds; INF/NINF/NAN for floats; strings, blocks, "
        "suffixed numbers) x underlying types i8..u64, f32, f64 x random (max, min, default) configurations applied in EVERY "
        "order of the builder calls (max/min/default permutations, repeated calls), incl. min = max, inverted bounds, NaN and "
        "infinite bounds.  Compared with the model and with the rule recomputed in Python; every successfully resolved plain "
        "value is checked to lie within [min,max].  non-trivial = the element converted to a NumericValue")
ASSUMPTIONS = ["float comparisons are IEEE-754 partial order (SpecFloat.SFleb)", "unit quantities (Time, Frequency over f32): keywords and bare numbers are compared with the model instantiated at f32 (new::<base unit> is the identity on the stored value); suffixed elements are C18's"]
MISMATCH_WHY = "NumericValue conversion / resolution differs from the proved model (C17)"
INT = {"i8": (-128, 127, "I8"), "u8": (0, 255, "U8"), "i16": (-2**15, 2**15 - 1, "I16"), "u16": (0, 2**16 - 1, "U16"), "i32": (-2**31, 2**31 - 1, "I32"),
       "u32": (0, 2**32 - 1, "U32"), "i64": (-2**63, 2**63 - 1, "I64"), "u64": (0, 2**64 - 1, "U64")}
KW = [b"MAX", b"MAXimum", b"maximum", b"MAXIMUM", b"MaXiMuM", b"MIN", b"MINIMUM", b"minimum", b"DEF", b"DEFAULT", b"default", b"DeFaUlT", b"UP", b"up", b"DOWN", b"down", b"Down",
      b"MAXI", b"MAXIMU", b"MAXIMUMM", b"MINI", b"DEFA", b"DEFAUL", b"DEFAULTS", b"U", b"UPP", b"DOW", b"DOWNN", b"UP1", b"MAX1", b"DEF1", b"MA", b"INF", b"NINF", b"NAN", b"ON", b"X", b"MAXa", b"DEFa", b"UPa", b"UP_", b"DOWNa", b"MAXIMUMa", b"NANa"]
KW = KW + [x for k in (b"MAXimum", b"MINimum", b"DEFault", b"UP", b"DOWN") for x in keyword_near_misses(k)]
OTHER = [b"'MAX'", b'"MAX"', b"'DEF'", b'"DEFAULT"', b"'UP'", b'"down"', b"'MINimum'", b"#13MAX", b"(MAX)", b"#HDEF", b"'str'", b"#13abc", b"(1)", b"#HFF", b"1 V", b"1e3 HZ", b"1.5", b"-0.5", b"1e400", b"0.0", b"16777217.0", b"16777217", b"1.6777217e7", b"2147483647.0", b"4294967295.0", b"-2147483648.0",
         b"33554433.0", b"9007199254740993.0", b"65535.0", b"255.0", b"127.0", b"-128.0", b"1e9", b"123456789.0"]


QTY = ("qtime", "qfreq")


def f2b(v, w): return struct.unpack("<I", struct.pack("<f", v))[0] if w == 32 else struct.unpack("<Q", struct.pack("<d", v))[0]
def b2f(b, w): return struct.unpack("<f", struct.pack("<I", b))[0] if w == 32 else struct.unpack("<d", struct.pack("<Q", b))[0]


def mk(ty, tok, ops):
    return {"line": "nv %s %s %s" % (ty, hexs(tok), ",".join(ops) or "-"), "ty": ty, "tok": tok, "ops": ops}


def rand_ops(rng, ty):
    if ty in INT:
        lo, hi, _ = INT[ty]
        pick = lambda: str(rng.choice([lo, hi, 0, 1, 10, rng.randint(lo, hi), rng.randint(max(lo, -50), min(hi, 50))] + [v for v in (16777216, 16777217, 33554433, 2147483647) if lo <= v <= hi]))
    else:
        w = 32 if ty in ("f32",) + QTY else 64
        pick = lambda: "%0*x" % (w // 4, f2b(rng.choice([0.0, -0.0, 1.0, -1.0, 10.0, 2.5, -2.5, 1e6, float("inf"), float("-inf"), float("nan") if rng.random() < 0.3 else 3.0,
                                                         rng.uniform(-100, 100)]), w) if True else 0)
    n = rng.choice([0, 1, 2, 3, 3, 3, 4])
    kinds = rng.choice(["Mmd", "Mmd", "Md", "md", "M", "m"])      # often leave a bound at the type's own limit
    return [rng.choice(kinds) + pick() for _ in range(n)]


def corpus():
    return [mk("f32", b"NAN", ["M41200000", "mc1200000"]), mk("f64", b"NAN", []), mk("i32", b"DEF", ["d3", "M10", "m-10"]), mk("i32", b"DEFAULT", ["M10", "d3", "m-10"]),
            mk("i32", b"MAXIMUM", ["M10", "m-10"]), mk("i32", b"MINIMUM", ["M10", "m-10"]), mk("u8", b"DEFAULT", ["M10", "m1", "d5"]), mk("i32", b"10", ["M10", "m-10"]),
            mk("i32", b"11", ["M10", "m-10"]), mk("qtime", b"MIN", ["M41200000"]), mk("qfreq", b"2.5", ["M447a0000"]), mk("qfreq", b"MAX", ["mc1200000"]), mk("qtime", b"DEF", ["d40000000", "M41200000"]),
            mk("i8", b"MIN", ["M10"]), mk("u16", b"MAX", ["m3"]), mk("f64", b"MIN", []), mk("f32", b"MAX", []), mk("i32", b"-10", ["M10", "m-10"]), mk("i32", b"5", ["M5", "m5"]), mk("i32", b"UP", []), mk("i32", b"DOWN", ["d1"]), mk("f32", b"INF", ["M7f800000"])]


def generate(rng, tier):
    n = 60 if tier == "quick" else 800
    out = []
    for ty in list(INT) + ["f32", "f64", "qtime", "qfreq"]:
        toks = list(KW) + list(OTHER)
        if ty in QTY:    # unit quantities: keywords and bare numbers behave as the f32 they are stored in
            toks = [t for t in KW if t.upper() not in (b"INF", b"NINF", b"NAN")] + [b"'str'", b"1.5", b"-0.5", b"0.0", b"1e400", b"-3e38", b"3.5e38"]
        for _ in range(n):
            if ty in INT:
                lo, hi, _ = INT[ty]
                toks.append(str(rng.choice([lo, hi, 0, rng.randint(lo, hi), rng.randint(max(lo, -60), min(hi, 60))])).encode())
            else:
                toks.append(("%r" % rng.choice([0.0, 1.0, -1.0, 2.5, 10.0, rng.uniform(-120, 120)])).encode())
        for t in toks:
            out.append(mk(ty, t, rand_ops(rng, ty)))
    return out


def harness_line(c): return c["line"]


def case_of_line(l):
    f = l.split(" ")
    return mk(f[1], unhex(f[2]), [] if f[3] == "-" else f[3].split(","))


def coq_term(c):
    ty = c["ty"]
    if ty in INT:
        ops = ["%s %s" % ({"M": "BMax", "m": "BMin", "d": "BDefault"}[o[0]], coq_Z(int(o[1:]))) for o in c["ops"]]
        return "run_nv_int %s %s %s" % (INT[ty][2], coq_bytes(c["tok"]), coq_list(ops))
    ft = "F32" if ty in ("f32",) + QTY else "F64"
    ops = ["%s (sf_of_bits %s %d%%Z)" % ({"M": "BMax", "m": "BMin", "d": "BDefault"}[o[0]], ft, int(o[1:], 16)) for o in c["ops"]]
    return "run_nv_float %s %s %s" % (ft, coq_bytes(c["tok"]), coq_list(ops))


def obs(s): return s


def kw_variant(tok: bytes):
    t = tok.upper()
    for short, long, v in ((b"MAX", b"MAXIMUM", "MAX"), (b"MIN", b"MINIMUM", "MIN"), (b"DEF", b"DEFAULT", "DEF"), (b"UP", b"UP", "UP"), (b"DOWN", b"DOWN", "DOWN")):
        if t == short or t == long: return v
    return None


def impl_oracle(c, r):
    if r is None: return "no result from harness"
    if r.startswith(("PANIC", "CRASH", "NOT-RUN", "HANG")): return "panicked / died: " + r[:100]
    f = r.split(" ")
    if len(f) < 2: return None
    var, res = f[0], f[1]
    ty = c["ty"]
    want = kw_variant(c["tok"]) if c["tok"].replace(b"_", b"").isalnum() and not c["tok"][:1].isdigit() else None
    if want and var != want: return "keyword %s must be recognised as %s, got %s" % (c["tok"].decode(), want, var)
    if not want and var in ("MAX", "MIN", "DEF", "UP", "DOWN"): return "%s is not a numeric_value keyword but was read as %s" % (c["tok"].decode(), var)
    # configuration after the calls in order
    isint = ty in INT
    w = 32 if ty in ("f32",) + QTY else 64
    val = (lambda s: int(s)) if isint else (lambda s: b2f(int(s, 16), w))
    if isint: mx, mn = INT[ty][1], INT[ty][0]
    else: mx = b2f((0x7f7fffff if w == 32 else 0x7fefffffffffffff), w); mn = -mx
    df = None
    for o in c["ops"]:
        if o[0] == "M": mx = val(o[1:])
        elif o[0] == "m": mn = val(o[1:])
        else: df = val(o[1:])
    show = (lambda v: "I%d" % v) if isint else (lambda v: "F%0*x" % (w // 4, f2b(v, w)))
    same = (lambda a, b: a == b) if isint else (lambda a, b: f2b(a, w) == f2b(b, w) or (a != a and b != b))
    def parse(resx):
        return int(resx[1:]) if isint else b2f(int(resx[1:], 16), w)
    if var == "MAX": exp = show(mx)
    elif var == "MIN": exp = show(mn)
    elif var == "DEF": exp = show(df) if df is not None else "E-224"
    elif var in ("UP", "DOWN"): exp = "E-224"
    elif var.startswith("V"):
        v = parse(var[1:] if isint else var[1:])
        exp = show(v) if (v <= mx and v >= mn) else "E-222"
        if res[0] in "IF":
            got = parse(res)
            if not (got <= mx and got >= mn): return "resolved value %s lies outside [min,max]" % res
    else:
        return None
    if res[0] in "IF" and exp[0] in "IF":
        if not same(parse(res), parse(exp)): return "resolution must give %s, got %s" % (exp, res)
    elif res != exp:
        return "resolution must give %s, got %s" % (exp, res)
    return None


def nontrivial(c, impl):
    return impl is not None and not impl.startswith("E") and not impl.startswith("L")


def distribution(cases, impl):
    d = {"per_type": {}, "variants": {}, "range_errors": 0, "illegal_parameter": 0}
    for c, r in zip(cases, impl):
        d["per_type"][c["ty"]] = d["per_type"].get(c["ty"], 0) + 1
        if not r: continue
        v = r.split(" ")[0]; v = "VALUE" if v.startswith("V") else ("REJECTED" if v.startswith("E") else v)
        d["variants"][v] = d["variants"].get(v, 0) + 1
        if r.endswith("E-222"): d["range_errors"] += 1
        if r.endswith("E-224"): d["illegal_parameter"] += 1
    return d
