"""C18 — unit suffixes scale by their SCPI multiplier; unknown suffixes are rejected."""
import os, re, sys
from fractions import Fraction as Fr
from common import *
sys.path.insert(0, os.path.dirname(os.path.dirname(os.path.abspath(__file__))))
import translate_suffix, vlib

PID = "C18"
TARGETS = ["Run.vo", "Suffix_proofs.vo", "NonVacuous/C18.vo"]
IMPORTS = "From Coq Require Import String.\nFrom VF Require Import Base Show Gen_Errors Lexer Suffix Run.\nOpen Scope string_scope."
ALLOWED_AXIOMS = []
PROFILES = ["debug"]
RULE = ("for every supported quantity: every suffix of its table (regenerated from the source on every run) in random letter case x "
        "literals {1, 2.5, -3e3, 0, .125e2}; the bare number; near-miss suffixes (one letter added, dropped or changed, the suffix "
        "of another quantity, a multiplier alone, up to 12 characters); non-numeric elements; Amplitude (PK/PP/RMS in any case on "
        "every suffix) and Db (every dB suffix, linear suffixes, bare numbers).  The implementation's value (SI unit of the "
        "quantity, f32) is compared with the model's exact rational within 2e-6 relative, and — independently of the model — with "
        "SCPI-99's multiplier rule recomputed in Python (M = milli, MA = mega, MHZ/MOHM exceptions, named units).  "
        "non-trivial = a suffixed element that converted")
ASSUMPTIONS = ["uom 0.36 unit coefficients (validated numerically per suffix against the hand-written SI factors)", "f32 arithmetic of uom is not modelled: values compared with relative tolerance 2e-6 (separates any wrong power of ten)",
               "ANN is uom's year of 31 536 000 s (DESIGN 7.7)"]
MISMATCH_WHY = "unit conversion differs from the proved model / the SCPI multiplier rule (C18)"
LITS = [b"1", b"2.5", b"-3e3", b"0", b".125e2"]
MULT = {"EX": 18, "PE": 15, "T": 12, "G": 9, "MA": 6, "K": 3, "M": -3, "U": -6, "N": -9, "P": -12, "F": -15, "A": -18}
PI = Fr(3141592653589793, 10**15)
UNITS = {"ElectricPotential": {"V": 1}, "ElectricCurrent": {"A": 1}, "ElectricalResistance": {"OHM": 1}, "Capacitance": {"F": 1}, "Inductance": {"H": 1},
         "Frequency": {"HZ": 1}, "Time": {"S": 1}, "Power": {"W": 1}, "Energy": {"J": 1, "W.HR": 3600}, "ElectricCharge": {"C": 1, "A.HR": 3600, "AH": 3600},
         "ElectricalConductance": {"SIE": 1}}
PLAIN = {"Time": {"MIN": (60, 0), "HR": (3600, 0), "D": (86400, 0), "ANN": (31536000, 0)},
         "Angle": {"RAD": (1, 0), "DEG": (PI / 180, 0), "MNT": (PI / 10800, 0), "SEC": (PI / 648000, 0), "REV": (2 * PI, 0), "GON": (PI / 200, 0)},
         "Ratio": {"PCT": (Fr(1, 100), 0), "PPM": (Fr(1, 10**6), 0)},
         "ThermodynamicTemperature": {"CEL": (1, Fr(27315, 100)), "FAR": (Fr(5, 9), Fr(45967, 100) * Fr(5, 9)), "K": (1, 0)},
         "Energy": {"EV": (Fr(1602176634, 10**9) * Fr(1, 10**19), 0), "WH": (3600, 0)}}
BASE = {"ThermodynamicTemperature": (1, Fr(27315, 100))}


def scpi_meaning(q, suf: bytes):
    """(factor, offset) SCPI-99 assigns to the suffix for quantity q, or None"""
    s = suf.decode("latin1").upper()
    if (q, s) in (("Frequency", "MHZ"), ("ElectricalResistance", "MOHM")): return (Fr(10) ** 6, 0)
    if s in PLAIN.get(q, {}): return PLAIN[q][s]
    us = UNITS.get(q, {})
    if s in us: return (Fr(us[s]), 0)
    for m, e in MULT.items():
        if s.startswith(m) and s[len(m):] in us: return (Fr(10) ** e * us[s[len(m):]], 0)
    return None


def tables():
    """the tables the model uses: read back from the GENERATED coq/gen/Gen_Suffix.v"""
    import re
    txt = open(os.path.join(vlib.COQ, "gen", "Gen_Suffix.v")).read()
    def ents(body):
        out = []
        for sp, unit in re.findall(r'\(\[((?:\[[\d; ]*\]%N(?:; )?)+)\], "(\w+)"\)', body):
            out.append(([bytes(int(x) for x in re.findall(r"\d+", b)).decode() for b in re.findall(r"\[([\d; ]*)\]%N", sp)], unit))
        return out
    a = txt.index("Definition suffix_tables"); b = txt.index("Definition log_tables")
    units = [(q, base, ents(body)) for q, base, body in re.findall(r'\("(\w+)", "(\w+)", \[(.*?)\]\)(?:;|\n\])', txt[a:b])]
    logs = [(q, ents(body)) for q, body in re.findall(r'\("(\w+)", \[(.*?)\]\)(?:;|\n\])', txt[b:])]
    if not units or not logs: raise RuntimeError("coq/gen/Gen_Suffix.v not understood")
    return units, logs


def mk(kind, q, txt, note="gen"):
    return {"line": "%s %s %s" % (kind, q, hexs(txt)), "kind": kind, "q": q, "txt": txt, "note": note}


def randcase(rng, b): return bytes(c ^ 32 if (65 <= c <= 90 or 97 <= c <= 122) and rng.random() < 0.5 else c for c in b)


_DR = None
def rand_literal(rng):
    global _DR
    import numlib
    if _DR is None: _DR = [x.encode() for x in numlib.f32_double_rounding_literals(rng, 60)]
    k = rng.random()
    if k < 0.12: return rng.choice(_DR)
    if k < 0.2: return rng.choice([b"0" * 255 + b"5", b"." + b"0" * 255 + b"5", b"0" * 511 + b"1", b"0" * 256 + b"2.5", b"1E+0000000003", b"2.5E-0000000001", b"1e00000000000000000002",
                                   b"0" * 37 + b"42", b"1." + b"0" * 300 + b"1", b"00012.50", b"5e-0000000000001"])
    if k < 0.4:
        v = rng.choice([2**31 - 1, 2**31, 2**32 - 1, 2**32, 2**32 + 1, 9999999999, 6000000000, 5294967296, 10**10, 10**9, 123456789012, rng.randrange(10**rng.randint(1, 12))])
        return (rng.choice(["", "+", "-", "0", "00"]) + str(v)).encode()
    if k < 0.7:
        return ("%s%d.%s" % (rng.choice(["", "-", "+"]), rng.randrange(10**rng.randint(0, 10)), "".join(rng.choice("0123456789") for _ in range(rng.randint(0, 8))))).encode()
    return ("%s%d%s%s%d" % (rng.choice(["", "-"]), rng.randrange(1, 10**rng.randint(1, 10)), rng.choice(["", ".5", ".25"]), rng.choice("eE"), rng.randint(-12, 8))).encode()


def corpus():
    return [mk("unit", "Energy", b"1MJ"), mk("unit", "Energy", b"1 MAJ"), mk("unit", "Frequency", b"1 MHZ"), mk("unit", "Frequency", b"1 MAHZ"),
            mk("unit", "ElectricalResistance", b"1 MOHM"), mk("unit", "ElectricCurrent", b"1 MA"), mk("unit", "Capacitance", b"1 MF"), mk("unit", "Time", b"1 M"),
            mk("unit", "ElectricPotential", b"1 VOLT"), mk("unit", "Frequency", b"1 HZZ"), mk("unit", "Time", b"1 SEC"), mk("unit", "Time", b"1 H"), mk("unit", "Frequency", b"MAX"),
            mk("ampl", "ElectricPotential", b"2.5 VPk"), mk("ampl", "ElectricPotential", b"2.5 kVrmS"), mk("ampl", "ElectricPotential", b"2.5 PK"), mk("db", "Power", b"3 DBM")]


# elements that are not decimal numerics: every keyword another conversion gives a meaning to, in several spellings
NONNUM = [b"ABC", b"MAX", b"MIN", b"MAXimum", b"minimum", b"INF", b"NINF", b"NAN", b"inf", b"INFinity", b"DEF", b"DEFault", b"UP", b"DOWN", b"ON", b"OFF",
          b"'1'", b"\"2\"", b"#11", b"(1)", b"#HFF", b"#B1", b"#Q7"]


def generate(rng, tier):
    units, logs = tables()
    out = []
    allsuf = [s.encode() for _, _, ents in units for sufs, _ in ents for s in sufs]
    for q, base, ents in units:
        for lit in LITS: out.append(mk("unit", q, lit))
        sufs = [s.encode() for ss, _ in ents for s in ss]
        for s in sufs:
            for lit in (LITS if tier != "quick" else rng.sample(LITS, 3)):
                out.append(mk("unit", q, lit + rng.choice([b"", b" ", b"  "]) + randcase(rng, s)))
            for amp in (b"PK", b"PP", b"RMS"):
                out.append(mk("ampl", q, b"2.5 " + randcase(rng, s + amp)))
            out.append(mk("ampl", q, b"1.5" + randcase(rng, s)))
        miss = set()
        for s in sufs:
            miss |= {s + b"Z", s[:-1], s[1:], b"M" + s, b"K" + s, s + s[-1:], s.replace(b"M", b"MA", 1), s.replace(b"MA", b"M", 1)}
        miss |= {b"M", b"K", b"U", b"MA", b"ABCDEFGHIJKL", b"X"} | set(rng.sample(allsuf, 6))
        for s in sorted(miss):
            if s and s.upper() not in [x.upper() for x in sufs] and (s[:1].isalpha() or s[:1] == b"/") and not (s[:1] in b"eE" and s[1:2].isdigit()):
                out.append(mk("unit", q, b"1 " + s[:12], "miss"))
        for e in NONNUM: out.append(mk("unit", q, e, "elem"))
        for e in rng.sample(NONNUM, 4): out.append(mk("ampl", q, e, "elem"))
        # an amplitude specifier without a unit in front of it is not a suffix of the quantity
        for a in (b"PK", b"PP", b"RMS", b"pk", b"Rms", b"PKPK", b"VPKX"): out.append(mk("ampl", q, b"1.5 " + a, "miss"))
        # the literal itself: every decimal form scales correctly (integers of 1..12 digits around 2^31/2^32/10^10, leading zeros,
        # explicit plus, fractions, exponents of both signs)
        for _ in range(12 if tier == "quick" else 120):
            out.append(mk("unit", q, rand_literal(rng) + rng.choice([b"", b" "]) + randcase(rng, rng.choice(sufs + [b""]))))
    for q, ents in logs:
        for lit in LITS[:3]: out.append(mk("db", q, lit))
        for ss, _ in ents:
            for s in ss: out.append(mk("db", q, b"3 " + randcase(rng, s.encode())))
        qents = [e for qq, _, e in units if qq == q][0]
        for ss, _ in qents:
            out.append(mk("db", q, b"2 " + ss[0].encode()))
        out.append(mk("db", q, b"2 DBX", "miss"))
        for e in NONNUM: out.append(mk("db", q, e, "elem"))
    return out


def harness_line(c): return c["line"]
def case_of_line(l): f = l.split(" "); return mk(f[0], f[1], unhex(f[2]), "replay")
def coq_term(c): return 'run_%s "%s" %s' % (c["kind"], c["q"], coq_bytes(c["txt"]))
def obs(s): return s


def _num(t):
    if t.startswith("V"): return Fr(float(t[1:]))
    if t.startswith("Q"): a, b = t[1:].split("/"); return Fr(int(a), int(b))
    return None


def close(a, b, tol=Fr(2, 10**6)):
    if a is None or b is None: return False
    return abs(a - b) <= tol * max(abs(a), abs(b)) or abs(a - b) <= Fr(1, 10**30)


def equal(impl, mod):
    ia, ma = impl.split(" "), mod.split(" ")
    if len(ia) != len(ma): return False
    for x, y in zip(ia, ma):
        if x[0] in "VQ" and y[0] in "VQ":
            if not close(_num(x), _num(y)): return False
        elif x != y: return False
    return True


def impl_oracle(c, r):
    if r is None: return "no result from harness"
    if r.startswith(("PANIC", "CRASH", "NOT-RUN", "HANG")): return "conversion panicked / died: " + r[:100]
    if c["kind"] != "unit" or r.startswith(("L", "N")): return None      # not one numeric element (e.g. `0eV`: the lexer reads an exponent)
    m = re.fullmatch(rb"([-+]?[0-9.]+(?:[eE][-+]?\d+)?)\s*([A-Za-z/][A-Za-z0-9./-]*)?", c["txt"])
    if not m: return None
    lit = Fr(m.group(1).decode())
    suf = m.group(2)
    mean = (BASE.get(c["q"], (1, 0)) if suf is None else scpi_meaning(c["q"], suf))
    if mean is None:
        if not r.startswith("E"): return "suffix %s is not defined for %s by SCPI-99 but converted to %s" % (suf.decode(), c["q"], r)
        return None
    if r.startswith("E"):
        # SCPI allows it but the library's table does not list it (e.g. T, G, EX multipliers): not a C18 violation (nothing wrong is produced)
        return None
    want = lit * mean[0] + mean[1]
    if mean[0] == 1 and mean[1] == 0 and r.startswith("V") and abs(lit) < Fr(10) ** 38 and (lit == 0 or abs(lit) > Fr(1, 10 ** 37)):
        # the base unit: no arithmetic is involved, the stored f32 is the correctly rounded literal, bit for bit
        import numlib, struct
        lv = numlib.literal_value(m.group(1))
        if lv is not None:
            wb = numlib.float_bits(numlib.rn_float(lv[0], lv[1], "f32"), "f32")
            gb = struct.unpack("<I", struct.pack("<f", float(r[1:])))[0]
            if gb != wb and not (gb & 0x7fffffff == 0 and wb & 0x7fffffff == 0):
                return "%s in the base unit must be the correctly rounded f32 %08x, implementation returned %08x (%s)" % (c["txt"].decode()[:60], wb, gb, r)
    if not close(_num(r), want): return "%s as %s must be %s (SCPI multiplier rule), implementation returned %s" % (c["txt"].decode(), c["q"], float(want), r)
    return None


def nontrivial(c, impl):
    return impl is not None and not impl.startswith(("E", "L", "N")) and b" " in c["txt"].strip() or (impl is not None and impl[0] in "VNPRDL" and len(c["txt"]) > 3 and not impl.startswith(("L", "N")) and not impl.startswith("E"))


def distribution(cases, impl):
    d = {"unit": 0, "ampl": 0, "db": 0, "converted": 0, "rejected": 0, "near_miss_suffixes": 0, "quantities": len(set(c["q"] for c in cases))}
    for c, r in zip(cases, impl):
        d[c["kind"]] += 1
        if c["note"] == "miss": d["near_miss_suffixes"] += 1
        if r and r.startswith("E"): d["rejected"] += 1
        elif r: d["converted"] += 1
    return d
