"""Grammar-directed generator of IEEE 488.2 program messages (DESIGN 5, C04): an AST is
rendered to bytes together with the token sequence 488.2 assigns to it (`tokens_of`), so the
expected decomposition does not come from the lexer under test nor from the Coq model.

Token notation = the harness' (harness/src/k_lex.rs):  : ? ; _ ,  M<hex> C<hex> D<hex>
S<hexv>/<hexs> N<value> Q<hex> B<hex> X<hex>  E<code>.
"""
from common import hexs

WS = [b' ', b'\t', b'\r', b'\x0c']
ALPHA = b'ABCDEFGHIJKLMNOPQRSTUVWXYZabcdefghijklmnopqrstuvwxyz'
DIG = b'0123456789'
MNCH = ALPHA + DIG + b'_'
SUFCH = ALPHA + DIG + b'-/.'


KEYWORDS = [b"DEFault", b"MINimum", b"MAXimum", b"UP", b"DOWN", b"ON", b"OFF", b"INFinity", b"NINFinity", b"NAN"]


class Gen:
    def __init__(self, rng):
        self.r = rng
        self.kinds = {}

    def ws(self, lo=0, hi=2):
        return b''.join(self.r.choice(WS) for _ in range(self.r.randint(lo, hi)))

    def mnemonic(self, maxlen=12):
        n = self.r.choice([1, 2, 3, 4, 4, 5, 6, 8, 11, 12, maxlen])
        n = min(n, maxlen)
        return bytes([self.r.choice(ALPHA)]) + bytes(self.r.choice(MNCH) for _ in range(n - 1))

    def digits(self, lo=1, hi=5):
        return bytes(self.r.choice(DIG) for _ in range(self.r.randint(lo, hi)))

    def nrf(self):
        s = self.r.choice([b'', b'+', b'-'])
        k = self.r.randint(0, 2)
        if k == 0: m = self.digits()
        elif k == 1: m = self.digits() + b'.' + self.digits(0, 4)
        else: m = b'.' + self.digits()
        e = b''
        if self.r.random() < 0.4:
            e = self.r.choice([b'e', b'E']) + self.r.choice([b'', b'+', b'-']) + self.digits(1, 3)
        return s + m + e

    def suffix(self, first_not_e):
        n = self.r.choice([1, 2, 3, 5, 12])
        first = self.r.choice(ALPHA + b'/')
        while first_not_e and first in b'eE':
            first = self.r.choice(ALPHA + b'/')
        return bytes([first]) + bytes(self.r.choice(SUFCH) for _ in range(n - 1))

    # ---- AST generation (mirrors coq/Grammar.v) ----
    def number(self):
        r = self.r
        sign = r.choice([None, None, b'+', b'-'])
        k = r.randint(0, 2)
        if k == 0: ip, fr = self.digits(), None
        elif k == 1: ip, fr = self.digits(), self.digits(0, 4)
        else: ip, fr = b'', self.digits()
        ex = None
        if r.random() < 0.4:
            ex = (r.choice([b'e', b'E']), r.choice([None, b'+', b'-']), self.digits(1, 3))
        return ("num", sign, ip, fr, ex)

    def datum(self, last):
        k = self.r.choice(['chr', 'dec', 'decsuf', 'nondec', 'str', 'blk', 'expr'])
        self.kinds[k] = self.kinds.get(k, 0) + 1
        r = self.r
        if k == 'chr':
            if r.random() < 0.3:        # the library's own keywords, in any spelling, also with the optional-1 suffix of HEADER matching
                w = r.choice(KEYWORDS)
                w = r.choice([w, w.upper(), w.lower(), bytes(c for c in w if not (97 <= c <= 122))])
                if r.random() < 0.15: w += r.choice([b"1", b"1", b"2", b"01"])
                return ("chr", w[:12])
            return ("chr", self.mnemonic())
        if k == 'dec': return ("dec", self.number())
        if k == 'decsuf':
            n = self.number(); w = self.ws(0, 2)
            return ("decsuf", n, w, self.suffix(first_not_e=(w == b'' and n[4] is None)))
        if k == 'nondec':
            rr = r.choice('HhQqBb'); base = {'h': 16, 'q': 8, 'b': 2}[rr.lower()]
            n = r.randint(1, 16 if base == 16 else (22 if base == 8 else 64))
            alphabet = '0123456789abcdefABCDEF' if base == 16 else '0123456789'[:base]
            ds = ''.join(r.choice(alphabet) for _ in range(n))
            if int(ds, base) >= 2 ** 64: ds = '1'
            return ("nondec", rr.encode(), ds.encode())
        if k == 'str':
            q = r.choice([b"'", b'"'])
            body = bytes(r.choice([r.randint(0, 127), 44, 59, 58, 10, 34, 39, 40, 41, 35]) for _ in range(r.choice([0, 1, 3, 8, 20])))
            return ("str", q, body)
        if k == 'blk':
            payload = bytes(r.choice([r.randint(0, 255), 44, 59, 10, 34]) for _ in range(r.choice([0, 1, 2, 9, 10, 11, 30, 100])))
            return ("blk", r.randint(0, 2), payload)
        if k == 'expr':
            body = bytes(c for c in (r.choice([r.randint(0, 127), 44, 58, 64, 33, 32]) for _ in range(r.randint(0, 12))) if c not in b'"\';()')
            return ("expr", body)

    def unit(self, last):
        r = self.r
        if r.random() < 0.25:
            hdr = (False, True, [self.mnemonic(12)], r.random() < 0.5)
        else:
            hdr = (r.random() < 0.3, False, [self.mnemonic() for _ in range(r.randint(1, 4))], r.random() < 0.5)
        nargs = r.choice([0, 0, 1, 2, 3, 5])
        if nargs == 0:
            return (hdr, self.ws(0, 2), [])
        return (hdr, self.ws(1, 2), [(self.datum(last), self.ws(0, 2), self.ws(0, 2)) for _ in range(nargs)])

    def message_ast(self, maxunits=4):
        n = self.r.randint(1, maxunits)
        lead = self.ws(1, 2) if self.r.random() < 0.3 else b''
        return (lead, [(self.unit(i == n - 1), self.ws(0, 2)) for i in range(n)], self.r.random() < 0.4)

    def message(self, maxunits=4):
        ast = self.message_ast(maxunits)
        return render_msg(ast), tokens_msg(ast), ast


# ---- Python rendering / token assignment of the AST (independent of lexer and of Coq) ----
def render_number(n):
    _, sign, ip, fr, ex = n
    out = (sign or b'') + ip
    if fr is not None: out += b'.' + fr
    if ex is not None: out += ex[0] + (ex[1] or b'') + ex[2]
    return out


def block_len_field(pad, payload):
    return b'0' * pad + str(len(payload)).encode()


def render_datum(d):
    k = d[0]
    if k == 'chr': return d[1]
    if k == 'dec': return render_number(d[1])
    if k == 'decsuf': return render_number(d[1]) + d[2] + d[3]
    if k == 'nondec': return b'#' + d[1] + d[2]
    if k == 'str': return d[1] + d[2].replace(d[1], d[1] + d[1]) + d[1]
    if k == 'blk':
        f = block_len_field(d[1], d[2]); return b'#' + str(len(f)).encode() + f + d[2]
    if k == 'expr': return b'(' + d[1] + b')'


def token_datum(d):
    k = d[0]
    if k == 'chr': return 'C' + hexs(d[1])
    if k == 'dec': return 'D' + hexs(render_number(d[1]))
    if k == 'decsuf': return 'S%s/%s' % (hexs(render_number(d[1])), hexs(d[3]))
    if k == 'nondec': return 'N%d' % int(d[2].decode(), {'h': 16, 'q': 8, 'b': 2}[d[1].decode().lower()])
    if k == 'str': return 'Q' + hexs(d[2].replace(d[1], d[1] + d[1]))
    if k == 'blk': return 'B' + hexs(d[2])
    if k == 'expr': return 'X' + hexs(d[1])


def render_unit(u):
    (ab, com, ms, q), hsep, args = u
    out = (b'*' + ms[0]) if com else ((b':' if ab else b'') + b':'.join(ms))
    if q: out += b'?'
    out += hsep
    for i, (d, w1, w2) in enumerate(args):
        out += render_datum(d) + w1
        if i < len(args) - 1: out += b',' + w2
    return out


def tokens_unit(u):
    (ab, com, ms, q), hsep, args = u
    t = []
    if com: t.append('M' + hexs(b'*' + ms[0]))
    else:
        if ab: t.append(':')
        for i, m in enumerate(ms):
            t.append('M' + hexs(m))
            if i < len(ms) - 1: t.append(':')
    if q: t.append('?')
    if hsep: t.append('_')
    for i, (d, _, _) in enumerate(args):
        t.append(token_datum(d))
        if i < len(args) - 1: t.append(',')
    return t


def render_msg(ast):
    lead, units, nl = ast
    out = lead
    for i, (u, w) in enumerate(units):
        out += render_unit(u)
        if i < len(units) - 1: out += b';' + w
    return out + (b'\n' if nl else b'')


def tokens_msg(ast):
    _, units, _ = ast
    t = []
    for i, (u, _) in enumerate(units):
        t += tokens_unit(u)
        if i < len(units) - 1: t.append(';')
    return t


# ---- the same AST as a Coq term of Grammar.msg ----
def cb(b):
    return "[" + "; ".join(str(x) for x in b) + "]%N" if b else "(@nil N)"


def coq_opt_b(b):
    return "None" if b is None else "(Some %d%%N)" % b[0]


def coq_number(n):
    _, sign, ip, fr, ex = n
    frs = "None" if fr is None else "(Some %s)" % cb(fr)
    exs = "None" if ex is None else "(Some (%d%%N, %s, %s))" % (ex[0][0], coq_opt_b(ex[1]), cb(ex[2]))
    return "(mkNumber %s %s %s %s)" % (coq_opt_b(sign), cb(ip), frs, exs)


def coq_datum(d):
    k = d[0]
    if k == 'chr': return "(DChar %s)" % cb(d[1])
    if k == 'dec': return "(DDec %s)" % coq_number(d[1])
    if k == 'decsuf': return "(DDecSuffix %s %s %s)" % (coq_number(d[1]), cb(d[2]), cb(d[3]))
    if k == 'nondec': return "(DNonDec %d%%N %s)" % (d[1][0], cb(d[2]))
    if k == 'str': return "(DString %d%%N %s)" % (d[1][0], cb(d[2]))
    if k == 'blk': return "(DBlock %d %s)" % (d[1], cb(d[2]))
    if k == 'expr': return "(DExpr %s)" % cb(d[1])


def coq_msg(ast):
    lead, units, nl = ast
    us = []
    for (u, w) in units:
        (ab, com, ms, q), hsep, args = u
        h = "(mkHeader %s %s [%s] %s)" % (str(ab).lower(), str(com).lower(), "; ".join(cb(m) for m in ms), str(q).lower())
        a = "[%s]" % "; ".join("(%s, %s, %s)" % (coq_datum(d), cb(w1), cb(w2)) for d, w1, w2 in args)
        us.append("(mkUnit %s %s %s, %s)" % (h, cb(hsep), a, cb(w)))
    return "(mkMsg %s [%s] %s)" % (cb(lead), "; ".join(us), str(nl).lower())


CLASS_BYTES = [b'A', b'z', b'e', b'E', b'0', b'9', b'_', b'*', b':', b'?', b';', b',', b' ', b'\n', b'+', b'-', b'.',
               b'#', b'H', b'Q', b'B', b'"', b"'", b'(', b')', b'/', b'!', b'@', b'\x00', b'\x80', b'\xff', b'1', b'2']


def corrupt(rng, msg: bytes):
    """single-point corruption: insert / delete / replace one byte (biased to structural bytes)"""
    if not msg:
        return bytes([rng.randrange(256)]), "insert"
    k = rng.random()
    pos = rng.randrange(len(msg) + (1 if k < 0.35 else 0))
    pick = lambda: (rng.choice(CLASS_BYTES) if rng.random() < 0.8 else bytes([rng.randrange(256)]))
    if k < 0.35:
        return msg[:pos] + pick() + msg[pos:], "insert"
    pos = min(pos, len(msg) - 1)
    if k < 0.65:
        return msg[:pos] + msg[pos + 1:], "delete"
    if k < 0.9:
        return msg[:pos] + pick() + msg[pos + 1:], "replace"
    return msg[:pos], "truncate"
