"""C05 — units run in order; the first error aborts the message and is reported once."""
from common import *
import treegen, lexgen, statuslib

PID = "C05"
TARGETS = ["Run.vo", "Tree_proofs.vo", "Message_proofs.vo", "NonVacuous/C05.vo", "Message_proofs2.vo", "Message_proofs3.vo", "NonVacuous/C05_prefix.vo"]
IMPORTS = "From VF Require Import Base Show Gen_Errors Status Contrib Lexer Response Conv Tree Scripted Run."
ALLOWED_AXIOMS = []
PROFILES = ["debug"]
RULE = ("messages of 1..6 units on random trees; a failure is injected at a random unit position and of a random kind: "
        "handler-returned error (standard / custom / extended), missing or extra parameter, undefined header, lexical error "
        "(corrupted byte inside unit i), a response item that fails to format (non-ASCII string, empty list, failing "
        "ResponseData) at a random write position, response buffer exhaustion (ArrayVec of a capacity smaller than the "
        "response); compared: returned error (exact value incl. texts), the error hook's log (exactly that error once, or "
        "nothing on success), the ordered invocation log; non-trivial = message of >= 2 units in which a handler ran.  "
        "Second stream: the library's OWN mandated handlers (scpi-contrib: common commands incl. *TST? with failing self-test, "
        "STATus, SYSTem:ERRor) on a device whose error hook counts its calls: histories of multi-unit messages, compared with "
        "the full-stack model on status, response, error queue and cumulative hook-call count")
ASSUMPTIONS = ["Device::handle_error of the harness' device records its argument; nothing else calls it"]
MISMATCH_WHY = "returned error / error-hook calls / handler invocation order differ from the proved model (C05)"
CAPS = [0, 1, 2, 3, 5, 8, 13, 21, 40]


def corpus():
    sub = [("L", b"PRE", False, 1), ("L", b"POST", False, 2), ("L", b"FAIL", False, 3), ("L", b"BADFIRST", False, 4), ("L", b"LIM", False, 5), ("L", b"A", False, 6), ("L", b"B", False, 7)]
    sc = {1: ([], ["di1"]), 2: ([], ["di2"]), 3: (["Fp-200"], ["Fc7:6f6f7073x6578"]), 4: ([], ["ds636166e9", "di1"]), 5: (["r", "o"], ["r", "di5"]),
          6: ([], ["di1", "di2"]), 7: ([], ["ds61626364"])}
    msgs = [b"PRE;FAIL;POST", b"PRE?;FAIL?;POST?", b"PRE;BADFIRST?;POST", b"FAIL @", b"FAIL 1 2", b"FAIL 'abc", b"LIM 200,,1", b"LIM;POST", b"LIM 1,2,3;POST",
            b"PRE;NOPE;POST", b"PRE;POST;\x80", b"PRE?;POST?", b"PRE;POST", b"FAIL;FAIL", b"PRE?;LIM? 1,2;POST?"]
    out = [treegen.case_line("v", sub, sc, [m]) for m in msgs]
    m = statuslib.msg_step
    out += ["dev " + "|".join(["t:p-330", m([b"*TST?"]), m([b"*TST?;*ESR?"]), "t:c77:62726f6b656e", m([b"*OPC?;*TST?;*OPC?"]), "t:N", m([b"*TST?;SYST:ERR:ALL?"])]),
            "dev " + "|".join([m([b"*ESE 1;FOO;*ESE 2"]), m([b"*ESE?;*ERR -200;*ESE?"]), m([b"*OPC;*OPC?;*IDN?"]), m([b"SYST:ERR:COUN?;:SYST:ERR:ALL?"])])]
    for cap in (0, 1, 2, 3, 4, 5, 6, 7, 8):
        out.append(treegen.case_line(str(cap), sub, sc, [b"A?;PRE;B?", b"B?;A?"]))
    return out


def generate(rng, tier):
    n = 500 if tier == "quick" else 8000
    out = []
    for _ in range(n):
        tg = treegen.TreeGen(rng, illformed=0.02, emit=True, fail=rng.choice([0.05, 0.2, 0.4]))
        sub = tg.tree(rng.choice([1, 2]))
        msgs = []
        for _ in range(rng.choice([1, 2, 3])):
            m = treegen.gen_message(rng, sub, bad=rng.choice([0, 0.1, 0.3]))
            if rng.random() < 0.25:
                m, _ = lexgen.corrupt(rng, m)
            msgs.append(m)
        cap = "v" if rng.random() < 0.6 else str(rng.choice(CAPS))
        out.append(treegen.case_line(cap, sub, tg.scripts, msgs))
    # buffer exhaustion at EVERY write position of some messages (incl. the unit separator and the terminator)
    for _ in range(25 if tier == "quick" else 300):
        tg = treegen.TreeGen(rng, illformed=0.0, emit=True, pulls=False, fail=0.0)
        sub = tg.tree(1)
        m = treegen.gen_message(rng, sub, nunits=rng.choice([1, 2, 3]), bad=0.0, args=False)
        for cap in range(0, 41):
            out.append(treegen.case_line(str(cap), sub, tg.scripts, [m]))
    # the library's own handlers: every call of the device's error hook is counted
    for _ in range(60 if tier == "quick" else 1000):
        out.append(statuslib.gen_history(rng, rng.choice([4, 8, 16]), {"common": 4, "reg": 1, "fail": 2, "tst": 1.5, "cond": 0.3}))
    import stress
    return out + stress.tree_stream(tier)


def harness_line(c): return c
def case_of_line(l): return l
def coq_term(c):
    if c.startswith("dev "):      # the full-stack model only (the operation-level one is C13/C15/C16's)
        return "run_dev2 " + coq_list([statuslib.step_to_coq2(s) for s in statuslib.resolve_keep([s for s in c.split(" ", 1)[1].split("|") if s])])
    return treegen.coq_term(c)


def _calls(m):
    f = m.split(" ")
    log = f[4][4:] if len(f) > 4 else "-"
    return [e for e in log.split(",") if e and e[0].isdigit()]


def obs(s):
    if " q=" in s: return statuslib.obs_fields(s, {"q", "h"})
    out = []
    for m in s.split(" | "):
        f = m.split(" ")
        if len(f) < 5: out.append(m); continue
        out.append(f[0] + " " + f[2] + " " + ",".join(_calls(m)))
    return " | ".join(out)


def impl_oracle(c, r):
    if r is None: return "no result from harness"
    if r.startswith(("PANIC", "CRASH", "NOT-RUN", "HANG")): return "implementation panicked / died"
    if c.startswith("dev "):
        # independent of the model: the hook is called exactly once by a failed message and never otherwise
        for step in r.split(" | "):
            f = step.split(" ")
            if len(f) < 3 or "h=" not in f[2]: continue
            h = int(f[2].split("h=")[1].split(";")[0])
            if h != (0 if f[0] in ("OK", "-") else 1): return "error hook called %d time(s) by a message with status %s" % (h, f[0])
        return None
    for m in r.split(" | "):
        f = m.split(" ")
        if len(f) < 5: continue
        st, hook = f[0], f[2][5:]
        if st == "OK" and hook != "-": return "message succeeded but the error hook was invoked: " + hook
        if st != "OK" and hook != st: return "message failed with %s but the error hook received %s" % (st, hook)
    return None


def nontrivial(c, impl):
    if c.startswith("dev "): return impl is not None and "E-" in impl
    return impl is not None and any(len(_calls(m)) >= 1 and c.count(" ") >= 4 for m in impl.split(" | ")) and b";" in unhex(c.split(" ")[4])


def distribution(cases, impl):
    d = {"messages": 0, "ok": 0, "failed": 0, "bounded_buffer_cases": sum(1 for c in cases if c.split(" ")[1] != "v" and not c.startswith("dev ")),
         "contrib_device_histories": sum(1 for c in cases if c.startswith("dev ")), "error_codes": {}}
    for r in impl:
        if not r or " q=" in r: continue
        for m in r.split(" | "):
            d["messages"] += 1
            st = m.split(" ")[0]
            if st == "OK": d["ok"] += 1
            else:
                d["failed"] += 1
                k = st.split("c")[0].split("x")[0]
                d["error_codes"][k] = d["error_codes"].get(k, 0) + 1
    return d
