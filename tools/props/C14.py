"""C14 — every error code maps to the ESR bit of its class (exhaustive over i16)."""
from common import *
import vlib
from vlib import Violation

PID = "C14"
TARGETS = ["Run.vo", "RunSpec.vo", "NonVacuous/C14.vo"]
IMPORTS = "From VF Require Import Base Show Gen_Errors Gen_Esr ErrTable Lexer Response Conv Tree Scripted Run."
ALLOWED_AXIOMS = []
PROFILES = ["debug"]
RULE = ("library-raised errors: value faults (out-of-range literals for all ten integer types, over-long non-decimal literals, undefined "
        "unit suffixes, numeric_value out of range, response buffer exhausted) must be execution errors, syntax/header/type faults "
        "command errors; and exhaustive: all 65536 i16 codes through ErrorCode::get_error/get_code/get_message/esr_mask and "
        "Error::custom(c).esr_mask(), in 32 chunks of 2048 codes; compared with the model over the regenerated "
        "tables (validates the translator) and, independently of the tables, with the spec class_bit; "
        "every chunk is non-trivial (distinct code ranges)")
ASSUMPTIONS = ["scpi_derive::ScpiError expands to first-match tables (modelled as list lookups; exercised exhaustively)"]
CHUNK = 2048


# errors the LIBRARY raises: (harness line, fault class) — value faults must be execution errors (-2xx),
# syntax / header / data-type faults command errors (-1xx)
def library_faults():
    out = []
    ints = {"i8": (-128, 127), "u8": (0, 255), "i16": (-2**15, 2**15 - 1), "u16": (0, 2**16 - 1), "i32": (-2**31, 2**31 - 1), "u32": (0, 2**32 - 1),
            "i64": (-2**63, 2**63 - 1), "u64": (0, 2**64 - 1), "isize": (-2**63, 2**63 - 1), "usize": (0, 2**64 - 1)}
    for ty, (lo, hi) in ints.items():
        for lit in [str(lo - 1), str(hi + 1), str(lo - 4096) + ".0", str(hi + 4096) + ".0", "%de1" % hi, "-%de1" % max(abs(lo), 1), "1e400", "-1e400", "9" * 45, "-" + "9" * 45,
                    "#H%X" % (hi + 1), "#HFFFFFFFFFFFFFFFFF", "#H" + "F" * 33, "#Q" + "7" * 44, "#B" + "1" * 130]:
            out.append(("conv %s %s" % (ty, hexs(lit.encode())), "value"))
        for el in ["'1'", "#11", "(1)", "ABC", "1 V"]:
            out.append(("conv %s %s" % (ty, hexs(el.encode())), "type"))
    bad = {"f32": ["'x'", "#11", "(1)", "1 V", "#H1", "ZZZ"], "f64": ["'x'", "#11", "(1)", "1 V", "#H1", "ZZZ"], "bool": ["'x'", "#11", "(1)", "#H1", "1 V"],
           "bytes": ["#11", "(1)", "ZZZ", "1", "#H1"], "str": ["(1)", "ZZZ", "1"], "arb": ["'x'", "(1)", "ZZZ", "1"], "chr": ["'x'", "#11", "1"],
           "expr": ["'x'", "#11", "ZZZ", "1"]}
    for ty, els in bad.items():
        for el in els:
            out.append(("conv %s %s" % (ty, hexs(el.encode())), "type"))
    out.append(("conv bool %s" % hexs(b"ZZZ"), "value"))
    for q in ["Frequency", "Time", "ElectricPotential"]:
        out.append(("unit %s %s" % (q, hexs(b"1 FOO")), "value")); out.append(("unit %s %s" % (q, hexs(b"'x'")), "type"))
    for m in [b"CMD 1 2", b"CMD 'abc", b"CMD #", b"A::B", b"CMD 1,,2", b"CMD \x80", b"ABCDEFGHIJKLM", b"CMD 1ABCDEFGHIJKLMN", b"CMD #19", b"CMD (\""]:
        out.append(("lex h %s" % hexs(m), "syntax"))
    for n in (13, 255, 256, 257, 260, 268, 269, 512, 520):          # over-long elements are syntax faults at every length
        for m in (b"A " + b"A" * n, b"A 1" + b"V" * n, b"A 1 " + b"V" * n, b"A" * n, b"A " + b"A" * n + b";B", b"*" + b"C" * n):
            out.append(("lex h %s" % hexs(m), "syntax"))
    out.append(("nv i32 %s M10,m-10" % hexs(b"11"), "value")); out.append(("nv u8 %s -" % hexs(b"UP"), "value"))
    for ty, bounds in (("f32", "M41200000,mc1200000"), ("f64", "M4024000000000000,mc024000000000000"), ("f32", "-"), ("qfreq", "M41200000")):
        for tok in (b"NAN", b"nan", b"INF", b"NINF", b"1e30", b"-1e30", b"DEF", b"DOWN"):
            if ty == "qfreq" and tok.upper() in (b"NAN", b"INF", b"NINF"): continue
            if bounds == "-" and tok in (b"INF", b"NINF", b"1e30", b"-1e30"): continue
            if ",m" not in bounds and tok in (b"-1e30", b"NINF"): continue        # no lower bound configured: in range
            out.append(("nv %s %s %s" % (ty, hexs(tok), bounds), "value"))
    # response buffer exhausted, undefined header, missing / extra parameter through a tree
    tree = "L%s#1;" % hexs(b"CMD")
    out.append(("tree 3 %s 1:r/di12345 %s" % (tree, hexs(b"CMD?")), "value"))
    out.append(("tree v %s 1:r/di1 %s" % (tree, hexs(b"FOO")), "syntax")); out.append(("tree v %s 1:r/di1 %s" % (tree, hexs(b"CMD")), "syntax"))
    out.append(("tree v %s 1:r/di1 %s" % (tree, hexs(b"CMD 1,2")), "syntax"))
    return out


_FAULT = dict(library_faults())


def corpus():
    return [f"errtab {lo} {lo + CHUNK - 1}" for lo in range(-32768, 32768, CHUNK)] + list(_FAULT.keys())


def generate(rng, tier):
    import stress
    return stress.tree_stream(tier)            # compared with the model on the error each message ends with (its class bit follows)
def harness_line(c): return c
def case_of_line(l): return l


def coq_term(c):
    if c.startswith("tree "):
        import treegen
        return treegen.coq_term(c)
    if not c.startswith("errtab"): return '"SKIP"'          # library-raised errors: judged by their class only
    _, lo, hi = c.split(" ")
    return f"run_errtab {coq_Z(int(lo))} {coq_Z(int(hi))}"


def impl_oracle(c, r):
    import re
    if r is None: return "no result from harness"
    if r.startswith(("PANIC", "CRASH", "NOT-RUN", "HANG")): return "implementation panicked / died"
    if c.startswith(("errtab", "tree ")): return None
    fault = _FAULT.get(c)
    codes = [int(x) for x in re.findall(r"(?:^|[ ,=])[EL](-\d+)", r)]
    if not codes: return "a %s fault was not rejected: %s" % (fault, r[:80])
    for code in codes:
        if fault == "value" and not (-299 <= code <= -200): return "value fault reported as %d, not an execution error (-2xx)" % code
        if fault in ("type", "syntax") and not (-199 <= code <= -100): return "%s fault reported as %d, not a command error (-1xx)" % (fault, code)
    return None


def obs(s):
    if " hook=" in s: return " | ".join(m.split(" ")[0].split("c")[0].split("x")[0] for m in s.split(" | "))      # the error code each message ends with
    return s
def nontrivial(c, impl): return True


def spec_search(cases, lines, impl, model_ok):
    """table-independent oracle: class_bit from ErrSpec.v, and the look-up round trip"""
    out = []
    terms = []
    fault_n = len([c for c in cases if not c.startswith("errtab")])
    keep = [(c, r) for c, r in zip(cases, impl) if c.startswith("errtab")]
    cases = [c for c, _ in keep]; impl = [r for _, r in keep]
    for c in cases:
        _, lo, hi = c.split(" ")
        terms.append(f"spec_classbits {coq_Z(int(lo))} {coq_Z(int(hi))}")
    with vlib.Lock("coq"):
        ok, mk = vlib.coq_make(["RunSpec.vo"])
    if not ok:
        return [Violation(None, None, None, "RunSpec.vo (spec oracle) does not build: " + mk[-300:], no_input=True)]
    with vlib.Lock("coqrun"):
        res, errs = vlib.run_coq_cases(terms, "From VF Require Import Base Show ErrSpec RunSpec.", "C14spec")
    if errs:
        return [Violation(None, None, None, "spec oracle evaluation failed: " + errs[0][-300:], no_input=True)]
    for c, r, s in zip(cases, impl, res):
        if r is None or s is None or r.startswith(("PANIC", "CRASH", "NOT-RUN")):
            continue
        spec = dict(x.split(":") for x in s.split(";"))
        for rec in r.split(";"):
            f = rec.split(":")
            code = f[0]
            if f[1] == "N":
                masks = [("custom", f[2])]
            else:
                masks = [("standard", f[3]), ("custom", f[4])]
                if f[1] != "S" + code:
                    out.append(Violation(f"errtab {code} {code}", rec, "get_error(c).get_code() = c",
                                         f"looking up standard code {code} yields an error reporting {f[1][1:]}"))
            for kind, m in masks:
                if m != spec[code]:
                    out.append(Violation(f"errtab {code} {code}", rec, f"class_bit({code}) = {spec[code]}",
                                         f"ESR mask of {kind} error {code} is {m}, IEEE 488.2 class bit is {spec[code]}"))
    return out[:20]


def distribution(cases, impl):
    n_std = sum(r.count(":S") for r in impl if r)
    return {"codes": 65536, "standard_codes_found": n_std}
