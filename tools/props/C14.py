"""C14 — every error code maps to the ESR bit of its class (exhaustive over i16)."""
from common import *
import vlib
from vlib import Violation

PID = "C14"
TARGETS = ["Run.vo", "RunSpec.vo"]
IMPORTS = "From VF Require Import Base Show Gen_Errors Gen_Esr ErrTable Run."
ALLOWED_AXIOMS = []
PROFILES = ["debug"]
RULE = ("exhaustive: all 65536 i16 codes through ErrorCode::get_error/get_code/get_message/esr_mask and "
        "Error::custom(c).esr_mask(), in 32 chunks of 2048 codes; compared with the model over the regenerated "
        "tables (validates the translator) and, independently of the tables, with the spec class_bit; "
        "every chunk is non-trivial (distinct code ranges)")
ASSUMPTIONS = ["scpi_derive::ScpiError expands to first-match tables (modelled as list lookups; exercised exhaustively)"]
CHUNK = 2048


def corpus():
    return [f"errtab {lo} {lo + CHUNK - 1}" for lo in range(-32768, 32768, CHUNK)]


def generate(rng, tier): return []
def harness_line(c): return c
def case_of_line(l): return l


def coq_term(c):
    _, lo, hi = c.split(" ")
    return f"run_errtab {coq_Z(int(lo))} {coq_Z(int(hi))}"


def obs(s): return s
def nontrivial(c, impl): return True


def spec_search(cases, lines, impl, model_ok):
    """table-independent oracle: class_bit from ErrSpec.v, and the look-up round trip"""
    out = []
    terms = []
    for c in cases:
        _, lo, hi = c.split(" ")
        terms.append(f"spec_classbits {coq_Z(int(lo))} {coq_Z(int(hi))}")
    with vlib.Lock("coq"):
        ok, mk = vlib.coq_make(["RunSpec.vo"])
    if not ok:
        return [Violation(None, None, None, "RunSpec.vo (spec oracle) does not build: " + mk[-300:], no_input=True)]
    with vlib.Lock("coqrun"):
        res, errs = vlib.run_coq_cases(terms, "From VF Require Import Base Show ErrSpec RunSpec.", "C14spec")
    if errs:
        return [Violation(None, None, None, "spec oracle evaluation failed: " + errs[0][-300:], no_input=True)]
    for c, r, s in zip(cases, impl, res):
        if r is None or s is None or r.startswith(("PANIC", "CRASH", "NOT-RUN")):
            continue
        spec = dict(x.split(":") for x in s.split(";"))
        for rec in r.split(";"):
            f = rec.split(":")
            code = f[0]
            if f[1] == "N":
                masks = [("custom", f[2])]
            else:
                masks = [("standard", f[3]), ("custom", f[4])]
                if f[1] != "S" + code:
                    out.append(Violation(f"errtab {code} {code}", rec, "get_error(c).get_code() = c",
                                         f"looking up standard code {code} yields an error reporting {f[1][1:]}"))
            for kind, m in masks:
                if m != spec[code]:
                    out.append(Violation(f"errtab {code} {code}", rec, f"class_bit({code}) = {spec[code]}",
                                         f"ESR mask of {kind} error {code} is {m}, IEEE 488.2 class bit is {spec[code]}"))
    return out[:20]


def distribution(cases, impl):
    n_std = sum(r.count(":S") for r in impl if r)
    return {"codes": 65536, "standard_codes_found": n_std}
