"""C04 — lexing is faithful (and the lexer half of C01)."""
import itertools
from common import *
import lexgen

PID = "C04"
TARGETS = ["Run.vo", "Lexer_proofs.vo", "Grammar_proofs.vo", "NonVacuous/C04.vo", "Message_proofs2.vo", "Message_proofs3.vo", "Lexer_ranges.vo", "NonVacuous/C04_ranges.vo"]
IMPORTS = "From VF Require Import Base Show Gen_Errors Lexer Grammar Response Conv Tree Scripted Run."
ALLOWED_AXIOMS = []
PROFILES = ["debug", "release"]
RULE = ("four streams: (1) messages rendered from the IEEE 488.2 grammar AST (1-4 units; absolute/relative/common headers; "
        "all seven data kinds; random layout white space incl. before the first header; with/without NL) together with the "
        "token sequence the grammar assigns (checked against the implementation independently of the model); (2) single-point "
        "corruptions (insert/delete/replace/truncate, biased to structural bytes) of such messages; (3) hostile raw bytes; "
        "(4) every string of length <= L over one byte per lexical class; each through Tokenizer::new, a sample through "
        "Tokenizer::new_params; non-trivial = the implementation produced at least two tokens; distinct = distinct inputs")
ASSUMPTIONS = ["lexical-core 0.8.5 parse_partial::<u64,radix> / parse::<usize> behave as modelled in coq/Lexer.v (digit loops, "
               "u64 overflow is an error); core::slice::Iter / u8::is_ascii_* as documented",
               "white space inside messages is {SP,HT,CR,FF}; NL only as terminator (DESIGN 7.1)"]
MISMATCH_WHY = "token stream of the implementation differs from the proved lexer model (element boundaries / types / payload / error class)"


def mk(line, expect=None, kind="raw"):
    return {"line": line, "expect": expect, "kind": kind}


def corpus():
    L = lambda b, mode="h": mk("lex %s %s" % (mode, hexs(b)), kind="corpus")
    msgs = [
        b"*IDN?", b" *IDN?", b"\t :SYST:ERR?\n", b"*ABCDEFGHIJKL", b"*ABCDEFGHIJKLM", b"ABCDEFGHIJKL:ABCDEFGHIJKLM",
        b"CMD ,1", b"CMD 1,,2", b"CMD 1, ,2", b"CMD 1,", b"CMD 1;", b"CMD 1 2", b"CMD #H+FF", b"CMD #H-FF", b"CMD #HFF,#Q77,#B11",
        b"CMD #HFFFFFFFFFFFFFFFF", b"CMD #H10000000000000000", b"CMD #Q3777777777777777777777", b"CMD #Q7777777777777777777777",
        b"CMD #Q1777777777777777777777", b"CMD #Q2000000000000000000000", b"CMD #B" + b"1" * 65, b"CMD #Q" + b"7" * 43, b"CMD #H" + b"F" * 33, b"CMD #H00000000000000000001", b"CMD #HG", b"CMD #", b"CMD #X1",
        b"CMD #2+5ABCDE", b"CMD #15ABCDE", b"CMD #15ABCD", b"CMD #10,5", b"CMD #10;*IDN?", b"CMD #0abc\n", b"CMD #0abc", b"CMD #0", b"CMD #0\n",
        b"CMD #9000000010x", b"CMD #205ABCDE", b"CMD #1", b"CMD 'it''s',\"a\"\"b\"", b"CMD \"it's\"", b"CMD 'a\", \"b'", b"CMD 'abc",
        b"CMD 'a\x80'", b"CMD (1,2;3)", b"CMD (@1!2,3:4)", b"CMD (@1", b"CMD ((1))", b"CMD 1.5e+3 V/S", b"CMD 1e", b"CMD .", b"CMD +.5E-3KHZ",
        b"CMD 1 ABCDEFGHIJKLM", b"CMD ABCDEFGHIJKLM", b"CMD 1ABCDEFGHIJKLM", b"CMD A B", b"CMD? 1;:X:Y 2;*Z", b"A::B", b"A:1", b"*A:B", b"A?B",
        b"A ?", b"A;;B", b";A", b"A\nB", b"A\n", b"\n", b"", b"   ", b"A\x00", b"A\xff", b"A 1\xff", b"A,B", b"A (", b"A(1)", b"A 1:2", b"A 'x':",
        b"1A", b"A 1 \n", b"A 1e5e", b"A 1 e5", b"A 1.e5", b"A -.e5", b"A +", b"A 00012", b"a:b:c:d:e?  #H1f , 'q' ,(x) , #13abc , ZZ , 1 s\n",
    ]
    msgs += [b"A #" + bytes([b]) + d for b in range(256) for d in (b"FF", b"17", b"01")]
    msgs += [b"A (1;B 2)", b"A (;)", b"A (1,2;B 3);C", b"A #10 ", b"A #10 ,7", b"A #10abc", b"A #10'abc'", b"A #200,1", b"A #10;B", b"A #10,5", b"A? ,1", b"*A? , 1", b"A:B? ,1", b"A ,1",
             b"A? 1,", b"A 1 ,", b"*RST;:A:B?", b"A:B?;*RST;C:D?;E?", b"*RST;A", b"A;;B", b"A; ;B", b"*RST;;A", b"A:B;;C"]
    import stress
    msgs += stress.trailing_ws_messages() + stress.class_limit_messages() + stress.class_limit_messages(tail=b";B 1")
    msgs += [b"A #0ab\r\n", b"A #0\r\r\n", b"A #0ab\r", b"A #0\x34\x12\xff\x7f\x0d\x0d\n", b"A:B?\tMAX", b"A?\x0c1", b"A?\t", b"A?\r1", b"*IDN?\t", b"A\tB", b"A\x0c1",
             b"A 'it''s caf\xc3\xa9'", b'A "a""\xb5"', b"A 'a''\x80", b"A 'a''b''\xff'", b'A "" "\x80"']
    out = [L(m) for m in msgs]
    out += [L(m, "p") for m in [b"1,2", b" 1", b"ABC,1 V", b",1", b"'s' x", b"#H1F;", b"(1:2),3"]]
    return out


def long_cases(tier):
    import stress
    # what the lexer reports must also be what a command sees: handlers of every temperament (incl. ones that swallow a
    # parameter error and go on) on the same stress messages, compared with the model on each message's outcome
    tree = [mk(l, None, "tree") for l in stress.tree_stream(tier)]
    return tree + [mk("lex h " + hexs(m), None, "long") for n in stress.lens(tier) for m in stress.long_element_messages(n) + stress.long_element_messages(n, tail=b";B 1")]


def generate(rng, tier):
    n_gram, n_corr, n_raw, sweep_len = (700, 900, 300, 3) if tier == "quick" else (12000, 16000, 5000, 4)
    g = lexgen.Gen(rng)
    cases = []
    wf = []
    for _ in range(n_gram):
        msg, toks, ast = g.message()
        wf.append(msg)
        c = mk("lex h " + hexs(msg), " ".join(toks) if toks else "-", "grammar")
        c["ast"] = ast
        cases.append(c)
    for _ in range(n_corr):
        base = rng.choice(wf)
        m, how = lexgen.corrupt(rng, base)
        if rng.random() < 0.15:
            m, _ = lexgen.corrupt(rng, m)
        cases.append(mk("lex h " + hexs(m), None, "corrupt-" + how))
    for _ in range(n_raw):
        ln = rng.choice([1, 2, 3, 5, 8, 16, 40, 64])
        if rng.random() < 0.5:
            m = bytes(rng.randrange(256) for _ in range(ln))
        else:
            m = b"".join(rng.choice(lexgen.CLASS_BYTES) for _ in range(ln))
        cases.append(mk("lex %s %s" % (rng.choice("hhp"), hexs(m)), None, "raw"))
    # exhaustive small strings over one byte per lexical class, behind two prefixes
    alpha = [b'A', b'e', b'1', b'_', b'*', b':', b'?', b';', b',', b' ', b'\n', b'+', b'.', b'#', b'H', b'"', b'(', b')', b'@', b'\x80']
    if tier == "quick":
        alpha = alpha[:14] + [b'"', b'(']
    for k in range(0, sweep_len + 1):
        for t in itertools.product(alpha, repeat=k):
            s = b"".join(t)
            cases.append(mk("lex h " + hexs(s), None, "sweep"))
            if k <= sweep_len - 1:
                cases.append(mk("lex h " + hexs(b"A " + s), None, "sweep"))
    global _kinds
    _kinds = dict(g.kinds)
    return cases + long_cases(tier)


_kinds = {}


def harness_line(c): return c["line"]
def case_of_line(l): return mk(l)


def coq_term(c):
    if c["line"].startswith("tree "):
        import treegen
        return treegen.coq_term(c["line"])
    f = c["line"].split(" ")
    if c.get("ast") is not None:
        return "run_lexspec %s %s" % (lexgen.coq_msg(c["ast"]), coq_bytes(unhex(f[2])))
    return "run_lex %s %s" % ("true" if f[1] == "p" else "false", coq_bytes(unhex(f[2] if len(f) > 2 else "-")))


def obs(s):
    """tokens exactly; an error only by its class (command error = -1xx)"""
    if " hook=" in s:        # a tree case: the outcome of each message and what its handlers were handed
        return " | ".join(" ".join(m.split(" ")[i] for i in (0, 4) if i < len(m.split(" "))) for m in s.split(" | "))
    out = []
    for t in s.split(" "):
        if t.startswith("E-") and len(t) == 5:
            t = t[:3] + "xx"
        out.append(t)
    return " ".join(out)


def impl_oracle(c, r):
    if r is None: return "no result from harness"
    if r.startswith("PANIC") or "HANG" in r: return "tokenizer panicked or did not terminate (C01)"
    if r.startswith("CRASH") or r.startswith("NOT-RUN"): return "harness process died on this case"
    if c["line"].startswith("tree "): return None
    if c["expect"] is not None and r != c["expect"]:
        return "well-formed message not decomposed as IEEE 488.2 section 7 prescribes (expected: %s)" % c["expect"][:300]
    for t in r.split(" "):
        if t.startswith("E") and t != "E-222" and not (t.startswith("E-1") and len(t) == 5):
            return "lexical rejection is not a command error: " + t
    return None


def nontrivial(c, impl):
    return impl is not None and impl.count(" ") >= 1


def distribution(cases, impl):
    d = {}
    err = {}
    for c, r in zip(cases, impl):
        d[c["kind"]] = d.get(c["kind"], 0) + 1
        if r and c["kind"] != "tree":
            last = r.split(" ")[-1]
            if last.startswith("E"):
                err[last] = err.get(last, 0) + 1
    return {"by_stream": d, "data_kinds_in_grammar_stream": _kinds, "error_codes_hit": err,
            "rejected": sum(err.values()), "accepted": len(cases) - sum(err.values())}
