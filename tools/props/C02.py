"""C02 — compound-command header paths resolve to exactly the SCPI-designated handler."""
import itertools
from common import *
import treegen, lexgen, vlib
from vlib import Violation

PID = "C02"
TARGETS = ["Run.vo", "Header_proofs.vo", "Message_proofs.vo", "NonVacuous/C02.vo"]
IMPORTS = "From VF Require Import Base Show Gen_Errors Lexer Response Conv Tree Scripted HeaderSpec Run."
ALLOWED_AXIOMS = []
PROFILES = ["debug"]
RULE = ("random command trees (depth <= 3, default leaves and default branches, anonymous default leaf, numeric-suffixed siblings, a "
        "share of ill-formed trees with overlapping names) whose handlers take no parameters and never fail; histories of 1..4 "
        "messages on the SAME tree object, each of 1..6 units mixing absolute (leading colon), relative and common headers, "
        "short/long form, random letter case, default nodes omitted or spelled out, suffix 1 omitted or spelled, plus undefined "
        "headers. Three comparisons: implementation vs model (invocation log, -113); implementation vs an independent Python "
        "reading of the SCPI designation rule on well-formed trees; the Coq specification `desig` vs the same Python reading. "
        "non-trivial = at least two handler invocations")
ASSUMPTIONS = ["handlers in this stream take no parameters and never fail, so every unit of a message is reached unless a header is undefined",
               "Python oracle: mnemonic matching by the short/long/default-1-suffix rule (C03 spec), designation by enumerating all paths with default nodes omitted"]
MISMATCH_WHY = "dispatcher invoked a different handler / form / context than the proved model (C02)"


# ---------------------------------------------------------------- independent oracle
def _strip_digits(x):
    i = len(x)
    while i > 0 and 48 <= x[i - 1] <= 57: i -= 1
    return x[:i], x[i:]


def spec_match(d: bytes, c: bytes) -> bool:
    if not d: return False
    db, ds = _strip_digits(d); cb, cs = _strip_digits(c)
    ds = ds or b"1"; cs = cs or b"1"
    short = bytes(itertools.takewhile(lambda ch: not (97 <= ch <= 122), db))
    return ds == cs and (cb.lower() == short.lower() or cb.lower() == db.lower()) and len(cb) > 0


def designations(node, ctx, ms):
    """all (leaf id, context node) the mnemonics designate from `node` (mirror of the prose rule, not of the code)"""
    if node[0] == "L":
        return [(node[3], ctx)] if not ms else []
    out = []
    for ch in node[3]:
        if not ms:
            if ch[2]: out += designations(ch, ctx, [])
        else:
            if spec_match(ch[1], ms[0]): out += designations(ch, node, ms[1:])
            if ch[2] and ch[0] == "B": out += designations(ch, ctx, ms)
    return out


def lookup_nodes(b):
    out = []
    for ch in b[3]:
        out.append(ch)
        if ch[2] and ch[0] == "B": out += lookup_nodes(ch)
    return out


def end_leaves(b):
    out = []
    for ch in b[3]:
        if ch[2]:
            out += end_leaves(ch) if ch[0] == "B" else [ch]
    return out


def names_overlap(a: bytes, b: bytes) -> bool:
    """some received mnemonic matches both definitions (enumerate the spellings of b)"""
    if not a or not b: return False
    bb, bs = _strip_digits(b)
    short = bytes(itertools.takewhile(lambda ch: not (97 <= ch <= 122), bb))
    cands = [bb + bs, short + bs]
    if bs == b"": cands += [bb + b"1", short + b"1"]
    if bs == b"1": cands += [bb, short]
    return any(spec_match(a, c) for c in cands)


def wf_tree(b):
    if b[0] == "L": return True
    ln = lookup_nodes(b)
    for i in range(len(ln)):
        for j in range(i + 1, len(ln)):
            if names_overlap(ln[i][1], ln[j][1]) or names_overlap(ln[j][1], ln[i][1]): return False
    if len(end_leaves(b)) > 1: return False
    if sum(1 for ch in b[3] if ch[2] and ch[0] == "B") > 1: return False
    return all(wf_tree(ch) for ch in b[3])


def expected_log(root, units):
    """units: [(absolute, common, [mnemonics], query)] -> (list of 'id e|q' invocations, final status)"""
    ctx = root; log = []
    if any(len(m.lstrip(b"*")) > 12 for u in units for m in u[2]):
        return None, None                          # not a well-formed message (mnemonic too long): outside the property
    for i, (ab, com, ms, q) in enumerate(units):
        start = root if (i == 0 or ab or com) else ctx
        des = designations(start, start, ms)
        if not des:
            return log, "E-113"
        if len(set((d[0], id(d[1])) for d in des)) > 1:
            return None, None                      # ambiguous: the rule does not single out a handler
        log.append("%d%s" % (des[0][0], "q" if q else "e"))
        if not com: ctx = des[0][1]
    return log, "OK"


# ---------------------------------------------------------------- generation
def gen_units(rng, root, n):
    ps = treegen.paths(root[3])
    g = lexgen.Gen(rng)
    units = []; prev = None
    for i in range(n):
        x = rng.random()
        if x < 0.08 or not ps:
            units.append((rng.random() < 0.3, False, [g.mnemonic(5) for _ in range(rng.randint(1, 3))], rng.random() < 0.5)); prev = None
            continue
        p = rng.choice(ps)
        if p[0][1].startswith(b"*"):
            units.append((False, True, [treegen.spell(rng, p[0][1])], rng.random() < 0.5)); continue
        if prev is not None and rng.random() < 0.55 and len(prev) > 1:
            k = rng.randint(0, len(prev) - 1)
            cands = [q for q in ps if q[:k] == prev[:k] and len(q) > k and not q[0][1].startswith(b"*")]
            if cands:
                p = rng.choice(cands)
                ms = treegen.header_for(rng, p, k)
                if ms:
                    units.append((False, False, ms, rng.random() < 0.5)); prev = p; continue
        ms = treegen.header_for(rng, p)
        if not ms: ms = [treegen.spell(rng, p[-1][1])] if p[-1][1] else [b"X"]
        units.append((rng.random() < 0.5, False, ms, rng.random() < 0.5)); prev = p
    return units


def render_units(rng, units):
    g = lexgen.Gen(rng)
    out = b""
    for i, (ab, com, ms, q) in enumerate(units):
        out += (b":" if ab else b"") + b":".join(ms) + (b"?" if q else b"") + (g.ws(0, 1) if rng.random() < 0.3 else b"")
        if i < len(units) - 1: out += b";" + g.ws(0, 1)
    return out + rng.choice([b"", b"", b"\n"])


def mk(line, expect=None, root=None, units=None):
    return {"line": line, "expect": expect, "root": root, "units": units}


def corpus():
    # scpi/tests/csv/tree_traversal.csv shape + the contrib status subtree
    sub = [("B", b"BRANch", False, [("L", b"CHILd", False, 1), ("B", b"DEFault", True, [("L", b"LEAF", True, 2), ("L", b"OTHer", False, 3)])]),
           ("B", b"SYSTem", False, [("B", b"ERRor", False, [("L", b"NEXT", True, 4), ("L", b"COUNt", False, 5), ("L", b"ALL", False, 6)]), ("L", b"VERSion", False, 7)]),
           ("L", b"*IDN", False, 8), ("L", b"CHANnel2", False, 9), ("L", b"CHANnel", False, 10), ("L", b"", True, 11)]
    sc = {i: ([], ["di%d" % i]) for i in range(1, 12)}
    msgs = [b"BRAN:CHIL", b"BRAN", b"BRAN?;OTH;:BRAN:DEF:LEAF?;DEF?", b"SYST:ERR?;COUN?", b"SYST:ERR:NEXT?;COUN?;ALL?", b"SYST:ERR?;VERS?;ERR:ALL?",
            b"syst:err?;*IDN?;vers?", b"*IDN?;SYST:VERS?", b"SYST:VERS?;:SYST:ERR?", b"CHAN;CHAN1;CHAN2;channel2?;chan3", b"BRAN:FOO", b"SYST:ERR:NEXT:X", b"",
            b"SYST:VERS?;:*IDN?", b"SYSTEM:ERROR:COUNT?;next?", b"SYS:ERR?", b"SYSTE:ERR?", b"BRAN:DEF;LEAF?;OTH"]
    out = [mk(treegen.case_line("v", sub, sc, [m])) for m in msgs]
    out.append(mk(treegen.case_line("v", sub, sc, [b"SYST:ERR?", b"COUN?", b"SYST:ERR:COUN?;ALL?", b"VERS?"])))   # a new message starts at the root
    return out


def generate(rng, tier):
    n = 500 if tier == "quick" else 8000
    out = []
    for _ in range(n):
        tg = treegen.TreeGen(rng, illformed=rng.choice([0, 0, 0.15, 0.4]), pulls=False, fail=0)
        tg.script = lambda query, _tg=tg: (["di%d" % _tg.next_id] if query else [])      # answers its own id
        sub = tg.tree(rng.choice([1, 2, 3]))
        root = ("B", b"ROOT", False, sub)
        msgs = []; exps = []
        for _ in range(rng.choice([1, 1, 2, 4])):
            units = gen_units(rng, root, rng.choice([1, 2, 3, 4, 6]))
            msgs.append(render_units(rng, units))
            exps.append(expected_log(root, units) if wf_tree(root) else (None, None))
        out.append(mk(treegen.case_line("v", sub, tg.scripts, msgs), exps, root, None))
    import stress
    return out + [mk(l) for l in stress.tree_stream(tier)]


def harness_line(c): return c["line"]
def case_of_line(l): return mk(l)
def coq_term(c): return treegen.coq_term(c["line"])


def _calls(m):
    f = m.split(" ")
    log = f[4][4:] if len(f) > 4 else "-"
    return [e for e in log.split(",") if e and e[0].isdigit()]


def obs(s):
    out = []
    for m in s.split(" | "):
        f = m.split(" ")
        st = f[0] if f[0] in ("OK", "E-113") else "E"
        out.append(st + " " + ",".join(_calls(m)))
    return " | ".join(out)


def impl_oracle(c, r):
    if r is None: return "no result from harness"
    if r.startswith("PANIC") or r.startswith("CRASH") or r.startswith("NOT-RUN"): return "implementation panicked / died"
    if c["expect"]:
        for m, (elog, est) in zip(r.split(" | "), c["expect"]):
            if elog is None: continue
            calls = _calls(m); st = m.split(" ")[0]
            if calls != elog or st != est:
                return ("well-formed tree: SCPI designates %s ending %s, implementation invoked %s ending %s"
                        % (",".join(elog) or "-", est, ",".join(calls) or "-", st))
    return None


def nontrivial(c, impl):
    return impl is not None and sum(len(_calls(m)) for m in impl.split(" | ")) >= 2


def distribution(cases, impl):
    d = {"histories": len(cases), "messages": 0, "invocations": 0, "undefined_header": 0, "wf_trees_with_oracle": 0}
    for c, r in zip(cases, impl):
        if c["expect"] and any(e[0] is not None for e in c["expect"]): d["wf_trees_with_oracle"] += 1
        if not r: continue
        for m in r.split(" | "):
            d["messages"] += 1; d["invocations"] += len(_calls(m))
            if m.startswith("E-113"): d["undefined_header"] += 1
    return d


def extra_checks(rng, tier, model_ok):
    """Coq `desig` / `resolve` vs the Python reading of the designation rule, headers of length 1..3 from the root"""
    if not model_ok: return {}
    n = 150 if tier == "quick" else 1500
    terms = []; exp = []
    for _ in range(n):
        tg = treegen.TreeGen(rng, illformed=rng.choice([0, 0.2, 0.5]), pulls=False, fail=0)
        sub = tg.tree(rng.choice([1, 2, 3])); root = ("B", b"ROOT", False, sub)
        ps = treegen.paths(sub)
        for _ in range(4):
            if ps and rng.random() < 0.85:
                ms = treegen.header_for(rng, rng.choice(ps)) or [b"Q"]
            else:
                ms = [lexgen.Gen(rng).mnemonic(4)]
            des = designations(root, root, ms)
            terms.append("run_desig %s %s false" % (treegen.coq_tree(sub, tg.scripts), coq_list([coq_bytes(m) for m in ms])))
            exp.append((",".join("%d@%s" % (i, hexs(cx[1])) for i, cx in des) or "-", wf_tree(root), des))
    res, errs = vlib.run_coq_cases(terms, IMPORTS, "C02desig")
    viol = []
    for t, (e, iswf, des), r in zip(terms, exp, res):
        if r is None: continue
        dpart, rpart = r.split(" ")
        if dpart != e:
            viol.append(Violation("desig " + t[:400], dpart, e, "Coq specification `desig` disagrees with the independent reading of the designation rule", no_input=True))
        elif iswf and des and not rpart.startswith("R%d" % des[0][0]):
            viol.append(Violation("desig " + t[:400], rpart, e, "model `resolve` misses the designated handler on a well-formed tree", no_input=True))
        elif not des and not rpart.startswith("E-113"):
            viol.append(Violation("desig " + t[:400], rpart, e, "nothing designated but the model does not answer -113", no_input=True))
    return {"violations": viol[:3], "evaluations": len(terms),
            "coverage": {"spec_validation_headers": len(terms), "spec_validation_nonempty": sum(1 for e in exp if e[2]),
                         "spec_validation_wf": sum(1 for e in exp if e[1])}}
