"""C01 — arbitrary input is processed totally: no panic, overflow, hang or internal error."""
import itertools
from common import *
import treegen, lexgen

PID = "C01"
TARGETS = ["Run.vo", "Lexer_proofs.vo", "Tree_proofs.vo", "Conv_proofs.vo", "Lists_proofs.vo", "NonVacuous/C01.vo"]
IMPORTS = "From VF Require Import Base Show Gen_Errors Lexer Response Conv Tree Scripted Run."
ALLOWED_AXIOMS = []
PROFILES = ["debug", "release"]
RULE = ("random command trees (depth <= 3, default nodes, suffixed siblings) whose handlers pull 0..4 parameters, each with a random "
        "typed conversion (all ten integer types, f32/f64, bool, string, str, block, character, expression, numeric list and "
        "channel list iterated to their first error) or raw; three message streams: hostile raw bytes (all 256 values), "
        "grammar-directed messages built from the tree's own paths, and their single-point corruptions (truncated blocks and "
        "strings, doubled separators, lone signs, `!!`); plus every string of length <= L over one byte per lexical class "
        "behind header prefixes.  Debug (overflow checks, debug assertions) AND release.  Implementation-only oracle: PANIC, "
        "HANG (per-case watchdog), process death, or error -300 'Internal parser error' is a violation; cases whose handlers "
        "use raw pulls only are also compared with the proved model.  non-trivial = some handler was invoked")
ASSUMPTIONS = ["the watchdog (20 s per case) stands for non-termination", "typed conversions are observed only through their outcome class here; exact values are C07/C08"]
MISMATCH_WHY = "implementation differs from the proved total model of lexer + dispatcher (C01)"

TYPES = ["i8", "u8", "i16", "u16", "i32", "u32", "i64", "u64", "isize", "usize", "f32", "f64", "bool", "bytes", "str", "arb", "chr", "expr", "nlist", "clist"]


def mk(line, model=True):
    return {"line": line, "model": model}


def typed_scripts(rng, scripts):
    out = {}
    for i, (e, q) in scripts.items():
        def conv(ops):
            r = []
            for o in ops:
                if o in ("r", "o", "R", "O") and rng.random() < 0.8:
                    r.append(o + ":" + rng.choice(TYPES))
                else:
                    r.append(o)
            return r
        out[i] = (conv(e), conv(q))
    return out


INT_RANGES = {"i8": (-2**7, 2**7 - 1), "u8": (0, 2**8 - 1), "i16": (-2**15, 2**15 - 1), "u16": (0, 2**16 - 1), "i32": (-2**31, 2**31 - 1),
              "u32": (0, 2**32 - 1), "i64": (-2**63, 2**63 - 1), "u64": (0, 2**64 - 1), "isize": (-2**63, 2**63 - 1), "usize": (0, 2**64 - 1)}


def int_edge_cases():
    """decimal literals at the exact rounding edges of every integer target (MIN - .5, MAX + .5 and neighbours, huge
    exponents, many digits), pulled with the typed conversion: overflow in the float fallback shows as a panic in debug"""
    out = []
    for t, (lo, hi) in INT_RANGES.items():
        lits = []
        for b in (lo, hi, lo - 1, hi + 1, 0, 2**53, -2**53, 2**24, 2**63, 2**64):
            for frac in ("", ".", ".0", ".4", ".49999999999999999", ".5", ".50000000000000001", ".6", "e0", ".5e0"):
                sgn = "-" if b < 0 else ""
                lits.append("%s%d%s" % (sgn, abs(b), frac))
        lits += ["-0.5", "-.5", "-0.50000001", "-0.4", "-0", "-0.0", ".5", "1e19", "1e20", "-1e19", "1e39", "1e309", "-1e309", "1e-400", "5e-1",
                 "%de-1" % (hi * 10 + 5), "%de-1" % (lo * 10 - 5), "0.%s1" % ("0" * 400), "9" * 40, "-" + "9" * 40, "9" * 400 + "e-380"]
        sub = [("L", b"A", False, 1)]
        sc = {1: (["r:" + t], ["r:" + t, "di1"])}
        msgs = [b"A " + l.encode() for l in lits] + [b"A? " + l.encode() for l in lits[::3]]
        for i in range(0, len(msgs), 25):
            out.append(mk(treegen.case_line("v", sub, sc, msgs[i:i + 25]), model=True))
    return out


def corpus():
    sub = [("L", b"CMD", False, 1), ("L", b"*ARB", False, 2), ("B", b"SYSTem", False, [("L", b"VERSion", True, 3)]), ("L", b"SUM", False, 4)]
    raw = {1: (["r", "o"], ["r", "di1"]), 2: (["o"], ["o", "di2"]), 3: ([], ["di3"]), 4: (["r", "r"], ["r", "r", "di4"])}
    ty = {1: (["r:clist", "o:nlist"], ["r:i8", "di1"]), 2: (["o:arb"], ["o:str", "di2"]), 3: ([], ["di3"]), 4: (["r:i64", "r:u64"], ["r:f32", "r:bool", "di4"])}
    msgs = [b"*ARB? #10", b"*ARB #200,1", b"CMD #10", b"SUM? 1,*RST", b"SUM 1.0, *IDN", b"*IDN?;;SYST:VERS?", b";*IDN?", b"SYST:VERS; ;VERS?\n",
            b"CMD (@1!!2)", b"CMD (@1!2!3:4!5!6),(1:2,3)", b"CMD (@", b"CMD (@1:)", b"CMD (@!)", b"CMD (@1!),(,)", b"CMD (@'a", b"CMD (1:2:3),(--1)", b"CMD (@1!2-3)", b"CMD (@4!5,1!2+3)", b"CMD (@1!2!3-4)", b"CMD (@1!2:3!4-5)", b"CMD (@1-2)", b"CMD (@1+2!3),(1-2)", b"SUM 1,*RST", b"SUM? 1.5,*X2", b"CMD 1,*IDN?",
            b"CMD (@18446744073709551617)", b"CMD (@9223372036854775808!1)", b"CMD (@1!170141183460469231731687303715884105728)",
            b"CMD 9223372036854775807.0", b"SUM 18446744073709551615.0,1e400", b"SUM? -1e-400,0.5", b"CMD? 1e39", b"CMD? -129", b"CMD? 0.0",
            b"CMD #", b"CMD #H", b"CMD #0", b"CMD '", b"CMD \"\x80\"", b"\x00\xff", b"*", b":", b"?", b"CMD?1", b"CMD 1e", b"CMD .", b"CMD +", b"CMD -.e1",
            b"CMD #9999999999", b"CMD #19", b"CMD 1" + b"0" * 400, b"CMD ." + b"9" * 400 + b"e-400", b"SYST" + b":SYST" * 200, b"CMD " + b"1," * 300 + b"1"]
    out = []
    for m in msgs:
        out.append(mk(treegen.case_line("v", sub, ty, [m]), model=False))
        out.append(mk(treegen.case_line("v", sub, raw, [m]), model=True))
    return out + int_edge_cases()


def generate(rng, tier):
    n_tree, per_tree, sweep_len = (60, 30, 3) if tier == "quick" else (600, 60, 4)
    out = []
    for _ in range(n_tree):
        tg = treegen.TreeGen(rng, illformed=0.1, emit=True, fail=0.05)
        sub = tg.tree(rng.choice([1, 2, 3]))
        ty = typed_scripts(rng, tg.scripts)
        msgs = []
        for _ in range(per_tree):
            k = rng.random()
            if k < 0.35:
                m = treegen.gen_message(rng, sub, bad=0.1)
            elif k < 0.75:
                m, _ = lexgen.corrupt(rng, treegen.gen_message(rng, sub, bad=0.05))
                if rng.random() < 0.3: m, _ = lexgen.corrupt(rng, m)
            else:
                ln = rng.choice([1, 2, 4, 8, 16, 40])
                m = bytes(rng.randrange(256) for _ in range(ln)) if rng.random() < 0.5 else b"".join(rng.choice(lexgen.CLASS_BYTES) for _ in range(ln))
            msgs.append(m)
        # typed pulls: implementation-only; raw pulls: also against the model (messages batched per tree)
        modelled = all((":" not in o) or (o.split(":")[1] in treegen.PTY) for e, q in ty.values() for o in e + q)
        for i in range(0, len(msgs), 6):
            out.append(mk(treegen.case_line("v", sub, ty, msgs[i:i + 6]), model=modelled))
        for i in range(0, len(msgs), 10):
            out.append(mk(treegen.case_line("v", sub, tg.scripts, msgs[i:i + 10]), model=True))
    # exhaustive small strings behind header prefixes against a fixed tree with typed handlers
    sub = [("L", b"A", False, 1), ("B", b"B", False, [("L", b"C", True, 2)])]
    alpha = [b'A', b'1', b':', b'?', b';', b',', b' ', b'\n', b'-', b'.', b'#', b'0', b'H', b'"', b'(', b')', b'@', b'!', b'e', b'\x80']
    if tier == "quick": alpha = alpha[:18]
    for tyname in (["clist", "nlist", "i8", "f64", "arb"] if tier == "quick" else TYPES):
        sc = {1: (["r:" + tyname, "o:" + tyname], ["o:" + tyname, "di1"]), 2: (["o:" + tyname], ["r:" + tyname, "di2"])}
        batch = []
        for k in range(0, sweep_len + 1):
            for t in itertools.product(alpha, repeat=k):
                s = b"".join(t)
                batch.append(b"A " + s); batch.append(b"B? (" + s)
                if len(batch) >= 40:
                    out.append(mk(treegen.case_line("v", sub, sc, batch), model=False)); batch = []
        if batch: out.append(mk(treegen.case_line("v", sub, sc, batch), model=False))
    import stress
    out += [mk("devrep %d %s %s" % (n, hexs(f), hexs(b"*STB?;:SYST:ERR:COUN?")), model=False) for n in (255, 256, 257, 300, 65536, 70000) for f in (b"FOO", b"*ESE 256")]
    return out + [mk(l, model=True) for l in stress.tree_stream(tier)]


def harness_line(c): return c["line"]
def case_of_line(l):
    import re
    tys = re.findall(r"[roRO]:([a-z0-9]+)", l.split(" ")[3])
    return mk(l, model=all(t in treegen.PTY for t in tys))


def coq_term(c):
    if not c["model"]:
        return '"SKIP"'
    return treegen.coq_term(c["line"])


def obs(s):
    if s == "SKIP": return s
    out = []
    for m in s.split(" | "):
        f = m.split(" ")
        st = f[0]
        if st.startswith("E-") : st = st[:3] + "xx"        # C01 constrains only the outcome class
        out.append(st)
    return " ".join(out)


def impl_oracle(c, r):
    if r is None: return "no result from harness"
    if r.startswith("PANIC") or " PANIC" in r: return "implementation panicked: " + r[:200]
    if r.startswith("HANG"): return "implementation did not return (watchdog)"
    if r.startswith("CRASH") or r.startswith("NOT-RUN"): return "harness process died on this case (abort / stack overflow)"
    if "E-300x496e7465726e616c" in r: return "library surfaced its own 'Internal parser error'"
    if "p!" in r: return "a handler was handed a token that is not a data element"
    return None


# the driver compares impl == model; typed cases have no model line
def nontrivial(c, impl):
    return impl is not None and ("e," in impl or "q," in impl or impl.rstrip().endswith(("e", "q")))


def distribution(cases, impl):
    d = {"cases": len(cases), "messages": 0, "typed_cases": sum(1 for c in cases if not c["model"]), "ok": 0, "command_errors": 0, "execution_errors": 0, "other": 0}
    for r in impl:
        if not r: continue
        for m in r.split(" | "):
            d["messages"] += 1
            st = m.split(" ")[0]
            if st == "OK": d["ok"] += 1
            elif st.startswith("E-1"): d["command_errors"] += 1
            elif st.startswith("E-2"): d["execution_errors"] += 1
            else: d["other"] += 1
    return d
