"""Independent Python reading of IEEE 488.2 response formatting for the script items of treegen
(used as the spec-side oracle of C10/C11/C09; not derived from the Coq model)."""
from common import *


def item_text(it):
    """bytes a response data item must produce, or None when the item itself is an error"""
    k, v = it[0], it[1:]
    if k in "iu": return str(int(v)).encode()
    if k == "b": return b"1" if v == "1" else b"0"
    if k == "s":
        s = unhex(v)
        if any(c > 127 for c in s): return None
        return b'"' + s.replace(b'"', b'""') + b'"'
    if k == "a":
        s = unhex(v); l = str(len(s)).encode()
        return b"#" + str(len(l)).encode() + l + s
    if k == "c": return unhex(v)
    if k == "x": return b"(" + unhex(v) + b")"
    if k in "HQB":
        n = int(v)
        return {"H": b"#H" + b"%X" % n, "Q": b"#Q" + b"%o" % n, "B": b"#B" + bin(n)[2:].encode()}[k]
    if k == "l":
        if v == "-": return None
        return b",".join(str(int(x)).encode() for x in v.split(","))
    if k == "X": return None
    if k == "E":
        code, cust, ext = parse_error_spec(v)
        msg = cust
        if msg is None:
            msg = dict((c, m) for _, c, m in error_table())[code]
        q = lambda b: b.replace(b'"', b'""')
        if ext is not None:
            return str(code).encode() + b',"' + q(msg) + b";" + q(ext) + b'"'
        if any(c > 127 for c in msg): return None
        return str(code).encode() + b',"' + q(msg) + b'"'
    raise ValueError(it)


def unit_text(ops):
    """text of one response unit for a query script that succeeds, or None when some item fails;
    pulls are ignored (the caller only uses this for handlers known to have returned Ok)"""
    hs = [unhex(o[1:]) for o in ops if o[0] == "h"]
    ds = []
    for o in ops:
        if o[0] in "FKN": break
        if o[0] == "d":
            t = item_text(o[1:])
            if t is None: return None
            ds.append(t)
    out = b":".join(hs)
    if hs and ds: out += b" "
    return out + b",".join(ds)
