"""C07 — integer parameters convert to the exactly rounded value or a range error."""
from common import *
import numlib

PID = "C07"
TARGETS = ["Run.vo", "Conv_proofs.vo", "Float_proofs.vo", "NonVacuous/C07.vo"]
IMPORTS = "From VF Require Import Base Show Gen_Errors Lexer Conv Run."
import vlib
ALLOWED_AXIOMS = sorted(vlib.FLOCQ_AXIOMS)      # Flocq real-number development: the four standard-library axioms (DESIGN 4)
PROFILES = ["debug", "release"]
TYPES = list(numlib.INTS.keys())
COQTY = {"i8": "I8", "u8": "U8", "i16": "I16", "u16": "U16", "i32": "I32", "u32": "U32", "i64": "I64", "u64": "U64", "isize": "Isize", "usize": "Usize"}
RULE = ("for each of the ten integer targets: every spelling of zero (signs, bare point, exponents, subnormal-range values), the type "
        "bounds +/- {0, .4, .499, .5, .501, .6, 1, 1.5, 2} and +/- 1024..4096, half-integers, 2^52+1 and neighbours, the largest "
        "floats below .5, 25..41-digit integers, NR1/NR2/NR3 spellings with E/e and signs, random literals around the range; "
        "non-decimal #H/#Q/#B literals around each bound; MIN/MAX keywords in short/long form and near misses; suffixed and "
        "non-numeric elements.  The result is compared exactly with the model AND (decimal literals) with the set of outcomes "
        "C07 allows, computed in exact rational arithmetic in Python (nearest integer of the literal or of its correctly "
        "rounded double/single; -222 iff not representable).  Debug and release.  non-trivial = a literal that is not a plain "
        "in-range NR1 integer")
ASSUMPTIONS = ["lexical-core 0.8.5 parse::<f32|f64> returns the correctly rounded value (specification dec2sf; exercised here and in C08)",
               "rustc float `-`, comparison and float->int `as` follow IEEE-754 / saturating semantics"]
MISMATCH_WHY = "integer conversion result differs from the proved model (C07)"


def mk(ty, lit, kind="dec"):
    return {"line": "conv %s %s" % (ty, hexs(lit)), "ty": ty, "lit": lit, "kind": kind}


def nondec(rng, ty):
    lo, hi, _ = numlib.INTS[ty]
    out = []
    for v in [0, 1, hi - 1, hi, hi + 1, hi * 2, 2 ** 63, 2 ** 64 - 1, max(hi // 2, 1), rng.randint(0, hi), rng.randint(hi, 2 ** 64 - 1)]:
        v = max(0, min(v, 2 ** 64 - 1))
        out += [b"#H%X" % v, b"#h%x" % v, b"#Q%o" % v, b"#B" + bin(v)[2:].encode(), b"#b" + b"0" * 3 + bin(v)[2:].encode()]
    return out


def others(rng):
    return keyword_near_misses(b"MAXimum") + keyword_near_misses(b"MINimum") + [b"MAX", b"MAXimum", b"maximum", b"MIN", b"minimum", b"MINI", b"MAXI", b"MA", b"MAXIMUMM", b"DEF", b"INF", b"NAN", b"ON",
            b"1 V", b"1.5e3 KHZ", b"0 S", b"'1'", b"\"12\"", b"#11", b"#13abc", b"(1)", b"(@1,2)", b"MAX1", b"MIN1"]


def corpus():
    out = []
    for ty, lit in [("i32", b"0.0"), ("i32", b"0e0"), ("i32", b"-0.0"), ("i32", b"1e-320"), ("i32", b"2147483647.4"), ("i32", b"-2147483648.4"), ("u8", b"255.4"),
                    ("u8", b"-0.4"), ("i64", b"9223372036854775807.0"), ("u64", b"18446744073709551615.0"), ("i32", b"0.49999999999999994"),
                    ("i64", b"4503599627370497.0"), ("u8", b"255.5"), ("i8", b"-128.5"), ("i8", b"-0.6"), ("i8", b"-127.6"), ("i32", b"-4.19e1"),
                    ("i32", b"16777217.0"), ("u32", b"3000000001.0"), ("i32", b"123456789.0"), ("i8", b"#HFF"), ("i32", b"#HFFFFFFFF"), ("i16", b"#H8000"), ("u64", b"1e400"),
                    ("u8", b"999"), ("u8", b"511"), ("u8", b"0000000999"), ("u16", b"99999"), ("u32", b"9999999999"), ("i32", b"9999999999"), ("i32", b"-9999999999"),
                    ("u64", b"30000000000000000000"), ("i64", b"-30000000000000000000"), ("usize", b"99999999999999999999"), ("u8", b"-0"), ("u8", b"-5"),
                    ("i64", b"1" + b"0" * 38), ("i64", b"9" * 39), ("u64", b"9" * 40)]:
        out.append(mk(ty, lit, "nondec" if lit.startswith(b"#") else "dec"))
    return out


def generate(rng, tier):
    nr = 150 if tier == "quick" else 3000
    out = []
    for ty in TYPES:
        for lit in numlib.int_literals(rng, ty, nr):
            out.append(mk(ty, lit))
        # NR1 integers with the maximum digit count of the target and beyond (wrap-around candidates)
        nd = len(str(numlib.INTS[ty][1]))
        for _ in range(40 if tier == "quick" else 600):
            d = rng.choice([nd, nd, nd, nd + 1, nd - 1, 20, 39, 40])
            v = rng.randint(10 ** (d - 1), 10 ** d - 1)
            out.append(mk(ty, (b"-" if rng.random() < 0.3 else b"") + str(v).encode()))
        for lit in nondec(rng, ty): out.append(mk(ty, lit, "nondec"))
        for lit in others(rng): out.append(mk(ty, lit, "other"))
    return out


def harness_line(c): return c["line"]


def case_of_line(l):
    f = l.split(" ")
    lit = unhex(f[2])
    return mk(f[1], lit, "dec" if numlib.literal_value(lit) is not None else "other")


def coq_term(c): return "run_conv (CInt %s) %s" % (COQTY[c["ty"]], coq_bytes(c["lit"]))
def obs(s): return s


def impl_oracle(c, r):
    if r is None: return "no result from harness"
    if r.startswith(("PANIC", "CRASH", "NOT-RUN", "HANG")): return "conversion panicked / died: " + r[:100]
    if c["kind"] == "dec":
        al = numlib.int_allowed(c["ty"], c["lit"])
        if al is None: return None
        got = ("ok", int(r[1:])) if r.startswith("I") else ("err", int(r[1:])) if r.startswith("E-") and r[1:].lstrip("-").isdigit() else ("?", r)
        if got not in al:
            return "C07 allows %s for %s %s, implementation returned %s" % (sorted(al, key=str), c["ty"], c["lit"].decode(), r)
    if c["kind"] == "nondec" and r.startswith("I"):
        lit = c["lit"].decode()
        v = int(lit[2:], {"h": 16, "q": 8, "b": 2}[lit[1].lower()])
        lo, hi, _ = numlib.INTS[c["ty"]]
        if int(r[1:]) != v or v > hi: return "non-decimal literal %s converted to %s" % (lit, r)
    if c["kind"] == "nondec" and r.startswith("E") and r != "E-222": return "non-decimal literal rejected with " + r
    if c["kind"] == "nondec" and r == "E-222":
        lit = c["lit"].decode(); v = int(lit[2:], {"h": 16, "q": 8, "b": 2}[lit[1].lower()])
        if v <= numlib.INTS[c["ty"]][1]: return "representable non-decimal literal %s rejected" % lit
    return None


def nontrivial(c, impl):
    return impl is not None and not (c["kind"] == "dec" and c["lit"].lstrip(b"+-").isdigit() and impl.startswith("I"))


def distribution(cases, impl):
    d = {"decimal": 0, "nondecimal": 0, "other": 0, "ok": 0, "range_error": 0, "command_error": 0, "per_type": {}}
    for c, r in zip(cases, impl):
        d[{"dec": "decimal", "nondec": "nondecimal", "other": "other"}[c["kind"]]] += 1
        d["per_type"][c["ty"]] = d["per_type"].get(c["ty"], 0) + 1
        if r and r.startswith("I"): d["ok"] += 1
        elif r == "E-222": d["range_error"] += 1
        elif r and r.startswith("E-1"): d["command_error"] += 1
    return d
