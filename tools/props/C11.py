"""C11 — fixed-capacity, allocation-free operation: overflow is an error, never a panic."""
from common import *
import treegen

PID = "C11"
TARGETS = ["Run.vo", "Resp_proofs.vo", "NonVacuous/C11.vo"]
IMPORTS = "From VF Require Import Base Show Gen_Errors Lexer Response Conv Tree Scripted Run."
ALLOWED_AXIOMS = []
PROFILES = ["debug", "release"]
RULE = ("each generated message (1..4 units, queries writing 1..4 data elements of random types, with/without headers; handlers "
        "pulling raw tokens) is run with the growable buffer and with ArrayVec<u8,CAP> for EVERY capacity 0 .. len(response)+2 "
        "(so exhaustion strikes at every write); compared with the model; independently of the model: bounded output is a prefix "
        "of the unbounded output, identical result when it fits, -225 when it does not (handlers that return finish()), never a "
        "panic; the global allocator's call count during Node::run must be 0 for every ArrayVec run (handlers, logs and scripts "
        "are pre-allocated); the library's own scpi-contrib handlers (common commands, STATus, SYSTem:ERRor incl. :ALL? on a "
        "filled queue) run histories with pre-reserved response buffer and error queue under the same counter.  non-trivial = a bounded run that overflowed")
ASSUMPTIONS = ["the scripted handlers do not allocate (pre-reserved log/arena); heap allocation is MEASURED per explored message, not proved (DESIGN 5, C11)",
               "ArrayVec capacities instantiated in the harness: 0..80, 96, 128, 256, 1024"]
MISMATCH_WHY = "bounded-buffer behaviour differs from the proved model (C11)"
INST = set(list(range(0, 81)) + [96, 128, 256, 1024])


def mk(line, base=None, model=True):
    return {"line": line, "base": base, "model": model}


def treegen_types():
    return ["i8", "u64", "f32", "f64", "bool", "bytes", "str", "arb", "chr", "expr", "nlist", "clist", "volt", "freq", "time", "amplv", "dbw", "nvi32", "nvf32"]


def corpus():
    sub = [("L", b"STR", False, 1), ("L", b"NUM", False, 2), ("L", b"HDR", False, 3), ("L", b"THREE", False, 4), ("L", b"ERRS", False, 5), ("L", b"QUOT", False, 6), ("L", b"BLK", False, 7), ("L", b"HH", False, 8), ("L", b"NLB", False, 9)]
    sc = {1: ([], ["ds706f7461746f"]), 2: ([], ["di1", "di2"]), 3: ([], ["h4c4f4e47484541444552", "di1"]), 4: ([], ["ds706f7461746f", "di0", "db1"]),
          5: ([], ["dEp-200x6578", "dEc7:6f6f7073x6122", "dEp-113", "dEc9:78"]),           # error items, with and without extended text
          6: ([], ["ds2261222222", "ds22", "ds612262"]),                                       # strings made of quotes
          7: ([], ["da61623b"]),                                                               # a block whose last byte is the unit separator
          8: ([], ["h434f4e466967757265", "h56", "di5"]),
          9: ([], ["da61620a"])}                                      # two header levels
    out = []
    # typed parameters of every family through the library's own next_data::<T>: allocation-free (implementation only)
    tsub = [("L", b"P", False, 1), ("L", b"Q", False, 2)]
    for ty in treegen_types():
        tsc = {1: (["r:" + ty, "o:" + ty], ["r:" + ty, "di1"]), 2: ([], ["o:" + ty, "ds6f6b"])}
        msgs = [b"P 2 V,1", b"P 2.5 VPK", b"P 3 mVrms,2 KHZ", b"P? 1e3", b"Q? MAX", b"P 10 DBM;Q? 'x'", b"P (1,2:3),(@1!2);Q? #H10", b"P? 2.5;Q? 1,2", b"P DEF,UP;Q? 5 S"]
        out.append(mk(treegen.case_line("64", tsub, tsc, msgs), model=False))
    for m in [b"NUM?;STR?", b"STR?;NUM?;NUM?", b"HDR?", b"THREE?", b"NUM?", b"ERRS?", b"NUM?;ERRS?", b"QUOT?", b"QUOT?;NUM?", b"BLK?;NUM?", b"BLK?;BLK?", b"NUM?;BLK?;STR?", b"HH?", b"NUM?;HH?", b"NLB?;NUM?", b"NLB?;NLB?", b"NUM?;NLB?", b"NLB?"]:
        out.append(mk(treegen.case_line("v", sub, sc, [m])))
        for cap in (range(0, 24) if b"ERRS" not in m else range(0, 80)):
            out.append(mk(treegen.case_line(str(cap), sub, sc, [m])))
    return out


def generate(rng, tier):
    n = 60 if tier == "quick" else 900
    out = []
    import pyfmt
    for _ in range(n):
        tg = treegen.TreeGen(rng, illformed=0.0, emit=True, fail=0.03)
        sub = tg.tree(rng.choice([1, 2]))
        m = treegen.gen_message(rng, sub, nunits=rng.choice([1, 2, 3, 4]), bad=0.02)
        # estimate the response length from the scripts to choose the capacity range
        est = 2
        for e, q in tg.scripts.values():
            t = pyfmt.unit_text(q)
            est = max(est, (len(t) if t else 8))
        top = min(80, est * 3 + 2)
        out.append(mk(treegen.case_line("v", sub, tg.scripts, [m])))
        for cap in range(0, top + 1):
            out.append(mk(treegen.case_line(str(cap), sub, tg.scripts, [m])))
    return out + dev_alloc_cases(rng, 40 if tier == "quick" else 600)


def dev_alloc_cases(rng, n):
    """the library's OWN handlers (scpi-contrib) under the counting allocator: response buffer and error queue are
    pre-reserved, so any allocation during Node::run is the library's"""
    import statuslib
    out = []
    m = statuslib.msg_step
    out.append(mk("deva " + "|".join([m([b"FOO"]), m([b"*ESE 256"]), m([b"SYST:ERR:ALL?"]), m([b"*OPC;*OPC"]), m([b"SYST:ERR:COUN?;:SYST:ERR:NEXT?;:SYST:ERR:ALL?"]),
                                      m([b"*IDN?;*STB?;*ESR?;*ESE?;*SRE?;*OPC?;*TST?"]), "t:p-330", m([b"*TST?"]), m([b"STAT:OPER?;COND?;ENAB 5;ENAB?;PTR?;NTR?;:STAT:PRES"]),
                                      m([b"SYST:VERS?;ERR?"]), m([b"*CLS;*RST;*WAI"])]), model=False))
    while len(out) < n:
        h = statuslib.gen_history(rng, rng.choice([6, 12, 20]), {"common": 4, "reg": 2, "fail": 2, "tst": 0.5, "cond": 0.5})
        if "2c22" in h: continue            # the harness' own *ERR <code>,"text" handler leaks its text: not the library's doing
        out.append(mk("deva " + h[4:], model=False))
    return out


def harness_line(c): return c["line"]
def case_of_line(l):
    import re
    if l.startswith("deva "): return mk(l, model=False)
    tys = re.findall(r"[roRO]:([a-z0-9]+)", l.split(" ")[3])
    return mk(l, model=all(t in treegen.PTY for t in tys))
def coq_term(c): return treegen.coq_term(c["line"]) if c["model"] else '"SKIP"'
def obs(s): return " | ".join(" ".join(m.split(" ")[:4]) for m in s.split(" | "))     # status, out, hook, alloc


def impl_oracle(c, r):
    if r is None: return "no result from harness"
    if r.startswith(("PANIC", "CRASH", "NOT-RUN", "HANG")): return "implementation panicked / died with a fixed-capacity buffer"
    if c["line"].startswith("deva "):
        for m in r.split(" | "):
            if m.startswith("a=") and m != "a=0": return "heap allocation inside the library's own handlers / dispatcher during Node::run: " + m
        return None
    cap = c["line"].split(" ")[1]
    if cap != "v":
        for m in r.split(" | "):
            f = m.split(" ")
            if len(f) >= 4 and f[3] != "alloc=0": return "heap allocation during Node::run with an ArrayVec buffer: " + f[3]
            if len(f) >= 2 and f[1] != "out=-" and len(f[1][4:]) // 2 > int(cap): return "wrote beyond the capacity"
    return None


def spec_search(cases, lines, base, model_ok):
    """bounded vs growable run of the same message (implementation only)"""
    from vlib import Violation
    out = []
    ref = {}
    for c, ln, r in zip(cases, lines, base):
        f = ln.split(" ")
        if f[0] == "tree" and f[1] == "v" and r: ref[" ".join(f[2:])] = r
    for c, ln, r in zip(cases, lines, base):
        f = ln.split(" ")
        if f[0] != "tree" or f[1] == "v" or not r: continue
        g = ref.get(" ".join(f[2:]))
        if not g: continue
        cap = int(f[1])
        for mc, mv in zip(r.split(" | "), g.split(" | ")):
            fc, fv = mc.split(" "), mv.split(" ")
            oc = unhex(fc[1][4:]); ov = unhex(fv[1][4:])
            if not ov.startswith(oc) and "K" not in f[3]:
                out.append(Violation(ln, mc, mv, "bounded output is not a prefix of the growable-buffer output")); break
            if len(ov) <= cap and (fc[0], fc[1], fc[4]) != (fv[0], fv[1], fv[4]):
                out.append(Violation(ln, mc, mv, "response fits the capacity but the bounded run differs from the growable one")); break
            if len(ov) > cap and fv[0] == "OK" and fc[0] != "E-225" and "K" not in f[3]:
                out.append(Violation(ln, mc, mv, "response does not fit the capacity but the message did not fail with -225")); break
    return out[:5]


def nontrivial(c, impl):
    return impl is not None and "E-225" in impl


def distribution(cases, impl):
    d = {"runs": len(cases), "growable": 0, "bounded": 0, "overflowed": 0, "fitted_ok": 0, "max_capacity": 0}
    d["contrib_device_histories_under_the_counting_allocator"] = sum(1 for c in cases if c["line"].startswith("deva "))
    for c, r in zip(cases, impl):
        if c["line"].startswith("deva "): continue
        cap = c["line"].split(" ")[1]
        if cap == "v": d["growable"] += 1; continue
        d["bounded"] += 1; d["max_capacity"] = max(d["max_capacity"], int(cap))
        if r and "E-225" in r: d["overflowed"] += 1
        elif r and r.startswith("OK"): d["fitted_ok"] += 1
    return d
