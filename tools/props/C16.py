"""C16 — device-level histories (see statuslib.py)."""
from common import *
import statuslib
from statuslib import coq_term as _dev_term


def coq_term(c): return '"SKIP"' if c.startswith("devrep ") else _dev_term(c)


def long_sessions():
    """sessions longer than any 8/16-bit counter: n failing messages nobody reads, then the queries"""
    return ["devrep %d %s %s" % (n, hexs(f), hexs(b'*STB?;*ESR?;:SYST:ERR:COUN?')) for n in [1, 255, 256, 257, 511, 512, 65536, 70000] for f in (b"FOO", b"*ESE 256", b"*ERR -350")]


def rep_oracle(c, r):
    f = c.split(" "); n = int(f[1]); code = {b"FOO": -113, b"*ESE 256": -222, b"*ERR -350": -350}[unhex(f[2])]
    bit = {-113: 32, -222: 16, -350: 8}[code]
    msgs = {-113: b'-113,"Undefined header"', -222: b'-222,"Data out of range"', -350: b'-350,"Queue overflow"'}
    q = unhex(f[3])
    if q.startswith(b"SYST:ERR:COUN?"): want, left = b"%d;" % n + msgs[code] + b"\n", n - 1
    else: want, left = b"4;%d;%d\n" % (bit, n), n
    exp = "OK %s qlen=%d esr=%d" % (hexs(want), left, 0 if q.startswith(b"*STB") else bit)
    return None if r == exp else "after %d failed messages the device answers %s, expected %s" % (n, r[:160], exp[:160])

PID = "C16"
TARGETS = ["Run.vo", "Contrib_proofs.vo", "ContribMeaning_proofs.vo", "NonVacuous/C16.vo"]
IMPORTS = "From VF Require Import Base Show Gen_Errors Status Contrib Run."
ALLOWED_AXIOMS = []
PROFILES = ["debug"]
ASSUMPTIONS = ["device wired as examples/minimal_scpi.rs (the library VecErrorQueue as error queue, scpi_stb/scpi_cls/scpi_opc); "
               "message -> operation mapping by the template table of tools/props/statuslib.py (op-level model; the "
               "byte-level path is covered by C02/C04/C06/C07)"]


def harness_line(c): return c
def case_of_line(l): return l
def obs(s):
    if s.startswith(("OK ", "E")) and " qlen=" in s: return s
    return _obs(s)


def _obs(s): return s


def impl_oracle(c, r):
    if r is None: return "no result from harness"
    if r.startswith(("PANIC", "CRASH", "NOT-RUN", "HANG")) or " PANIC" in r: return "device history panicked / died: " + r[:160]
    if c.startswith("devrep "): return rep_oracle(c, r)
    return None


def nontrivial(c, impl):
    return impl is not None and impl.count("|") >= 2 and "OK" in impl


def distribution(cases, impl):
    cases = [c for c in cases if not c.startswith("devrep ")]
    steps = sum(c.count("|") + 1 for c in cases)
    fails = sum(r.count(" - q=") for r in impl if r)
    return {"histories": len(cases), "steps": steps, "failed_messages": fails,
            "device_side_steps": sum(len([s for s in c.split(' ',1)[1].split('|') if s and s[0] in 'ct']) for c in cases)}

RULE = ("random histories (4..40 steps) of common commands (*ESE/*SRE writes over every bit, *ESE?/*SRE?/*ESR?/*STB?/"
        "*OPC/*OPC?/*TST?/*RST/*WAI/*CLS), status-subsystem commands, failing messages of every class, device-side "
        "condition changes and tst() results, message-available flag both ways; full device state dumped after every step")


def corpus():
    m = statuslib.msg_step
    return [
        "dev " + "|".join([m([b"*SRE 16;*STB?"], mav=True), m([b"*STB?"], mav=False)]),                 # MAV must raise MSS
        "dev " + "|".join([m([b"FOO"]), m([b"*CLS"]), m([b"SYST:ERR:COUN?;*ESR?;*STB?"])]),             # *CLS clears the queue
        "dev " + "|".join([m([b"*ERR -100"]), m([b"*ESE 32;*STB?"]), m([b"*SRE 4;*STB?"]), m([b"*ESR?;*STB?"]), m([b"SYST:ERR?"]), m([b"*STB?"])]),
        "dev " + "|".join([m([b"STAT:OPER:ENAB 1;*SRE 128"]), "co:1", m([b"*STB?"]), "co:0", m([b"*STB?"])]),
        "dev " + "|".join([m([b"STAT:QUES:ENAB 32768"]), "cq:32768", m([b"*STB?"]), m([b"STAT:QUES:ENAB 16384"]), "cq:49152", m([b"*SRE 8;*STB?"])]),
        "dev " + "|".join([m([b"*OPC;*ESR?;*OPC?"]), m([b"SYST:ERR:ALL?"]), "t:p-330", m([b"*TST?"]), "t:N", m([b"*TST?;*RST;*WAI;*STB?"])]),
        "dev " + "|".join([m([b"*ESE 255;*SRE 255;*ESE?;*SRE?"]), m([b"*ESE 0;*SRE 0;*ESE?;*SRE?"]), m([b"*ESE 256"]), m([b"*SRE -1"]), m([b"*ESE?;*SRE?"])]),
        "dev " + "|".join([m([b"*OPC"]), m([b"*RST"]), m([b"*ESR?"]), m([b"*ESE 1;*SRE 32;*OPC"]), m([b"*RST;*WAI"]), m([b"*STB?"]), m([b"*OPC;*OPC"]), m([b"SYST:ERR:COUN?"])]),
        "dev " + "|".join([m([b"*IDN?;*XYZ"], mav=False), m([b"*STB?"], mav=None), m([b"SYST:ERR?"], mav=None), m([b"*CLS;*STB?"], mav=None), m([b"*SRE 16;*STB?"], mav=None), m([b"*STB?"], mav=True), m([b"*STB?"], mav=None)]),
    ] + stb_matrix()


def stb_matrix():
    """every reported bit alone x every SRE mask that enables it alone / all / all but it / none x MAV both ways"""
    m = statuslib.msg_step
    out = []
    sources = {7: [m([b"STAT:OPER:ENAB 1"]), "co:1"], 3: [m([b"STAT:QUES:ENAB 4"]), "cq:4"], 5: [m([b"*ESE 32"]), m([b"FOO"]), m([b"SYST:ERR?"])],
               2: [m([b"FOO"])], 0: []}
    for bit, setup in sources.items():
        steps = list(setup)
        for sre in ([1 << bit, 255, 255 ^ (1 << bit), 0, 16, 64] if bit else [16, 0, 255]):
            steps.append(m([b"*SRE %d" % sre]))
            steps.append(m([b"*STB?"], mav=False)); steps.append(m([b"*STB?"], mav=True)); steps.append(m([b"*SRE?;*STB?;*STB?"], mav=True))
        out.append("dev " + "|".join(steps))
    return out


def generate(rng, tier):
    return _generate(rng, tier) + long_sessions()


def _generate(rng, tier):
    n = 250 if tier == "quick" else 4000
    return [statuslib.gen_history(rng, rng.choice([4, 8, 16, 30, 40]) if tier == "thorough" else rng.choice([4, 8, 16, 24]),
                                  {"common": 6, "reg": 2, "cond": 2, "fail": 1.5, "tst": 0.3}) for _ in range(n)]
