"""Shared generator for the device-level properties C13, C15, C16: a history of
steps, each paired with its abstract operation(s) for the Coq model.

A case line is   dev <step>|<step>|...     (see harness/src/k_dev.rs); the Coq
term is rebuilt from the line by parsing the messages with the fixed template
table below (every message the generator emits is a `;`-join of template units).
"""
import re
from common import *

REG = {"o": ("OPER", "Oper"), "q": ("QUES", "Ques")}
REGNAMES = {"Oper": [b"STAT:OPER", b"STATus:OPERation", b"stat:oper", b":STAT:OPERATION"],
            "Ques": [b"STAT:QUES", b"STATus:QUEStionable", b"stat:ques", b":status:questionable"]}

# unit text -> (coq sop, kind) ; built lazily by the generator, parsed back by unit_to_sop
def unit_to_sop(u: bytes):
    """map one unit's text to its Coq sop (or a failing sop with the expected error)"""
    t = u.strip().upper()
    t = t.lstrip(b":")
    if t in AFTER:
        # the handler runs first (and keeps its effect), then the dispatcher finds the leftover
        # parameter: modelled as the valid unit followed by a failing one
        return unit_to_sop(AFTER[t]) + "; SFail (std_error ParameterNotAllowed)"
    if t in INVALID:
        return f"SFail (std_error {INVALID[t]})"
    m = re.fullmatch(rb"STAT(?:US)?:(OPER(?:ATION)?|QUES(?:TIONABLE)?)(?::(EVEN(?:T)?|COND(?:ITION)?|ENAB(?:LE)?|NTR(?:ANSITION)?|PTR(?:ANSITION)?))?(\?)?(?: (\d+|#H[0-9A-F]+|#Q[0-7]+|#B[01]+))?", t)
    if m:
        r = "Oper" if m.group(1).startswith(b"OPER") else "Ques"
        what = (m.group(2) or b"EVEN")[:3]
        q, v = m.group(3), m.group(4)
        if q and v is None:
            return f"SReg {r} " + {b"EVE": "RRdEvent", b"CON": "RRdCondition", b"ENA": "RRdEnable", b"NTR": "RRdNtr", b"PTR": "RRdPtr"}[what]
        if not q and v is not None and what in (b"ENA", b"NTR", b"PTR"):
            n = int(v) if v[:1] != b"#" else int(v[2:], {b"H": 16, b"Q": 8, b"B": 2}[v[1:2]])
            if n > 65535:
                return "SFail (std_error DataOutOfRange)"
            return f"SReg {r} (" + {b"ENA": "RWrEnable", b"NTR": "RWrNtr", b"PTR": "RWrPtr"}[what] + f" {n})"
        raise ValueError(u)
    simple = {b"*CLS": "SCls", b"STAT:PRES": "SPreset", b"STATUS:PRESET": "SPreset", b"*ESE?": "SRdEse", b"*SRE?": "SRdSre",
              b"*ESR?": "SRdEsr", b"*STB?": "SRdStb", b"*OPC": "SOpc", b"*OPC?": "SOpcQ", b"*TST?": "STstQ", b"*RST": "SRst",
              b"*WAI": "SWai", b"SYST:ERR?": "SErrNext", b"SYST:ERR:NEXT?": "SErrNext", b"SYSTEM:ERROR:NEXT?": "SErrNext",
              b"SYSTEM:ERROR?": "SErrNext", b"SYST:ERR:COUN?": "SErrCount", b"SYST:ERR:COUNT?": "SErrCount",
              b"SYST:ERR:ALL?": "SErrAll", b"SYSTEM:ERROR:ALL?": "SErrAll"}
    if t in simple:
        return simple[t]
    m = re.fullmatch(rb"\*(ESE|SRE) (\d+|#H[0-9A-F]+|#Q[0-7]+|#B[01]+)", t)
    if m:
        v = m.group(2)
        n = int(v) if v[:1] != b"#" else int(v[2:], {b"H": 16, b"Q": 8, b"B": 2}[v[1:2]])
        if n > 255:
            return "SFail (std_error DataOutOfRange)"
        return ("SWrEse" if m.group(1) == b"ESE" else "SWrSre") + f" {n}"
    m = re.fullmatch(rb"\*ERR (-?\d+)(?:,\"([^\"]*)\")?", u.strip(), re.I)
    if m:
        code = int(m.group(1))
        ext = m.group(2)
        if code in std_codes():
            return f"SFail (mkError {coq_Z(code)} None {coq_opt_bytes(ext)})"
        return f"SFail (mkError {coq_Z(code)} (Some {coq_bytes(b'Custom error')}) {coq_opt_bytes(ext)})"
    if t in INVALID:
        return f"SFail (std_error {INVALID[t]})"
    raise ValueError(u)


# invalid units and the error the library must raise for them (names of Gen_Errors.v)
INVALID = {
    b"FOO": "UndefinedHeader", b"SYST:FOO?": "UndefinedHeader", b"STAT:OPER:FOO 1": "UndefinedHeader",
    b"*CLS?": "UndefinedHeader", b"*ESR": "UndefinedHeader", b"*STB": "UndefinedHeader", b"*RST?": "UndefinedHeader",
    b"STAT:PRES?": "UndefinedHeader", b"SYST:ERR": "UndefinedHeader", b"STAT:OPER:COND 1": "UndefinedHeader",
    b"*ESE": "MissingParameter", b"*SRE": "MissingParameter", b"STAT:QUES:ENAB": "MissingParameter",
    b"*ESE \"X\"": "DataTypeError", b"*SRE (1)": "DataTypeError", b"STAT:OPER:PTR #15ABCDE": "DataTypeError", b"*ESE ABC": "DataTypeError",
    b"*ESE 256": "DataOutOfRange", b"*SRE -1": "DataOutOfRange", b"*ESE 1E3": "DataOutOfRange", b"STAT:OPER:ENAB 65536": "DataOutOfRange",
    b"STAT:QUES:NTR -1": "DataOutOfRange", b"*ESE 5V": "SuffixNotAllowed",
    b"*ESE 1 2": "InvalidSuffix",
}

# units with one data element too many: the handler has run when -108 is raised
AFTER = {b"*ESE 1,2": b"*ESE 1", b"*CLS 1": b"*CLS", b"*ESR? 1": b"*ESR?", b"SYST:ERR? 5": b"SYST:ERR?",
         b"STAT:OPER:ENAB 1,2": b"STAT:OPER:ENAB 1", b"*SRE 255,0": b"*SRE 255", b"SYST:ERR:ALL? 1": b"SYST:ERR:ALL?",
         b"*OPC 1": b"*OPC", b"STAT:QUES? 1": b"STAT:QUES?", b"STAT:PRES 0": b"STAT:PRES"}

VALID_EVENTS = [b"*CLS", b"*RST", b"*WAI", b"*OPC", b"STAT:PRES"]


def step_to_coq(step: str) -> str:
    head, val = step.split(":", 1)
    if head[0] == "m":
        msg = unhex(val)
        units = [u for u in msg.rstrip(b"\n").split(b";")]
        # relative headers: resolve against the previous unit's header minus its last mnemonic
        prefix = b""
        resolved = []
        for u in units:
            if u.startswith(b"*"):
                resolved.append(u); continue
            if u.startswith(b":"):
                full = u[1:]
            else:
                full = prefix + u
            hdr = full.split(b" ")[0].rstrip(b"?")
            prefix = hdr[:hdr.rfind(b":") + 1] if b":" in hdr else b""
            resolved.append(full)
        sops = [unit_to_sop(u) for u in resolved]
        return f"DMsg {'true' if head[1] == '1' else 'false'} {coq_list(sops)}"
    if head[0] == "c":
        return f"DSetCond {'Oper' if head[1] == 'o' else 'Ques'} {int(val)}"
    if head[0] in "bx":
        raise ValueError("bit helpers are covered by the full-stack model only")
    if head[0] == "t":
        if val == "N":
            return "DSetTst None"
        code, _, _ = parse_error_spec(val)
        return f"DSetTst (Some {coq_Z(code)})"
    raise ValueError(step)


def step_to_coq2(step: str) -> str:
    """the same step for the full-stack model: messages as raw bytes"""
    head, val = step.split(":", 1)
    r = lambda c: "Oper" if c == "o" else "Ques"
    if head[0] == "m": return "DMsg2 %s %s" % ("true" if head[1] == "1" else "false", coq_bytes(unhex(val)))
    if head[0] == "c": return "DSetCond2 %s %d" % (r(head[1]), int(val))
    if head[0] == "b": return "DSetBits2 %s %d" % (r(head[1]), int(val))
    if head[0] == "x": return "DClrBits2 %s %d" % (r(head[1]), int(val))
    if head[0] == "t":
        if val == "N": return "DSetTst2 None"
        code, _, _ = parse_error_spec(val)
        return "DSetTst2 (Some %s)" % coq_Z(code)
    raise ValueError(step)


def resolve_keep(steps):
    """`mk:` = the interface does not rewrite Context::mav for this message: it still holds what was last written"""
    last = "0"; res = []
    for st in steps:
        if st.startswith("mk:"): st = "m" + last + st[2:]
        elif st[0] == "m": last = st[1]
        res.append(st)
    return res


def coq_term(line: str) -> str:
    """full-stack model on the raw bytes; when every message is covered by the template table the operation-level
    model (the one the theorems are stated for) is evaluated too and must agree"""
    steps = [s for s in line.split(" ", 1)[1].split("|") if s]
    steps = resolve_keep(steps)
    full = coq_list([step_to_coq2(s) for s in steps])
    try:
        ops = coq_list([step_to_coq(s) for s in steps])
    except (ValueError, KeyError):
        return "run_dev2 " + full
    return "run_dev_both %s %s" % (full, ops)


def msg_step(units, mav=False, nl=False):
    m = b";".join(units) + (b"\n" if nl else b"")
    return "m%s:%s" % ("k" if mav is None else "1" if mav else "0", hexs(m))


def rand_u16(rng):
    r = rng.random()
    if r < 0.3: return 1 << rng.randrange(16)
    if r < 0.5: return rng.choice([0, 65535, 32767, 32768, 1, 255, 256])
    return rng.randrange(65536)


def rand_u8(rng):
    r = rng.random()
    if r < 0.4: return 1 << rng.randrange(8)
    if r < 0.6: return rng.choice([0, 255, 127, 128])
    return rng.randrange(256)


def reg_unit(rng, which=None):
    r = which or rng.choice(["Oper", "Ques"])
    base = rng.choice(REGNAMES[r])
    k = rng.random()
    if k < 0.25: return base + rng.choice([b"?", b":EVEN?", b":event?"])
    if k < 0.35: return base + rng.choice([b":COND?", b":condition?"])
    if k < 0.45: return base + rng.choice([b":ENAB?", b":PTR?", b":NTR?", b":ptransition?", b":NTRansition?"])
    what = rng.choice([b":ENAB", b":PTR", b":NTR", b":enable", b":PTRANSITION", b":ntr"])
    v = rand_u16(rng)
    if rng.random() < 0.25:       # non-decimal spellings, now and then beyond 16 bits
        if rng.random() < 0.3: v = rng.choice([65536, 65537, 0x10000 + v, 0x1FFFF, 2 ** 32, 2 ** 32 + v])
        return base + what + b" " + rng.choice([b"#H%X" % v, b"#Q%o" % v, b"#B" + bin(v)[2:].encode(), b"#h%x" % v])
    return base + what + b" %d" % v


def common_unit(rng, pool=None):
    if pool:
        return rng.choice(pool)
    k = rng.random()
    if k < 0.02: return rng.choice([b"*ESE #H%X", b"*SRE #Q%o", b"*ESE #HFF%02X", b"*SRE #H1%02X"]) % rand_u8(rng)
    if k < 0.12: return b"*ESE %d" % rand_u8(rng)
    if k < 0.24: return b"*SRE %d" % rand_u8(rng)
    if k < 0.5: return rng.choice([b"*ESE?", b"*SRE?", b"*ESR?", b"*STB?", b"*STB?", b"*OPC?", b"*TST?"])
    if k < 0.7: return rng.choice(VALID_EVENTS)
    return rng.choice([b"SYST:ERR?", b"SYST:ERR:NEXT?", b"SYST:ERR:COUN?", b"SYST:ERR:ALL?", b"system:error:next?",
                       b"SYSTem:ERRor?", b"syst:err:count?", b"SYSTEM:ERROR:ALL?"])


def fail_unit(rng):
    k = rng.random()
    if k < 0.5:
        code = rng.choice(std_codes() + [1, 100, 32767, -32768, -99, -150, -250, -350, -450, -550, -650, -750, -850, -900, -1000])
        ext = b""
        if rng.random() < 0.2:
            ext = b',"' + bytes(rng.choice(b"extra info 7") for _ in range(rng.randint(0, 6))) + b'"'
        return b"*ERR %d" % code + ext
    return rng.choice(list(INVALID.keys()) + list(AFTER.keys()))


def gen_history(rng, nsteps, weights, common_pool=None):
    """weights: dict kind -> weight among reg, common, fail, cond, tst"""
    kinds = list(weights)
    steps = []
    for _ in range(nsteps):
        k = rng.choices(kinds, [weights[x] for x in kinds])[0]
        if k == "cond":
            steps.append("%s%s:%d" % (rng.choice("ccccbx"), rng.choice("oq"), rand_u16(rng)))
        elif k == "tst":
            steps.append("t:" + rng.choice(["N", "p-330", "p-300", "c77:62726f6b656e", "p-240"]))
        else:
            nunits = rng.choice([1, 1, 1, 2, 3, 4])
            units = []
            for j in range(nunits):
                kk = k if j == 0 else rng.choices(["reg", "common", "fail"], [weights.get("reg", 1), weights.get("common", 1), weights.get("fail", 0.3)])[0]
                u = reg_unit(rng) if kk == "reg" else common_unit(rng, common_pool) if kk == "common" else fail_unit(rng)
                if j > 0 and not u.startswith((b"*", b":")):
                    u = b":" + u          # a later unit is relative unless it starts at the root
                units.append(u)
            steps.append(msg_step(units, mav=None if rng.random() < 0.2 else rng.random() < 0.4, nl=rng.random() < 0.2))
    return "dev " + "|".join(steps)


def obs_fields(s, keep):
    """project a result line on the state fields named in keep (q, esr, ese, sre, o, u, h), keeping status and response"""
    out = []
    for step in s.split(" | "):
        f = step.split(" ")
        if len(f) < 3:
            out.append(step); continue
        st = ";".join(x for x in f[2].split(";") if x.split("=")[0] in keep)
        out.append(f[0] + " " + f[1] + " " + st + ("".join(" " + x for x in f[3:])))       # markers of the shadow devices stay visible
    return " | ".join(out)
