"""C10 — responses are framed exactly: `;` between units, `,` between data, one final NL."""
from common import *
import treegen, pyfmt

PID = "C10"
TARGETS = ["Run.vo", "Resp_proofs.vo", "NonVacuous/C10.vo", "Message_proofs.vo", "Message_proofs2.vo"]
IMPORTS = "From VF Require Import Base Show Gen_Errors Lexer Response Conv Tree Scripted Run."
ALLOWED_AXIOMS = []
PROFILES = ["debug"]
RULE = ("random trees whose query handlers write 0..2 response headers and 1..4 data elements of random types (integers, radix "
        "forms, booleans, strings with quotes/separators, blocks, character, expression, error items, lists) and whose event "
        "handlers write nothing; messages of 1..8 units with random query/event interleaving, ended by end of input, NL, white "
        "space, `;` or `;NL`; growable buffer.  Compared: the output bytes with the model, and — independently of the model — with "
        "the framing rule recomputed in Python from the invocation log and the scripts (units joined by `;`, data by `,`, header "
        "then one space, exactly one NL iff some query wrote).  non-trivial = a successful message with >= 2 responding units")
ASSUMPTIONS = ["the response buffer is empty when run is called (DESIGN 7.8)", "Python item formatter tools/props/pyfmt.py as the independent reading of 488.2 response data"]
MISMATCH_WHY = "output buffer differs from the proved model (framing, C10)"


def mk(line, scripts=None):
    return {"line": line, "scripts": scripts}


def corpus():
    sub = [("L", b"ZERO", False, 1), ("L", b"TWO", False, 2), ("L", b"EVT", False, 3), ("L", b"HDR", False, 4), ("L", b"RANGE", False, 5), ("L", b"NONE", False, 6)]
    sc = {1: ([], ["di0"]), 2: ([], ["di1", "di2"]), 3: ([], []), 4: ([], ["h564f4c54", "di5"]), 5: ([], ["h53454e53", "h52414e47", "di10", "dc4155544f"]),
          6: ([], ["K"])}
    msgs = [b"ZERO?", b"ZERO?;", b"ZERO?;\n", b"ZERO?\n", b"ZERO? ", b"ZERO?;TWO?", b"ZERO?;EVT;TWO?;EVT", b"EVT;EVT", b"EVT", b"", b"\n", b"TWO?;HDR?", b"HDR?;RANGE?;ZERO?",
            b"TWO?;RANGE?", b"EVT;ZERO?;EVT;", b"NONE?;ZERO?", b"ZERO?;NONE?;ZERO?", b"ZERO?;FOO?"]
    out = [mk(treegen.case_line("v", sub, sc, [m]), sc) for m in msgs]
    # sessions: one Context serves every message of the case; a message without a query leaves the buffer empty
    # whatever came before
    for seq in ([b"ZERO?", b"EVT", b"", b"EVT;EVT", b"TWO?"], [b"TWO?;HDR?", b"\n", b"EVT"], [b"EVT", b"ZERO?", b"EVT"], [b"ZERO?;FOO?", b"EVT", b"ZERO?"]):
        out.append(mk(treegen.case_line("v", sub, sc, seq), sc))
    # a datum whose last byte is the unit separator, the data separator or the terminator, followed by another unit
    sub2 = [("L", b"BLK", False, 1), ("L", b"ONE", False, 2)]
    for tail in (b";", b",", b"\n", b" ", b";;"):
        sc2 = {1: ([], ["da" + hexs(b"ab" + tail)]), 2: ([], ["di1"])}
        for m in (b"BLK?;ONE?", b"BLK?;BLK?", b"ONE?;BLK?;ONE?", b"BLK?"):
            out.append(mk(treegen.case_line("v", sub2, sc2, [m]), sc2))
    return out


def generate(rng, tier):
    n = 400 if tier == "quick" else 6000
    out = []
    for _ in range(n):
        tg = treegen.TreeGen(rng, illformed=0.0, pulls=False, emit=True, fail=0.03)
        sub = tg.tree(rng.choice([1, 2]))
        msgs = [treegen.gen_message(rng, sub, nunits=rng.choice([1, 2, 3, 4, 6, 8]), bad=0.02, args=False) for _ in range(rng.choice([1, 2, 3, 4]))]
        out.append(mk(treegen.case_line("v", sub, tg.scripts, msgs), tg.scripts))
    import stress
    out += [mk(l, treegen.parse_case(l)[2]) for l in stress.tree_stream(tier)]
    # one unit with more data elements than an 8-bit (and, thorough, a 16-bit) counter holds; implementation + framing oracle
    for n in ([255, 256, 257, 258, 513, 65536, 65537] if tier == "quick" else [255, 256, 257, 258, 513, 65535, 65536, 65537, 65538, 131073]):
        sc = {1: ([], ["di%d" % (i % 10) for i in range(n)]), 2: ([], ["h" + hexs(b"TRAC")] + ["di%d" % (i % 10) for i in range(n)]), 3: ([], ["di7"])}
        sub = [("L", b"TRAC", False, 1), ("L", b"HTRAC", False, 2), ("L", b"ONE", False, 3)]
        c = mk(treegen.case_line("v", sub, sc, [b"TRAC?", b"ONE?;TRAC?;ONE?", b"HTRAC?"]), sc)
        c["big"] = n > 2000
        out.append(c)
    return out


def harness_line(c): return c["line"]
def case_of_line(l): return mk(l, treegen.parse_case(l)[2])
def coq_term(c): return '"SKIP"' if c.get("big") else treegen.coq_term(c["line"])


def obs(s):
    out = []
    for m in s.split(" | "):
        f = m.split(" ")
        out.append(f[0][:2] + " " + (f[1] if f[0] == "OK" else ""))          # the buffer is constrained only when the message succeeds
    return " | ".join(out)


def _calls(m):
    f = m.split(" ")
    log = f[4][4:] if len(f) > 4 else "-"
    return [e for e in log.split(",") if e and e[0].isdigit()]


def impl_oracle(c, r):
    if r is None: return "no result from harness"
    if r.startswith(("PANIC", "CRASH", "NOT-RUN", "HANG")): return "implementation panicked / died"
    sc = c["scripts"] or {}
    for m in r.split(" | "):
        f = m.split(" ")
        if f[0] != "OK": continue
        texts = []
        ok = True
        for call in _calls(m):
            i, form = int(call[:-1]), call[-1]
            if form != "q": continue
            ops = sc.get(i, ([], []))[1]
            if any(o[0] == "K" for o in ops) or not any(o[0] == "d" for o in ops): ok = False; break     # handler outside the property's hypothesis
            t = pyfmt.unit_text(ops)
            if t is None or t == b"": ok = False; break
            texts.append(t)
        if not ok: continue
        exp = (b";".join(texts) + b"\n") if texts else b""
        if hexs(exp) != f[1][4:]:
            return "framing rule violated: expected buffer %s" % hexs(exp)[:300]
    return None


def nontrivial(c, impl):
    return impl is not None and any(m.startswith("OK") and sum(1 for x in _calls(m) if x.endswith("q")) >= 2 for m in impl.split(" | "))


def distribution(cases, impl):
    d = {"messages": 0, "ok": 0, "responding_units": 0, "with_trailing_semicolon": 0, "empty_output": 0}
    for c, r in zip(cases, impl):
        msgs = c["line"].split(" ")[4:]
        d["with_trailing_semicolon"] += sum(1 for m in msgs if m.endswith("3b") or m.endswith("3b0a"))
        if not r: continue
        for m in r.split(" | "):
            d["messages"] += 1
            if m.startswith("OK"):
                d["ok"] += 1; d["responding_units"] += sum(1 for x in _calls(m) if x.endswith("q"))
                if " out=- " in m: d["empty_output"] += 1
    return d
