"""C06 — a handler sees exactly its own unit's parameters; wrong arity is an error."""
from common import *
import treegen
from treegen import coq_term as _ct

PID = "C06"
TARGETS = ["Run.vo", "Tree_proofs.vo", "Message_proofs.vo", "NonVacuous/C06.vo"]
IMPORTS = "From VF Require Import Base Show Gen_Errors Lexer Response Conv Tree Scripted Run."
ALLOWED_AXIOMS = []
PROFILES = ["debug"]
RULE = ("random command trees (depth <= 3, default leaves/branches, suffixed siblings) with scripted handlers pulling 0..4 "
        "required/optional raw tokens (errors propagated or swallowed); messages of 1..6 units built from the tree's paths, each "
        "unit carrying 0..4 data elements of all seven kinds, ended by end of input, NL, white space or `;`; compared: returned "
        "error, the handler's pull log (every token payload), hook log; non-trivial = at least one handler pulled a token")
ASSUMPTIONS = ["the scripted handler (harness/src/k_tree.rs) and its Coq embedding (coq/Scripted.v) interpret scripts identically"]


def corpus():
    L = treegen.case_line
    sub = [("L", b"ZERO", False, 1), ("L", b"ONE", False, 2), ("L", b"OPT", False, 3), ("B", b"CONFigure", False, [("L", b"VOLTage", True, 4)])]
    sc = {1: ([], ["di0"]), 2: (["r"], ["r", "di1"]), 3: (["r", "o", "o"], ["o", "di2"]), 4: (["r", "r"], ["r", "di4"]),
          5: (["r:u8", "o:chr"], ["o:i16", "di5"])}
    sub.append(("L", b"RO", False, 5))
    msgs = [b"ZERO", b"ZERO 1", b"ZERO (@1,2)", b"ZERO;ONE 1;OPT 1,2,3", b"ONE", b"ONE;ZERO", b"ONE 1,2;ZERO", b"OPT 1;ZERO;OPT 1,'x';ZERO",
            b"OPT;ZERO", b"CONF 5,(@6)", b"CONF? 5", b"CONF:VOLT 5,6", b"CONF 1;ZERO", b"ONE #H1F;ONE 'a;b';ONE #13a;b;ZERO", b"ONE 1,", b"OPT 1,;ZERO",
            b"ONE? 1;ZERO?\n", b"ONE 1 ;ZERO", b"ONE 1 V;ZERO", b"OPT 1,2,3,4", b"ZERO ;ONE 2",
            b"RO 7,ABC;ZERO 9", b"RO 7,1;ZERO", b"RO 300;ZERO", b"RO? ABC;ZERO", b"RO? 1 V;ZERO", b"RO 7;ZERO", b"RO 7,'x';ZERO",
            b"ONE (1,2;ZERO 3)", b"ZERO;ONE (1;ZERO);ZERO", b"ONE 'a;b',(1;ZERO", b"ONE (@1;OPT 2),3", b"OPT 1,(2;ZERO),3;ZERO", b"ZERO #H1F", b"ZERO? #Q17;ZERO", b"ZERO #B1,2",
            b"ONE #10,5", b"ONE #10;ZERO 2", b"OPT #10,#200,#10", b"ONE #10 ;ZERO", b"ONE #10"]
    out = [L("v", sub, sc, [m]) for m in msgs]
    # typed OPTIONAL pulls through next_optional_data::<T>: an element that is present must be offered (converted, or its
    # conversion error reported), never reported absent — whatever its spelling (DEFault, MAX, a string, out of range)
    for ty in ("u8", "i16", "f32", "bool", "bytes", "chr", "expr", "u64"):
        sub2 = [("L", b"TY", False, 1), ("L", b"ZERO", False, 2)]
        sc2 = {1: (["o:" + ty, "o:" + ty], ["o:" + ty, "o:" + ty, "di1"]), 2: ([], ["di0"])}
        ms = [b"TY DEF,2;ZERO", b"TY DEFault", b"TY? def", b"TY? 1,DEFAULT;ZERO?", b"TY MAX", b"TY abc,2", b"TY 1,300", b"TY? 'two'", b"TY? 12,'x'", b"TY 1,MIN;ZERO",
              b"TY UP", b"TY #H10,DOWN", b"TY (1),2", b"TY 1 V", b"TY;ZERO", b"TY 1;ZERO", b"TY ON,OFF", b"TY? NAN,INF"]
        out += [L("v", sub2, sc2, ms[i:i + 6]) for i in range(0, len(ms), 6)]
    return out


def generate(rng, tier):
    n = 500 if tier == "quick" else 8000
    out = []
    for _ in range(n):
        tg = treegen.TreeGen(rng, illformed=0.05, emit=(rng.random() < 0.4), fail=0.05, typed=rng.choice([0, 0, 0.5]))
        sub = tg.tree(rng.choice([1, 2, 3]))
        msgs = [treegen.gen_message(rng, sub, bad=0.05) for _ in range(rng.choice([1, 1, 2]))]
        out.append(treegen.case_line("v", sub, tg.scripts, msgs))
    import stress
    return out + stress.tree_stream(tier)


def harness_line(c): return c
def case_of_line(l): return l
def coq_term(c): return _ct(c)


def obs(s):
    """status class, pull log; out/hook are other properties' business"""
    out = []
    for m in s.split(" | "):
        f = m.split(" ")
        if len(f) < 5: out.append(m); continue
        out.append(f[0] + " " + f[4])
    return " | ".join(out)


def impl_oracle(c, r):
    if r is None: return "no result from harness"
    if r.startswith("PANIC") or r.startswith("CRASH") or r.startswith("NOT-RUN"): return "implementation panicked / died"
    if "p!" in r: return "a handler was handed a token that is not a data element"
    return None


def nontrivial(c, impl):
    return impl is not None and ",p" in impl


def distribution(cases, impl):
    d = {"cases": len(cases), "messages": sum(r.count(" | ") + 1 for r in impl if r), "ok": 0, "E-108": 0, "E-109": 0, "other_err": 0, "pulls": 0}
    for r in impl:
        if not r: continue
        for m in r.split(" | "):
            st = m.split(" ")[0]
            if st == "OK": d["ok"] += 1
            elif st in ("E-108", "E-109"): d[st] += 1
            else: d["other_err"] += 1
            d["pulls"] += m.count(",p")
    return d
