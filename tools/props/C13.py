"""C13 — device-level histories (see statuslib.py)."""
from common import *
import statuslib
from statuslib import coq_term as _dev_term


def coq_term(c):
    if c.startswith("devrep "): return '"SKIP"'
    if c.startswith("tree "):
        import treegen
        return treegen.coq_term(c)
    return _dev_term(c)


def long_sessions():
    """sessions longer than any 8/16-bit counter: n failing messages nobody reads, then the queries"""
    return ["devrep %d %s %s" % (n, hexs(f), hexs(b'SYST:ERR:COUN?;:SYST:ERR?')) for n in [1, 255, 256, 257, 300, 65535, 65536, 65537, 70000] for f in (b"FOO", b"*ESE 256", b"*ERR -350")]


def rep_oracle(c, r):
    f = c.split(" "); n = int(f[1]); code = {b"FOO": -113, b"*ESE 256": -222, b"*ERR -350": -350}[unhex(f[2])]
    bit = {-113: 32, -222: 16, -350: 8}[code]
    msgs = {-113: b'-113,"Undefined header"', -222: b'-222,"Data out of range"', -350: b'-350,"Queue overflow"'}
    q = unhex(f[3])
    if q.startswith(b"SYST:ERR:COUN?"): want, left = b"%d;" % n + msgs[code] + b"\n", n - 1
    else: want, left = b"4;%d;%d\n" % (bit, n), n
    exp = "OK %s qlen=%d esr=%d" % (hexs(want), left, 0 if q.startswith(b"*STB") else bit)
    return None if r == exp else "after %d failed messages the device answers %s, expected %s" % (n, r[:160], exp[:160])

PID = "C13"
TARGETS = ["Run.vo", "Contrib_proofs.vo", "ContribMeaning_proofs.vo", "NonVacuous/C13.vo"]
IMPORTS = "From VF Require Import Base Show Gen_Errors Lexer Response Conv Tree Scripted Status Contrib Run."
ALLOWED_AXIOMS = []
PROFILES = ["debug"]
ASSUMPTIONS = ["device wired as examples/minimal_scpi.rs (the library VecErrorQueue as error queue, scpi_stb/scpi_cls/scpi_opc); "
               "message -> operation mapping by the template table of tools/props/statuslib.py (op-level model; the "
               "byte-level path is covered by C02/C04/C06/C07)"]


def harness_line(c): return c
def case_of_line(l): return l
def obs(s):
    if s.startswith(("OK ", "E")) and " qlen=" in s: return s
    if " hook=" in s: return " | ".join(" ".join(m.split(" ")[i] for i in (0, 2) if i < len(m.split(" "))) for m in s.split(" | "))     # status and hook log
    return _obs(s)


def _obs(s): return statuslib.obs_fields(s, ('q', 'esr', 'h'))   # C13 constrains queue, ESR, hook count and the responses


def impl_oracle(c, r):
    if r is None: return "no result from harness"
    if r.startswith(("PANIC", "CRASH", "NOT-RUN", "HANG")) or " PANIC" in r: return "device history panicked / died: " + r[:160]
    if c.startswith("devrep "): return rep_oracle(c, r)
    return None


def nontrivial(c, impl):
    return impl is not None and impl.count("|") >= 2 and "OK" in impl


def distribution(cases, impl):
    cases = [c for c in cases if not c.startswith(("devrep ", "tree "))]
    steps = sum(c.count("|") + 1 for c in cases)
    fails = sum(r.count(" - q=") for r in impl if r)
    return {"histories": len(cases), "steps": steps, "failed_messages": fails,
            "device_side_steps": sum(len([s for s in c.split(' ',1)[1].split('|') if s and s[0] in 'ct']) for c in cases)}

RULE = ("histories of 5..30 messages mixing valid commands, every kind of invalid message (undefined header, "
        "missing/extra parameter, type, range, suffix), handler-raised errors of every class (standard, custom, extended) "
        "and the error-queue / ESR queries in any position including the failing message itself; returned error, "
        "response, hook-call count, queue and ESR compared after every message")


def corpus():
    m = statuslib.msg_step
    return [
        "dev " + "|".join(["t:p-330", m([b"*TST?"]), m([b"SYST:ERR:COUN?;*ESR?"]), m([b"*TST?;*TST?;:SYST:ERR:ALL?"]), "t:c77:62726f6b656e", m([b"*ESR?;*TST?;*ESR?"]), "t:N", m([b"*TST?;:SYST:ERR:COUN?"])]),
        "dev " + "|".join([m([b"SYST:ERR?;:SYST:ERR:COUN?;:SYST:ERR:ALL?"]), m([b"*ERR -100;:SYST:ERR?"]), m([b"syst:err:next?"]), m([b"SYST:ERR?"])]),
        "dev " + "|".join([m([b"*ERR 1"]), m([b"*ERR -222"]), m([b"*ERR -410"]), m([b"SYST:ERR:COUN?"]), m([b"*ESR?;*ESR?"]), m([b"SYST:ERR:ALL?;COUN?"])]),
        "dev " + "|".join([m([b"SYST:ERR?;:FOO;:SYST:ERR?"]), m([b"SYST:ERR:COUN?;*ESR?"]), m([b"SYST:ERR?;:SYST:ERR?"])]),
        "dev " + "|".join([m([b'*ERR -300,"say hi"']), m([b"SYST:ERR?"]), m([b"*OPC"]), m([b"SYST:ERR:ALL?;*ESR?"])]),
        "dev " + "|".join([m([b"*ESE"]), m([b"*ESE 1,2"]), m([b'*ESE "X"']), m([b"*ESE 256"]), m([b"*ESE 5V"]), m([b"SYST:ERR:ALL?"]), m([b"*ESR?"])]),
    ]


def long_history():
    """more than 255 unread items: the count and the read-back order must still be exact"""
    m = statuslib.msg_step
    steps = [m([b"FOO"]) if i % 3 else m([b"*ERR %d" % (-(100 + i % 90))]) for i in range(300)]
    steps += [m([b"SYST:ERR:COUN?;NEXT?"]), m([b"SYST:ERR:ALL?"]), m([b"SYST:ERR:COUN?"])]
    return "dev " + "|".join(steps)


def generate(rng, tier):
    import stress
    # handlers of every temperament (incl. ones that swallow parameter errors) on scripted trees: what reaches the error
    # hook is what a device queues
    return _generate(rng, tier) + long_sessions() + stress.tree_stream(tier)


def _generate(rng, tier):
    n = 250 if tier == "quick" else 4000
    return [long_history()] + [statuslib.gen_history(rng, rng.choice([5, 10, 20, 30]) if tier == "thorough" else rng.choice([5, 10, 18]),
                                  {"fail": 4, "common": 5, "reg": 1, "cond": 0.5}) for _ in range(n)]
