"""C13 — device-level histories (see statuslib.py)."""
from common import *
import statuslib
from statuslib import coq_term

PID = "C13"
TARGETS = ["Run.vo", "Contrib_proofs.vo", "ContribMeaning_proofs.vo", "NonVacuous/C13.vo"]
IMPORTS = "From VF Require Import Base Show Gen_Errors Status Contrib Run."
ALLOWED_AXIOMS = []
PROFILES = ["debug"]
ASSUMPTIONS = ["device wired as examples/minimal_scpi.rs (the library VecErrorQueue as error queue, scpi_stb/scpi_cls/scpi_opc); "
               "message -> operation mapping by the template table of tools/props/statuslib.py (op-level model; the "
               "byte-level path is covered by C02/C04/C06/C07)"]


def harness_line(c): return c
def case_of_line(l): return l
def obs(s): return statuslib.obs_fields(s, ('q', 'esr', 'h'))   # C13 constrains queue, ESR, hook count and the responses


def nontrivial(c, impl):
    return impl is not None and impl.count("|") >= 2 and "OK" in impl


def distribution(cases, impl):
    steps = sum(c.count("|") + 1 for c in cases)
    fails = sum(r.count(" - q=") for r in impl if r)
    return {"histories": len(cases), "steps": steps, "failed_messages": fails,
            "device_side_steps": sum(len([s for s in c.split(' ',1)[1].split('|') if s and s[0] in 'ct']) for c in cases)}

RULE = ("histories of 5..30 messages mixing valid commands, every kind of invalid message (undefined header, "
        "missing/extra parameter, type, range, suffix), handler-raised errors of every class (standard, custom, extended) "
        "and the error-queue / ESR queries in any position including the failing message itself; returned error, "
        "response, hook-call count, queue and ESR compared after every message")


def corpus():
    m = statuslib.msg_step
    return [
        "dev " + "|".join([m([b"SYST:ERR?;:SYST:ERR:COUN?;:SYST:ERR:ALL?"]), m([b"*ERR -100;:SYST:ERR?"]), m([b"syst:err:next?"]), m([b"SYST:ERR?"])]),
        "dev " + "|".join([m([b"*ERR 1"]), m([b"*ERR -222"]), m([b"*ERR -410"]), m([b"SYST:ERR:COUN?"]), m([b"*ESR?;*ESR?"]), m([b"SYST:ERR:ALL?;COUN?"])]),
        "dev " + "|".join([m([b"SYST:ERR?;:FOO;:SYST:ERR?"]), m([b"SYST:ERR:COUN?;*ESR?"]), m([b"SYST:ERR?;:SYST:ERR?"])]),
        "dev " + "|".join([m([b'*ERR -300,"say hi"']), m([b"SYST:ERR?"]), m([b"*OPC"]), m([b"SYST:ERR:ALL?;*ESR?"])]),
        "dev " + "|".join([m([b"*ESE"]), m([b"*ESE 1,2"]), m([b'*ESE "X"']), m([b"*ESE 256"]), m([b"*ESE 5V"]), m([b"SYST:ERR:ALL?"]), m([b"*ESR?"])]),
    ]


def long_history():
    """more than 255 unread items: the count and the read-back order must still be exact"""
    m = statuslib.msg_step
    steps = [m([b"FOO"]) if i % 3 else m([b"*ERR %d" % (-(100 + i % 90))]) for i in range(300)]
    steps += [m([b"SYST:ERR:COUN?;NEXT?"]), m([b"SYST:ERR:ALL?"]), m([b"SYST:ERR:COUN?"])]
    return "dev " + "|".join(steps)


def generate(rng, tier):
    n = 250 if tier == "quick" else 4000
    return [long_history()] + [statuslib.gen_history(rng, rng.choice([5, 10, 20, 30]) if tier == "thorough" else rng.choice([5, 10, 18]),
                                  {"fail": 4, "common": 5, "reg": 1, "cond": 0.5}) for _ in range(n)]
