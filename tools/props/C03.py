"""C03 — mnemonics match only short or long form, default-1 suffix."""
from common import *

PID = "C03"
TARGETS = ["Run.vo"]
IMPORTS = "From VF Require Import Base Show Mnemonic Run."
ALLOWED_AXIOMS = []
PROFILES = ["debug"]
RULE = ("definitions of SCPI shape (optional *, 1-5 upper, 0-5 lower, 0-3 digits) and arbitrary definitions; per "
        "definition ~40 candidates: every short/long spelling with suffix variants (absent, 1, 01, same, other), "
        "case flips, truncations, extensions, underscores, all-digit and empty candidates, random strings over "
        "{A,B,a,b,0,1,2,_,*} and over all bytes; through mnemonic_match, mnemonic_compare and "
        "Token::match_program_header (mnemonic, character data, other token); a case (definition) is non-trivial when "
        "its candidates produce both outcomes; distinct = distinct (definition, candidates) lines")
ASSUMPTIONS = ["core::u8 ascii class helpers and eq_ignore_ascii_case as documented"]

UP = b"ABCDEFGHIJKLMNOPQRSTUVWXYZ"
LO = b"abcdefghijklmnopqrstuvwxyz"


def corpus():
    defs = [b"TRIGger", b"TRIGger1", b"TRIGger2", b"CHANnel2", b"*IDN", b"L1", b"L125", b"ASCii2", b"REAL", b"MAXimum",
            b"UP", b"DOWN", b"NAN", b"NINFinity", b"P5V", b"", b"1", b"abc", b"TRIGger01"]
    cands = [b"trig", b"TRIG", b"TRIGGER", b"trigger1", b"TRIG1", b"trig2", b"TRIGG", b"TRIGGE", b"TRIG01", b"TRIGGERS",
             b"tri", b"", b"1", b"2", b"chan", b"chan2", b"CHANNEL2", b"channel", b"*idn", b"idn", b"*IDN1", b"l", b"l1",
             b"L125", b"l12", b"asc", b"asc2", b"ascii2", b"ascii", b"max", b"maxi", b"maximum", b"MAXIMUM1", b"up", b"dow",
             b"down", b"nan", b"ninf", b"ninfinity", b"p5v", b"p", b"p5", b"real", b"rea", b"abc", b"ABC", b"trigger01"]
    return ["mm %s %s" % (hexs(d), ",".join(hexs(c) for c in cands)) for d in defs]


def rand_case(rng, b):
    return bytes((c ^ 0x20) if (65 <= c <= 90 or 97 <= c <= 122) and rng.random() < 0.5 else c for c in b)


def gen_def(rng):
    r = rng.random()
    if r < 0.85:
        star = b"*" if rng.random() < 0.15 else b""
        U = bytes(rng.choice(UP[:3] if rng.random() < 0.5 else UP) for _ in range(rng.randint(1, 5)))
        L = bytes(rng.choice(LO[:3] if rng.random() < 0.5 else LO) for _ in range(rng.choice([0, 0, 1, 2, 3, 5])))
        D = bytes(rng.choice(b"0123456789") for _ in range(rng.choice([0, 0, 0, 1, 1, 2, 3])))
        return star + U + L + D, (star + U, L, D)
    if r < 0.95:
        return bytes(rng.choice(b"ABab012_*") for _ in range(rng.randint(0, 6))), None
    return bytes(rng.randint(0, 255) for _ in range(rng.randint(0, 6))), None


def gen_cands(rng, d, parts, n=40):
    out = []
    if parts:
        head, L, D = parts
        bodies = [head, head + L, head + L[:len(L) // 2], head + L + b"s", head[:-1], head + L[:1], head + b"_"]
        sufs = [b"", b"1", b"01", D, D + b"0", b"2", b"0", b"10", D[:-1] if D else b"11"]
        for b in bodies:
            for s in rng.sample(sufs, 4):
                out.append(rand_case(rng, b + s))
    while len(out) < n:
        r = rng.random()
        if r < 0.5:
            out.append(bytes(rng.choice(b"ABab012_*") for _ in range(rng.randint(0, 7))))
        elif r < 0.8 and d:
            m = bytearray(rand_case(rng, d))
            k = rng.randrange(len(m))
            op = rng.random()
            if op < 0.3: del m[k]
            elif op < 0.6: m.insert(k, rng.choice(b"Aa1_0"))
            else: m[k] = rng.choice(b"Bb2_9")
            out.append(bytes(m))
        else:
            out.append(bytes(rng.randint(0, 255) for _ in range(rng.randint(0, 5))))
    rng.shuffle(out)
    return out[:n]


def generate(rng, tier):
    n = 300 if tier == "quick" else 5000
    res = []
    for _ in range(n):
        d, parts = gen_def(rng)
        res.append("mm %s %s" % (hexs(d), ",".join(hexs(c) for c in gen_cands(rng, d, parts))))
    return res


def harness_line(c): return c
def case_of_line(l): return l


def coq_term(c):
    f = c.split(" ")
    cands = [unhex(x) for x in f[2].split(",") if x] if len(f) > 2 else []
    return f"run_mm {coq_bytes(unhex(f[1]))} {coq_list([coq_bytes(x) for x in cands])}"


def obs(s): return s


def nontrivial(c, impl):
    return impl is not None and ("T" in impl.replace("F ", "").replace(" ", "")[::5] and "FF" in impl)


def distribution(cases, impl):
    pairs = sum(len(r.split(" ")) for r in impl if r)
    matches = sum(1 for r in impl if r for x in r.split(" ") if x.startswith("T"))
    return {"definitions": len(cases), "pairs": pairs, "matching_pairs": matches}
