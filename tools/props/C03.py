"""C03 — mnemonics match only short or long form, default-1 suffix."""
from common import *

PID = "C03"
TARGETS = ["Run.vo", "NonVacuous/C03.vo"]
IMPORTS = "From VF Require Import Base Show Gen_Errors Lexer Response Conv Tree Scripted Numeric Enum Mnemonic Run."
ALLOWED_AXIOMS = []
PROFILES = ["debug"]
RULE = ("definitions of SCPI shape (optional *, 1-5 upper, 0-5 lower, 0-3 digits) and arbitrary definitions; per "
        "definition ~40 candidates: every short/long spelling with suffix variants (absent, 1, 01, same, other), "
        "case flips, truncations, extensions, underscores, all-digit and empty candidates, random strings over "
        "{A,B,a,b,0,1,2,_,*} and over all bytes; through mnemonic_match, mnemonic_compare and "
        "Token::match_program_header (mnemonic, character data, other token); a case (definition) is non-trivial when "
        "its candidates produce both outcomes; distinct = distinct (definition, candidates) lines.  The same rule is also "
        "observed at every USE of the matcher: header mnemonics dispatched through a command tree (node names = definitions), "
        "character data given to derived enums (the fixed enums of gen_enums.rs), float keywords and numeric_value keywords, "
        "each compared with the model and with the short/long/default-1 rule recomputed in Python")
ASSUMPTIONS = ["core::u8 ascii class helpers and eq_ignore_ascii_case as documented"]

UP = b"ABCDEFGHIJKLMNOPQRSTUVWXYZ"
LO = b"abcdefghijklmnopqrstuvwxyz"


def corpus():
    defs = [b"TRIGger", b"TRIGger1", b"TRIGger2", b"CHANnel2", b"*IDN", b"L1", b"L125", b"ASCii2", b"REAL", b"MAXimum",
            b"UP", b"DOWN", b"NAN", b"NINFinity", b"P5V", b"", b"1", b"abc", b"TRIGger01"]
    cands = [b"trig", b"TRIG", b"TRIGGER", b"trigger1", b"TRIG1", b"trig2", b"TRIGG", b"TRIGGE", b"TRIG01", b"TRIGGERS",
             b"tri", b"", b"1", b"2", b"chan", b"chan2", b"CHANNEL2", b"channel", b"*idn", b"idn", b"*IDN1", b"l", b"l1",
             b"L125", b"l12", b"asc", b"asc2", b"ascii2", b"ascii", b"max", b"maxi", b"maximum", b"MAXIMUM1", b"up", b"dow",
             b"down", b"nan", b"ninf", b"ninfinity", b"p5v", b"p", b"p5", b"real", b"rea", b"abc", b"ABC", b"trigger01"]
    return ["mm %s %s" % (hexs(d), ",".join(hexs(c) for c in cands)) for d in defs]


def rand_case(rng, b):
    return bytes((c ^ 0x20) if (65 <= c <= 90 or 97 <= c <= 122) and rng.random() < 0.5 else c for c in b)


def gen_def(rng):
    r = rng.random()
    if r < 0.85:
        star = b"*" if rng.random() < 0.15 else b""
        U = bytes(rng.choice(UP[:3] if rng.random() < 0.5 else UP) for _ in range(rng.randint(1, 5)))
        L = bytes(rng.choice(LO[:3] if rng.random() < 0.5 else LO) for _ in range(rng.choice([0, 0, 1, 2, 3, 5])))
        D = bytes(rng.choice(b"0123456789") for _ in range(rng.choice([0, 0, 0, 1, 1, 2, 3])))
        return star + U + L + D, (star + U, L, D)
    if r < 0.95:
        return bytes(rng.choice(b"ABab012_*") for _ in range(rng.randint(0, 6))), None
    return bytes(rng.randint(0, 255) for _ in range(rng.randint(0, 6))), None


def gen_cands(rng, d, parts, n=40):
    out = []
    if parts:
        head, L, D = parts
        bodies = [head, head + L, head + L[:len(L) // 2], head + L + b"s", head[:-1], head + L[:1], head + b"_"]
        sufs = [b"", b"1", b"01", D, D + b"0", b"2", b"0", b"10", D[:-1] if D else b"11"]
        for b in bodies:
            for s in rng.sample(sufs, 4):
                out.append(rand_case(rng, b + s))
    while len(out) < n:
        r = rng.random()
        if r < 0.5:
            out.append(bytes(rng.choice(b"ABab012_*") for _ in range(rng.randint(0, 7))))
        elif r < 0.8 and d:
            m = bytearray(rand_case(rng, d))
            k = rng.randrange(len(m))
            op = rng.random()
            if op < 0.3: del m[k]
            elif op < 0.6: m.insert(k, rng.choice(b"Aa1_0"))
            else: m[k] = rng.choice(b"Bb2_9")
            out.append(bytes(m))
        else:
            out.append(bytes(rng.randint(0, 255) for _ in range(rng.randint(0, 5))))
    rng.shuffle(out)
    return out[:n]


def use_sites(rng, tier):
    """the matcher as its callers use it"""
    import treegen, C02, C20
    out = []
    words = [b"SYSTem", b"VERSion", b"ALL", b"STATe", b"CHANnel", b"CHANnel2", b"CHANnel21", b"TRIGger1", b"OUTPut3", b"X", b"ABCDEFGHIJ", b"TIMer25",
             # families in which one short form is a proper prefix of another: a lookup by short-form prefix hides the later sibling
             b"CALibration", b"CALCulate", b"SENSe", b"SENSOr", b"A", b"AB", b"ABCd", b"OUT", b"OUTPut", b"XY2", b"TRIG", b"TRIGGer"]
    n = 12 if tier == "quick" else 120
    for _ in range(n):
        defs = rng.sample(words, rng.randint(1, 4))
        if rng.random() < 0.5:      # a prefix family, in either order, among the siblings
            fam = list(rng.choice([(b"CALibration", b"CALCulate"), (b"SENSe", b"SENSOr"), (b"A", b"AB"), (b"AB", b"ABCd"), (b"OUT", b"OUTPut"), (b"TRIG", b"TRIGGer"), (b"X", b"XY2")]))
            rng.shuffle(fam)
            defs = [d for d in defs if d not in fam][:2] + fam
            rng.shuffle(defs)
        sub = [("L", d, False, i + 1) for i, d in enumerate(defs)]
        sc = {i + 1: ([], ["di%d" % (i + 1)]) for i in range(len(defs))}
        msgs = []
        for d in defs:
            for c in C20.spellings(rng, d):
                if c[:1].isalpha() and c.replace(b"_", b"").isalnum() and len(c) <= 12: msgs.append(c + b"?")
        msgs = rng.sample(msgs, min(len(msgs), 24))
        exp = []
        for m in msgs:
            hits = [i + 1 for i, d in enumerate(defs) if C02.spec_match(d, m[:-1])]
            exp.append(("OK", "%dq" % hits[0]) if hits else ("E-113", "-"))
        out.append({"line": treegen.case_line("v", sub, sc, msgs), "expect": exp, "kind": "tree"})
    for k, vs in enumerate(C20.FIXED):
        for m, _ in vs:
            for c in sorted(C20.spellings(rng, m)):
                out.append({"line": "enum %d %s %s" % (k, C20.defspec(vs), hexs(c)), "kind": "enum"})
    for kw in [b"NAN", b"INFinity", b"NINFinity", b"MAXimum", b"MINimum"]:
        for c in sorted(C20.spellings(rng, kw)) + [kw.upper() + b"a", kw.upper() + b"_", kw + b"x", kw.upper()[:len(kw.rstrip(LO))] + b"a"]:
            out.append({"line": "conv %s %s" % (rng.choice(["f32", "f64"]), hexs(c)), "kind": "conv"})
    for kw in [b"MAXimum", b"MINimum", b"DEFault", b"UP", b"DOWN"]:
        for c in sorted(C20.spellings(rng, kw)) + [kw.upper() + b"a", kw.upper() + b"_"]:
            out.append({"line": "nv i32 %s -" % hexs(c), "kind": "nv"})
    # the complete long form (and the short form) followed by layout: name + white space longer than 12 characters
    for kw in [b"INFinity", b"NINFinity", b"MAXimum", b"NAN"]:
        for form in (kw.upper(), kw.upper()[:len(kw.rstrip(LO))], kw.lower()):
            for ws in (b" ", b"     ", b" " * 8, b" " * 12, b"\n", b"\r\n", b"\t\t  ", b" " * 300):
                out.append({"line": "conv %s %s" % (rng.choice(["f32", "f64"]), hexs(form + ws)), "kind": "conv"})
    return out


def generate(rng, tier):
    n = 300 if tier == "quick" else 5000
    res = list(use_sites(rng, tier))
    for _ in range(n):
        d, parts = gen_def(rng)
        res.append("mm %s %s" % (hexs(d), ",".join(hexs(c) for c in gen_cands(rng, d, parts))))
    return res


def harness_line(c): return c if isinstance(c, str) else c["line"]


def case_of_line(l):
    k = l.split(" ")[0]
    return l if k == "mm" else {"line": l, "kind": k, "expect": None}


def impl_oracle(c, r):
    if r is None: return "no result from harness"
    if r.startswith(("PANIC", "CRASH", "NOT-RUN", "HANG")): return "implementation panicked / died"
    if isinstance(c, dict) and c["kind"] == "tree" and c.get("expect"):
        for m, (st, call) in zip(r.split(" | "), c["expect"]):
            f = m.split(" ")
            got = (f[0], f[4][4:] if len(f) > 4 else "-")
            if got != (st, call): return "header mnemonic must %s by the short/long/default-1 rule: expected %s %s, got %s %s" % (
                "match" if st == "OK" else "not match", st, call, got[0], got[1])
    if isinstance(c, dict) and c["kind"] == "enum":
        import C20
        return C20.impl_oracle({"line": c["line"]}, r)
    return None


def coq_term(c):
    if isinstance(c, dict):
        import treegen, C20
        if c["kind"] == "tree": return treegen.coq_term(c["line"])
        if c["kind"] == "enum": return C20.coq_term({"line": c["line"]})
        f = c["line"].split(" ")
        if c["kind"] == "conv": return "run_conv (CFloat %s) %s" % ("F32" if f[1] == "f32" else "F64", coq_bytes(unhex(f[2])))
        if c["kind"] == "nv": return "run_nv_int I32 %s []" % coq_bytes(unhex(f[2]))
    f = c.split(" ")
    cands = [unhex(x) for x in f[2].split(",") if x] if len(f) > 2 else []
    return f"run_mm {coq_bytes(unhex(f[1]))} {coq_list([coq_bytes(x) for x in cands])}"


def obs(s): return s


def nontrivial(c, impl):
    if isinstance(c, dict): return impl is not None and ("V" in impl or "q" in impl)
    return impl is not None and ("T" in impl.replace("F ", "").replace(" ", "")[::5] and "FF" in impl)


def distribution(cases, impl):
    mm = [(c, r) for c, r in zip(cases, impl) if isinstance(c, str)]
    pairs = sum(len(r.split(" ")) for _, r in mm if r)
    matches = sum(1 for _, r in mm if r for x in r.split(" ") if x.startswith("T"))
    uses = {}
    for c in cases:
        if isinstance(c, dict): uses[c["kind"]] = uses.get(c["kind"], 0) + 1
    return {"definitions": len(mm), "pairs": pairs, "matching_pairs": matches, "use_site_cases": uses}
