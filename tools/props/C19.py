"""C19 — channel lists and numeric lists parse to exactly the SCPI-denoted entries."""
from common import *
import lexgen

PID = "C19"
TARGETS = ["Run.vo", "Lists_proofs.vo", "NonVacuous/C19.vo"]
IMPORTS = "From VF Require Import Base Show Gen_Errors Lexer Grammar Lists ListGrammar Run."
ALLOWED_AXIOMS = []
PROFILES = ["debug", "release"]
RULE = ("expressions rendered from the SCPI-99 8.3 list grammars: numeric lists of 0..8 entries (single values and a:b ranges; "
        "signs, decimals incl. leading point, exponents) and channel lists of 0..8 entries (1..3-dimensional specs with signed "
        "values, ranges with ends of equal dimension, quoted path names with either quote, doubled quotes and any ASCII "
        "content), each with the entry sequence the grammar denotes (checked against the implementation independently of the "
        "model: entry kinds, per-dimension values in order, dimension count, tuple conversions); plus single-point corruptions "
        "(leading/doubled comma, missing separator, unequal range dimensions, third range end, foreign characters, empty "
        "dimension `!!`) where the implementation must yield exactly the entries before the corruption and then an error; "
        "hostile byte strings.  Iteration is observed up to and including the first error.  Debug and release.  "
        "non-trivial = at least two entries")
ASSUMPTIONS = ["lexical-core parse_partial::<isize> modelled as sign + digits with range check", "iteration past the first error is not constrained by C19 (not observed)"]
MISMATCH_WHY = "list iteration differs from the proved model (C19)"


def mk(kind, expr, expect=None, src="gen"):
    return {"line": "%s %s" % (kind, hexs(expr)), "kind": kind, "expr": expr, "expect": expect, "src": src}


def digits(r, a=1, b=3): return "".join(r.choice("0123456789") for _ in range(r.randint(a, b)))
def integer(r): return r.choice(["", "", "+", "-"]) + digits(r)


def nrf(r):
    s = r.choice(["", "", "+", "-"]); k = r.randint(0, 2)
    m = digits(r) if k == 0 else (digits(r) + "." + digits(r, 0, 3) if k == 1 else "." + digits(r))
    e = (r.choice("eE") + r.choice(["", "+", "-"]) + digits(r, 1, 2)) if r.random() < 0.3 else ""
    return s + m + e


def spec(r, n=None):
    n = n or r.randint(1, 3)
    parts = [integer(r) for _ in range(n)]
    vals = [int(p) for p in parts]
    return "!".join(parts), n, vals


def spec_expect(n, vals):
    dims = "!".join(str(v) for v in vals)
    c = lambda k: ("_".join(str(v) for v in vals) if n == k else ("E-171" if k == 1 else "E-170"))
    u = lambda k: (c(k) if n != k or all(v >= 0 for v in vals) else "E-224")
    return "%d/%s/%s/%s/%s/%s/%s" % (n, dims, c(1), c(2), c(3), u(1), u(2))


def gen_clist(r):
    ents = []; exp = []
    for _ in range(r.choice([0, 1, 1, 2, 3, 4, 6, 8])):
        k = r.choice("ssrrp")
        if k == "s":
            t, n, v = spec(r); ents.append(t); exp.append("s" + spec_expect(n, v))
        elif k == "r":
            t1, n, v1 = spec(r); t2, _, v2 = spec(r, n)
            ents.append(t1 + ":" + t2); exp.append("r" + spec_expect(n, v1) + "~" + spec_expect(n, v2))
        else:
            q = r.choice(["'", '"']); body = ""
            for _ in range(r.randint(0, 6)):
                c = chr(r.choice([r.randint(0, 127), 44, 58, 33, 64, 32]))
                body += (q + q) if c == q else c
            ents.append(q + body + q); exp.append("p" + hexs(body.encode("latin1")))
    return ("@" + ",".join(ents)).encode("latin1"), " ".join(exp) or "-"


def gen_nlist(r):
    ents = []; exp = []
    for _ in range(r.choice([0, 1, 1, 2, 3, 4, 6, 8])):
        a = nrf(r)
        if r.random() < 0.3:
            b = nrf(r); ents.append(a + ":" + b); exp.append("r%s:%s" % (hexs(a.encode()), hexs(b.encode())))
        else:
            ents.append(a); exp.append("n" + hexs(a.encode()))
    return ",".join(ents).encode(), " ".join(exp) or "-"


# ---- canonical grammar stream with the AST handed to the Coq specification (ListGrammar.v) ----
def coq_number(ns):
    """ns: (sign, int, frac|None, exp|None) -> Grammar.number"""
    return lexgen.coq_number(("num",) + ns)


def gen_number(r):
    sign = r.choice([None, None, b"+", b"-"])
    k = r.randint(0, 2)
    ip, fr = (digits(r).encode(), None) if k == 0 else ((digits(r).encode(), digits(r, 0, 3).encode()) if k == 1 else (b"", digits(r).encode()))
    ex = (r.choice([b"e", b"E"]), r.choice([None, b"+", b"-"]), digits(r, 1, 2).encode()) if r.random() < 0.3 else None
    return (sign, ip, fr, ex)


def gen_nl_ast(r):
    ents = [("r", gen_number(r), gen_number(r)) if r.random() < 0.3 else ("n", gen_number(r)) for _ in range(r.choice([0, 1, 2, 3, 5, 8]))]
    rn = lambda n: lexgen.render_number(("num",) + n)
    txt = b",".join(rn(e[1]) + (b":" + rn(e[2]) if e[0] == "r" else b"") for e in ents)
    exp = " ".join(("r%s:%s" % (hexs(rn(e[1])), hexs(rn(e[2]))) if e[0] == "r" else "n" + hexs(rn(e[1]))) for e in ents) or "-"
    coq = coq_list([("NLRange %s %s" % (coq_number(e[1]), coq_number(e[2])) if e[0] == "r" else "NLNum %s" % coq_number(e[1])) for e in ents])
    return txt, exp, coq


def gen_cl_ast(r):
    ents = []
    for _ in range(r.choice([0, 1, 2, 3, 5, 8])):
        k = r.choice("ssrrp")
        vals = lambda n: [r.choice([0, 1, -1, 7, 12, 999, -40, 2**63 - 1, -2**63, r.randint(-10**6, 10**6)]) for _ in range(n)]
        if k == "s": ents.append(("s", vals(r.randint(1, 3))))
        elif k == "r":
            n = r.randint(1, 3); ents.append(("r", vals(n), vals(n)))
        else:
            q = r.choice([b"'", b'"']); ents.append(("p", q, bytes(r.choice([r.randint(0, 127), 44, 58, 33, 39, 34]) for _ in range(r.randint(0, 6)))))
    rs = lambda v: b"!".join(str(x).encode() for x in v)
    def rend(e):
        if e[0] == "s": return rs(e[1])
        if e[0] == "r": return rs(e[1]) + b":" + rs(e[2])
        return e[1] + e[2].replace(e[1], e[1] + e[1]) + e[1]
    def expect(e):
        if e[0] == "s": return "s" + spec_expect(len(e[1]), e[1])
        if e[0] == "r": return "r" + spec_expect(len(e[1]), e[1]) + "~" + spec_expect(len(e[2]), e[2])
        return "p" + hexs(e[2].replace(e[1], e[1] + e[1]))
    zl = lambda v: coq_list([coq_Z(x) for x in v])
    def coq(e):
        if e[0] == "s": return "CLSpec %s" % zl(e[1])
        if e[0] == "r": return "CLRange %s %s" % (zl(e[1]), zl(e[2]))
        return "CLPath %d%%N %s" % (e[1][0], coq_bytes(e[2]))
    return b"@" + b",".join(rend(e) for e in ents), " ".join(expect(e) for e in ents) or "-", coq_list([coq(e) for e in ents])


def corpus():
    C = lambda e: mk("clist", e, src="corpus"); N = lambda e: mk("nlist", e, src="corpus")
    return [C(b"@1!2"), C(b"@1!2!3"), C(b"@1!!2"), C(b"@1,2,3:5"), C(b"@1!12,3!4:5!6,'POTATO'"), C(b"@"), C(b"1"), C(b""), C(b"@,1"), C(b"@1,,2"), C(b"@1:2:3"),
            C(b"@1!2:3"), C(b"@9,1!2:3,4"), C(b"@1!2!3:4!5"), C(b"@1'P'"), C(b"@1,'it''s',2"), C(b"@1,"), C(b"@+"), C(b"@1!"), C(b"@-1!+2"), C(b"@9223372036854775808"),
            C(b"@'a' ,'b'"), C(b"@1!2,\"x\"\t"), C(b"@'a' "), C(b"@'a'\t,1"), C(b"@1, 'a'"), C(b"@ 1"), C(b"@1 "), N(b"1," + b"0" * 300 + b"42,3"), N(b"2:0." + b"0" * 299 + b"1"), N(b"0" * 256 + b"8,9"),
            N(b"0" * 255 + b"8,9"), N(b"1:" + b"0" * 256 + b"2"), N(b"." + b"0" * 256 + b"5"), C(b"@'a'x"), C(b"@1!2-3"), C(b"@4!5,1!2+3"), C(b"@1!2!3-4"), C(b"@1!2:3!4-5"), C(b"@1-2"), C(b"@'A',1"), C(b"@'A','B',2:3"), C(b"@18446744073709551617"), C(b"@9223372036854775807,-9223372036854775808"),
            C(b"@1!170141183460469231731687303715884105728"), N(b"1,2:3V,4"), N(b"1:2 ,3"), N(b"1:2V"), C(b"@\"a\x80\""), C(b"@'abc"), C(b"@1 ,2"), C(b"@1!2!3!4"),
            N(b"1,2,3:5"), N(b"1-2"), N(b".5"), N(b"1,.5"), N(b"1,,2"), N(b",1"), N(b"1:2:3"), N(b"7,1:2:3,9"), N(b"1 2"), N(b""), N(b" 1"), N(b"1,"), N(b"1:"), N(b"2::5"),
            N(b"1:2:x"), N(b"+"), N(b"1+2"), N(b"-"), N(b"1.5.5"), N(b"1e3,-2.5E-1:+4"), N(b"1,2 ,3")]


def generate(rng, tier):
    n = 400 if tier == "quick" else 8000
    out = []
    wf = []
    for _ in range(n):
        e, x = gen_clist(rng); out.append(mk("clist", e, x)); wf.append(("clist", e))
        e, x = gen_nlist(rng); out.append(mk("nlist", e, x)); wf.append(("nlist", e))
    for _ in range(n // 2):
        e, x, cq = gen_nl_ast(rng); c = mk("nlist", e, x, "gen"); c["coq"] = "run_nlspec %s %s" % (cq, coq_bytes(e)); out.append(c)
        e, x, cq = gen_cl_ast(rng); c = mk("clist", e, x, "gen"); c["coq"] = "run_clspec %s %s" % (cq, coq_bytes(e)); out.append(c)
    for _ in range(n):
        k, e = rng.choice(wf)
        m, how = lexgen.corrupt(rng, e)
        if rng.random() < 0.4:       # structural corruptions of the statement
            pos = rng.randrange(len(e) + 1)
            m = e[:pos] + rng.choice([b",", b",,", b":", b"!", b"!!", b" ", b"x", b"@", b"-", b":1", b"'"]) + e[pos:]
        out.append(mk(k, m, None, "corrupt"))
    for _ in range(n // 4):
        ln = rng.choice([1, 2, 3, 5, 8, 16])
        alpha = b"0123456789+-.,:!@'\"eE x"
        out.append(mk(rng.choice(["clist", "nlist"]), (b"@" if rng.random() < 0.5 else b"") + bytes(rng.choice(alpha) for _ in range(ln)), None, "raw"))
    return out


def harness_line(c): return c["line"]
def case_of_line(l): f = l.split(" "); return mk(f[0], unhex(f[1] if len(f) > 1 else "-"), None, "replay")
def coq_term(c): return c.get("coq") or "run_%s %s" % (c["kind"], coq_bytes(c["expr"]))


def obs(s):
    """entries exactly; the error only as 'an error' (its code/text is not constrained by C19)"""
    return " ".join("E" if t.startswith("E") else t for t in s.split(" "))


def impl_oracle(c, r):
    if r is None: return "no result from harness"
    if r.startswith(("PANIC", "CRASH", "NOT-RUN")) or "HANG" in r or "PANIC" in r: return "list iteration panicked / did not terminate: " + r[:120]
    if c["expect"] is not None and r != c["expect"]:
        return "grammar denotes %s, implementation yielded %s" % (c["expect"][:200], r[:200])
    return None


def nontrivial(c, impl):
    return impl is not None and impl.count(" ") >= 1


def distribution(cases, impl):
    d = {"clist": 0, "nlist": 0, "grammar": 0, "corrupt": 0, "raw": 0, "ended_in_error": 0, "entries": 0}
    for c, r in zip(cases, impl):
        d[c["kind"]] += 1
        d[{"gen": "grammar"}.get(c["src"], c["src"] if c["src"] in d else "raw")] += 1
        if r:
            ts = r.split(" "); d["entries"] += sum(1 for t in ts if t[0] in "snrp")
            if ts[-1].startswith("E"): d["ended_in_error"] += 1
    return d
