"""C12 — error queue is a bounded FIFO marked by -350."""
from common import *

PID = "C12"
TARGETS = ["Run.vo", "NonVacuous/C12.vo"]
IMPORTS = "From VF Require Import Base Show Gen_Errors Queue Run."
ALLOWED_AXIOMS = []
PROFILES = ["debug"]
RULE = ("random op sequences (push of standard/custom/extended errors, pop, len, clear; length 0..200, "
        "biased to fill and overflow) over ArrayVec<Error,N> N in {1..10,16,32} and Vec<Error> (cap 0); "
        "a case is non-trivial when it contains a push and a pop or len; distinct = distinct case lines")
ASSUMPTIONS = ["arrayvec 0.7.8 try_push/pop/pop_at and alloc::Vec behave as documented (modelled as lists)"]
CAPS = [1, 2, 3, 4, 5, 6, 7, 8, 9, 10, 16, 32]


def corpus():
    return [
        "queue 2 p-100,p-200,p-300,l,o,o,o",                 # the suite's overflow test, extended
        "queue 1 p-100,p-200,o,o,p-113,l,o",                 # capacity 1: marker replaces the only slot
        "queue 10 c1:4572726f72x457874656e646564,o",         # extended custom error (test_extended)
        "queue 0 p-100,k,o,l,p-350,o",
        "queue 3 p-350,p-100,p-100,p-100,o,o,o,o",           # a pushed -350 is an ordinary entry
        "queue 4 l,o,k,l",
    ]


def generate(rng, tier):
    n = 600 if tier == "quick" else 6000
    out = []
    for _ in range(n):
        cap = rng.choice([0] + CAPS + [1, 2, 3])
        ln = rng.choice([0, 1, 2, 5, 10, 20, 40, 80, 200]) if tier == "thorough" else rng.choice([0, 1, 3, 8, 20, 50])
        ppush = rng.choice([0.4, 0.6, 0.8])
        ops = []
        for _ in range(ln):
            r = rng.random()
            if r < ppush:
                prev = [o for o in ops if o not in ("o", "l", "k")]
                k = rng.random()
                if prev and k < 0.25: ops.append(prev[-1])                      # the same error again
                elif k < 0.35: ops.append(rng.choice(["p-350", "p-350x" + hexs(b"input queue"), "c-350:" + hexs(b"mine"), "p-350x"]))    # a user-pushed overflow error
                elif k < 0.42: ops.append("p%d" % rng.choice(std_codes()) + "x" + hexs(b"t" * rng.choice([200, 239, 240, 241, 242, 255, 256, 300])))   # very long extended text
                else: ops.append(rand_error_spec(rng))
            elif r < ppush + (1 - ppush) * 0.6: ops.append("o")
            elif r < ppush + (1 - ppush) * 0.9: ops.append("l")
            else: ops.append("k")
        out.append(f"queue {cap} " + ",".join(ops))
    return out + long_cases(tier)


def long_cases(tier):
    """histories longer than any 8/16-bit counter: implementation against the FIFO / overflow rule recomputed here"""
    out = []
    for cap, n in ([(0, 300), (0, 70000), (3, 300), (16, 70000)] if tier == "quick" else [(0, 300), (0, 65535), (0, 65536), (0, 65537), (0, 70000), (0, 200000), (3, 300), (16, 70000), (32, 70000)]):
        ops = []
        for i in range(n):
            ops.append("p%d" % [-100, -200, -300, -113, -222, -410][i % 6] if i % 7 else "c%d:%s" % (i % 30000 + 1, hexs(b"n%d" % i)))
            if i % 1000 == 999: ops.append("l")
        ops += ["l", "o", "o", "l"]
        out.append("queue %d %s" % (cap, ",".join(ops)))
    return out


def simulate(line):
    f = line.split(" ")
    cap = int(f[1]); q = []; out = []
    show = lambda o: ("E" + o[1:]) if o[0] == "p" else ("E" + o[1:].split(":")[0] + "c" + o.split(":")[1])
    for o in f[2].split(","):
        if o == "o": out.append(q.pop(0) if q else "N")
        elif o == "l": out.append("L%d%s" % (len(q), "e" if not q else ""))
        elif o == "k": q = []
        elif cap and len(q) >= cap: q[-1] = "E-350"
        else: q.append(show(o))
    return " ".join(out + ["|"] + q)


def harness_line(c): return c
def case_of_line(l): return l


def coq_term(c):
    if len(c) > 20000: return '"SKIP"'            # the long histories: judged by simulate()
    f = c.split(" ")
    cap = int(f[1])
    ops = [o for o in (f[2].split(",") if len(f) > 2 else []) if o]
    t = []
    for o in ops:
        if o == "o": t.append("QPop")
        elif o == "l": t.append("QLen")
        elif o == "k": t.append("QClear")
        else: t.append("QPush " + coq_error(o))
    return f"run_queue {cap} {coq_list(t)}"


def obs(s): return s          # C12 fixes every output and the content exactly


def impl_oracle(c, r):
    if r is None: return "no result from harness"
    if r.startswith(("PANIC", "CRASH", "NOT-RUN", "HANG")): return "queue operation panicked / died: " + r[:120]
    if len(c) > 20000:
        want = simulate(c)
        if r != want:
            a, b = r.split(" "), want.split(" ")
            i = next((k for k in range(min(len(a), len(b))) if a[k] != b[k]), min(len(a), len(b)))
            return "long history: output %d is %s, the FIFO / overflow rule gives %s (lengths %d vs %d)" % (i, a[i] if i < len(a) else "-", b[i] if i < len(b) else "-", len(a), len(b))
    return None


def nontrivial(c, impl):
    ops = c.split(" ")[2].split(",") if len(c.split(" ")) > 2 else []
    return any(o[0] in "pc" for o in ops if o) and any(o in ("o", "l") for o in ops)


def distribution(cases, impl):
    d = {"vec": 0, "array": 0, "with_overflow_marker": 0, "ops_total": 0, "max_len": 0}
    for c, r in zip(cases, impl):
        f = c.split(" ")
        d["vec" if f[1] == "0" else "array"] += 1
        n = len(f[2].split(",")) if len(f) > 2 else 0
        d["ops_total"] += n
        d["max_len"] = max(d["max_len"], n)
        if r and "E-350" in r: d["with_overflow_marker"] += 1
    return d
