"""C09 — response data is well-formed and denotes exactly the value that was formatted."""
import re, random
from fractions import Fraction as Fr
from common import *
import numlib, pyfmt

PID = "C09"
TARGETS = ["Run.vo", "Fmt_proofs.vo", "NonVacuous/C09.vo"]
IMPORTS = "From VF Require Import Base Show Gen_Errors Lexer Response Conv Enum Tree Scripted Run."
ALLOWED_AXIOMS = []
PROFILES = ["debug", "release"]
RULE = ("integers: ALL i8/u8 values and a boundary-directed + random sample of 16/32/64-bit and pointer-size values in decimal; "
        "non-negative values in #H/#Q/#B; booleans; byte strings of random ASCII content incl. quotes, separators, NL; &str and "
        "Arbitrary blocks with lengths crossing 9/10/99/100/999/1000; character and expression data; lists (incl. empty); every "
        "standard error and random custom errors with/without extended text (incl. quotes and `;`); f32/f64: zeros, subnormals, "
        "powers of two and ten, 9/17-digit cases, MAX, NaN and infinities, random bit patterns.  Each emitted text is (1) compared "
        "with the model (non-float kinds), (2) decoded by an independent decoder in Python and compared with the value, (3) sent "
        "back through the library's own parser (round trip; strings denote the value after un-doubling quotes), floats also "
        "through Rust's str::parse; derived enums (~30 definitions generated from the seed and compiled into the harness): every "
        "variant's response text is sent back through TryFrom<Token> and must select the same variant; f32: ALL 2^32 bit patterns in "
        "the thorough tier (32 random blocks of 2^18 in the quick tier) formatted and read back inside the harness (library parser and "
        "str::parse, bit for bit; NaN/inf sentinels; NRf syntax).  non-trivial = text longer than one byte")
ASSUMPTIONS = ["lexical-core 0.8.5 write::<f32|f64> is not modelled: every emitted float text is validated per value (syntax, exact decode = same bits)",
               "a string containing `\"` round-trips through the zero-copy parser with the quotes still doubled (DESIGN 7.2)"]
MISMATCH_WHY = "emitted response text / round trip differs from the proved model (C09)"
INTS = numlib.INTS
CTY = {"i8": "CInt I8", "u8": "CInt U8", "i16": "CInt I16", "u16": "CInt U16", "i32": "CInt I32", "u32": "CInt U32", "i64": "CInt I64", "u64": "CInt U64",
       "isize": "CInt Isize", "usize": "CInt Usize", "bool": "CBool", "bytes": "CBytes BBytes", "str": "CBytes BStr", "arb": "CBytes BArb", "chr": "CBytes BChr", "expr": "CBytes BExpr"}


def mk(item):
    return {"line": "fmt " + item, "item": item}


# derived enums: the definitions are generated from the seed and compiled into the harness (C20's machinery); every
# variant's response text must select the same variant when sent back
import C20
def pre_build(rng, tier): C20.pre_build(random.Random(rng.random()), tier)
def enum_cases(): return [{"line": "enumv %d %s" % (k, C20.defspec(vs)), "item": "enum:"} for k, vs in enumerate(C20._enums)]


def corpus():
    return [mk(x) for x in ["f64:8000000000000000", "f32:80000000", "E:c-300:446576696365x7361792022686922", "E:p-100x6122623b63", "s:" + hexs(b'say "hi"'), "s:22", "s:2222",
                            "a:" + hexs(b"0123456789"), "a:" + hexs(b"x" * 100), "a:" + hexs(b"x" * 1000), "f64:41e0000000000000", "f32:4f000000", "f64:4202a05f20000000",
                            "l:i32:-", "s:" + hexs(b"caf\xe9"), "f64:7ff8000000000000", "f64:fff0000000000000", "f32:7f800000", "H:u64:18446744073709551615", "B:u8:0"]]


def generate(rng, tier):
    out = []
    big = tier != "quick"
    for v in range(-128, 128): out.append(mk("i8:%d" % v))
    for v in range(0, 256): out.append(mk("u8:%d" % v))
    for ty, (lo, hi, _) in INTS.items():
        vals = {lo, lo + 1, hi, hi - 1, 0, 1, -1 if lo < 0 else 0, 9, 10, 99, 100, 999, 1000, hi // 2, lo // 2}
        for _ in range(30 if not big else 500):
            vals.add(rng.randint(lo, hi)); vals.add(max(lo, min(hi, rng.choice([1, -1]) * 10 ** rng.randint(0, 19) + rng.randint(-1, 1))))
        if ty in ("i16", "u16") and big: vals |= set(range(lo, hi + 1))
        for v in vals:
            if lo <= v <= hi: out.append(mk("%s:%d" % (ty, v)))
        for v in list(vals)[:25 if not big else 200]:
            if 0 <= v <= hi:
                out.append(mk("%s:%s:%d" % (rng.choice("HQB"), ty, v)))
    out += [mk("bool:0"), mk("bool:1")]
    alpha = b'abc XYZ019"\';,:#()@\n\t!~' + bytes([0, 127])
    for _ in range(120 if not big else 2500):
        n = rng.choice([0, 1, 2, 5, 9, 10, 11, 40])
        s = bytes(rng.choice(alpha) for _ in range(n))
        out.append(mk("s:" + hexs(s)))
    for n in [0, 1, 8, 9, 10, 11, 98, 99, 100, 101, 998, 999, 1000, 1001] + ([9999, 10000] if big else []):
        out.append(mk("a:" + hexs(bytes(rng.randrange(256) for _ in range(n)))))
        out.append(mk("S:" + hexs(bytes(rng.choice(b"abc\n\"' ;") for _ in range(n)))))
    out.append(mk("S:" + hexs("é€😀".encode())))
    for c in [b"ON", b"OFF", b"VOLT", b"A", b"ABCDEFGHIJKL", b"MAX", b"a_1"]: out.append(mk("c:" + hexs(c)))
    for x in [b"", b"1,2", b"@1!2,3:4", b"1:10", b" a b "]: out.append(mk("x:" + hexs(x)))
    for c in std_codes(): out.append(mk("E:p%d" % c))
    for _ in range(60 if not big else 800): out.append(mk("E:" + rand_error_spec(rng)))
    for _ in range(40 if not big else 400):
        t = rng.choice(["i32", "i64", "u8"]); lo, hi = {"i32": (-2**31, 2**31 - 1), "i64": (-2**63, 2**63 - 1), "u8": (0, 255)}[t]
        n = rng.choice([0, 1, 2, 3, 8, 20])
        out.append(mk("l:%s:%s" % (t, ",".join(str(rng.randint(lo, hi)) for _ in range(n)) or "-")))
    # floats
    for ty, w, eb, mb in (("f32", 8, 8, 23), ("f64", 16, 11, 52)):
        bits = {0, 1, 2, (1 << mb) - 1, 1 << mb, (1 << mb) + 1, ((1 << eb) - 2) << mb | ((1 << mb) - 1), ((1 << eb) - 1) << mb, (((1 << eb) - 1) << mb) | (1 << (mb - 1)),
                ((1 << (eb - 1)) - 1) << mb}
        for k in range(-40, 41):                        # powers of ten and two
            for v in (10.0 ** k, 2.0 ** k, 1.0 + 2.0 ** -k if k > 0 else 3.0 * 2.0 ** k, 123456789.0 * 10.0 ** k):
                bits.add(to_bits(v, ty))
        for _ in range(400 if not big else 20000): bits.add(rng.getrandbits(len(bin((1 << (eb + mb + 1)) - 1)) - 2))
        for v in [0.1, 0.3, 1 / 3, 2 ** 31, 3e9, 2 ** 32, 2 ** 33, 16777217.0, 9007199254740993.0, 1e10, 1e-7, 0.00001, 9.9e37, 1e22, 1e23, 5e-324, 1.7976931348623157e308]:
            bits.add(to_bits(v, ty))
        for b in list(bits):
            out.append(mk("%s:%0*x" % (ty, w, b)))
            out.append(mk("%s:%0*x" % (ty, w, b | (1 << (eb + mb)))))      # negative twin
    # f32: the property's own quantifier "all 2^32 bit patterns" — swept inside the harness (format, read back through the
    # library's parser and through str::parse, bit for bit; sentinels for NaN/inf; NRf syntax); implementation only
    if big:
        out += [sweep(k << 24, 1 << 24) for k in range(256)]
    else:
        out += [sweep(rng.randrange(1 << 14) << 18, 1 << 18) for _ in range(32)]
    for n in (10, 200, 239, 240, 241, 254, 255, 256, 300, 1000):          # long extended texts and long custom messages in error items
        out.append(mk("E:p-200x" + hexs(b"e" * n))); out.append(mk("E:c105:" + hexs(b"m" * n))); out.append(mk("E:c-7:" + hexs(b'q"' * (n // 2)) + "x" + hexs(b'"' * n)))
    return out + enum_cases() + block_headers(tier) + many_items(tier)


def many_items(tier):
    """comma-joined data: one response unit with more elements than an 8-bit counter holds, emitted by a handler"""
    import treegen
    out = []
    for n in (2, 255, 256, 257, 258, 300, 513):
        sc = {1: ([], ["di%d" % (i % 10) for i in range(n)]), 2: ([], ["h" + hexs(b"TRAC")] + ["ds" + hexs(b"s%d" % (i % 7)) for i in range(n)]), 3: ([], ["dEp-%d" % (100 + i % 5) for i in range(n)])}
        sub = [("L", b"TRAC", False, 1), ("L", b"HTRAC", False, 2), ("L", b"ERRS", False, 3)]
        out.append({"line": treegen.case_line("v", sub, sc, [b"TRAC?", b"HTRAC?", b"ERRS?", b"TRAC?;ERRS?"]), "item": "many:"})
    return out


def block_headers(tier):
    ns = [0, 1, 9, 10, 11, 99, 100, 999, 1000, 9999, 10000, 99999, 100000, 999999, 1000000, 9999999, 10000000, 10000001, 12345678, 99999999, 100000000, 100000001]
    if tier != "quick": ns += [123456789, 999999999, 1000000000]
    return [{"line": "blockhdr %d" % n, "item": "blockhdr:"} for n in ns]


def sweep(start, count): return {"line": "f32sweep %08x %d" % (start, count), "item": "sweep:"}


def to_bits(v, ty):
    import struct
    try:
        return struct.unpack("<I", struct.pack("<f", v))[0] if ty == "f32" else struct.unpack("<Q", struct.pack("<d", v))[0]
    except OverflowError:
        return 0


def harness_line(c): return c["line"]
def case_of_line(l):
    if l.startswith("enumv "): return {"line": l, "item": "enum:"}
    if l.startswith("f32sweep "): return {"line": l, "item": "sweep:"}
    if l.startswith("blockhdr "): return {"line": l, "item": "blockhdr:"}
    if l.startswith("tree "): return {"line": l, "item": "many:"}
    return mk(l.split(" ", 1)[1])


def coq_item(item):
    k, v = item.split(":", 1)
    if k in INTS: return "(RInt %s)" % coq_Z(int(v)), CTY[k]
    if k in "HQB" and len(k) == 1:
        t, n = v.split(":"); return "(RRadix %d %s)" % ({"H": 16, "Q": 8, "B": 2}[k], n), CTY[t]
    if k == "bool": return "(RBool %s)" % ("true" if v == "1" else "false"), CTY["bool"]
    if k == "s": return "(RStr %s)" % coq_bytes(unhex(v)), CTY["bytes"]
    if k == "S": return "(RBlock %s)" % coq_bytes(unhex(v)), CTY["str"]
    if k == "a": return "(RBlock %s)" % coq_bytes(unhex(v)), CTY["arb"]
    if k == "c": return "(RChar %s)" % coq_bytes(unhex(v)), CTY["chr"]
    if k == "x": return "(RExpr %s)" % coq_bytes(unhex(v)), CTY["expr"]
    if k == "E": return "(RErrItem %s)" % coq_error(v), None
    if k == "l":
        t, n = v.split(":"); return "(RList %s)" % coq_list([] if n == "-" else ["(RInt %s)" % coq_Z(int(x)) for x in n.split(",")]), None
    return None, None


def coq_term(c):
    if c["line"].startswith("enumv "): return C20.coq_term(c)
    if c["line"].startswith(("f32sweep ", "blockhdr ")): return '"SKIP"'
    if c["line"].startswith("tree "):
        import treegen
        return treegen.coq_term(c["line"])
    d, back = coq_item(c["item"])
    if d is None: return '"SKIP"'
    return "run_fmt %s %s" % (d, "None" if back is None else "(Some (%s))" % back)


def obs(s): return s


NRF = re.compile(rb"^[+-]?(\d+\.?\d*|\.\d+)([eE][+-]?\d+)?$")


def decode_check(item, text):
    """independent decoder: returns an error string when `text` does not denote the value of `item`"""
    k, v = item.split(":", 1)
    if k in INTS:
        if not re.fullmatch(rb"-?\d+", text) or int(text) != int(v): return "decimal integer text does not denote %s" % v
    elif k in "HQB" and len(k) == 1:
        t, n = v.split(":")
        m = re.fullmatch(rb"#([HQB])([0-9A-Fa-f]+)", text)
        if not m or m.group(1).decode() != k or int(m.group(2), {"H": 16, "Q": 8, "B": 2}[k]) != int(n): return "radix text does not denote %s" % n
    elif k == "bool":
        if text != (b"1" if v == "1" else b"0"): return "boolean must be 0/1"
    elif k == "s":
        s = unhex(v)
        if len(text) < 2 or text[:1] != b'"' or text[-1:] != b'"': return "string response must be delimited by double quotes"
        body = text[1:-1]
        if re.search(rb'(?<!")"(?!")', body.replace(b'""', b'')): return "embedded quote not doubled"
        if body.replace(b'""', b'"') != s: return "string does not decode to the original"
    elif k in ("a", "S"):
        p = unhex(v)
        m = re.match(rb"#([1-9])", text)
        if not m: return "block header missing"
        nd = int(m.group(1)); ln = text[2:2 + nd]
        if not ln.isdigit() or int(ln) != len(p) or text[2 + nd:] != p: return "block header does not state the payload length / payload altered"
    elif k == "c":
        if text != unhex(v): return "character data altered"
    elif k == "x":
        if text != b"(" + unhex(v) + b")": return "expression data altered"
    elif k == "E":
        want = pyfmt.item_text("E" + v)
        if want is not None and text != want: return "error item must be %r" % want
    elif k == "l":
        t, n = v.split(":")
        if text != b",".join(x.encode() for x in n.split(",")): return "list must be comma-joined"
    elif k in ("f32", "f64"):
        bits = int(v, 16)
        eb, mb = (8, 23) if k == "f32" else (11, 52)
        exp = (bits >> mb) & ((1 << eb) - 1); man = bits & ((1 << mb) - 1); neg = bits >> (eb + mb)
        if exp == (1 << eb) - 1:
            want = b"9.91E+37" if man else (b"-9.9E+37" if neg else b"9.9E+37")
            return None if text == want else "NaN / infinity must be the SCPI sentinel %r" % want
        if not NRF.match(text): return "float text is not a valid NRf number"
        lv = numlib.literal_value(text)
        if lv is None: return "float text not decodable"
        got = numlib.float_bits(numlib.rn_float(lv[0], text.startswith(b"-"), k), k)
        if got != bits: return "float text %r decodes to bits %x, not the original %x" % (text, got, bits)
    return None


def impl_oracle(c, r):
    if r is None: return "no result from harness"
    if r.startswith(("PANIC", "CRASH", "NOT-RUN", "HANG")): return "formatting panicked / died: " + r[:100]
    if c["line"].startswith("enumv "): return C20.impl_oracle(c, r)
    if c["line"].startswith("f32sweep "): return None if r == "OK" else "f32 response does not denote the value formatted: " + r
    if c["line"].startswith("blockhdr "): return None if r == "OK" else "block header does not state the payload length: " + r
    if c["line"].startswith("tree "): return None if r.startswith("OK") else "a response with many data elements failed: " + r[:80]
    f = r.split(" ")
    item = c["item"]; k, v = item.split(":", 1)
    if f[0].startswith("E"):
        # formatting may only fail for the documented reasons
        if k == "s" and any(b > 127 for b in unhex(v)): return None
        if k == "l" and v.endswith(":-"): return None
        if k == "E" and pyfmt.item_text("E" + v) is None: return None
        if k in ("a", "S") and len(unhex(v)) >= 10 ** 9: return None
        return "formatting a valid value failed with " + f[0]
    text = unhex(f[0])
    why = decode_check(item, text)
    if why: return why + " (emitted %r)" % text[:80]
    # round trip through the library's own parser
    rt = f[1] if len(f) > 1 else "-"
    if k in INTS and rt != "I" + v: return "integer does not read back: " + rt
    if k in "HQB" and len(k) == 1 and rt != "I" + v.split(":")[1]: return "radix form does not read back: " + rt
    if k == "bool" and rt != "B" + v: return "boolean does not read back: " + rt
    if k == "s":
        if not rt.startswith("Y") or unhex(rt[1:]).replace(b'""', b'"') != unhex(v): return "string does not read back: " + rt
    if k in ("a", "S", "c", "x") and rt != "Y" + v and not (v == "-" and rt == "Y-"): return "payload does not read back: " + rt
    if k in ("f32", "f64"):
        bits = int(v, 16); eb, mb = (8, 23) if k == "f32" else (11, 52)
        if (bits >> mb) & ((1 << eb) - 1) != (1 << eb) - 1:
            want = "F%0*x" % (8 if k == "f32" else 16, bits)
            if rt != want: return "float does not read back through the library parser: %s != %s" % (rt, want)
            if len(f) > 2 and f[2] != "P" + want[1:]: return "float does not read back through str::parse: " + f[2]
    return None


def nontrivial(c, impl):
    return impl is not None and len(impl.split(" ")[0]) > 2


def distribution(cases, impl):
    d = {}
    for c in cases:
        k = c["item"].split(":")[0]
        k = {"H": "radix", "Q": "radix", "B": "radix", "s": "string", "S": "str_block", "a": "block", "c": "character", "x": "expression", "E": "error_item", "l": "list"}.get(k, k)
        d[k] = d.get(k, 0) + 1
    d["format_errors"] = sum(1 for r in impl if r and r.startswith("E"))
    d["f32_patterns_swept_in_harness"] = sum(int(c["line"].split(" ")[2]) for c in cases if c["line"].startswith("f32sweep "))
    d.pop("sweep", None)
    d["block_header_lengths"] = d.pop("blockhdr", 0)
    d["units_with_hundreds_of_elements"] = d.pop("many", 0)
    return d
