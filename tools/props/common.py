"""helpers shared by the property modules"""
import os, re, sys
sys.path.insert(0, os.path.dirname(os.path.dirname(os.path.abspath(__file__))))
import translate


def hexs(b: bytes) -> str:
    return b.hex() if b else "-"


def unhex(s: str) -> bytes:
    return b"" if s == "-" else bytes.fromhex(s)


def coq_bytes(b: bytes) -> str:
    return "[" + "; ".join(str(x) for x in b) + "]%N" if b else "(@nil N)"


def coq_Z(n: int) -> str:
    return f"({n})%Z"


def coq_opt_bytes(b):
    return "None" if b is None else f"(Some {coq_bytes(b)})"


def coq_list(items) -> str:
    return "[" + "; ".join(items) + "]"


_errtab = None
def error_table():
    """[(name, code, message)] read from the GENERATED coq/gen/Gen_Errors.v — the one table the model uses, however
    it was produced (source text or exhaustive behavioural dump)"""
    global _errtab
    if _errtab is None:
        txt = open(os.path.join(os.path.dirname(os.path.abspath(__file__)), "..", "..", "coq", "gen", "Gen_Errors.v")).read()
        names = {int(c): n for n, c in re.findall(r"Definition (\w+) : Z := \((-?\d+)\)%Z\.", txt)}
        body = txt[txt.index("Definition std_errors"):]
        _errtab = [(names.get(int(c), "?"), int(c), bytes(int(x) for x in re.findall(r"\d+", b)))
                   for c, b in re.findall(r"\(\((-?\d+)\)%Z, \[([^\]]*)\]%N\)", body)]
        if not _errtab: raise RuntimeError("coq/gen/Gen_Errors.v has no entries")
    return _errtab


def std_codes():
    return [c for _, c, _ in error_table()]


def parse_error_spec(spec: str):
    """p<code> | c<code>:<hexmsg> [x<hexext>] -> (code, custom or None, ext or None)"""
    ext = None
    if "x" in spec:
        spec, e = spec.split("x", 1)
        ext = unhex(e)
    if spec.startswith("p"):
        return int(spec[1:]), None, ext
    c, m = spec[1:].split(":")
    return int(c), unhex(m), ext


def coq_error(spec: str) -> str:
    code, cust, ext = parse_error_spec(spec)
    return f"(mkError {coq_Z(code)} {coq_opt_bytes(cust)} {coq_opt_bytes(ext)})"


def rand_error_spec(rng) -> str:
    r = rng.random()
    if r < 0.6:
        s = "p%d" % rng.choice(std_codes())
    else:
        msg = bytes(rng.choice(b"ABCxyz ;\"019") for _ in range(rng.randint(0, 6)))
        s = "c%d:%s" % (rng.randint(-32768, 32767), hexs(msg))
    if rng.random() < 0.25:
        ext = bytes(rng.choice(b"ext\";, 7") for _ in range(rng.randint(0, 5)))
        s += "x" + hexs(ext)
    return s


def keyword_near_misses(kw: bytes):
    """every single-character substitution / deletion / extension of a keyword's long and short form (upper case)"""
    long = kw.upper(); short = bytes(c for c in kw if not (97 <= c <= 122)) or long
    out = set()
    for w in (long, short):
        for i in range(len(w)):
            out.add(w[:i] + (b"X" if w[i:i + 1] != b"X" else b"Y") + w[i + 1:])
            out.add(w[:i] + w[i + 1:])
        out.add(w + b"X"); out.add(w + b"1"); out.add(w + b"_")
    # partial long forms
    for k in range(len(short) + 1, len(long)):
        out.add(long[:k])
    out.discard(long); out.discard(short); out.discard(b"")
    return sorted(out)
