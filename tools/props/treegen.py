"""Shared generator for the dispatcher-level properties (C01, C02, C05, C06, C10, C11):
random command trees with scripted handlers, messages built from the tree's paths, and the
translation of a case to the harness line (kind `tree`, harness/src/k_tree.rs) and to the
Coq term `run_tree` (coq/Run.v)."""
from common import *
import lexgen

WORDS = [b"VOLTage", b"CURRent", b"MEASure", b"CONFigure", b"SYSTem", b"ERRor", b"NEXT", b"ALL", b"COUNt", b"RANGe", b"AUTO",
         b"A", b"AB", b"ABc", b"TRIGger", b"SOURce", b"LEVel", b"CHANnel", b"OUTPut", b"STATe", b"DC", b"AC", b"FREQuency",
         b"INITiate", b"IMMediate", b"X", b"Y", b"ZERO", b"ONE", b"DELay", b"MODE", b"UPPer", b"LOWer", b"DATA", b"POINts",
         b"CALibration", b"CALCulate", b"SENSe", b"SENSOr"]
# sibling families in which one short form is a proper prefix of another (CAL / CALC, A / AB, SENS / SENSO): a lookup that
# stops at the first child whose short form is a PREFIX of the received mnemonic hides the later sibling
PREFIX_FAMILIES = [(b"CALibration", b"CALCulate"), (b"A", b"AB"), (b"SENSe", b"SENSOr"), (b"AB", b"ABCd"), (b"OUT", b"OUTPut"), (b"X", b"XY2")]
COMMON = [b"*IDN", b"*RST", b"*CLS", b"*OPC", b"*TST", b"*X1", b"*LONGCOMMAND1"]


def rand_name(rng, used):
    for _ in range(50):
        w = rng.choice(WORDS)
        if rng.random() < 0.3:
            w = w + str(rng.choice([1, 2, 2, 3, 10, 11, 21, 31])).encode()
        if w not in used:
            used.add(w); return w
    w = b"N%d" % len(used); used.add(w); return w


class TreeGen:
    def __init__(self, rng, illformed=0.15, emit=True, pulls=True, fail=0.1, typed=0.0):
        self.r = rng; self.next_id = 1; self.scripts = {}; self.illformed = illformed
        self.emit = emit; self.pulls = pulls; self.fail = fail; self.typed = typed

    def item(self):
        r = self.r
        k = r.choice("iiubsacxEHQBlXa" if r.random() < 0.5 else "iibsla")
        if k == "i": return "i%d" % r.choice([0, 1, -1, 42, -128, 32767, r.randint(-10**12, 10**12)])
        if k == "u": return "u%d" % r.choice([0, 7, 255, 65535, 2**64 - 1])
        if k == "b": return "b%d" % r.randint(0, 1)
        if k == "s": return "s" + hexs(bytes(r.choice(b'ab "\'c;,\n1') for _ in range(r.randint(0, 6))) if r.random() < 0.9 else b"\xe9x")
        if k == "a":
            if r.random() < 0.3: return "a" + hexs(r.choice([b"line1\nline2\n", b"\n", b"ok\n", b"a;b", b"1,2\n"]))
            return "a" + hexs(bytes(r.randrange(256) for _ in range(r.choice([0, 1, 3, 9, 10, 12]))))
        if k == "c": return "c" + hexs(r.choice([b"ON", b"OFF", b"VOLT", b"MAX"]))
        if k == "x": return "x" + hexs(r.choice([b"@1,2", b"1:3", b""]))
        if k == "E": return "E" + rand_error_spec(r)
        if k in "HQB": return k + str(r.choice([0, 1, 255, 4096, 2**64 - 1]))
        if k == "l": return "l" + (",".join(str(r.randint(-99, 999)) for _ in range(r.randint(1, 4))) if r.random() < 0.9 else "-")
        if k == "X": return "X%d" % r.choice([-200, -300, -240])

    def script(self, query):
        r = self.r; ops = []
        if self.pulls:
            for _ in range(r.choice([0, 0, 1, 1, 2, 3, 4])):
                o = r.choice(["r", "r", "o", "o", "R", "O"])
                if r.random() < self.typed: o += ":" + r.choice(list(PTY))
                ops.append(o)
        if query and self.emit:
            nh = r.choice([0, 0, 0, 1, 2])
            for _ in range(nh): ops.append("h" + hexs(r.choice([b"VOLT", b"SENS", b"RANG", b"A"])))
            for _ in range(r.choice([1, 1, 1, 2, 3, 4])): ops.append("d" + self.item())
            if r.random() < 0.2: r.shuffle(ops)        # pulls after emits etc.
            if any(o[0] == 'h' for o in ops):           # a header after data is a debug_assert in the library: keep headers first
                ops = [o for o in ops if o[0] == 'h'] + [o for o in ops if o[0] != 'h']
        x = r.random()
        if x < self.fail: ops.insert(r.randint(0, len(ops)), "F" + rand_error_spec(r))
        elif x < self.fail + 0.08: ops.append("K")
        elif x < self.fail + 0.16: ops.append("N")
        return ops

    def leaf(self, name, dflt):
        i = self.next_id; self.next_id += 1
        self.scripts[i] = (self.script(False), self.script(True))
        return ("L", name, dflt, i)

    def children(self, depth):
        r = self.r; used = set(); out = []
        n = r.choice([1, 2, 2, 3, 4, 5])
        has_dl = has_db = False
        for _ in range(n):
            name = rand_name(r, used)
            if r.random() < self.illformed and out:      # overlapping sibling: same word, or a prefix clash
                name = r.choice([out[0][1], out[0][1].upper(), name])
            if depth > 0 and r.random() < 0.4:
                d = (not has_db and r.random() < 0.35) or (r.random() < self.illformed * 0.3)
                has_db = has_db or d
                out.append(("B", name, d, self.children(depth - 1)))
            else:
                d = (not has_dl and r.random() < 0.3) or (r.random() < self.illformed * 0.3)
                has_dl = has_dl or d
                if d and r.random() < 0.15: name = b""          # anonymous default leaf
                out.append(self.leaf(name, d))
        if r.random() < 0.12:                                    # a prefix family, in either order
            fam = list(r.choice(PREFIX_FAMILIES))
            if r.random() < 0.5: fam.reverse()
            if not any(c[1] in fam for c in out):
                for nm in fam:
                    out.append(self.leaf(nm, False) if depth == 0 or r.random() < 0.6 else ("B", nm, False, self.children(depth - 1)))
        if r.random() < 0.5:                                     # "default node must be first"
            out.sort(key=lambda c: not c[2])
        return out

    def tree(self, depth=3):
        sub = self.children(depth)
        for c in self.r.sample(COMMON, self.r.choice([0, 1, 2])):
            sub.append(self.leaf(c, False))
        return sub


def spell(rng, name):
    """a received form of a defined mnemonic: short or long, random case, suffix 1 optional"""
    body = name.rstrip(b"0123456789"); suf = name[len(body):]
    short = bytes(c for c in body if not (97 <= c <= 122)) if any(97 <= c <= 122 for c in body) else body
    b = rng.choice([short, body, body])
    b = rng.choice([b, b.upper(), b.lower(), bytes(c ^ 32 if (65 <= c <= 90 or 97 <= c <= 122) and rng.random() < 0.5 else c for c in b)])
    if suf == b"1" and rng.random() < 0.5: suf = b""
    if suf == b"" and rng.random() < 0.2 and not name.startswith(b"*"): suf = b"1"
    x = rng.random()
    if x < 0.04 and suf: suf = suf + b"1"                      # near-miss suffixes: 2 -> 21, 21 -> 2, 1 -> 01
    elif x < 0.07 and len(suf) > 1: suf = suf[:-1]
    elif x < 0.09 and suf: suf = b"0" + suf
    elif x < 0.11: suf = rng.choice([b"2", b"11", b"21", b"0"])
    return b + suf


def paths(sub, prefix=()):
    """all (path of nodes) to leaves"""
    out = []
    for c in sub:
        if c[0] == "L": out.append(prefix + (c,))
        else: out += paths(c[3], prefix + (c,))
    return out


def header_for(rng, path, start=0):
    """spell a path from position `start`, omitting default nodes at random"""
    ms = []
    nodes = path[start:]
    for i, n in enumerate(nodes):
        if n[2] and rng.random() < 0.6: continue            # default node omitted
        if n[1] == b"": continue
        ms.append(spell(rng, n[1]))
    return ms


def data_arg(rng, g):
    d = g.datum(False)
    return lexgen.render_datum(d)


def gen_message(rng, sub, nunits=None, bad=0.15, args=True):
    """message text built from the tree's paths (mostly valid headers, relative and absolute)"""
    g = lexgen.Gen(rng)
    ps = paths(sub)
    n = nunits or rng.choice([1, 1, 2, 3, 4, 6])
    units = []
    prev = None
    for i in range(n):
        x = rng.random()
        if x < bad or not ps:
            hdr = b":".join(g.mnemonic(6) for _ in range(rng.randint(1, 3)))
            if rng.random() < 0.3: hdr = b":" + hdr
            prev = None
        else:
            p = rng.choice(ps)
            if p[0][1].startswith(b"*"):
                hdr = spell(rng, p[0][1])
            elif prev is not None and rng.random() < 0.5 and len(prev) > 1:
                # relative: a sibling under the previous unit's context
                k = rng.randint(0, len(prev) - 1)
                cands = [q for q in ps if q[:k] == prev[:k] and len(q) > k and not q[0][1].startswith(b"*")]
                p = rng.choice(cands) if cands else p
                ms = header_for(rng, p, k if cands else 0)
                hdr = b":".join(ms) if cands else b":" + b":".join(ms)
                prev = p
            else:
                ms = header_for(rng, p)
                hdr = (b":" if rng.random() < 0.4 else b"") + b":".join(ms)
                prev = p
        if rng.random() < 0.45: hdr += b"?"
        u = hdr
        if args:
            na = rng.choice([0, 0, 1, 1, 2, 3, 4])
            if na:
                u += g.ws(1, 2) + (b"," + g.ws(0, 1)).join(data_arg(rng, g) + g.ws(0, 1) for _ in range(na))
            elif rng.random() < 0.3:
                u += g.ws(1, 2)
        units.append(u)
    msg = b""
    for i, u in enumerate(units):
        msg += u
        if i < len(units) - 1: msg += b";" + g.ws(0, 1)
    end = rng.random()
    if end < 0.25: msg += b"\n"
    elif end < 0.35: msg += b";"
    elif end < 0.4: msg += b" "
    elif end < 0.45: msg += b";\n"
    return msg


# ---------------------------------------------------------------- serialisation
def tree_spec(sub):
    out = ""
    for c in sub:
        if c[0] == "L": out += "L%s%s#%d;" % ("d" if c[2] else "", hexs(c[1]), c[3])
        else: out += "B%s%s(%s);" % ("d" if c[2] else "", hexs(c[1]), tree_spec(c[3]))
    return out


def scripts_spec(scripts):
    if not scripts: return "-"
    return "+".join("%d:%s/%s" % (i, ".".join(e) or "-", ".".join(q) or "-") for i, (e, q) in sorted(scripts.items()))


def case_line(cap, sub, scripts, msgs):
    return "tree %s %s %s %s" % (cap, tree_spec(sub) or "-", scripts_spec(scripts), " ".join(hexs(m) for m in msgs))


def coq_item(it):
    k, v = it[0], it[1:]
    if k in "iu": return "(Response.RInt %s)" % coq_Z(int(v))
    if k == "b": return "(RBool %s)" % ("true" if v == "1" else "false")
    if k == "s": return "(RStr %s)" % coq_bytes(unhex(v))
    if k == "a": return "(RBlock %s)" % coq_bytes(unhex(v))
    if k == "c": return "(RChar %s)" % coq_bytes(unhex(v))
    if k == "x": return "(RExpr %s)" % coq_bytes(unhex(v))
    if k == "E": return "(RErrItem %s)" % coq_error(v)
    if k in "HQB": return "(RRadix %d %s)" % ({"H": 16, "Q": 8, "B": 2}[k], v)
    if k == "l": return "(RList %s)" % coq_list([] if v == "-" else ["(Response.RInt %s)" % coq_Z(int(x)) for x in v.split(",")])
    if k == "X": return "(RFailing %s)" % coq_Z(int(v))
    raise ValueError(it)


PTY = {"i8": "PInt I8", "u8": "PInt U8", "i16": "PInt I16", "u16": "PInt U16", "i32": "PInt I32", "u32": "PInt U32", "i64": "PInt I64",
       "u64": "PInt U64", "isize": "PInt Isize", "usize": "PInt Usize", "f32": "PFloat F32", "f64": "PFloat F64", "bool": "PBool",
       "bytes": "PBytes BBytes", "str": "PBytes BStr", "arb": "PBytes BArb", "chr": "PBytes BChr", "expr": "PBytes BExpr"}


def coq_ops(ops):
    t = []
    for o in ops:
        k, v = o[0], o[1:]
        if k in "roRO":
            rq, sw = ("true" if k in "rR" else "false", "true" if k in "RO" else "false")
            if v:
                if v[1:] not in PTY: raise ValueError("typed pull %s is implementation-only" % v)
                t.append("Scripted.SPullT %s %s (%s)" % (rq, sw, PTY[v[1:]]))
            else:
                t.append("Scripted.SPull %s %s" % (rq, sw))
        elif k == "h": t.append("Scripted.SHdr %s" % coq_bytes(unhex(v)))
        elif k == "d": t.append("Scripted.SData %s" % coq_item(v))
        elif k == "F": t.append("Scripted.SFail %s" % coq_error(v))
        elif k == "K": t.append("Scripted.SRetOk")
        elif k == "N": t.append("Scripted.SRetFinish")
        else: raise ValueError(o)
    return coq_list(t)


def coq_tree(sub, scripts):
    out = []
    for c in sub:
        if c[0] == "L":
            e, q = scripts.get(c[3], ([], []))
            out.append("Leaf %s %s (scripted %d %s %s)" % (coq_bytes(c[1]), "true" if c[2] else "false", c[3], coq_ops(e), coq_ops(q)))
        else:
            out.append("Branch %s %s %s" % (coq_bytes(c[1]), "true" if c[2] else "false", coq_tree(c[3], scripts)))
    return coq_list(out)


def parse_case(line):
    """inverse of case_line"""
    f = line.split(" ")
    cap = f[1]
    scripts = {}
    if f[3] != "-":
        for sc in f[3].split("+"):
            i, rest = sc.split(":", 1)
            e, q = rest.split("/")
            scripts[int(i)] = ([o for o in e.split(".") if o and o != "-"], [o for o in q.split(".") if o and o != "-"])
    pos = [0]
    s = f[2] if f[2] != "-" else ""

    def children():
        out = []
        while pos[0] < len(s) and s[pos[0]] != ")":
            kind = s[pos[0]]; pos[0] += 1
            d = False
            if s[pos[0]] == "d": d = True; pos[0] += 1
            st = pos[0]
            while s[pos[0]] in "0123456789abcdef-": pos[0] += 1
            name = unhex(s[st:pos[0]])
            if kind == "L":
                pos[0] += 1; st = pos[0]
                while s[pos[0]].isdigit(): pos[0] += 1
                out.append(("L", name, d, int(s[st:pos[0]])))
            else:
                pos[0] += 1
                sub = children()
                pos[0] += 1
                out.append(("B", name, d, sub))
            pos[0] += 1
        return out
    sub = children()
    return cap, sub, scripts, [unhex(m) for m in f[4:]]


def coq_term(line):
    cap, sub, scripts, msgs = parse_case(line)
    capt = "None" if cap == "v" else "(Some %s%%nat)" % cap
    return "run_tree %s %s %s" % (capt, coq_tree(sub, scripts), coq_list([coq_bytes(m) for m in msgs]))
