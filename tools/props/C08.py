"""C08 — float, boolean and keyword parameters convert to the exact denoted value."""
from common import *
import numlib
from fractions import Fraction as Fr

PID = "C08"
TARGETS = ["Run.vo", "Conv_proofs.vo", "Float_proofs.vo", "NonVacuous/C08.vo"]
IMPORTS = "From VF Require Import Base Show Gen_Errors Lexer Response Conv Tree Scripted Run."
import vlib
ALLOWED_AXIOMS = sorted(vlib.FLOCQ_AXIOMS)      # Flocq real-number development: the four standard-library axioms (DESIGN 4)
PROFILES = ["debug", "release"]
RULE = ("f32 and f64: every spelling of zero, halfway points between adjacent floats at many exponents (exact decimal expansion) and "
        "their neighbours 1e-20..1e-60 (relative) to either side, subnormal boundaries, powers of two, 17..40-digit mantissas, "
        "exponents -400..+400 and far beyond (1e4000, 1e-99999999999), values around MAX; bit pattern compared with the model "
        "(dec2sf) AND with an independent exact-rational round-to-nearest-even in Python — this is the per-case validation of the "
        "lexical-core assumption.  Keywords INFinity/NINFinity/NAN/MAXimum/MINimum in short and long form, any case, and near "
        "misses (INF1, INFI, MAXIMUMM...).  Booleans: ON/OFF any case, numerics in every spelling incl. 0.4/0.5/-0.5/1e30/1e400.  "
        "Every (target type, data element kind) pair of the accept table incl. non-UTF-8 blocks for &str.  Debug and release.  "
        "non-trivial = not rejected")
ASSUMPTIONS = ["lexical-core 0.8.5 parse::<f32|f64> is specified, not modelled: correctly rounded value (validated per case here, theorem about the reference dec2sf)"]
MISMATCH_WHY = "conversion result differs from the proved model (C08)"
COQTY = {"f32": "CFloat F32", "f64": "CFloat F64", "bool": "CBool", "bytes": "CBytes BBytes", "str": "CBytes BStr", "arb": "CBytes BArb",
         "chr": "CBytes BChr", "expr": "CBytes BExpr"}
COQTY.update({k: "CInt " + v for k, v in {"i8": "I8", "u8": "U8", "i16": "I16", "u16": "U16", "i32": "I32", "u32": "U32", "i64": "I64", "u64": "U64",
                                           "isize": "Isize", "usize": "Usize"}.items()})
KW = [b"INF", b"INFinity", b"infinity", b"inf", b"InFiNiTy", b"NINF", b"NINFinity", b"ninfinity", b"NAN", b"nan", b"MAX", b"MAXimum", b"maximum", b"MIN", b"MINimum", b"min",
      b"INF1", b"NINF1", b"NAN1", b"MAX1", b"minimum1", b"INFI", b"INFINIT", b"INFINITYY", b"NA", b"NANN", b"MA", b"MAXI", b"MINIMU", b"DEF", b"UP", b"ON", b"OFF", b"INF2", b"INF01", b"INVALID", b"NANa", b"NAN_", b"NANumber", b"INFx", b"MAXa", b"MINIMUMa", b"NINFa", b"INFINITYa"]
ELEMS = [b"ABC", b"ON", b"1", b"-1.5e3", b"1 V", b"2.5 KHZ", b"#HFF", b"#B101", b"'str'", b"\"s\"\"q\"", b"#13abc", b"#12\xc3\xa9", b"#12\xff\xfe", b"#14\xf0\x9f\x98\x80",
         b"#13\xed\xa0\x80", b"#12\xc0\xaf", b"#10", b"(1,2)", b"(@1!2)", b"''", b"MAX", b"NAN", b"0", b"#13\xe2\x82\xac", b"#12\xe2\x82"]
BOOLS = [b"ON", b"on", b"On", b"oN", b"OFF", b"off", b"Off", b"ONN", b"O", b"OF", b"TRUE", b"1", b"0", b"-1", b"2", b"0.0", b"-0.0", b"0.4", b"0.5", b"-0.5", b"-0.4", b"0.49999",
         b".5", b"4E-1", b"1e-5", b"1e30", b"-1e30", b"1e400", b"-1e400", b"1e-400", b"00", b"+0", b"0e5", b"100", b"0.6", b"-.25", b"1 V", b"#H1", b"'ON'", b"(1)",
         b"ON1", b"OFF1", b"on1", b"off1", b"ON2", b"ON01", b"ON_", b"OFFF", b"OOFF", b"N", b"FF", b"ONE", b"1E-1", b"4E-1", b"-4E-1", b"49.9E-2", b"3.E-1", b"12E-400",
         b"5E-1", b"5e-1", b"0.5E0", b"05E-1", b"1E0", b"1E-0", b"0E0", b"0.1E1", b"0.04E1", b"0.05E1", b"10E-2", b"50E-2", b"500E-3", b"499E-3"]


def mk(ty, lit, kind):
    return {"line": "conv %s %s" % (ty, hexs(lit)), "ty": ty, "lit": lit, "kind": kind}


def entry_points():
    """the same conversions reached through the library's typed parameter pulls — Parameters::next_data::<T> and
    next_optional_data::<T> — in a command handler: a wrong element must fail the command through either entry"""
    import treegen
    out = []
    for ty in ("f32", "f64", "bool", "str", "bytes", "arb", "chr", "expr"):
        sub = [("L", b"REQ", False, 1), ("L", b"OPT", False, 2)]
        sc = {1: (["r:" + ty, "r:" + ty], ["r:" + ty, "di1"]), 2: (["o:" + ty, "o:" + ty], ["o:" + ty, "di2"])}
        msgs = [h + b" " + a for h in (b"REQ", b"OPT", b"REQ?", b"OPT?") for a in
                (b"1,2", b"ON,OFF", b"'x','y'", b"ZZZ", b"1,ZZZ", b"#H10", b"(1)", b"(@1)", b"2.5 V", b"#11", b"1,#11", b"MAYBE", b"'ON'", b"ABC,DEF", b"1e400", b"")]
        for i in range(0, len(msgs), 16):
            out.append({"line": treegen.case_line("v", sub, sc, msgs[i:i + 16]), "ty": ty, "lit": b"", "kind": "entry"})
    return out


def corpus():
    out = [mk("f32", b"1.000000059604644775390625000000001", "float"), mk("f32", b"340282356779733661637539395458142568447.9", "float"),
           mk("f32", b"1.00000005960464477539062499999999", "float"), mk("f64", b"0.1", "float"), mk("f64", b"2.4703282292062327e-324", "float"),
           mk("f64", b"2.4703282292062328e-324", "float"), mk("f64", b"1.7976931348623158e308", "float"), mk("f64", b"1.7976931348623159e308", "float"),
           mk("bool", b"0.0", "bool"), mk("bool", b"1e30", "bool"), mk("bool", b"0.4", "bool"), mk("expr", b"(1,2)", "elem"), mk("expr", b"#13abc", "elem"),
           mk("bool", b"0.49999999", "bool"), mk("bool", b"-0.499999999", "bool"), mk("bool", b"49999999E-8", "bool"), mk("bool", b"0.50000001", "bool"), mk("bool", b"0.4999999999999999999999", "bool")]
    return out + entry_points()


KW = KW + [x for k in (b"INFinity", b"NINFinity", b"NAN", b"MAXimum", b"MINimum") for x in keyword_near_misses(k)]


def generate(rng, tier):
    nr = 300 if tier == "quick" else 6000
    out = []
    for ty in ("f32", "f64"):
        for lit in numlib.float_literals(rng, ty, nr): out.append(mk(ty, lit, "float"))
        for k in KW: out.append(mk(ty, k, "kw"))
    for b in BOOLS: out.append(mk("bool", b, "bool"))
    for _ in range(60 if tier == "quick" else 600):
        out.append(mk("bool", rng.choice(numlib.ZEROS + numlib.GENERAL).encode(), "bool"))
    for ty in COQTY:
        for e in ELEMS: out.append(mk(ty, e, "elem"))
    return out


def harness_line(c): return c["line"]


def case_of_line(l):
    f = l.split(" ")
    if f[0] == "tree": return {"line": l, "ty": "", "lit": b"", "kind": "entry"}
    return mk(f[1], unhex(f[2]), "float" if f[1] in ("f32", "f64") and numlib.literal_value(unhex(f[2])) else "other")


def coq_term(c):
    if c["kind"] == "entry":
        import treegen
        return treegen.coq_term(c["line"])
    return "run_conv (%s) %s" % (COQTY[c["ty"]], coq_bytes(c["lit"]))
def obs(s): return s


def impl_oracle(c, r):
    if r is None: return "no result from harness"
    if r.startswith(("PANIC", "CRASH", "NOT-RUN", "HANG")): return "conversion panicked / died: " + r[:100]
    if c["kind"] == "entry": return None
    if c["kind"] == "float":
        lv = numlib.literal_value(c["lit"])
        if lv is None: return None
        # skip astronomically large exponents in the exact oracle (the model still covers them)
        s = c["lit"].decode().lower()
        if "e" in s and abs(int(s.split("e")[1])) > 5000:
            return None
        exp = numlib.float_bits(numlib.rn_float(lv[0], lv[1], c["ty"]), c["ty"])
        want = "F%0*x" % (8 if c["ty"] == "f32" else 16, exp)
        if r != want: return "literal %s must convert to the correctly rounded %s %s, implementation returned %s" % (c["lit"].decode()[:60], c["ty"], want, r)
    if c["kind"] == "bool" and r.startswith("B"):
        lv = numlib.literal_value(c["lit"])
        if lv is not None:
            want = "B1" if abs(lv[0]) >= Fr(1, 2) else "B0"
            # either neighbour at an exact tie is not an issue for 0.5 (rounds away from zero)
            if r != want and abs(abs(lv[0]) - Fr(1, 2)) > Fr(1, 10 ** 15): return "boolean %s must be %s" % (c["lit"].decode(), want)
    return None


def nontrivial(c, impl):
    return impl is not None and not impl.startswith("E") and c["kind"] != "entry"


def distribution(cases, impl):
    d = {"float_literals": 0, "keywords": 0, "booleans": 0, "accept_table_pairs": 0, "accepted": 0, "rejected": 0, "infinities": 0, "subnormal_or_zero": 0}
    d["entry_point_cases"] = sum(1 for c in cases if c["kind"] == "entry")
    for c, r in zip(cases, impl):
        if c["kind"] == "entry": continue
        d[{"float": "float_literals", "kw": "keywords", "bool": "booleans", "elem": "accept_table_pairs", "other": "accept_table_pairs"}[c["kind"]]] += 1
        if r and r.startswith("E"): d["rejected"] += 1
        else: d["accepted"] += 1
        if r in ("F7f800000", "Fff800000", "F7ff0000000000000", "Ffff0000000000000"): d["infinities"] += 1
        if c["kind"] == "float" and r and r.startswith("F") and int(r[1:], 16) & (0x7f800000 if c["ty"] == "f32" else 0x7ff0000000000000) == 0: d["subnormal_or_zero"] += 1
    return d
