"""C15 — device-level histories (see statuslib.py)."""
from common import *
import statuslib
from statuslib import coq_term

PID = "C15"
TARGETS = ["Run.vo", "Contrib_proofs.vo", "ContribMeaning_proofs.vo", "NonVacuous/C15.vo"]
IMPORTS = "From VF Require Import Base Show Gen_Errors Status Contrib Run."
ALLOWED_AXIOMS = []
PROFILES = ["debug"]
ASSUMPTIONS = ["device wired as examples/minimal_scpi.rs (the library VecErrorQueue as error queue, scpi_stb/scpi_cls/scpi_opc); "
               "message -> operation mapping by the template table of tools/props/statuslib.py (op-level model; the "
               "byte-level path is covered by C02/C04/C06/C07)"]


def harness_line(c): return c
def case_of_line(l): return l
def obs(s): return statuslib.obs_fields(s, ('o', 'u', 'h'))   # C15 constrains the register sets and their responses only


def nontrivial(c, impl):
    return impl is not None and impl.count("|") >= 2 and "OK" in impl


def distribution(cases, impl):
    steps = sum(c.count("|") + 1 for c in cases)
    fails = sum(r.count(" - q=") for r in impl if r)
    return {"histories": len(cases), "steps": steps, "failed_messages": fails,
            "device_side_steps": sum(len([s for s in c.split(' ',1)[1].split('|') if s and s[0] in 'ct']) for c in cases)}

RULE = ("random interleavings (5..60 steps) of set_condition with arbitrary 16-bit values on both register sets, "
        "ENABle/PTRansition/NTRansition writes, all five queries, *CLS, STATus:PRESet, in short/long form and any "
        "case, as real messages; state of both registers dumped after every step; non-trivial = >= 3 steps with a successful message")


def corpus():
    m = statuslib.msg_step
    return [
        "dev " + "|".join([m([b"STAT:OPER:NTR 1;PTR 0"]), "co:9", "co:8", m([b"STAT:OPER:COND?;EVEN?;EVEN?"])]),
        "dev " + "|".join([m([b"STAT:QUES:ENAB 65535;ENAB?;PTR?;NTR?"]), "cq:65535", m([b"STAT:QUES?"]), m([b"STAT:QUES:COND?"])]),
        "dev " + "|".join(["co:516", m([b"*CLS"]), m([b"STAT:OPER?"]), "cq:516", m([b"*CLS"]), m([b"STAT:QUES?"])]),
        "dev " + "|".join([m([b"STAT:OPER:PTR 0;NTR 0"]), "co:257", m([b"STAT:OPER:PTR 256"]), "co:257", m([b"STAT:OPER:EVEN?;COND?"])]),
        "dev " + "|".join([m([b"STAT:OPER:PTR?;NTR?;ENAB?"]), m([b"STAT:PRES"]), m([b"STAT:OPER:PTR?;NTR?;ENAB?"])]),
        "dev " + "|".join([m([b"STAT:OPER:ENAB 32768;NTR 32769;PTR 40000"]), m([b"STAT:OPER:ENAB?;NTR?;PTR?"]), "co:32768",
                            m([b"STAT:OPER?"]), "co:0", m([b"STAT:OPER:EVEN?"]), m([b"STAT:PRES"]), m([b"STAT:OPER:ENAB?;NTR?;PTR?;COND?"])]),
    ]


def generate(rng, tier):
    n = 250 if tier == "quick" else 4000
    return [statuslib.gen_history(rng, rng.choice([5, 10, 20, 40, 60]) if tier == "thorough" else rng.choice([4, 8, 16, 30]),
                                  {"reg": 5, "cond": 4, "common": 1, "fail": 0.2},
                                  common_pool=[b"*CLS", b"*CLS", b"STAT:PRES", b"STATus:PRESet", b"*RST", b"*WAI", b"*ESE 3", b"*OPC?"]) for _ in range(n)]
