"""Inputs at and beyond the internal limits of the implementation: element lengths around 12/13 (mnemonics, character
data, suffixes), 255/256 (8-bit counters), 65535/65536 (16-bit counters); counts of data elements and response items
around 255/256; long literals; long extended error texts.  Shared by several property modules."""

LENS_QUICK = [11, 12, 13, 14, 254, 255, 256, 257, 260, 267, 268, 269, 300, 511, 512, 513, 524, 525]
LENS_THOROUGH = LENS_QUICK + [1023, 1024, 1100, 1101, 1200, 4096, 65535, 65536, 65537, 65540, 65548, 65549]


def lens(tier): return LENS_QUICK if tier == "quick" else LENS_THOROUGH


def long_element_messages(n, head=b"A", tail=b""):
    """messages in which ONE element has length n (or about n); `tail` is appended (e.g. b";B" to see what runs next)"""
    A = lambda c, k: bytes([c]) * k
    out = [
        head + b" " + A(65, n) + tail,                          # character data
        head + b" " + A(97, n) + b" " + tail,                   # ... followed by white space
        head + b" 1" + A(86, n) + tail,                         # suffix glued to the number
        head + b" 1 " + A(86, n) + tail,                        # suffix after white space
        head + b" 1.5" + b"V" * n + b",2" + tail,
        A(65, n) + tail,                                        # header mnemonic
        head + b":" + A(66, n) + b"?" + tail,
        b"*" + A(67, n) + tail,
        head + b" '" + A(120, n) + b"'" + tail,                 # string
        head + b" (" + A(49, n) + b")" + tail,                  # expression
        head + b" " + A(49, n) + tail,                          # digits
        head + b" ." + A(48, n) + b"1" + tail,
        head + b" 1e" + A(48, max(n - 1, 0)) + b"1" + tail,     # zero-padded exponent
        head + b" 1E+" + A(48, max(n - 1, 0)) + b"3" + tail,
        head + b" " + A(48, n) + b"42" + tail,                  # leading zeros
        head + b" #H" + A(48, n) + b"1F" + tail,
        head + b" " + A(32, n) + b"1" + tail,                   # white space runs
        head + A(32, n) + b"1" + A(32, n) + tail,
    ]
    if n <= 999999999:
        out.append(head + b" #" + str(len(str(n))).encode() + str(n).encode() + A(120, n) + tail)   # definite block of n bytes
    return out


def class_limit_messages(head=b"A", tail=b""):
    """the 12-character limit of mnemonics, character data and suffixes for EVERY way such an element can start and
    continue (suffix: letter or `/` first, then letters, digits, `-` `/` `.`; mnemonic / character data: letter first, then
    letters, digits, `_`; common command: `*` first, which does not count), at total lengths 11, 12, 13, 14"""
    out = []
    for n in (11, 12, 13, 14):
        for first, fill in ((b"/", b"S"), (b"/", b"."), (b"V", b"/"), (b"V", b"-"), (b"V", b"."), (b"V", b"2"), (b"/", b"2")):
            suf = first + (fill * n)[:n - 1]
            out += [head + b" 1 " + suf + tail, head + b" 2.5E3" + suf + tail, head + b" 1" + suf + b" " + tail]
        for fill in (b"_", b"9", b"a"):
            w = b"C" + (fill * n)[:n - 1]
            out += [head + b" " + w + tail, w + tail, w + b"?" + tail, head + b":" + w + tail, b"*" + w + tail, b"*" + w + b"?" + tail]
    return out


def trailing_ws_messages(head=b"A"):
    """an element of legal length followed by white space / terminator so that element + layout exceeds the limit"""
    out = []
    for name in (b"THERMOCOUPLE", b"TEMPERATURE", b"ABCDEF", b"A"):
        for ws in (b"\n", b"\r\n", b"  ", b" " * 7, b"\t\t ", b" " * 12, b" " * 300):
            out += [head + b" " + name + ws, head + b" " + name + ws + b";B", head + b" " + name + ws + b",1", head + b" 1 " + name[:12] + ws + b";B"]
    return out


def _hex(b): return b.hex() if b else "-"


def tree_stream(tier):
    """`tree` case lines (harness kind tree / Coq run_tree) on one fixed tree that has handlers of every temperament:
    required / optional raw pulls, typed pulls, handlers that SWALLOW parameter errors and go on, handlers that pull or
    emit hundreds of elements, handlers that fail with long extended texts — fed with long elements, lexical errors in
    data position followed by further units, 255/256/257/300 parameters, indefinite blocks, rare white space"""
    import treegen
    big = tier != "quick"
    many = 300
    sub = [("L", b"A", False, 1), ("L", b"B", False, 2), ("L", b"NAME", False, 3), ("L", b"SW", False, 4), ("L", b"MANY", False, 5),
           ("L", b"BIG", False, 7), ("L", b"SWR", False, 8), ("L", b"HDRS", False, 9),
           ("B", b"CALCulate", False, [("B", b"SELected", True, [("B", b"MARKer", True, [("B", b"FUNCtion", True, [("B", b"RESult", True, [("B", b"DEEP", True, [("L", b"VALue", True, 10)])])])])])]),
           ("B", b"CONFigure", False, [("L", b"ONLY", True, 11), ("B", b"SCALar", True, [("L", b"VOLTage", True, 12)])]),
           # an ANONYMOUS default leaf (as Branch!{name => handler; ..} generates) beside a default branch: a handler that
           # returns -113 itself must end the message, the unit is not dispatched a second time into the default branch
           ("B", b"MEASure", False, [("L", b"", True, 13), ("B", b"SCALar", True, [("L", b"VOLTage", True, 14)])]),
           # prefix family: the short form of an earlier sibling is a proper prefix of a later one's
           ("L", b"CALibration", False, 15), ("L", b"SENSe", False, 16), ("L", b"SENSOr", False, 17)]
    sc = {1: (["r"], ["r", "di1"]), 2: (["o"], ["o", "di2"]), 3: (["r:chr"], ["r:chr", "di3"]),
          4: (["O", "O", "O"], ["O", "O", "di4"]),                       # swallows every parameter error and goes on
          5: (["o"] * many, ["o"] * many + ["di5"]),                    # pulls up to 300 parameters
          7: ([], ["di1"] * many),                                       # emits 300 data elements
          8: (["R", "O"], ["R", "di8"]),
          9: ([], ["h" + _hex(b"CONFIGURATION"), "h" + _hex(b"V"), "di1"]),
          10: ([], ["di10"]), 11: ([], ["Fp-113"]), 12: ([], ["di12"]),
          13: (["Fp-113"], ["Fp-113"]), 14: (["o"], ["o", "di14"]), 15: (["o"], ["di15"]), 16: (["o"], ["di16"]), 17: (["o"], ["di17"])}
    msgs = []
    for n in lens(tier):
        if n > 5000:          # the 16-bit limits: character data and suffix only (the Coq side reads the bytes as a list literal)
            if n in (65536, 65540): msgs += [b"A " + b"A" * n + b";B 1", b"A 1" + b"V" * n + b";B 1", b"SW " + b"A" * n + b";B 2"]
            continue
        msgs += long_element_messages(n, head=b"A", tail=b";B 1")[:16] + long_element_messages(n, head=b"NAME", tail=b";B")[:5] + long_element_messages(n, head=b"SW", tail=b";B 2")[:16]
    msgs += trailing_ws_messages(b"A") + trailing_ws_messages(b"NAME") + class_limit_messages(b"A", b";B 1") + class_limit_messages(b"SW", b";B 2")
    # lexical errors in data position, swallowed or not, with further units behind them
    for h in (b"SW", b"SWR", b"A", b"B"):
        for bad in (b"'abc", b'"abc', b"(1,2", b"(;5,6", b"#", b"#H", b"1E", b"1,#H", b"1,'x'y", b"@", b"\x80", b"1,;B 5", b"1,", b"ABCDEFGHIJKLM", b"#15abc", b"1 2", b"(1;B 2)", b"1,*RST", b"1, *IDN?"):
            msgs += [h + b" " + bad + b";B", h + b"? " + bad + b";B?;A 1", h + b" " + bad]
    # many parameters / many response items
    for k in (1, 2, 254, 255, 256, 257, 299, 300, 301):
        args = b",".join(b"%d" % (i % 10) for i in range(k))
        msgs += [b"MANY " + args, b"MANY? " + args + b";B?", b"MANY " + args + b";B 1"]
    msgs += [b"BIG?", b"B?;BIG?", b"BIG?;B?", b"HDRS?", b"B?;HDRS?"]
    # default nodes nested several levels deep; default leaf beside a default branch
    msgs += [b"CALC?", b"CALC:SEL?", b"CALC:VAL?", b"CALC:DEEP?", b"CALC:SEL:MARK:FUNC:RES:DEEP:VAL?", b"CALC 1", b"B?;CALC?", b"CONF", b"CONF?", b"B?;CONF?", b"CONF:SCAL?", b"B?;CONF:ONLY?", b"CONF:VOLT?"]
    msgs += [b"MEAS", b"MEAS?", b"B?;MEAS?;B?", b"MEAS 1,2", b"A 1;:MEAS;B 1", b"MEAS:VOLT?", b"MEAS:SCAL:VOLT?", b"B?;:MEAS;:MEAS:VOLT?",
             b"CAL?", b"CALC?;CAL?", b"CALIBRATION?", b"CALCULATE?", b"calc:val?", b"SENS?", b"SENSO?", b"SENSE?;SENSOR?", b"senso?;sens?"]
    # indefinite blocks, rare white space after `?`
    msgs += [b"A #0ab\r\n", b"A #0\x34\x12\xff\x7f\x0d\x0d\n", b"A #0ab\n;B", b"A?\tMAX", b"A?\x0c1", b"A?\t1;B?", b"B?\r", b"A\t1"]
    out = []
    for i in range(0, len(msgs), 12):
        out.append(treegen.case_line("v", sub, sc, msgs[i:i + 12]))
    # long extended error texts returned by handlers
    for n in (10, 200, 239, 240, 241, 242, 254, 255, 256, 300, 1000):
        ext = _hex(b"e" * n)
        sc2 = {1: (["Fp-200x" + ext], ["Fc105:" + _hex(b'Channel "AUX" overload') + "x" + ext]), 2: ([], ["dEp-200x" + ext, "dEp-100"])}
        out.append(treegen.case_line("v", [("L", b"A", False, 1), ("L", b"B", False, 2)], sc2, [b"A", b"A?", b"B?", b"B?;A"]))
    return out
