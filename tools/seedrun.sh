#!/bin/sh
# tools/seedrun.sh <seeded-dir-or-patch> <Cxx> [Cxx...] : apply a seeded change to /repo, run checks, undo it.
P="$1"; shift
[ -d "$P" ] && P="$P/patch.diff"
cd /verif
if ! git -C /repo diff --quiet; then echo "/repo is dirty"; exit 2; fi
git -C /repo apply "$P" || { echo "patch does not apply"; exit 2; }
for c in "$@"; do ./check "$c" > /tmp/seedrun_$c.log 2>&1; rc=$?; echo "== $c exit=$rc"; grep -E "^VIOLATION|^KNOWN|why:" /tmp/seedrun_$c.log | head -6; done
git -C /repo checkout -- .
