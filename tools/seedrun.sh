#!/bin/sh
# tools/seedrun.sh <seeded-dir-or-patch> <Cxx> [Cxx...] : apply a seeded change to /repo, run checks, undo it.
P="$1"; shift
[ -d "$P" ] && P="$P/patch.diff"
P="$(readlink -f "$P")"
cd /verif
if ! git -C /repo diff --quiet || ! git -C /repo diff --cached --quiet; then echo "/repo is dirty"; exit 2; fi
if ! git -C /repo apply "$P" 2>/dev/null; then
  # made against an earlier commit: three-way merge against the recorded blobs
  git -C /repo apply --3way "$P" >/dev/null 2>&1 || { echo "patch does not apply"; git -C /repo reset -q --hard; exit 2; }
  git -C /repo reset -q     # keep the change in the working tree only
fi
for c in "$@"; do VERIF_EVIDENCE_DIR=/tmp/seed_evidence ./check "$c" > /tmp/seedrun_$c.log 2>&1; rc=$?; echo "== $c exit=$rc $(grep -cE '^VIOLATION' /tmp/seedrun_$c.log) violation line(s)"; grep -E "^VIOLATION|^KNOWN" /tmp/seedrun_$c.log | head -2; done
git -C /repo checkout -- .
git -C /repo clean -fdq -- scpi scpi-contrib scpi-derive    # files a patch created
