#!/usr/bin/env python3
"""seed_import6.py <Cxx> : import round-6 changes /tmp/mut6_<Cxx>/out/m*/ as seeded/<Cxx>-q<k> (crate and optional
`features:` line taken from notes.md)."""
import os, re, subprocess, sys, json, shutil
pid = sys.argv[1]
wt = f"/tmp/mut6_{pid}"
for mk in sorted(os.listdir(os.path.join(wt, "out"))):
    d = os.path.join(wt, "out", mk)
    if not os.path.exists(os.path.join(d, "patch.diff")): continue
    notes = open(os.path.join(d, "notes.md")).read()
    m = re.search(r"crate:\s*`?(scpi-contrib|scpi)`?", notes); crate = m.group(1) if m else "scpi"
    f = re.search(r"features:\s*`?([a-z,]+)`?", notes)
    extra = ["--features", f.group(1)] if f else []
    r = subprocess.run([sys.executable, os.path.join(os.path.dirname(__file__), "seed_confirm.py"), "/tmp/" + os.path.basename(wt), d, crate] + extra,
                       stdout=subprocess.PIPE, stderr=subprocess.STDOUT, text=True)
    ok = r.returncode == 0
    print(pid, mk, "CONFIRMED" if ok else "REJECTED\n" + r.stdout[-600:])
    if not ok: continue
    dst = f"/verif/seeded/{pid}-s{mk[1:]}"
    os.makedirs(dst, exist_ok=True)
    for fn in ("patch.diff", "demo.rs", "notes.md"): shutil.copyfile(os.path.join(d, fn), os.path.join(dst, fn))
    need = " ".join(notes.split("\n", 1)[1].split())[:300]
    json.dump({"property": pid, "needs_to_manifest": need, "demo_goes_in": crate + "/tests/" + (" (--features %s)" % f.group(1) if f else ""),
               "confirmed_by": "tools/seed_confirm.py in scratch worktree " + wt + ": " + " | ".join(l for l in r.stdout.strip().split("\n") if ":" in l or l == "CONFIRMED"),
               "round": 6, "checks_run": [], "detected_by": []}, open(os.path.join(dst, "meta.json"), "w"), indent=1)
