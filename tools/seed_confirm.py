#!/usr/bin/env python3
"""seed_confirm.py <worktree> <mdir> <crate:scpi|scpi-contrib> [--features X]
Confirms a seeded change in a scratch worktree (never /repo): (1) patch applies, (2) whole
existing suite green with it, (3) demo fails with it, (4) demo passes without it."""
import os, shutil, subprocess, sys
wt, mdir, crate = sys.argv[1], sys.argv[2], sys.argv[3]
feat = sys.argv[5] if len(sys.argv) > 5 and sys.argv[4] == "--features" else None
env = dict(os.environ, CARGO_NET_OFFLINE="true", CARGO_TARGET_DIR=os.path.join(wt, "target"))
def sh(cmd, **kw):
    return subprocess.run(cmd, cwd=wt, env=env, stdout=subprocess.PIPE, stderr=subprocess.STDOUT, text=True, **kw)
assert wt.startswith("/tmp/"), "scratch worktrees only"
sh(["git", "checkout", "--", "."])
demo_dst = os.path.join(wt, crate, "tests", "zz_seed_demo.rs")
def demo():
    shutil.copyfile(os.path.join(mdir, "demo.rs"), demo_dst)
    cmd = ["cargo", "test", "-p", crate, "--offline", "--test", "zz_seed_demo"]
    if feat: cmd += ["--features", feat]
    elif crate == "scpi-contrib": cmd += ["--features", "alloc"]
    r = sh(cmd)
    os.remove(demo_dst)
    return r
r = sh(["git", "apply", os.path.join(mdir, "patch.diff")]); assert r.returncode == 0, "patch does not apply: " + r.stdout
r = sh(["cargo", "test", "--workspace", "--no-fail-fast", "--offline"])
suite_ok = r.returncode == 0
print("suite with change:", "GREEN" if suite_ok else "RED")
if not suite_ok: print(r.stdout[-1500:])
r = demo(); demo_with = r.returncode
print("demo with change:", "FAILS (expected)" if demo_with != 0 else "passes (NOT expected)")
sh(["git", "checkout", "--", "."])
r = demo(); demo_without = r.returncode
print("demo without change:", "passes (expected)" if demo_without == 0 else "FAILS (NOT expected)")
if demo_without != 0: print(r.stdout[-1500:])
ok = suite_ok and demo_with != 0 and demo_without == 0
print("CONFIRMED" if ok else "REJECTED")
sys.exit(0 if ok else 1)
