(* C14 — Every error code maps to the ESR bit of its IEEE 488.2 class. *)
From VF Require Import Base Gen_Errors Gen_Esr ErrTable ErrSpec ErrTable_proofs.
Open Scope Z_scope.

(* for every 16-bit number (indeed every integer) *)
Theorem C14_esr_class : forall c, in_i16 c -> esr_mask c = class_bit c.
Proof. intros c _. exact (esr_mask_class_bit c). Qed.

(* custom errors carry an arbitrary i16 and take the same route *)
Theorem C14_custom_class : forall c msg ext, in_i16 c ->
  error_esr_mask (mkError c (Some msg) ext) = class_bit c.
Proof. intros c msg ext _. exact (esr_mask_class_bit c). Qed.

(* looking a standard code up yields the error that reports that same code *)
Theorem C14_lookup_roundtrip : forall c v, get_error c = Some v -> get_code v = c.
Proof. exact lookup_roundtrip. Qed.

(* and every standard error of the table is found under its own code *)
Theorem C14_every_std_error_found : forall c m, In (c, m) std_errors -> get_error c = Some (c, m).
Proof. exact every_std_error_found. Qed.

Print Assumptions C14_esr_class.
Print Assumptions C14_custom_class.
Print Assumptions C14_lookup_roundtrip.
Print Assumptions C14_every_std_error_found.
