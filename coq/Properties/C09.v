(* C09 — Response data is well-formed and denotes exactly the value that was formatted
   Statements only: each theorem is closed by `exact` of a lemma proved in the *_proofs.v files. *)
From VF Require Import Base Gen_Errors Gen_Consts ErrTable Fmt Lexer Grammar Response Conv Fmt_proofs ResponseDecoder ResponseDecoder_proofs.
Open Scope N_scope.

Theorem C09_int_text : forall n, response_text (RInt n) = (fmt_Z n, None).
Proof. exact int_text. Qed.

Theorem C09_fmt_N_digits : forall n,
  forallb is_digit (fmt_N n) = true /\ fmt_N n <> [] /\ digits_val (fmt_N n) 0 = n.
Proof. exact fmt_N_digits. Qed.

Theorem C09_int_dec_rt : forall t n, (ity_min t <= n <= ity_max t)%Z ->
  tokenize_params (text (RInt n)) = Val [IOk (TDec (fmt_Z n))] /\ conv_int t (TDec (fmt_Z n)) = Val (Ok n).
Proof. exact int_dec_rt. Qed.

Theorem C09_radix_rt : forall r n t, (r = 16 \/ r = 8 \/ r = 2)%N -> (n <= u64_max)%N -> (Z.of_N n <= ity_max t)%Z ->
  fmt_ok (RRadix r n) /\ tokenize_params (text (RRadix r n)) = Val [IOk (TNonDec n)]
  /\ conv_int t (TNonDec n) = Val (Ok (Z.of_N n)).
Proof. exact radix_rt. Qed.

Theorem C09_bool_rt : forall b,
  fmt_ok (RBool b) /\ tokenize_params (text (RBool b)) = Val [IOk (TDec [if b then 49 else 48]%N)]
  /\ conv_bool (TDec [if b then 49 else 48]%N) = Val (Ok b).
Proof. exact bool_rt. Qed.

Theorem C09_string_text : forall s, all_ascii s = true ->
  response_text (RStr s) = ((34 :: double_q 34 s ++ [34])%N, None).
Proof. exact string_text. Qed.

Theorem C09_string_non_ascii : forall s, all_ascii s = false ->
  response_text (RStr s) = ([], Some ExecutionError).
Proof. exact string_non_ascii. Qed.

Theorem C09_string_rt : forall s, all_ascii s = true ->
  tokenize_params (text (RStr s)) = Val [IOk (TString (double_q 34 s))] /\ undouble 34 (double_q 34 s) = s
  /\ conv_bytes BBytes (TString (double_q 34 s)) = Val (Ok (double_q 34 s)).
Proof. exact string_rt. Qed.

Theorem C09_string_exact_when_no_quote : forall s,
  forallb (fun b => negb (b =? 34)%N) s = true -> double_q 34 s = s.
Proof. exact string_exact_when_no_quote. Qed.

Theorem C09_block_text : forall p, (N.of_nat (length p) < 1000000000)%N ->
  response_text (RBlock p)
  = ((35 :: (48 + N.of_nat (length (fmt_N (N.of_nat (length p))))) :: fmt_N (N.of_nat (length p)) ++ p)%N, None).
Proof. exact block_text. Qed.

Theorem C09_block_too_long : forall p, (1000000000 <= N.of_nat (length p))%N ->
  response_text (RBlock p) = ([], Some ExecutionError).
Proof. exact block_too_long. Qed.

Theorem C09_block_rt : forall p, (N.of_nat (length p) < 1000000000)%N ->
  tokenize_params (text (RBlock p)) = Val [IOk (TBlock p)] /\ conv_bytes BArb (TBlock p) = Val (Ok p).
Proof. exact block_rt. Qed.

Theorem C09_char_rt : forall m, wf_mnemonic m = true ->
  fmt_ok (RChar m) /\ tokenize_params (text (RChar m)) = Val [IOk (TChar m)] /\ conv_bytes BChr (TChar m) = Val (Ok m).
Proof. exact char_rt. Qed.

Theorem C09_expr_rt : forall body, forallb expr_char_ok body = true ->
  fmt_ok (RExpr body) /\ tokenize_params (text (RExpr body)) = Val [IOk (TExpr body)]
  /\ conv_bytes BExpr (TExpr body) = Val (Ok body).
Proof. exact expr_rt. Qed.

Theorem C09_error_text : forall e, all_ascii (error_message e) = true ->
  response_text (RErrItem e)
  = (fmt_Z (ecode e) ++ (44 :: 34 :: double_q 34 (error_body e) ++ [34])%N, None).
Proof. exact error_text. Qed.

Theorem C09_error_rt : forall e, all_ascii (error_body e) = true ->
  tokenize_params (text (RErrItem e))
  = Val [IOk (TDec (fmt_Z (ecode e))); IOk TDataSeparator; IOk (TString (double_q 34 (error_body e)))]
  /\ undouble 34 (double_q 34 (error_body e)) = error_body e.
Proof. exact error_rt. Qed.

Theorem C09_list_empty : response_text (RList []) = ([], Some DeviceSpecificError).
Proof. exact list_empty. Qed.

Theorem C09_list_text : forall x xs, Forall fmt_ok (x :: xs) ->
  response_text (RList (x :: xs)) = (intercalate [44]%N (map text (x :: xs)), None).
Proof. exact list_text. Qed.

Theorem C09_int_list_rt : forall n ns,
  tokenize_params (text (RList (map RInt (n :: ns)))) =
  Val ((IOk (TDec (fmt_Z n))) :: flat_map (fun k => [IOk TDataSeparator; IOk (TDec (fmt_Z k))]) ns).
Proof. exact int_list_rt. Qed.

Theorem C09_response_decodes : forall units,
  units <> [] -> Forall (fun ds => ds <> [] /\ forallb decodable ds = true) units ->
  decode_response (emit_message units) = Some (map (flat_map items_of) units).
Proof. exact response_decodes. Qed.

Theorem C09_emit_message_text : forall units,
  units <> [] -> Forall (fun ds => ds <> [] /\ forallb decodable ds = true) units ->
  emit_message units = intercalate [59] (map unit_text units) ++ [10].
Proof. exact emit_message_text. Qed.

Theorem C09_unit_count_preserved : forall units,
  units <> [] -> Forall (fun ds => ds <> [] /\ forallb decodable ds = true) units ->
  exists dec, decode_response (emit_message units) = Some dec /\ length dec = length units.
Proof. exact unit_count_preserved. Qed.

Theorem C09_item_count_preserved : forall units,
  units <> [] -> Forall (fun ds => ds <> [] /\ forallb decodable ds = true) units ->
  exists dec, decode_response (emit_message units) = Some dec
    /\ map (@length item) dec = map (fun ds => list_sum (map n_elements ds)) units.
Proof. exact item_count_preserved. Qed.

Theorem C09_separators_inside_string_are_data : forall s, all_ascii s = true ->
  decode_response (emit_message [[RStr s]; [RInt 1]]) = Some [[IStr s]; [INum 1]].
Proof. exact separators_inside_string_are_data. Qed.

Theorem C09_separators_inside_block_are_data : forall p, N.of_nat (length p) < 1000000000 ->
  decode_response (emit_message [[RBlock p; RInt 2]]) = Some [[IBlock p; INum 2]].
Proof. exact separators_inside_block_are_data. Qed.

Theorem C09_decode_response_fuel : forall b fuel,
  (length b < fuel)%nat -> decode_from fuel b = decode_response b.
Proof. exact decode_response_fuel. Qed.

Print Assumptions C09_int_text.
Print Assumptions C09_fmt_N_digits.
Print Assumptions C09_int_dec_rt.
Print Assumptions C09_radix_rt.
Print Assumptions C09_bool_rt.
Print Assumptions C09_string_text.
Print Assumptions C09_string_non_ascii.
Print Assumptions C09_string_rt.
Print Assumptions C09_string_exact_when_no_quote.
Print Assumptions C09_block_text.
Print Assumptions C09_block_too_long.
Print Assumptions C09_block_rt.
Print Assumptions C09_char_rt.
Print Assumptions C09_expr_rt.
Print Assumptions C09_error_text.
Print Assumptions C09_error_rt.
Print Assumptions C09_list_empty.
Print Assumptions C09_list_text.
Print Assumptions C09_int_list_rt.
Print Assumptions C09_response_decodes.
Print Assumptions C09_emit_message_text.
Print Assumptions C09_unit_count_preserved.
Print Assumptions C09_item_count_preserved.
Print Assumptions C09_separators_inside_string_are_data.
Print Assumptions C09_separators_inside_block_are_data.
Print Assumptions C09_decode_response_fuel.
