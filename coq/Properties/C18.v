(* C18 — Unit suffixes scale by their SCPI multiplier; unknown suffixes are rejected
   Statements only: each theorem is closed by `exact` of a lemma proved in the *_proofs.v files. *)
From Coq Require Import QArith String.
From VF Require Import Base Gen_Errors Lexer Conv Gen_Suffix SuffixSpec Suffix Suffix_proofs.
Open Scope string_scope.

Theorem C18_suffix_table_ok : forallb table_ok suffix_tables = true.
Proof. exact suffix_table_ok. Qed.

Theorem C18_suffix_conversion_is_scpi : forall q base ents num suf u v, table_of q = Some (base, ents) ->
  lookup_suffix ents suf = Some u -> lit_Q num = Some v ->
  exists sp s l l', In (sp, u) ents /\ In s sp /\ bytes_eq_nocase suf s = true /\
    scpi_suffix q s = Some l' /\ lin_eqb l l' = true /\ conv_unit q (TDecSuffix num suf) = Ok (apply_lin l v).
Proof. exact suffix_conversion_is_scpi. Qed.

Theorem C18_lookup_sound : forall ents s u, lookup_suffix ents s = Some u ->
  exists sp, In (sp, u) ents /\ existsb (fun x => bytes_eq_nocase s x) sp = true.
Proof. exact lookup_sound. Qed.

Theorem C18_lookup_none : forall ents s, lookup_suffix ents s = None <->
  (forall sp u, In (sp, u) ents -> existsb (fun x => bytes_eq_nocase s x) sp = false).
Proof. exact lookup_none. Qed.

Theorem C18_unknown_suffix_rejected : forall q base ents num suf, table_of q = Some (base, ents) ->
  lookup_suffix ents suf = None -> conv_unit q (TDecSuffix num suf) = Err IllegalParameterValue.
Proof. exact unknown_suffix_rejected. Qed.

Theorem C18_non_numeric_rejected : forall q base ents tok, table_of q = Some (base, ents) ->
  (forall s, tok <> TDec s) -> (forall n s, tok <> TDecSuffix n s) -> conv_unit q tok = Err DataTypeError.
Proof. exact non_numeric_rejected. Qed.

Theorem C18_bare_number_in_base_unit : forall q base ents s v l, table_of q = Some (base, ents) ->
  lit_Q s = Some v -> uom_unit q base = Some l -> conv_unit q (TDec s) = Ok (apply_lin l v).
Proof. exact bare_number_in_base_unit. Qed.

Theorem C18_suffixed_number_value : forall q base ents num suf u v l, table_of q = Some (base, ents) ->
  lookup_suffix ents suf = Some u -> lit_Q num = Some v -> uom_unit q u = Some l ->
  conv_unit q (TDecSuffix num suf) = Ok (apply_lin l v).
Proof. exact suffixed_number_value. Qed.

Theorem C18_amplitude_classifies : forall q num s,
  conv_amplitude q (TDecSuffix num s) =
  if ends_with_nocase s [80; 75]%N then (AmpPeak, conv_unit q (TDecSuffix num (strip_end s 2)))
  else if ends_with_nocase s [80; 80]%N then (AmpPP, conv_unit q (TDecSuffix num (strip_end s 2)))
  else if ends_with_nocase s [82; 77; 83]%N then (AmpRms, conv_unit q (TDecSuffix num (strip_end s 3)))
  else (AmpNone, conv_unit q (TDecSuffix num s)).
Proof. exact amplitude_classifies. Qed.

Theorem C18_amplitude_plain : forall q tok, (forall n s, tok <> TDecSuffix n s) -> conv_amplitude q tok = (AmpNone, conv_unit q tok).
Proof. exact amplitude_plain. Qed.

Theorem C18_db_number_unchanged : forall q num suf u v l, lookup_suffix (log_table_of q) suf = Some u ->
  lit_Q num = Some v -> uom_unit q u = Some l -> conv_db q (TDecSuffix num suf) = DbLog v (apply_lin l 1).
Proof. exact db_number_unchanged. Qed.

Theorem C18_db_bare_number : forall q s v, lit_Q s = Some v -> conv_db q (TDec s) = DbNone v.
Proof. exact db_bare_number. Qed.

Print Assumptions C18_suffix_table_ok.
Print Assumptions C18_suffix_conversion_is_scpi.
Print Assumptions C18_lookup_sound.
Print Assumptions C18_lookup_none.
Print Assumptions C18_unknown_suffix_rejected.
Print Assumptions C18_non_numeric_rejected.
Print Assumptions C18_bare_number_in_base_unit.
Print Assumptions C18_suffixed_number_value.
Print Assumptions C18_amplitude_classifies.
Print Assumptions C18_amplitude_plain.
Print Assumptions C18_db_number_unchanged.
Print Assumptions C18_db_bare_number.
