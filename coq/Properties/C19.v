(* C19 — Channel lists and numeric lists parse to exactly the SCPI-denoted entries
   Statements only: each theorem is closed by `exact` of a lemma proved in the *_proofs.v files. *)
From VF Require Import Base Gen_Errors ErrTable Fmt Lexer Grammar Lists ListGrammar Lists_proofs.
Open Scope N_scope.

Theorem C19_num_entries : forall l, forallb wf_nl_entry l = true ->
  nlist_entries (render_nl l) = Val (map (fun e => IEntry (nl_denotes e)) l).
Proof. exact num_entries. Qed.

Theorem C19_chan_entries : forall l, forallb wf_cl_entry l = true ->
  clist_entries (render_cl l) = Some (Val (map (fun e => IEntry (cl_denotes e)) l)).
Proof. exact chan_entries. Qed.

Theorem C19_not_a_channel_list : forall expr, (forall c, expr <> 64%N :: c) -> clist_entries expr = None.
Proof. exact not_a_channel_list. Qed.

Theorem C19_spec_dims_ok : forall vals, wf_vals vals = true ->
  spec_values (render_spec vals) = Val (map Some vals) /\ sp_dim (spec_of vals) = length vals
  /\ count_bang (render_spec vals) = (length vals - 1)%nat.
Proof. exact spec_dims_ok. Qed.

Theorem C19_tuple_conv : forall vals, wf_vals vals = true -> (length vals <= 3)%nat ->
  spec_to_tuple (length vals) (spec_of vals) = Val (Ok vals).
Proof. exact tuple_conv. Qed.

Theorem C19_tuple_conv_wrong_dimension : forall vals k, wf_vals vals = true -> k <> length vals ->
  exists e, spec_to_tuple k (spec_of vals) = Val (Err e).
Proof. exact tuple_conv_wrong_dimension. Qed.

Theorem C19_spec_empty_dimension : forall a rest, wf_vals a = true ->
  spec_values (render_spec a ++ 33 :: 33 :: rest)%N = Val (map Some a ++ [None]).
Proof. exact spec_empty_dimension. Qed.

Theorem C19_nl_leading_comma : forall rest, exists e, nlist_entries (44 :: rest)%N = Val [IError e].
Proof. exact nl_leading_comma. Qed.

Theorem C19_nl_doubled_comma : forall l rest, l <> [] -> forallb wf_nl_entry l = true ->
  exists e, nlist_entries (render_nl l ++ 44 :: 44 :: rest)%N = Val (nl_ok l ++ [IError e]).
Proof. exact nl_doubled_comma. Qed.

Theorem C19_nl_missing_separator : forall l y rest, l <> [] -> forallb wf_nl_entry l = true ->
  (y = 45 \/ y = 43 \/ y = 32)%N ->
  exists e, nlist_entries (render_nl l ++ y :: rest) = Val (nl_ok l ++ [IError e]).
Proof. exact nl_missing_separator. Qed.

Theorem C19_nl_third_range_end : forall l a b rest, forallb wf_nl_entry (l ++ [NLRange a b]) = true ->
  exists e, nlist_entries (render_nl (l ++ [NLRange a b]) ++ 58 :: rest)%N
            = Val (nl_ok (l ++ [NLRange a b]) ++ [IError e]).
Proof. exact nl_third_range_end. Qed.

Theorem C19_cl_leading_comma : forall rest, exists e, clist_entries (64 :: 44 :: rest)%N = Some (Val [IError e]).
Proof. exact cl_leading_comma. Qed.

Theorem C19_cl_doubled_comma : forall l rest, l <> [] -> forallb wf_cl_entry l = true ->
  exists e, clist_entries (render_cl l ++ 44 :: 44 :: rest)%N = Some (Val (cl_ok l ++ [IError e])).
Proof. exact cl_doubled_comma. Qed.

Theorem C19_cl_third_range_end : forall l a b rest, forallb wf_cl_entry (l ++ [CLRange a b]) = true ->
  exists e, clist_entries (render_cl (l ++ [CLRange a b]) ++ 58 :: rest)%N
            = Some (Val (cl_ok (l ++ [CLRange a b]) ++ [IError e])).
Proof. exact cl_third_range_end. Qed.

Theorem C19_cl_unequal_dimensions : forall l a b, forallb wf_cl_entry l = true ->
  wf_vals a = true -> wf_vals b = true -> length a <> length b ->
  exists e, clist_entries (render_cl l ++ (match l with [] => [] | _ => [44]%N end)
                           ++ render_spec a ++ 58 :: render_spec b)%N
            = Some (Val (cl_ok l ++ [IError e])).
Proof. exact cl_unequal_dimensions. Qed.

Theorem C19_cl_foreign_character : forall l y rest, forallb wf_cl_entry l = true ->
  is_spec_char y = false -> (y =? 44)%N = false -> (y =? 58)%N = false -> (y =? 34)%N = false -> (y =? 39)%N = false ->
  (forall v vs, last l (CLSpec [0%Z]) = CLPath v vs -> is_ws y = false) ->
  exists items e, clist_entries (render_cl l ++ y :: rest) = Some (Val (items ++ [IError e])) /\
    ((forall v vs, last l (CLSpec [0%Z]) <> CLPath v vs) -> items = cl_ok l).
Proof. exact cl_foreign_character. Qed.

Theorem C19_cl_foreign_character_exact : forall l y rest, forallb wf_cl_entry l = true ->
  is_spec_char y = false -> (y =? 44)%N = false -> (y =? 58)%N = false -> (y =? 34)%N = false -> (y =? 39)%N = false ->
  (forall v vs, last l (CLSpec [0%Z]) = CLPath v vs -> is_ws y = false) ->
  exists e, clist_entries (render_cl l ++ y :: rest) = Some (Val (cl_ok (path_cut l y) ++ [IError e])).
Proof. exact cl_foreign_character_exact. Qed.

Theorem C19_nlist_total : forall expr, exists l, nlist_entries expr = Val l.
Proof. exact nlist_total. Qed.

Theorem C19_clist_total : forall expr r, clist_entries expr = Some r -> exists l, r = Val l.
Proof. exact clist_total. Qed.

Theorem C19_spec_values_total : forall s, exists l, spec_values s = Val l.
Proof. exact spec_values_total. Qed.

Theorem C19_spec_tuple_total : forall k s,
  (exists r, spec_to_tuple k s = Val r) /\ (exists r, spec_to_utuple k s = Val r).
Proof. exact spec_tuple_total. Qed.

Print Assumptions C19_num_entries.
Print Assumptions C19_chan_entries.
Print Assumptions C19_not_a_channel_list.
Print Assumptions C19_spec_dims_ok.
Print Assumptions C19_tuple_conv.
Print Assumptions C19_tuple_conv_wrong_dimension.
Print Assumptions C19_spec_empty_dimension.
Print Assumptions C19_nl_leading_comma.
Print Assumptions C19_nl_doubled_comma.
Print Assumptions C19_nl_missing_separator.
Print Assumptions C19_nl_third_range_end.
Print Assumptions C19_cl_leading_comma.
Print Assumptions C19_cl_doubled_comma.
Print Assumptions C19_cl_third_range_end.
Print Assumptions C19_cl_unequal_dimensions.
Print Assumptions C19_cl_foreign_character.
Print Assumptions C19_cl_foreign_character_exact.
Print Assumptions C19_nlist_total.
Print Assumptions C19_clist_total.
Print Assumptions C19_spec_values_total.
Print Assumptions C19_spec_tuple_total.
