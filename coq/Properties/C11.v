(* C11 — Fixed-capacity, allocation-free operation: overflow is an error, never a panic
   Statements only: each theorem is closed by `exact` of a lemma proved in the *_proofs.v files. *)
From VF Require Import Base Gen_Errors Gen_Consts Fmt Lexer Response Tree Resp_proofs Tree_proofs.
Open Scope N_scope.

Section C11_statements.
Context {D : Type}.

Theorem C11_run_never_exceeds_capacity : forall (root : tree D) input d c r,
  run root input d (mkFmt (Some c) []) = Val r -> (length (r_out r) <= c)%nat.
Proof. apply run_never_exceeds_capacity. Qed.

Theorem C11_cap_fits : forall (root : tree D) input d c r_inf,
  run root input d (mkFmt None []) = Val r_inf -> (length (r_out r_inf) <= c)%nat ->
  run root input d (mkFmt (Some c) []) = Val r_inf.
Proof. apply cap_fits. Qed.

Theorem C11_cap_prefix : forall (root : tree D) input d c r_c r_inf, wb_tree root ->
  run root input d (mkFmt (Some c) []) = Val r_c -> run root input d (mkFmt None []) = Val r_inf ->
  is_prefix (r_out r_c) (r_out r_inf).
Proof. apply cap_prefix. Qed.

Theorem C11_cap_overflow : forall (root : tree D) input d c r_c r_inf, wb_tree root ->
  run root input d (mkFmt (Some c) []) = Val r_c -> run root input d (mkFmt None []) = Val r_inf ->
  r_err r_inf = None -> (c < length (r_out r_inf))%nat -> r_err r_c = Some (std_error OutOfMemory).
Proof. apply cap_overflow. Qed.

Theorem C11_push_fits : forall f c f', fits f -> push f c = Ok f' -> fits f'.
Proof. apply push_fits. Qed.

Theorem C11_push_error_is_225 : forall f c e, push f c = Err e -> e = OutOfMemory.
Proof. apply push_error_is_225. Qed.

Theorem C11_push_appends : forall f c f', push f c = Ok f' -> buf f' = buf f ++ c /\ cap f' = cap f.
Proof. apply push_appends. Qed.

Theorem C11_run_total : forall (root : tree D) input d f, exists r, run root input d f = Val r.
Proof. apply run_total. Qed.

End C11_statements.

Print Assumptions C11_run_never_exceeds_capacity.
Print Assumptions C11_cap_fits.
Print Assumptions C11_cap_prefix.
Print Assumptions C11_cap_overflow.
Print Assumptions C11_push_fits.
Print Assumptions C11_push_error_is_225.
Print Assumptions C11_push_appends.
Print Assumptions C11_run_total.
