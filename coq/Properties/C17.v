(* C17 — numeric_value parameters resolve MIN/MAX/DEF and never leave [min,max] (for ANY carrier type with a possibly partial order)
   Statements only: each theorem is closed by `exact` of a lemma proved in the *_proofs.v files. *)
From VF Require Import Base Gen_Errors Lexer Mnemonic MnemonicSpec Numeric Numeric_proofs.

Section C17_statements.
Context {T : Type}.
Variable leb : T -> T -> bool.
Variable convT : token -> outcome (res T).
Variables tmax tmin : T.
Notation try_from := (nv_try_from convT).
Notation fin := (finish leb).
Notation bld := (build tmax tmin).
Notation last_max := (@Numeric_proofs.last_max T tmax).
Notation last_min := (@Numeric_proofs.last_min T tmin).
Notation last_default := (@Numeric_proofs.last_default T).

Theorem C17_keyword_tests : forall s,
  mnemonic_compare kw_MAXimum s = is_keyword [77; 65; 88]%N [105; 109; 117; 109]%N s /\
  mnemonic_compare kw_MINimum s = is_keyword [77; 73; 78]%N [105; 109; 117; 109]%N s /\
  mnemonic_compare kw_DEFault s = is_keyword [68; 69; 70]%N [97; 117; 108; 116]%N s /\
  mnemonic_compare kw_UP s = is_keyword [85; 80]%N [] s /\
  mnemonic_compare kw_DOWN s = is_keyword [68; 79; 87; 78]%N [] s.
Proof. apply keyword_tests. Qed.

Theorem C17_nv_keywords : forall s,
  try_from (TChar s) =
  if mnemonic_compare kw_MAXimum s then Val (Ok NMax)
  else if mnemonic_compare kw_MINimum s then Val (Ok NMin)
  else if mnemonic_compare kw_DEFault s then Val (Ok NDef)
  else if mnemonic_compare kw_UP s then Val (Ok NUp)
  else if mnemonic_compare kw_DOWN s then Val (Ok NDown)
  else nv_value convT (TChar s).
Proof. apply nv_keywords. Qed.

Theorem C17_nv_other_elements : forall tok, (forall s, tok <> TChar s) -> try_from tok = nv_value convT tok.
Proof. apply nv_other_elements. Qed.

Theorem C17_nv_value_spec : forall tok,
  nv_value convT tok = match convT tok with
                       | Val (Ok t) => Val (Ok (NVal t)) | Val (Err e) => Val (Err e) | Panic s => Panic s end.
Proof. apply nv_value_spec. Qed.

Theorem C17_build_fields : forall v ops,
  b_value (bld v ops) = v /\ b_max (bld v ops) = last_max ops
  /\ b_min (bld v ops) = last_min ops /\ b_default (bld v ops) = last_default ops.
Proof. apply build_fields. Qed.

Theorem C17_finish_max : forall b, b_value b = NMax -> fin b = Ok (b_max b).
Proof. apply finish_max. Qed.

Theorem C17_finish_min : forall b, b_value b = NMin -> fin b = Ok (b_min b).
Proof. apply finish_min. Qed.

Theorem C17_finish_default : forall b, b_value b = NDef ->
  fin b = match b_default b with Some d => Ok d | None => Err IllegalParameterValue end.
Proof. apply finish_default. Qed.

Theorem C17_finish_up_down : forall b, b_value b = NUp \/ b_value b = NDown -> fin b = Err IllegalParameterValue.
Proof. apply finish_up_down. Qed.

Theorem C17_finish_value : forall b t, b_value b = NVal t ->
  fin b = if leb t (b_max b) && leb (b_min b) t then Ok t else Err DataOutOfRange.
Proof. apply finish_value. Qed.

Theorem C17_value_in_range : forall b t v, b_value b = NVal t -> fin b = Ok v ->
  v = t /\ leb v (b_max b) = true /\ leb (b_min b) v = true.
Proof. apply value_in_range. Qed.

Theorem C17_resolved_in_range : forall b v,
  leb (b_min b) (b_max b) = true -> leb (b_max b) (b_max b) = true -> leb (b_min b) (b_min b) = true ->
  (forall d, b_default b = Some d -> leb d (b_max b) = true /\ leb (b_min b) d = true) ->
  fin b = Ok v -> leb v (b_max b) = true /\ leb (b_min b) v = true.
Proof. apply resolved_in_range. Qed.

Theorem C17_out_of_range_only_for_values : forall b, fin b = Err DataOutOfRange ->
  exists t, b_value b = NVal t /\ leb t (b_max b) && leb (b_min b) t = false.
Proof. apply out_of_range_only_for_values. Qed.

End C17_statements.

Print Assumptions C17_keyword_tests.
Print Assumptions C17_nv_keywords.
Print Assumptions C17_nv_other_elements.
Print Assumptions C17_nv_value_spec.
Print Assumptions C17_build_fields.
Print Assumptions C17_finish_max.
Print Assumptions C17_finish_min.
Print Assumptions C17_finish_default.
Print Assumptions C17_finish_up_down.
Print Assumptions C17_finish_value.
Print Assumptions C17_value_in_range.
Print Assumptions C17_resolved_in_range.
Print Assumptions C17_out_of_range_only_for_values.
