(* C16 — Status byte and IEEE 488.2 common commands follow the 488.2 status model. *)
From VF Require Import Base Gen_Errors Status Status_proofs Contrib ContribSpec Contrib_proofs Grammar MessageSpec ContribMeaning ContribMeaning_proofs.
Open Scope N_scope.

(* Bit k of the *STB? answer, for EVERY device state (hence every reachable one), both values of
   the message-available flag and every bit position k:
   bit 2 iff the error queue is non-empty, bit 3 / bit 7 iff the QUEStionable / OPERation summary,
   bit 4 iff message available, bit 5 iff some ESR bit is enabled by ESE, bit 6 iff one of the
   reported bits 2,3,4,5,7 is enabled by SRE, every other bit clear. *)
Theorem C16_stb_bits : forall d mav k,
  N.testbit (stb_answer d mav) k = if k =? 6 then mss d mav else stb_reported d mav k.
Proof. exact stb_bits. Qed.

(* what "summary" means: some bit 0..14 set in both condition and enable (DESIGN 7.4) *)
Theorem C16_summary_iff : forall r, reg_summary r = true <->
  exists i, i < 15 /\ N.testbit (condition r) i = true /\ N.testbit (enable r) i = true.
Proof. exact summary_iff. Qed.

Theorem C16_stb_pure : forall mav d, fst (fst (sop_step mav d SRdStb)) = d.
Proof. exact stb_pure. Qed.

Theorem C16_ese_sre_readback : forall mav d v,
  snd (fst (sop_step mav (fst (fst (sop_step mav d (SWrEse v)))) SRdEse)) = Some [RNum v]
  /\ snd (fst (sop_step mav (fst (fst (sop_step mav d (SWrSre v)))) SRdSre)) = Some [RNum v].
Proof. exact ese_sre_readback. Qed.

(* *CLS clears the event status register, both event registers and the error queue, and no
   enable register, filter or condition *)
Theorem C16_cls_effect : forall d,
  let d' := scpi_cls d in
  esr d' = 0 /\ queue d' = [] /\ event (oper d') = 0 /\ event (ques d') = 0
  /\ ese d' = ese d /\ sre d' = sre d
  /\ enable (oper d') = enable (oper d) /\ enable (ques d') = enable (ques d)
  /\ ptr_filter (oper d') = ptr_filter (oper d) /\ ntr_filter (oper d') = ntr_filter (oper d)
  /\ ptr_filter (ques d') = ptr_filter (ques d) /\ ntr_filter (ques d') = ntr_filter (ques d)
  /\ condition (oper d') = condition (oper d) /\ condition (ques d') = condition (ques d).
Proof. exact cls_effect. Qed.

Theorem C16_opc_sets_bit0 : forall d, esr (scpi_opc d) = N.lor (esr d) 1
  /\ queue (scpi_opc d) = queue d ++ [std_error OperationComplete].
Proof. exact opc_sets_bit0. Qed.

Theorem C16_opcq_tst_answers : forall mav d,
  snd (fst (sop_step mav d SOpcQ)) = Some [RNum 1]
  /\ snd (fst (sop_step mav d STstQ)) = Some [RInt (match tst_result d with None => 0%Z | Some c => c end)]
  /\ fst (fst (sop_step mav d SOpcQ)) = d /\ fst (fst (sop_step mav d STstQ)) = d.
Proof. exact opcq_tst_answers. Qed.

Theorem C16_rst_wai_frame : forall mav d, fst (fst (sop_step mav d SRst)) = d /\ fst (fst (sop_step mav d SWai)) = d.
Proof. exact rst_wai_frame. Qed.

(* non-vacuity: MAV alone, enabled in SRE, raises MSS (the statement's bit 6 clause) *)
Example C16_example_mav_mss : stb_answer (set_sre dev_init 16) true = 80.
Proof. reflexivity. Qed.

(* The theorems above are about the operation-level device model (Status.v).  They transfer to the byte-level
   full-stack model of Contrib.v (program-message bytes -> Lexer -> Tree dispatcher -> the mandated command tree ->
   Response formatter -> error hook): on the canonical text of any operation list, in every device state reachable
   from power-on by such messages, the full stack computes exactly the operation-level result (state, response
   bytes, error), and never panics. *)
Theorem C16_full_stack_refines : forall msgs mav us,
  forallb (fun m => forallb renderable (snd m)) msgs = true -> forallb renderable us = true ->
  dev_message (session_ops dev_init msgs) mav (units_text us) = Val (op_message (session_ops dev_init msgs) mav us).
Proof. exact contrib_refines_ops_session. Qed.
(* ... and in an arbitrary device state exactly when every queued error is renderable (a custom non-ASCII message
   without extended text is not: the response formatter rejects it) *)
Theorem C16_full_stack_refines_iff : forall d,
  (forall mav us, forallb renderable us = true -> dev_message d mav (units_text us) = Val (op_message d mav us))
  <-> queue_printable d = true.
Proof. exact contrib_refines_ops_iff. Qed.

(* ... and for EVERY well-formed program message addressed to the mandated tree, in any spelling (short / long
   mnemonics, any case, absolute or relative headers, default nodes spelled or omitted, any layout) and with any data
   elements (right, wrong, missing, too many): [message_ops m] (ContribMeaning.v) reads the message as a list of
   operations through the designation relation of HeaderSpec.v, and in every state reachable from power-on the full
   stack computes the operation-level result: same device state, same returned error, same response bytes (up to
   one unit separator left in the buffer of a message that FAILS on the query form of a command without one,
   characterised exactly by [stray_separator]). *)
Theorem C16_full_stack_all_messages : forall ms (m : msg) (mav : bool) (us : list sop),
  wf_msg m = true -> message_ops m = Some us ->
  dev_message (session_msgs dev_init ms) mav (render_msg m)
  = Val (with_stray m (op_message (session_msgs dev_init ms) mav us)).
Proof. exact contrib_refines_ops_sep_session. Qed.
Theorem C16_full_stack_all_messages_exact : forall (m : msg) (mav : bool) (d : dev) (us : list sop),
  wf_msg m = true -> queue_printable d = true -> message_ops m = Some us ->
  (dev_message d mav (render_msg m) = Val (op_message d mav us) <-> stray_separator m = false).
Proof. exact contrib_refines_ops_all_iff. Qed.

From VF Require Import Gen_Esr ErrTable Lexer Contrib_anybytes.

(* ANY byte string: registers stay within their width; a message never gets stuck; what a successful message can do to queue and ESR *)
Theorem C16_dev_message_preserves_regs_ok : forall d mav bytes d' out r,
  regs_ok d -> dev_message d mav bytes = Val (d', out, r) -> regs_ok d'.
Proof. exact dev_message_preserves_regs_ok. Qed.
Theorem C16_dev_session_regs_ok : forall msgs d d', regs_ok d -> dev_session d msgs = Val d' -> regs_ok d'.
Proof. exact dev_session_regs_ok. Qed.
Theorem C16_dev_message_total : forall d mav bytes, exists r, dev_message d mav bytes = Val r.
Proof. exact dev_message_total. Qed.
Theorem C16_any_successful_message_exact : forall d mav bytes d' out,
  dev_message d mav bytes = Val (d', out, None) ->
  (exists n k, queue d' = skipn n (queue d) ++ repeat (std_error OperationComplete) k)
  /\ (forall i, N.testbit (esr d') i = true -> N.testbit (esr d) i = true \/ i = 0)
  /\ tst_result d' = tst_result d.
Proof. exact any_successful_message_exact. Qed.

Print Assumptions C16_stb_bits.
Print Assumptions C16_summary_iff.
Print Assumptions C16_stb_pure.
Print Assumptions C16_ese_sre_readback.
Print Assumptions C16_cls_effect.
Print Assumptions C16_opc_sets_bit0.
Print Assumptions C16_opcq_tst_answers.
Print Assumptions C16_rst_wai_frame.
Print Assumptions C16_full_stack_refines.
Print Assumptions C16_full_stack_refines_iff.
Print Assumptions C16_full_stack_all_messages.
Print Assumptions C16_full_stack_all_messages_exact.
Print Assumptions C16_dev_message_preserves_regs_ok.
Print Assumptions C16_dev_session_regs_ok.
Print Assumptions C16_dev_message_total.
Print Assumptions C16_any_successful_message_exact.
