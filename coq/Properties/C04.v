(* C04 — Lexing is faithful: element boundaries and types follow IEEE 488.2 section 7
   Statements only: each theorem is closed by `exact` of a lemma proved in the *_proofs.v files. *)
From VF Require Import Base Gen_Errors Fmt Lexer Grammar Lexer_proofs Grammar_proofs Message_proofs2 Message_proofs3 Lexer_ranges.
Open Scope N_scope.

Theorem C04_lex_faithful : forall m, wf_msg m = true -> tokenize (render_msg m) = Val (map IOk (tokens_of m)).
Proof. exact lex_faithful. Qed.

Theorem C04_lex_faithful_trailing_separator : forall m w, wf_msg m = true -> wf_ws w = true ->
  tokenize (m_lead m ++ render_units (m_units m) ++ 59 :: w ++ (if m_nl m then [10] else []))
  = Val (map IOk (tokens_of m ++ [TUnitSeparator])).
Proof. exact lex_faithful_trailing_separator. Qed.

Theorem C04_lex_empty : forall w (nl : bool), wf_ws w = true ->
  tokenize (w ++ (if nl then [10] else [])) = Val [].
Proof. exact lex_empty. Qed.

Theorem C04_tokenize_prefix : forall lead us w bad items,
  wf_ws lead = true -> forallb Grammar_proofs.wf_uw us = true -> us <> [] -> wf_ws w = true ->
  tokenize bad = Val items ->
  tokenize (lead ++ render_units us ++ 59 :: w ++ bad)
  = Val (map IOk (tokens_units us) ++ IOk TUnitSeparator :: items).
Proof. exact tokenize_prefix. Qed.

Theorem C04_lex_next_range : forall l t l', lex_next l = Val (STok t l') ->
  exists used, chars l = used ++ chars l' /\ used <> [] /\
    match payload t with
    | Some p => exists pre post, used = pre ++ p ++ post
    | None => True
    end.
Proof. exact lex_next_range. Qed.

Theorem C04_lex_next_range_suffix : forall l v s l', lex_next l = Val (STok (TDecSuffix v s) l') ->
  exists used, chars l = used ++ chars l' /\ used <> [] /\
    exists pre mid post, used = pre ++ v ++ mid ++ s ++ post.
Proof. exact lex_next_range_suffix. Qed.

Theorem C04_tokenize_ranges : forall input items, tokenize input = Val items ->
  ranges input (payloads items).
Proof. exact tokenize_ranges. Qed.

Theorem C04_tokenize_params_ranges : forall input items, tokenize_params input = Val items ->
  ranges input (payloads items).
Proof. exact tokenize_params_ranges. Qed.

Theorem C04_payload_bytes_from_input : forall input items p, tokenize input = Val items ->
  In p (payloads items) -> forall b, In b p -> In b input.
Proof. exact payload_bytes_from_input. Qed.

Theorem C04_payload_total_length : forall input items, tokenize input = Val items ->
  (list_sum (map (@length byte) (payloads items)) <= length input)%nat.
Proof. exact payload_total_length. Qed.

Theorem C04_tokenize_tiles : forall input items, tokenize input = Val items ->
  exists w, input = w ++ skip_ws input /\ all_ws w /\ tiles (skip_ws input) items.
Proof. exact tokenize_tiles. Qed.

Theorem C04_tokenize_params_tiles : forall input items, tokenize_params input = Val items ->
  tiles input items.
Proof. exact tokenize_params_tiles. Qed.

Theorem C04_range_mnemonic : forall l s l', lex_next l = Val (STok (TMnemonic s) l') ->
  chars l = s ++ chars l' /\ s <> [] /\ mnemonic_bytes s /\
  not_starting is_mnemonic_char (chars l').
Proof. exact range_mnemonic. Qed.

Theorem C04_range_char : forall l s l', lex_next l = Val (STok (TChar s) l') ->
  exists w, chars l = s ++ w ++ chars l' /\ all_ws w /\ s <> [] /\
    forallb is_mnemonic_char s = true /\ (length s <= 12)%nat /\
    not_starting is_mnemonic_char (w ++ chars l') /\ at_sep (chars l').
Proof. exact range_char. Qed.

Theorem C04_range_dec : forall l s l', lex_next l = Val (STok (TDec s) l') ->
  exists w, chars l = s ++ w ++ chars l' /\ all_ws w /\ s <> [] /\
    forallb is_num_char s = true /\ at_sep (chars l').
Proof. exact range_dec. Qed.

Theorem C04_range_decsuffix : forall l v s l', lex_next l = Val (STok (TDecSuffix v s) l') ->
  exists w1 w2, chars l = v ++ w1 ++ s ++ w2 ++ chars l' /\ all_ws w1 /\ all_ws w2 /\
    v <> [] /\ forallb is_num_char v = true /\
    suffix_start s /\ forallb is_suffix_char s = true /\ (length s <= 12)%nat /\
    not_starting is_suffix_char (w2 ++ chars l') /\ at_sep (chars l').
Proof. exact range_decsuffix. Qed.

Theorem C04_range_nondec : forall l n l', lex_next l = Val (STok (TNonDec n) l') ->
  exists r ds w, chars l = 35 :: r :: ds ++ w ++ chars l' /\ ds <> [] /\ all_ws w /\
    at_sep (chars l').
Proof. exact range_nondec. Qed.

Theorem C04_range_string : forall l s l', lex_next l = Val (STok (TString s) l') ->
  exists q w, chars l = q :: s ++ q :: w ++ chars l' /\ (q = 34 \/ q = 39) /\ all_ws w /\
    forallb is_ascii s = true /\ quotes_paired q s = true /\
    hd_eqb q (w ++ chars l') = false /\ at_sep (chars l').
Proof. exact range_string. Qed.

Theorem C04_range_block : forall l s l', lex_next l = Val (STok (TBlock s) l') ->
  (chars l = 35 :: 48 :: s ++ [10] /\ chars l' = []) \/
  (exists d lenfield w, chars l = 35 :: d :: lenfield ++ s ++ w ++ chars l' /\
     is_digit d = true /\ d <> 48 /\ length lenfield = N.to_nat (d - 48) /\
     parse_usize lenfield = Some (N.of_nat (length s)) /\ all_ws w /\ at_sep (chars l')).
Proof. exact range_block. Qed.

Theorem C04_range_block_definite : forall l s l', lex_next l = Val (STok (TBlock s) l') ->
  chars l' <> [] \/ (forall s0, chars l <> 35 :: 48 :: s0) ->
  exists d lenfield w, chars l = 35 :: d :: lenfield ++ s ++ w ++ chars l' /\
    (1 <= length lenfield <= 9)%nat /\ d = 48 + N.of_nat (length lenfield) /\
    forallb is_digit lenfield = true /\
    N.of_nat (length s) = fst (radix_digits 10 lenfield 0 0) /\ all_ws w /\ at_sep (chars l').
Proof. exact range_block_definite. Qed.

Theorem C04_range_expr : forall l s l', lex_next l = Val (STok (TExpr s) l') ->
  exists w, chars l = 40 :: s ++ 41 :: w ++ chars l' /\ all_ws w /\
    forallb expr_char s = true /\ at_sep (chars l').
Proof. exact range_expr. Qed.

Theorem C04_range_separator : forall l t l', lex_next l = Val (STok t l') ->
  payload t = None -> (forall n, t <> TNonDec n) ->
  exists x w, chars l = x :: w ++ chars l' /\ all_ws w /\
    match t with
    | THeaderMnemonicSeparator => x = 58 /\ w = []
    | THeaderQuerySuffix => x = 63 /\ w = []
    | TUnitSeparator => x = 59 /\ not_starting is_ws (chars l')
    | TDataSeparator => x = 44 /\ not_starting is_ws (chars l')
    | THeaderSeparator => is_ws x = true /\ not_starting is_ws (chars l')
    | _ => False
    end.
Proof. exact range_separator. Qed.

Theorem C04_lex_total : forall input, exists ts, tokenize input = Val ts.
Proof. exact lex_total. Qed.

Theorem C04_lex_params_total : forall input, exists ts, tokenize_params input = Val ts.
Proof. exact lex_params_total. Qed.

Theorem C04_lex_progress : forall l t l', lex_next l = Val (STok t l') ->
  (length (chars l') < length (chars l))%nat.
Proof. exact lex_progress. Qed.

Theorem C04_tokenize_shape : forall l ts, tokenize_from l = Val ts ->
  exists toks, ts = map IOk toks \/ exists e, ts = map IOk toks ++ [IErr e].
Proof. exact tokenize_shape. Qed.

Theorem C04_lex_error_class : forall l e, lex_next l = Val (SErr e) ->
  ((-199 <= e <= -100)%Z \/ e = DataOutOfRange).
Proof. exact lex_error_class. Qed.

Theorem C04_mnemonic_13 : forall m rest com, (length m = 13)%nat ->
  (exists x m', m = x :: m' /\ is_alpha x = true) ->
  forallb is_mnemonic_char m = true ->
  lex_next (mkLexer (m ++ rest) true com) = Val (SErr ProgramMnemonicTooLong).
Proof. exact mnemonic_13. Qed.

Theorem C04_chardata_13 : forall m rest com, (length m = 13)%nat ->
  (exists x m', m = x :: m' /\ is_alpha x = true) ->
  forallb is_mnemonic_char m = true ->
  lex_next (mkLexer (m ++ rest) false com) = Val (SErr CharacterDataTooLong).
Proof. exact chardata_13. Qed.

Theorem C04_unterminated_string : forall q body hdr_com, ((q =? 34) || (q =? 39))%N = true ->
  forallb (fun b => negb (b =? q)%N && is_ascii b) body = true ->
  lex_next (mkLexer (q :: body) false hdr_com) = Val (SErr InvalidStringData).
Proof. exact unterminated_string. Qed.

Theorem C04_non_ascii_in_string : forall q pre b rest com, ((q =? 34) || (q =? 39))%N = true ->
  forallb (fun b => negb (b =? q)%N && is_ascii b) pre = true -> is_ascii b = false ->
  lex_next (mkLexer (q :: pre ++ b :: rest) false com) = Val (SErr InvalidCharacter).
Proof. exact non_ascii_in_string. Qed.

Theorem C04_non_ascii_outside : forall b rest hdr com, is_ascii b = false ->
  lex_next (mkLexer (b :: rest) hdr com) = Val (SErr InvalidCharacter).
Proof. exact non_ascii_outside. Qed.

Theorem C04_block_truncated : forall nd lenfield payload com,
  (1 <= length lenfield <= 9)%nat -> nd = (48 + N.of_nat (length lenfield))%N ->
  forallb is_digit lenfield = true ->
  (N.of_nat (length payload) < fst (radix_digits 10 lenfield 0 0))%N ->
  lex_next (mkLexer (35 :: nd :: lenfield ++ payload) false com) = Val (SErr InvalidBlockData).
Proof. exact block_truncated. Qed.

Theorem C04_block_bad_header : forall nd lenfield rest com, (1 <= length lenfield <= 9)%nat ->
  nd = (48 + N.of_nat (length lenfield))%N -> forallb is_digit lenfield = false ->
  lex_next (mkLexer (35 :: nd :: lenfield ++ rest) false com) = Val (SErr InvalidBlockData).
Proof. exact block_bad_header. Qed.

Theorem C04_doubled_colon : forall rest hdr com,
  lex_next (mkLexer (58 :: 58 :: rest) hdr com) = Val (SErr InvalidSeparator).
Proof. exact doubled_colon. Qed.

Theorem C04_colon_in_data : forall rest com,
  lex_next (mkLexer (58 :: rest) false com) = Val (SErr InvalidSeparator).
Proof. exact colon_in_data. Qed.

Theorem C04_colon_in_common : forall rest hdr,
  lex_next (mkLexer (58 :: rest) hdr true) = Val (SErr InvalidSeparator).
Proof. exact colon_in_common. Qed.

Theorem C04_comma_in_header : forall rest com,
  lex_next (mkLexer (44 :: rest) true com) = Val (SErr HeaderSeparatorError).
Proof. exact comma_in_header. Qed.

Theorem C04_doubled_comma : forall w rest com, forallb is_ws w = true ->
  lex_next (mkLexer (44 :: w ++ 44 :: rest) false com) = Val (SErr SyntaxError).
Proof. exact doubled_comma. Qed.

Theorem C04_comma_after_header_sep : forall x w rest hdr com, is_ws x = true -> (x =? 10)%N = false ->
  forallb is_ws w = true ->
  lex_next (mkLexer (x :: w ++ 44 :: rest) hdr com) = Val (SErr SyntaxError).
Proof. exact comma_after_header_sep. Qed.

Theorem C04_missing_separator_after_chardata : forall m w y rest com, (1 <= length m <= 12)%nat ->
  (exists x m', m = x :: m' /\ is_alpha x = true) -> forallb is_mnemonic_char m = true ->
  forallb is_ws w = true ->
  is_mnemonic_char y = false -> is_ws y = false -> (y =? 44)%N = false -> (y =? 59)%N = false ->
  lex_next (mkLexer (m ++ w ++ y :: rest) false com) = Val (SErr InvalidCharacterData).
Proof. exact missing_separator_after_chardata. Qed.

Theorem C04_missing_separator_after_string : forall q body w y rest com, ((q =? 34) || (q =? 39))%N = true ->
  forallb (fun b => negb (b =? q)%N && is_ascii b) body = true -> forallb is_ws w = true ->
  is_ws y = false -> (y =? 44)%N = false -> (y =? 59)%N = false -> (y =? q)%N = false ->
  lex_next (mkLexer (q :: body ++ q :: w ++ y :: rest) false com) = Val (SErr SuffixNotAllowed).
Proof. exact missing_separator_after_string. Qed.

Print Assumptions C04_lex_faithful.
Print Assumptions C04_lex_faithful_trailing_separator.
Print Assumptions C04_lex_empty.
Print Assumptions C04_tokenize_prefix.
Print Assumptions C04_lex_next_range.
Print Assumptions C04_lex_next_range_suffix.
Print Assumptions C04_tokenize_ranges.
Print Assumptions C04_tokenize_params_ranges.
Print Assumptions C04_payload_bytes_from_input.
Print Assumptions C04_payload_total_length.
Print Assumptions C04_tokenize_tiles.
Print Assumptions C04_tokenize_params_tiles.
Print Assumptions C04_range_mnemonic.
Print Assumptions C04_range_char.
Print Assumptions C04_range_dec.
Print Assumptions C04_range_decsuffix.
Print Assumptions C04_range_nondec.
Print Assumptions C04_range_string.
Print Assumptions C04_range_block.
Print Assumptions C04_range_block_definite.
Print Assumptions C04_range_expr.
Print Assumptions C04_range_separator.
Print Assumptions C04_lex_total.
Print Assumptions C04_lex_params_total.
Print Assumptions C04_lex_progress.
Print Assumptions C04_tokenize_shape.
Print Assumptions C04_lex_error_class.
Print Assumptions C04_mnemonic_13.
Print Assumptions C04_chardata_13.
Print Assumptions C04_unterminated_string.
Print Assumptions C04_non_ascii_in_string.
Print Assumptions C04_non_ascii_outside.
Print Assumptions C04_block_truncated.
Print Assumptions C04_block_bad_header.
Print Assumptions C04_doubled_colon.
Print Assumptions C04_colon_in_data.
Print Assumptions C04_colon_in_common.
Print Assumptions C04_comma_in_header.
Print Assumptions C04_doubled_comma.
Print Assumptions C04_comma_after_header_sep.
Print Assumptions C04_missing_separator_after_chardata.
Print Assumptions C04_missing_separator_after_string.
