(* C04 — Lexing is faithful: element boundaries and types follow IEEE 488.2 section 7
   Statements only: each theorem is closed by `exact` of a lemma proved in the *_proofs.v files. *)
From VF Require Import Base Gen_Errors Fmt Lexer Grammar Lexer_proofs Grammar_proofs Message_proofs2.
Open Scope N_scope.

Theorem C04_lex_faithful : forall m, wf_msg m = true -> tokenize (render_msg m) = Val (map IOk (tokens_of m)).
Proof. exact lex_faithful. Qed.

Theorem C04_lex_faithful_trailing_separator : forall m w, wf_msg m = true -> wf_ws w = true ->
  tokenize (m_lead m ++ render_units (m_units m) ++ 59 :: w ++ (if m_nl m then [10] else []))
  = Val (map IOk (tokens_of m ++ [TUnitSeparator])).
Proof. exact lex_faithful_trailing_separator. Qed.

Theorem C04_lex_empty : forall w (nl : bool), wf_ws w = true ->
  tokenize (w ++ (if nl then [10] else [])) = Val [].
Proof. exact lex_empty. Qed.

Theorem C04_lex_total : forall input, exists ts, tokenize input = Val ts.
Proof. exact lex_total. Qed.

Theorem C04_lex_params_total : forall input, exists ts, tokenize_params input = Val ts.
Proof. exact lex_params_total. Qed.

Theorem C04_lex_progress : forall l t l', lex_next l = Val (STok t l') ->
  (length (chars l') < length (chars l))%nat.
Proof. exact lex_progress. Qed.

Theorem C04_tokenize_shape : forall l ts, tokenize_from l = Val ts ->
  exists toks, ts = map IOk toks \/ exists e, ts = map IOk toks ++ [IErr e].
Proof. exact tokenize_shape. Qed.

Theorem C04_lex_error_class : forall l e, lex_next l = Val (SErr e) ->
  ((-199 <= e <= -100)%Z \/ e = DataOutOfRange).
Proof. exact lex_error_class. Qed.

Theorem C04_mnemonic_13 : forall m rest com, (length m = 13)%nat ->
  (exists x m', m = x :: m' /\ is_alpha x = true) ->
  forallb is_mnemonic_char m = true ->
  lex_next (mkLexer (m ++ rest) true com) = Val (SErr ProgramMnemonicTooLong).
Proof. exact mnemonic_13. Qed.

Theorem C04_chardata_13 : forall m rest com, (length m = 13)%nat ->
  (exists x m', m = x :: m' /\ is_alpha x = true) ->
  forallb is_mnemonic_char m = true ->
  lex_next (mkLexer (m ++ rest) false com) = Val (SErr CharacterDataTooLong).
Proof. exact chardata_13. Qed.

Theorem C04_unterminated_string : forall q body hdr_com, ((q =? 34) || (q =? 39))%N = true ->
  forallb (fun b => negb (b =? q)%N && is_ascii b) body = true ->
  lex_next (mkLexer (q :: body) false hdr_com) = Val (SErr InvalidStringData).
Proof. exact unterminated_string. Qed.

Theorem C04_non_ascii_in_string : forall q pre b rest com, ((q =? 34) || (q =? 39))%N = true ->
  forallb (fun b => negb (b =? q)%N && is_ascii b) pre = true -> is_ascii b = false ->
  lex_next (mkLexer (q :: pre ++ b :: rest) false com) = Val (SErr InvalidCharacter).
Proof. exact non_ascii_in_string. Qed.

Theorem C04_non_ascii_outside : forall b rest hdr com, is_ascii b = false ->
  lex_next (mkLexer (b :: rest) hdr com) = Val (SErr InvalidCharacter).
Proof. exact non_ascii_outside. Qed.

Theorem C04_block_truncated : forall nd lenfield payload com,
  (1 <= length lenfield <= 9)%nat -> nd = (48 + N.of_nat (length lenfield))%N ->
  forallb is_digit lenfield = true ->
  (N.of_nat (length payload) < fst (radix_digits 10 lenfield 0 0))%N ->
  lex_next (mkLexer (35 :: nd :: lenfield ++ payload) false com) = Val (SErr InvalidBlockData).
Proof. exact block_truncated. Qed.

Theorem C04_block_bad_header : forall nd lenfield rest com, (1 <= length lenfield <= 9)%nat ->
  nd = (48 + N.of_nat (length lenfield))%N -> forallb is_digit lenfield = false ->
  lex_next (mkLexer (35 :: nd :: lenfield ++ rest) false com) = Val (SErr InvalidBlockData).
Proof. exact block_bad_header. Qed.

Theorem C04_doubled_colon : forall rest hdr com,
  lex_next (mkLexer (58 :: 58 :: rest) hdr com) = Val (SErr InvalidSeparator).
Proof. exact doubled_colon. Qed.

Theorem C04_colon_in_data : forall rest com,
  lex_next (mkLexer (58 :: rest) false com) = Val (SErr InvalidSeparator).
Proof. exact colon_in_data. Qed.

Theorem C04_colon_in_common : forall rest hdr,
  lex_next (mkLexer (58 :: rest) hdr true) = Val (SErr InvalidSeparator).
Proof. exact colon_in_common. Qed.

Theorem C04_comma_in_header : forall rest com,
  lex_next (mkLexer (44 :: rest) true com) = Val (SErr HeaderSeparatorError).
Proof. exact comma_in_header. Qed.

Theorem C04_doubled_comma : forall w rest com, forallb is_ws w = true ->
  lex_next (mkLexer (44 :: w ++ 44 :: rest) false com) = Val (SErr SyntaxError).
Proof. exact doubled_comma. Qed.

Theorem C04_comma_after_header_sep : forall x w rest hdr com, is_ws x = true -> (x =? 10)%N = false ->
  forallb is_ws w = true ->
  lex_next (mkLexer (x :: w ++ 44 :: rest) hdr com) = Val (SErr SyntaxError).
Proof. exact comma_after_header_sep. Qed.

Theorem C04_missing_separator_after_chardata : forall m w y rest com, (1 <= length m <= 12)%nat ->
  (exists x m', m = x :: m' /\ is_alpha x = true) -> forallb is_mnemonic_char m = true ->
  forallb is_ws w = true ->
  is_mnemonic_char y = false -> is_ws y = false -> (y =? 44)%N = false -> (y =? 59)%N = false ->
  lex_next (mkLexer (m ++ w ++ y :: rest) false com) = Val (SErr InvalidCharacterData).
Proof. exact missing_separator_after_chardata. Qed.

Theorem C04_missing_separator_after_string : forall q body w y rest com, ((q =? 34) || (q =? 39))%N = true ->
  forallb (fun b => negb (b =? q)%N && is_ascii b) body = true -> forallb is_ws w = true ->
  is_ws y = false -> (y =? 44)%N = false -> (y =? 59)%N = false -> (y =? q)%N = false ->
  lex_next (mkLexer (q :: body ++ q :: w ++ y :: rest) false com) = Val (SErr SuffixNotAllowed).
Proof. exact missing_separator_after_string. Qed.

Print Assumptions C04_lex_faithful.
Print Assumptions C04_lex_faithful_trailing_separator.
Print Assumptions C04_lex_empty.
Print Assumptions C04_lex_total.
Print Assumptions C04_lex_params_total.
Print Assumptions C04_lex_progress.
Print Assumptions C04_tokenize_shape.
Print Assumptions C04_lex_error_class.
Print Assumptions C04_mnemonic_13.
Print Assumptions C04_chardata_13.
Print Assumptions C04_unterminated_string.
Print Assumptions C04_non_ascii_in_string.
Print Assumptions C04_non_ascii_outside.
Print Assumptions C04_block_truncated.
Print Assumptions C04_block_bad_header.
Print Assumptions C04_doubled_colon.
Print Assumptions C04_colon_in_data.
Print Assumptions C04_colon_in_common.
Print Assumptions C04_comma_in_header.
Print Assumptions C04_doubled_comma.
Print Assumptions C04_comma_after_header_sep.
Print Assumptions C04_missing_separator_after_chardata.
Print Assumptions C04_missing_separator_after_string.
