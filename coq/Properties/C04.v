(* C04 — placeholder while the proofs are being built *)
From VF Require Import Base Gen_Errors Lexer Lexer_proofs.
Theorem C04_skip_suffix : forall p c, exists pre, c = pre ++ skip_while p c.
Proof. exact skip_while_suffix. Qed.
Print Assumptions C04_skip_suffix.
