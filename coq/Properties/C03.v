(* C03 — Mnemonics match only their short or long form, with the default-1 suffix rule. *)
From VF Require Import Base Mnemonic MnemonicSpec Mnemonic_proofs.

(* For every definition of SCPI shape (optional `*`, upper-case short form, lower-case
   remainder, numeric suffix) of ANY length and every candidate byte string of ANY length over
   ALL byte values: the implementation's matcher decides exactly the declarative rule. *)
Theorem C03_match_is_spec : forall def cand, scpi_shape def ->
  mnemonic_match def cand = match_spec def cand.
Proof. exact match_iff_spec. Qed.

(* The rule spelled out: suffixes equal after the default-1 rule, and the alphabetic part equal,
   ignoring case, to the short form or to the complete long form — nothing else matches. *)
Theorem C03_match_iff : forall def cand, scpi_shape def ->
  (mnemonic_match def cand = true <->
   exists db ds cb cs, strip_digits def = (db, ds) /\ strip_digits cand = (cb, cs) /\
     norm_suffix ds = norm_suffix cs /\
     (bytes_eq_nocase (short_of db) cb = true \/ bytes_eq_nocase db cb = true)).
Proof. exact match_iff. Qed.

(* The comparison used for keywords (MAXimum, MINimum, DEFault, INFinity, ...): exactly the long
   form or the short form, ignoring case. *)
Theorem C03_compare_keyword : forall U L s, keyword_shape U L ->
  mnemonic_compare (U ++ L) s = bytes_eq_nocase (U ++ L) s || bytes_eq_nocase U s.
Proof. exact compare_keyword. Qed.

(* mnemonic_compare on any definition of SCPI shape *)
Theorem C03_compare_shape : forall P U L D s,
  (P = [] \/ P = [42]) -> U <> [] -> all_b is_upper U = true ->
  all_b is_lower L = true -> all_b is_digit D = true ->
  mnemonic_compare (P ++ U ++ L ++ D) s =
  bytes_eq_nocase (P ++ U ++ L ++ D) s || (is_nil D && bytes_eq_nocase (P ++ U) s).
Proof. exact compare_shape. Qed.

(* non-vacuity: TRIGger, CHANnel2, *IDN, L1 have SCPI shape; the statement's own examples *)
Example C03_shape_TRIGger : scpi_shape [84;82;73;71;103;101;114].
Proof. exists [], [84;82;73;71], [103;101;114], []. repeat split; auto; discriminate. Qed.
Example C03_shape_CHANnel2 : scpi_shape [67;72;65;78;110;101;108;50].
Proof. exists [], [67;72;65;78], [110;101;108], [50]. repeat split; auto; discriminate. Qed.
Example C03_shape_IDN : scpi_shape [42;73;68;78].
Proof. exists [42], [73;68;78], [], []. repeat split; auto; discriminate. Qed.
Example C03_examples :
  let TRIGger1 := [84;82;73;71;103;101;114;49] in
  (* trig, TRIGGER1, trigger : match;  trigg, TRIG01, trig2, triggers : do not *)
  map (mnemonic_match TRIGger1)
      [[116;114;105;103]; [84;82;73;71;71;69;82;49]; [116;114;105;103;103;101;114];
       [116;114;105;103;103]; [84;82;73;71;48;49]; [116;114;105;103;50]; [116;114;105;103;103;101;114;115]]
  = [true; true; true; false; false; false; false].
Proof. reflexivity. Qed.

Print Assumptions C03_match_is_spec.
Print Assumptions C03_match_iff.
Print Assumptions C03_compare_keyword.
Print Assumptions C03_compare_shape.
