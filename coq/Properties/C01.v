(* C01 — Arbitrary input is processed totally: no panic, overflow, hang or internal error (lexer and dispatcher; conversions and list iterators: see the conversion theorems added below as they are built)
   Statements only: each theorem is closed by `exact` of a lemma proved in the *_proofs.v files. *)
From VF Require Import Base Gen_Errors Lexer Response Tree Lexer_proofs Tree_proofs.
Open Scope N_scope.

Section C01_statements.
Context {D : Type}.

Theorem C01_lex_next_no_panic : forall l, exists s, lex_next l = Val s.
Proof. exact lex_next_no_panic. Qed.

Theorem C01_lex_progress : forall l t l', lex_next l = Val (STok t l') ->
  (length (chars l') < length (chars l))%nat.
Proof. exact lex_progress. Qed.

Theorem C01_lex_total : forall input, exists ts, tokenize input = Val ts.
Proof. exact lex_total. Qed.

Theorem C01_lex_params_total : forall input, exists ts, tokenize_params input = Val ts.
Proof. exact lex_params_total. Qed.

Theorem C01_tokenize_shape : forall l ts, tokenize_from l = Val ts ->
  exists toks, ts = map IOk toks \/ exists e, ts = map IOk toks ++ [IErr e].
Proof. exact tokenize_shape. Qed.

Theorem C01_run_tokens_total : forall (root : tree D) toks d f, exists r, run_tokens root toks d f = Val r.
Proof. exact run_tokens_total. Qed.

Theorem C01_run_total : forall (root : tree D) input d f, exists r, run root input d f = Val r.
Proof. exact run_total. Qed.

Theorem C01_pull_only_data : forall toks t r,
  next_optional_token toks = (Got t, r) -> is_data t = true.
Proof. exact pull_only_data. Qed.

Theorem C01_pull_req_only_data : forall toks t r,
  next_token toks = (Got t, r) -> is_data t = true.
Proof. exact pull_req_only_data. Qed.

End C01_statements.

Print Assumptions C01_lex_next_no_panic.
Print Assumptions C01_lex_progress.
Print Assumptions C01_lex_total.
Print Assumptions C01_lex_params_total.
Print Assumptions C01_tokenize_shape.
Print Assumptions C01_run_tokens_total.
Print Assumptions C01_run_total.
Print Assumptions C01_pull_only_data.
Print Assumptions C01_pull_req_only_data.
