(* C01 — Arbitrary input is processed totally: no panic, overflow, hang or internal error
   Statements only: each theorem is closed by `exact` of a lemma proved in the *_proofs.v files. *)
From VF Require Import Base Gen_Errors Lexer Response Tree Conv Lists Lexer_proofs Tree_proofs Conv_proofs Lists_proofs.
Open Scope N_scope.

Section C01_statements.
Context {D : Type}.

Theorem C01_lex_next_no_panic : forall l, exists s, lex_next l = Val s.
Proof. apply lex_next_no_panic. Qed.

Theorem C01_lex_progress : forall l t l', lex_next l = Val (STok t l') ->
  (length (chars l') < length (chars l))%nat.
Proof. apply lex_progress. Qed.

Theorem C01_lex_total : forall input, exists ts, tokenize input = Val ts.
Proof. apply lex_total. Qed.

Theorem C01_lex_params_total : forall input, exists ts, tokenize_params input = Val ts.
Proof. apply lex_params_total. Qed.

Theorem C01_tokenize_shape : forall l ts, tokenize_from l = Val ts ->
  exists toks, ts = map IOk toks \/ exists e, ts = map IOk toks ++ [IErr e].
Proof. apply tokenize_shape. Qed.

Theorem C01_run_tokens_total : forall (root : tree D) toks d f, exists r, run_tokens root toks d f = Val r.
Proof. apply run_tokens_total. Qed.

Theorem C01_run_total : forall (root : tree D) input d f, exists r, run root input d f = Val r.
Proof. apply run_total. Qed.

Theorem C01_pull_only_data : forall toks t r,
  next_optional_token toks = (Got t, r) -> is_data t = true.
Proof. apply pull_only_data. Qed.

Theorem C01_pull_req_only_data : forall toks t r,
  next_token toks = (Got t, r) -> is_data t = true.
Proof. apply pull_req_only_data. Qed.

Theorem C01_conv_total : forall tok, is_data tok = true ->
  (forall t, exists r, conv_int t tok = Val r) /\ (forall t, exists r, conv_float t tok = Val r)
  /\ (exists r, conv_bool tok = Val r) /\ (forall t, exists r, conv_bytes t tok = Val r).
Proof. apply conv_total. Qed.

Theorem C01_nlist_total : forall expr, exists l, nlist_entries expr = Val l.
Proof. apply nlist_total. Qed.

Theorem C01_clist_total : forall expr r, clist_entries expr = Some r -> exists l, r = Val l.
Proof. apply clist_total. Qed.

Theorem C01_spec_values_total : forall s, exists l, spec_values s = Val l.
Proof. apply spec_values_total. Qed.

Theorem C01_spec_tuple_total : forall k s,
  (exists r, spec_to_tuple k s = Val r) /\ (exists r, spec_to_utuple k s = Val r).
Proof. apply spec_tuple_total. Qed.

End C01_statements.

Print Assumptions C01_lex_next_no_panic.
Print Assumptions C01_lex_progress.
Print Assumptions C01_lex_total.
Print Assumptions C01_lex_params_total.
Print Assumptions C01_tokenize_shape.
Print Assumptions C01_run_tokens_total.
Print Assumptions C01_run_total.
Print Assumptions C01_pull_only_data.
Print Assumptions C01_pull_req_only_data.
Print Assumptions C01_conv_total.
Print Assumptions C01_nlist_total.
Print Assumptions C01_clist_total.
Print Assumptions C01_spec_values_total.
Print Assumptions C01_spec_tuple_total.
