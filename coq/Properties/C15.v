(* C15 — Status event registers latch filtered condition transitions until read. *)
From VF Require Import Base Status StatusSpec Status_proofs Contrib ContribSpec Contrib_proofs Grammar MessageSpec ContribMeaning ContribMeaning_proofs.
Open Scope N_scope.

(* For ANY history of condition updates (arbitrary values), filter/enable writes, queries, *CLS
   and PRESet on a register set, and every bit position: the event bit is 1 exactly if, since the
   event register was last read or cleared, the condition bit made a 0->1 transition while its
   positive-transition filter bit was set or a 1->0 transition while its negative filter bit was set. *)
Theorem C15_event_latched : forall h i, i < 16 ->
  (N.testbit (event (reg_run h)) i = true <-> latched i h).
Proof. exact event_latched. Qed.

(* reading the event register returns it (bit 15 masked) and clears it *)
Theorem C15_event_read_clears : forall r,
  reg_step r RRdEvent = (mkReg (condition r) 0 (enable r) (ntr_filter r) (ptr_filter r), Some (N.land (event r) m15)).
Proof. exact event_read_clears. Qed.

(* reading condition / enable / filters changes nothing *)
Theorem C15_other_reads_pure : forall r o, In o [RRdCondition; RRdEnable; RRdPtr; RRdNtr] -> fst (reg_step r o) = r.
Proof. exact other_reads_pure. Qed.

(* enable and filter registers (and the condition) read back the last value written, masked to 15 bits *)
Theorem C15_readback : forall h,
  snd (reg_step (reg_run h) RRdEnable) = Some (N.land (enable_of h) m15)
  /\ snd (reg_step (reg_run h) RRdPtr) = Some (N.land (ptr_of h) m15)
  /\ snd (reg_step (reg_run h) RRdNtr) = Some (N.land (ntr_of h) m15)
  /\ snd (reg_step (reg_run h) RRdCondition) = Some (N.land (cond_of h) m15).
Proof. exact readback. Qed.

(* every reported value has bit 15 clear, and reports bits 0..14 faithfully *)
Theorem C15_bit15_clear : forall r o n, snd (reg_step r o) = Some n -> N.testbit n 15 = false.
Proof. exact reg_outputs_bit15_clear. Qed.
Theorem C15_low_bits_faithful : forall x i, i < 15 -> N.testbit (N.land x m15) i = N.testbit x i.
Proof. exact land_m15_low. Qed.

(* STATus:PRESet: enable 0, positive filter all ones, negative filter 0; the event register is kept *)
Theorem C15_preset_values : forall r,
  enable (reg_preset r) = 0 /\ ptr_filter (reg_preset r) = m16 /\ ntr_filter (reg_preset r) = 0
  /\ event (reg_preset r) = event r.
Proof. exact preset_values. Qed.

(* non-vacuity: a history that latches bit 0 by a filtered negative transition and bit 3 not at all *)
Example C15_example :
  let h := [RWrNtr 1; RWrPtr 0; RSet 9; RSet 8; RRdCondition] in
  event (reg_run h) = 1 /\ latched 0 h.
Proof.
  split; [reflexivity|]. exists [RWrNtr 1; RWrPtr 0; RSet 9], 8, [RRdCondition].
  repeat split; cbn; auto. discriminate.
Qed.

(* The theorems above are about the operation-level device model (Status.v).  They transfer to the byte-level
   full-stack model of Contrib.v (program-message bytes -> Lexer -> Tree dispatcher -> the mandated command tree ->
   Response formatter -> error hook): on the canonical text of any operation list, in every device state reachable
   from power-on by such messages, the full stack computes exactly the operation-level result (state, response
   bytes, error), and never panics. *)
Theorem C15_full_stack_refines : forall msgs mav us,
  forallb (fun m => forallb renderable (snd m)) msgs = true -> forallb renderable us = true ->
  dev_message (session_ops dev_init msgs) mav (units_text us) = Val (op_message (session_ops dev_init msgs) mav us).
Proof. exact contrib_refines_ops_session. Qed.
(* ... and in an arbitrary device state exactly when every queued error is renderable (a custom non-ASCII message
   without extended text is not: the response formatter rejects it) *)
Theorem C15_full_stack_refines_iff : forall d,
  (forall mav us, forallb renderable us = true -> dev_message d mav (units_text us) = Val (op_message d mav us))
  <-> queue_printable d = true.
Proof. exact contrib_refines_ops_iff. Qed.

(* ... and for EVERY well-formed program message addressed to the mandated tree, in any spelling (short / long
   mnemonics, any case, absolute or relative headers, default nodes spelled or omitted, any layout) and with any data
   elements (right, wrong, missing, too many): [message_ops m] (ContribMeaning.v) reads the message as a list of
   operations through the designation relation of HeaderSpec.v, and in every state reachable from power-on the full
   stack computes the operation-level result: same device state, same returned error, same response bytes (up to
   one unit separator left in the buffer of a message that FAILS on the query form of a command without one,
   characterised exactly by [stray_separator]). *)
Theorem C15_full_stack_all_messages : forall ms (m : msg) (mav : bool) (us : list sop),
  wf_msg m = true -> message_ops m = Some us ->
  dev_message (session_msgs dev_init ms) mav (render_msg m)
  = Val (with_stray m (op_message (session_msgs dev_init ms) mav us)).
Proof. exact contrib_refines_ops_sep_session. Qed.
Theorem C15_full_stack_all_messages_exact : forall (m : msg) (mav : bool) (d : dev) (us : list sop),
  wf_msg m = true -> queue_printable d = true -> message_ops m = Some us ->
  (dev_message d mav (render_msg m) = Val (op_message d mav us) <-> stray_separator m = false).
Proof. exact contrib_refines_ops_all_iff. Qed.

From VF Require Import Gen_Esr ErrTable Lexer Contrib_anybytes.

(* ANY byte string: every register stays within its width (ESR/ESE/SRE < 256, the five fields of both register sets < 65536), so the masked read-outs are faithful in every reachable state *)
Theorem C15_dev_message_preserves_regs_ok : forall d mav bytes d' out r,
  regs_ok d -> dev_message d mav bytes = Val (d', out, r) -> regs_ok d'.
Proof. exact dev_message_preserves_regs_ok. Qed.
Theorem C15_dev_session_regs_ok : forall msgs d d', regs_ok d -> dev_session d msgs = Val d' -> regs_ok d'.
Proof. exact dev_session_regs_ok. Qed.

Print Assumptions C15_event_latched.
Print Assumptions C15_event_read_clears.
Print Assumptions C15_other_reads_pure.
Print Assumptions C15_readback.
Print Assumptions C15_bit15_clear.
Print Assumptions C15_low_bits_faithful.
Print Assumptions C15_preset_values.
Print Assumptions C15_full_stack_refines.
Print Assumptions C15_full_stack_refines_iff.
Print Assumptions C15_full_stack_all_messages.
Print Assumptions C15_full_stack_all_messages_exact.
Print Assumptions C15_dev_message_preserves_regs_ok.
Print Assumptions C15_dev_session_regs_ok.
