(* C12 — The error/event queue is a bounded FIFO whose overflow is marked by -350.
   Only statements, each closed by [exact]; proofs are in Queue_proofs.v. *)
From VF Require Import Base Gen_Errors Queue Queue_proofs.
Open Scope nat_scope.

Notation aq_push := (aq_push error queue_overflow_error).
Notation q_run := (q_run error queue_overflow_error).
Definition is_overflow (e : error) : bool := Z.eqb (ecode e) (-350).

(* the marker really is -350 in the source *)
Theorem C12_marker_is_350 : ecode queue_overflow_error = (-350)%Z.
Proof. reflexivity. Qed.

(* A queue of capacity N >= 1 never holds more than N entries, whatever the history,
   and no operation panics. *)
Theorem C12_bounded : forall cap ops q, 1 <= cap -> length q <= cap ->
  exists q' out, q_run (Some cap) q ops = Val (q', out) /\ length q' <= cap.
Proof. exact (aq_bounded error queue_overflow_error). Qed.

(* While there is room a push appends. *)
Theorem C12_push_room : forall cap q e, length q < cap -> aq_push cap q e = Val (q ++ [e]).
Proof. exact (aq_push_room error queue_overflow_error). Qed.

(* Once full: the new error is dropped, the newest retained position reads -350,
   the N-1 older entries are preserved unchanged and in order. *)
Theorem C12_push_full : forall cap q e, 1 <= cap -> length q = cap ->
  aq_push cap q e = Val (firstn (cap - 1) q ++ [queue_overflow_error]).
Proof. exact (aq_push_full error queue_overflow_error). Qed.

(* Removal returns the oldest entry and keeps the rest. *)
Theorem C12_pop_head : forall q : list error, q_pop error q = (hd_error q, tl q).
Proof. exact (q_pop_head error). Qed.

(* The length query reports the exact number of entries. *)
Theorem C12_len_exact : forall cap q, q_step error queue_overflow_error cap q QLen = Val (q, [OLen (length q)]).
Proof. exact (q_len_exact error queue_overflow_error). Qed.

(* The growable queue is the unbounded FIFO: pops ++ remaining = initial ++ pushes. *)
Theorem C12_vec_fifo : forall ops q q' out,
  no_clear error ops = true -> q_run None q ops = Val (q', out) ->
  popped_of error out ++ q' = q ++ pushes_of error ops.
Proof. exact (vq_fifo error queue_overflow_error). Qed.

(* A clear restarts the history with an empty queue (both implementations). *)
Theorem C12_clear_restarts : forall cap ops q, (forall c, cap = Some c -> 1 <= c) ->
  q_run cap q (QClear :: ops) = q_run cap [] ops.
Proof. exact (q_clear_restarts error queue_overflow_error). Qed.

(* As long as no push finds it full, the bounded queue behaves exactly as the unbounded FIFO
   (same outputs, same content) — in particular removing entries makes room again. *)
Theorem C12_refines_fifo : forall cap ops q,
  fits error cap (length q) ops = true -> q_run (Some cap) q ops = q_run None q ops.
Proof. exact (aq_refines_fifo error queue_overflow_error). Qed.

(* In general (overflows and clears included) order is never disturbed: what is popped or
   still queued, overflow markers aside, is a subsequence of what was pushed. *)
Theorem C12_order_preserved : forall cap ops q q' out,
  q_run (Some cap) q ops = Val (q', out) ->
  sublist error (keep error is_overflow (popped_of error out ++ q'))
                (keep error is_overflow (q ++ pushes_of error ops)).
Proof. exact (aq_order_preserved error queue_overflow_error is_overflow eq_refl). Qed.

(* non-vacuity: a concrete history that fills, overflows, drains and refills *)
Example C12_example :
  let e n := std_error (Z.of_nat n) in
  q_run (Some 2) [] [QPush (e 1); QPush (e 2); QPush (e 3); QLen; QPop; QPop; QPop; QPush (e 4); QPop]
  = Val ([], [OLen 2; OPop (Some (e 1)); OPop (Some queue_overflow_error); OPop None; OPop (Some (e 4))]).
Proof. reflexivity. Qed.

Print Assumptions C12_marker_is_350.
Print Assumptions C12_bounded.
Print Assumptions C12_push_room.
Print Assumptions C12_push_full.
Print Assumptions C12_pop_head.
Print Assumptions C12_len_exact.
Print Assumptions C12_vec_fifo.
Print Assumptions C12_clear_restarts.
Print Assumptions C12_refines_fifo.
Print Assumptions C12_order_preserved.
