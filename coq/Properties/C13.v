(* C13 — Every failed message is queued once, flagged in ESR, and read back in order
   (device level: the mandated handlers and Node::run's error hook on the documented wiring). *)
From VF Require Import Base Gen_Errors ErrSpec Status Status_proofs Contrib ContribSpec Contrib_proofs Grammar MessageSpec ContribMeaning ContribMeaning_proofs.
Open Scope N_scope.

(* A message that fails: the state is the one left by the executed prefix, plus exactly the
   error appended to the queue and exactly its class bit set in ESR; nothing else changes. *)
Theorem C13_fail_queues_once : forall mav us d acc d' out e,
  msg_run mav d us acc = (d', out, Some e) ->
  exists pre post d1, us = pre ++ post /\ msg_run mav d pre acc = (d1, out, None)
    /\ (exists o, hd_error post = Some o /\ snd (sop_step mav d1 o) = Some e
          /\ let d2 := fst (fst (sop_step mav d1 o)) in
             queue d' = queue d2 ++ [e] /\ esr d' = N.lor (esr d2) (class_bit (ecode e))
             /\ ese d' = ese d2 /\ sre d' = sre d2 /\ oper d' = oper d2 /\ ques d' = ques d2).
Proof. exact fail_queues_once. Qed.

(* A message that succeeds and contains no *OPC queues nothing (the queue only shrinks, by the
   error-queue queries) and sets no ESR bit. *)
Theorem C13_ok_queues_nothing : forall mav us d acc d' out,
  forallb quiet us = true -> msg_run mav d us acc = (d', out, None) ->
  is_suffix (queue d') (queue d) /\ (forall i, N.testbit (esr d') i = true -> N.testbit (esr d) i = true).
Proof. exact ok_queues_nothing. Qed.

(* SYSTem:ERRor[:NEXT]? / :COUNt? / :ALL? / *ESR? *)
Theorem C13_syst_err_next : forall mav d,
  sop_step mav d SErrNext =
  match queue d with
  | [] => (d, Some [RErr (std_error 0%Z)], None)
  | e :: q => (set_queue d q, Some [RErr e], None)
  end.
Proof. exact syst_err_next. Qed.
Theorem C13_syst_err_count : forall mav d,
  sop_step mav d SErrCount = (d, Some [RNum (N.of_nat (length (queue d)))], None).
Proof. exact syst_err_count. Qed.
Theorem C13_syst_err_all : forall mav d,
  sop_step mav d SErrAll =
  match queue d with
  | [] => (d, Some [RErr (std_error 0%Z)], None)
  | q => (set_queue d [], Some (map RErr q), None)
  end.
Proof. exact syst_err_all. Qed.
Theorem C13_esr_read_clears : forall mav d,
  sop_step mav d SRdEsr = (set_esr d 0, Some [RNum (esr d)], None).
Proof. exact esr_read_clears. Qed.

Example C13_example :
  let e := std_error (-113)%Z in
  msg_run false dev_init [SWrEse 32; SFail e; SWrEse 1] [] = (push_error (set_ese dev_init 32) e, [], Some e)
  /\ esr (push_error (set_ese dev_init 32) e) = 32.
Proof. split; reflexivity. Qed.

(* The theorems above are about the operation-level device model (Status.v).  They transfer to the byte-level
   full-stack model of Contrib.v (program-message bytes -> Lexer -> Tree dispatcher -> the mandated command tree ->
   Response formatter -> error hook): on the canonical text of any operation list, in every device state reachable
   from power-on by such messages, the full stack computes exactly the operation-level result (state, response
   bytes, error), and never panics. *)
Theorem C13_full_stack_refines : forall msgs mav us,
  forallb (fun m => forallb renderable (snd m)) msgs = true -> forallb renderable us = true ->
  dev_message (session_ops dev_init msgs) mav (units_text us) = Val (op_message (session_ops dev_init msgs) mav us).
Proof. exact contrib_refines_ops_session. Qed.
(* ... and in an arbitrary device state exactly when every queued error is renderable (a custom non-ASCII message
   without extended text is not: the response formatter rejects it) *)
Theorem C13_full_stack_refines_iff : forall d,
  (forall mav us, forallb renderable us = true -> dev_message d mav (units_text us) = Val (op_message d mav us))
  <-> queue_printable d = true.
Proof. exact contrib_refines_ops_iff. Qed.

(* ... and for EVERY well-formed program message addressed to the mandated tree, in any spelling (short / long
   mnemonics, any case, absolute or relative headers, default nodes spelled or omitted, any layout) and with any data
   elements (right, wrong, missing, too many): [message_ops m] (ContribMeaning.v) reads the message as a list of
   operations through the designation relation of HeaderSpec.v, and in every state reachable from power-on the full
   stack computes the operation-level result: same device state, same returned error, same response bytes (up to
   one unit separator left in the buffer of a message that FAILS on the query form of a command without one,
   characterised exactly by [stray_separator]). *)
Theorem C13_full_stack_all_messages : forall ms (m : msg) (mav : bool) (us : list sop),
  wf_msg m = true -> message_ops m = Some us ->
  dev_message (session_msgs dev_init ms) mav (render_msg m)
  = Val (with_stray m (op_message (session_msgs dev_init ms) mav us)).
Proof. exact contrib_refines_ops_sep_session. Qed.
Theorem C13_full_stack_all_messages_exact : forall (m : msg) (mav : bool) (d : dev) (us : list sop),
  wf_msg m = true -> queue_printable d = true -> message_ops m = Some us ->
  (dev_message d mav (render_msg m) = Val (op_message d mav us) <-> stray_separator m = false).
Proof. exact contrib_refines_ops_all_iff. Qed.

From VF Require Import Gen_Esr ErrTable Lexer Tree Tree_invariant Contrib_anybytes.

(* ANY byte string (well-formed or not) sent to the mandated tree: the handlers only perform quiet steps (pop, clear, operation-complete, register writes); a failed message then appends exactly its error LAST and sets its class bit; a successful one queues no error and raises no error bit (Contrib_anybytes.v, by the generic lifting theorem Tree_invariant.run_lifts) *)
Theorem C13_dev_message_any_bytes : forall d mav bytes d' out r,
  dev_message d mav bytes = Val (d', out, r) ->
  exists dh, quiet_step d dh /\
    match r with
    | None => d' = dh
    | Some e => d' = push_error dh e
    end.
Proof. exact dev_message_any_bytes. Qed.
Theorem C13_any_failed_message_queues_its_error_last : forall d mav bytes d' out e,
  dev_message d mav bytes = Val (d', out, Some e) ->
  exists q, queue d' = q ++ [e] /\ (forall x, In x q -> In x (queue d) \/ x = std_error OperationComplete)
  /\ N.land (esr d') (error_esr_mask e) = error_esr_mask e
  /\ (forall i, N.testbit err_bits i = true -> N.testbit (esr d') i = true ->
        N.testbit (esr d) i = true \/ N.testbit (error_esr_mask e) i = true).
Proof. exact any_failed_message_queues_its_error_last. Qed.
Theorem C13_any_failed_message_exact : forall d mav bytes d' out e,
  dev_message d mav bytes = Val (d', out, Some e) ->
  exists n k dh,
    queue d' = skipn n (queue d) ++ repeat (std_error OperationComplete) k ++ [e]
    /\ esr d' = N.lor (esr dh) (error_esr_mask e)
    /\ (forall i, N.testbit (esr dh) i = true -> N.testbit (esr d) i = true \/ i = 0)
    /\ tst_result d' = tst_result d
    /\ ese d' = ese dh /\ sre d' = sre dh /\ oper d' = oper dh /\ ques d' = ques dh.
Proof. exact any_failed_message_exact. Qed.
Theorem C13_any_successful_message_queues_no_error : forall d mav bytes d' out,
  dev_message d mav bytes = Val (d', out, None) ->
  (forall x, In x (queue d') -> In x (queue d) \/ x = std_error OperationComplete)
  /\ (forall i, N.testbit err_bits i = true -> N.testbit (esr d') i = true -> N.testbit (esr d) i = true).
Proof. exact any_successful_message_queues_no_error. Qed.
Theorem C13_any_successful_message_exact : forall d mav bytes d' out,
  dev_message d mav bytes = Val (d', out, None) ->
  (exists n k, queue d' = skipn n (queue d) ++ repeat (std_error OperationComplete) k)
  /\ (forall i, N.testbit (esr d') i = true -> N.testbit (esr d) i = true \/ i = 0)
  /\ tst_result d' = tst_result d.
Proof. exact any_successful_message_exact. Qed.
Theorem C13_dev_message_total : forall d mav bytes, exists r, dev_message d mav bytes = Val r.
Proof. exact dev_message_total. Qed.
Theorem C13_queue_evolves_shape : forall q q',
  queue_evolves q q' <-> exists n k, q' = skipn n q ++ repeat opc_event k.
Proof. exact queue_evolves_shape. Qed.

Print Assumptions C13_fail_queues_once.
Print Assumptions C13_ok_queues_nothing.
Print Assumptions C13_syst_err_next.
Print Assumptions C13_syst_err_count.
Print Assumptions C13_syst_err_all.
Print Assumptions C13_esr_read_clears.
Print Assumptions C13_full_stack_refines.
Print Assumptions C13_full_stack_refines_iff.
Print Assumptions C13_full_stack_all_messages.
Print Assumptions C13_full_stack_all_messages_exact.
Print Assumptions C13_dev_message_any_bytes.
Print Assumptions C13_any_failed_message_queues_its_error_last.
Print Assumptions C13_any_failed_message_exact.
Print Assumptions C13_any_successful_message_queues_no_error.
Print Assumptions C13_any_successful_message_exact.
Print Assumptions C13_dev_message_total.
Print Assumptions C13_queue_evolves_shape.
