(* C20 — Derived enums map mnemonics to variants and back consistently
   Statements only: each theorem is closed by `exact` of a lemma proved in the *_proofs.v files. *)
From VF Require Import Base Gen_Errors Lexer Mnemonic MnemonicSpec Enum Enum_proofs.
Open Scope N_scope.

Theorem C20_from_sound : forall defs s i, from_mnemonic defs s = Some i ->
  exists m, nth_error defs i = Some m /\ mnemonic_match m s = true.
Proof. exact from_sound. Qed.

Theorem C20_from_first : forall defs s i j m, from_mnemonic defs s = Some i -> (j < i)%nat ->
  nth_error defs j = Some m -> mnemonic_match m s = false.
Proof. exact from_first. Qed.

Theorem C20_from_none : forall defs s, from_mnemonic defs s = None <->
  (forall m, In m defs -> mnemonic_match m s = false).
Proof. exact from_none. Qed.

Theorem C20_from_iff : forall defs s i m, no_overlap defs -> nth_error defs i = Some m ->
  (from_mnemonic defs s = Some i <-> mnemonic_match m s = true).
Proof. exact from_iff. Qed.

Theorem C20_try_from_char : forall defs s, enum_try_from defs (TChar s) =
  match from_mnemonic defs s with Some i => Ok i | None => Err IllegalParameterValue end.
Proof. exact try_from_char. Qed.

Theorem C20_try_from_other : forall defs tok, (forall s, tok <> TChar s) -> enum_try_from defs tok = Err DataTypeError.
Proof. exact try_from_other. Qed.

Theorem C20_illegal_iff : forall defs s, enum_try_from defs (TChar s) = Err IllegalParameterValue <->
  (forall m, In m defs -> mnemonic_match m s = false).
Proof. exact illegal_iff. Qed.

Theorem C20_mnemonic_own : forall defs i, mnemonic_of defs i = nth_error defs i.
Proof. exact mnemonic_own. Qed.

Theorem C20_short_form_shape : forall U L Dg, U <> [] -> all_b is_upper U = true -> all_b is_lower L = true -> all_b is_digit Dg = true ->
  short_form (U ++ L ++ Dg) = match L with [] => U ++ Dg | _ => U end.
Proof. exact short_form_shape. Qed.

Theorem C20_response_form : forall U L Dg, U <> [] -> all_b is_upper U = true -> all_b is_lower L = true -> all_b is_digit Dg = true ->
  enum_response (U ++ L ++ Dg) = U ++ Dg.
Proof. exact response_form. Qed.

Theorem C20_response_matches_own : forall m, enum_shape m -> mnemonic_match m (enum_response m) = true.
Proof. exact response_matches_own. Qed.

Theorem C20_enum_roundtrip : forall defs i m, no_overlap defs -> nth_error defs i = Some m -> enum_shape m ->
  from_mnemonic defs (enum_response m) = Some i.
Proof. exact enum_roundtrip. Qed.

Print Assumptions C20_from_sound.
Print Assumptions C20_from_first.
Print Assumptions C20_from_none.
Print Assumptions C20_from_iff.
Print Assumptions C20_try_from_char.
Print Assumptions C20_try_from_other.
Print Assumptions C20_illegal_iff.
Print Assumptions C20_mnemonic_own.
Print Assumptions C20_short_form_shape.
Print Assumptions C20_response_form.
Print Assumptions C20_response_matches_own.
Print Assumptions C20_enum_roundtrip.
