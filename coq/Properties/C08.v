(* C08 — Float, boolean and keyword parameters convert to the exact denoted value
   Statements only: each theorem is closed by `exact` of a lemma proved in the *_proofs.v files. *)
From Coq Require Import QArith Qabs Floats.SpecFloat.
From VF Require Import Base Gen_Errors Fmt Lexer Mnemonic Conv Conv_proofs.
Local Open Scope Q_scope.

Theorem C08_float_conv_dec : forall t s, conv_float t (TDec s) =
  Val (match parse_float t s with Some v => Ok v | None => Err NumericDataError end).
Proof. exact float_conv_dec. Qed.

Theorem C08_float_keywords : forall t s, conv_float t (TChar s) = Val (
  if mnemonic_compare kw_inf s then Ok (S754_infinity false) else if mnemonic_compare kw_ninf s then Ok (S754_infinity true)
  else if mnemonic_compare kw_nan s then Ok S754_nan else if mnemonic_compare kw_max s then Ok (sf_max t false)
  else if mnemonic_compare kw_min s then Ok (sf_max t true) else Err DataTypeError).
Proof. exact float_keywords. Qed.

Theorem C08_bool_numeric : forall s neg m e10 b, parse_nrf s = Some (neg, m, e10) -> conv_bool (TDec s) = Val (Ok b) ->
  (b = false <-> exists x, sf2Q (dec2sf 53 1024 neg m e10) = Some x /\ Qabs x < 1 # 2).
Proof. exact bool_numeric. Qed.

Theorem C08_bool_numeric_total : forall s neg m e10, parse_nrf s = Some (neg, m, e10) -> exists b, conv_bool (TDec s) = Val (Ok b).
Proof. exact bool_numeric_total. Qed.

Theorem C08_bool_onoff : forall s, conv_bool (TChar s) =
  Val (if bytes_eq_nocase s kw_on then Ok true else if bytes_eq_nocase s kw_off then Ok false else Err IllegalParameterValue).
Proof. exact bool_onoff. Qed.

Theorem C08_accept_float : forall t tok v, conv_float t tok = Val (Ok v) -> (exists s, tok = TDec s) \/ (exists s, tok = TChar s).
Proof. exact accept_float. Qed.

Theorem C08_accept_bool : forall tok b, conv_bool tok = Val (Ok b) -> (exists s, tok = TDec s) \/ (exists s, tok = TChar s).
Proof. exact accept_bool. Qed.

Theorem C08_accept_bytes : forall t tok s, conv_bytes t tok = Val (Ok s) ->
  match t with BBytes => tok = TString s | BStr => (tok = TString s \/ tok = TBlock s) /\ utf8_valid s = true
             | BArb => tok = TBlock s | BChr => tok = TChar s | BExpr => tok = TExpr s end.
Proof. exact accept_bytes. Qed.

Theorem C08_conv_error_codes : forall tok e,
  (forall t, conv_int t tok = Val (Err e) -> In e [DataTypeError; SuffixNotAllowed; DataOutOfRange; NumericDataError]) /\
  (forall t, conv_float t tok = Val (Err e) -> In e [DataTypeError; SuffixNotAllowed; NumericDataError]) /\
  (conv_bool tok = Val (Err e) -> In e [DataTypeError; IllegalParameterValue; NumericDataError]) /\
  (forall t, conv_bytes t tok = Val (Err e) -> In e [DataTypeError; StringDataError]).
Proof. exact conv_error_codes. Qed.

Theorem C08_conv_total : forall tok, is_data tok = true ->
  (forall t, exists r, conv_int t tok = Val r) /\ (forall t, exists r, conv_float t tok = Val r)
  /\ (exists r, conv_bool tok = Val r) /\ (forall t, exists r, conv_bytes t tok = Val r).
Proof. exact conv_total. Qed.

(* the float the model reads for a decimal literal IS the correctly rounded IEEE-754 value (Flocq 4.1) *)
From Coq Require Import Reals.
From Flocq Require Import Core.Core IEEE754.BinarySingleNaN.
From VF Require Import Float_proofs.
Local Close Scope Q_scope.
Local Open Scope Z_scope.

Theorem C08_dec2sf_correct_f64 : forall neg m e10,
  let x := dec_valueN neg m e10 in
  let r := round radix2 (FLT_exp (-1074) 53) ZnearestE x in
  if Rlt_bool (Rabs r) (bpow radix2 1024)
  then SF2R radix2 (dec2sf 53 1024 neg m e10) = r
       /\ is_finite_SF (dec2sf 53 1024 neg m e10) = true
       /\ sign_SF (dec2sf 53 1024 neg m e10) = neg
  else dec2sf 53 1024 neg m e10 = S754_infinity neg.
Proof. exact dec2sf_correct_f64. Qed.

Theorem C08_dec2sf_correct_f32 : forall neg m e10,
  let x := dec_valueN neg m e10 in
  let r := round radix2 (FLT_exp (-149) 24) ZnearestE x in
  if Rlt_bool (Rabs r) (bpow radix2 128)
  then SF2R radix2 (dec2sf 24 128 neg m e10) = r
       /\ is_finite_SF (dec2sf 24 128 neg m e10) = true
       /\ sign_SF (dec2sf 24 128 neg m e10) = neg
  else dec2sf 24 128 neg m e10 = S754_infinity neg.
Proof. exact dec2sf_correct_f32. Qed.

Theorem C08_dec2sf_core_correct_f64 : forall neg m e10, e10 <> 0 ->
  let x := dec_value neg m e10 in
  let r := round radix2 (FLT_exp (-1074) 53) ZnearestE x in
  if Rlt_bool (Rabs r) (bpow radix2 1024)
  then SF2R radix2 (dec2sf_core 53 1024 neg m e10) = r
       /\ is_finite_SF (dec2sf_core 53 1024 neg m e10) = true
  else dec2sf_core 53 1024 neg m e10 = S754_infinity neg.
Proof. exact dec2sf_core_correct_f64. Qed.

Theorem C08_dec2sf_core_correct_f32 : forall neg m e10, e10 <> 0 ->
  let x := dec_value neg m e10 in
  let r := round radix2 (FLT_exp (-149) 24) ZnearestE x in
  if Rlt_bool (Rabs r) (bpow radix2 128)
  then SF2R radix2 (dec2sf_core 24 128 neg m e10) = r
       /\ is_finite_SF (dec2sf_core 24 128 neg m e10) = true
  else dec2sf_core 24 128 neg m e10 = S754_infinity neg.
Proof. exact dec2sf_core_correct_f32. Qed.

Theorem C08_dec_value_sign : forall neg m e10,
  dec_value neg m e10 = ((if neg then -1 else 1) * (IZR (Zpos m) * bpow radix10 e10))%R.
Proof. exact dec_value_sign. Qed.

Print Assumptions C08_float_conv_dec.
Print Assumptions C08_float_keywords.
Print Assumptions C08_bool_numeric.
Print Assumptions C08_bool_numeric_total.
Print Assumptions C08_bool_onoff.
Print Assumptions C08_accept_float.
Print Assumptions C08_accept_bool.
Print Assumptions C08_accept_bytes.
Print Assumptions C08_conv_error_codes.
Print Assumptions C08_conv_total.
Print Assumptions C08_dec2sf_correct_f64.
Print Assumptions C08_dec2sf_correct_f32.
Print Assumptions C08_dec2sf_core_correct_f64.
Print Assumptions C08_dec2sf_core_correct_f32.
Print Assumptions C08_dec_value_sign.
