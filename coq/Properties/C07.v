(* C07 — Integer parameters convert to the exactly rounded value or a range error
   Statements only: each theorem is closed by `exact` of a lemma proved in the *_proofs.v files. *)
From Coq Require Import QArith Qabs Floats.SpecFloat.
From VF Require Import Base Gen_Errors Fmt Lexer Mnemonic Conv Conv_proofs.
Local Open Scope Q_scope.

Theorem C07_int_conv_correct : forall t s neg m e10, parse_nrf s = Some (neg, m, e10) ->
  exists r, conv_int t (TDec s) = Val r /\
    int_conv_ok t (lit2Q neg m e10) (dec2sf (f_prec (ity_float t)) (f_emax (ity_float t)) neg m e10) r.
Proof. exact int_conv_correct. Qed.

Theorem C07_round_half_away_nearest : forall f n x, sf_round_half_away f = Some n -> sf2Q f = Some x -> nearest n x.
Proof. exact round_half_away_nearest. Qed.

Theorem C07_round_half_away_none : forall f, sf_round_half_away f = None <-> sf2Q f = None.
Proof. exact round_half_away_none. Qed.

Theorem C07_nr1_exact : forall t s z neg m e10, lexical_parse_int t s = IPValue z -> parse_nrf s = Some (neg, m, e10) ->
  lit2Q neg m e10 == inject_Z z.
Proof. exact nr1_exact. Qed.

Theorem C07_nr1_range : forall t s neg m e10, lexical_parse_int t s = IPRange -> parse_nrf s = Some (neg, m, e10) ->
  exists z, lit2Q neg m e10 == inject_Z z /\ ~ in_range t z.
Proof. exact nr1_range. Qed.

Theorem C07_int_result_in_range : forall t tok n, conv_int t tok = Val (Ok n) -> in_range t n.
Proof. exact int_result_in_range. Qed.

Theorem C07_nondec_exact : forall t n,
  conv_int t (TNonDec n) = Val (if (Z.of_N n <=? ity_max t)%Z then Ok (Z.of_N n) else Err DataOutOfRange).
Proof. exact nondec_exact. Qed.

Theorem C07_int_keywords : forall t s, conv_int t (TChar s) =
  Val (if mnemonic_compare kw_max s then Ok (ity_max t) else if mnemonic_compare kw_min s then Ok (ity_min t) else Err DataTypeError).
Proof. exact int_keywords. Qed.

Theorem C07_int_suffix_rejected : forall t v s, conv_int t (TDecSuffix v s) = Val (Err SuffixNotAllowed).
Proof. exact int_suffix_rejected. Qed.

Theorem C07_int_other_rejected : forall t tok, is_data tok = true ->
  (forall s, tok <> TDec s) -> (forall n, tok <> TNonDec n) -> (forall s, tok <> TChar s) -> (forall v s, tok <> TDecSuffix v s) ->
  conv_int t tok = Val (Err DataTypeError).
Proof. exact int_other_rejected. Qed.

Theorem C07_accept_int : forall t tok n, conv_int t tok = Val (Ok n) ->
  (exists s, tok = TDec s) \/ (exists k, tok = TNonDec k) \/ (exists s, tok = TChar s).
Proof. exact accept_int. Qed.

(* the float the model reads for a decimal literal IS the correctly rounded IEEE-754 value (Flocq 4.1) *)
From Coq Require Import Reals.
From Flocq Require Import Core.Core IEEE754.BinarySingleNaN.
From VF Require Import Float_proofs.
Local Close Scope Q_scope.
Local Open Scope Z_scope.

Theorem C07_dec2sf_correct_f64 : forall neg m e10,
  let x := dec_valueN neg m e10 in
  let r := round radix2 (FLT_exp (-1074) 53) ZnearestE x in
  if Rlt_bool (Rabs r) (bpow radix2 1024)
  then SF2R radix2 (dec2sf 53 1024 neg m e10) = r
       /\ is_finite_SF (dec2sf 53 1024 neg m e10) = true
       /\ sign_SF (dec2sf 53 1024 neg m e10) = neg
  else dec2sf 53 1024 neg m e10 = S754_infinity neg.
Proof. exact dec2sf_correct_f64. Qed.

Theorem C07_dec2sf_correct_f32 : forall neg m e10,
  let x := dec_valueN neg m e10 in
  let r := round radix2 (FLT_exp (-149) 24) ZnearestE x in
  if Rlt_bool (Rabs r) (bpow radix2 128)
  then SF2R radix2 (dec2sf 24 128 neg m e10) = r
       /\ is_finite_SF (dec2sf 24 128 neg m e10) = true
       /\ sign_SF (dec2sf 24 128 neg m e10) = neg
  else dec2sf 24 128 neg m e10 = S754_infinity neg.
Proof. exact dec2sf_correct_f32. Qed.

Print Assumptions C07_int_conv_correct.
Print Assumptions C07_round_half_away_nearest.
Print Assumptions C07_round_half_away_none.
Print Assumptions C07_nr1_exact.
Print Assumptions C07_nr1_range.
Print Assumptions C07_int_result_in_range.
Print Assumptions C07_nondec_exact.
Print Assumptions C07_int_keywords.
Print Assumptions C07_int_suffix_rejected.
Print Assumptions C07_int_other_rejected.
Print Assumptions C07_accept_int.
Print Assumptions C07_dec2sf_correct_f64.
Print Assumptions C07_dec2sf_correct_f32.
