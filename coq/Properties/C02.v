(* C02 — Compound-command header paths resolve to exactly the SCPI-designated handler
   Statements only: each theorem is closed by `exact` of a lemma proved in the *_proofs.v files. *)
From VF Require Import Base Gen_Errors Lexer Mnemonic Grammar Response Tree HeaderSpec Header_proofs MessageSpec Message_proofs.
Open Scope N_scope.

Section C02_statements.
Context {D : Type}.

Theorem C02_resolve_sound : forall (self ctx : tree D) ms tail c q ctx' toks', header_end tail ->
  resolve self ctx (hdr_toks ms ++ tail) = RFound c q ctx' toks' ->
  In (c, ctx') (desig self ctx ms) /\ q = is_query_tail tail /\ toks' = after_header tail.
Proof. apply resolve_sound. Qed.

Theorem C02_resolve_undefined : forall (self ctx : tree D) ms tail, header_end tail -> desig self ctx ms = [] ->
  exists toks', resolve self ctx (hdr_toks ms ++ tail) = RFail UndefinedHeader toks'.
Proof. apply resolve_undefined. Qed.

Theorem C02_exec_undefined_invokes_nothing : forall (self ctx : tree D) s e toks', resolve self ctx (x_toks s) = RFail e toks' ->
  exec self ctx s = XErr (std_error e) (with_toks s toks') /\ x_trace (with_toks s toks') = x_trace s.
Proof. apply exec_undefined_invokes_nothing. Qed.

Theorem C02_resolve_complete : forall (self ctx : tree D) ms tail c ctx', wf_tree self -> header_end tail ->
  In (c, ctx') (desig self ctx ms) ->
  resolve self ctx (hdr_toks ms ++ tail) = RFound c (is_query_tail tail) ctx' (after_header tail).
Proof. apply resolve_complete. Qed.

Theorem C02_designation_unique : forall (self ctx : tree D) ms x y, wf_tree self ->
  In x (desig self ctx ms) -> In y (desig self ctx ms) -> x = y.
Proof. apply designation_unique. Qed.

Theorem C02_default_branch_omitted : forall name dflt sub (ch ctx : tree D) ms x, In ch sub -> is_default ch = true -> is_branch ch = true ->
  In x (desig ch ctx ms) -> In x (desig (Branch name dflt sub) ctx ms).
Proof. apply default_branch_omitted. Qed.

Theorem C02_default_leaf_omitted : forall name dflt sub n c (ctx : tree D), In (Leaf n true c) sub ->
  In (c, ctx) (desig (Branch name dflt sub) ctx []).
Proof. apply default_leaf_omitted. Qed.

Theorem C02_node_spelled_out : forall name dflt sub (ch ctx : tree D) m ms x, In ch sub -> mnemonic_match (node_name ch) m = true ->
  In x (desig ch (Branch name dflt sub) ms) -> In x (desig (Branch name dflt sub) ctx (m :: ms)).
Proof. apply node_spelled_out. Qed.

Theorem C02_unit_absolute : forall (root leaf : tree D) s rest, x_toks s = IOk THeaderMnemonicSeparator :: rest ->
  unit_body root leaf s = UExec (exec root root (with_toks s rest)).
Proof. apply unit_absolute. Qed.

Theorem C02_unit_common_keeps_context : forall (root leaf : tree D) s m rest leaf' s', x_toks s = IOk (TMnemonic m) :: rest ->
  starts_with_star m = true -> exec root root s = XOk leaf' s' -> unit_body root leaf s = UExec (XOk leaf s').
Proof. apply unit_common_keeps_context. Qed.

Theorem C02_unit_relative : forall (root leaf : tree D) s m rest, x_toks s = IOk (TMnemonic m) :: rest ->
  starts_with_star m = false -> unit_body root leaf s = UExec (exec leaf leaf s).
Proof. apply unit_relative. Qed.

Theorem C02_message_starts_at_root : forall (root : tree D) toks d f,
  run_tokens root toks d f = unit_loop (S (length toks)) root root (mkX toks d f []).
Proof. apply message_starts_at_root. Qed.

Theorem C02_message_semantics : forall (root : tree D) (m : msg) (d : D) (f : fmt),
  wf_tree root -> wf_msg m = true ->
  run root (render_msg m) d f = Val (spec_message root m d f).
Proof. apply message_semantics. Qed.

End C02_statements.

Print Assumptions C02_resolve_sound.
Print Assumptions C02_resolve_undefined.
Print Assumptions C02_exec_undefined_invokes_nothing.
Print Assumptions C02_resolve_complete.
Print Assumptions C02_designation_unique.
Print Assumptions C02_default_branch_omitted.
Print Assumptions C02_default_leaf_omitted.
Print Assumptions C02_node_spelled_out.
Print Assumptions C02_unit_absolute.
Print Assumptions C02_unit_common_keeps_context.
Print Assumptions C02_unit_relative.
Print Assumptions C02_message_starts_at_root.
Print Assumptions C02_message_semantics.
