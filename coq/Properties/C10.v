(* C10 — Responses are framed exactly: ; between units, , between data, one final NL
   Statements only: each theorem is closed by `exact` of a lemma proved in the *_proofs.v files. *)
From VF Require Import Base Gen_Errors Gen_Consts Fmt Lexer Response Tree Resp_proofs.
Open Scope N_scope.

Section C10_statements.
Context {D : Type}.

Theorem C10_framing : forall (root : tree D) input d r,
  run root input d (mkFmt None []) = Val r -> r_err r = None ->
  Forall (fun t => t <> []) (unit_texts (r_trace r)) ->
  r_out r = match unit_texts (r_trace r) with [] => [] | us => intercalate [59] us ++ [10] end.
Proof. apply framing. Qed.

Theorem C10_unit_text_structure : forall (hs : list (list byte)) (ds : list rdata) b,
  Forall (fun x => snd (chunks_of x) = None) ds ->
  let fu := fold_left (fun a x => ru_data (fst a) (snd a) x) ds
              (fold_left (fun a h => ru_header (fst a) (snd a) h) hs (mkFmt None b, runit_new)) in
  buf (fst fu) = b ++ intercalate [58] hs
                   ++ (match hs, ds with _ :: _, _ :: _ => [32] | _, _ => [] end)
                   ++ intercalate [44] (map data_text ds)
  /\ ru_result (snd fu) = None.
Proof. apply unit_text_structure. Qed.

Theorem C10_event_writes_nothing : forall (p : hprog D) toks f toks' d f' r,
  run_prog p toks f None = (toks', d, f', r) -> f' = f.
Proof. apply event_writes_nothing. Qed.

End C10_statements.

Print Assumptions C10_framing.
Print Assumptions C10_unit_text_structure.
Print Assumptions C10_event_writes_nothing.
