(* ContribMeaning_proofs.v — the full stack (bytes -> lexer -> dispatcher -> contrib handlers -> response formatter ->
   error hook) refines the operation-level device model on the operation-level meaning (ContribMeaning.v) of EVERY
   well-formed program message. *)
From VF Require Import Base Gen_Errors Gen_Consts ErrTable Fmt Lexer Mnemonic MnemonicSpec Grammar Response Conv Tree HeaderSpec
  Queue Status Contrib ContribSpec MessageSpec ContribMeaning.
From VF Require Import Mnemonic_proofs Fmt_proofs Resp_proofs Conv_proofs Header_proofs Message_proofs Contrib_proofs.
From Coq Require Import Lia ZifyBool ZifyN ZifyNat.
Open Scope N_scope.

(* ------------------------------------------------------------------ *)
(* 1. a boolean checker for wf_tree                                    *)
(* ------------------------------------------------------------------ *)
Fixpoint span (p : byte -> bool) (l : list byte) : list byte * list byte :=
  match l with
  | [] => ([], [])
  | x :: l' => if p x then let (a, b) := span p l' in (x :: a, b) else ([], l)
  end.

Lemma span_spec : forall p l a b, span p l = (a, b) -> l = a ++ b /\ forallb p a = true.
Proof.
  intros p. induction l as [|x l IH]; intros a b H; cbn [span] in H.
  - injection H as <- <-. split; reflexivity.
  - destruct (p x) eqn:Ep.
    + destruct (span p l) as [a' b'] eqn:Es. injection H as <- <-.
      destruct (IH a' b' eq_refl) as [-> Ha]. split; [reflexivity|]. cbn [forallb]. rewrite Ep, Ha. reflexivity.
    + injection H as <- <-. split; reflexivity.
Qed.

(* decision of MnemonicSpec.scpi_shape *)
Definition shapeb (def : list byte) : bool :=
  let r := match def with 42 :: r => r | _ => def end in
  let (U, r1) := span is_upper r in
  let (L, Dg) := span is_lower r1 in
  negb (is_nil U) && forallb is_digit Dg.

Lemma shapeb_sound : forall def, shapeb def = true -> scpi_shape def.
Proof.
  intros def H. unfold shapeb in H.
  set (r := match def with 42 :: r => r | _ => def end) in *.
  assert (Hdef : exists P, def = P ++ r /\ (P = [] \/ P = [42])).
  { subst r. destruct def as [|x def']; [exists []; auto|].
    destruct (N.eq_dec x 42) as [->|Hx].
    - exists [42]. auto.
    - exists []. split; [|auto]. destruct x as [|p]; [reflexivity|].
      do 6 (destruct p as [p|p|]; try reflexivity). congruence. }
  destruct Hdef as [P [Hdef HP]].
  destruct (span is_upper r) as [U r1] eqn:E1. destruct (span is_lower r1) as [L Dg] eqn:E2.
  apply andb_prop in H. destruct H as [HU HD].
  destruct (span_spec _ _ _ _ E1) as [-> HUu]. destruct (span_spec _ _ _ _ E2) as [-> HL].
  exists P, U, L, Dg. repeat split; try assumption.
  destruct U; [discriminate HU | discriminate].
Qed.

(* the two spellings of a defined mnemonic body *)
Definition forms (def : list byte) : list (list byte) :=
  let (db, _) := strip_digits def in [short_of db; db].
Definition disjoint_forms (a b : list byte) : bool :=
  forallb (fun x => forallb (fun y => negb (bytes_eq_nocase x y)) (forms b)) (forms a).

Lemma eqnc_join : forall x y c, bytes_eq_nocase x c = true -> bytes_eq_nocase y c = true -> bytes_eq_nocase x y = true.
Proof.
  induction x as [|a x IH]; intros [|b y] [|k c] H1 H2; cbn [bytes_eq_nocase] in *; try discriminate; try reflexivity.
  apply andb_prop in H1. destruct H1 as [H1 H1']. apply andb_prop in H2. destruct H2 as [H2 H2'].
  rewrite (IH y c H1' H2'). unfold eq_nocase in *. apply N.eqb_eq in H1. apply N.eqb_eq in H2.
  rewrite H1, H2, N.eqb_refl. reflexivity.
Qed.

Lemma disjoint_no_common : forall a b m, scpi_shape a -> scpi_shape b -> disjoint_forms a b = true ->
  mnemonic_match a m = true -> mnemonic_match b m = true -> False.
Proof.
  intros a b m Ha Hb Hd Hma Hmb.
  rewrite (match_iff_spec a m Ha) in Hma. rewrite (match_iff_spec b m Hb) in Hmb.
  unfold match_spec in Hma, Hmb. unfold disjoint_forms, forms in Hd.
  destruct (strip_digits a) as [da sa]. destruct (strip_digits b) as [db sb]. destruct (strip_digits m) as [cb cs].
  apply andb_prop in Hma. destruct Hma as [_ Hma]. apply andb_prop in Hmb. destruct Hmb as [_ Hmb].
  cbn [forallb] in Hd. rewrite !andb_true_r in Hd.
  apply orb_prop in Hma. apply orb_prop in Hmb.
  destruct Hma as [Hma|Hma]; destruct Hmb as [Hmb|Hmb]; pose proof (eqnc_join _ _ _ Hma Hmb) as E; rewrite E in Hd;
    cbn in Hd; try discriminate Hd; rewrite ?andb_false_r in Hd; discriminate Hd.
Qed.

Fixpoint ua_names (l : list (list byte)) : bool :=
  match l with
  | [] => true
  | a :: l' => shapeb a && forallb (disjoint_forms a) l' && ua_names l'
  end.

Lemma ua_names_shape : forall l a, ua_names l = true -> In a l -> scpi_shape a.
Proof.
  induction l as [|x l IH]; intros a H Hin; [destruct Hin|].
  cbn [ua_names] in H. apply andb_prop in H. destruct H as [H H3]. apply andb_prop in H. destruct H as [H1 H2].
  destruct Hin as [<-|Hin]; [apply shapeb_sound; exact H1 | apply IH; assumption].
Qed.

Lemma ua_names_sound : forall l i j a b m, ua_names l = true -> nth_error l i = Some a -> nth_error l j = Some b ->
  mnemonic_match a m = true -> mnemonic_match b m = true -> i = j.
Proof.
  induction l as [|x l IH]; intros i j a b m H Hi Hj Hma Hmb; [destruct i; discriminate Hi|].
  pose proof (ua_names_shape _ x H (or_introl eq_refl)) as Hx.
  pose proof H as H0.
  cbn [ua_names] in H. apply andb_prop in H. destruct H as [H H3]. apply andb_prop in H. destruct H as [H1 H2].
  rewrite forallb_forall in H2.
  destruct i as [|i]; destruct j as [|j]; cbn [nth_error] in Hi, Hj.
  - reflexivity.
  - injection Hi as <-. exfalso. apply nth_error_In in Hj.
    apply (disjoint_no_common x b m Hx (ua_names_shape _ b H3 Hj) (H2 b Hj) Hma Hmb).
  - injection Hj as <-. exfalso. apply nth_error_In in Hi.
    apply (disjoint_no_common x a m Hx (ua_names_shape _ a H3 Hi) (H2 a Hi) Hmb Hma).
  - f_equal. eapply IH; eauto.
Qed.

Section WfCheck.
Context {D : Type}.

Definition wf_nodeb (b : tree D) : bool :=
  ua_names (map node_name (lookup_nodes b)) && Nat.leb (length (end_leaves b)) 1
  && Nat.leb (length (filter (fun ch => is_default ch && is_branch ch) (children b))) 1.
Definition wf_treeb (root : tree D) : bool := forallb wf_nodeb (all_subtrees root).

Lemma wf_treeb_sound : forall root : tree D, wf_treeb root = true -> wf_tree root.
Proof.
  intros root H b Hb. unfold wf_treeb in H. rewrite forallb_forall in H. specialize (H b Hb).
  unfold wf_nodeb in H. apply andb_prop in H. destruct H as [H H3]. apply andb_prop in H. destruct H as [H1 H2].
  split; [|split].
  - intros i j m x y Hi Hj Hmx Hmy.
    eapply (ua_names_sound _ i j (node_name x) (node_name y) m H1); try assumption.
    + apply map_nth_error. exact Hi.
    + apply map_nth_error. exact Hj.
  - apply Nat.leb_le. exact H2.
  - apply Nat.leb_le. exact H3.
Qed.

(* the commands at the leaves of a tree *)
Fixpoint tree_cmds (t : tree D) : list (command D) :=
  match t with
  | Leaf _ _ c => [c]
  | Branch _ _ sub => (fix go (l : list (tree D)) := match l with [] => [] | ch :: l' => tree_cmds ch ++ go l' end) sub
  end.
Definition tc_go : list (tree D) -> list (command D) :=
  fix go (l : list (tree D)) := match l with [] => [] | ch :: l' => tree_cmds ch ++ go l' end.
Lemma tree_cmds_branch : forall n d sub, tree_cmds (Branch n d sub) = tc_go sub.
Proof. reflexivity. Qed.
Lemma tc_go_in : forall l (ch : tree D) c, In ch l -> In c (tree_cmds ch) -> In c (tc_go l).
Proof.
  induction l as [|a l IH]; intros ch c Hin Hc; [destruct Hin|].
  cbn [tc_go]. fold tc_go. apply in_or_app. destruct Hin as [->|Hin]; [left; exact Hc | right; eauto].
Qed.
Lemma tc_go_inv : forall l c, In c (tc_go l) -> exists ch : tree D, In ch l /\ In c (tree_cmds ch).
Proof.
  induction l as [|a l IH]; intros c H; [destruct H|].
  cbn [tc_go] in H. fold tc_go in H. apply in_app_or in H. destruct H as [H|H].
  - exists a. split; [left; reflexivity | exact H].
  - destruct (IH c H) as [ch [H1 H2]]. exists ch. split; [right; exact H1 | exact H2].
Qed.

Lemma desig_cmds : forall (self ctx : tree D) ms c ctx', In (c, ctx') (desig self ctx ms) -> In c (tree_cmds self).
Proof.
  intros self. induction self as [n d c0|n d sub IH] using Header_proofs.tree_ind'; intros ctx ms c ctx' Hx.
  - destruct ms; [|destruct Hx]. destruct Hx as [Hx|[]]. injection Hx as <- _. left. reflexivity.
  - rewrite tree_cmds_branch. destruct ms as [|m ms'].
    + rewrite desig_branch_nil in Hx. destruct (dn_go_inv _ _ _ Hx) as [ch [Hin [_ Hx']]].
      eapply tc_go_in; [exact Hin|]. eapply IH; eauto.
    + rewrite desig_branch_cons in Hx.
      destruct (dc_go_inv _ _ _ _ _ _ Hx) as [ch [Hin [[_ Hx']|[_ [_ Hx']]]]];
        (eapply tc_go_in; [exact Hin|]; eapply IH; eauto).
Qed.

Lemma subtree_cmds : forall (a b : tree D) c, In b (all_subtrees a) -> In c (tree_cmds b) -> In c (tree_cmds a).
Proof.
  intros a. induction a as [n d c0|n d sub IH] using Header_proofs.tree_ind'; intros b c Hb Hc.
  - destruct Hb as [<-|[]]. exact Hc.
  - rewrite all_subtrees_branch in Hb. destruct Hb as [<-|Hb]; [exact Hc|].
    destruct (as_go_inv _ _ Hb) as [ch [Hin Hb']]. rewrite tree_cmds_branch.
    eapply tc_go_in; [exact Hin|]. eapply IH; eauto.
Qed.
End WfCheck.

Lemma tree_with_wf : forall f, wf_tree (tree_with f).
Proof. intros f. apply wf_treeb_sound. vm_compute. reflexivity. Qed.

Theorem contrib_tree_wf : wf_tree contrib_tree.
Proof. rewrite contrib_tree_with. apply tree_with_wf. Qed.

(* ------------------------------------------------------------------ *)
(* 2. the commands a header can designate in the contrib tree          *)
(* ------------------------------------------------------------------ *)
Definition cmd_ids : list nat := [1;2;3;4;5;6;7;8;9;10;11;12;13;14;15;21;22;23;24;25;30;31;32;33;34;40]%nat.

Lemma tree_with_cmds : forall f, tree_cmds (tree_with f) = map f cmd_ids.
Proof. reflexivity. Qed.

Lemma contrib_desig_cmd : forall from ctx ms c ctx', In from (all_subtrees contrib_tree) ->
  In (c, ctx') (desig from ctx ms) -> exists n, In n cmd_ids /\ c = contrib_cmds n.
Proof.
  intros from ctx ms c ctx' Hfrom Hx. apply desig_cmds in Hx.
  pose proof (subtree_cmds _ _ _ Hfrom Hx) as Hc. rewrite contrib_tree_with, tree_with_cmds in Hc.
  apply in_map_iff in Hc. destruct Hc as [n [<- Hn]]. exists n. split; [exact Hn | reflexivity].
Qed.

(* ------------------------------------------------------------------ *)
(* 3. handler programs on the data elements of their unit              *)
(* ------------------------------------------------------------------ *)
Lemma spec_answer : forall (s' : cdev) x data b, snd (chunks_of x) = None ->
  spec_prog (answer s' x) data (mkFmt None b) (Some runit_new)
  = (data, s', mkFmt None (b ++ List.concat (fst (chunks_of x))), None).
Proof.
  intros s' x data b H. unfold answer. cbn [spec_prog]. unfold ru_data.
  cbn [ru_result runit_new has_data has_header push_all]. rewrite format_data_None, H.
  cbn [ru_result option_map]. reflexivity.
Qed.

Lemma spec_emit_all : forall l s0 data b, forallb err_printable l = true ->
  spec_prog (emit_all s0 l) data (mkFmt None b) (Some (mkRunit None false true))
  = (data, s0, mkFmt None (b ++ List.concat (map (fun e => 44 :: render_ritem (RErr e)) l)), None).
Proof.
  induction l as [|e l IH]; intros s0 data b Hl.
  - cbn [emit_all spec_prog map List.concat ru_result option_map]. rewrite app_nil_r. reflexivity.
  - cbn [forallb] in Hl. apply andb_prop in Hl. destruct Hl as [He Hl].
    destruct (err_chunks e He) as [Hs Ht].
    cbn [emit_all spec_prog]. fold (emit_all s0). unfold ru_data. cbn [ru_result has_data has_header].
    rewrite push_all_None, format_data_None, Hs, Ht. cbn [List.concat app].
    rewrite IH by exact Hl. cbn [map List.concat]. repeat rewrite <- app_assoc. reflexivity.
Qed.

Lemma spec_emit_first : forall e l s0 data b, forallb err_printable (e :: l) = true ->
  spec_prog (emit_all s0 (e :: l)) data (mkFmt None b) (Some runit_new)
  = (data, s0, mkFmt None (b ++ intercalate [44] (map render_ritem (map RErr (e :: l)))), None).
Proof.
  intros e l s0 data b Hl. cbn [forallb] in Hl. apply andb_prop in Hl. destruct Hl as [He Hl].
  destruct (err_chunks e He) as [Hs Ht].
  cbn [emit_all spec_prog]. fold (emit_all s0). unfold ru_data. cbn [ru_result has_data has_header runit_new push_all].
  rewrite format_data_None, Hs, Ht, spec_emit_all by exact Hl.
  cbn [map]. rewrite intercalate_flat, map_map, map_map, <- app_assoc. reflexivity.
Qed.

(* ------------------------------------------------------------------ *)
(* 4. one handler invocation against the operations of cmd_ops         *)
(* ------------------------------------------------------------------ *)
(* commands without a query form *)
(* Formatter::response_unit has written the unit separator before the query form of such a command fails *)
Definition stray (q : bool) (id : N) (acc : list (list ritem)) : list byte :=
  if q && event_only id && negb (is_nil acc) then [59] else [].

Definition call_post (mav : bool) (d : dev) (acc : list (list ritem)) (q : bool) (id : N) (ops : list sop)
  (nctx : tree cdev) (r : @ures cdev) : Prop :=
  match msg_run0 mav d ops acc with
  | (d', acc', None) =>
    acc_ok acc' /\ is_nil acc' = (is_nil acc && negb q) /\
    exists tr', r = UOk nctx (d', mav) (mkFmt None (render_partial acc')) tr'
  | (d', acc', Some x) =>
    exists tr', r = UErr x (d', mav) (mkFmt None (render_partial acc' ++ stray q id acc)) tr'
  end.

Lemma call_undefined_event : forall (c : command cdev) id nctx data mav d acc tr,
  ev c (d, mav) = undefined (d, mav) ->
  call_post mav d acc false id [SFail (std_error UndefinedHeader)] nctx
    (spec_call c false nctx data (d, mav) (mkFmt None (render_partial acc)) tr).
Proof.
  intros c id nctx data mav d acc tr He. unfold call_post, spec_call. rewrite He.
  cbn [msg_run0 sop_step undefined spec_prog stray andb]. rewrite app_nil_r. eexists. reflexivity.
Qed.

Lemma partial_is_nil : forall acc, acc_ok acc ->
  match render_partial acc with [] => [] | _ => [59] end = if negb (is_nil acc) then [59] else @nil byte.
Proof.
  intros acc Hok. destruct (render_partial acc) eqn:E.
  - apply render_partial_nil in E; [|exact Hok]. subst acc. reflexivity.
  - destruct acc; [discriminate E | reflexivity].
Qed.

Lemma call_undefined_query : forall (c : command cdev) id nctx data mav d acc tr,
  qu c (d, mav) = undefined (d, mav) -> event_only id = true -> acc_ok acc ->
  call_post mav d acc true id [SFail (std_error UndefinedHeader)] nctx
    (spec_call c true nctx data (d, mav) (mkFmt None (render_partial acc)) tr).
Proof.
  intros c id nctx data mav d acc tr Hq Hid Hok. unfold call_post, spec_call. rewrite response_unit_None, Hq.
  cbn [msg_run0 sop_step undefined spec_prog]. unfold stray. rewrite Hid. cbn [andb].
  rewrite (partial_is_nil acc Hok). eexists. reflexivity.
Qed.

Lemma leftover_run : forall mav d data acc,
  msg_run0 mav d (leftover data) acc
  = (d, acc, match data with [] => None | _ :: _ => Some (std_error ParameterNotAllowed) end).
Proof. intros mav d [|t data] acc; reflexivity. Qed.

Lemma call_event_done : forall (c : command cdev) id nctx data mav d acc tr o d1,
  ev c (d, mav) = Done (d1, mav) RetOk -> sop_step mav d o = (d1, None, None) -> acc_ok acc ->
  call_post mav d acc false id (o :: leftover data) nctx
    (spec_call c false nctx data (d, mav) (mkFmt None (render_partial acc)) tr).
Proof.
  intros c id nctx data mav d acc tr o d1 He Hs Hok. unfold call_post, spec_call. rewrite He.
  cbn [msg_run0 spec_prog]. rewrite Hs. cbn [acc_next]. rewrite leftover_run.
  destruct data as [|t data].
  - split; [exact Hok|]. split; [rewrite andb_true_r; reflexivity|]. eexists. reflexivity.
  - cbn [stray andb]. rewrite app_nil_r. eexists. reflexivity.
Qed.

Lemma call_event_pull : forall (c : command cdev) id nctx data mav d acc tr t k K ops,
  int_arg t data K = Some ops ->
  ev c (d, mav) = pull_int t (d, mav) k ->
  (forall v, exists d1, sop_step mav d (K (Z.to_N v)) = (d1, None, None) /\ k v = Done (d1, mav) RetOk) ->
  acc_ok acc ->
  call_post mav d acc false id ops nctx
    (spec_call c false nctx data (d, mav) (mkFmt None (render_partial acc)) tr).
Proof.
  intros c id nctx data mav d acc tr t k K ops Hops He Hk Hok. unfold call_post, spec_call. rewrite He.
  unfold int_arg in Hops. unfold pull_int. cbn [spec_prog]. destruct data as [|tok rest].
  - injection Hops as <-. cbn [msg_run0 sop_step spec_prog stray andb]. rewrite app_nil_r. eexists. reflexivity.
  - destruct (conv_int t tok) as [[v|e]|site]; [| |discriminate Hops]; injection Hops as <-.
    + destruct (Hk v) as [d1 [Hs Hkv]]. rewrite Hkv. cbn [msg_run0 spec_prog]. rewrite Hs. cbn [acc_next].
      rewrite leftover_run. destruct rest as [|t2 rest].
      * split; [exact Hok|]. split; [rewrite andb_true_r; reflexivity|]. eexists. reflexivity.
      * cbn [stray andb]. rewrite app_nil_r. eexists. reflexivity.
    + cbn [msg_run0 sop_step spec_prog stray andb]. rewrite app_nil_r. eexists. reflexivity.
Qed.

Lemma call_query_gen : forall (c : command cdev) id nctx data mav d acc tr o d1 items,
  (forall b, spec_prog (qu c (d, mav)) data (mkFmt None b) (Some runit_new)
             = (data, (d1, mav), mkFmt None (b ++ intercalate [44] (map render_ritem items)), None)) ->
  sop_step mav d o = (d1, Some items, None) -> items <> [] -> event_only id = false -> acc_ok acc ->
  call_post mav d acc true id (o :: leftover data) nctx
    (spec_call c true nctx data (d, mav) (mkFmt None (render_partial acc)) tr).
Proof.
  intros c id nctx data mav d acc tr o d1 items Hq Hs Hne Hid Hok. unfold call_post, spec_call.
  rewrite response_unit_None, Hq. cbn [msg_run0]. rewrite Hs. rewrite leftover_run.
  destruct (buf_step acc (Some items) Hok) as [Hbuf Hok'].
  { intros it E. injection E as <-. exact Hne. }
  unfold items_text in Hbuf. rewrite <- app_assoc, Hbuf. cbn [acc_next] in *.
  destruct data as [|t data].
  - split; [exact Hok'|]. split; [destruct acc; reflexivity|]. eexists. reflexivity.
  - unfold stray. rewrite Hid. cbn [andb]. rewrite app_nil_r. eexists. reflexivity.
Qed.

Lemma call_query_answer : forall (c : command cdev) id nctx data mav d acc tr o d1 items x,
  qu c (d, mav) = answer (d1, mav) x -> snd (chunks_of x) = None ->
  List.concat (fst (chunks_of x)) = intercalate [44] (map render_ritem items) ->
  sop_step mav d o = (d1, Some items, None) -> items <> [] -> event_only id = false -> acc_ok acc ->
  call_post mav d acc true id (o :: leftover data) nctx
    (spec_call c true nctx data (d, mav) (mkFmt None (render_partial acc)) tr).
Proof.
  intros c id nctx data mav d acc tr o d1 items x Hq Hs Ht Hstep Hne Hid Hok.
  eapply call_query_gen; try eassumption.
  intros b. rewrite Hq, spec_answer by exact Hs. rewrite Ht. reflexivity.
Qed.

Lemma call_err_cmd : forall nctx data mav d acc tr ops, err_ops data = Some ops ->
  call_post mav d acc false 40 ops nctx
    (spec_call err_cmd false nctx data (d, mav) (mkFmt None (render_partial acc)) tr).
Proof.
  intros nctx data mav d acc tr ops Hops. unfold call_post, spec_call, err_ops in *.
  unfold err_cmd, cmd, pull_int. cbn [ev spec_prog]. destruct data as [|tok rest].
  - injection Hops as <-. cbn [msg_run0 sop_step spec_prog stray andb]. rewrite app_nil_r. eexists. reflexivity.
  - destruct (conv_int I16 tok) as [[code|e]|site]; [| |discriminate Hops].
    + destruct rest as [|tok2 rest'].
      * injection Hops as <-. cbn [msg_run0 sop_step spec_prog stray andb]. rewrite app_nil_r. eexists. reflexivity.
      * cbn [spec_prog]. destruct (conv_bytes BBytes tok2) as [[x|e]|site]; [| |discriminate Hops]; injection Hops as <-;
          cbn [msg_run0 sop_step spec_prog stray andb]; rewrite app_nil_r; eexists; reflexivity.
    + injection Hops as <-. cbn [msg_run0 sop_step spec_prog stray andb]. rewrite app_nil_r. eexists. reflexivity.
Qed.

Lemma call_err_next : forall nctx data mav d acc tr, queue_printable d = true -> acc_ok acc ->
  call_post mav d acc true 31 (SErrNext :: leftover data) nctx
    (spec_call err_next_cmd true nctx data (d, mav) (mkFmt None (render_partial acc)) tr).
Proof.
  intros nctx data mav d acc tr Hq Hok. destruct d as [q es ee sr op qs ts].
  unfold queue_printable in Hq. cbn [queue] in Hq. destruct q as [|e0 q0].
  - eapply call_query_answer; [reflexivity | apply err_chunks; reflexivity | | reflexivity | discriminate | reflexivity | exact Hok].
    cbn [map intercalate]. apply err_chunks. reflexivity.
  - cbn [forallb] in Hq. apply andb_prop in Hq. destruct Hq as [He0 Hq0].
    eapply call_query_answer; [reflexivity | apply err_chunks; exact He0 | | reflexivity | discriminate | reflexivity | exact Hok].
    cbn [map intercalate]. apply err_chunks. exact He0.
Qed.

Lemma call_err_all : forall nctx data mav d acc tr, queue_printable d = true -> acc_ok acc ->
  call_post mav d acc true 32 (SErrAll :: leftover data) nctx
    (spec_call err_all_cmd true nctx data (d, mav) (mkFmt None (render_partial acc)) tr).
Proof.
  intros nctx data mav d acc tr Hq Hok. destruct d as [q es ee sr op qs ts].
  unfold queue_printable in Hq. cbn [queue] in Hq. destruct q as [|e0 q0].
  - eapply call_query_answer; [reflexivity | apply err_chunks; reflexivity | | reflexivity | discriminate | reflexivity | exact Hok].
    cbn [map intercalate]. apply err_chunks. reflexivity.
  - eapply call_query_gen; [ | reflexivity | discriminate | reflexivity | exact Hok].
    intros b.
    change (qu err_all_cmd ({| queue := e0 :: q0; esr := es; ese := ee; sre := sr; oper := op; ques := qs; tst_result := ts |}, mav))
      with (emit_all (set_queue {| queue := e0 :: q0; esr := es; ese := ee; sre := sr; oper := op; ques := qs; tst_result := ts |} [], mav) (e0 :: q0)).
    rewrite spec_emit_first by exact Hq. reflexivity.
Qed.

Lemma cmd_call : forall n, In n cmd_ids -> forall q data ops mav d acc nctx tr,
  cmd_ops (cid (contrib_cmds n)) q data = Some ops -> queue_printable d = true -> acc_ok acc ->
  call_post mav d acc q (cid (contrib_cmds n)) ops nctx
    (spec_call (contrib_cmds n) q nctx data (d, mav) (mkFmt None (render_partial acc)) tr).
Proof.
  intros n Hn q data ops mav d acc nctx tr Hops Hq Hok.
  unfold cmd_ids in Hn. repeat (destruct Hn as [<-|Hn]); try contradiction.
  all: destruct q.
  all: cbn [cid contrib_cmds cls_cmd ese_cmd esr_cmd idn_cmd opc_cmd rst_cmd sre_cmd stb_cmd tst_cmd wai_cmd reg_query reg_both
            preset_cmd err_next_cmd err_all_cmd err_count_cmd version_cmd err_cmd cmd] in Hops |- *.
  all: cbv [cmd_ops reg_ops] in Hops.
  all: try match type of Hops with context [(?a - ?b)%N] =>
         let v := eval vm_compute in (a - b)%N in change (a - b)%N with v in Hops end.
  all: cbv beta iota in Hops; unfold no_arg, undefined_form in Hops; try discriminate Hops.
  all: try (apply call_err_cmd; exact Hops).
  all: try (injection Hops as <-).
  all: try (apply call_err_next; assumption).
  all: try (apply call_err_all; assumption).
  all: destruct d as [qu0 es ee sr op qs ts].
  all: try (eapply call_undefined_event; reflexivity).
  all: try (eapply call_undefined_query; [reflexivity | reflexivity | exact Hok]).
  all: try (eapply call_event_done; [reflexivity | reflexivity | exact Hok]).
  all: try (eapply call_event_pull; [exact Hops | reflexivity | intros v; eexists; split; reflexivity | exact Hok]).
  all: try (eapply call_query_answer; [reflexivity | reflexivity | | reflexivity | discriminate | reflexivity | exact Hok];
            cbn [chunks_of fst List.concat map render_ritem intercalate]; rewrite app_nil_r;
            try rewrite fmt_Z_of_N; try rewrite nat_N_Z; reflexivity).
  eapply call_query_answer; [reflexivity | reflexivity | | reflexivity | discriminate | reflexivity | exact Hok].
  cbn [chunks_of fst List.concat map render_ritem intercalate queue cd]. rewrite app_nil_r, <- nat_N_Z, fmt_Z_of_N. reflexivity.
Qed.

(* ------------------------------------------------------------------ *)
(* 5. facts about the operation-level run                              *)
(* ------------------------------------------------------------------ *)
Lemma msg_run0_app : forall mav ops r d acc,
  msg_run0 mav d (ops ++ r) acc =
  match msg_run0 mav d ops acc with
  | (d', acc', None) => msg_run0 mav d' r acc'
  | x => x
  end.
Proof.
  intros mav. induction ops as [|o ops IH]; intros r d acc; [reflexivity|].
  cbn [app msg_run0]. destruct (sop_step mav d o) as [[d1 items] [e|]]; [reflexivity | apply IH].
Qed.

Lemma step_fail_iff : forall mav d o, match snd (sop_step mav d o) with None => is_fail o = false | Some _ => is_fail o = true end.
Proof.
  intros mav d o. destruct o as [r ro| | |v|v| | | | | | | | | | | | |tt|e]; try destruct ro; cbn [sop_step snd is_fail]; try reflexivity.
  all: try (destruct (reg_step _ _); reflexivity).
  all: destruct (queue d); reflexivity.
Qed.

Lemma run_fail_iff : forall mav ops d acc,
  match snd (msg_run0 mav d ops acc) with None => existsb is_fail ops = false | Some _ => existsb is_fail ops = true end.
Proof.
  intros mav. induction ops as [|o ops IH]; intros d acc; [reflexivity|].
  cbn [msg_run0 existsb]. pose proof (step_fail_iff mav d o) as Hs.
  destruct (sop_step mav d o) as [[d1 items] [e|]]; cbn [snd] in *; rewrite Hs; [reflexivity|].
  cbn [orb]. apply IH.
Qed.

Lemma sop_step_printable : forall o mav d, queue_printable d = true ->
  queue_printable (fst (fst (sop_step mav d o))) = true.
Proof.
  intros o mav d Hq. unfold queue_printable in *.
  destruct o as [r ro| | |v|v| | | | | | | | | | | | |tt|e]; try destruct ro as [c|v|v|v| | | | | | |];
    try destruct r; destruct d as [q es ee sr op qs ts]; cbn [queue] in Hq;
    cbn [sop_step get_reg put_reg reg_step oper ques queue esr ese sre tst_result option_map set_oper set_ques
         set_ese set_sre set_esr set_queue set_tst scpi_cls scpi_preset scpi_opc fst snd]; try exact Hq; try reflexivity.
  - rewrite forallb_app, Hq. reflexivity.
  - destruct q as [|e0 q0]; cbn [fst queue set_queue]; [reflexivity|].
    cbn [forallb] in Hq. apply andb_prop in Hq. tauto.
  - destruct q as [|e0 q0]; cbn [fst queue set_queue]; reflexivity.
Qed.

Lemma run0_printable : forall mav ops d acc, queue_printable d = true ->
  queue_printable (fst (fst (msg_run0 mav d ops acc))) = true.
Proof.
  intros mav. induction ops as [|o ops IH]; intros d acc Hq; [exact Hq|].
  cbn [msg_run0]. pose proof (sop_step_printable o mav d Hq) as Hq'.
  destruct (sop_step mav d o) as [[d1 items] [e|]]; cbn [fst] in *; [exact Hq' | apply IH; exact Hq'].
Qed.

(* ------------------------------------------------------------------ *)
(* 6. the message                                                      *)
(* ------------------------------------------------------------------ *)
(* Is the message aborted by the query form of a command that has none, after response data was written?  The
   dispatcher asks the formatter for a new response unit BEFORE invoking the handler, so the unit separator is
   already in the output buffer when Command::query's default fails with -113; the operation-level model has no
   way to say so.  [written]: a previous unit of the message was a query. *)

Lemma units_spec : forall mav us ctx d acc tr ops,
  In ctx (all_subtrees contrib_tree) -> queue_printable d = true -> acc_ok acc -> msg_ops ctx us = Some ops ->
  match msg_run0 mav d ops acc with
  | (d', out, e) =>
    exists f' tr', spec_units contrib_tree ctx us (d, mav) (mkFmt None (render_partial acc)) tr = ((d', mav), f', tr', e)
      /\ buf f' = match e with
                  | None => render_response out
                  | Some _ => render_partial out ++ (if stray_sep ctx us (negb (is_nil acc)) then [59] else [])
                  end
  end.
Proof.
  intros mav. induction us as [|[u w] us IH]; intros ctx d acc tr ops Hctx Hq Hok Hops.
  - injection Hops as <-. cbn [msg_run0 spec_units buf].
    destruct (render_partial acc) eqn:E.
    + apply render_partial_nil in E; [|exact Hok]. subst acc. do 2 eexists. split; reflexivity.
    + unfold message_end. rewrite push_None. do 2 eexists. split; [reflexivity|]. cbn [buf].
      destruct acc as [|a acc]; [discriminate E|]. unfold render_response. fold (render_partial (a :: acc)).
      rewrite E. reflexivity.
  - cbn [msg_ops stray_sep spec_units] in *. rewrite spec_unit_call. cbv zeta in *.
    set (h := u_header u) in *.
    set (from := if h_common h || h_absolute h then contrib_tree else ctx) in *.
    assert (Hfrom : In from (all_subtrees contrib_tree)).
    { subst from. destruct (h_common h || h_absolute h); [apply all_subtrees_self | exact Hctx]. }
    destruct (desig from from (header_path h)) as [|[c ctx'] l] eqn:Ed.
    + injection Hops as <-. cbn [msg_run0 sop_step]. do 2 eexists. split; [reflexivity|]. cbn [buf].
      rewrite app_nil_r. reflexivity.
    + assert (Hin : In (c, ctx') (desig from from (header_path h))) by (rewrite Ed; left; reflexivity).
      destruct (contrib_desig_cmd _ _ _ _ _ Hfrom Hin) as [n [Hn ->]].
      set (nctx := if h_common h then ctx else ctx') in *.
      assert (Hnctx : In nctx (all_subtrees contrib_tree)).
      { subst nctx. destruct (h_common h); [exact Hctx|].
        destruct (desig_ctx_subtree _ _ _ _ _ Hin) as [->|H]; [exact Hfrom|]. eapply subtree_trans; eauto. }
      destruct (cmd_ops (cid (contrib_cmds n)) (h_query h) (unit_data u)) as [ops1|] eqn:Ec; [|discriminate Hops].
      pose proof (cmd_call n Hn (h_query h) (unit_data u) ops1 mav d acc nctx tr Ec Hq Hok) as Hcall.
      unfold call_post in Hcall.
      pose proof (run_fail_iff mav ops1 d acc) as Hf.
      pose proof (run0_printable mav ops1 d acc Hq) as Hq1.
      destruct (existsb is_fail ops1) eqn:Ef.
      * injection Hops as <-.
        destruct (msg_run0 mav d ops1 acc) as [[d1 acc1] [x|]]; cbn [snd] in Hf; [|discriminate Hf].
        destruct Hcall as [tr' ->]. do 2 eexists. split; [reflexivity|]. cbn [buf]. unfold stray.
        destruct (h_query h), (event_only (cid (contrib_cmds n))), (is_nil acc); reflexivity.
      * destruct (msg_ops nctx us) as [r|] eqn:Er; [|discriminate Hops]. injection Hops as <-.
        rewrite msg_run0_app.
        destruct (msg_run0 mav d ops1 acc) as [[d1 acc1] [x|]]; cbn [snd fst] in *; [discriminate Hf|].
        destruct Hcall as [Hok1 [Hnil [tr' ->]]].
        specialize (IH nctx d1 acc1 tr' r Hnctx Hq1 Hok1 Er).
        rewrite Hnil in IH. rewrite negb_andb, negb_involutive in IH. exact IH.
Qed.

Lemma existsb_is_fail_app : forall a b, existsb is_fail (a ++ b) = existsb is_fail a || existsb is_fail b.
Proof. intros a b. apply existsb_app. Qed.

(* a stray separator only ever follows a failing unit *)
Lemma stray_sep_fails : forall us ctx w ops, stray_sep ctx us w = true -> msg_ops ctx us = Some ops ->
  existsb is_fail ops = true.
Proof.
  induction us as [|[u w0] us IH]; intros ctx w ops Hs Hops; [discriminate Hs|].
  cbn [stray_sep msg_ops] in *. cbv zeta in *.
  destruct (desig _ _ _) as [|[c ctx'] l]; [discriminate Hs|].
  destruct (cmd_ops (cid c) (h_query (u_header u)) (unit_data u)) as [ops1|]; [|discriminate Hs].
  destruct (existsb is_fail ops1) eqn:Ef.
  - injection Hops as <-. exact Ef.
  - destruct (msg_ops _ us) as [r|] eqn:Er; [|discriminate Hops]. injection Hops as <-.
    rewrite existsb_is_fail_app, (IH _ _ _ Hs Er). apply orb_true_r.
Qed.

(* ------------------------------------------------------------------ *)
(* 7. the refinement theorems                                          *)
(* ------------------------------------------------------------------ *)

(* THE GENERAL STATEMENT: on every well-formed message with an operation-level meaning, the full stack and the
   operation-level model agree on the final device state and on the returned error, and on the response bytes
   up to one unit separator `;` written before the failing query form of a command that has none. *)
Theorem contrib_refines_ops_sep : forall (m : msg) (mav : bool) (d : dev) (us : list sop),
  wf_msg m = true -> queue_printable d = true -> message_ops m = Some us ->
  dev_message d mav (render_msg m) = Val (with_stray m (op_message d mav us)).
Proof.
  intros m mav d us Hm Hq Hops. unfold dev_message.
  rewrite (message_semantics contrib_tree m (d, mav) (mkFmt None []) contrib_tree_wf Hm). cbn [obind].
  unfold spec_message, message_ops in *.
  pose proof (units_spec mav (m_units m) contrib_tree d [] [] us (all_subtrees_self _) Hq (Forall_nil _) Hops) as H.
  pose proof (run_fail_iff mav us d []) as Hf.
  unfold with_stray, op_message. rewrite msg_run_0.
  destruct (msg_run0 mav d us []) as [[d' out] e]. destruct H as [f' [tr' [Hs Hb]]].
  change (render_partial []) with (@nil byte) in Hs. rewrite Hs. cbn [r_err r_dev r_out cd fst snd] in *. rewrite Hb.
  destruct e as [x|]; [reflexivity|].
  unfold stray_separator. destruct (stray_sep contrib_tree (m_units m) false) eqn:Es.
  - rewrite (stray_sep_fails _ _ _ _ Es Hops) in Hf. discriminate Hf.
  - rewrite app_nil_r. reflexivity.
Qed.

(* MAIN.  The statement without [stray_separator m = false] is FALSE: see [contrib_refines_ops_all_counterexample]
   (the message `*ESE?;*CLS?`: full stack output "0;", operation level "0"). *)
Theorem contrib_refines_ops_all : forall (m : msg) (mav : bool) (d : dev) (us : list sop),
  wf_msg m = true -> queue_printable d = true -> message_ops m = Some us ->
  stray_separator m = false ->
  dev_message d mav (render_msg m) = Val (op_message d mav us).
Proof.
  intros m mav d us Hm Hq Hops Hs. rewrite (contrib_refines_ops_sep m mav d us Hm Hq Hops).
  unfold with_stray. rewrite Hs. destruct (op_message d mav us) as [[d' out] e]. rewrite app_nil_r. reflexivity.
Qed.

(* the extra hypothesis is exactly what is needed *)
Theorem contrib_refines_ops_all_iff : forall (m : msg) (mav : bool) (d : dev) (us : list sop),
  wf_msg m = true -> queue_printable d = true -> message_ops m = Some us ->
  (dev_message d mav (render_msg m) = Val (op_message d mav us) <-> stray_separator m = false).
Proof.
  intros m mav d us Hm Hq Hops. split.
  - intros H. rewrite (contrib_refines_ops_sep m mav d us Hm Hq Hops) in H. unfold with_stray in H.
    destruct (stray_separator m); [|reflexivity]. exfalso.
    destruct (op_message d mav us) as [[d' out] e]. injection H as H.
    apply (f_equal (@length byte)) in H. rewrite app_length in H. cbn [length] in H. lia.
  - apply contrib_refines_ops_all; assumption.
Qed.

Definition cex_msg : msg :=
  mkMsg [] [(mkUnit (mkHeader false true [b_ "ESE"] true) [] [], []);
            (mkUnit (mkHeader false true [b_ "CLS"] true) [] [], [])] false.
Theorem contrib_refines_ops_all_counterexample :
  wf_msg cex_msg = true /\ render_msg cex_msg = b_ "*ESE?;*CLS?" /\ queue_printable dev_init = true /\
  message_ops cex_msg = Some [SRdEse; SFail (std_error UndefinedHeader)] /\
  dev_message dev_init false (render_msg cex_msg)
    <> Val (op_message dev_init false [SRdEse; SFail (std_error UndefinedHeader)]).
Proof. repeat split; try reflexivity. vm_compute. intros H. discriminate H. Qed.

(* a syntactic sufficient condition: at most one unit of the message is in query form *)
Definition query_units (us : list (munit * list byte)) : nat :=
  length (filter (fun uw => h_query (u_header (fst uw))) us).

Lemma stray_sep_queries : forall us ctx w, stray_sep ctx us w = true ->
  ((if w then 1 else 2) <= query_units us)%nat.
Proof.
  induction us as [|[u w0] us IH]; intros ctx w Hs; [discriminate Hs|].
  cbn [stray_sep] in Hs. cbv zeta in Hs. unfold query_units in *. cbn [filter fst].
  destruct (desig _ _ _) as [|[c ctx'] l]; [discriminate Hs|].
  destruct (cmd_ops (cid c) (h_query (u_header u)) (unit_data u)) as [ops1|]; [|discriminate Hs].
  destruct (existsb is_fail ops1).
  - apply andb_prop in Hs. destruct Hs as [Hs _]. apply andb_prop in Hs. destruct Hs as [-> ->]. cbn [length]. lia.
  - apply IH in Hs. destruct w, (h_query (u_header u)); cbn [orb length] in *; lia.
Qed.

Corollary contrib_refines_ops_one_query : forall (m : msg) (mav : bool) (d : dev) (us : list sop),
  wf_msg m = true -> queue_printable d = true -> message_ops m = Some us ->
  (query_units (m_units m) <= 1)%nat ->
  dev_message d mav (render_msg m) = Val (op_message d mav us).
Proof.
  intros m mav d us Hm Hq Hops Hn. apply contrib_refines_ops_all; try assumption.
  unfold stray_separator. destruct (stray_sep contrib_tree (m_units m) false) eqn:Es; [|reflexivity].
  apply stray_sep_queries in Es. lia.
Qed.

(* ------------------------------------------------------------------ *)
(* 8. the hypothesis on the queue is an invariant                      *)
(* ------------------------------------------------------------------ *)
Definition fail_ok (o : sop) : Prop := match o with SFail e => err_printable e = true | _ => True end.

Lemma std_error_printable : forall c, err_printable (std_error c) = true.
Proof.
  intros c. unfold err_printable, error_message, std_error. cbn [eext ecustom ecode].
  destruct (get_error c) as [v|] eqn:Eg; [|reflexivity]. eapply std_messages_ascii. exact Eg.
Qed.

Lemma leftover_ok : forall data, Forall fail_ok (leftover data).
Proof. intros [|t data]; cbn [leftover]; [constructor|]. constructor; [apply std_error_printable | constructor]. Qed.

Lemma no_arg_ok : forall o data ops, is_fail o = false -> no_arg o data = Some ops -> Forall fail_ok ops.
Proof.
  intros o data ops Ho H. injection H as <-. constructor; [|apply leftover_ok].
  destruct o; try exact I. discriminate Ho.
Qed.

Lemma undefined_form_ok : forall ops, undefined_form = Some ops -> Forall fail_ok ops.
Proof. intros ops H. injection H as <-. constructor; [apply std_error_printable | constructor]. Qed.

Lemma int_arg_ok : forall t data K ops, (forall v, is_fail (K v) = false) -> int_arg t data K = Some ops -> Forall fail_ok ops.
Proof.
  intros t data K ops HK H. unfold int_arg in H. destruct data as [|tok rest].
  - injection H as <-. constructor; [apply std_error_printable | constructor].
  - destruct (conv_int t tok) as [[v|e]|site]; [| |discriminate H]; injection H as <-.
    + constructor; [|apply leftover_ok]. specialize (HK (Z.to_N v)). destruct (K (Z.to_N v)); try exact I. discriminate HK.
    + constructor; [apply std_error_printable | constructor].
Qed.

Lemma err_ops_ok : forall data ops, err_ops data = Some ops -> Forall fail_ok ops.
Proof.
  intros data ops H. unfold err_ops in H. destruct data as [|tok rest].
  - injection H as <-. constructor; [apply std_error_printable | constructor].
  - destruct (conv_int I16 tok) as [[code|e]|site]; [| |discriminate H].
    + destruct rest as [|tok2 rest'].
      * injection H as <-. constructor; [|constructor]. cbn [fail_ok].
        destruct (get_error code); [apply std_error_printable | reflexivity].
      * destruct (conv_bytes BBytes tok2) as [[x|e]|site]; [| |discriminate H]; injection H as <-;
          (constructor; [|constructor]); [reflexivity | apply std_error_printable].
    + injection H as <-. constructor; [apply std_error_printable | constructor].
Qed.

Lemma reg_ops_ok : forall r k q data ops, reg_ops r k q data = Some ops -> Forall fail_ok ops.
Proof.
  intros r k q data ops H. unfold reg_ops in H.
  destruct k as [|p]; [discriminate H|]. do 3 (try (destruct p as [p|p|]); try discriminate H).
  all: destruct q; first [ eapply no_arg_ok; [|exact H]; reflexivity
                         | eapply undefined_form_ok; exact H
                         | eapply int_arg_ok; [|exact H]; reflexivity ].
Qed.

Lemma cmd_ops_ok : forall id q data ops, cmd_ops id q data = Some ops -> Forall fail_ok ops.
Proof.
  intros id q data ops H. unfold cmd_ops in H.
  destruct id as [|p]; [discriminate H|]. do 6 (try (destruct p as [p|p|]); try discriminate H).
  all: try (eapply reg_ops_ok; exact H).
  all: destruct q; try discriminate H;
       first [ eapply no_arg_ok; [|exact H]; reflexivity
             | eapply undefined_form_ok; exact H
             | eapply int_arg_ok; [|exact H]; reflexivity
             | eapply err_ops_ok; exact H ].
Qed.

Lemma msg_ops_ok : forall us ctx ops, msg_ops ctx us = Some ops -> Forall fail_ok ops.
Proof.
  induction us as [|[u w] us IH]; intros ctx ops H; cbn [msg_ops] in H; cbv zeta in H.
  - injection H as <-. constructor.
  - destruct (desig _ _ _) as [|[c ctx'] l].
    + injection H as <-. constructor; [apply std_error_printable | constructor].
    + destruct (cmd_ops (cid c) (h_query (u_header u)) (unit_data u)) as [ops1|] eqn:Ec; [|discriminate H].
      pose proof (cmd_ops_ok _ _ _ _ Ec) as H1.
      destruct (existsb is_fail ops1); [injection H as <-; exact H1|].
      destruct (msg_ops _ us) as [r|] eqn:Er; [|discriminate H]. injection H as <-.
      apply Forall_app. split; [exact H1 | eapply IH; exact Er].
Qed.

Lemma step_error_is_fail : forall mav d o d' items e, sop_step mav d o = (d', items, Some e) -> o = SFail e.
Proof.
  intros mav d o d' items e H. pose proof (step_fail_iff mav d o) as Hf. rewrite H in Hf. cbn [snd] in Hf.
  destruct o; try discriminate Hf. cbn [sop_step] in H. injection H as _ _ <-. reflexivity.
Qed.

Lemma run0_error_printable : forall mav ops d acc e, Forall fail_ok ops ->
  snd (msg_run0 mav d ops acc) = Some e -> err_printable e = true.
Proof.
  intros mav. induction ops as [|o ops IH]; intros d acc e Hok H; [discriminate H|].
  inversion Hok as [|o' ops' Ho Hops']; subst. cbn [msg_run0] in H.
  destruct (sop_step mav d o) as [[d1 items] [x|]] eqn:Es.
  - cbn [snd] in H. injection H as <-. apply step_error_is_fail in Es. subst o. exact Ho.
  - eapply IH; eauto.
Qed.

Lemma ops_printable : forall mav d us, queue_printable d = true -> Forall fail_ok us ->
  queue_printable (fst (fst (op_message d mav us))) = true.
Proof.
  intros mav d us Hq Hok. unfold op_message. rewrite msg_run_0.
  pose proof (run0_printable mav us d [] Hq) as H1.
  pose proof (run0_error_printable mav us d [] ) as H2.
  destruct (msg_run0 mav d us []) as [[d' out] [e|]]; cbn [fst snd] in *; [|exact H1].
  unfold queue_printable, push_error, set_queue, set_esr. cbn [queue].
  rewrite forallb_app. fold (queue_printable d'). rewrite H1. cbn [forallb]. rewrite (H2 e Hok eq_refl). reflexivity.
Qed.

Theorem message_ops_printable : forall (m : msg) (mav : bool) (d : dev) (us : list sop),
  queue_printable d = true -> message_ops m = Some us ->
  queue_printable (fst (fst (op_message d mav us))) = true.
Proof.
  intros m mav d us Hq Hops. apply ops_printable; [exact Hq|]. eapply msg_ops_ok. exact Hops.
Qed.

Lemma session_msgs_printable_from : forall ms d, queue_printable d = true -> queue_printable (session_msgs d ms) = true.
Proof.
  induction ms as [|[mav m] ms IH]; intros d Hq; [exact Hq|].
  cbn [session_msgs]. destruct (message_ops m) as [us|] eqn:Eo; [|exact Hq].
  apply IH. eapply message_ops_printable; eauto.
Qed.

Theorem session_msgs_printable : forall ms, queue_printable (session_msgs dev_init ms) = true.
Proof. intros ms. apply session_msgs_printable_from. reflexivity. Qed.

(* as [contrib_refines_ops_all], the statement needs [stray_separator m = false] *)
Theorem contrib_refines_ops_all_session : forall ms (m : msg) (mav : bool) (us : list sop),
  wf_msg m = true -> message_ops m = Some us -> stray_separator m = false ->
  dev_message (session_msgs dev_init ms) mav (render_msg m) = Val (op_message (session_msgs dev_init ms) mav us).
Proof.
  intros ms m mav us Hm Hops Hs. apply contrib_refines_ops_all; try assumption. apply session_msgs_printable.
Qed.

Theorem contrib_refines_ops_sep_session : forall ms (m : msg) (mav : bool) (us : list sop),
  wf_msg m = true -> message_ops m = Some us ->
  dev_message (session_msgs dev_init ms) mav (render_msg m)
  = Val (with_stray m (op_message (session_msgs dev_init ms) mav us)).
Proof.
  intros ms m mav us Hm Hops. apply contrib_refines_ops_sep; try assumption. apply session_msgs_printable.
Qed.

(* ------------------------------------------------------------------ *)
(* 9. the classification is total                                      *)
(* ------------------------------------------------------------------ *)
(* The statement for ARBITRARY token lists is FALSE: a non-data token makes the conversion `Panic` in the model
   (parser_unreachable), and then int_arg gives None. *)
Theorem cmd_ops_total_counterexample : cmd_ops 2 false [THeaderSeparator] = None.
Proof. reflexivity. Qed.

(* the data elements of a unit are data tokens (Message_proofs.unit_data_all), and on those it is total except for
   the two queries without operation-level counterpart *)
Theorem cmd_ops_total : forall id q data, all_data data ->
  In id [1;2;3;4;5;6;7;8;9;10;11;12;13;14;15;21;22;23;24;25;30;31;32;33;34;40]%N ->
  (q = true -> id <> 4 /\ id <> 34)%N -> cmd_ops id q data <> None.
Proof.
  intros id q data Hdata Hin Hq.
  assert (Hint : forall t K, int_arg t data K <> None).
  { intros t K. unfold int_arg. destruct data as [|tok rest]; [discriminate|].
    inversion Hdata as [|x l Htok Hrest]; subst.
    destruct (conv_total tok Htok) as [Hi _]. destruct (Hi t) as [[v|e] ->]; discriminate. }
  assert (Herr : err_ops data <> None).
  { unfold err_ops. destruct data as [|tok rest]; [discriminate|].
    inversion Hdata as [|x l Htok Hrest]; subst.
    destruct (conv_total tok Htok) as [Hi _]. destruct (Hi I16) as [[v|e] ->]; [|discriminate].
    destruct rest as [|tok2 rest']; [discriminate|].
    inversion Hrest as [|x l Htok2 Hrest']; subst.
    destruct (conv_total tok2 Htok2) as [_ [_ [_ Hb]]]. destruct (Hb BBytes) as [[v2|e2] ->]; discriminate. }
  repeat (destruct Hin as [<-|Hin]); try contradiction.
  all: destruct q; try (destruct (Hq eq_refl) as [H4 H34]; congruence).
  all: cbv [cmd_ops reg_ops].
  all: try match goal with |- context [(?a - ?b)%N] =>
         let v := eval vm_compute in (a - b)%N in change (a - b)%N with v end.
  all: cbv beta iota; first [ discriminate | apply Hint | exact Herr ].
Qed.

(* every unit of a well-formed message therefore has a meaning unless it is the identification or version query *)
Corollary unit_ops_total : forall (c : command cdev) (u : munit) n, In n cmd_ids -> c = contrib_cmds n ->
  (h_query (u_header u) = true -> cid c <> 4 /\ cid c <> 34) ->
  cmd_ops (cid c) (h_query (u_header u)) (unit_data u) <> None.
Proof.
  intros c u n Hn -> Hq. apply cmd_ops_total; [apply unit_data_all | | exact Hq].
  unfold cmd_ids in Hn. repeat (destruct Hn as [<-|Hn]); try contradiction; cbn; tauto.
Qed.

Print Assumptions contrib_tree_wf.
Print Assumptions contrib_refines_ops_sep.
Print Assumptions contrib_refines_ops_all.
Print Assumptions contrib_refines_ops_all_iff.
Print Assumptions contrib_refines_ops_all_counterexample.
Print Assumptions contrib_refines_ops_one_query.
Print Assumptions message_ops_printable.
Print Assumptions session_msgs_printable.
Print Assumptions contrib_refines_ops_all_session.
Print Assumptions contrib_refines_ops_sep_session.
Print Assumptions cmd_ops_total.
Print Assumptions cmd_ops_total_counterexample.
