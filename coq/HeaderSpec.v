(* HeaderSpec.v — which command a compound header DESIGNATES in a command tree (SCPI-99
   vol. 1 ch. 6), independently of the dispatcher's greedy algorithm: the set of ALL ways the
   mnemonic sequence can be read as "the full path to a leaf with default nodes omitted".
   Specification file: no proofs. *)
From VF Require Import Base Lexer Mnemonic Response Tree.
Open Scope N_scope.

Section Spec.
Context {D : Type}.

Definition is_default (t : tree D) : bool := match t with Leaf _ d _ => d | Branch _ d _ => d end.
Definition is_branch (t : tree D) : bool := match t with Branch _ _ _ => true | _ => false end.

(* desig self ctx ms: every (command, context) the mnemonics [ms] designate when read from
   node [self]; [ctx] is the branch in which the last mnemonic read so far was matched.
   - a mnemonic may name a child of the current branch (the context becomes that branch), or a
     node further down reached through default BRANCH children, which may be omitted;
   - when the mnemonics are used up, default children (leaf or branch) are followed down to a
     leaf without moving the context;
   - a leaf is designated only when nothing is left. *)
Fixpoint desig (self : tree D) (ctx : tree D) (ms : list (list byte)) {struct self} : list (command D * tree D) :=
  match self with
  | Leaf _ _ c => match ms with [] => [(c, ctx)] | _ => [] end
  | Branch _ _ sub =>
    match ms with
    | [] =>
      (fix go (l : list (tree D)) : list (command D * tree D) :=
         match l with
         | [] => []
         | ch :: l' => (if is_default ch then desig ch ctx [] else []) ++ go l'
         end) sub
    | m :: ms' =>
      (fix go (l : list (tree D)) : list (command D * tree D) :=
         match l with
         | [] => []
         | ch :: l' =>
           (if mnemonic_match (node_name ch) m then desig ch self ms' else [])
           ++ (if is_default ch && is_branch ch then desig ch ctx ms else [])
           ++ go l'
         end) sub
    end
  end.

Definition designates (from : tree D) (ms : list (list byte)) (c : command D) (ctx' : tree D) : Prop :=
  In (c, ctx') (desig from from ms).

(* ---- unambiguous trees ---- *)
(* the nodes one mnemonic lookup at a branch can reach: its children and, through default
   branch children, theirs *)
Fixpoint lookup_nodes (self : tree D) : list (tree D) :=
  match self with
  | Leaf _ _ _ => []
  | Branch _ _ sub =>
    (fix go (l : list (tree D)) : list (tree D) :=
       match l with
       | [] => []
       | ch :: l' => ch :: (if is_default ch && is_branch ch then lookup_nodes ch else []) ++ go l'
       end) sub
  end.
(* the leaves reachable at the end of a header: default leaf children and, through default
   branch children, theirs *)
Fixpoint end_leaves (self : tree D) : list (tree D) :=
  match self with
  | Leaf _ _ _ => []
  | Branch _ _ sub =>
    (fix go (l : list (tree D)) : list (tree D) :=
       match l with
       | [] => []
       | ch :: l' => (if is_default ch then (if is_branch ch then end_leaves ch else [ch]) else []) ++ go l'
       end) sub
  end.

(* no received mnemonic can match two different nodes of one lookup *)
Definition unambiguous_lookup (l : list (tree D)) : Prop :=
  forall i j m a b, nth_error l i = Some a -> nth_error l j = Some b ->
    mnemonic_match (node_name a) m = true -> mnemonic_match (node_name b) m = true -> i = j.

Fixpoint all_subtrees (t : tree D) : list (tree D) :=
  t :: match t with
       | Leaf _ _ _ => []
       | Branch _ _ sub => (fix go (l : list (tree D)) := match l with [] => [] | ch :: l' => all_subtrees ch ++ go l' end) sub
       end.

(* SCPI-shaped tree: at every branch a mnemonic lookup is unambiguous, at most one leaf is
   reachable at the end of a header, and there is at most one default branch child *)
Definition children (t : tree D) : list (tree D) := match t with Branch _ _ sub => sub | Leaf _ _ _ => [] end.
Definition wf_tree (root : tree D) : Prop :=
  forall b, In b (all_subtrees root) ->
    unambiguous_lookup (lookup_nodes b) /\ (length (end_leaves b) <= 1)%nat
    /\ (length (filter (fun ch => is_default ch && is_branch ch) (children b)) <= 1)%nat.

End Spec.
