(* RunSpec.v — evaluates specification-side oracles that do not depend on any
   table regenerated from the source (so they still run when a regenerated table
   breaks a proof).  Model file: no proofs. *)
From VF Require Import Base Show ErrSpec.
Open Scope string_scope.

(* C14: class bit of every code in lo..hi, "c:mask;c:mask;..." *)
Definition spec_classbits (lo hi : Z) : string :=
  join ";" (map (fun i => let c := (lo + Z.of_nat i)%Z in show_Z c ++ ":" ++ show_N (class_bit c))
                (seq 0 (Z.to_nat (hi - lo + 1)))).
