(* Resp_proofs.v — response framing (C10) and fixed-capacity behaviour (C11). *)
From Coq Require Import Lia ZifyBool ZifyN ZifyNat.
From VF Require Import Base Gen_Errors Gen_Consts Fmt Lexer Response Tree.
Open Scope N_scope.

(* ------------------------------------------------------------------ *)
(* C11: push                                                           *)
(* ------------------------------------------------------------------ *)
Definition fits (f : fmt) : Prop :=
  match cap f with Some c => (length (buf f) <= c)%nat | None => True end.

Theorem push_appends : forall f c f', push f c = Ok f' -> buf f' = buf f ++ c /\ cap f' = cap f.
Proof.
  intros f c f' H. unfold push in H.
  destruct (cap f) as [k|] eqn:Hc.
  - destruct (Nat.ltb k (length (buf f) + length c)) eqn:Hlt; [discriminate|].
    injection H as <-. cbn. auto.
  - injection H as <-. cbn. auto.
Qed.

Theorem push_fits : forall f c f', fits f -> push f c = Ok f' -> fits f'.
Proof.
  intros f c f' Hf H. unfold push in H. unfold fits in *.
  destruct (cap f) as [k|] eqn:Hc.
  - destruct (Nat.ltb k (length (buf f) + length c)) eqn:Hlt; [discriminate|].
    injection H as <-. cbn. rewrite ?Hc. rewrite app_length.
    apply PeanoNat.Nat.ltb_ge in Hlt. exact Hlt.
  - injection H as <-. cbn. rewrite ?Hc. exact I.
Qed.

Theorem push_error_is_225 : forall f c e, push f c = Err e -> e = OutOfMemory.
Proof.
  intros f c e H. unfold push in H.
  destruct (cap f) as [k|].
  - destruct (Nat.ltb k (length (buf f) + length c)); [|discriminate].
    injection H as <-. reflexivity.
  - discriminate.
Qed.

Definition is_prefix {A} (a b : list A) : Prop := exists rest, b = a ++ rest.

Lemma is_prefix_refl {A} (a : list A) : is_prefix a a.
Proof. exists []. now rewrite app_nil_r. Qed.
Lemma is_prefix_trans {A} (a b c : list A) : is_prefix a b -> is_prefix b c -> is_prefix a c.
Proof. intros [x ->] [y ->]. exists (x ++ y). now rewrite app_assoc. Qed.
Lemma is_prefix_app {A} (a b : list A) : is_prefix a (a ++ b).
Proof. now exists b. Qed.
Lemma is_prefix_length {A} (a b : list A) : is_prefix a b -> (length a <= length b)%nat.
Proof. intros [x ->]. rewrite app_length. lia. Qed.

(* ------------------------------------------------------------------ *)
(* a predicate on formatters preserved by every successful push is     *)
(* preserved by every layer                                            *)
(* ------------------------------------------------------------------ *)
Section FmtInv.
Variable Q : fmt -> Prop.
Hypothesis Qpush : forall f ch f', Q f -> push f ch = Ok f' -> Q f'.

Lemma push_all_Q : forall cs f f' r, Q f -> push_all f cs = (f', r) -> Q f'.
Proof.
  induction cs as [|ch cs IH]; intros f f' r HQ H; cbn [push_all] in H.
  - injection H as <- <-. exact HQ.
  - destruct (push f ch) as [f1|e] eqn:Hp.
    + eapply IH; [|exact H]. eapply Qpush; eauto.
    + injection H as <- <-. exact HQ.
Qed.

Lemma format_data_Q : forall x f f' r, Q f -> format_data f x = (f', r) -> Q f'.
Proof.
  intros x f f' r HQ H. unfold format_data in H.
  destruct (chunks_of x) as [chunks own].
  destruct (push_all f chunks) as [f1 [e|]] eqn:Hp; injection H as <- <-;
    eapply push_all_Q; eauto.
Qed.

Lemma ru_header_Q : forall f u h f' u', Q f -> ru_header f u h = (f', u') -> Q f'.
Proof.
  intros f u h f' u' HQ H. unfold ru_header in H.
  destruct (ru_result u) as [e|].
  - injection H as <- <-. exact HQ.
  - destruct (push_all f _) as [f1 e] eqn:Hp. injection H as <- <-.
    eapply push_all_Q; eauto.
Qed.

Lemma ru_data_Q : forall f u x f' u', Q f -> ru_data f u x = (f', u') -> Q f'.
Proof.
  intros f u x f' u' HQ H. unfold ru_data in H.
  destruct (ru_result u) as [e|].
  - injection H as <- <-. exact HQ.
  - destruct (push_all f _) as [f1 [e|]] eqn:Hp.
    + injection H as <- <-. eapply push_all_Q; eauto.
    + destruct (format_data f1 x) as [f2 e] eqn:Hfd. injection H as <- <-.
      eapply format_data_Q; [|exact Hfd]. eapply push_all_Q; eauto.
Qed.

Lemma response_unit_Q : forall f f', Q f -> response_unit f = Ok f' -> Q f'.
Proof.
  intros f f' HQ H. unfold response_unit in H.
  destruct (buf f); [injection H as <-; exact HQ|]. eapply Qpush; eauto.
Qed.
End FmtInv.

(* ------------------------------------------------------------------ *)
(* the growable formatter, explicitly                                  *)
(* ------------------------------------------------------------------ *)
Lemma push_None : forall b ch, push (mkFmt None b) ch = Ok (mkFmt None (b ++ ch)).
Proof. reflexivity. Qed.

Lemma push_all_None : forall cs b, push_all (mkFmt None b) cs = (mkFmt None (b ++ List.concat cs), None).
Proof.
  induction cs as [|ch cs IH]; intros b; cbn [push_all List.concat].
  - now rewrite app_nil_r.
  - rewrite push_None, IH, app_assoc. reflexivity.
Qed.

Lemma format_data_None : forall x b,
  format_data (mkFmt None b) x = (mkFmt None (b ++ List.concat (fst (chunks_of x))), snd (chunks_of x)).
Proof.
  intros x b. unfold format_data. destruct (chunks_of x) as [chunks own].
  rewrite push_all_None. reflexivity.
Qed.

Definition data_text (x : rdata) : list byte := fst (response_text x).

Lemma data_text_eq : forall x, data_text x = List.concat (fst (chunks_of x)).
Proof.
  intros x. unfold data_text, response_text. rewrite format_data_None. reflexivity.
Qed.

Lemma response_text_snd : forall x, snd (response_text x) = snd (chunks_of x).
Proof. intros x. unfold response_text. rewrite format_data_None. reflexivity. Qed.

(* ------------------------------------------------------------------ *)
(* intercalate                                                         *)
(* ------------------------------------------------------------------ *)
Lemma intercalate_cons : forall sep x l,
  intercalate sep (x :: l) = x ++ List.concat (map (fun y => sep ++ y) l).
Proof.
  intros sep x l. revert x. induction l as [|y l IH]; intros x.
  - cbn. now rewrite app_nil_r.
  - change (intercalate sep (x :: y :: l)) with (x ++ sep ++ intercalate sep (y :: l)).
    rewrite IH. cbn [map List.concat]. now rewrite <- app_assoc.
Qed.

Lemma intercalate_snoc : forall sep l x,
  intercalate sep (l ++ [x]) = match l with [] => x | _ => intercalate sep l ++ sep ++ x end.
Proof.
  intros sep l x. destruct l as [|y l]; [reflexivity|].
  cbn [app]. rewrite !intercalate_cons. rewrite map_app, concat_app. cbn [map List.concat].
  rewrite app_nil_r, <- !app_assoc. reflexivity.
Qed.

Lemma intercalate_nonempty : forall sep l,
  Forall (fun t => t <> []) l -> l <> [] -> intercalate sep l <> [].
Proof.
  intros sep l HF Hl. destruct l as [|x l]; [congruence|].
  rewrite intercalate_cons. inversion HF as [|? ? Hx _]; subst.
  destruct x; [congruence|]. discriminate.
Qed.

(* ------------------------------------------------------------------ *)
(* C10: one response unit                                              *)
(* ------------------------------------------------------------------ *)
Lemma fold_headers_more : forall hs b0,
  fold_left (fun a h => ru_header (fst a) (snd a) h) hs (mkFmt None b0, mkRunit None true false)
  = (mkFmt None (b0 ++ List.concat (map (fun h => [58] ++ h) hs)), mkRunit None true false).
Proof.
  induction hs as [|h hs IH]; intros b0; cbn [fold_left map List.concat].
  - now rewrite app_nil_r.
  - cbn [fst snd]. unfold ru_header at 2. cbn [ru_result has_header has_data].
    rewrite push_all_None. rewrite IH. cbn [List.concat app]. rewrite app_nil_r.
    rewrite <- !app_assoc. reflexivity.
Qed.

Lemma fold_headers : forall hs b,
  fold_left (fun a h => ru_header (fst a) (snd a) h) hs (mkFmt None b, runit_new)
  = (mkFmt None (b ++ intercalate [58] hs), mkRunit None (match hs with [] => false | _ => true end) false).
Proof.
  intros [|h hs] b.
  - cbn. now rewrite app_nil_r.
  - cbn [fold_left fst snd]. unfold ru_header at 2, runit_new. cbn [ru_result has_header has_data].
    rewrite push_all_None. rewrite fold_headers_more, intercalate_cons.
    cbn [List.concat app]. rewrite app_nil_r, <- !app_assoc. reflexivity.
Qed.

Lemma fold_data_more : forall ds b0 hh,
  Forall (fun x => snd (chunks_of x) = None) ds ->
  fold_left (fun a x => ru_data (fst a) (snd a) x) ds (mkFmt None b0, mkRunit None hh true)
  = (mkFmt None (b0 ++ List.concat (map (fun y => [44] ++ y) (map data_text ds))), mkRunit None hh true).
Proof.
  induction ds as [|x ds IH]; intros b0 hh HF; cbn [fold_left map List.concat].
  - now rewrite app_nil_r.
  - inversion HF as [|? ? Hx HF']; subst.
    cbn [fst snd]. unfold ru_data at 2. cbn [ru_result has_header has_data].
    rewrite push_all_None, format_data_None, Hx. cbn [has_header].
    rewrite IH by assumption. rewrite data_text_eq.
    unfold RESPONSE_DATA_SEPARATOR. cbn [List.concat app]. rewrite <- !app_assoc. reflexivity.
Qed.

Lemma ru_data_first : forall b0 hh x,
  ru_data (mkFmt None b0) (mkRunit None hh false) x
  = (mkFmt None (b0 ++ (if hh then [32] else []) ++ data_text x), mkRunit (snd (chunks_of x)) hh true).
Proof.
  intros b0 hh x. unfold ru_data. cbn [ru_result has_header has_data].
  rewrite push_all_None, format_data_None, data_text_eq. unfold RESPONSE_HEADER_SEPARATOR.
  destruct hh; cbn [List.concat app]; rewrite <- ?app_assoc; cbn [app]; rewrite ?app_nil_r; reflexivity.
Qed.

Theorem unit_text_structure : forall (hs : list (list byte)) (ds : list rdata) b,
  Forall (fun x => snd (chunks_of x) = None) ds ->
  let fu := fold_left (fun a x => ru_data (fst a) (snd a) x) ds
              (fold_left (fun a h => ru_header (fst a) (snd a) h) hs (mkFmt None b, runit_new)) in
  buf (fst fu) = b ++ intercalate [58] hs
                   ++ (match hs, ds with _ :: _, _ :: _ => [32] | _, _ => [] end)
                   ++ intercalate [44] (map data_text ds)
  /\ ru_result (snd fu) = None.
Proof.
  intros hs ds b HF. cbv zeta. rewrite fold_headers.
  destruct ds as [|x ds].
  - cbn [fold_left fst snd buf ru_result map intercalate]. split; [|reflexivity].
    destruct hs; now rewrite ?app_nil_r.
  - inversion HF as [|? ? Hx HF']; subst.
    cbn [fold_left fst snd].
    set (hh := match hs with [] => false | _ :: _ => true end).
    rewrite ru_data_first, Hx.
    rewrite fold_data_more by assumption. cbn [fst snd buf ru_result]. split; [|reflexivity].
    cbn [map]. rewrite intercalate_cons.
    subst hh.
    destruct hs; cbn [List.concat app]; rewrite <- ?app_assoc; cbn [app]; rewrite ?app_nil_r; reflexivity.
Qed.

(* ================================================================== *)
(* tree level                                                          *)
(* ================================================================== *)
Section TreeProofs.
Context {D : Type}.

Theorem event_writes_nothing : forall (p : hprog D) toks f toks' d f' r,
  run_prog p toks f None = (toks', d, f', r) -> f' = f.
Proof.
  induction p as [rq k IH|h k IH|x k IH|d0 r0]; intros toks f toks' d f' r H; cbn [run_prog] in H.
  - destruct (if rq then next_token toks else next_optional_token toks) as [pr t1]. eapply IH; eauto.
  - eauto.
  - eauto.
  - injection H as E1 E2 E3 E4. now subst.
Qed.

Lemma run_prog_None_indep : forall (p : hprog D) toks f1 f2,
  run_prog p toks f2 None = let '(t, d, _, r) := run_prog p toks f1 None in (t, d, f2, r).
Proof.
  induction p as [rq k IH|h k IH|x k IH|d0 r0]; intros toks f1 f2; cbn [run_prog].
  - destruct (if rq then next_token toks else next_optional_token toks) as [pr t1]. apply IH.
  - apply IH.
  - apply IH.
  - reflexivity.
Qed.

Definition xres_state (r : xres D) : xstate D := match r with XOk _ s => s | XErr _ s => s end.

Fixpoint tree_ind' (P : tree D -> Prop)
  (HL : forall n d c, P (Leaf n d c))
  (HB : forall n d sub, Forall P sub -> P (Branch n d sub)) (t : tree D) : P t :=
  match t with
  | Leaf n d c => HL n d c
  | Branch n d sub =>
    HB n d sub ((fix go l : Forall P l :=
                   match l with
                   | [] => Forall_nil _
                   | x :: l' => Forall_cons _ (tree_ind' P HL HB x) (go l')
                   end) sub)
  end.

Fixpoint all_commands (t : tree D) : list (command D) :=
  match t with
  | Leaf _ _ c => [c]
  | Branch _ _ sub => (fix go l := match l with [] => [] | ch :: l' => all_commands ch ++ go l' end) sub
  end.

Lemma all_commands_branch : forall n d sub c,
  In c (all_commands (Branch n d sub)) <-> exists ch, In ch sub /\ In c (all_commands ch).
Proof.
  intros n d sub c. cbn [all_commands]. induction sub as [|ch sub IH].
  - split; [intros []|intros (ch & [] & _)].
  - rewrite in_app_iff, IH. split.
    + intros [H|(ch' & H1 & H2)]; [exists ch; cbn; auto|exists ch'; cbn; auto].
    + intros (ch' & [<-|H1] & H2); [auto|right; eauto].
Qed.

Section ResolveOk.
Variable Pc : command D -> Prop.
Definition cmds_ok (t : tree D) : Prop := forall c, In c (all_commands t) -> Pc c.

Definition good (r : @rres D) : Prop :=
  forall c q leaf' toks', r = RFound c q leaf' toks' -> Pc c /\ cmds_ok leaf'.
Definition res_ok (t : tree D) : Prop :=
  forall leaf toks, cmds_ok t -> cmds_ok leaf -> good (resolve t leaf toks).

Lemma good_fail : forall e toks, good (RFail e toks).
Proof. intros e toks c q l t H. discriminate. Qed.

Lemma find_leaf_ok : forall l lf tk r,
  Forall res_ok l -> (forall ch, In ch l -> cmds_ok ch) -> cmds_ok lf ->
  (fix find (l : list (tree D)) : option rres :=
     match l with
     | [] => None
     | (Leaf _ true _ as ch) :: _ => Some (resolve ch lf tk)
     | _ :: l' => find l'
     end) l = Some r -> good r.
Proof.
  induction l as [|ch l IH]; intros lf tk r HF Hin Hlf H; [discriminate|].
  inversion HF as [|? ? Hch HF']; subst.
  destruct ch as [nm [|] cm|nm dd sb].
  - injection H as <-. apply Hch; auto. apply Hin. now left.
  - eapply IH; eauto. intros; apply Hin; now right.
  - eapply IH; eauto. intros; apply Hin; now right.
Qed.

Lemma find_branch_ok : forall l lf tk r,
  Forall res_ok l -> (forall ch, In ch l -> cmds_ok ch) -> cmds_ok lf ->
  (fix find (l : list (tree D)) : option rres :=
     match l with
     | [] => None
     | (Branch _ true _ as ch) :: _ => Some (resolve ch lf tk)
     | _ :: l' => find l'
     end) l = Some r -> good r.
Proof.
  induction l as [|ch l IH]; intros lf tk r HF Hin Hlf H; [discriminate|].
  inversion HF as [|? ? Hch HF']; subst.
  destruct ch as [nm dd cm|nm [|] sb].
  - eapply IH; eauto. intros; apply Hin; now right.
  - injection H as <-. apply Hch; auto. apply Hin. now left.
  - eapply IH; eauto. intros; apply Hin; now right.
Qed.

Lemma first_match_ok : forall l lf m tk r,
  Forall res_ok l -> (forall ch, In ch l -> cmds_ok ch) -> cmds_ok lf ->
  (fix first_match (l : list (tree D)) : option rres :=
     match l with
     | [] => None
     | ch :: l' => if Mnemonic.mnemonic_match (node_name ch) m then Some (resolve ch lf tk)
                   else first_match l'
     end) l = Some r -> good r.
Proof.
  induction l as [|ch l IH]; intros lf m tk r HF Hin Hlf H; [discriminate|].
  inversion HF as [|? ? Hch HF']; subst.
  destruct (Mnemonic.mnemonic_match (node_name ch) m).
  - injection H as <-. apply Hch; auto. apply Hin. now left.
  - eapply IH; eauto. intros; apply Hin; now right.
Qed.

Lemma resolve_ok : forall self, res_ok self.
Proof.
  induction self as [n d c0|n d sub IH] using tree_ind'; intros leaf toks Hs Hl.
  - assert (Hc0 : Pc c0) by (apply Hs; cbn; auto).
    cbn [resolve]. destruct toks as [|[t|e] rest]; [|destruct t|]; try apply good_fail;
      intros c q l' t' H; injection H as <- <- <- <-; auto.
  - assert (Hin : forall ch, In ch sub -> cmds_ok ch).
    { intros ch Hch c Hc. apply Hs. apply all_commands_branch. eauto. }
    cbn [resolve].
    Ltac resolve_tac IH Hin Hs Hl :=
      repeat match goal with
      | |- good (RFail _ _) => apply good_fail
      | |- good (match ?X with Some _ => _ | None => _ end) =>
        let E := fresh "E" in destruct X eqn:E;
        [ first [ eapply find_leaf_ok; [exact IH|exact Hin| |exact E]; assumption
                | eapply find_branch_ok; [exact IH|exact Hin| |exact E]; assumption
                | eapply first_match_ok; [exact IH|exact Hin| |exact E]; assumption ] | ]
      end.
    destruct toks as [|[t|e] rest]; [|destruct t|]; resolve_tac IH Hin Hs Hl.
    + destruct rest as [|[t2|e2] rest2]; [|destruct t2|]; resolve_tac IH Hin Hs Hl.
Qed.
End ResolveOk.

Lemma exec_leaf_ok : forall Pc t lf s lf' s',
  cmds_ok Pc t -> cmds_ok Pc lf -> exec t lf s = XOk lf' s' -> cmds_ok Pc lf'.
Proof.
  intros Pc t lf s lf' s' Ht Hl H. unfold exec in H.
  destruct (resolve t lf (x_toks s)) as [c q l1 t1|e t1] eqn:Hr; [|discriminate].
  destruct (resolve_ok Pc t lf (x_toks s) Ht Hl _ _ _ _ Hr) as [_ Hok].
  unfold run_handler in H. destruct q.
  - destruct (response_unit (x_fmt s)); [|discriminate].
    destruct (run_prog _ _ _ _) as [[[? ?] ?] [?|]]; [discriminate|]. injection H as <- _. exact Hok.
  - destruct (run_prog _ _ _ _) as [[[? ?] ?] [?|]]; [discriminate|]. injection H as <- _. exact Hok.
Qed.

(* ---- the unit loop in a form with few cases ---- *)
Inductive body_kind := BExec (t : tree D) (o : option (tree D)) (toks : list titem) | BFinish | BFail (e : error).
Definition body_kind_of (root leaf : tree D) (toks : list titem) : body_kind :=
  match toks with
  | IOk THeaderMnemonicSeparator :: rest => BExec root None rest
  | IOk (TMnemonic m) :: _ => if starts_with_star m then BExec root (Some leaf) toks else BExec leaf None toks
  | [] => BFinish
  | IErr e :: _ => BFail (std_error e)
  | IOk _ :: _ => BFail (std_error SyntaxError)
  end.
Definition relabel (o : option (tree D)) (r : xres D) : xres D :=
  match o, r with Some l, XOk _ s => XOk l s | _, _ => r end.
Definition fin_res (r : res unit) : option error :=
  match r with Ok _ => None | Err e => Some (std_error e) end.

Lemma unit_body_eq : forall root leaf s,
  unit_body root leaf s =
  match body_kind_of root leaf (x_toks s) with
  | BExec t o toks => UExec (relabel o (exec t t (with_toks s toks)))
  | BFinish => UDone (fst (finish_message s)) (fin_res (snd (finish_message s)))
  | BFail e => UDone s (Some e)
  end.
Proof.
  intros root leaf [toks d f tr]. unfold unit_body, body_kind_of. cbn [x_toks].
  destruct toks as [|[t|e] rest].
  - destruct (finish_message _) as [s' r]. reflexivity.
  - destruct t; try reflexivity.
    destruct (starts_with_star s); cbn [with_toks x_toks x_dev x_fmt x_trace relabel]; [|reflexivity].
    destruct (exec root root _); reflexivity.
  - reflexivity.
Qed.

Inductive after_kind := ANext (toks : list titem) | AFinish | AStop (toks : list titem) (e : error).
Definition after_kind_of (toks : list titem) : after_kind :=
  match toks with
  | [] => AFinish
  | IOk TUnitSeparator :: rest => ANext rest
  | IOk tok :: rest =>
    if is_data tok || match tok with TDataSeparator => true | _ => false end
    then AStop rest (std_error ParameterNotAllowed)
    else AStop rest (std_error SyntaxError)
  | IErr e :: rest => AStop rest (std_error e)
  end.

Lemma unit_after_eq : forall (leaf' : tree D) s',
  unit_after leaf' s' =
  match after_kind_of (x_toks s') with
  | ANext rest => UNext leaf' (with_toks s' rest)
  | AFinish => UStop (fst (finish_message s')) (fin_res (snd (finish_message s')))
  | AStop rest e => UStop (with_toks s' rest) (Some e)
  end.
Proof.
  intros leaf' s'. unfold unit_after, after_kind_of.
  destruct (x_toks s') as [|[t|e] rest].
  - destruct (finish_message _) as [s'' r]. reflexivity.
  - destruct t; reflexivity.
  - reflexivity.
Qed.

Definition loop_tail (fu : nat) (root : tree D) (r : xres D) : outcome (xstate D * option error) :=
  match r with
  | XErr e s' => Val (s', Some e)
  | XOk leaf' s' =>
    match after_kind_of (x_toks s') with
    | ANext rest => unit_loop fu root leaf' (with_toks s' rest)
    | AFinish => Val (fst (finish_message s'), fin_res (snd (finish_message s')))
    | AStop rest e => Val (with_toks s' rest, Some e)
    end
  end.

Lemma unit_loop_S : forall fu root leaf s,
  unit_loop (S fu) root leaf s =
  match body_kind_of root leaf (x_toks s) with
  | BExec t o toks => loop_tail fu root (relabel o (exec t t (with_toks s toks)))
  | BFinish => Val (fst (finish_message s), fin_res (snd (finish_message s)))
  | BFail e => Val (s, Some e)
  end.
Proof.
  intros fu root leaf s. cbn [unit_loop]. rewrite unit_body_eq.
  destruct (body_kind_of root leaf (x_toks s)) as [t o toks| |e]; try reflexivity.
  destruct (relabel o _) as [lf s1|e s1]; [|reflexivity].
  cbn [loop_tail]. rewrite unit_after_eq. destruct (after_kind_of _); reflexivity.
Qed.

Lemma body_kind_tree : forall root leaf toks t o toks',
  body_kind_of root leaf toks = BExec t o toks' ->
  (t = root \/ t = leaf) /\ (o = None \/ o = Some leaf).
Proof.
  intros root leaf toks t o toks' H. unfold body_kind_of in H.
  destruct toks as [|[tk|e] rest]; try discriminate.
  destruct tk; try discriminate.
  - injection H as <- <- <-. auto.
  - destruct (starts_with_star s); injection H as <- <- <-; auto.
Qed.

(* ---- a state invariant carried through the loop ---- *)
Definition fin_of (s0 s' : xstate D) (e : option error) : Prop :=
  (s' = s0 /\ e <> None) \/
  (s' = fst (finish_message s0) /\ e = fin_res (snd (finish_message s0))).

Section LoopInv.
Variable P : xstate D -> Prop.
Hypothesis Ptoks : forall s toks, P s -> P (with_toks s toks).
Hypothesis Phandler : forall c q leaf s toks, P s -> P (xres_state (run_handler c q leaf s toks)).

Lemma exec_P : forall t lf s, P s -> P (xres_state (exec t lf s)).
Proof.
  intros t lf s HP. unfold exec. destruct (resolve t lf (x_toks s)); cbn [xres_state]; auto.
Qed.

Lemma relabel_state : forall o r, xres_state (relabel o r) = xres_state r.
Proof. intros [l|] [lf s|e s]; reflexivity. Qed.

Lemma loop_tail_inv_gen : forall fu root s' e,
  (forall leaf s, P s -> unit_loop fu root leaf s = Val (s', e) -> exists s0, P s0 /\ fin_of s0 s' e) ->
  forall r, P (xres_state r) -> loop_tail fu root r = Val (s', e) -> exists s0, P s0 /\ fin_of s0 s' e.
Proof.
  intros fu root s' e IH [lf s1|e1 s1] HP H; cbn [loop_tail xres_state] in *.
  - destruct (after_kind_of (x_toks s1)) as [rest| |rest e2].
    + eapply IH; [|exact H]. auto.
    + injection H as <- <-. exists s1. split; [assumption|]. right. auto.
    + injection H as <- <-. exists (with_toks s1 rest). split; [auto|]. left. split; [reflexivity|discriminate].
  - injection H as <- <-. exists s1. split; [assumption|]. left. split; [reflexivity|discriminate].
Qed.

Lemma unit_loop_inv : forall fuel root leaf s s' e,
  P s -> unit_loop fuel root leaf s = Val (s', e) -> exists s0, P s0 /\ fin_of s0 s' e.
Proof.
  induction fuel as [|fu IH]; intros root leaf s s' e HP H; [discriminate|].
  rewrite unit_loop_S in H.
  destruct (body_kind_of root leaf (x_toks s)) as [t o toks| |e1].
  - eapply loop_tail_inv_gen; [|idtac|exact H].
    + intros lf s2 HP2 H2. eapply IH; eauto.
    + rewrite relabel_state. apply exec_P. auto.
  - injection H as <- <-. exists s. split; [assumption|]. right. auto.
  - injection H as <- <-. exists s. split; [assumption|]. left. split; [reflexivity|discriminate].
Qed.

Lemma loop_tail_inv : forall fu root r s' e,
  P (xres_state r) -> loop_tail fu root r = Val (s', e) -> exists s0, P s0 /\ fin_of s0 s' e.
Proof.
  intros fu root r s' e. apply loop_tail_inv_gen. intros; eapply unit_loop_inv; eauto.
Qed.
End LoopInv.

(* ---- formatter predicates through the handler / loop layers ---- *)
Section ProgInv.
Variable Q : fmt -> Prop.
Hypothesis Qpush : forall f ch f', Q f -> push f ch = Ok f' -> Q f'.

Lemma run_prog_Q : forall (p : hprog D) toks f u toks' d f' r,
  Q f -> run_prog p toks f u = (toks', d, f', r) -> Q f'.
Proof.
  induction p as [rq k IH|h k IH|x k IH|d0 r0]; intros toks f u toks' d f' r HQ H; cbn [run_prog] in H.
  - destruct (if rq then next_token toks else next_optional_token toks) as [pr t1]. eapply IH; eauto.
  - destruct u as [ru|]; [|eauto].
    destruct (ru_header f ru h) as [f1 ru1] eqn:E. eapply IH; [|exact H]. eapply ru_header_Q; eauto.
  - destruct u as [ru|]; [|eauto].
    destruct (ru_data f ru x) as [f1 ru1] eqn:E. eapply IH; [|exact H]. eapply ru_data_Q; eauto.
  - injection H as E1 E2 E3 E4. now subst.
Qed.

Lemma run_handler_Q : forall c q leaf (s : xstate D) toks,
  Q (x_fmt s) -> Q (x_fmt (xres_state (run_handler c q leaf s toks))).
Proof.
  intros c q leaf s toks HQ. unfold run_handler. destruct q.
  - destruct (response_unit (x_fmt s)) as [f0|e] eqn:Hr; [|exact HQ].
    destruct (run_prog (qu c (x_dev s)) toks f0 (Some runit_new)) as [[[t d] f'] r] eqn:Hp.
    assert (Q f') by (eapply run_prog_Q; [|exact Hp]; eapply response_unit_Q; eauto).
    destruct r; assumption.
  - destruct (run_prog (ev c (x_dev s)) toks (x_fmt s) None) as [[[t d] f'] r] eqn:Hp.
    assert (Q f') by (eapply run_prog_Q; [|exact Hp]; assumption).
    destruct r; assumption.
Qed.

Lemma finish_message_Q : forall s : xstate D, Q (x_fmt s) -> Q (x_fmt (fst (finish_message s))).
Proof.
  intros s HQ. unfold finish_message. destruct (buf (x_fmt s)); [exact HQ|].
  unfold message_end. destruct (push _ _) as [f|e] eqn:Hp; [|exact HQ]. cbn. eauto.
Qed.

Lemma fin_of_Q : forall s0 s' e, Q (x_fmt s0) -> fin_of s0 s' e -> Q (x_fmt s').
Proof. intros s0 s' e HQ [[-> _]|[-> _]]; [assumption|now apply finish_message_Q]. Qed.

Lemma unit_loop_Q : forall fuel root leaf (s : xstate D) s' e,
  Q (x_fmt s) -> unit_loop fuel root leaf s = Val (s', e) -> Q (x_fmt s').
Proof.
  intros fuel root leaf s s' e HQ H.
  destruct (unit_loop_inv (fun s => Q (x_fmt s)) (fun s toks H => H)
              (fun c q leaf s toks H => run_handler_Q c q leaf s toks H) _ _ _ _ _ _ HQ H) as (s0 & H0 & Hf).
  eapply fin_of_Q; eauto.
Qed.

Lemma loop_tail_Q : forall fu root r s' e,
  Q (x_fmt (xres_state r)) -> loop_tail fu root r = Val (s', e) -> Q (x_fmt s').
Proof.
  intros fu root r s' e HQ H.
  destruct (loop_tail_inv (fun s => Q (x_fmt s)) (fun s toks H => H)
              (fun c q leaf s toks H => run_handler_Q c q leaf s toks H) _ _ _ _ _ HQ H) as (s0 & H0 & Hf).
  eapply fin_of_Q; eauto.
Qed.
End ProgInv.

(* ---- run ---- *)
Definition hook_of (e : option error) : list error := match e with Some x => [x] | None => [] end.

Lemma run_inv : forall (root : tree D) input d f r,
  run root input d f = Val r ->
  exists toks s e, tokenize input = Val toks /\
    unit_loop (S (length toks)) root root (mkX toks d f []) = Val (s, e) /\
    r = mkRun e (x_dev s) (buf (x_fmt s)) (x_trace s) (hook_of e).
Proof.
  intros root input d f r H. unfold run in H.
  destruct (tokenize input) as [toks|] eqn:Ht; [|discriminate]. cbn [obind] in H.
  unfold run_tokens in H.
  destruct (unit_loop (S (length toks)) root root (mkX toks d f [])) as [[s e]|] eqn:Hl; [|discriminate].
  cbn [obind] in H. injection H as <-. exists toks, s, e. auto.
Qed.

Lemma run_intro : forall (root : tree D) input d f toks s e,
  tokenize input = Val toks ->
  unit_loop (S (length toks)) root root (mkX toks d f []) = Val (s, e) ->
  run root input d f = Val (mkRun e (x_dev s) (buf (x_fmt s)) (x_trace s) (hook_of e)).
Proof.
  intros root input d f toks s e Ht Hl. unfold run, run_tokens. rewrite Ht. cbn [obind].
  rewrite Hl. reflexivity.
Qed.

(* ------------------------------------------------------------------ *)
(* C11: the bounded buffer never exceeds its capacity                  *)
(* ------------------------------------------------------------------ *)
Theorem run_never_exceeds_capacity : forall (root : tree D) input d c r,
  run root input d (mkFmt (Some c) []) = Val r -> (length (r_out r) <= c)%nat.
Proof.
  intros root input d c r H. apply run_inv in H. destruct H as (toks & s & e & _ & Hl & ->).
  cbn [r_out].
  pose (Q := fun f => cap f = Some c /\ (length (buf f) <= c)%nat).
  assert (HQ : Q (x_fmt s)).
  { eapply (unit_loop_Q Q); [|idtac|exact Hl].
    - intros f ch f' [Hc Hlen] Hp. split.
      + apply push_appends in Hp. destruct Hp as [_ ->]. exact Hc.
      + assert (Hf : fits f') by (eapply push_fits; [|exact Hp]; unfold fits; now rewrite Hc).
        unfold fits in Hf. apply push_appends in Hp. destruct Hp as [_ Hc']. rewrite Hc', Hc in Hf. exact Hf.
    - split; cbn; [reflexivity|lia]. }
  apply HQ.
Qed.

(* ------------------------------------------------------------------ *)
(* C10: framing of the whole response message (growable buffer)        *)
(* ------------------------------------------------------------------ *)
Definition unit_texts (tr : list (N * bool * list byte)) : list (list byte) :=
  map snd (filter (fun x => snd (fst x)) tr).

Lemma unit_texts_snoc : forall tr id q t,
  unit_texts (tr ++ [(id, q, t)]) = unit_texts tr ++ (if q then [t] else []).
Proof.
  intros tr id q t. unfold unit_texts. rewrite filter_app, map_app. cbn. destruct q; reflexivity.
Qed.

Lemma skipn_app_exact : forall {A} (a b : list A), skipn (length a) (a ++ b) = b.
Proof. induction a as [|x a IH]; intros b; cbn; auto. Qed.

Lemma response_unit_None : forall b,
  response_unit (mkFmt None b) = Ok (mkFmt None (b ++ match b with [] => [] | _ => [59] end)).
Proof. intros [|x b]; reflexivity. Qed.

(* growable buffers stay growable and only grow *)
Definition grows (b0 : list byte) (f : fmt) : Prop := cap f = None /\ is_prefix b0 (buf f).
Lemma grows_push : forall b0 f ch f', grows b0 f -> push f ch = Ok f' -> grows b0 f'.
Proof.
  intros b0 f ch f' [Hc Hp] H. apply push_appends in H. destruct H as [Hb Hc']. split.
  - congruence.
  - rewrite Hb. eapply is_prefix_trans; [exact Hp|apply is_prefix_app].
Qed.
Lemma grows_refl : forall b, grows b (mkFmt None b).
Proof. intros b. split; [reflexivity|apply is_prefix_refl]. Qed.

Definition framed (s : xstate D) : Prop :=
  cap (x_fmt s) = None /\
  (Forall (fun t => t <> []) (unit_texts (x_trace s)) ->
   buf (x_fmt s) = intercalate [59] (unit_texts (x_trace s))).

Lemma run_handler_framed : forall c q leaf s toks,
  framed s -> framed (xres_state (run_handler c q leaf s toks)).
Proof.
  intros c q leaf [tk d [cp b] tr] toks [Hc HP]. cbn [x_fmt x_trace cap buf] in *. subst cp.
  unfold run_handler. cbn [x_fmt x_trace x_dev]. destruct q.
  - rewrite response_unit_None.
    set (b1 := b ++ match b with [] => [] | _ => [59] end).
    destruct (run_prog (qu c d) toks (mkFmt None b1) (Some runit_new)) as [[[t1 d1] f'] r] eqn:Hp.
    assert (Hg : grows b1 f').
    { eapply (run_prog_Q (grows b1)); [apply grows_push|apply grows_refl|exact Hp]. }
    destruct Hg as [Hc' [text Hb']]. cbn [buf].
    assert (Hfr : framed (mkX t1 d1 f' (tr ++ [(cid c, true, skipn (length b1) (buf f'))]))).
    { split; [exact Hc'|]. cbn [x_fmt x_trace]. rewrite Hb', skipn_app_exact, unit_texts_snoc.
      intros HF. apply Forall_app in HF. destruct HF as [HF1 HF2].
      specialize (HP HF1). rewrite intercalate_snoc. subst b1.
      destruct (unit_texts tr) as [|u us] eqn:Hu.
      - cbn in HP. subst b. reflexivity.
      - assert (Hne : b <> []) by (rewrite HP; apply intercalate_nonempty; [assumption|discriminate]).
        destruct b as [|x b]; [congruence|]. rewrite <- HP, <- app_assoc. reflexivity. }
    destruct r; exact Hfr.
  - destruct (run_prog (ev c d) toks (mkFmt None b) None) as [[[t1 d1] f'] r] eqn:Hp.
    apply event_writes_nothing in Hp. subst f'.
    assert (Hfr : framed (mkX t1 d1 (mkFmt None b) (tr ++ [(cid c, false, skipn (length b) b)]))).
    { split; [reflexivity|]. cbn [x_fmt x_trace buf]. rewrite unit_texts_snoc, app_nil_r. exact HP. }
    destruct r; exact Hfr.
Qed.

Lemma finish_message_trace : forall s : xstate D, x_trace (fst (finish_message s)) = x_trace s.
Proof.
  intros s. unfold finish_message. destruct (buf (x_fmt s)); [reflexivity|].
  destruct (message_end (x_fmt s)); reflexivity.
Qed.

Theorem framing : forall (root : tree D) input d r,
  run root input d (mkFmt None []) = Val r -> r_err r = None ->
  Forall (fun t => t <> []) (unit_texts (r_trace r)) ->
  r_out r = match unit_texts (r_trace r) with [] => [] | us => intercalate [59] us ++ [10] end.
Proof.
  intros root input d r H He HF. apply run_inv in H. destruct H as (toks & s & e & _ & Hl & ->).
  cbn [r_err r_out r_trace] in *. subst e.
  destruct (unit_loop_inv framed (fun s toks H => H) run_handler_framed _ _ _ _ _ _
              (conj eq_refl (fun _ => eq_refl) : framed (mkX toks d (mkFmt None []) [])) Hl)
    as (s0 & [Hc HP] & [[_ Hne]|[-> Hfin]]); [congruence|].
  rewrite finish_message_trace in *. specialize (HP HF).
  destruct s0 as [tk d0 [cp b] tr]. cbn [x_fmt x_trace cap buf] in *. subst cp.
  unfold finish_message. cbn [x_fmt buf]. destruct b as [|x b].
  - cbn [fst x_fmt buf]. destruct (unit_texts tr) as [|u us] eqn:Hu; [reflexivity|].
    exfalso. symmetry in HP. revert HP. apply intercalate_nonempty; [assumption|discriminate].
  - unfold message_end. rewrite push_None. cbn [fst x_fmt buf].
    destruct (unit_texts tr) as [|u us] eqn:Hu; [discriminate|]. rewrite HP. reflexivity.
Qed.

(* ------------------------------------------------------------------ *)
(* C11: bounded vs growable run, layer by layer                        *)
(* ------------------------------------------------------------------ *)
Lemma push_all_bnd : forall cs c b, (length b <= c)%nat ->
  ((length (b ++ List.concat cs) <= c)%nat /\
   push_all (mkFmt (Some c) b) cs = (mkFmt (Some c) (b ++ List.concat cs), None))
  \/ ((c < length (b ++ List.concat cs))%nat /\
      exists b', push_all (mkFmt (Some c) b) cs = (mkFmt (Some c) b', Some OutOfMemory) /\
                 is_prefix b' (b ++ List.concat cs)).
Proof.
  induction cs as [|ch cs IH]; intros c b Hb; cbn [push_all List.concat].
  - left. rewrite app_nil_r. auto.
  - unfold push. cbn [cap buf]. destruct (Nat.ltb c (length b + length ch)) eqn:Hlt.
    + right. split.
      { rewrite !app_length. apply PeanoNat.Nat.ltb_lt in Hlt. lia. }
      exists b. split; [reflexivity|apply is_prefix_app].
    + apply PeanoNat.Nat.ltb_ge in Hlt. rewrite app_assoc. apply IH. rewrite app_length. lia.
Qed.

Lemma format_data_bnd : forall x c b, (length b <= c)%nat ->
  ((length (b ++ List.concat (fst (chunks_of x))) <= c)%nat /\
   format_data (mkFmt (Some c) b) x = (mkFmt (Some c) (b ++ List.concat (fst (chunks_of x))), snd (chunks_of x)))
  \/ ((c < length (b ++ List.concat (fst (chunks_of x))))%nat /\
      exists b', format_data (mkFmt (Some c) b) x = (mkFmt (Some c) b', Some OutOfMemory) /\
                 is_prefix b' (b ++ List.concat (fst (chunks_of x)))).
Proof.
  intros x c b Hb. unfold format_data. destruct (chunks_of x) as [chunks own]. cbn [fst snd].
  destruct (push_all_bnd chunks c b Hb) as [[Hl ->]|[Hl (b' & -> & Hp)]]; [left|right]; eauto.
Qed.

Lemma ru_header_None_ext : forall b u h,
  exists x u', ru_header (mkFmt None b) u h = (mkFmt None (b ++ x), u').
Proof.
  intros b u h. unfold ru_header. destruct (ru_result u).
  - exists []. eexists. rewrite app_nil_r. reflexivity.
  - rewrite push_all_None. eauto.
Qed.

Lemma ru_data_None_ext : forall b u x,
  exists y u', ru_data (mkFmt None b) u x = (mkFmt None (b ++ y), u').
Proof.
  intros b u x. unfold ru_data. destruct (ru_result u).
  - exists []. eexists. rewrite app_nil_r. reflexivity.
  - rewrite push_all_None, format_data_None, <- app_assoc. eauto.
Qed.

(* formatter + response unit of the growable run vs. the bounded run inside one handler *)
Inductive hrel (c : nat) : fmt * runit -> fmt * runit -> Prop :=
| hsync : forall b u, (length b <= c)%nat -> hrel c (mkFmt None b, u) (mkFmt (Some c) b, u)
| hdiv : forall bi ui bc uc, is_prefix bc bi -> (c < length bi)%nat -> ru_result uc = Some OutOfMemory ->
    hrel c (mkFmt None bi, ui) (mkFmt (Some c) bc, uc).

Lemma ru_header_rel : forall c fi ui fc uc h,
  hrel c (fi, ui) (fc, uc) -> hrel c (ru_header fi ui h) (ru_header fc uc h).
Proof.
  intros c fi ui fc uc h H. inversion H as [b u Hb|bi ui' bc uc' Hp Hl Hr]; subst.
  - unfold ru_header. destruct (ru_result uc) as [e|] eqn:Hres.
    + constructor; assumption.
    + rewrite push_all_None.
      destruct (push_all_bnd ((if has_header uc then [[58]] else []) ++ [h]) c b Hb)
        as [[Hl ->]|[Hl (b' & -> & Hp)]].
      * constructor. assumption.
      * apply hdiv; auto.
  - destruct (ru_header_None_ext bi ui h) as (x & u' & ->).
    unfold ru_header. rewrite Hr. apply hdiv; cbn [ru_result]; auto.
    + eapply is_prefix_trans; [exact Hp|apply is_prefix_app].
    + rewrite app_length. lia.
Qed.

Lemma ru_data_rel : forall c fi ui fc uc x,
  hrel c (fi, ui) (fc, uc) -> hrel c (ru_data fi ui x) (ru_data fc uc x).
Proof.
  intros c fi ui fc uc x H. inversion H as [b u Hb|bi ui' bc uc' Hp Hl Hr]; subst.
  - unfold ru_data. destruct (ru_result uc) as [e|] eqn:Hres.
    + constructor; assumption.
    + set (sep := if has_data uc then [[RESPONSE_DATA_SEPARATOR]]
                  else if has_header uc then [[RESPONSE_HEADER_SEPARATOR]] else []).
      rewrite push_all_None, format_data_None.
      destruct (push_all_bnd sep c b Hb) as [[Hl ->]|[Hl (b' & -> & Hp)]].
      * destruct (format_data_bnd x c (b ++ List.concat sep) Hl) as [[Hl2 ->]|[Hl2 (b' & -> & Hp)]].
        -- constructor. assumption.
        -- apply hdiv; auto.
      * apply hdiv; auto.
        -- eapply is_prefix_trans; [exact Hp|apply is_prefix_app].
        -- rewrite app_length. lia.
  - destruct (ru_data_None_ext bi ui x) as (y & u' & ->).
    unfold ru_data. rewrite Hr. apply hdiv; cbn [ru_result]; auto.
    + eapply is_prefix_trans; [exact Hp|apply is_prefix_app].
    + rewrite app_length. lia.
Qed.

Inductive finishing : hprog D -> Prop :=
| fin_pull : forall r k, (forall x, finishing (k x)) -> finishing (Pull r k)
| fin_hdr : forall h k, finishing k -> finishing (Hdr h k)
| fin_emit : forall x k, finishing k -> finishing (Emit x k)
| fin_done_finish : forall d, finishing (Done d RetFinish)
| fin_done_err : forall d e, finishing (Done d (RetErr e)).

Definition prog_rel (c : nat) (fin : Prop) (Ri Rc : list titem * D * fmt * option error) : Prop :=
  let '(ti, di, fi, ri) := Ri in
  let '(tc, dc, fc, rc) := Rc in
  tc = ti /\ dc = di /\
  ((exists b, fi = mkFmt None b /\ fc = mkFmt (Some c) b /\ (length b <= c)%nat /\ rc = ri)
   \/ (exists bi bc, fi = mkFmt None bi /\ fc = mkFmt (Some c) bc /\ is_prefix bc bi /\ (c < length bi)%nat /\
         (fin -> rc = Some (std_error OutOfMemory) \/ (rc = ri /\ ri <> None)))).

Lemma prog_rel_weaken : forall c (fin fin' : Prop) Ri Rc,
  (fin' -> fin) -> prog_rel c fin Ri Rc -> prog_rel c fin' Ri Rc.
Proof.
  intros c fin fin' [[[ti di] fi] ri] [[[tc dc] fc] rc] Himp (H1 & H2 & H3).
  split; [assumption|]. split; [assumption|].
  destruct H3 as [H3|(bi & bc & E1 & E2 & Hp & Hl & Hf)]; [left; assumption|].
  right. exists bi, bc. repeat split; auto.
Qed.

Lemma run_prog_rel : forall c (p : hprog D) toks fi ui fc uc,
  hrel c (fi, ui) (fc, uc) ->
  prog_rel c (finishing p) (run_prog p toks fi (Some ui)) (run_prog p toks fc (Some uc)).
Proof.
  intros c. induction p as [rq k IH|h k IH|x k IH|d0 r0]; intros toks fi ui fc uc H; cbn [run_prog].
  - destruct (if rq then next_token toks else next_optional_token toks) as [pr t1].
    eapply prog_rel_weaken; [|apply IH; exact H]. intros Hf. inversion Hf; subst. auto.
  - pose proof (ru_header_rel c fi ui fc uc h H) as H'.
    destruct (ru_header fi ui h) as [fi1 ui1], (ru_header fc uc h) as [fc1 uc1].
    eapply prog_rel_weaken; [|apply IH; exact H']. intros Hf. inversion Hf; subst. auto.
  - pose proof (ru_data_rel c fi ui fc uc x H) as H'.
    destruct (ru_data fi ui x) as [fi1 ui1], (ru_data fc uc x) as [fc1 uc1].
    eapply prog_rel_weaken; [|apply IH; exact H']. intros Hf. inversion Hf; subst. auto.
  - unfold prog_rel. split; [reflexivity|]. split; [reflexivity|].
    inversion H as [b u Hb|bi ui' bc uc' Hp Hl Hr]; subst.
    + left. exists b. auto.
    + right. exists bi, bc. repeat split; auto. intros Hf.
      destruct r0 as [|e|].
      * inversion Hf.
      * right. split; [reflexivity|discriminate].
      * left. rewrite Hr. reflexivity.
Qed.

(* ---- states ---- *)
Definition xsync (c : nat) (si sc : xstate D) : Prop :=
  exists b, x_fmt si = mkFmt None b /\ x_fmt sc = mkFmt (Some c) b /\ (length b <= c)%nat /\
            x_toks sc = x_toks si /\ x_dev sc = x_dev si /\ x_trace sc = x_trace si.
Definition xdiv (c : nat) (si sc : xstate D) : Prop :=
  is_prefix (buf (x_fmt sc)) (buf (x_fmt si)) /\ (c < length (buf (x_fmt si)))%nat.

Definition xres_same (c : nat) (ri rc : xres D) : Prop :=
  match ri, rc with
  | XOk l1 s1, XOk l2 s2 => l2 = l1 /\ xsync c s1 s2
  | XErr e1 s1, XErr e2 s2 => e2 = e1 /\ xsync c s1 s2
  | _, _ => False
  end.
Definition xres_div (c : nat) (fin : Prop) (ri rc : xres D) : Prop :=
  xdiv c (xres_state ri) (xres_state rc) /\
  (fin -> exists e sc', rc = XErr e sc' /\ (e = std_error OutOfMemory \/ exists si', ri = XErr e si')).

Lemma xsync_with_toks : forall c si sc toks, xsync c si sc -> xsync c (with_toks si toks) (with_toks sc toks).
Proof.
  intros c si sc toks (b & E1 & E2 & Hb & E3 & E4 & E5). exists b. unfold with_toks. cbn. repeat split; assumption.
Qed.

Definition extends (b0 : list byte) (f : fmt) : Prop := is_prefix b0 (buf f).
Lemma extends_push : forall b0 f ch f', extends b0 f -> push f ch = Ok f' -> extends b0 f'.
Proof.
  intros b0 f ch f' Hp H. apply push_appends in H. destruct H as [Hb _]. unfold extends. rewrite Hb.
  eapply is_prefix_trans; [exact Hp|apply is_prefix_app].
Qed.

Lemma response_unit_bnd : forall c b, (length b <= c)%nat ->
  exists b1, response_unit (mkFmt None b) = Ok (mkFmt None b1) /\ is_prefix b b1 /\
    (((length b1 <= c)%nat /\ response_unit (mkFmt (Some c) b) = Ok (mkFmt (Some c) b1))
     \/ ((c < length b1)%nat /\ response_unit (mkFmt (Some c) b) = Err OutOfMemory)).
Proof.
  intros c [|x b] Hb.
  - exists []. split; [reflexivity|]. split; [apply is_prefix_refl|]. left. auto.
  - exists ((x :: b) ++ [59]). split; [reflexivity|]. split; [apply is_prefix_app|].
    unfold response_unit. cbn [buf]. unfold push. cbn [cap buf].
    destruct (Nat.ltb c (length (x :: b) + length [RESPONSE_MESSAGE_UNIT_SEPARATOR])) eqn:Hlt.
    + right. split; [|reflexivity]. apply PeanoNat.Nat.ltb_lt in Hlt. rewrite app_length. exact Hlt.
    + left. split; [|reflexivity]. apply PeanoNat.Nat.ltb_ge in Hlt. rewrite app_length. exact Hlt.
Qed.

Lemma run_handler_rel : forall c cm q lf si sc toks, xsync c si sc ->
  xres_same c (run_handler cm q lf si toks) (run_handler cm q lf sc toks)
  \/ xres_div c (forall d, finishing (qu cm d)) (run_handler cm q lf si toks) (run_handler cm q lf sc toks).
Proof.
  intros c cm q lf [tki di fi tri] [tkc dc fc trc] toks (b & E1 & E2 & Hb & E3 & E4 & E5).
  cbn [x_fmt x_toks x_dev x_trace] in *. subst fi fc tkc dc trc.
  unfold run_handler. cbn [x_fmt x_toks x_dev x_trace buf]. destruct q.
  - destruct (response_unit_bnd c b Hb) as (b1 & -> & Hp1 & [[Hl1 ->]|[Hl1 ->]]).
    + pose proof (run_prog_rel c (qu cm di) toks _ _ _ _ (hsync c b1 runit_new Hl1)) as Hrel.
      destruct (run_prog (qu cm di) toks (mkFmt None b1) (Some runit_new)) as [[[ti di'] fi'] ri].
      destruct (run_prog (qu cm di) toks (mkFmt (Some c) b1) (Some runit_new)) as [[[tc dc'] fc'] rc].
      destruct Hrel as (-> & -> & [(b2 & -> & -> & Hl2 & ->)|(bi & bc & -> & -> & Hp & Hl & Hf)]).
      * left. destruct ri; cbn [xres_same]; (split; [reflexivity|]); exists b2; cbn; repeat split; auto.
      * right. split.
        { destruct ri, rc; cbn [xres_state]; split; cbn; auto. }
        intros Hfin. destruct (Hf (Hfin di)) as [->|[-> Hne]].
        -- eexists _, _. split; [reflexivity|]. left. reflexivity.
        -- destruct ri as [e|]; [|congruence]. eexists _, _. split; [reflexivity|]. right. eauto.
    + right.
      destruct (run_prog (qu cm di) toks (mkFmt None b1) (Some runit_new)) as [[[ti di'] fi'] ri] eqn:Hrp.
      assert (He : extends b1 fi').
      { eapply (run_prog_Q (extends b1)); [apply extends_push| |exact Hrp]. apply is_prefix_refl. }
      split.
      * assert (Hpp : is_prefix b (buf fi')) by (eapply is_prefix_trans; eauto).
        apply is_prefix_length in He. cbn [buf] in He.
        destruct ri; cbn [xres_state]; split; cbn; auto; lia.
      * intros _. eexists _, _. split; [reflexivity|]. left. reflexivity.
  - left. rewrite (run_prog_None_indep (ev cm di) toks (mkFmt None b) (mkFmt (Some c) b)).
    destruct (run_prog (ev cm di) toks (mkFmt None b) None) as [[[ti di'] fi'] ri] eqn:Hrp.
    apply event_writes_nothing in Hrp. subst fi'.
    destruct ri; cbn [xres_same]; (split; [reflexivity|]); exists b; cbn; repeat split; auto.
Qed.

Definition wb_tree (root : tree D) : Prop := forall c d, In c (all_commands root) -> finishing (qu c d).
Definition Pfin (cm : command D) : Prop := forall d, finishing (qu cm d).
Lemma wb_cmds_ok : forall t, wb_tree t -> cmds_ok Pfin t.
Proof. intros t H cm Hin d. apply H. exact Hin. Qed.
Lemma cmds_ok_wb : forall t, cmds_ok Pfin t -> wb_tree t.
Proof. intros t H cm d Hin. apply H. exact Hin. Qed.

Lemma exec_rel : forall c t lf si sc, xsync c si sc ->
  xres_same c (exec t lf si) (exec t lf sc)
  \/ xres_div c (wb_tree t /\ wb_tree lf) (exec t lf si) (exec t lf sc).
Proof.
  intros c t lf si sc Hs. unfold exec.
  assert (Htk : x_toks sc = x_toks si) by (destruct Hs as (b & _ & _ & _ & E & _); exact E).
  rewrite Htk. destruct (resolve t lf (x_toks si)) as [cm q l1 t1|e t1] eqn:Hr.
  - destruct (run_handler_rel c cm q l1 si sc t1 Hs) as [H|[H1 H2]]; [left; exact H|right].
    split; [exact H1|]. intros [Hw1 Hw2]. apply H2.
    exact (proj1 (resolve_ok Pfin t lf (x_toks si) (wb_cmds_ok _ Hw1) (wb_cmds_ok _ Hw2) _ _ _ _ Hr)).
  - left. cbn [xres_same]. split; [reflexivity|]. apply xsync_with_toks. exact Hs.
Qed.

Lemma finish_rel : forall c si sc, xsync c si sc ->
  snd (finish_message si) = Ok tt /\
  ((xsync c (fst (finish_message si)) (fst (finish_message sc)) /\ snd (finish_message sc) = Ok tt)
   \/ (xdiv c (fst (finish_message si)) (fst (finish_message sc)) /\ snd (finish_message sc) = Err OutOfMemory)).
Proof.
  intros c [tki di fi tri] [tkc dc fc trc] (b & E1 & E2 & Hb & E3 & E4 & E5).
  cbn [x_fmt x_toks x_dev x_trace] in *. subst fi fc tkc dc trc.
  unfold finish_message. cbn [x_fmt x_toks x_dev x_trace buf]. destruct b as [|x b].
  - split; [reflexivity|]. left. split; [|reflexivity]. exists []. cbn. repeat split; auto.
  - unfold message_end, push. cbn [cap buf].
    destruct (Nat.ltb c (length (x :: b) + length [RESPONSE_MESSAGE_TERMINATOR])) eqn:Hlt.
    + split; [reflexivity|]. right. split; [|reflexivity]. split; cbn [fst x_fmt buf].
      * apply is_prefix_app.
      * apply PeanoNat.Nat.ltb_lt in Hlt. rewrite app_length. exact Hlt.
    + split; [reflexivity|]. left. split; [|reflexivity].
      exists ((x :: b) ++ [RESPONSE_MESSAGE_TERMINATOR]). cbn [fst x_fmt x_toks x_dev x_trace].
      apply PeanoNat.Nat.ltb_ge in Hlt. rewrite app_length. repeat split; auto.
Qed.

Lemma relabel_err : forall o e s, relabel o (XErr e s) = XErr e s.
Proof. intros [l|] e s; reflexivity. Qed.

Lemma loop_rel : forall c fuel root leaf si sc si' ei, xsync c si sc ->
  unit_loop fuel root leaf si = Val (si', ei) ->
  (exists sc', unit_loop fuel root leaf sc = Val (sc', ei) /\ xsync c si' sc')
  \/ ((c < length (buf (x_fmt si')))%nat /\
      (wb_tree root -> wb_tree leaf ->
       exists sc' ec, unit_loop fuel root leaf sc = Val (sc', ec) /\
         is_prefix (buf (x_fmt sc')) (buf (x_fmt si')) /\
         (ei = None -> ec = Some (std_error OutOfMemory)))).
Proof.
  intros c. induction fuel as [|fu IH]; intros root leaf si sc si' ei Hs H; [discriminate|].
  rewrite unit_loop_S in H. rewrite unit_loop_S.
  assert (Htk : x_toks sc = x_toks si) by (destruct Hs as (b & _ & _ & _ & E & _); exact E).
  rewrite Htk.
  destruct (body_kind_of root leaf (x_toks si)) as [t o toks| |e1] eqn:Hk.
  - pose proof (xsync_with_toks c si sc toks Hs) as Hs1.
    destruct (body_kind_tree _ _ _ _ _ _ Hk) as [Ht Ho].
    assert (Hwt : wb_tree root -> wb_tree leaf -> wb_tree t) by (destruct Ht; subst; auto).
    destruct (exec_rel c t t _ _ Hs1) as [Hsame|[Hdiv Hfin]].
    + destruct (exec t t (with_toks si toks)) as [l1 s1|e1 s1] eqn:Hei,
               (exec t t (with_toks sc toks)) as [l2 s2|e2 s2] eqn:Hec;
        cbn [xres_same] in Hsame; try contradiction; destruct Hsame as [-> Hs2].
      * (* both units succeeded, in sync *)
        assert (Hrl : exists l, relabel o (XOk l1 s1) = XOk l s1 /\ relabel o (XOk l1 s2) = XOk l s2 /\
                                (wb_tree root -> wb_tree leaf -> wb_tree l)).
        { destruct Ho; subst o; cbn [relabel]; eexists; (split; [reflexivity|]; split; [reflexivity|]); auto.
          intros Hwr Hwl. apply cmds_ok_wb.
          eapply (exec_leaf_ok Pfin); [| |exact Hei]; apply wb_cmds_ok; auto. }
        destruct Hrl as (l & R1 & R2 & Hwl'). rewrite R1 in H. rewrite R2. cbn [loop_tail] in *.
        assert (Htk2 : x_toks s2 = x_toks s1) by (destruct Hs2 as (b & _ & _ & _ & E & _); exact E).
        rewrite Htk2. destruct (after_kind_of (x_toks s1)) as [rest| |rest e2].
        -- destruct (IH root l _ _ _ _ (xsync_with_toks c s1 s2 rest Hs2) H) as [HL|[HR1 HR2]];
             [left; exact HL|right]. split; [exact HR1|]. intros Hwr Hwl. apply HR2; auto.
        -- injection H as <- <-. destruct (finish_rel c s1 s2 Hs2) as [Hi [[Hx Hc]|[Hx Hc]]].
           ++ left. eexists. split; [|exact Hx]. rewrite Hi, Hc. reflexivity.
           ++ right. destruct Hx as [Hx1 Hx2]. split; [exact Hx2|]. intros _ _.
              eexists _, _. split; [reflexivity|]. split; [exact Hx1|]. intros _. rewrite Hc. reflexivity.
        -- injection H as <- <-. left. eexists. split; [reflexivity|]. apply xsync_with_toks. exact Hs2.
      * rewrite relabel_err in *. cbn [loop_tail] in *. injection H as <- <-.
        left. eexists. split; [reflexivity|]. exact Hs2.
    + (* the bounded run overflowed inside this unit *)
      right. destruct Hdiv as [Hd1 Hd2].
      assert (Hext : is_prefix (buf (x_fmt (xres_state (exec t t (with_toks si toks))))) (buf (x_fmt si'))).
      { eapply (loop_tail_Q (extends _)); [apply extends_push| |exact H].
        rewrite relabel_state. apply is_prefix_refl. }
      split.
      { apply is_prefix_length in Hext. lia. }
      intros Hwr Hwl. destruct (Hfin (conj (Hwt Hwr Hwl) (Hwt Hwr Hwl))) as (e & sc' & Hec & Hcase).
      rewrite Hec in *. rewrite relabel_err. cbn [loop_tail xres_state] in *.
      eexists _, _. split; [reflexivity|]. split.
      { eapply is_prefix_trans; [exact Hd1|exact Hext]. }
      intros Hnone. destruct Hcase as [->|(si'' & Hei)]; [reflexivity|].
      rewrite Hei, relabel_err in H. cbn [loop_tail] in H. injection H as _ <-. discriminate.
  - injection H as <- <-. destruct (finish_rel c si sc Hs) as [Hi [[Hx Hc]|[Hx Hc]]].
    + left. eexists. split; [|exact Hx]. rewrite Hi, Hc. reflexivity.
    + right. destruct Hx as [Hx1 Hx2]. split; [exact Hx2|]. intros _ _.
      eexists _, _. split; [reflexivity|]. split; [exact Hx1|]. intros _. rewrite Hc. reflexivity.
  - injection H as <- <-. left. eexists. split; [reflexivity|]. exact Hs.
Qed.

Lemma xsync_init : forall c toks (d : D), xsync c (mkX toks d (mkFmt None []) []) (mkX toks d (mkFmt (Some c) []) []).
Proof. intros c toks d. exists []. cbn. repeat split; auto. lia. Qed.

Theorem cap_fits : forall (root : tree D) input d c r_inf,
  run root input d (mkFmt None []) = Val r_inf -> (length (r_out r_inf) <= c)%nat ->
  run root input d (mkFmt (Some c) []) = Val r_inf.
Proof.
  intros root input d c r_inf H Hlen. apply run_inv in H. destruct H as (toks & s & e & Ht & Hl & ->).
  cbn [r_out] in Hlen.
  destruct (loop_rel c _ _ _ _ _ _ _ (xsync_init c toks d) Hl) as [(sc' & Hlc & Hs)|[Hgt _]]; [|lia].
  rewrite (run_intro _ _ _ _ _ _ _ Ht Hlc).
  destruct Hs as (b & E1 & E2 & _ & _ & E4 & E5). rewrite E1, E2, E4, E5. reflexivity.
Qed.

Theorem cap_prefix : forall (root : tree D) input d c r_c r_inf, wb_tree root ->
  run root input d (mkFmt (Some c) []) = Val r_c -> run root input d (mkFmt None []) = Val r_inf ->
  is_prefix (r_out r_c) (r_out r_inf).
Proof.
  intros root input d c r_c r_inf Hwb Hc Hi.
  apply run_inv in Hi. destruct Hi as (toks & s & e & Ht & Hl & ->).
  apply run_inv in Hc. destruct Hc as (toks' & s' & e' & Ht' & Hl' & ->).
  rewrite Ht in Ht'. injection Ht' as <-. cbn [r_out].
  destruct (loop_rel c _ _ _ _ _ _ _ (xsync_init c toks d) Hl) as [(sc' & Hlc & Hs)|[Hgt HR]].
  - rewrite Hlc in Hl'. injection Hl' as <- <-.
    destruct Hs as (b & E1 & E2 & _). rewrite E1, E2. apply is_prefix_refl.
  - destruct (HR Hwb Hwb) as (sc' & ec & Hlc & Hp & _).
    rewrite Hlc in Hl'. injection Hl' as <- <-. exact Hp.
Qed.

Theorem cap_overflow : forall (root : tree D) input d c r_c r_inf, wb_tree root ->
  run root input d (mkFmt (Some c) []) = Val r_c -> run root input d (mkFmt None []) = Val r_inf ->
  r_err r_inf = None -> (c < length (r_out r_inf))%nat -> r_err r_c = Some (std_error OutOfMemory).
Proof.
  intros root input d c r_c r_inf Hwb Hc Hi Hnone Hlen.
  apply run_inv in Hi. destruct Hi as (toks & s & e & Ht & Hl & ->).
  apply run_inv in Hc. destruct Hc as (toks' & s' & e' & Ht' & Hl' & ->).
  rewrite Ht in Ht'. injection Ht' as <-. cbn [r_out r_err] in *.
  destruct (loop_rel c _ _ _ _ _ _ _ (xsync_init c toks d) Hl) as [(sc' & Hlc & Hs)|[Hgt HR]].
  - destruct Hs as (b & E1 & E2 & Hb & _). rewrite E1 in Hlen. cbn [buf] in Hlen. lia.
  - destruct (HR Hwb Hwb) as (sc' & ec & Hlc & _ & He).
    rewrite Hlc in Hl'. injection Hl' as <- <-. auto.
Qed.

End TreeProofs.

Print Assumptions cap_fits.
Print Assumptions framing.
Print Assumptions run_never_exceeds_capacity.
Print Assumptions cap_prefix.
Print Assumptions cap_overflow.
Print Assumptions unit_text_structure.
Print Assumptions event_writes_nothing.
