(* Scripted.v — first-order handler scripts (the data the correspondence check generates)
   embedded into the interaction trees of Tree.v.  The Rust twin is harness/src/k_tree.rs.
   Model file: no proofs. *)
From VF Require Import Base Gen_Errors Lexer Response Tree.
Open Scope N_scope.

Inductive sop :=
| SPull (required swallow : bool)
| SHdr (h : list byte)
| SData (d : rdata)
| SFail (e : error)
| SRetOk
| SRetFinish.

Inductive lentry := LCall (id : N) (q : bool) | LTok (t : token) | LAbsent | LPullErr (code : Z).
Definition slog := list lentry.

Fixpoint script_prog (ops : list sop) (log : slog) : hprog slog :=
  match ops with
  | [] => Done log RetFinish               (* default end: Ok(()) for an event, finish() for a query *)
  | SPull req sw :: ops' =>
    Pull req (fun r =>
      match r with
      | Got t => script_prog ops' (log ++ [LTok t])
      | Absent => script_prog ops' (log ++ [LAbsent])
      | Failed e => if sw then script_prog ops' (log ++ [LPullErr (ecode e)])
                    else Done (log ++ [LPullErr (ecode e)]) (RetErr e)
      end)
  | SHdr h :: ops' => Hdr h (script_prog ops' log)
  | SData d :: ops' => Emit d (script_prog ops' log)
  | SFail e :: _ => Done log (RetErr e)
  | SRetOk :: _ => Done log RetOk
  | SRetFinish :: _ => Done log RetFinish
  end.

Definition scripted (id : N) (evops quops : list sop) : command slog :=
  mkCommand id (fun log => script_prog evops (log ++ [LCall id false]))
               (fun log => script_prog quops (log ++ [LCall id true])).
