(* Scripted.v — first-order handler scripts (the data the correspondence check generates)
   embedded into the interaction trees of Tree.v.  The Rust twin is harness/src/k_tree.rs.
   Model file: no proofs. *)
From VF Require Import Base Gen_Errors Lexer Response Tree Conv.
Open Scope N_scope.

(* typed pulls: next_data::<T> / next_optional_data::<T> *)
Inductive pty := PInt (t : ity) | PFloat (t : fty) | PBool | PBytes (t : bty).
(* None: the conversion succeeded; Some e: it failed with code e *)
Definition conv_status (ty : pty) (tok : token) : option Z :=
  let st {A} (r : outcome (res A)) : option Z :=
    match r with Val (Ok _) => None | Val (Err e) => Some e | Panic _ => Some DeviceSpecificError end in
  match ty with
  | PInt t => st (conv_int t tok)
  | PFloat t => st (conv_float t tok)
  | PBool => st (conv_bool tok)
  | PBytes t => st (conv_bytes t tok)
  end.

Inductive sop :=
| SPull (required swallow : bool)
| SPullT (required swallow : bool) (ty : pty)
| SHdr (h : list byte)
| SData (d : rdata)
| SFail (e : error)
| SRetOk
| SRetFinish.

Inductive lentry := LCall (id : N) (q : bool) | LTok (t : token) | LTyped | LAbsent | LPullErr (code : Z).
Definition slog := list lentry.

Fixpoint script_prog (ops : list sop) (log : slog) : hprog slog :=
  match ops with
  | [] => Done log RetFinish               (* default end: Ok(()) for an event, finish() for a query *)
  | SPull req sw :: ops' =>
    Pull req (fun r =>
      match r with
      | Got t => script_prog ops' (log ++ [LTok t])
      | Absent => script_prog ops' (log ++ [LAbsent])
      | Failed e => if sw then script_prog ops' (log ++ [LPullErr (ecode e)])
                    else Done (log ++ [LPullErr (ecode e)]) (RetErr e)
      end)
  | SPullT req sw ty :: ops' =>
    Pull req (fun r =>
      match r with
      | Got t =>
        match conv_status ty t with
        | None => script_prog ops' (log ++ [LTyped])
        | Some e => if sw then script_prog ops' (log ++ [LPullErr e])
                    else Done (log ++ [LPullErr e]) (RetErr (std_error e))
        end
      | Absent => script_prog ops' (log ++ [LAbsent])
      | Failed e => if sw then script_prog ops' (log ++ [LPullErr (ecode e)])
                    else Done (log ++ [LPullErr (ecode e)]) (RetErr e)
      end)
  | SHdr h :: ops' => Hdr h (script_prog ops' log)
  | SData d :: ops' => Emit d (script_prog ops' log)
  | SFail e :: _ => Done log (RetErr e)
  | SRetOk :: _ => Done log RetOk
  | SRetFinish :: _ => Done log RetFinish
  end.

Definition scripted (id : N) (evops quops : list sop) : command slog :=
  mkCommand id (fun log => script_prog evops (log ++ [LCall id false]))
               (fun log => script_prog quops (log ++ [LCall id true])).
