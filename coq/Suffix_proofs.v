(* Suffix_proofs.v — proofs about Suffix.v against SuffixSpec.v (C18). *)
From Coq Require Import QArith String Lia.
From VF Require Import Base Gen_Errors Lexer Conv Gen_Suffix SuffixSpec Suffix.
Open Scope string_scope.

(* the tables regenerated from the source on this run denote, entry by entry and spelling by spelling,
   the unit and multiplier SCPI-99 assigns (finite domain = the table itself: closed by computation) *)
Theorem suffix_table_ok : forallb table_ok suffix_tables = true.
Proof. vm_compute. reflexivity. Qed.

Lemma table_entry_meaning : forall q base ents sp u s,
  In (q, base, ents) suffix_tables -> In (sp, u) ents -> In s sp ->
  exists l l', uom_unit q u = Some l /\ scpi_suffix q s = Some l' /\ lin_eqb l l' = true.
Proof.
  intros q base ents sp u s Ht He Hs.
  pose proof suffix_table_ok as H. rewrite forallb_forall in H. specialize (H _ Ht).
  cbn [table_ok] in H. apply andb_prop in H. destruct H as [_ H].
  rewrite forallb_forall in H. specialize (H _ He). unfold entry_ok in H. cbn [snd fst] in H.
  destruct (uom_unit q u) as [l|] eqn:U; [|discriminate].
  rewrite forallb_forall in H. specialize (H _ Hs).
  destruct (scpi_suffix q s) as [l'|] eqn:S; [|discriminate].
  exists l, l'. auto.
Qed.

(* ---- the lookup is a first match, ignoring letter case ---- *)
Theorem lookup_sound : forall ents s u, lookup_suffix ents s = Some u ->
  exists sp, In (sp, u) ents /\ existsb (fun x => bytes_eq_nocase s x) sp = true.
Proof.
  induction ents as [|[sp u'] ents IH]; intros s u H; cbn [lookup_suffix] in H; [discriminate|].
  destruct (existsb (fun x => bytes_eq_nocase s x) sp) eqn:E.
  - inversion H; subst. exists sp. split; [left; reflexivity|exact E].
  - destruct (IH _ _ H) as [sp' [Hin Hex]]. exists sp'. split; [right; exact Hin|exact Hex].
Qed.
Theorem lookup_none : forall ents s, lookup_suffix ents s = None <->
  (forall sp u, In (sp, u) ents -> existsb (fun x => bytes_eq_nocase s x) sp = false).
Proof.
  induction ents as [|[sp u'] ents IH]; intro s; cbn [lookup_suffix]; split; intro H.
  - intros sp u [].
  - reflexivity.
  - destruct (existsb (fun x => bytes_eq_nocase s x) sp) eqn:E; [discriminate|].
    intros sp0 u0 [Heq|Hin]; [inversion Heq; subst; exact E|]. eapply IH; eauto.
  - destruct (existsb (fun x => bytes_eq_nocase s x) sp) eqn:E.
    + rewrite (H sp u' (or_introl eq_refl)) in E. discriminate.
    + apply IH. intros sp0 u0 Hin. apply (H sp0 u0). right. exact Hin.
Qed.

(* ---- conversions ---- *)
Theorem unknown_suffix_rejected : forall q base ents num suf, table_of q = Some (base, ents) ->
  lookup_suffix ents suf = None -> conv_unit q (TDecSuffix num suf) = Err IllegalParameterValue.
Proof. intros q base ents num suf T L. unfold conv_unit. rewrite T, L. reflexivity. Qed.

Theorem non_numeric_rejected : forall q base ents tok, table_of q = Some (base, ents) ->
  (forall s, tok <> TDec s) -> (forall n s, tok <> TDecSuffix n s) -> conv_unit q tok = Err DataTypeError.
Proof.
  intros q base ents tok T H1 H2. unfold conv_unit. rewrite T.
  destruct tok; try reflexivity; [exfalso; eapply H1; reflexivity | exfalso; eapply H2; reflexivity].
Qed.

Theorem bare_number_in_base_unit : forall q base ents s v l, table_of q = Some (base, ents) ->
  lit_Q s = Some v -> uom_unit q base = Some l -> conv_unit q (TDec s) = Ok (apply_lin l v).
Proof. intros q base ents s v l T L U. unfold conv_unit. rewrite T, L, U. reflexivity. Qed.

Theorem suffixed_number_value : forall q base ents num suf u v l, table_of q = Some (base, ents) ->
  lookup_suffix ents suf = Some u -> lit_Q num = Some v -> uom_unit q u = Some l ->
  conv_unit q (TDecSuffix num suf) = Ok (apply_lin l v).
Proof. intros q base ents num suf u v l T L V U. unfold conv_unit. rewrite T, L, V, U. reflexivity. Qed.

Lemma table_of_in : forall q base ents, table_of q = Some (base, ents) -> In (q, base, ents) suffix_tables.
Proof.
  intros q base ents H. unfold table_of in H.
  destruct (find (fun t => String.eqb (fst (fst t)) q) suffix_tables) as [[[q' b'] e']|] eqn:F; [|discriminate].
  inversion H; subst. apply find_some in F. destruct F as [Hin Heq]. cbn [fst] in Heq.
  apply String.eqb_eq in Heq. subst. exact Hin.
Qed.

(* end to end: a number with ANY spelling (ignoring case) of a table suffix converts to the value SCPI-99
   assigns to that suffix: value * multiplier (+ offset for temperatures) *)
Theorem suffix_conversion_is_scpi : forall q base ents num suf u v, table_of q = Some (base, ents) ->
  lookup_suffix ents suf = Some u -> lit_Q num = Some v ->
  exists sp s l l', In (sp, u) ents /\ In s sp /\ bytes_eq_nocase suf s = true /\
    scpi_suffix q s = Some l' /\ lin_eqb l l' = true /\ conv_unit q (TDecSuffix num suf) = Ok (apply_lin l v).
Proof.
  intros q base ents num suf u v T L V.
  destruct (lookup_sound _ _ _ L) as [sp [Hin Hex]].
  apply existsb_exists in Hex. destruct Hex as [s [Hs Heq]].
  destruct (table_entry_meaning q base ents sp u s (table_of_in _ _ _ T) Hin Hs) as [l [l' [U [S E]]]].
  exists sp, s, l, l'. repeat split; auto.
  eapply suffixed_number_value; eauto.
Qed.

(* amplitude and decibel suffixes classify without altering the number *)
Theorem amplitude_classifies : forall q num s,
  conv_amplitude q (TDecSuffix num s) =
  if ends_with_nocase s [80; 75]%N then (AmpPeak, conv_unit q (TDecSuffix num (strip_end s 2)))
  else if ends_with_nocase s [80; 80]%N then (AmpPP, conv_unit q (TDecSuffix num (strip_end s 2)))
  else if ends_with_nocase s [82; 77; 83]%N then (AmpRms, conv_unit q (TDecSuffix num (strip_end s 3)))
  else (AmpNone, conv_unit q (TDecSuffix num s)).
Proof. reflexivity. Qed.
Theorem amplitude_plain : forall q tok, (forall n s, tok <> TDecSuffix n s) -> conv_amplitude q tok = (AmpNone, conv_unit q tok).
Proof. intros q tok H. destruct tok; try reflexivity. exfalso. eapply H. reflexivity. Qed.
Theorem db_number_unchanged : forall q num suf u v l, lookup_suffix (log_table_of q) suf = Some u ->
  lit_Q num = Some v -> uom_unit q u = Some l -> conv_db q (TDecSuffix num suf) = DbLog v (apply_lin l 1).
Proof. intros q num suf u v l L V U. unfold conv_db. rewrite L, V, U. reflexivity. Qed.
Theorem db_bare_number : forall q s v, lit_Q s = Some v -> conv_db q (TDec s) = DbNone v.
Proof. intros q s v V. unfold conv_db. rewrite V. reflexivity. Qed.

(* non-vacuity *)
Example c18_example :
  conv_unit "Energy" (TDecSuffix [49]%N [77; 74]%N) = Ok (1 * Qpower 10 (-3) + 0)%Q /\
  scpi_suffix "Frequency" [77; 72; 90]%N = Some (Qpower 10 6, 0%Q) /\
  conv_unit "Frequency" (TDecSuffix [49]%N [86]%N) = Err IllegalParameterValue.
Proof. vm_compute. repeat split. Qed.
