(* Tree_proofs.v — proofs about Tree.v: parameter pulls (C06), totality of the
   dispatcher (C01), abort-on-first-error / at-most-once invocation (C05). *)
From VF Require Import Base Gen_Errors Lexer Lexer_proofs Mnemonic Response Tree.
From Coq Require Import Lia ZifyBool ZifyN ZifyNat.

Definition data_or_sep (i : titem) : Prop :=
  exists t, i = IOk t /\ (is_data t = true \/ t = TDataSeparator).

(* ------------------------------------------------------------------ *)
(* C06: what a handler can pull                                        *)
(* ------------------------------------------------------------------ *)

Theorem pull_only_data : forall toks t r,
  next_optional_token toks = (Got t, r) -> is_data t = true.
Proof.
  induction toks as [|i toks IH]; intros t r H; cbn in H.
  - discriminate H.
  - destruct i as [tk|e]; [|discriminate H].
    destruct (is_data tk) eqn:Hd.
    + inversion H; subst; exact Hd.
    + destruct tk; try discriminate H; try discriminate Hd.
      destruct (next_optional_token toks) as [[g| |e] r'] eqn:Hn; try discriminate H.
      inversion H; subst. eapply IH; reflexivity.
Qed.

Theorem pull_req_only_data : forall toks t r,
  next_token toks = (Got t, r) -> is_data t = true.
Proof.
  intros toks t r H. unfold next_token in H.
  destruct (next_optional_token toks) as [[g| |e] r'] eqn:Hn; try discriminate H.
  inversion H; subst. eapply pull_only_data; exact Hn.
Qed.

Theorem pull_consumes_only_data : forall toks r toks',
  next_optional_token toks = (r, toks') ->
  exists used, toks = used ++ toks' /\ Forall data_or_sep used.
Proof.
  induction toks as [|i toks IH]; intros r toks' H; cbn in H.
  - inversion H; subst. exists []. split; [reflexivity|constructor].
  - destruct i as [tk|e].
    + destruct (is_data tk) eqn:Hd.
      * inversion H; subst. exists [IOk tk]. split; [reflexivity|].
        constructor; [|constructor]. exists tk. split; [reflexivity|left; exact Hd].
      * assert (Hnil : exists used, IOk tk :: toks = used ++ IOk tk :: toks /\ Forall data_or_sep used)
          by (exists []; split; [reflexivity|constructor]).
        destruct tk; try discriminate Hd;
          try (inversion H; subst; exact Hnil).
        clear Hnil.
        destruct (next_optional_token toks) as [pr r'] eqn:Hn.
        destruct (IH _ _ eq_refl) as [used [Hu Hf]].
        assert (toks' = r') by (destruct pr; inversion H; reflexivity). subst toks'.
        exists (IOk TDataSeparator :: used). split.
        -- cbn. rewrite <- Hu. reflexivity.
        -- constructor; [|exact Hf]. exists TDataSeparator. split; [reflexivity|right; reflexivity].
    + inversion H; subst. exists []. split; [reflexivity|constructor].
Qed.

Theorem pull_req_consumes_only_data : forall toks r toks',
  next_token toks = (r, toks') ->
  exists used, toks = used ++ toks' /\ Forall data_or_sep used.
Proof.
  intros toks r toks' H. unfold next_token in H.
  destruct (next_optional_token toks) as [pr r'] eqn:Hn.
  assert (toks' = r') by (destruct pr; inversion H; reflexivity). subst toks'.
  eapply pull_consumes_only_data; exact Hn.
Qed.

Theorem pull_first_datum : forall d rest, is_data d = true ->
  next_optional_token (IOk d :: rest) = (Got d, rest) /\ next_token (IOk d :: rest) = (Got d, rest).
Proof.
  intros d rest Hd. unfold next_token. cbn [next_optional_token]. rewrite Hd. split; reflexivity.
Qed.

Theorem pull_next_datum : forall d rest, is_data d = true ->
  next_optional_token (IOk TDataSeparator :: IOk d :: rest) = (Got d, rest) /\
  next_token (IOk TDataSeparator :: IOk d :: rest) = (Got d, rest).
Proof.
  intros d rest Hd. unfold next_token. cbn [next_optional_token is_data]. rewrite Hd. split; reflexivity.
Qed.

Theorem pull_at_unit_end : forall toks, (toks = [] \/ exists r, toks = IOk TUnitSeparator :: r) ->
  next_optional_token toks = (Absent, toks) /\
  next_token toks = (Failed (std_error MissingParameter), toks).
Proof.
  intros toks [H|[r H]]; subst toks; unfold next_token; cbn; split; reflexivity.
Qed.

Section WithD.
Context {D : Type}.

Theorem handler_stays_in_unit : forall (p : hprog D) toks f u toks' d f' r,
  run_prog p toks f u = (toks', d, f', r) ->
  exists used, toks = used ++ toks' /\ Forall data_or_sep used.
Proof.
  induction p as [required k IH | h k IH | dt k IH | d0 r0]; intros toks f u toks' d f' r H; cbn in H.
  - destruct (if required then next_token toks else next_optional_token toks) as [pr t1] eqn:Hp.
    apply IH in H. destruct H as [u2 [H2 F2]].
    assert (exists used, toks = used ++ t1 /\ Forall data_or_sep used) as [u1 [H1 F1]].
    { destruct required.
      - eapply pull_req_consumes_only_data; exact Hp.
      - eapply pull_consumes_only_data; exact Hp. }
    exists (u1 ++ u2). split.
    + rewrite <- app_assoc, <- H2. exact H1.
    + apply Forall_app. split; assumption.
  - destruct u as [ru|].
    + destruct (ru_header f ru h) as [f1 ru1]. eapply IH; exact H.
    + eapply IH; exact H.
  - destruct u as [ru|].
    + destruct (ru_data f ru dt) as [f1 ru1]. eapply IH; exact H.
    + eapply IH; exact H.
  - inversion H; subst. exists []. split; [reflexivity|constructor].
Qed.

Theorem leftover_is_108 : forall fu (root leaf : tree D) s leaf' s' tok rest,
  unit_body root leaf s = UExec (XOk leaf' s') -> x_toks s' = IOk tok :: rest ->
  (is_data tok = true \/ tok = TDataSeparator) ->
  unit_loop (S fu) root leaf s = Val (with_toks s' rest, Some (std_error ParameterNotAllowed)).
Proof.
  intros fu root leaf s leaf' s' tok rest Hb Ht Hd.
  cbn [unit_loop]. rewrite Hb. unfold unit_after. rewrite Ht.
  destruct Hd as [Hd|Hd].
  - destruct tok; try discriminate Hd; reflexivity.
  - subst tok. reflexivity.
Qed.

(* ------------------------------------------------------------------ *)
(* structural facts: resolve / exec only remove a prefix of the stream *)
(* ------------------------------------------------------------------ *)

Section TreeInd.
  Variable P : tree D -> Prop.
  Hypothesis HL : forall n d c, P (Leaf n d c).
  Hypothesis HB : forall n d sub, Forall P sub -> P (Branch n d sub).
  Fixpoint tree_ind' (t : tree D) : P t :=
    match t with
    | Leaf n d c => HL n d c
    | Branch n d sub =>
      HB n d sub ((fix go (l : list (tree D)) : Forall P l :=
                     match l with
                     | [] => Forall_nil _
                     | x :: l' => Forall_cons _ (tree_ind' x) (go l')
                     end) sub)
    end.
End TreeInd.

Definition suffix_of (t' toks : list titem) : Prop := exists used, toks = used ++ t'.

Lemma suffix_refl t : suffix_of t t.
Proof. exists []. reflexivity. Qed.
Lemma suffix_cons x t' t : suffix_of t' t -> suffix_of t' (x :: t).
Proof. intros [u H]. exists (x :: u). cbn. rewrite H. reflexivity. Qed.
Lemma suffix_trans a b c : suffix_of a b -> suffix_of b c -> suffix_of a c.
Proof. intros [u H] [v H']. exists (v ++ u). rewrite <- app_assoc, <- H. exact H'. Qed.
Lemma skip_header_sep_suffix t : suffix_of (skip_header_sep t) t.
Proof.
  destruct t as [|[tk|e] r]; try apply suffix_refl.
  destruct tk; try apply suffix_refl. cbn. apply suffix_cons, suffix_refl.
Qed.

Definition rres_toks (r : @rres D) : list titem :=
  match r with RFound _ _ _ t => t | RFail _ t => t end.

Definition dflt_branch (sub : list (tree D)) (tk : list titem) (lf : tree D) : option (@rres D) :=
  (fix find (l : list (tree D)) : option rres :=
     match l with
     | [] => None
     | (Branch _ true _ as ch) :: _ => Some (resolve ch lf tk)
     | _ :: l' => find l'
     end) sub.
Definition dflt_leaf (sub : list (tree D)) (tk : list titem) (lf : tree D) : option (@rres D) :=
  (fix find (l : list (tree D)) : option rres :=
     match l with
     | [] => None
     | (Leaf _ true _ as ch) :: _ => Some (resolve ch lf tk)
     | _ :: l' => find l'
     end) sub.
Definition first_match_of (self : tree D) (m : list byte) (toks2 : list titem) (sub : list (tree D))
  : option (@rres D) :=
  (fix first_match (l : list (tree D)) : option rres :=
     match l with
     | [] => None
     | ch :: l' => if mnemonic_match (node_name ch) m then Some (resolve ch self toks2)
                   else first_match l'
     end) sub.

Lemma resolve_branch n d sub leaf toks :
  resolve (Branch n d sub) leaf toks =
    match toks with
    | IErr e :: _ => RFail e toks
    | IOk THeaderMnemonicSeparator :: _ | IOk (TMnemonic _) :: _ =>
      let toks1 := match toks with IOk THeaderMnemonicSeparator :: r => r | t => t end in
      match toks1 with
      | IOk (TMnemonic m) :: toks2 =>
        match first_match_of (Branch n d sub) m toks2 sub with
        | Some r => r
        | None => match dflt_branch sub toks1 (Branch n d sub) with
                  | Some r => r
                  | None => RFail UndefinedHeader toks1
                  end
        end
      | IErr e :: _ => RFail e toks1
      | _ => RFail CommandHeaderError toks1
      end
    | [] | IOk THeaderSeparator :: _ | IOk TUnitSeparator :: _ | IOk THeaderQuerySuffix :: _ =>
      match dflt_leaf sub toks leaf with
      | Some r => r
      | None => match dflt_branch sub toks leaf with
                | Some r => r
                | None => RFail UndefinedHeader toks
                end
      end
    | IOk _ :: _ => RFail SyntaxError toks
    end.
Proof. reflexivity. Qed.

Definition resolve_ok (self : tree D) : Prop :=
  forall leaf toks, suffix_of (rres_toks (resolve self leaf toks)) toks.

Lemma dflt_branch_ok sub : Forall resolve_ok sub -> forall tk lf r,
  dflt_branch sub tk lf = Some r -> suffix_of (rres_toks r) tk.
Proof.
  induction 1 as [|ch l Hch Hl IH]; intros tk lf r H; cbn in H.
  - discriminate H.
  - destruct ch as [nm df c|nm df sb].
    + apply (IH tk lf r). exact H.
    + destruct df.
      * inversion H; subst. apply Hch.
      * apply (IH tk lf r). exact H.
Qed.
Lemma dflt_leaf_ok sub : Forall resolve_ok sub -> forall tk lf r,
  dflt_leaf sub tk lf = Some r -> suffix_of (rres_toks r) tk.
Proof.
  induction 1 as [|ch l Hch Hl IH]; intros tk lf r H; cbn in H.
  - discriminate H.
  - destruct ch as [nm df c|nm df sb].
    + destruct df.
      * inversion H; subst. apply Hch.
      * apply (IH tk lf r). exact H.
    + apply (IH tk lf r). exact H.
Qed.
Lemma first_match_ok sub : Forall resolve_ok sub -> forall self m tk r,
  first_match_of self m tk sub = Some r -> suffix_of (rres_toks r) tk.
Proof.
  induction 1 as [|ch l Hch Hl IH]; intros self m tk r H; cbn in H.
  - discriminate H.
  - destruct (mnemonic_match (node_name ch) m).
    + inversion H; subst. apply Hch.
    + apply (IH self m tk r). exact H.
Qed.

Lemma resolve_suffix : forall self, resolve_ok self.
Proof.
  induction self as [n d c|n d sub Hsub] using tree_ind'; intros leaf toks.
  - destruct toks as [|[tk|e] rest]; cbn [resolve].
    + apply suffix_refl.
    + destruct tk; cbn [rres_toks]; try apply suffix_refl;
        try apply (skip_header_sep_suffix (_ :: _)).
      apply suffix_cons, skip_header_sep_suffix.
    + apply suffix_refl.
  - rewrite resolve_branch.
    assert (Hdef : forall tk lf,
      suffix_of (rres_toks (match dflt_leaf sub tk lf with
                            | Some r => r
                            | None => match dflt_branch sub tk lf with
                                      | Some r => r
                                      | None => RFail UndefinedHeader tk
                                      end
                            end)) tk).
    { intros tk lf. destruct (dflt_leaf sub tk lf) eqn:H1.
      - eapply dflt_leaf_ok; eassumption.
      - destruct (dflt_branch sub tk lf) eqn:H2.
        + eapply dflt_branch_ok; eassumption.
        + apply suffix_refl. }
    assert (Hmn : forall m toks2,
      suffix_of (rres_toks (match first_match_of (Branch n d sub) m toks2 sub with
                            | Some r => r
                            | None => match dflt_branch sub (IOk (TMnemonic m) :: toks2) (Branch n d sub) with
                                      | Some r => r
                                      | None => RFail UndefinedHeader (IOk (TMnemonic m) :: toks2)
                                      end
                            end)) (IOk (TMnemonic m) :: toks2)).
    { intros m toks2. destruct (first_match_of (Branch n d sub) m toks2 sub) eqn:H1.
      - apply suffix_cons. eapply first_match_ok; eassumption.
      - destruct (dflt_branch sub (IOk (TMnemonic m) :: toks2) (Branch n d sub)) eqn:H2.
        + eapply dflt_branch_ok; eassumption.
        + apply suffix_refl. }
    destruct toks as [|[tk|e] rest].
    + apply Hdef.
    + destruct tk; try apply Hdef; try apply suffix_refl.
      * (* header mnemonic separator *)
        cbv zeta. apply suffix_cons.
        destruct rest as [|[tk2|e2] rest2]; try apply suffix_refl.
        destruct tk2; try apply suffix_refl. apply Hmn.
      * apply Hmn.
    + apply suffix_refl.
Qed.

Lemma suffix_len a b : suffix_of a b -> (length a <= length b)%nat.
Proof. intros [u H]. subst b. rewrite app_length. lia. Qed.

Definition xres_state (r : xres D) : xstate D := match r with XOk _ s => s | XErr _ s => s end.

Fixpoint count_unit_seps (toks : list titem) : nat :=
  match toks with
  | [] => 0
  | IOk TUnitSeparator :: r => S (count_unit_seps r)
  | _ :: r => count_unit_seps r
  end.

Lemma count_app u t : count_unit_seps (u ++ t) = (count_unit_seps u + count_unit_seps t)%nat.
Proof.
  induction u as [|i u IH]; [reflexivity|].
  destruct i as [tk|e]; [destruct tk|]; cbn [app count_unit_seps]; rewrite IH; reflexivity.
Qed.
Lemma suffix_count a b : suffix_of a b -> (count_unit_seps a <= count_unit_seps b)%nat.
Proof. intros [u H]. subst b. rewrite count_app. lia. Qed.

(* what one handler invocation does to the stream and to the trace *)
Definition step_ok (s : xstate D) (toks : list titem) (s' : xstate D) : Prop :=
  suffix_of (x_toks s') toks /\
  exists added, x_trace s' = x_trace s ++ added /\ (length added <= 1)%nat.

Lemma run_handler_ok c q leaf s toks : step_ok s toks (xres_state (run_handler c q leaf s toks)).
Proof.
  unfold run_handler, step_ok. destruct q.
  - destruct (response_unit (x_fmt s)) as [f0|e].
    + destruct (run_prog (qu c (x_dev s)) toks f0 (Some runit_new)) as [[[t' d'] f'] r] eqn:Hr.
      apply handler_stays_in_unit in Hr. destruct Hr as [used [Hu _]].
      destruct r; cbn; (split; [exists used; exact Hu|]);
        eexists; (split; [reflexivity|cbn; lia]).
    + cbn. split; [apply suffix_refl|]. exists []. rewrite app_nil_r. split; [reflexivity|cbn; lia].
  - destruct (run_prog (ev c (x_dev s)) toks (x_fmt s) None) as [[[t' d'] f'] r] eqn:Hr.
    apply handler_stays_in_unit in Hr. destruct Hr as [used [Hu _]].
    destruct r; cbn; (split; [exists used; exact Hu|]);
      eexists; (split; [reflexivity|cbn; lia]).
Qed.

Lemma exec_ok self leaf s : step_ok s (x_toks s) (xres_state (exec self leaf s)).
Proof.
  unfold exec. pose proof (resolve_suffix self leaf (x_toks s)) as Hs.
  destruct (resolve self leaf (x_toks s)) as [c q leaf' t'|e t']; cbn [rres_toks] in Hs.
  - destruct (run_handler_ok c q leaf' s t') as [H1 H2]. split; [|exact H2].
    eapply suffix_trans; eassumption.
  - cbn. split; [exact Hs|]. exists []. rewrite app_nil_r. split; [reflexivity|cbn; lia].
Qed.

Theorem exec_invokes_at_most_once : forall (self leaf : tree D) s,
  exists added, x_trace (xres_state (exec self leaf s)) = x_trace s ++ added /\ (length added <= 1)%nat.
Proof. intros self leaf s. exact (proj2 (exec_ok self leaf s)). Qed.

Lemma unit_body_ok (root leaf : tree D) s r :
  unit_body root leaf s = UExec r -> step_ok s (x_toks s) (xres_state r).
Proof.
  unfold unit_body. intros H.
  destruct (x_toks s) as [|[tk|e] rest] eqn:Ht.
  - destruct (finish_message s); discriminate H.
  - destruct tk; try discriminate H.
    + inversion H; subst r.
      destruct (exec_ok root root (with_toks s rest)) as [H1 H2]. cbn in H1, H2.
      split; [apply suffix_cons; exact H1|exact H2].
    + pose proof (exec_ok root root s) as Hr. pose proof (exec_ok leaf leaf s) as Hl.
      rewrite Ht in Hr, Hl.
      destruct (starts_with_star s0).
      * destruct (exec root root s) as [l1 s1|e1 s1]; inversion H; subst r; exact Hr.
      * inversion H; subst r; exact Hl.
  - discriminate H.
Qed.

Lemma finish_message_same (s s' : xstate D) r : finish_message s = (s', r) ->
  x_trace s' = x_trace s /\ x_toks s' = x_toks s.
Proof.
  unfold finish_message. intros H. destruct (buf (x_fmt s)).
  - inversion H; subst. split; reflexivity.
  - destruct (message_end (x_fmt s)); inversion H; subst; split; reflexivity.
Qed.

Lemma unit_body_done (root leaf : tree D) s s' e :
  unit_body root leaf s = UDone s' e -> x_trace s' = x_trace s.
Proof.
  unfold unit_body. intros H.
  destruct (x_toks s) as [|[tk|e0] rest] eqn:Ht.
  - destruct (finish_message s) as [s1 r1] eqn:Hf. inversion H; subst.
    apply (finish_message_same _ _ _ Hf).
  - destruct tk; try (inversion H; subst; reflexivity).
    destruct (starts_with_star s0); [destruct (exec root root s)|]; discriminate H.
  - inversion H; subst; reflexivity.
Qed.

Lemma unit_after_next (leaf' : tree D) s' l'' s'' :
  unit_after leaf' s' = UNext l'' s'' ->
  exists rest, x_toks s' = IOk TUnitSeparator :: rest /\ s'' = with_toks s' rest.
Proof.
  unfold unit_after. intros H.
  destruct (x_toks s') as [|[tk|e0] rest] eqn:Ht.
  - destruct (finish_message s'); discriminate H.
  - destruct tk; try discriminate H.
    inversion H; subst. exists rest. split; reflexivity.
  - discriminate H.
Qed.

Lemma unit_after_stop (leaf' : tree D) s' s'' e :
  unit_after leaf' s' = UStop s'' e -> x_trace s'' = x_trace s'.
Proof.
  unfold unit_after. intros H.
  destruct (x_toks s') as [|[tk|e0] rest] eqn:Ht.
  - destruct (finish_message s') as [s1 r1] eqn:Hf. inversion H; subst.
    apply (finish_message_same _ _ _ Hf).
  - destruct tk; try discriminate H; inversion H; subst; reflexivity.
  - inversion H; subst; reflexivity.
Qed.

(* ------------------------------------------------------------------ *)
(* C01: the dispatcher never panics / never runs out of fuel           *)
(* ------------------------------------------------------------------ *)

Lemma unit_loop_total : forall fu (root leaf : tree D) s,
  (length (x_toks s) < fu)%nat -> exists r, unit_loop fu root leaf s = Val r.
Proof.
  induction fu as [|fu IH]; intros root leaf s Hlen; [lia|].
  cbn [unit_loop].
  destruct (unit_body root leaf s) as [r|s' e] eqn:Hb; [|eexists; reflexivity].
  destruct r as [leaf' s'|e s']; [|eexists; reflexivity].
  destruct (unit_after leaf' s') as [l'' s''|s'' e] eqn:Ha; [|eexists; reflexivity].
  apply IH.
  apply unit_body_ok in Hb. destruct Hb as [Hs _]. cbn [xres_state] in Hs.
  apply suffix_len in Hs.
  apply unit_after_next in Ha. destruct Ha as [rest [Ht Hs'']]. subst s''.
  rewrite Ht in Hs. cbn in Hs |- *. lia.
Qed.

Theorem run_tokens_total : forall (root : tree D) toks d f, exists r, run_tokens root toks d f = Val r.
Proof. intros root toks d f. unfold run_tokens. apply unit_loop_total. cbn. lia. Qed.

Theorem run_total : forall (root : tree D) input d f, exists r, run root input d f = Val r.
Proof.
  intros root input d f. unfold run.
  destruct (lex_total input) as [ts Hts]. rewrite Hts. cbn [obind].
  destruct (run_tokens_total root ts d f) as [[s e] Hr]. rewrite Hr. cbn [obind].
  eexists; reflexivity.
Qed.

(* ------------------------------------------------------------------ *)
(* C05                                                                 *)
(* ------------------------------------------------------------------ *)

Theorem hook_exactly_once : forall (root : tree D) input d f r, run root input d f = Val r ->
  r_hook r = match r_err r with Some e => [e] | None => [] end.
Proof.
  intros root input d f r H. unfold run in H.
  destruct (tokenize input) as [ts|site]; [|discriminate H]. cbn [obind] in H.
  destruct (run_tokens root ts d f) as [[s e]|site]; [|discriminate H]. cbn [obind] in H.
  inversion H; subst r. reflexivity.
Qed.

Theorem first_error_aborts : forall fu (root leaf : tree D) s e s',
  unit_body root leaf s = UExec (XErr e s') -> unit_loop (S fu) root leaf s = Val (s', Some e).
Proof. intros fu root leaf s e s' H. cbn [unit_loop]. rewrite H. reflexivity. Qed.

Theorem stream_error_aborts : forall fu (root leaf : tree D) s e rest,
  x_toks s = IErr e :: rest -> unit_loop (S fu) root leaf s = Val (s, Some (std_error e)).
Proof.
  intros fu root leaf s e rest H. cbn [unit_loop]. unfold unit_body. rewrite H. reflexivity.
Qed.

Lemma unit_loop_trace : forall fu (root leaf : tree D) s sf e,
  unit_loop fu root leaf s = Val (sf, e) ->
  (length (x_trace sf) <= length (x_trace s) + S (count_unit_seps (x_toks s)))%nat.
Proof.
  induction fu as [|fu IH]; intros root leaf s sf e H; [discriminate H|].
  cbn [unit_loop] in H.
  destruct (unit_body root leaf s) as [r|s' e'] eqn:Hb.
  - apply unit_body_ok in Hb. destruct Hb as [Hs [added [Htr Hadd]]].
    apply suffix_count in Hs.
    destruct r as [leaf' s'|e' s']; cbn [xres_state] in Hs, Htr.
    + destruct (unit_after leaf' s') as [l'' s''|s'' e''] eqn:Ha.
      * apply unit_after_next in Ha. destruct Ha as [rest [Ht Hs'']]. subst s''.
        apply IH in H. cbn [with_toks x_trace x_toks] in H.
        rewrite Ht in Hs. cbn [count_unit_seps] in Hs.
        rewrite Htr, app_length in H. lia.
      * apply unit_after_stop in Ha. inversion H; subst.
        rewrite Ha, Htr, app_length. lia.
    + inversion H; subst. rewrite Htr, app_length. lia.
  - apply unit_body_done in Hb. inversion H; subst. rewrite Hb. lia.
Qed.

Theorem trace_bounded_by_units : forall (root : tree D) toks d f s e,
  run_tokens root toks d f = Val (s, e) -> (length (x_trace s) <= S (count_unit_seps toks))%nat.
Proof.
  intros root toks d f s e H. unfold run_tokens in H. apply unit_loop_trace in H. cbn in H. exact H.
Qed.

End WithD.

Print Assumptions run_total.
Print Assumptions handler_stays_in_unit.
Print Assumptions trace_bounded_by_units.
