(* Fmt.v — byte-level response formatting primitives shared by Response.v and
   Status.v: decimal integers, quoted strings.  Model file: no proofs. *)
From VF Require Import Base.

(* lexical_core::write for unsigned integers: plain decimal digits, no sign, no padding *)
Fixpoint digits_aux (fuel : nat) (n : N) (acc : list byte) : list byte :=
  match fuel with
  | O => acc
  | S f =>
    let acc' := (48 + n mod 10) :: acc in
    if n / 10 =? 0 then acc' else digits_aux f (n / 10) acc'
  end.
Definition fmt_N (n : N) : list byte := digits_aux (S (N.to_nat (N.size n))) n [].
(* signed: leading '-' for negatives *)
Definition fmt_Z (z : Z) : list byte :=
  match z with
  | Z0 => [48]
  | Zpos p => fmt_N (Npos p)
  | Zneg p => 45 :: fmt_N (Npos p)
  end.

(* <STRING RESPONSE DATA>: double quotes around, embedded double quotes doubled *)
Fixpoint double_quotes (s : list byte) : list byte :=
  match s with
  | [] => []
  | c :: s' => if c =? 34 then 34 :: 34 :: double_quotes s' else c :: double_quotes s'
  end.
Definition fmt_quoted (s : list byte) : list byte := 34 :: double_quotes s ++ [34].

Fixpoint intercalate (sep : list byte) (l : list (list byte)) : list byte :=
  match l with
  | [] => []
  | [x] => x
  | x :: l' => x ++ sep ++ intercalate sep l'
  end.
