(* Lists_proofs.v — numeric lists and channel lists (Lists.v) against the SCPI-99 8.3 list
   grammars (ListGrammar.v): totality of the iterators (C01), exact entries of well-formed
   lists (C19), and the error lemmas. *)
From VF Require Import Base Gen_Errors ErrTable Fmt Lexer Grammar Grammar_proofs Fmt_proofs Lists ListGrammar.
From VF Require Lexer_proofs.
From Coq Require Import Lia ZifyBool ZifyN ZifyNat.
Open Scope N_scope.

(* ------------------------------------------------------------------ *)
(* 0. fuel-free view of the iterators                                   *)
(* ------------------------------------------------------------------ *)

Section Runs.
  Context {E : Type} (next : list byte -> bool -> outcome (lstep E)).
  Inductive runs : list byte -> bool -> list (litem E) -> Prop :=
  | runs_end : forall c b, next c b = Val LEnd -> runs c b []
  | runs_err : forall c b e, next c b = Val (LErr e) -> runs c b [IError e]
  | runs_item : forall c b e c' b' items,
      next c b = Val (LItem e c' b') -> (length c' < length c)%nat ->
      runs c' b' items -> runs c b (IEntry e :: items).
  (* every step is defined and an item strictly shortens the cursor *)
  Definition next_good : Prop := forall c b, exists s, next c b = Val s /\
    match s with LItem _ c' _ => (length c' < length c)%nat | _ => True end.
End Runs.

Definition nnext (c : list byte) (b : bool) := nlist_next (mkNlist c b).
Definition cnext (c : list byte) (b : bool) := clist_next (mkClist c b).

Lemma runs_nlist_iter : forall c b items, runs nnext c b items ->
  forall f, (length c < f)%nat -> nlist_iter f (mkNlist c b) = Val items.
Proof.
  induction 1 as [c b H | c b e H | c b e c' b' items H Hlen _ IH]; intros f Hf;
    (destruct f as [|f]; [lia|]); cbn [nlist_iter]; unfold nnext in H; rewrite H; cbn [obind];
    [reflexivity | reflexivity |].
  rewrite (IH f) by lia. reflexivity.
Qed.

Lemma runs_clist_iter : forall c b items, runs cnext c b items ->
  forall f, (length c < f)%nat -> clist_iter f (mkClist c b) = Val items.
Proof.
  induction 1 as [c b H | c b e H | c b e c' b' items H Hlen _ IH]; intros f Hf;
    (destruct f as [|f]; [lia|]); cbn [clist_iter]; unfold cnext in H; rewrite H; cbn [obind];
    [reflexivity | reflexivity |].
  rewrite (IH f) by lia. reflexivity.
Qed.

Lemma nlist_iter_total : next_good nnext ->
  forall f c b, (length c < f)%nat -> exists l, nlist_iter f (mkNlist c b) = Val l.
Proof.
  intros G. induction f as [|f IH]; intros c b Hf; [lia|].
  cbn [nlist_iter]. destruct (G c b) as (s & Hs & Hg). unfold nnext in Hs. rewrite Hs. cbn [obind].
  destruct s as [|e c' b'|e]; [eauto | | eauto].
  destruct (IH c' b') as [l Hl]; [lia|]. rewrite Hl. cbn [obind]. eauto.
Qed.

Lemma clist_iter_total : next_good cnext ->
  forall f c b, (length c < f)%nat -> exists l, clist_iter f (mkClist c b) = Val l.
Proof.
  intros G. induction f as [|f IH]; intros c b Hf; [lia|].
  cbn [clist_iter]. destruct (G c b) as (s & Hs & Hg). unfold cnext in Hs. rewrite Hs. cbn [obind].
  destruct s as [|e c' b'|e]; [eauto | | eauto].
  destruct (IH c' b') as [l Hl]; [lia|]. rewrite Hl. cbn [obind]. eauto.
Qed.

(* ------------------------------------------------------------------ *)
(* 1. C01: totality                                                     *)
(* ------------------------------------------------------------------ *)

Definition rgood {A} (c : list byte) (r : outcome (res (A * list byte))) : Prop :=
  exists x, r = Val x /\ match x with Ok (_, c') => (length c' < length c)%nat | Err _ => True end.

Lemma read_nrf_tok_good : forall c, rgood c (read_nrf_tok c).
Proof.
  intros c. unfold rgood, read_nrf_tok.
  pose proof (Lexer_proofs.read_nrf_rest_len c) as H.
  destruct (read_nrf_rest c) as [rest|e]; [|eexists; split; [reflexivity | exact I]].
  destruct (Lexer_proofs.consumed_ok c rest 0) as [s Hs]; [lia|].
  rewrite Hs. cbn [obind]. eexists; split; [reflexivity | exact H].
Qed.

Definition hd_eqb (k : N) (c : list byte) : bool :=
  match c with y :: _ => y =? k | [] => false end.

Lemma read_numeric_entry_eq : forall c,
  read_numeric_entry c =
  let* r := read_nrf_tok c in
  match r with
  | Err e => Val (Err e)
  | Ok (b, rest) =>
    if hd_eqb 58 rest then
      let* r2 := read_nrf_tok (tl rest) in
      match r2 with
      | Err e => Val (Err e)
      | Ok (e, rest'') => Val (Ok (NRange b e, rest''))
      end
    else Val (Ok (NNum b, rest))
  end.
Proof.
  intros c. unfold read_numeric_entry.
  destruct (read_nrf_tok c) as [[[b rest]|e]|s]; try reflexivity. cbn [obind].
  destruct rest as [|x rest]; [reflexivity|].
  destruct x as [|p]; [reflexivity|].
  do 6 (destruct p as [p|p|]; try reflexivity).
Qed.

Lemma read_numeric_entry_good : forall c, rgood c (read_numeric_entry c).
Proof.
  intros c. rewrite read_numeric_entry_eq.
  destruct (read_nrf_tok_good c) as (x & Hx & Hg). rewrite Hx. cbn [obind].
  destruct x as [[b rest]|e]; [|eexists; split; [reflexivity | exact I]].
  destruct (hd_eqb 58 rest) eqn:E58; [|eexists; split; [reflexivity | exact Hg]].
  destruct rest as [|y rest']; [discriminate|]. cbn [tl].
  destruct (read_nrf_tok_good rest') as (x2 & Hx2 & Hg2). rewrite Hx2. cbn [obind].
  destruct x2 as [[e2 rest'']|e2]; eexists; (split; [reflexivity|]); [|exact I].
  cbn [length] in *. lia.
Qed.

Lemma nnext_good : next_good nnext.
Proof.
  intros c b. unfold nnext, nlist_next. cbn [nl_chars nl_first].
  destruct c as [|x rest]; [eexists; split; [reflexivity | exact I]|].
  cbv zeta.
  destruct ((x =? 44) && negb b).
  - destruct (read_numeric_entry_good rest) as (r & Hr & Hg). rewrite Hr. cbn [obind].
    destruct r as [[e c']|code]; eexists; (split; [reflexivity|]); [|exact I].
    cbn [length]. lia.
  - destruct ((is_digit x || (x =? 45) || (x =? 43) || (x =? 46)) && b).
    + destruct (read_numeric_entry_good (x :: rest)) as (r & Hr & Hg). rewrite Hr. cbn [obind].
      destruct r as [[e c']|code]; eexists; (split; [reflexivity|]); [exact Hg | exact I].
    + eexists; split; [reflexivity | exact I].
Qed.

Theorem nlist_total : forall expr, exists l, nlist_entries expr = Val l.
Proof.
  intros expr. unfold nlist_entries, nlist_new.
  apply (nlist_iter_total nnext_good).
  pose proof (skip_ws_length expr). lia.
Qed.

(* channel lists *)
Lemma read_channel_spec_good : forall c, rgood c (read_channel_spec c).
Proof.
  intros c. unfold rgood, read_channel_spec. cbv zeta.
  destruct (Lexer_proofs.skip_while_suffix is_spec_char c) as [pre Hpre].
  set (rest := skip_while is_spec_char c) in *. clearbody rest. subst c.
  rewrite consumed_app. cbn [obind].
  destruct pre as [|x pre]; eexists; (split; [reflexivity|]); [exact I|].
  cbn [app length]. rewrite app_length. lia.
Qed.

Lemma read_channel_range_eq : forall c,
  read_channel_range c =
  let* r := read_channel_spec c in
  match r with
  | Err e => Val (Err e)
  | Ok (b, rest) =>
    if hd_eqb 58 rest then
      let* r2 := read_channel_spec (tl rest) in
      match r2 with
      | Err e => Val (Err e)
      | Ok (e, rest'') => if Nat.eqb (sp_dim b) (sp_dim e) then Val (Ok (CRange b e, rest''))
                          else Val (Err InvalidExpression)
      end
    else Val (Ok (CSpec b, rest))
  end.
Proof.
  intros c. unfold read_channel_range.
  destruct (read_channel_spec c) as [[[b rest]|e]|s]; try reflexivity. cbn [obind].
  destruct rest as [|x rest]; [reflexivity|].
  destruct x as [|p]; [reflexivity|].
  do 6 (destruct p as [p|p|]; try reflexivity).
Qed.

Lemma read_channel_range_good : forall c, rgood c (read_channel_range c).
Proof.
  intros c. rewrite read_channel_range_eq.
  destruct (read_channel_spec_good c) as (x & Hx & Hg). rewrite Hx. cbn [obind].
  destruct x as [[b rest]|e]; [|eexists; split; [reflexivity | exact I]].
  destruct (hd_eqb 58 rest) eqn:E58; [|eexists; split; [reflexivity | exact Hg]].
  destruct rest as [|y rest']; [discriminate|]. cbn [tl].
  destruct (read_channel_spec_good rest') as (x2 & Hx2 & Hg2). rewrite Hx2. cbn [obind].
  destruct x2 as [[e2 rest'']|e2]; [|eexists; split; [reflexivity | exact I]].
  destruct (Nat.eqb (sp_dim b) (sp_dim e2)); eexists; (split; [reflexivity|]); [|exact I].
  cbn [length] in *. lia.
Qed.

Lemma read_channel_path_good : forall c, c <> [] -> rgood c (read_channel_path c).
Proof.
  intros c Hc. unfold rgood, read_channel_path.
  destruct (skip_ws c) as [|q s].
  - cbn [read_string_data obind]. eexists; split; [reflexivity | exact I].
  - destruct (Lexer_proofs.read_string_data_good q s) as (x & Hx & _). rewrite Hx. cbn [obind].
    destruct x as [[t rest]|e]; [|eexists; split; [reflexivity | exact I]].
    destruct t; eexists; (split; [reflexivity|]); try exact I.
    cbv beta iota. rewrite skipn_length. destruct c as [|y c]; [congruence|]. cbn [length]. lia.
Qed.

(* the inner dispatcher of clist_next *)
Definition cgo (c : list byte) : outcome (lstep centry) :=
  match c with
  | [] => Val LEnd
  | x :: _ =>
    let fin (r : outcome (res (centry * list byte))) :=
      let* v := r in
      Val (match v with Ok (e, c') => LItem e c' false | Err code => LErr (std_error code) end) in
    if is_digit x || (x =? 43) || (x =? 45) then fin (read_channel_range c)
    else if (x =? 34) || (x =? 39) then fin (read_channel_path c)
    else Val (LErr (std_error InvalidExpression))
  end.

Lemma cnext_eq : forall c b,
  cnext c b = match c with
              | [] => Val LEnd
              | x0 :: rest0 =>
                if x0 =? 44 then (if b then Val (LErr (std_error InvalidExpression)) else cgo rest0)
                else cgo c
              end.
Proof. intros [|x c] b; reflexivity. Qed.

Lemma cgo_good : forall c, exists s, cgo c = Val s /\
  match s with LItem _ c' _ => (length c' < length c)%nat | _ => True end.
Proof.
  intros c. unfold cgo. destruct c as [|x c']; [eexists; split; [reflexivity | exact I]|].
  cbv zeta.
  destruct (is_digit x || (x =? 43) || (x =? 45)).
  - destruct (read_channel_range_good (x :: c')) as (r & Hr & Hg). rewrite Hr. cbn [obind].
    destruct r as [[e c2]|code]; eexists; (split; [reflexivity|]); [exact Hg | exact I].
  - destruct ((x =? 34) || (x =? 39)); [|eexists; split; [reflexivity | exact I]].
    destruct (read_channel_path_good (x :: c')) as (r & Hr & Hg); [discriminate|]. rewrite Hr. cbn [obind].
    destruct r as [[e c2]|code]; eexists; (split; [reflexivity|]); [exact Hg | exact I].
Qed.

Lemma cnext_good : next_good cnext.
Proof.
  intros c b. rewrite cnext_eq.
  destruct c as [|x0 rest0]; [eexists; split; [reflexivity | exact I]|].
  destruct (x0 =? 44).
  - destruct b; [eexists; split; [reflexivity | exact I]|].
    destruct (cgo_good rest0) as (s & Hs & Hg). exists s. split; [exact Hs|].
    destruct s; try exact I. cbn [length]. lia.
  - apply cgo_good.
Qed.

Lemma clist_new_eq : forall expr,
  clist_new expr = if hd_eqb 64 expr then Some (mkClist (tl expr) true) else None.
Proof.
  intros [|x c]; [reflexivity|].
  destruct x as [|p]; [reflexivity|].
  do 7 (destruct p as [p|p|]; try reflexivity).
Qed.

Theorem clist_total : forall expr r, clist_entries expr = Some r -> exists l, r = Val l.
Proof.
  intros expr r H. unfold clist_entries in H. rewrite clist_new_eq in H.
  destruct (hd_eqb 64 expr) eqn:E; [|discriminate]. inversion H; subst r; clear H.
  destruct expr as [|x c]; [discriminate|]. cbn [tl].
  apply (clist_iter_total cnext_good (S (length (x :: c))) c true). cbn [length]. lia.
Qed.

(* channel specs *)
Lemma ppi_len : forall c z len, parse_partial_isize c = Some (z, len) -> (len <= length c)%nat.
Proof.
  intros c z len. unfold parse_partial_isize. cbv zeta.
  pose proof (Lexer_proofs.skip_sign_len c) as Hs.
  set (body := skip_sign c) in *.
  pose proof (firstn_length (length body - length (skip_while is_digit body)) body) as Hf.
  destruct (firstn (length body - length (skip_while is_digit body)) body) as [|d ds] eqn:Ed;
    [discriminate|].
  match goal with |- (if ?b then _ else _) = _ -> _ => destruct b end; [|discriminate].
  intros H. inversion H; subst. cbn [length] in *. lia.
Qed.

Lemma spec_next_good : forall c, exists s, spec_next c = Val s /\
  match s with SDim _ rest => (length rest < length c)%nat | _ => True end.
Proof.
  intros c. unfold spec_next. destruct c as [|x rest]; [eexists; split; [reflexivity | exact I]|].
  cbv zeta.
  set (c1 := if x =? 33 then rest else x :: rest).
  assert (Hc1 : (length c1 <= length (x :: rest))%nat)
    by (subst c1; destruct (x =? 33); cbn [length]; lia).
  destruct (parse_partial_isize c1) as [[n len]|] eqn:Ep; [|eexists; split; [reflexivity | exact I]].
  apply ppi_len in Ep.
  destruct (Nat.eqb len 0) eqn:E0; [eexists; split; [reflexivity | exact I]|].
  apply Nat.eqb_neq in E0.
  rewrite (Lexer_proofs.drop_unwrap_ok len c1 Ep). cbn [obind].
  eexists; split; [reflexivity|]. cbv beta iota. rewrite skipn_length. lia.
Qed.

Lemma spec_dims_total : forall f c, (length c < f)%nat -> exists l, spec_dims f c = Val l.
Proof.
  induction f as [|f IH]; intros c Hf; [lia|].
  cbn [spec_dims]. destruct (spec_next_good c) as (s & Hs & Hg). rewrite Hs. cbn [obind].
  destruct s as [|z rest|]; [eauto | | eauto].
  destruct (IH rest) as [l Hl]; [lia|]. rewrite Hl. cbn [obind]. eauto.
Qed.

Theorem spec_values_total : forall s, exists l, spec_values s = Val l.
Proof. intros s. unfold spec_values. apply spec_dims_total. lia. Qed.

Theorem spec_tuple_total : forall k s,
  (exists r, spec_to_tuple k s = Val r) /\ (exists r, spec_to_utuple k s = Val r).
Proof.
  intros k s.
  assert (H : exists r, spec_to_tuple k s = Val r).
  { unfold spec_to_tuple. destruct (Nat.eqb (sp_dim s) k); [|eauto].
    destruct (spec_values_total (sp_text s)) as [l Hl]. rewrite Hl. cbn [obind]. eauto. }
  split; [exact H|]. destruct H as [r Hr]. unfold spec_to_utuple. rewrite Hr. cbn [obind]. eauto.
Qed.

(* ------------------------------------------------------------------ *)
(* 2. channel specs: dimensions and tuple conversions                   *)
(* ------------------------------------------------------------------ *)

Lemma forallb_imp : forall (p q : byte -> bool) l,
  (forall x, p x = true -> q x = true) -> forallb p l = true -> forallb q l = true.
Proof.
  intros p q l Hpq. induction l as [|x l IH]; cbn [forallb]; [reflexivity|].
  intros H. apply andb_prop in H. destruct H as [Hx Hl]. rewrite (Hpq x Hx), (IH Hl). reflexivity.
Qed.

(* the bytes of a canonical decimal: digits and `-` *)
Definition nobang (b : byte) : bool := is_digit b || (b =? 45).

Lemma fmt_Z_chars : forall z, forallb nobang (fmt_Z z) = true.
Proof.
  assert (H : forall m, forallb nobang (fmt_N m) = true).
  { intros m. apply (forallb_imp is_digit); [|apply Grammar_proofs.fmt_N_digits].
    intros x Hx. unfold nobang. rewrite Hx. reflexivity. }
  intros [|p|p]; cbn [fmt_Z]; [reflexivity | apply H |].
  cbn [forallb]. rewrite H. reflexivity.
Qed.

Lemma fmt_Z_hd : forall z, exists x t, fmt_Z z = x :: t /\ nobang x = true.
Proof.
  intros z. pose proof (fmt_Z_nonempty z) as Hne. pose proof (fmt_Z_chars z) as Hc.
  destruct (fmt_Z z) as [|x t]; [congruence|].
  cbn [forallb] in Hc. apply andb_prop in Hc. exists x, t. tauto.
Qed.

Lemma ppi_eq : forall c, parse_partial_isize c =
  let body := skip_sign c in
  let ds := firstn (length body - length (skip_while is_digit body)) body in
  match ds with
  | [] => None
  | _ => let v := Z.of_N (fst (radix_digits 10 ds 0 0)) in
         let z := if is_neg c then (- v)%Z else v in
         if isize_ok z then Some (z, (length c - length body + length ds)%nat) else None
  end.
Proof. reflexivity. Qed.

Lemma ppi_core : forall c m R, skip_sign c = fmt_N m ++ R -> stop is_digit R ->
  isize_ok (if is_neg c then (- Z.of_N m)%Z else Z.of_N m) = true ->
  parse_partial_isize c
  = Some (if is_neg c then (- Z.of_N m)%Z else Z.of_N m,
          (length c - length (fmt_N m ++ R) + length (fmt_N m))%nat).
Proof.
  intros c m R Hb HR Hz. rewrite ppi_eq. cbv zeta. rewrite Hb.
  rewrite skip_while_app by (first [apply Grammar_proofs.fmt_N_digits | exact HR]).
  replace (length (fmt_N m ++ R) - length R)%nat with (length (fmt_N m)) by (rewrite app_length; lia).
  rewrite Grammar_proofs.firstn_len_app.
  destruct (fmt_N_read m 0) as [k Hk].
  pose proof (fmt_N_nonempty m) as Hne.
  set (D := fmt_N m) in *.
  destruct D as [|d t] eqn:E; [congruence|].
  cbv iota. rewrite Hk. cbn [fst]. rewrite Hz. reflexivity.
Qed.

Lemma ppi_pos : forall m R, stop is_digit R -> isize_ok (Z.of_N m) = true ->
  parse_partial_isize (fmt_N m ++ R) = Some (Z.of_N m, length (fmt_N m)).
Proof.
  intros m R HR Hz.
  destruct (fmt_N_head m) as (d & t & Heq & Hd).
  assert (Hneg : is_neg (fmt_N m ++ R) = false).
  { rewrite Heq. cbn [app]. apply not45_neg. bsolve. }
  assert (Hss : skip_sign (fmt_N m ++ R) = fmt_N m ++ R).
  { rewrite Heq. cbn [app skip_sign]. replace (is_sign d) with false by bsolve. reflexivity. }
  rewrite (ppi_core _ m R Hss HR); rewrite Hneg; [|exact Hz].
  f_equal. f_equal. lia.
Qed.

Lemma ppi_neg : forall m R, stop is_digit R -> isize_ok (- Z.of_N m) = true ->
  parse_partial_isize (45 :: fmt_N m ++ R) = Some ((- Z.of_N m)%Z, S (length (fmt_N m))).
Proof.
  intros m R HR Hz.
  assert (Hneg : is_neg (45 :: fmt_N m ++ R) = true) by reflexivity.
  assert (Hss : skip_sign (45 :: fmt_N m ++ R) = fmt_N m ++ R) by reflexivity.
  rewrite (ppi_core _ m R Hss HR); rewrite Hneg; [|exact Hz].
  f_equal. f_equal. cbn [length]. lia.
Qed.

Lemma ppi_fmt_Z : forall z R, isize_ok z = true -> stop is_digit R ->
  parse_partial_isize (fmt_Z z ++ R) = Some (z, length (fmt_Z z)).
Proof.
  intros [|p|p] R Hz HR; cbn [fmt_Z].
  - rewrite <- fmt_N_0. apply (ppi_pos 0 R HR). exact Hz.
  - apply (ppi_pos (N.pos p) R HR). exact Hz.
  - cbn [app length]. apply (ppi_neg (N.pos p) R HR). exact Hz.
Qed.

Definition bpre (b : bool) : list byte := if b then [33] else [].

Lemma spec_step : forall b z R, isize_ok z = true -> stop is_digit R ->
  spec_next (bpre b ++ fmt_Z z ++ R) = Val (SDim z R).
Proof.
  intros b z R Hz HR.
  pose proof (ppi_fmt_Z z R Hz HR) as Hp.
  assert (Hlen : Nat.eqb (length (fmt_Z z)) 0 = false).
  { apply negb_true_iff. apply length_nonzero. apply fmt_Z_nonempty. }
  destruct b; cbn [bpre app].
  - unfold spec_next. change (33 =? 33) with true. cbv iota.
    rewrite Hp, Hlen, drop_unwrap_app. reflexivity.
  - destruct (fmt_Z_hd z) as (x & t & Heq & Hx).
    assert (E33 : (x =? 33) = false) by (unfold nobang in Hx; bsolve).
    unfold spec_next. rewrite Heq in *. cbn [app] in *. rewrite E33.
    rewrite Hp, Hlen. change (x :: t ++ R) with ((x :: t) ++ R). rewrite drop_unwrap_app. reflexivity.
Qed.

Inductive sruns : list byte -> list (option Z) -> Prop :=
| sruns_end : forall c, spec_next c = Val SEndS -> sruns c []
| sruns_err : forall c, spec_next c = Val SErrS -> sruns c [None]
| sruns_dim : forall c z rest l, spec_next c = Val (SDim z rest) -> (length rest < length c)%nat ->
    sruns rest l -> sruns c (Some z :: l).

Lemma sruns_dims : forall c l, sruns c l -> forall f, (length c < f)%nat -> spec_dims f c = Val l.
Proof.
  induction 1 as [c H | c H | c z rest l H Hlen _ IH]; intros f Hf;
    (destruct f as [|f]; [lia|]); cbn [spec_dims]; rewrite H; cbn [obind];
    [reflexivity | reflexivity |].
  rewrite (IH f) by lia. reflexivity.
Qed.

Lemma render_spec_cons2 : forall z z' vs,
  render_spec (z :: z' :: vs) = fmt_Z z ++ 33 :: render_spec (z' :: vs).
Proof. reflexivity. Qed.

Lemma spec_run_list : forall vs b R l, vs <> [] -> forallb isize_ok vs = true ->
  stop is_digit R -> sruns R l ->
  sruns (bpre b ++ render_spec vs ++ R) (map Some vs ++ l).
Proof.
  induction vs as [|z vs IH]; intros b R l Hne Hok HR Hrun; [congruence|].
  cbn [forallb] in Hok. apply andb_prop in Hok. destruct Hok as [Hz Hok].
  destruct vs as [|z' vs].
  - change (render_spec [z]) with (fmt_Z z). cbn [map app].
    eapply sruns_dim; [apply spec_step; assumption | | exact Hrun].
    pose proof (fmt_Z_nonempty z). repeat rewrite app_length.
    destruct (fmt_Z z); [congruence | cbn [length]; lia].
  - rewrite render_spec_cons2. rewrite <- app_assoc.
    change ((33 :: render_spec (z' :: vs)) ++ R) with (bpre true ++ render_spec (z' :: vs) ++ R).
    change (map Some (z :: z' :: vs) ++ l) with (Some z :: (map Some (z' :: vs) ++ l)).
    eapply sruns_dim; [apply spec_step; [assumption | reflexivity] | |].
    + pose proof (fmt_Z_nonempty z). repeat rewrite app_length.
      destruct (fmt_Z z); [congruence | cbn [length]; lia].
    + apply IH; [discriminate | exact Hok | exact HR | exact Hrun].
Qed.

Lemma wf_vals_inv : forall v, wf_vals v = true -> v <> [] /\ forallb isize_ok v = true.
Proof.
  intros v H. unfold wf_vals in H. apply andb_prop in H. destruct H as [Hn Hok].
  split; [|exact Hok]. destruct v; [discriminate | discriminate].
Qed.

Lemma spec_values_app : forall vs R l, wf_vals vs = true -> stop is_digit R -> sruns R l ->
  spec_values (render_spec vs ++ R) = Val (map Some vs ++ l).
Proof.
  intros vs R l Hwf HR Hrun. destruct (wf_vals_inv vs Hwf) as [Hne Hok].
  unfold spec_values. apply sruns_dims; [|lia].
  apply (spec_run_list vs false R l Hne Hok HR Hrun).
Qed.

Lemma count_bang_app : forall a b, count_bang (a ++ b) = (count_bang a + count_bang b)%nat.
Proof. intros. unfold count_bang. rewrite filter_app, app_length. reflexivity. Qed.

Lemma count_bang_nobang : forall s, forallb nobang s = true -> count_bang s = 0%nat.
Proof.
  unfold count_bang. induction s as [|x s IH]; cbn [forallb filter]; intros H; [reflexivity|].
  apply andb_prop in H. destruct H as [Hx Hs].
  replace (x =? 33) with false by (unfold nobang in Hx; bsolve). apply IH. exact Hs.
Qed.

Lemma count_bang_spec : forall vs, vs <> [] -> S (count_bang (render_spec vs)) = length vs.
Proof.
  induction vs as [|z vs IH]; intros Hne; [congruence|].
  destruct vs as [|z' vs].
  - change (render_spec [z]) with (fmt_Z z). rewrite count_bang_nobang by apply fmt_Z_chars. reflexivity.
  - rewrite render_spec_cons2, count_bang_app, count_bang_nobang by apply fmt_Z_chars.
    change (33 :: render_spec (z' :: vs)) with ([33] ++ render_spec (z' :: vs)).
    rewrite count_bang_app. change (count_bang [33]) with 1%nat.
    specialize (IH ltac:(discriminate)). cbn [length] in *. lia.
Qed.

Lemma spec_chars : forall vs, forallb is_spec_char (render_spec vs) = true.
Proof.
  assert (H : forall z, forallb is_spec_char (fmt_Z z) = true).
  { intros z. apply (forallb_imp nobang); [|apply fmt_Z_chars].
    intros x Hx. unfold nobang in Hx. unfold is_spec_char. bsolve. }
  induction vs as [|z vs IH]; [reflexivity|].
  destruct vs as [|z' vs]; [apply H|].
  rewrite render_spec_cons2, forallb_app, H. cbn [forallb andb]. rewrite IH. reflexivity.
Qed.

Lemma sruns_nil : sruns [] [].
Proof. apply sruns_end. reflexivity. Qed.

Theorem spec_dims_ok : forall vals, wf_vals vals = true ->
  spec_values (render_spec vals) = Val (map Some vals) /\ sp_dim (spec_of vals) = length vals
  /\ count_bang (render_spec vals) = (length vals - 1)%nat.
Proof.
  intros vals Hwf. split; [|split].
  - pose proof (spec_values_app vals [] [] Hwf I sruns_nil) as H.
    repeat rewrite app_nil_r in H. exact H.
  - reflexivity.
  - destruct (wf_vals_inv vals Hwf) as [Hne _]. pose proof (count_bang_spec vals Hne). lia.
Qed.

(* tuple conversions *)
Fixpoint dp_go (k : nat) (ds : list (option Z)) (acc : list Z) : res (list Z) :=
  match k with
  | O => Ok (rev acc)
  | S k' => match ds with
            | Some z :: ds' => dp_go k' ds' (z :: acc)
            | _ => Err ExpressionError
            end
  end.

Lemma dims_prefix_eq : forall k ds, dims_prefix k ds = dp_go k ds [].
Proof. reflexivity. Qed.

Lemma dp_go_map : forall vs acc, dp_go (length vs) (map Some vs) acc = Ok (rev acc ++ vs).
Proof.
  induction vs as [|z vs IH]; intros acc; cbn [length map dp_go].
  - rewrite app_nil_r. reflexivity.
  - rewrite IH. cbn [rev]. rewrite <- app_assoc. reflexivity.
Qed.

Theorem tuple_conv : forall vals, wf_vals vals = true -> (length vals <= 3)%nat ->
  spec_to_tuple (length vals) (spec_of vals) = Val (Ok vals).
Proof.
  intros vals Hwf _. unfold spec_to_tuple, spec_of. cbn [sp_dim sp_text].
  rewrite Nat.eqb_refl. destruct (spec_dims_ok vals Hwf) as [Hv _]. rewrite Hv. cbn [obind].
  rewrite dims_prefix_eq, dp_go_map. reflexivity.
Qed.

Theorem tuple_conv_wrong_dimension : forall vals k, wf_vals vals = true -> k <> length vals ->
  exists e, spec_to_tuple k (spec_of vals) = Val (Err e).
Proof.
  intros vals k _ Hk. unfold spec_to_tuple, spec_of. cbn [sp_dim].
  replace (Nat.eqb (length vals) k) with false by (symmetry; apply Nat.eqb_neq; congruence).
  eauto.
Qed.

Theorem spec_empty_dimension : forall a rest, wf_vals a = true ->
  spec_values (render_spec a ++ 33 :: 33 :: rest)%N = Val (map Some a ++ [None]).
Proof.
  intros a rest Hwf. apply spec_values_app; [exact Hwf | reflexivity|].
  apply sruns_err. unfold spec_next. change (33 =? 33) with true. cbv iota.
  rewrite ppi_eq. cbv zeta. change (skip_sign (33 :: rest)) with (33 :: rest).
  change (skip_while is_digit (33 :: rest)) with (33 :: rest). rewrite Nat.sub_diag. reflexivity.
Qed.

(* ------------------------------------------------------------------ *)
(* 3. numeric lists                                                     *)
(* ------------------------------------------------------------------ *)

Definition nl_ok (l : list nl_ast) := map (fun e => IEntry (nl_denotes e)) l.
Definition cl_ok (l : list cl_ast) := map (fun e => IEntry (cl_denotes e)) l.

Definition pre (b : bool) : list byte := if b then [] else [44].
Definition isnil {A} (l : list A) : bool := match l with [] => true | _ => false end.

Lemma intercalate_snoc : forall sep l x,
  intercalate sep (l ++ [x]) = intercalate sep l ++ (if isnil l then [] else sep) ++ x.
Proof.
  intros sep l x. induction l as [|y l IH]; [reflexivity|].
  destruct l as [|y' l].
  - cbn [app intercalate isnil]. reflexivity.
  - change ((y :: y' :: l) ++ [x]) with (y :: y' :: (l ++ [x])).
    rewrite intercalate_cons2. change (y' :: l ++ [x]) with ((y' :: l) ++ [x]). rewrite IH.
    rewrite intercalate_cons2. cbn [isnil]. repeat rewrite <- app_assoc. reflexivity.
Qed.

(* what may follow a numeric-list entry for it to be read back exactly *)
Definition nl_follow (R : list byte) : Prop :=
  match R with
  | [] => True
  | x :: _ => is_digit x = false /\ (x =? 46) = false /\ ((x =? 69) || (x =? 101)) = false /\ (x =? 58) = false
  end.

Lemma nl_follow_num_stop : forall ex R, nl_follow R -> num_stop ex R.
Proof. intros ex [|x R] H; cbn in *; [exact I | tauto]. Qed.

Lemma nl_follow_44 : forall R, nl_follow (44 :: R).
Proof. intros R. cbn. repeat split; reflexivity. Qed.

Lemma read_nrf_tok_ok : forall n R, wf_number n = true -> num_stop (n_exp n) R ->
  read_nrf_tok (render_number n ++ R) = Val (Ok (render_number n, R)).
Proof.
  intros n R Hn HR. unfold read_nrf_tok. rewrite read_nrf_ok by assumption.
  rewrite consumed_app. reflexivity.
Qed.

Lemma hd58_false : forall R, nl_follow R -> hd_eqb 58 R = false.
Proof. intros [|x R] H; cbn in *; [reflexivity | tauto]. Qed.

Lemma rne_num : forall n R, wf_number n = true -> nl_follow R ->
  read_numeric_entry (render_number n ++ R) = Val (Ok (NNum (render_number n), R)).
Proof.
  intros n R Hn HR. rewrite read_numeric_entry_eq.
  rewrite read_nrf_tok_ok; [| exact Hn | apply nl_follow_num_stop; exact HR].
  cbn [obind]. rewrite hd58_false by exact HR. reflexivity.
Qed.

Lemma num_stop_58 : forall ex R, num_stop ex (58 :: R).
Proof. intros ex R. cbn. repeat split; try intros _; reflexivity. Qed.

Lemma rne_range : forall a b R, wf_number a = true -> wf_number b = true -> num_stop (n_exp b) R ->
  read_numeric_entry (render_number a ++ 58 :: render_number b ++ R)
  = Val (Ok (NRange (render_number a) (render_number b), R)).
Proof.
  intros a b R Ha Hb HR. rewrite read_numeric_entry_eq.
  rewrite read_nrf_tok_ok; [| exact Ha | apply num_stop_58].
  cbn [obind hd_eqb tl]. change (58 =? 58) with true. cbv iota.
  rewrite read_nrf_tok_ok by assumption. reflexivity.
Qed.

Definition nl_cond (e : nl_ast) (R : list byte) : Prop :=
  match e with NLNum _ => nl_follow R | NLRange _ b => num_stop (n_exp b) R end.

Lemma nl_follow_cond : forall e R, nl_follow R -> nl_cond e R.
Proof. intros [n|a b] R H; cbn [nl_cond]; [exact H | apply nl_follow_num_stop; exact H]. Qed.

Lemma rne_ok : forall e R, wf_nl_entry e = true -> nl_cond e R ->
  read_numeric_entry (render_nl_entry e ++ R) = Val (Ok (nl_denotes e, R)).
Proof.
  intros [n|a b] R Hwf HR; cbn [wf_nl_entry render_nl_entry nl_denotes nl_cond] in *.
  - apply rne_num; assumption.
  - apply andb_prop in Hwf. destruct Hwf as [Ha Hb].
    rewrite <- app_assoc. cbn [app]. apply rne_range; assumption.
Qed.

Lemma nl_entry_head : forall e, wf_nl_entry e = true ->
  exists x t, render_nl_entry e = x :: t /\ num_start x = true.
Proof.
  intros [n|a b] Hwf; cbn [wf_nl_entry render_nl_entry] in *.
  - apply render_number_head. exact Hwf.
  - apply andb_prop in Hwf. destruct Hwf as [Ha _].
    destruct (render_number_head a Ha) as (x & t & Heq & Hx). rewrite Heq.
    eexists _, _. split; [reflexivity | exact Hx].
Qed.

Lemma nnext_entry : forall b x t, num_start x = true ->
  nnext (pre b ++ x :: t) b =
  let* r := read_numeric_entry (x :: t) in
  Val (match r with Ok (e, c') => LItem e c' false | Err code => LErr (ext_of_code code) end).
Proof.
  intros b x t Hx. unfold nnext, nlist_next. destruct b; cbn [pre app nl_chars nl_first]; cbv zeta.
  - cbn [negb]. rewrite andb_false_r. unfold num_start in Hx. rewrite Hx. reflexivity.
  - reflexivity.
Qed.

Lemma nl_step : forall e b R, wf_nl_entry e = true -> nl_cond e R ->
  nnext (pre b ++ render_nl_entry e ++ R) b = Val (LItem (nl_denotes e) R false).
Proof.
  intros e b R Hwf HR.
  pose proof (rne_ok e R Hwf HR) as Hr.
  destruct (nl_entry_head e Hwf) as (x & t & Heq & Hx).
  rewrite Heq in *. cbn [app] in *. rewrite nnext_entry by exact Hx.
  rewrite Hr. reflexivity.
Qed.

Lemma nl_entry_len : forall e b R, wf_nl_entry e = true ->
  (length R < length (pre b ++ render_nl_entry e ++ R))%nat.
Proof.
  intros e b R Hwf. destruct (nl_entry_head e Hwf) as (x & t & Heq & _). rewrite Heq.
  repeat rewrite app_length. cbn [length]. lia.
Qed.

Lemma render_nl_cons2 : forall e e' es,
  render_nl (e :: e' :: es) = render_nl_entry e ++ 44 :: render_nl (e' :: es).
Proof. reflexivity. Qed.

Lemma nl_run_list : forall es b R items, es <> [] -> forallb wf_nl_entry es = true ->
  nl_follow R -> runs nnext R false items ->
  runs nnext (pre b ++ render_nl es ++ R) b (nl_ok es ++ items).
Proof.
  induction es as [|e es IH]; intros b R items Hne Hwf HR Hrun; [congruence|].
  cbn [forallb] in Hwf. apply andb_prop in Hwf. destruct Hwf as [He Hwf].
  destruct es as [|e' es].
  - change (render_nl [e]) with (render_nl_entry e). cbn [nl_ok map app].
    eapply runs_item; [apply nl_step; [exact He | apply nl_follow_cond; exact HR]
                      | apply nl_entry_len; exact He | exact Hrun].
  - rewrite render_nl_cons2. rewrite <- app_assoc.
    change ((44 :: render_nl (e' :: es)) ++ R) with (pre false ++ render_nl (e' :: es) ++ R).
    change (nl_ok (e :: e' :: es) ++ items) with (IEntry (nl_denotes e) :: (nl_ok (e' :: es) ++ items)).
    eapply runs_item; [apply nl_step; [exact He | apply nl_follow_cond; apply nl_follow_44]
                      | apply nl_entry_len; exact He |].
    apply IH; [discriminate | exact Hwf | exact HR | exact Hrun].
Qed.

Lemma num_start_not_ws : forall x, num_start x = true -> is_ws x = false.
Proof. intros x H. unfold num_start in H. bsolve. Qed.

Lemma skip_ws_head : forall x t, is_ws x = false -> skip_ws (x :: t) = x :: t.
Proof. intros x t H. unfold skip_ws. cbn [skip_while]. rewrite H. reflexivity. Qed.

Lemma nl_prefix : forall l R items, forallb wf_nl_entry l = true ->
  (l <> [] -> nl_follow R) -> (l = [] -> skip_ws R = R) ->
  runs nnext R (isnil l) items ->
  nlist_entries (render_nl l ++ R) = Val (nl_ok l ++ items).
Proof.
  intros l R items Hwf HR Hws Hrun. unfold nlist_entries, nlist_new.
  destruct l as [|e es].
  - cbn [render_nl map intercalate app nl_ok]. rewrite (Hws eq_refl).
    apply runs_nlist_iter; [exact Hrun | lia].
  - assert (Hne : e :: es <> []) by discriminate.
    pose proof (nl_run_list (e :: es) true R items Hne Hwf (HR Hne) Hrun) as H.
    cbn [pre app] in H.
    assert (Hsk : skip_ws (render_nl (e :: es) ++ R) = render_nl (e :: es) ++ R).
    { cbn [forallb] in Hwf. apply andb_prop in Hwf. destruct Hwf as [He _].
      destruct (nl_entry_head e He) as (x & t & Heq & Hx).
      destruct es as [|e' es]; [change (render_nl [e]) with (render_nl_entry e) | rewrite render_nl_cons2];
        rewrite Heq; cbn [app]; apply skip_ws_head, num_start_not_ws; exact Hx. }
    rewrite Hsk. apply runs_nlist_iter; [exact H | lia].
Qed.

Theorem num_entries : forall l, forallb wf_nl_entry l = true ->
  nlist_entries (render_nl l) = Val (map (fun e => IEntry (nl_denotes e)) l).
Proof.
  intros l Hwf.
  pose proof (nl_prefix l [] [] Hwf (fun _ => I) (fun _ => eq_refl)) as H.
  repeat rewrite app_nil_r in H. apply H. apply runs_end. reflexivity.
Qed.

Theorem nl_leading_comma : forall rest, exists e, nlist_entries (44 :: rest)%N = Val [IError e].
Proof.
  intros rest. eexists. unfold nlist_entries, nlist_new.
  change (skip_ws (44 :: rest)) with (44 :: rest).
  apply runs_nlist_iter; [|lia]. apply runs_err. reflexivity.
Qed.

Theorem nl_doubled_comma : forall l rest, l <> [] -> forallb wf_nl_entry l = true ->
  exists e, nlist_entries (render_nl l ++ 44 :: 44 :: rest)%N = Val (nl_ok l ++ [IError e]).
Proof.
  intros l rest Hne Hwf. eexists.
  apply nl_prefix; [exact Hwf | intros _; apply nl_follow_44 | congruence |].
  destruct l; [congruence|]. cbn [isnil]. apply runs_err. reflexivity.
Qed.

Theorem nl_missing_separator : forall l y rest, l <> [] -> forallb wf_nl_entry l = true ->
  (y = 45 \/ y = 43 \/ y = 32)%N ->
  exists e, nlist_entries (render_nl l ++ y :: rest) = Val (nl_ok l ++ [IError e]).
Proof.
  intros l y rest Hne Hwf Hy. exists invalid_character.
  apply nl_prefix; [exact Hwf | | congruence |].
  - intros _. destruct Hy as [-> | [-> | ->]]; cbn; repeat split; reflexivity.
  - destruct l; [congruence|]. cbn [isnil]. apply runs_err.
    destruct Hy as [-> | [-> | ->]]; reflexivity.
Qed.

Lemma render_nl_snoc : forall l e,
  render_nl (l ++ [e]) = render_nl l ++ pre (isnil l) ++ render_nl_entry e.
Proof.
  intros l e. unfold render_nl. rewrite map_app. cbn [map]. rewrite intercalate_snoc.
  destruct l; reflexivity.
Qed.

Theorem nl_third_range_end : forall l a b rest, forallb wf_nl_entry (l ++ [NLRange a b]) = true ->
  exists e, nlist_entries (render_nl (l ++ [NLRange a b]) ++ 58 :: rest)%N
            = Val (nl_ok (l ++ [NLRange a b]) ++ [IError e]).
Proof.
  intros l a b rest Hwf. exists invalid_character.
  rewrite forallb_app in Hwf. apply andb_prop in Hwf. destruct Hwf as [Hl He].
  cbn [forallb] in He. rewrite andb_true_r in He.
  rewrite render_nl_snoc. unfold nl_ok. rewrite map_app. cbn [map].
  repeat rewrite <- app_assoc. cbn [app].
  change (map (fun e => IEntry (nl_denotes e)) l) with (nl_ok l).
  destruct (nl_entry_head _ He) as (x & t & Heq & Hx).
  apply nl_prefix; [exact Hl | | |].
  - intros Hne. destruct l; [congruence|]. apply nl_follow_44.
  - intros ->. cbn [isnil pre app]. rewrite Heq. cbn [app].
    apply skip_ws_head, num_start_not_ws. exact Hx.
  - eapply runs_item; [apply nl_step; [exact He | cbn [nl_cond]; apply num_stop_58]
                      | apply nl_entry_len; exact He |].
    apply runs_err. reflexivity.
Qed.

(* ------------------------------------------------------------------ *)
(* 4. channel lists                                                     *)
(* ------------------------------------------------------------------ *)

Lemma render_spec_head : forall v, v <> [] -> exists x t, render_spec v = x :: t /\ nobang x = true.
Proof.
  intros [|z vs] Hne; [congruence|].
  destruct (fmt_Z_hd z) as (x & t & Heq & Hx).
  destruct vs as [|z' vs]; [change (render_spec [z]) with (fmt_Z z) | rewrite render_spec_cons2];
    rewrite Heq; cbn [app]; eexists _, _; (split; [reflexivity | exact Hx]).
Qed.

Lemma rcs_ok : forall v R, wf_vals v = true -> stop is_spec_char R ->
  read_channel_spec (render_spec v ++ R) = Val (Ok (spec_of v, R)).
Proof.
  intros v R Hwf HR. destruct (wf_vals_inv v Hwf) as [Hne _].
  unfold read_channel_spec. cbv zeta.
  rewrite skip_while_app by (first [apply spec_chars | exact HR]).
  rewrite consumed_app. cbn [obind]. unfold spec_of. rewrite <- (count_bang_spec v Hne).
  destruct (render_spec_head v Hne) as (x & t & Heq & _). rewrite Heq. reflexivity.
Qed.

Lemma rcr_spec : forall v R, wf_vals v = true -> stop is_spec_char R -> hd_eqb 58 R = false ->
  read_channel_range (render_spec v ++ R) = Val (Ok (CSpec (spec_of v), R)).
Proof.
  intros v R Hwf HR H58. rewrite read_channel_range_eq, rcs_ok by assumption.
  cbn [obind]. rewrite H58. reflexivity.
Qed.

Lemma rcr_range : forall a b R, wf_vals a = true -> wf_vals b = true -> stop is_spec_char R ->
  read_channel_range (render_spec a ++ 58 :: render_spec b ++ R)
  = if Nat.eqb (length a) (length b) then Val (Ok (CRange (spec_of a) (spec_of b), R))
    else Val (Err InvalidExpression).
Proof.
  intros a b R Ha Hb HR. rewrite read_channel_range_eq, rcs_ok; [| exact Ha | reflexivity].
  cbn [obind hd_eqb tl]. change (58 =? 58) with true. cbv iota.
  rewrite rcs_ok by assumption. reflexivity.
Qed.

Lemma skipn_path : forall (p : list byte) q q' R, skipn (length p + 2) (q :: p ++ q' :: R) = R.
Proof.
  intros p q q' R. replace (length p + 2)%nat with (S (length (p ++ [q']))) by (rewrite app_length; cbn [length]; lia).
  cbn [skipn]. change (p ++ q' :: R) with (p ++ [q'] ++ R). rewrite app_assoc.
  apply Grammar_proofs.skipn_len_app.
Qed.

Definition is_quote (q : byte) : bool := (q =? 34) || (q =? 39).

Lemma rcp_eq : forall q body R, is_quote q = true -> forallb is_ascii body = true ->
  stop (fun x => x =? q) R ->
  read_channel_path (q :: double_q q body ++ q :: R)
  = match skip_ws_to_separator SuffixNotAllowed R with
    | Err e => Val (Err e)
    | Ok _ => Val (Ok (CPath (double_q q body), R))
    end.
Proof.
  intros q body R Hq Hb HR. unfold read_channel_path.
  rewrite skip_ws_head by (unfold is_quote in Hq; bsolve).
  unfold read_string_data. rewrite string_loop_ok by assumption.
  rewrite consumed_app1. cbn [obind].
  destruct (skip_ws_to_separator SuffixNotAllowed R) as [r|e]; [|reflexivity].
  cbn [obind]. rewrite skipn_path. reflexivity.
Qed.

Definition cfin (r : outcome (res (centry * list byte))) : outcome (lstep centry) :=
  let* v := r in
  Val (match v with Ok (e, c') => LItem e c' false | Err code => LErr (std_error code) end).

Lemma cgo_range : forall x t, nobang x = true -> cgo (x :: t) = cfin (read_channel_range (x :: t)).
Proof.
  intros x t Hx. unfold cgo. cbv zeta.
  replace (is_digit x || (x =? 43) || (x =? 45)) with true by (unfold nobang in Hx; bsolve).
  reflexivity.
Qed.

Lemma cgo_path : forall q t, is_quote q = true -> cgo (q :: t) = cfin (read_channel_path (q :: t)).
Proof.
  intros q t Hq. unfold cgo. cbv zeta.
  replace (is_digit q || (q =? 43) || (q =? 45)) with false by (unfold is_quote in Hq; bsolve).
  unfold is_quote in Hq. rewrite Hq. reflexivity.
Qed.

Lemma cnext_pre : forall b c, hd_eqb 44 c = false -> cnext (pre b ++ c) b = cgo c.
Proof.
  intros b c Hc. rewrite cnext_eq. destruct b; cbn [pre app].
  - destruct c as [|x t]; [reflexivity|]. cbn [hd_eqb] in Hc. rewrite Hc. reflexivity.
  - reflexivity.
Qed.

(* what must follow an entry of each kind for it to be read back exactly *)
Definition cl_cond (e : cl_ast) (R : list byte) : Prop :=
  match e with
  | CLSpec _ => stop is_spec_char R /\ hd_eqb 58 R = false
  | CLRange _ _ => stop is_spec_char R
  | CLPath q _ => stop (fun x => x =? q) R /\ exists r, skip_ws_to_separator SuffixNotAllowed R = Ok r
  end.

Lemma cl_entry_head : forall e, wf_cl_entry e = true ->
  exists x t, render_cl_entry e = x :: t /\ (x =? 44) = false.
Proof.
  intros [v|a b|q body] Hwf; cbn [wf_cl_entry render_cl_entry] in *.
  - destruct (wf_vals_inv v Hwf) as [Hne _].
    destruct (render_spec_head v Hne) as (x & t & Heq & Hx). exists x, t. split; [exact Heq|].
    unfold nobang in Hx. bsolve.
  - apply andb_prop in Hwf. destruct Hwf as [Hwf _]. apply andb_prop in Hwf. destruct Hwf as [Ha _].
    destruct (wf_vals_inv a Ha) as [Hne _].
    destruct (render_spec_head a Hne) as (x & t & Heq & Hx). rewrite Heq.
    eexists _, _. split; [reflexivity|]. unfold nobang in Hx. bsolve.
  - apply andb_prop in Hwf. destruct Hwf as [Hq _].
    eexists _, _. split; [reflexivity|]. bsolve.
Qed.

Lemma cgo_entry : forall e R, wf_cl_entry e = true -> cl_cond e R ->
  cgo (render_cl_entry e ++ R) = Val (LItem (cl_denotes e) R false).
Proof.
  intros [v|a b|q body] R Hwf HR; cbn [wf_cl_entry render_cl_entry cl_denotes cl_cond] in *.
  - destruct HR as [HR H58]. destruct (wf_vals_inv v Hwf) as [Hne _].
    pose proof (rcr_spec v R Hwf HR H58) as Hr.
    destruct (render_spec_head v Hne) as (x & t & Heq & Hx). rewrite Heq in *. cbn [app] in *.
    rewrite cgo_range by exact Hx. rewrite Hr. reflexivity.
  - apply andb_prop in Hwf. destruct Hwf as [Hwf Hlen]. apply andb_prop in Hwf. destruct Hwf as [Ha Hb].
    destruct (wf_vals_inv a Ha) as [Hne _].
    pose proof (rcr_range a b R Ha Hb HR) as Hr. rewrite Hlen in Hr.
    rewrite <- app_assoc. cbn [app].
    destruct (render_spec_head a Hne) as (x & t & Heq & Hx). rewrite Heq in *. cbn [app] in *.
    rewrite cgo_range by exact Hx. rewrite Hr. reflexivity.
  - apply andb_prop in Hwf. destruct Hwf as [Hq Hb]. destruct HR as [HR [r Hr]].
    cbn [app]. rewrite <- app_assoc. cbn [app].
    rewrite cgo_path by exact Hq. rewrite rcp_eq by assumption. rewrite Hr. reflexivity.
Qed.

Lemma cl_step : forall e b R, wf_cl_entry e = true -> cl_cond e R ->
  cnext (pre b ++ render_cl_entry e ++ R) b = Val (LItem (cl_denotes e) R false).
Proof.
  intros e b R Hwf HR. rewrite cnext_pre; [apply cgo_entry; assumption|].
  destruct (cl_entry_head e Hwf) as (x & t & Heq & Hx). rewrite Heq. exact Hx.
Qed.

Lemma cl_entry_len : forall e b R, wf_cl_entry e = true ->
  (length R < length (pre b ++ render_cl_entry e ++ R))%nat.
Proof.
  intros e b R Hwf. destruct (cl_entry_head e Hwf) as (x & t & Heq & _). rewrite Heq.
  repeat rewrite app_length. cbn [length]. lia.
Qed.

Definition cl_follow (R : list byte) : Prop := match R with [] => True | x :: _ => x = 44 end.

Lemma cl_follow_cond : forall e R, wf_cl_entry e = true -> cl_follow R -> cl_cond e R.
Proof.
  intros e [|x R] Hwf HR; cbn [cl_follow] in HR.
  - destruct e; cbn [cl_cond stop hd_eqb]; auto. split; [exact I|]. exists []. reflexivity.
  - subst x. destruct e as [v|a b|q body]; cbn [cl_cond stop hd_eqb]; auto.
    cbn [wf_cl_entry] in Hwf. apply andb_prop in Hwf. destruct Hwf as [Hq _].
    split; [bsolve|]. exists (44 :: R). reflexivity.
Qed.

Definition body_cl (l : list cl_ast) : list byte := intercalate [44] (map render_cl_entry l).

Lemma body_cl_cons2 : forall e e' es,
  body_cl (e :: e' :: es) = render_cl_entry e ++ 44 :: body_cl (e' :: es).
Proof. reflexivity. Qed.

Lemma cl_run_list : forall es b R items, es <> [] -> forallb wf_cl_entry es = true ->
  cl_follow R -> runs cnext R false items ->
  runs cnext (pre b ++ body_cl es ++ R) b (cl_ok es ++ items).
Proof.
  induction es as [|e es IH]; intros b R items Hne Hwf HR Hrun; [congruence|].
  cbn [forallb] in Hwf. apply andb_prop in Hwf. destruct Hwf as [He Hwf].
  destruct es as [|e' es].
  - change (body_cl [e]) with (render_cl_entry e). cbn [cl_ok map app].
    eapply runs_item; [apply cl_step; [exact He | apply cl_follow_cond; assumption]
                      | apply cl_entry_len; exact He | exact Hrun].
  - rewrite body_cl_cons2. rewrite <- app_assoc.
    change ((44 :: body_cl (e' :: es)) ++ R) with (pre false ++ body_cl (e' :: es) ++ R).
    change (cl_ok (e :: e' :: es) ++ items) with (IEntry (cl_denotes e) :: (cl_ok (e' :: es) ++ items)).
    eapply runs_item; [apply cl_step; [exact He | apply cl_follow_cond; [exact He | reflexivity]]
                      | apply cl_entry_len; exact He |].
    apply IH; [discriminate | exact Hwf | exact HR | exact Hrun].
Qed.

Lemma clist_entries_at : forall c, clist_entries (64 :: c) = Some (clist_iter (S (S (length c))) (mkClist c true)).
Proof. reflexivity. Qed.

Lemma cl_prefix : forall l R items, forallb wf_cl_entry l = true ->
  (l <> [] -> cl_follow R) -> runs cnext R (isnil l) items ->
  clist_entries (render_cl l ++ R) = Some (Val (cl_ok l ++ items)).
Proof.
  intros l R items Hwf HR Hrun. unfold render_cl. fold (body_cl l). cbn [app].
  rewrite clist_entries_at. f_equal.
  destruct l as [|e es].
  - cbn [body_cl map intercalate app cl_ok]. apply runs_clist_iter; [exact Hrun | lia].
  - assert (Hne : e :: es <> []) by discriminate.
    pose proof (cl_run_list (e :: es) true R items Hne Hwf (HR Hne) Hrun) as H.
    cbn [pre app] in H. apply runs_clist_iter; [exact H | lia].
Qed.

Theorem chan_entries : forall l, forallb wf_cl_entry l = true ->
  clist_entries (render_cl l) = Some (Val (map (fun e => IEntry (cl_denotes e)) l)).
Proof.
  intros l Hwf.
  pose proof (cl_prefix l [] [] Hwf (fun _ => I)) as H.
  repeat rewrite app_nil_r in H. apply H. apply runs_end. reflexivity.
Qed.

Theorem not_a_channel_list : forall expr, (forall c, expr <> 64%N :: c) -> clist_entries expr = None.
Proof.
  intros expr H. unfold clist_entries. rewrite clist_new_eq.
  destruct expr as [|x c]; [reflexivity|]. cbn [hd_eqb].
  destruct (x =? 64) eqn:E; [|reflexivity].
  apply N.eqb_eq in E. subst x. exfalso. apply (H c). reflexivity.
Qed.

Theorem cl_leading_comma : forall rest, exists e, clist_entries (64 :: 44 :: rest)%N = Some (Val [IError e]).
Proof.
  intros rest. eexists.
  apply (cl_prefix [] (44 :: rest) [IError _] eq_refl); [congruence|].
  apply runs_err. reflexivity.
Qed.

Theorem cl_doubled_comma : forall l rest, l <> [] -> forallb wf_cl_entry l = true ->
  exists e, clist_entries (render_cl l ++ 44 :: 44 :: rest)%N = Some (Val (cl_ok l ++ [IError e])).
Proof.
  intros l rest Hne Hwf. eexists.
  apply cl_prefix; [exact Hwf | intros _; reflexivity |].
  destruct l; [congruence|]. cbn [isnil]. apply runs_err. reflexivity.
Qed.

Lemma render_cl_snoc : forall l e,
  render_cl (l ++ [e]) = render_cl l ++ pre (isnil l) ++ render_cl_entry e.
Proof.
  intros l e. unfold render_cl. rewrite map_app. cbn [map]. rewrite intercalate_snoc.
  destruct l; reflexivity.
Qed.

Lemma cl_follow_pre : forall (l : list cl_ast) X, l <> [] -> cl_follow (pre (isnil l) ++ X).
Proof. intros [|e l] X H; [congruence | reflexivity]. Qed.

Theorem cl_third_range_end : forall l a b rest, forallb wf_cl_entry (l ++ [CLRange a b]) = true ->
  exists e, clist_entries (render_cl (l ++ [CLRange a b]) ++ 58 :: rest)%N
            = Some (Val (cl_ok (l ++ [CLRange a b]) ++ [IError e])).
Proof.
  intros l a b rest Hwf. eexists.
  rewrite forallb_app in Hwf. apply andb_prop in Hwf. destruct Hwf as [Hl He].
  cbn [forallb] in He. rewrite andb_true_r in He.
  rewrite render_cl_snoc. unfold cl_ok. rewrite map_app. cbn [map].
  repeat rewrite <- app_assoc.
  change (map (fun e => IEntry (cl_denotes e)) l) with (cl_ok l).
  apply cl_prefix; [exact Hl | apply cl_follow_pre |].
  eapply runs_item; [apply cl_step; [exact He | reflexivity] | apply cl_entry_len; exact He |].
  apply runs_err. reflexivity.
Qed.

Theorem cl_unequal_dimensions : forall l a b, forallb wf_cl_entry l = true ->
  wf_vals a = true -> wf_vals b = true -> length a <> length b ->
  exists e, clist_entries (render_cl l ++ (match l with [] => [] | _ => [44]%N end)
                           ++ render_spec a ++ 58 :: render_spec b)%N
            = Some (Val (cl_ok l ++ [IError e])).
Proof.
  intros l a b Hl Ha Hb Hlen. eexists.
  replace (match l with [] => [] | _ => [44] end) with (pre (isnil l)) by (destruct l; reflexivity).
  apply cl_prefix; [exact Hl | apply cl_follow_pre |].
  apply runs_err.
  destruct (wf_vals_inv a Ha) as [Hne _].
  pose proof (rcr_range a b [] Ha Hb I) as Hr. rewrite app_nil_r in Hr.
  replace (Nat.eqb (length a) (length b)) with false in Hr by (symmetry; apply Nat.eqb_neq; exact Hlen).
  destruct (render_spec_head a Hne) as (x & t & Heq & Hx). rewrite Heq in *. cbn [app] in *.
  rewrite cnext_pre by (cbn [hd_eqb]; unfold nobang in Hx; bsolve).
  rewrite cgo_range by exact Hx. rewrite Hr. reflexivity.
Qed.

(* a character that can neither continue nor follow an entry *)
Lemma cnext_foreign : forall y rest b,
  is_spec_char y = false -> (y =? 44) = false -> (y =? 34) = false -> (y =? 39) = false ->
  cnext (y :: rest) b = Val (LErr (std_error InvalidExpression)).
Proof.
  intros y rest b Hs H44 H34 H39. rewrite cnext_eq, H44. unfold cgo. cbv zeta.
  replace (is_digit y || (y =? 43) || (y =? 45)) with false by (unfold is_spec_char in Hs; bsolve).
  rewrite H34, H39. reflexivity.
Qed.

Lemma sws_foreign : forall e y rest, is_ws y = false -> (y =? 44) = false -> (y =? 59) = false ->
  skip_ws_to_separator e (y :: rest) = Err e.
Proof.
  intros e y rest Hw H44 H59. unfold skip_ws_to_separator. rewrite skip_ws_head by exact Hw.
  rewrite H44, H59. replace (y =? 10) with false by bsolve. reflexivity.
Qed.

(* after a path name the string reader's trailing-separator check fires on the path entry
   itself (unless the foreign byte is `;`, which that check accepts): the last path is then
   not yielded *)
Definition path_cut (l : list cl_ast) (y : byte) : list cl_ast :=
  match last l (CLSpec [0%Z]) with
  | CLPath _ _ => if y =? 59 then l else removelast l
  | _ => l
  end.

Theorem cl_foreign_character_exact : forall l y rest, forallb wf_cl_entry l = true ->
  is_spec_char y = false -> (y =? 44)%N = false -> (y =? 58)%N = false -> (y =? 34)%N = false -> (y =? 39)%N = false ->
  (forall v vs, last l (CLSpec [0%Z]) = CLPath v vs -> is_ws y = false) ->
  exists e, clist_entries (render_cl l ++ y :: rest) = Some (Val (cl_ok (path_cut l y) ++ [IError e])).
Proof.
  intros l y rest Hwf Hs H44 H58 H34 H39 Hpath.
  assert (Hfor : forall b, runs cnext (y :: rest) b [IError (std_error InvalidExpression)]).
  { intros b. apply runs_err. apply cnext_foreign; assumption. }
  destruct l as [|e0 l0] eqn:El.
  { eexists. unfold path_cut. cbn [last]. apply cl_prefix; [reflexivity | congruence | apply Hfor]. }
  rewrite <- El in *. assert (Hne : l <> []) by (rewrite El; discriminate). clear El e0 l0.
  destruct (exists_last Hne) as (l' & e & ->).
  rewrite forallb_app in Hwf. apply andb_prop in Hwf. destruct Hwf as [Hl He].
  cbn [forallb] in He. rewrite andb_true_r in He.
  unfold path_cut. rewrite last_last, removelast_last. rewrite last_last in Hpath.
  rewrite render_cl_snoc. repeat rewrite <- app_assoc.
  assert (Hall : cl_cond e (y :: rest) ->
    clist_entries (render_cl l' ++ pre (isnil l') ++ render_cl_entry e ++ y :: rest)
    = Some (Val (cl_ok (l' ++ [e]) ++ [IError (std_error InvalidExpression)]))).
  { intros Hc. unfold cl_ok. rewrite map_app. cbn [map]. rewrite <- app_assoc.
    apply cl_prefix; [exact Hl | apply cl_follow_pre |].
    eapply runs_item; [apply cl_step; [exact He | exact Hc] | apply cl_entry_len; exact He | apply Hfor]. }
  destruct e as [v|a b|q body].
  - eexists. apply Hall. cbn [cl_cond stop hd_eqb]. split; assumption.
  - eexists. apply Hall. cbn [cl_cond stop]. assumption.
  - specialize (Hpath q body eq_refl).
    cbn [wf_cl_entry] in He. apply andb_prop in He. destruct He as [Hq Hb].
    assert (Hstop : stop (fun x => x =? q) (y :: rest)) by (cbn [stop]; bsolve).
    destruct (y =? 59) eqn:E59.
    + eexists. apply Hall. cbn [cl_cond]. split; [exact Hstop|].
      apply N.eqb_eq in E59. subst y. eexists. reflexivity.
    + eexists. apply cl_prefix; [exact Hl | apply cl_follow_pre |].
      apply runs_err. cbn [render_cl_entry]. cbn [app]. rewrite <- app_assoc. cbn [app].
      rewrite cnext_pre by (cbn [hd_eqb]; bsolve).
      rewrite cgo_path by exact Hq. rewrite rcp_eq by assumption.
      rewrite sws_foreign by assumption. reflexivity.
Qed.

(* The statement as first written, with the side condition
     (forall v vs, last l d <> CLPath v vs -> items = cl_ok l),
   is false: its premise can be met for a path by choosing another v.  Counterexample `@""A`. *)
Example cl_foreign_character_scope_counterexample :
  ~ (forall l y rest, forallb wf_cl_entry l = true ->
     is_spec_char y = false -> (y =? 44)%N = false -> (y =? 58)%N = false -> (y =? 34)%N = false -> (y =? 39)%N = false ->
     (forall v vs, last l (CLSpec [0%Z]) = CLPath v vs -> is_ws y = false) ->
     exists items e, clist_entries (render_cl l ++ y :: rest) = Some (Val (items ++ [IError e])) /\
       (forall v vs, last l (CLSpec [0%Z]) <> CLPath v vs -> items = cl_ok l)).
Proof.
  intros H.
  destruct (H [CLPath 34 []] 65 [] eq_refl eq_refl eq_refl eq_refl eq_refl eq_refl (fun _ _ _ => eq_refl))
    as (items & e & Heq & Hit).
  rewrite (Hit 39 []) in Heq by discriminate.
  vm_compute in Heq. discriminate Heq.
Qed.

Theorem cl_foreign_character : forall l y rest, forallb wf_cl_entry l = true ->
  is_spec_char y = false -> (y =? 44)%N = false -> (y =? 58)%N = false -> (y =? 34)%N = false -> (y =? 39)%N = false ->
  (forall v vs, last l (CLSpec [0%Z]) = CLPath v vs -> is_ws y = false) ->
  exists items e, clist_entries (render_cl l ++ y :: rest) = Some (Val (items ++ [IError e])) /\
    ((forall v vs, last l (CLSpec [0%Z]) <> CLPath v vs) -> items = cl_ok l).
Proof.
  intros l y rest Hwf Hs H44 H58 H34 H39 Hpath.
  destruct (cl_foreign_character_exact l y rest Hwf Hs H44 H58 H34 H39 Hpath) as [e He].
  exists (cl_ok (path_cut l y)), e. split; [exact He|].
  intros Hn. unfold path_cut. destruct (last l (CLSpec [0%Z])) as [v|a b|q body]; try reflexivity.
  exfalso. apply (Hn q body). reflexivity.
Qed.

Print Assumptions nlist_total.
Print Assumptions clist_total.
Print Assumptions spec_values_total.
Print Assumptions spec_tuple_total.
Print Assumptions spec_dims_ok.
Print Assumptions tuple_conv.
Print Assumptions tuple_conv_wrong_dimension.
Print Assumptions num_entries.
Print Assumptions chan_entries.
Print Assumptions not_a_channel_list.
Print Assumptions nl_leading_comma.
Print Assumptions nl_doubled_comma.
Print Assumptions nl_missing_separator.
Print Assumptions nl_third_range_end.
Print Assumptions cl_leading_comma.
Print Assumptions cl_doubled_comma.
Print Assumptions cl_third_range_end.
Print Assumptions cl_unequal_dimensions.
Print Assumptions cl_foreign_character_exact.
Print Assumptions cl_foreign_character.
Print Assumptions cl_foreign_character_scope_counterexample.
Print Assumptions spec_empty_dimension.
