(* MessageSpec3.v — the vocabulary of the PREFIX theorem (Message_proofs3.v): what a sequence of well-formed units
   means when it is NOT the whole message (no end-of-message handling), and the dispatcher started in the middle of a
   message (from a given header-path context, device, formatter and trace).
   Specification file: no proofs. *)
From VF Require Import Base Gen_Errors Lexer Mnemonic Grammar Response Tree HeaderSpec MessageSpec.
Open Scope N_scope.

Section MessageSpec3.
Context {D : Type}.

(* the units of a prefix, WITHOUT the end-of-message handling of spec_units:
   POk: every unit succeeded; [ctx] is the header-path context the last unit left;
   PErr: the first failing unit ended the message *)
Inductive pres :=
| POk (ctx : tree D) (d : D) (f : fmt) (tr : trace)
| PErr (e : error) (d : D) (f : fmt) (tr : trace).

Fixpoint spec_prefix (root ctx : tree D) (us : list (munit * list byte)) (d : D) (f : fmt) (tr : trace) : pres :=
  match us with
  | [] => POk ctx d f tr
  | (u, _) :: us' => match spec_unit root ctx u d f tr with
                     | UErr e d' f' tr' => PErr e d' f' tr'
                     | UOk ctx' d' f' tr' => spec_prefix root ctx' us' d' f' tr'
                     end
  end.

(* the trace component of a prefix result *)
Definition pres_trace (p : pres) : trace :=
  match p with POk _ _ _ tr => tr | PErr _ _ _ tr => tr end.

(* executing bytes from a given context / device / formatter / trace: [Tree.run] is the instance ctx = root, tr = [] *)
Definition run_from (root ctx : tree D) (input : list byte) (d : D) (f : fmt) (tr : trace) : outcome (run_result D) :=
  let* toks := tokenize input in
  let* r := unit_loop (S (length toks)) root ctx (mkX toks d f tr) in
  let '(s, e) := r in
  Val (mkRun e (x_dev s) (buf (x_fmt s)) (x_trace s) (match e with Some x => [x] | None => [] end)).

End MessageSpec3.
