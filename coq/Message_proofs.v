(* Message_proofs.v — the end-to-end message semantics theorem: for every SCPI-shaped command tree and every
   well-formed program message in every layout, the pipeline  bytes -> Lexer.tokenize -> Tree.run_tokens
   computes exactly MessageSpec.spec_message. *)
From VF Require Import Base Gen_Errors Lexer Mnemonic Grammar Response Tree HeaderSpec MessageSpec.
From VF Require Import Grammar_proofs Tree_proofs Header_proofs.
From Coq Require Import Lia ZifyBool ZifyN ZifyNat.
Open Scope N_scope.

Section MessageProofs.
Context {D : Type}.

(* ------------------------------------------------------------------ *)
(* 1. subtree closure                                                  *)
(* ------------------------------------------------------------------ *)
Lemma as_go_inv : forall l (b : tree D), In b (as_go l) -> exists ch, In ch l /\ In b (all_subtrees ch).
Proof.
  intros l b. induction l as [|a l IH]; intros H; [destruct H|].
  cbn [as_go] in H. fold (@as_go D) in H. apply in_app_or in H. destruct H as [H|H].
  - exists a. split; [left; reflexivity|exact H].
  - destruct (IH H) as [ch [H1 H2]]. exists ch. split; [right; exact H1|exact H2].
Qed.

Lemma subtree_trans : forall (a b c : tree D), In b (all_subtrees a) -> In c (all_subtrees b) -> In c (all_subtrees a).
Proof.
  intros a. induction a as [n d c0|n d sub IH] using Header_proofs.tree_ind'; intros b c Hb Hc.
  - destruct Hb as [<-|[]]. exact Hc.
  - rewrite all_subtrees_branch in Hb. destruct Hb as [<-|Hb]; [exact Hc|].
    destruct (as_go_inv _ _ Hb) as [ch [Hin Hb']].
    rewrite all_subtrees_branch. right. eapply as_go_in; [exact Hin|].
    eapply IH; eauto.
Qed.

Lemma wf_subtree : forall (root b : tree D), wf_tree root -> In b (all_subtrees root) -> wf_tree b.
Proof.
  intros root b Hwf Hb x Hx. apply Hwf. eapply subtree_trans; eauto.
Qed.

(* every context a designation produces is the incoming context or a subtree of the start node *)
Lemma desig_ctx_subtree : forall (self ctx : tree D) ms c ctx',
  In (c, ctx') (desig self ctx ms) -> ctx' = ctx \/ In ctx' (all_subtrees self).
Proof.
  intros self. induction self as [n d c0|n d sub IH] using Header_proofs.tree_ind'; intros ctx ms c ctx' Hx.
  - destruct ms; [|destruct Hx]. destruct Hx as [Hx|[]]. injection Hx as _ <-. left. reflexivity.
  - destruct ms as [|m ms'].
    + rewrite desig_branch_nil in Hx. destruct (dn_go_inv _ _ _ Hx) as [ch [Hin [_ Hx']]].
      destruct (IH ch Hin _ _ _ _ Hx') as [->|H]; [left; reflexivity|].
      right. rewrite all_subtrees_branch. right. eapply as_go_in; eauto.
    + rewrite desig_branch_cons in Hx.
      destruct (dc_go_inv _ _ _ _ _ _ Hx) as [ch [Hin [[_ Hx']|[_ [_ Hx']]]]].
      * destruct (IH ch Hin _ _ _ _ Hx') as [->|H]; [right; apply all_subtrees_self|].
        right. rewrite all_subtrees_branch. right. eapply as_go_in; eauto.
      * destruct (IH ch Hin _ _ _ _ Hx') as [->|H]; [left; reflexivity|].
        right. rewrite all_subtrees_branch. right. eapply as_go_in; eauto.
Qed.

(* ------------------------------------------------------------------ *)
(* 2. a handler program on the data stream of its unit                 *)
(* ------------------------------------------------------------------ *)
(* the data elements still to come, each preceded by its comma *)
Definition more (data : list token) : list titem := flat_map (fun t => [IOk TDataSeparator; IOk t]) data.
(* the stream in front of a handler: [first] = no element consumed yet (no leading comma) *)
Definition strm (first : bool) (data : list token) (tail : list titem) : list titem :=
  match data with
  | [] => tail
  | t :: r => if first then IOk t :: more r ++ tail else more data ++ tail
  end.
Definition unit_tail (tail : list titem) : Prop := tail = [] \/ exists r, tail = IOk TUnitSeparator :: r.
Definition all_data (data : list token) : Prop := Forall (fun t => is_data t = true) data.

Lemma strm_false : forall data tail, strm false data tail = more data ++ tail.
Proof. intros [|t r] tail; reflexivity. Qed.

Lemma pull_strm : forall first data tail, unit_tail tail -> all_data data ->
  next_optional_token (strm first data tail) =
    match data with t :: r => (Got t, strm false r tail) | [] => (Absent, tail) end /\
  next_token (strm first data tail) =
    match data with t :: r => (Got t, strm false r tail) | [] => (Failed (std_error MissingParameter), tail) end.
Proof.
  intros first data tail Ht Hd. destruct data as [|t r].
  - cbn [strm]. apply pull_at_unit_end. exact Ht.
  - inversion Hd as [|? ? Hdt Hdr]; subst. rewrite strm_false. destruct first; cbn [strm more flat_map app].
    + fold (more r). apply pull_first_datum. exact Hdt.
    + fold (more r). apply pull_next_datum. exact Hdt.
Qed.

Lemma run_prog_spec : forall (p : hprog D) first data tail f u rest d' f' e,
  unit_tail tail -> all_data data -> spec_prog p data f u = (rest, d', f', e) ->
  exists first', run_prog p (strm first data tail) f u = (strm first' rest tail, d', f', e).
Proof.
  induction p as [required k IH|h k IH|x k IH|d0 r]; intros first data tail f u rest d' f' e Ht Hd Hs.
  - cbn [run_prog]. cbn [spec_prog] in Hs.
    destruct (pull_strm first data tail Ht Hd) as [Ho Hr].
    destruct data as [|t data'].
    + destruct required; [rewrite Hr|rewrite Ho];
        apply (IH _ first [] tail f u rest d' f' e Ht Hd Hs).
    + assert (Hd' : all_data data') by (inversion Hd; assumption).
      destruct required; [rewrite Hr|rewrite Ho];
        apply (IH _ false data' tail f u rest d' f' e Ht Hd' Hs).
  - cbn [run_prog]. cbn [spec_prog] in Hs. destruct u as [ru|].
    + destruct (ru_header f ru h) as [f1 ru1]. eapply IH; eauto.
    + eapply IH; eauto.
  - cbn [run_prog]. cbn [spec_prog] in Hs. destruct u as [ru|].
    + destruct (ru_data f ru x) as [f1 ru1]. eapply IH; eauto.
    + eapply IH; eauto.
  - cbn [run_prog]. cbn [spec_prog] in Hs. exists first. injection Hs as <- <- <- <-. reflexivity.
Qed.

Theorem spec_prog_consumes_prefix : forall (p : hprog D) data f u rest d' f' e,
  spec_prog p data f u = (rest, d', f', e) -> exists used, data = used ++ rest.
Proof.
  induction p as [required k IH|h k IH|x k IH|d0 r]; intros data f u rest d' f' e Hs; cbn [spec_prog] in Hs.
  - destruct data as [|t data'].
    + eapply IH; eauto.
    + destruct (IH _ _ _ _ _ _ _ _ Hs) as [used Hu]. exists (t :: used). rewrite Hu. reflexivity.
  - destruct u as [ru|]; [destruct (ru_header f ru h) as [f1 ru1]|]; eapply IH; eauto.
  - destruct u as [ru|]; [destruct (ru_data f ru x) as [f1 ru1]|]; eapply IH; eauto.
  - injection Hs as <- _ _ _. exists []. reflexivity.
Qed.

Lemma strm_leftover : forall first t r tail, all_data (t :: r) ->
  exists tok rest, strm first (t :: r) tail = IOk tok :: rest /\ (is_data tok = true \/ tok = TDataSeparator).
Proof.
  intros first t r tail Hd. inversion Hd; subst. destruct first; cbn [strm more flat_map app].
  - eexists _, _. split; [reflexivity|left; assumption].
  - eexists _, _. split; [reflexivity|right; reflexivity].
Qed.

Lemma is_data_datum : forall d, is_data (token_of_datum d) = true.
Proof. intros []; reflexivity. Qed.

Lemma unit_data_all : forall u, all_data (unit_data u).
Proof.
  intros u. unfold unit_data, all_data. induction (u_args u) as [|a l IH]; cbn [map]; constructor.
  - apply is_data_datum.
  - exact IH.
Qed.

Lemma tokens_args_strm : forall a args tail,
  map IOk (tokens_args (a :: args)) ++ tail =
  IOk (token_of_datum (fst (fst a))) :: more (map (fun a => token_of_datum (fst (fst a))) args) ++ tail.
Proof.
  intros a args. revert a. induction args as [|b args IH]; intros [[d w1] w2] tail.
  - reflexivity.
  - change (tokens_args ((d, w1, w2) :: b :: args)) with (token_of_datum d :: TDataSeparator :: tokens_args (b :: args)).
    cbn [map app fst]. rewrite IH. reflexivity.
Qed.

Lemma args_strm : forall u tail, map IOk (tokens_args (u_args u)) ++ tail = strm true (unit_data u) tail.
Proof.
  intros u tail. unfold unit_data. destruct (u_args u) as [|a args]; [reflexivity|].
  rewrite tokens_args_strm. reflexivity.
Qed.

(* ------------------------------------------------------------------ *)
(* 3. one handler invocation                                           *)
(* ------------------------------------------------------------------ *)
(* the part of spec_unit after the designation *)
Definition spec_call (c : command D) (q : bool) (next_ctx : tree D) (data : list token) (d : D) (f : fmt) (tr : trace)
  : @ures D :=
  let finish (f0 : fmt) (r : list token * D * fmt * option error) : ures :=
    let '(rest, d', f', e) := r in
    let tr' := tr ++ [(cid c, q, skipn (length (buf f0)) (buf f'))] in
    match e with
    | Some x => UErr x d' f' tr'
    | None => match rest with
              | [] => UOk next_ctx d' f' tr'
              | _ :: _ => UErr (std_error ParameterNotAllowed) d' f' tr'
              end
    end in
  if q then
    match response_unit f with
    | Err e => UErr (std_error e) d f tr
    | Ok f0 => finish f0 (spec_prog (qu c d) data f0 (Some runit_new))
    end
  else finish f (spec_prog (ev c d) data f None).

Lemma spec_unit_call : forall (root ctx : tree D) u d f tr,
  spec_unit root ctx u d f tr =
  let h := u_header u in
  let from := if h_common h || h_absolute h then root else ctx in
  match desig from from (header_path h) with
  | [] => UErr (std_error UndefinedHeader) d f tr
  | (c, ctx') :: _ => spec_call c (h_query h) (if h_common h then ctx else ctx') (unit_data u) d f tr
  end.
Proof.
  intros. unfold spec_unit, spec_call. cbv zeta.
  destruct (desig _ _ _) as [|[c ctx'] l]; reflexivity.
Qed.

(* what the dispatcher's handler invocation yields, against the specification of the call *)
Definition call_matches (r : xres D) (leaf : tree D) (tail : list titem) (sp : @ures D) : Prop :=
  match sp with
  | UOk _ d' f' tr' => r = XOk leaf (mkX tail d' f' tr')
  | UErr e d' f' tr' =>
    (exists s', r = XErr e s' /\ x_dev s' = d' /\ x_fmt s' = f' /\ x_trace s' = tr') \/
    (e = std_error ParameterNotAllowed /\
     exists s' tok rest, r = XOk leaf s' /\ x_toks s' = IOk tok :: rest /\
       (is_data tok = true \/ tok = TDataSeparator) /\ x_dev s' = d' /\ x_fmt s' = f' /\ x_trace s' = tr')
  end.

Lemma run_handler_spec : forall (c : command D) q leaf nctx toks0 d f tr data tail,
  unit_tail tail -> all_data data ->
  call_matches (run_handler c q leaf (mkX toks0 d f tr) (strm true data tail)) leaf tail
               (spec_call c q nctx data d f tr).
Proof.
  intros c q leaf nctx toks0 d f tr data tail Ht Hd.
  unfold run_handler, spec_call. cbn [x_fmt x_dev x_trace]. destruct q.
  - destruct (response_unit f) as [f0|e0].
    + destruct (spec_prog (qu c d) data f0 (Some runit_new)) as [[[rest d'] f'] e] eqn:Hs.
      destruct (run_prog_spec _ true _ tail _ _ _ _ _ _ Ht Hd Hs) as [first' Hr]. rewrite Hr.
      destruct (spec_prog_consumes_prefix _ _ _ _ _ _ _ _ Hs) as [used Hu].
      assert (Hdr : all_data rest) by (unfold all_data in *; rewrite Hu in Hd; apply Forall_app in Hd; tauto).
      destruct e as [x|].
      * cbn. left. eexists. split; [reflexivity|]. cbn. auto.
      * destruct rest as [|t r].
        -- cbn [strm call_matches]. reflexivity.
        -- destruct (strm_leftover first' t r tail Hdr) as [tok [rs [Hst Htok]]].
           cbn [call_matches]. right. split; [reflexivity|].
           eexists _, tok, rs. split; [reflexivity|]. cbn [x_toks x_dev x_fmt x_trace]. auto.
    + cbn. left. eexists. split; [reflexivity|]. cbn. auto.
  - destruct (spec_prog (ev c d) data f None) as [[[rest d'] f'] e] eqn:Hs.
    destruct (run_prog_spec _ true _ tail _ _ _ _ _ _ Ht Hd Hs) as [first' Hr]. rewrite Hr.
    destruct (spec_prog_consumes_prefix _ _ _ _ _ _ _ _ Hs) as [used Hu].
    assert (Hdr : all_data rest) by (unfold all_data in *; rewrite Hu in Hd; apply Forall_app in Hd; tauto).
    destruct e as [x|].
    * cbn. left. eexists. split; [reflexivity|]. cbn. auto.
    * destruct rest as [|t r].
      -- cbn [strm call_matches]. reflexivity.
      -- destruct (strm_leftover first' t r tail Hdr) as [tok [rs [Hst Htok]]].
         cbn [call_matches]. right. split; [reflexivity|].
         eexists _, tok, rs. split; [reflexivity|]. cbn [x_toks x_dev x_fmt x_trace]. auto.
Qed.

(* ------------------------------------------------------------------ *)
(* 4. one message unit                                                 *)
(* ------------------------------------------------------------------ *)
Definition retarget (leaf : tree D) (r : xres D) : xres D :=
  match r with XOk _ s' => XOk leaf s' | XErr e s' => XErr e s' end.

Lemma sws_eq : forall x m, starts_with_star (x :: m) = (x =? 42).
Proof.
  intros x m. destruct x as [|p]; [reflexivity|].
  do 6 (try (destruct p as [p|p|]; try reflexivity)).
Qed.

Lemma wf_mnemonic_nostar : forall m, wf_mnemonic m = true -> starts_with_star m = false.
Proof.
  intros [|x m] H; [discriminate H|]. rewrite sws_eq. unfold wf_mnemonic in H.
  apply andb_prop in H. destruct H as [H _]. apply andb_prop in H. destruct H as [H _].
  unfold is_alpha, is_upper, is_lower in H. lia.
Qed.

(* the stream of a unit after its header path *)
Definition htail (u : munit) (tail : list titem) : list titem :=
  (if h_query (u_header u) then [IOk THeaderQuerySuffix] else [])
  ++ (match u_hsep u with [] => [] | _ => [IOk THeaderSeparator] end)
  ++ map IOk (tokens_args (u_args u)) ++ tail.

Lemma htail_facts : forall u tail, wf_unit u = true -> unit_tail tail ->
  header_end (htail u tail) /\ is_query_tail (htail u tail) = h_query (u_header u) /\
  after_header (htail u tail) = strm true (unit_data u) tail.
Proof.
  intros u tail Hwf Ht. rewrite <- args_strm. unfold htail. unfold wf_unit in Hwf.
  apply andb_prop in Hwf. destruct Hwf as [Hwf _]. apply andb_prop in Hwf. destruct Hwf as [_ Hargs].
  destruct (h_query (u_header u)); destruct (u_hsep u) as [|w ws]; cbn [app].
  - destruct (u_args u); [|discriminate Hargs]. cbn [tokens_args map app].
    split; [right; eexists _, _; split; [reflexivity|auto]|].
    split; [reflexivity|]. destruct Ht as [->|[r ->]]; reflexivity.
  - split; [right; eexists _, _; split; [reflexivity|auto]|]. split; reflexivity.
  - destruct (u_args u); [|discriminate Hargs]. cbn [tokens_args map app].
    destruct Ht as [->|[r ->]].
    + split; [left; reflexivity|]. split; reflexivity.
    + split; [right; eexists _, _; split; [reflexivity|auto]|]. split; reflexivity.
  - split; [right; eexists _, _; split; [reflexivity|auto]|]. split; reflexivity.
Qed.

Lemma unit_body_form : forall (root ctx : tree D) u tail d f tr, wf_unit u = true ->
  let h := u_header u in
  let s0 := mkX (hdr_toks (header_path h) ++ htail u tail) d f tr in
  unit_body root ctx (mkX (map IOk (tokens_unit u) ++ tail) d f tr) =
    UExec (if h_common h then retarget ctx (exec root root s0)
           else if h_absolute h then exec root root s0 else exec ctx ctx s0).
Proof.
  intros root ctx u tail d f tr Hwf. cbv zeta. unfold htail, tokens_unit, header_path, tokens_header.
  unfold wf_unit in Hwf.
  apply andb_prop in Hwf. destruct Hwf as [Hwf _]. apply andb_prop in Hwf. destruct Hwf as [Hwf _].
  apply andb_prop in Hwf. destruct Hwf as [Hwf _]. unfold wf_header in Hwf.
  apply andb_prop in Hwf. destruct Hwf as [Hmn Hwf].
  destruct (u_header u) as [ab com mn q]. cbn [h_absolute h_common h_mnems h_query] in *.
  set (T := (if q then [IOk THeaderQuerySuffix] else [])
            ++ (match u_hsep u with [] => [] | _ => [IOk THeaderSeparator] end)
            ++ map IOk (tokens_args (u_args u)) ++ tail).
  assert (HT : forall pre, map IOk ((pre ++ (if q then [THeaderQuerySuffix] else []))
                  ++ (match u_hsep u with [] => [] | _ => [THeaderSeparator] end) ++ tokens_args (u_args u)) ++ tail
               = map IOk pre ++ T).
  { intros pre. unfold T. rewrite !map_app, <- !app_assoc. f_equal. f_equal; [destruct q; reflexivity|].
    f_equal. destruct (u_hsep u); reflexivity. }
  rewrite HT. destruct com.
  - destruct mn as [|m [|m2 mn]]; try discriminate Hwf.
    unfold hdr_toks. cbn [tokens_path map app]. unfold unit_body. cbn [x_toks].
    change (starts_with_star (42 :: m)) with true. cbv iota.
    destruct (exec root root _); reflexivity.
  - destruct mn as [|m mn]; [discriminate Hwf|].
    cbn [forallb] in Hmn. apply andb_prop in Hmn. destruct Hmn as [Hm _].
    apply wf_mnemonic_nostar in Hm.
    destruct ab.
    + rewrite map_app. cbn [map app]. fold (hdr_toks (m :: mn)). unfold unit_body. cbn [x_toks]. reflexivity.
    + cbn [app]. fold (hdr_toks (m :: mn)). rewrite hdr_cons. unfold unit_body. cbn [x_toks]. rewrite Hm. reflexivity.
Qed.

Lemma exec_spec : forall (from : tree D) path htl data tail d f tr, wf_tree from -> header_end htl ->
  after_header htl = strm true data tail ->
  match desig from from path with
  | [] => exists toks', exec from from (mkX (hdr_toks path ++ htl) d f tr) = XErr (std_error UndefinedHeader) (mkX toks' d f tr)
  | (c, ctx') :: _ =>
    exec from from (mkX (hdr_toks path ++ htl) d f tr) =
    run_handler c (is_query_tail htl) ctx' (mkX (hdr_toks path ++ htl) d f tr) (strm true data tail)
  end.
Proof.
  intros from path htl data tail d f tr Hwf Hend Haft.
  destruct (desig from from path) as [|[c ctx'] l] eqn:Hd.
  - destruct (resolve_undefined from from path htl Hend Hd) as [toks' Hr].
    exists toks'. unfold exec. cbn [x_toks]. rewrite Hr. reflexivity.
  - assert (Hin : In (c, ctx') (desig from from path)) by (rewrite Hd; left; reflexivity).
    pose proof (resolve_complete from from path htl c ctx' Hwf Hend Hin) as Hr.
    unfold exec. cbn [x_toks]. rewrite Hr, Haft. reflexivity.
Qed.

(* the outcome of the dispatcher on one unit, against spec_unit *)
Lemma unit_step : forall (root ctx : tree D) u tail d f tr, wf_tree root -> In ctx (all_subtrees root) ->
  wf_unit u = true -> unit_tail tail ->
  exists r, unit_body root ctx (mkX (map IOk (tokens_unit u) ++ tail) d f tr) = UExec r /\
    match spec_unit root ctx u d f tr with
    | UOk ctx' d' f' tr' => In ctx' (all_subtrees root) /\ r = XOk ctx' (mkX tail d' f' tr')
    | UErr e d' f' tr' =>
      (exists s', r = XErr e s' /\ x_dev s' = d' /\ x_fmt s' = f' /\ x_trace s' = tr') \/
      (e = std_error ParameterNotAllowed /\
       exists leaf s' tok rest, r = XOk leaf s' /\ x_toks s' = IOk tok :: rest /\
         (is_data tok = true \/ tok = TDataSeparator) /\ x_dev s' = d' /\ x_fmt s' = f' /\ x_trace s' = tr')
    end.
Proof.
  intros root ctx u tail d f tr Hwf Hctx Hu Ht.
  rewrite (unit_body_form root ctx u tail d f tr Hu). cbv zeta. eexists. split; [reflexivity|].
  destruct (htail_facts u tail Hu Ht) as [Hend [Hq Haft]].
  rewrite spec_unit_call. cbv zeta.
  set (from := if h_common (u_header u) || h_absolute (u_header u) then root else ctx).
  assert (Hfrom : In from (all_subtrees root)).
  { unfold from. destruct (h_common (u_header u) || h_absolute (u_header u)); [apply all_subtrees_self|exact Hctx]. }
  assert (Hwff : wf_tree from) by (eapply wf_subtree; eauto).
  pose proof (exec_spec from (header_path (u_header u)) (htail u tail) (unit_data u) tail d f tr Hwff Hend Haft) as He.
  assert (Hsub : forall c ctx', In (c, ctx') (desig from from (header_path (u_header u))) -> In ctx' (all_subtrees root)).
  { intros c ctx' Hin. apply desig_ctx_subtree in Hin. destruct Hin as [->|Hin]; [exact Hfrom|].
    eapply subtree_trans; eauto. }
  destruct (desig from from (header_path (u_header u))) as [|[c ctx'] l] eqn:Hd.
  - destruct He as [toks' He]. left.
    assert (Hx : forall leaf, retarget leaf (XErr (std_error UndefinedHeader) (mkX toks' d f tr))
                  = XErr (std_error UndefinedHeader) (mkX toks' d f tr)) by reflexivity.
    unfold from in He.
    destruct (h_common (u_header u)); [|destruct (h_absolute (u_header u))]; cbn [orb] in He;
      rewrite He; eexists; (split; [reflexivity|]); cbn; auto.
  - specialize (Hsub c ctx' (or_introl eq_refl)). rewrite Hq in He.
    pose proof (run_handler_spec c (h_query (u_header u)) ctx'
                  (if h_common (u_header u) then ctx else ctx')
                  (hdr_toks (header_path (u_header u)) ++ htail u tail) d f tr (unit_data u) tail Ht
                  (unit_data_all u)) as Hc.
    rewrite <- He in Hc. unfold from in Hc. clear He.
    destruct (spec_call c (h_query (u_header u)) _ (unit_data u) d f tr) as [nctx d' f' tr'|e d' f' tr'] eqn:Hsp.
    + assert (Hn : nctx = if h_common (u_header u) then ctx else ctx').
      { unfold spec_call in Hsp. destruct (h_query (u_header u)).
        - destruct (response_unit f); [|discriminate Hsp].
          destruct (spec_prog _ _ _ _) as [[[rest d1] f1] [x|]]; [discriminate Hsp|].
          destruct rest; [|discriminate Hsp]. injection Hsp as <- _ _ _. reflexivity.
        - destruct (spec_prog _ _ _ _) as [[[rest d1] f1] [x|]]; [discriminate Hsp|].
          destruct rest; [|discriminate Hsp]. injection Hsp as <- _ _ _. reflexivity. }
      cbn [call_matches] in Hc. subst nctx.
      destruct (h_common (u_header u)); [|destruct (h_absolute (u_header u))]; cbn [orb] in Hc;
        rewrite Hc; cbn [retarget]; (split; [assumption|reflexivity]).
    + cbn [call_matches] in Hc.
      destruct Hc as [[s' [Hr Hs']]|[He [s' [tok [rest [Hr Hs']]]]]].
      * left. exists s'. split; [|exact Hs'].
        destruct (h_common (u_header u)); [|destruct (h_absolute (u_header u))]; cbn [orb] in Hr;
          rewrite Hr; reflexivity.
      * right. split; [exact He|].
        destruct (h_common (u_header u)); [|destruct (h_absolute (u_header u))]; cbn [orb] in Hr;
          rewrite Hr; cbn [retarget]; eexists _, s', tok, rest; (split; [reflexivity|exact Hs']).
Qed.

(* ------------------------------------------------------------------ *)
(* 5. the unit loop                                                    *)
(* ------------------------------------------------------------------ *)
Definition wf_uw (uw : munit * list byte) : bool := wf_unit (fst uw) && wf_ws (snd uw).
(* what follows a unit in the stream of a message *)
Definition utail (us : list (munit * list byte)) : list titem :=
  match us with [] => [] | _ :: _ => IOk TUnitSeparator :: map IOk (tokens_units us) end.

Lemma tokens_units_cons : forall u w us,
  map IOk (tokens_units ((u, w) :: us)) = map IOk (tokens_unit u) ++ utail us.
Proof.
  intros u w [|uw us].
  - cbn [tokens_units utail]. rewrite app_nil_r. reflexivity.
  - change (tokens_units ((u, w) :: uw :: us)) with (tokens_unit u ++ TUnitSeparator :: tokens_units (uw :: us)).
    rewrite map_app. reflexivity.
Qed.

Lemma utail_unit_tail : forall us, unit_tail (utail us).
Proof. intros [|uw us]; [left; reflexivity|right; eexists; reflexivity]. Qed.

Lemma loop_spec : forall us (root ctx : tree D) d f tr fu, wf_tree root -> In ctx (all_subtrees root) ->
  forallb wf_uw us = true -> us <> [] -> (length us <= fu)%nat ->
  exists s e, unit_loop fu root ctx (mkX (map IOk (tokens_units us)) d f tr) = Val (s, e) /\
    (x_dev s, x_fmt s, x_trace s, e) = spec_units root ctx us d f tr.
Proof.
  induction us as [|[u w] us IH]; intros root ctx d f tr fu Hwf Hctx Hus Hne Hfu; [contradiction|].
  destruct fu as [|fu]; [cbn in Hfu; lia|]. cbn [length] in Hfu.
  cbn [forallb] in Hus. apply andb_prop in Hus. destruct Hus as [Huw Hus].
  unfold wf_uw in Huw. cbn [fst snd] in Huw. apply andb_prop in Huw. destruct Huw as [Hu _].
  rewrite tokens_units_cons.
  destruct (unit_step root ctx u (utail us) d f tr Hwf Hctx Hu (utail_unit_tail us)) as [r [Hb Hr]].
  cbn [spec_units].
  destruct (spec_unit root ctx u d f tr) as [ctx' d' f' tr'|e d' f' tr'].
  - destruct Hr as [Hctx' ->]. cbn [unit_loop]. rewrite Hb.
    destruct us as [|uw us'].
    + cbn [utail spec_units]. unfold unit_after, finish_message. cbn [x_toks x_fmt].
      destruct (buf f') as [|b bs].
      * eexists _, _. split; reflexivity.
      * destruct (message_end f') as [f2|e2]; eexists _, _; split; reflexivity.
    + cbn [utail]. unfold unit_after. cbn [x_toks with_toks x_dev x_fmt x_trace].
      apply IH; [exact Hwf|exact Hctx'|exact Hus|discriminate|lia].
  - destruct Hr as [[s' [-> [Hd [Hf Ht]]]]|[-> [leaf [s' [tok [rest [-> [Htoks [Htok [Hd [Hf Ht]]]]]]]]]]].
    + cbn [unit_loop]. rewrite Hb. exists s', (Some e). split; [reflexivity|]. rewrite Hd, Hf, Ht. reflexivity.
    + rewrite (leftover_is_108 fu root ctx _ leaf s' tok rest Hb Htoks Htok).
      eexists _, _. split; [reflexivity|]. cbn [with_toks x_dev x_fmt x_trace]. rewrite Hd, Hf, Ht. reflexivity.
Qed.

Lemma wf_unit_tokens_nonempty : forall u, wf_unit u = true -> (1 <= length (tokens_unit u))%nat.
Proof.
  intros u Hwf. unfold wf_unit in Hwf.
  apply andb_prop in Hwf. destruct Hwf as [Hwf _]. apply andb_prop in Hwf. destruct Hwf as [Hwf _].
  apply andb_prop in Hwf. destruct Hwf as [Hwf _]. unfold wf_header in Hwf.
  apply andb_prop in Hwf. destruct Hwf as [_ Hwf].
  unfold tokens_unit, tokens_header. rewrite !app_length.
  destruct (h_common (u_header u)); destruct (h_mnems (u_header u)) as [|m [|m2 mn]]; try discriminate Hwf;
    destruct (h_absolute (u_header u)); cbn; lia.
Qed.

Lemma units_tokens_length : forall us, forallb wf_uw us = true -> (length us <= length (tokens_units us))%nat.
Proof.
  induction us as [|[u w] us IH]; intros Hus; [cbn; lia|].
  cbn [forallb] in Hus. apply andb_prop in Hus. destruct Hus as [Huw Hus].
  unfold wf_uw in Huw. cbn [fst snd] in Huw. apply andb_prop in Huw. destruct Huw as [Hu _].
  pose proof (wf_unit_tokens_nonempty u Hu) as H1. specialize (IH Hus).
  destruct us as [|uw us'].
  - cbn [tokens_units length]. lia.
  - change (tokens_units ((u, w) :: uw :: us')) with (tokens_unit u ++ TUnitSeparator :: tokens_units (uw :: us')).
    rewrite app_length. cbn [length] in *. lia.
Qed.

Lemma wf_msg_units : forall m, wf_msg m = true -> forallb wf_uw (m_units m) = true /\ m_units m <> [].
Proof.
  intros m Hwf. unfold wf_msg in Hwf. apply andb_prop in Hwf. destruct Hwf as [Hwf Hus].
  apply andb_prop in Hwf. destruct Hwf as [_ Hne]. split; [exact Hus|].
  intros E. rewrite E in Hne. discriminate Hne.
Qed.

(* ------------------------------------------------------------------ *)
(* 6. the theorems                                                     *)
(* ------------------------------------------------------------------ *)
Theorem message_semantics_tokens : forall (root : tree D) (m : msg) (d : D) (f : fmt),
  wf_tree root -> wf_msg m = true ->
  exists s e, run_tokens root (map IOk (tokens_of m)) d f = Val (s, e) /\
    (x_dev s, x_fmt s, x_trace s, e) = spec_units root root (m_units m) d f [].
Proof.
  intros root m d f Hwf Hm. destruct (wf_msg_units m Hm) as [Hus Hne].
  unfold run_tokens, tokens_of. apply loop_spec; try assumption.
  - apply all_subtrees_self.
  - rewrite map_length. pose proof (units_tokens_length _ Hus). lia.
Qed.

Theorem message_semantics : forall (root : tree D) (m : msg) (d : D) (f : fmt),
  wf_tree root -> wf_msg m = true ->
  run root (render_msg m) d f = Val (spec_message root m d f).
Proof.
  intros root m d f Hwf Hm. unfold run. rewrite (lex_faithful m Hm). cbn [obind].
  destruct (message_semantics_tokens root m d f Hwf Hm) as [s [e [Hr Hs]]].
  rewrite Hr. cbn [obind]. unfold spec_message. rewrite <- Hs. reflexivity.
Qed.

Lemma spec_unit_ext : forall (root ctx : tree D) u1 u2 d f tr,
  u_header u1 = u_header u2 -> unit_data u1 = unit_data u2 ->
  spec_unit root ctx u1 d f tr = spec_unit root ctx u2 d f tr.
Proof. intros root ctx u1 u2 d f tr Hh Hd. unfold spec_unit. rewrite Hh, Hd. reflexivity. Qed.

Lemma spec_units_ext : forall (root : tree D) us1 us2 ctx d f tr,
  map (fun uw => (u_header (fst uw), unit_data (fst uw))) us1
    = map (fun uw => (u_header (fst uw), unit_data (fst uw))) us2 ->
  spec_units root ctx us1 d f tr = spec_units root ctx us2 d f tr.
Proof.
  intros root. induction us1 as [|[u1 w1] us1 IH]; intros [|[u2 w2] us2] ctx d f tr H; try discriminate H.
  - reflexivity.
  - cbn [map fst] in H. injection H as Hh Hd Hrest. cbn [spec_units].
    rewrite (spec_unit_ext root ctx u1 u2 d f tr Hh Hd).
    destruct (spec_unit root ctx u2 d f tr); [apply IH; exact Hrest|reflexivity].
Qed.

Corollary layout_independent : forall (root : tree D) m1 m2 d f, wf_tree root -> wf_msg m1 = true -> wf_msg m2 = true ->
  map (fun uw => (u_header (fst uw), unit_data (fst uw))) (m_units m1)
    = map (fun uw => (u_header (fst uw), unit_data (fst uw))) (m_units m2) ->
  run root (render_msg m1) d f = run root (render_msg m2) d f.
Proof.
  intros root m1 m2 d f Hwf H1 H2 Heq. rewrite !message_semantics by assumption.
  unfold spec_message. rewrite (spec_units_ext root _ _ root d f [] Heq). reflexivity.
Qed.

(* ---- consequences read off the specification ---- *)
Lemma spec_unit_trace : forall (root ctx : tree D) u d f tr,
  match spec_unit root ctx u d f tr with
  | UOk _ _ _ tr' => exists a, tr' = tr ++ [a]
  | UErr _ _ _ tr' => tr' = tr \/ exists a, tr' = tr ++ [a]
  end.
Proof.
  intros root ctx u d f tr. rewrite spec_unit_call. cbv zeta.
  destruct (desig _ _ _) as [|[c ctx'] l]; [left; reflexivity|].
  unfold spec_call. destruct (h_query (u_header u)).
  - destruct (response_unit f); [|left; reflexivity].
    destruct (spec_prog _ _ _ _) as [[[rest d1] f1] [x|]]; [right; eexists; reflexivity|].
    destruct rest; [|right]; eexists; reflexivity.
  - destruct (spec_prog _ _ _ _) as [[[rest d1] f1] [x|]]; [right; eexists; reflexivity|].
    destruct rest; [|right]; eexists; reflexivity.
Qed.

Theorem spec_units_ok_trace : forall (root ctx : tree D) us d f tr d' f' tr',
  spec_units root ctx us d f tr = (d', f', tr', None) -> length tr' = (length tr + length us)%nat.
Proof.
  intros root ctx us. revert ctx. induction us as [|[u w] us IH]; intros ctx d f tr d' f' tr' H; cbn [spec_units] in H.
  - destruct (buf f); [|destruct (message_end f)]; inversion H; subst; cbn; lia.
  - pose proof (spec_unit_trace root ctx u d f tr) as Ht.
    destruct (spec_unit root ctx u d f tr) as [c1 d1 f1 tr1|e1 d1 f1 tr1]; [|discriminate H].
    destruct Ht as [a ->]. apply IH in H. rewrite H, app_length. cbn. lia.
Qed.

Theorem spec_units_err_trace : forall (root ctx : tree D) us d f tr d' f' tr' e,
  spec_units root ctx us d f tr = (d', f', tr', Some e) -> (length tr' <= length tr + length us)%nat.
Proof.
  intros root ctx us. revert ctx. induction us as [|[u w] us IH]; intros ctx d f tr d' f' tr' e H; cbn [spec_units] in H.
  - destruct (buf f); [|destruct (message_end f)]; inversion H; subst; cbn; lia.
  - pose proof (spec_unit_trace root ctx u d f tr) as Ht.
    destruct (spec_unit root ctx u d f tr) as [c1 d1 f1 tr1|e1 d1 f1 tr1].
    + destruct Ht as [a ->]. apply IH in H. rewrite app_length in H. cbn in *. lia.
    + inversion H; subst. destruct Ht as [->|[a ->]]; [|rewrite app_length]; cbn; lia.
Qed.

Theorem spec_units_trace_extends : forall (root ctx : tree D) us d f tr d' f' tr' e,
  spec_units root ctx us d f tr = (d', f', tr', e) -> exists added, tr' = tr ++ added.
Proof.
  intros root ctx us. revert ctx. induction us as [|[u w] us IH]; intros ctx d f tr d' f' tr' e H; cbn [spec_units] in H.
  - exists []. rewrite app_nil_r. destruct (buf f); [|destruct (message_end f)]; inversion H; reflexivity.
  - pose proof (spec_unit_trace root ctx u d f tr) as Ht.
    destruct (spec_unit root ctx u d f tr) as [c1 d1 f1 tr1|e1 d1 f1 tr1].
    + destruct Ht as [a ->]. apply IH in H. destruct H as [added ->]. exists ([a] ++ added).
      rewrite app_assoc. reflexivity.
    + inversion H; subst. destruct Ht as [->|[a ->]]; [exists []; rewrite app_nil_r|exists [a]]; reflexivity.
Qed.

End MessageProofs.

Print Assumptions message_semantics.
Print Assumptions message_semantics_tokens.
Print Assumptions layout_independent.
Print Assumptions spec_units_ok_trace.
Print Assumptions spec_units_err_trace.
Print Assumptions spec_units_trace_extends.
Print Assumptions spec_prog_consumes_prefix.
