(* Proofs for C12: the error queue is a bounded FIFO marked by -350. *)
From Coq Require Import Lia.
From VF Require Import Base Gen_Errors Queue.

Section P.
  Variable A : Type.
  Variable ovf : A.
  Notation aq_push := (aq_push A ovf).
  Notation q_step := (q_step A ovf).
  Notation q_run := (q_run A ovf).

  (* --- single step facts --- *)
  Lemma aq_push_room : forall cap q e,
    (length q < cap)%nat -> aq_push cap q e = Val (q ++ [e]).
  Proof.
    intros cap q e H. unfold Queue.aq_push.
    destruct (Nat.ltb_spec (length q) cap); [reflexivity|lia].
  Qed.

  Lemma removelast_firstn_len : forall (q : list A),
    removelast q = firstn (length q - 1) q.
  Proof.
    induction q as [|x q IH]; [reflexivity|].
    destruct q as [|y q]; [reflexivity|].
    change (removelast (x :: y :: q)) with (x :: removelast (y :: q)).
    rewrite IH. cbn [length]. replace (S (S (length q)) - 1)%nat with (S (S (length q) - 1)) by lia.
    reflexivity.
  Qed.

  (* once full: the new error is dropped, the newest retained slot reads
     overflow, the cap-1 older entries are unchanged and in order *)
  Lemma aq_push_full : forall cap q e,
    (1 <= cap)%nat -> length q = cap ->
    aq_push cap q e = Val (firstn (cap - 1) q ++ [ovf]).
  Proof.
    intros cap q e Hc Hl. unfold Queue.aq_push.
    destruct (Nat.ltb_spec (length q) cap); [lia|].
    destruct q as [|x q]; [cbn in Hl; lia|].
    rewrite removelast_firstn_len, Hl. reflexivity.
  Qed.

  Lemma aq_push_len : forall cap q e q',
    (1 <= cap)%nat -> (length q <= cap)%nat -> aq_push cap q e = Val q' ->
    (length q' <= cap)%nat /\ (length q' = if Nat.ltb (length q) cap then S (length q) else cap).
  Proof.
    intros cap q e q' Hc Hl H. unfold Queue.aq_push in H.
    destruct (Nat.ltb_spec (length q) cap).
    - inversion H; subst. rewrite app_length. cbn. lia.
    - destruct q as [|x q]; [discriminate|]. remember (x :: q) as l eqn:El.
      injection H as <-.
      rewrite app_length, removelast_firstn_len, firstn_length. cbn [length] in *. lia.
  Qed.

  Lemma aq_push_no_panic : forall cap q e, (1 <= cap)%nat -> exists q', aq_push cap q e = Val q'.
  Proof.
    intros cap q e Hc. unfold Queue.aq_push.
    destruct (Nat.ltb_spec (length q) cap); [eauto|].
    destruct q; [cbn in *; lia|eauto].
  Qed.

  Lemma q_pop_head : forall q, Queue.q_pop A q = (hd_error q, tl q).
  Proof. destruct q; reflexivity. Qed.

  (* --- invariant over every history: bounded, total --- *)
  Lemma q_step_bounded : forall cap q o,
    (1 <= cap)%nat -> (length q <= cap)%nat ->
    exists q' out, q_step (Some cap) q o = Val (q', out) /\ (length q' <= cap)%nat.
  Proof.
    intros cap q o Hc Hl. destruct o as [e| | |]; cbn [Queue.q_step].
    - destruct (aq_push_no_panic cap q e Hc) as [q' Hq]. rewrite Hq. cbn [obind].
      exists q', []. split; [reflexivity|]. eapply aq_push_len; eauto.
    - destruct q as [|x q]; cbn [Queue.q_pop]; eexists; eexists; (split; [reflexivity|]); cbn in *; lia.
    - exists [], []. split; [reflexivity|]. cbn. lia.
    - eexists; eexists. split; [reflexivity|]. assumption.
  Qed.

  Theorem aq_bounded : forall cap ops q,
    (1 <= cap)%nat -> (length q <= cap)%nat ->
    exists q' out, q_run (Some cap) q ops = Val (q', out) /\ (length q' <= cap)%nat.
  Proof.
    intros cap ops. induction ops as [|o ops IH]; intros q Hc Hl.
    - exists q, []. split; [reflexivity|assumption].
    - cbn [Queue.q_run].
      destruct (q_step_bounded cap q o Hc Hl) as (q1 & out1 & H1 & Hl1). rewrite H1. cbn [obind].
      destruct (IH q1 Hc Hl1) as (q2 & out2 & H2 & Hl2). rewrite H2. cbn [obind].
      eauto.
  Qed.

  (* every reported length is the exact number of entries held at that moment:
     by construction of q_step (OLen (length q)); stated for the record *)
  Lemma q_len_exact : forall cap q, q_step cap q QLen = Val (q, [OLen (length q)]).
  Proof. reflexivity. Qed.

  (* --- the Vec queue IS the unbounded FIFO --- *)
  (* ghost history: pushes since the last clear, pops since the last clear *)
  Fixpoint pushed_since_clear (ops : list (qop A)) (acc : list A) : list A :=
    match ops with
    | [] => acc
    | QPush e :: ops' => pushed_since_clear ops' (acc ++ [e])
    | QClear :: ops' => pushed_since_clear ops' []
    | _ :: ops' => pushed_since_clear ops' acc
    end.

  Definition popped_of (out : list (qout A)) : list A :=
    flat_map (fun o => match o with OPop (Some e) => [e] | _ => [] end) out.

  (* With no clear in the history: everything popped, followed by what is still
     queued, is exactly what was pushed, in order. *)
  Fixpoint no_clear (ops : list (qop A)) : bool :=
    match ops with [] => true | QClear :: _ => false | _ :: ops' => no_clear ops' end.
  Fixpoint pushes_of (ops : list (qop A)) : list A :=
    match ops with [] => [] | QPush e :: ops' => e :: pushes_of ops' | _ :: ops' => pushes_of ops' end.

  Theorem vq_fifo : forall ops q q' out,
    no_clear ops = true -> q_run None q ops = Val (q', out) ->
    popped_of out ++ q' = q ++ pushes_of ops.
  Proof.
    induction ops as [|o ops IH]; intros q q' out Hn H.
    - cbn in H. inversion H; subst. cbn. rewrite app_nil_r. reflexivity.
    - cbn [Queue.q_run] in H. destruct o as [e| | |]; cbn [Queue.q_step obind] in H.
      + destruct (q_run None (Queue.vq_push A q e) ops) as [[q2 out2]|] eqn:E; [|discriminate].
        cbn [obind] in H. inversion H; subst. cbn [app].
        rewrite (IH _ _ _ Hn E). unfold Queue.vq_push. cbn [pushes_of]. rewrite <- app_assoc. reflexivity.
      + destruct q as [|x q]; cbn [Queue.q_pop obind] in H.
        * destruct (q_run None [] ops) as [[q2 out2]|] eqn:E; [|discriminate].
          cbn [obind] in H. inversion H; subst. cbn [pushes_of popped_of flat_map app].
          apply (IH _ _ _ Hn E).
        * destruct (q_run None q ops) as [[q2 out2]|] eqn:E; [|discriminate].
          cbn [obind] in H. inversion H; subst. cbn [pushes_of popped_of flat_map app].
          change (flat_map _ out2) with (popped_of out2).
          f_equal. apply (IH _ _ _ Hn E).
      + discriminate.
      + destruct (q_run None q ops) as [[q2 out2]|] eqn:E; [|discriminate].
        cbn [obind] in H. inversion H; subst. cbn [pushes_of popped_of flat_map app].
        apply (IH _ _ _ Hn E).
  Qed.

  (* A clear simply restarts the history. *)
  Lemma q_run_app : forall cap ops1 ops2 q,
    q_run cap q (ops1 ++ ops2) =
    (let* (q1, o1) := q_run cap q ops1 in
     let* (q2, o2) := q_run cap q1 ops2 in Val (q2, o1 ++ o2)).
  Proof.
    induction ops1 as [|o ops1 IH]; intros ops2 q.
    - cbn. destruct (q_run cap q ops2) as [[q2 o2]|]; reflexivity.
    - cbn [app Queue.q_run]. destruct (q_step cap q o) as [[q1 out1]|]; [|reflexivity].
      cbn [obind]. rewrite IH. destruct (q_run cap q1 ops1) as [[q1' o1']|]; [|reflexivity].
      cbn [obind]. destruct (q_run cap q1' ops2) as [[q2 o2]|]; [|reflexivity].
      cbn [obind]. rewrite app_assoc. reflexivity.
  Qed.

  Lemma q_clear_restarts : forall cap ops q, (forall c, cap = Some c -> (1 <= c)%nat) ->
    q_run cap q (QClear :: ops) = q_run cap [] ops.
  Proof.
    intros. cbn [Queue.q_run Queue.q_step obind].
    destruct (q_run cap [] ops) as [[q2 o2]|]; reflexivity.
  Qed.

  (* --- the bounded queue refines the unbounded FIFO while it never overflows --- *)
  (* [fits cap q ops]: no push in the history finds the queue full *)
  Fixpoint fits (cap : nat) (n : nat) (ops : list (qop A)) : bool :=
    match ops with
    | [] => true
    | QPush _ :: ops' => Nat.ltb n cap && fits cap (S n) ops'
    | QPop :: ops' => fits cap (Nat.pred n) ops'
    | QClear :: ops' => fits cap 0 ops'
    | QLen :: ops' => fits cap n ops'
    end.

  Theorem aq_refines_fifo : forall cap ops q,
    fits cap (length q) ops = true -> q_run (Some cap) q ops = q_run None q ops.
  Proof.
    intros cap ops. induction ops as [|o ops IH]; intros q Hf; [reflexivity|].
    cbn [Queue.q_run]. destruct o as [e| | |]; cbn [fits] in Hf; cbn [Queue.q_step].
    - apply andb_prop in Hf. destruct Hf as [Hlt Hf]. apply Nat.ltb_lt in Hlt.
      rewrite (aq_push_room cap q e Hlt). cbn [obind]. unfold Queue.vq_push.
      rewrite IH; [reflexivity|]. rewrite app_length. cbn. replace (length q + 1)%nat with (S (length q)) by lia.
      assumption.
    - destruct q as [|x q]; cbn [Queue.q_pop obind]; rewrite IH; auto.
    - cbn [obind]. rewrite IH; auto.
    - cbn [obind]. rewrite IH; auto.
  Qed.

  (* --- order preservation in general (with overflows and clears) ---
     Everything ever popped or still queued, minus overflow markers, is a
     subsequence (same relative order) of what was pushed. *)
  Variable is_ovf : A -> bool.
  Hypothesis is_ovf_ovf : is_ovf ovf = true.

  Inductive sublist : list A -> list A -> Prop :=
  | sub_nil : forall l, sublist [] l
  | sub_skip : forall s x l, sublist s l -> sublist s (x :: l)
  | sub_take : forall s x l, sublist s l -> sublist (x :: s) (x :: l).

  Definition keep (l : list A) : list A := filter (fun a => negb (is_ovf a)) l.

  Lemma sublist_refl : forall l, sublist l l.
  Proof. induction l; [constructor|apply sub_take; assumption]. Qed.
  Lemma sublist_app_r : forall s l x, sublist s l -> sublist s (l ++ x).
  Proof. induction 1; cbn; [apply sub_nil|apply sub_skip; assumption|apply sub_take; assumption]. Qed.
  Lemma sublist_trans : forall a b c, sublist a b -> sublist b c -> sublist a c.
  Proof.
    intros a b c Hab Hbc. revert a Hab. induction Hbc; intros a Hab.
    - inversion Hab; subst. constructor.
    - constructor. auto.
    - inversion Hab; subst; [apply sub_nil|apply sub_skip; auto|apply sub_take; auto].
  Qed.
  Lemma sublist_app2 : forall a b c d, sublist a b -> sublist c d -> sublist (a ++ c) (b ++ d).
  Proof.
    induction 1; intros Hcd; cbn.
    - induction l; cbn; [assumption|apply sub_skip; assumption].
    - apply sub_skip. auto.
    - apply sub_take. auto.
  Qed.
  Lemma keep_app : forall a b, keep (a ++ b) = keep a ++ keep b.
  Proof. intros. unfold keep. apply filter_app. Qed.
  Lemma sublist_firstn : forall n (l : list A), sublist (firstn n l) l.
  Proof.
    induction n; intros l; cbn; [constructor|]. destruct l; [constructor|]. apply sub_take. apply IHn.
  Qed.
  Lemma sublist_filter : forall (f : A -> bool) a b, sublist a b -> sublist (filter f a) (filter f b).
  Proof.
    induction 1; cbn.
    - constructor.
    - destruct (f x); [apply sub_skip|]; assumption.
    - destruct (f x); [apply sub_take|]; assumption.
  Qed.

  Lemma aq_push_sub : forall cap q e q',
    aq_push cap q e = Val q' -> sublist (keep q') (keep (q ++ [e])).
  Proof.
    intros cap q e q' H. unfold Queue.aq_push in H.
    destruct (Nat.ltb (length q) cap).
    - inversion H; subst. apply sublist_refl.
    - destruct q as [|x q]; [discriminate|]. remember (x :: q) as l eqn:El.
      injection H as <-.
      rewrite !keep_app. cbn [keep filter]. rewrite is_ovf_ovf. cbn [negb]. rewrite app_nil_r.
      apply sublist_app_r. apply sublist_filter.
      rewrite removelast_firstn_len. apply sublist_firstn.
  Qed.

  Theorem aq_order_preserved : forall cap ops q q' out,
    q_run (Some cap) q ops = Val (q', out) ->
    sublist (keep (popped_of out ++ q')) (keep (q ++ pushes_of ops)).
  Proof.
    intros cap ops. induction ops as [|o ops IH]; intros q q' out H.
    - cbn in H. inversion H; subst. cbn. rewrite app_nil_r. apply sublist_refl.
    - cbn [Queue.q_run] in H. destruct o as [e| | |]; cbn [Queue.q_step] in H.
      + destruct (aq_push cap q e) as [q1|] eqn:E1; [|discriminate]. cbn [obind] in H.
        destruct (q_run (Some cap) q1 ops) as [[q2 out2]|] eqn:E2; [|discriminate].
        cbn [obind] in H. inversion H; subst. cbn [app pushes_of].
        eapply sublist_trans; [apply (IH _ _ _ E2)|].
        rewrite !keep_app.
        replace (keep q ++ keep (e :: pushes_of ops)) with (keep (q ++ [e]) ++ keep (pushes_of ops)).
        2:{ rewrite keep_app, <- app_assoc. f_equal.
            change (e :: pushes_of ops) with ([e] ++ pushes_of ops). rewrite keep_app. reflexivity. }
        apply sublist_app2; [|apply sublist_refl]. eapply aq_push_sub; eassumption.
      + destruct q as [|x q]; cbn [Queue.q_pop obind] in H.
        * destruct (q_run (Some cap) [] ops) as [[q2 out2]|] eqn:E2; [|discriminate].
          cbn [obind] in H. inversion H; subst. apply (IH _ _ _ E2).
        * destruct (q_run (Some cap) q ops) as [[q2 out2]|] eqn:E2; [|discriminate].
          cbn [obind] in H. inversion H; subst. cbn [pushes_of popped_of flat_map app].
          change (flat_map _ out2) with (popped_of out2).
          specialize (IH _ _ _ E2). cbn [keep filter] in *.
          destruct (negb (is_ovf x)); [apply sub_take|]; exact IH.
      + cbn [obind] in H.
        destruct (q_run (Some cap) [] ops) as [[q2 out2]|] eqn:E2; [|discriminate].
        cbn [obind] in H. inversion H; subst. cbn [pushes_of app].
        eapply sublist_trans; [apply (IH _ _ _ E2)|]. cbn [app].
        rewrite keep_app. induction (keep q); cbn; [apply sublist_refl|apply sub_skip; assumption].
      + cbn [obind] in H.
        destruct (q_run (Some cap) q ops) as [[q2 out2]|] eqn:E2; [|discriminate].
        cbn [obind] in H. inversion H; subst. cbn [pushes_of popped_of flat_map app].
        apply (IH _ _ _ E2).
  Qed.
End P.

(* capacity 0 is genuinely outside the property: the model panics there, as the code does *)
Example aq_cap0_panics : exists s, aq_push error queue_overflow_error 0 [] (std_error (-100)%Z) = Panic s.
Proof. eexists. reflexivity. Qed.
