(* Lexer_proofs.v — proofs about Lexer.v *)
From VF Require Import Base Gen_Errors Lexer.
From Coq Require Import Lia ZifyBool ZifyN ZifyNat.
Open Scope N_scope.

Lemma skip_while_suffix : forall p c, exists pre, c = pre ++ skip_while p c.
Proof.
  induction c as [|x c IH]; cbn [skip_while].
  - exists []; reflexivity.
  - destruct (p x).
    + destruct IH as [pre H]. exists (x :: pre). cbn. congruence.
    + exists []; reflexivity.
Qed.
