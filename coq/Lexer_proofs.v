(* Lexer_proofs.v — proofs about Lexer.v: totality, progress, error classes and
   rejection lemmas of the tokenizer model. *)
From VF Require Import Base Gen_Errors Lexer.
From Coq Require Import Lia ZifyBool ZifyN ZifyNat.
Open Scope N_scope.

Lemma skip_while_suffix : forall p c, exists pre, c = pre ++ skip_while p c.
Proof.
  induction c as [|x c IH]; cbn [skip_while].
  - exists []; reflexivity.
  - destruct (p x).
    + destruct IH as [pre H]. exists (x :: pre). cbn. congruence.
    + exists []; reflexivity.
Qed.

(* ------------------------------------------------------------------ *)
(* error classes *)

Definition eclass (e : Z) : Prop := (-199 <= e <= -100)%Z \/ e = DataOutOfRange.

Ltac ec :=
  subst; unfold eclass;
  cbv delta [InvalidCharacter SyntaxError InvalidSeparator CommandHeaderError HeaderSeparatorError
             ProgramMnemonicTooLong NumericDataError InvalidCharacterInNumber InvalidSuffix
             SuffixTooLong SuffixNotAllowed InvalidCharacterData CharacterDataTooLong
             InvalidStringData BlockDataError InvalidBlockData InvalidExpression DataOutOfRange];
  lia.

(* a reader result: no panic; Ok leaves at most n bytes; Err is of the right class *)
Definition good (n : nat) (r : outcome lres) : Prop :=
  exists x, r = Val x /\
    match x with Ok (_, rest) => (length rest <= n)%nat | Err e => eclass e end.

Lemma good_err n e : eclass e -> good n (Val (Err e)).
Proof. intros H. exists (Err e). split; [reflexivity|exact H]. Qed.

Lemma good_ok n t rest : (length rest <= n)%nat -> good n (Val (Ok (t, rest))).
Proof. intros H. exists (Ok (t, rest)). split; [reflexivity|exact H]. Qed.

(* ------------------------------------------------------------------ *)
(* util *)

Lemma skip_while_len p c : (length (skip_while p c) <= length c)%nat.
Proof.
  induction c as [|a c IH]; cbn [skip_while length]; [lia|].
  destruct (p a); cbn [length]; lia.
Qed.

Lemma skip_ws_len c : (length (skip_ws c) <= length c)%nat.
Proof. apply skip_while_len. Qed.

Lemma skip_sign_len c : (length (skip_sign c) <= length c)%nat.
Proof.
  destruct c as [|x c]; cbn [skip_sign length]; [lia|].
  destruct (is_sign x); cbn [length]; lia.
Qed.

Lemma scan12_len p : forall c n r, scan12 p n c = Some r -> (length r <= length c)%nat.
Proof.
  induction c as [|a c IH]; intros n r H; cbn [scan12] in H.
  - inversion H; subst; cbn [length]; lia.
  - destruct (p a).
    + destruct (Nat.ltb 12 (S n)); [discriminate|].
      apply IH in H. cbn [length]; lia.
    + inversion H; subst; lia.
Qed.

Lemma scan12_len_strict p x c n r :
  scan12 p n (x :: c) = Some r -> p x = true -> (length r <= length c)%nat.
Proof.
  intros H Hx. cbn [scan12] in H. rewrite Hx in H.
  destruct (Nat.ltb 12 (S n)); [discriminate|].
  apply scan12_len in H. exact H.
Qed.

Lemma consumed_ok (s rest : list byte) k :
  (length rest + k <= length s)%nat -> exists p, consumed s rest k = Val p.
Proof.
  intros H. unfold consumed, usub.
  destruct (Nat.ltb (length s) (length rest)) eqn:E1; [apply Nat.ltb_lt in E1; lia|].
  cbn [obind].
  destruct (Nat.ltb (length s - length rest) k) eqn:E2; [apply Nat.ltb_lt in E2; lia|].
  cbn [obind]. unfold slice_to.
  destruct (Nat.ltb (length s) (length s - length rest - k)) eqn:E3; [apply Nat.ltb_lt in E3; lia|].
  eauto.
Qed.

Lemma sws_sep err c :
  match skip_ws_to_separator err c with
  | Ok r => (length r <= length c)%nat
  | Err e => e = err
  end.
Proof.
  unfold skip_ws_to_separator. pose proof (skip_ws_len c) as H.
  cbv zeta. destruct (skip_ws c) as [|x r]; [cbn [length]; lia|].
  destruct (negb (x =? 44) && negb (x =? 59) && negb (x =? 10)); [reflexivity|exact H].
Qed.

Lemma good_sws n err (rest : list byte) (f : list byte -> token) :
  eclass err -> (length rest <= n)%nat ->
  good n (match skip_ws_to_separator err rest with
          | Err e => Val (Err e)
          | Ok rest' => Val (Ok (f rest', rest'))
          end).
Proof.
  intros He Hn. pose proof (sws_sep err rest) as H.
  destruct (skip_ws_to_separator err rest) as [r|e].
  - apply good_ok. lia.
  - apply good_err. subst. exact He.
Qed.

(* ------------------------------------------------------------------ *)
(* readers *)

Lemma read_mnemonic_strict common x c :
  ((x =? 42) && common = true \/ is_mnemonic_char x = true) ->
  good (length c) (read_mnemonic common (x :: c)).
Proof.
  intros H. unfold read_mnemonic. cbv zeta.
  destruct ((x =? 42) && common) eqn:E.
  - destruct (scan12 is_mnemonic_char 0 c) as [r|] eqn:S.
    + apply scan12_len in S.
      destruct (consumed_ok (x :: c) r 0) as [p Hp]; [cbn [length]; lia|].
      rewrite Hp. cbn [obind]. apply good_ok. exact S.
    + apply good_err. ec.
  - destruct H as [H|H]; [discriminate|].
    destruct (scan12 is_mnemonic_char 0 (x :: c)) as [r|] eqn:S.
    + apply scan12_len_strict in S; [|exact H].
      destruct (consumed_ok (x :: c) r 0) as [p Hp]; [cbn [length]; lia|].
      rewrite Hp. cbn [obind]. apply good_ok. exact S.
    + apply good_err. ec.
Qed.

Lemma read_character_data_strict x c :
  is_mnemonic_char x = true -> good (length c) (read_character_data (x :: c)).
Proof.
  intros H. unfold read_character_data.
  destruct (scan12 is_mnemonic_char 0 (x :: c)) as [r|] eqn:S.
  - apply scan12_len_strict in S; [|exact H].
    destruct (consumed_ok (x :: c) r 0) as [p Hp]; [cbn [length]; lia|].
    rewrite Hp. cbn [obind].
    apply (good_sws (length c) InvalidCharacterData r (fun _ => TChar p)); [ec|exact S].
  - apply good_err. ec.
Qed.

Lemma read_exponent_len c :
  match read_exponent c with
  | Ok r => (length r <= length c)%nat
  | Err e => e = NumericDataError
  end.
Proof.
  destruct c as [|x c]; cbn [read_exponent]; [cbn [length]; lia|].
  destruct ((x =? 69) || (x =? 101)); [|lia].
  unfold skip_digits.
  destruct (match skip_sign c with [] => false | y :: _ => is_digit y end); [|reflexivity].
  pose proof (skip_while_len is_digit (skip_sign c)). pose proof (skip_sign_len c).
  cbn [length]; lia.
Qed.

Definition hd_eqb (k : N) (c : list byte) : bool :=
  match c with y :: _ => y =? k | [] => false end.

Lemma skip_digits_spec s :
  (fst (skip_digits s) = false /\ snd (skip_digits s) = s) \/
  (fst (skip_digits s) = true /\ (length (snd (skip_digits s)) < length s)%nat).
Proof.
  unfold skip_digits. cbn [fst snd].
  destruct s as [|x s]; [left; split; reflexivity|].
  cbn [skip_while]. destruct (is_digit x).
  - right. split; [reflexivity|]. pose proof (skip_while_len is_digit s). cbn [length]; lia.
  - left. split; reflexivity.
Qed.

Lemma read_nrf_rest_eq c :
  read_nrf_rest c =
  let leading := fst (skip_digits (skip_sign c)) in
  let c2 := snd (skip_digits (skip_sign c)) in
  if hd_eqb 46 c2 then
    let frac := fst (skip_digits (tl c2)) in
    let c4 := snd (skip_digits (tl c2)) in
    if negb frac && negb leading then Err NumericDataError else read_exponent c4
  else if negb leading then Err NumericDataError else read_exponent c2.
Proof.
  unfold read_nrf_rest, skip_digits. cbv beta iota zeta. cbn [fst snd].
  destruct (skip_while is_digit (skip_sign c)) as [|y c3]; [reflexivity|].
  destruct y as [|p]; [reflexivity|].
  do 6 (destruct p as [p|p|]; try reflexivity).
Qed.

Lemma read_nrf_rest_len c :
  match read_nrf_rest c with
  | Ok r => (length r < length c)%nat
  | Err e => e = NumericDataError
  end.
Proof.
  rewrite read_nrf_rest_eq. cbv zeta.
  pose proof (skip_sign_len c) as Hs.
  destruct (skip_digits_spec (skip_sign c)) as [[Hl Hc]|[Hl Hc]]; rewrite Hl.
  - (* no leading digits *)
    rewrite Hc. cbn [negb]. rewrite andb_true_r.
    destruct (hd_eqb 46 (skip_sign c)) eqn:E46; [|reflexivity].
    destruct (skip_sign c) as [|y c3] eqn:Ec; [discriminate|]. cbn [tl].
    destruct (skip_digits_spec c3) as [[Hf Hd]|[Hf Hd]]; rewrite Hf; cbn [negb]; [reflexivity|].
    pose proof (read_exponent_len (snd (skip_digits c3))) as He.
    destruct (read_exponent (snd (skip_digits c3))); [|exact He].
    cbn [length] in *. lia.
  - cbn [negb]. rewrite andb_false_r.
    set (c2 := snd (skip_digits (skip_sign c))) in *.
    destruct (hd_eqb 46 c2) eqn:E46.
    + destruct c2 as [|y c3] eqn:Ec; [discriminate|]. cbn [tl].
      pose proof (skip_while_len is_digit c3) as Hd.
      unfold skip_digits at 1. cbn [snd].
      pose proof (read_exponent_len (skip_while is_digit c3)) as He.
      destruct (read_exponent (skip_while is_digit c3)); [|exact He].
      cbn [length] in *. lia.
    + pose proof (read_exponent_len c2) as He.
      destruct (read_exponent c2); [|exact He]. lia.
Qed.

Lemma read_suffix_data_good v c : good (length c) (read_suffix_data v c).
Proof.
  unfold read_suffix_data.
  destruct (scan12 is_suffix_char 0 c) as [r|] eqn:S.
  - apply scan12_len in S.
    destruct (consumed_ok c r 0) as [p Hp]; [lia|].
    rewrite Hp. cbn [obind].
    apply (good_sws (length c) InvalidSuffix r (fun _ => TDecSuffix v p)); [ec|exact S].
  - apply good_err. ec.
Qed.

Lemma good_mono n m r : (n <= m)%nat -> good n r -> good m r.
Proof.
  intros H [x [E G]]. exists x. split; [exact E|].
  destruct x as [[t rest]|e]; [lia|exact G].
Qed.

Lemma read_numeric_data_good c n : (length c <= S n)%nat -> good n (read_numeric_data c).
Proof.
  intros Hn. unfold read_numeric_data.
  pose proof (read_nrf_rest_len c) as H.
  destruct (read_nrf_rest c) as [rest|e]; [|apply good_err; ec].
  destruct (consumed_ok c rest 0) as [s Hs]; [lia|].
  rewrite Hs. cbn [obind]. cbv zeta.
  pose proof (skip_ws_len rest) as Hw.
  destruct (skip_ws rest) as [|x r'] eqn:E; [apply good_ok; cbn [length]; lia|].
  destruct (is_alpha x || (x =? 47)).
  - apply good_mono with (n := length (x :: r')); [lia|]. apply read_suffix_data_good.
  - apply (good_sws n InvalidSuffix (x :: r') (fun _ => TDec s)); [ec|lia].
Qed.

Lemma radix_digits_len radix : forall c acc n,
  (snd (radix_digits radix c acc n) <= n + length c)%nat.
Proof.
  induction c as [|x c IH]; intros acc n; cbn [radix_digits length snd]; [lia|].
  destruct (ascii_to_digit x radix) as [d|]; [|cbn [snd]; lia].
  specialize (IH (acc * radix + d) (S n)). lia.
Qed.

Lemma parse_partial_u64_eq radix c :
  parse_partial_u64 radix c =
  if hd_eqb 45 c || hd_eqb 43 c then inl LexOther
  else let '(v, n) := radix_digits radix c 0 0 in
       if u64_max <? v then inl LexOverflow else inr (v, n).
Proof.
  destruct c as [|y c]; [reflexivity|].
  destruct y as [|p]; [reflexivity|].
  do 6 (destruct p as [p|p|]; try reflexivity).
Qed.

Lemma parse_partial_u64_len radix c v n :
  parse_partial_u64 radix c = inr (v, n) -> (n <= length c)%nat.
Proof.
  rewrite parse_partial_u64_eq.
  destruct (hd_eqb 45 c || hd_eqb 43 c); [discriminate|].
  pose proof (radix_digits_len radix c 0 0) as H.
  destruct (radix_digits radix c 0 0) as [v0 n0]. cbn [snd] in H.
  destruct (u64_max <? v0); [discriminate|].
  intros E. inversion E; subst. lia.
Qed.

Lemma drop_unwrap_ok n (c : list byte) :
  (n <= length c)%nat -> drop_unwrap n c = Val (skipn n c).
Proof.
  intros H. unfold drop_unwrap.
  destruct (Nat.ltb (length c) n) eqn:E; [apply Nat.ltb_lt in E; lia|reflexivity].
Qed.

Lemma read_nondecimal_data_good radix c : good (length c) (read_nondecimal_data radix c).
Proof.
  unfold read_nondecimal_data. cbv zeta.
  assert (G : forall b, good (length c)
    match parse_partial_u64 b c with
    | inl LexInvalidDigit => Val (Err InvalidCharacterInNumber)
    | inl LexOverflow => Val (Err DataOutOfRange)
    | inl LexOther => Val (Err NumericDataError)
    | inr (v, len) =>
        if Nat.ltb 0 len
        then
         let* rest := drop_unwrap len c
         in match skip_ws_to_separator SuffixNotAllowed rest with
            | Ok rest' => Val (Ok (TNonDec v, rest'))
            | Err e => Val (Err e)
            end
        else Val (Err NumericDataError)
    end).
  { intros b. destruct (parse_partial_u64 b c) as [[| |]|[v n]] eqn:P; try (apply good_err; ec).
    apply parse_partial_u64_len in P.
    destruct (Nat.ltb 0 n); [|apply good_err; ec].
    rewrite (drop_unwrap_ok n c P). cbn [obind].
    apply (good_sws (length c) SuffixNotAllowed (skipn n c) (fun _ => TNonDec v)); [ec|].
    rewrite skipn_length. lia. }
  destruct ((radix =? 72) || (radix =? 104)); [apply G|].
  destruct ((radix =? 81) || (radix =? 113)); [apply G|].
  destruct ((radix =? 66) || (radix =? 98)); [apply G|].
  apply good_err; ec.
Qed.

Lemma string_loop_len q : forall n c, (length c <= n)%nat ->
  match string_loop q c with
  | Ok r => (S (length r) <= length c)%nat
  | Err e => e = InvalidStringData \/ e = InvalidCharacter
  end.
Proof.
  induction n as [|n IH]; intros c Hn.
  - destruct c; [cbn [string_loop]; left; reflexivity|cbn [length] in Hn; lia].
  - destruct c as [|ch c']; cbn [string_loop]; [left; reflexivity|].
    cbn [length] in Hn.
    destruct (ch =? q).
    + destruct c' as [|c2 c'']; [cbn [length]; lia|].
      destruct (c2 =? q); [|cbn [length]; lia].
      cbn [length] in Hn.
      specialize (IH c'' ltac:(lia)).
      destruct (string_loop q c''); [cbn [length]; lia|exact IH].
    + destruct (negb (is_ascii ch)); [right; reflexivity|].
      specialize (IH c' ltac:(lia)).
      destruct (string_loop q c'); [cbn [length]; lia|exact IH].
Qed.

Lemma read_string_data_good q s : good (length s) (read_string_data (q :: s)).
Proof.
  unfold read_string_data.
  pose proof (string_loop_len q (length s) s (le_n _)) as H.
  destruct (string_loop q s) as [rest|e].
  - destruct (consumed_ok s rest 1) as [p Hp]; [lia|].
    rewrite Hp. cbn [obind].
    apply (good_sws (length s) SuffixNotAllowed rest (fun _ => TString p)); [ec|lia].
  - apply good_err. destruct H; ec.
Qed.

Lemma read_arbitrary_data_good format c : good (length c) (read_arbitrary_data format c).
Proof.
  unfold read_arbitrary_data.
  destruct (ascii_to_digit format 10) as [len|]; [|apply good_err; ec].
  destruct len as [|p].
  - destruct c as [|y c']; [apply good_err; ec|].
    set (c := y :: c') in *.
    assert (Hc : length c = S (length c')) by reflexivity.
    unfold usub. destruct (Nat.ltb (length c) 1) eqn:E1; [apply Nat.ltb_lt in E1; lia|].
    cbn [obind]. unfold slice_to.
    destruct (Nat.ltb (length c) (length c - 1)) eqn:E2; [apply Nat.ltb_lt in E2; lia|].
    cbn [obind]. rewrite drop_unwrap_ok by lia. cbn [obind].
    pose proof (skipn_length (length c - 1) c) as Hk.
    destruct (skipn (length c - 1) c) as [|last rest']; [cbn [length] in Hk; lia|].
    destruct (last =? 10); [|apply good_err; ec].
    apply good_ok. cbn [length] in Hk. lia.
  - cbv zeta. set (l := N.to_nat (N.pos p)).
    destruct (Nat.ltb (length c) l) eqn:E1; [apply good_err; ec|].
    apply Nat.ltb_ge in E1.
    destruct (parse_usize (firstn l c)) as [plen|]; [|apply good_err; ec].
    rewrite drop_unwrap_ok by exact E1. cbn [obind].
    destruct (N.of_nat (length (skipn l c)) <? plen); [apply good_err; ec|].
    apply (good_sws (length c) SuffixNotAllowed (skipn (N.to_nat plen) (skipn l c))
             (fun _ => TBlock (firstn (N.to_nat plen) (skipn l c)))); [ec|].
    rewrite !skipn_length. lia.
Qed.

Lemma expr_loop_len c :
  match expr_loop c with
  | Ok r => (length r <= length c)%nat
  | Err e => e = InvalidExpression
  end.
Proof.
  induction c as [|x c IH]; cbn [expr_loop]; [cbn [length]; lia|].
  destruct (x =? 41); [lia|].
  destruct (expr_illegal x); [reflexivity|].
  destruct (expr_loop c); [cbn [length]; lia|exact IH].
Qed.

Lemma read_expression_data_good x s : good (length s) (read_expression_data (x :: s)).
Proof.
  unfold read_expression_data.
  pose proof (expr_loop_len s) as H.
  destruct (expr_loop s) as [rest|e]; [|apply good_err; ec].
  destruct (consumed_ok s rest 0) as [p Hp]; [lia|].
  rewrite Hp. cbn [obind].
  destruct rest as [|y rest1]; [apply good_err; ec|].
  apply (good_sws (length s) SuffixNotAllowed rest1 (fun _ => TExpr p)); [ec|].
  cbn [length] in H. lia.
Qed.

(* ------------------------------------------------------------------ *)
(* one step *)

Definition step_good (l : lexer) (s : step) : Prop :=
  match s with
  | SEnd => True
  | SErr e => eclass e
  | STok _ l' => (length (chars l') < length (chars l))%nat
  end.

Lemma of_lres_good hdr com n r l :
  good n r -> (n < length (chars l))%nat ->
  exists s, of_lres hdr com r = Val s /\ step_good l s.
Proof.
  intros [x [E G]] Hn. subst r. unfold of_lres. cbn [obind].
  eexists. split; [reflexivity|].
  destruct x as [[t rest]|e]; cbn [step_good chars]; [lia|exact G].
Qed.

Lemma ws_match (c0 : list byte) com :
  match skip_ws c0 with
  | 44 :: _ => Val (SErr SyntaxError)
  | r0 => Val (STok THeaderSeparator (mkLexer r0 false com))
  end =
  if hd_eqb 44 (skip_ws c0) then Val (SErr SyntaxError)
  else Val (STok THeaderSeparator (mkLexer (skip_ws c0) false com)).
Proof.
  generalize (skip_ws c0). intros r.
  destruct r as [|y c]; [reflexivity|].
  destruct y as [|p]; [reflexivity|].
  do 6 (destruct p as [p|p|]; try reflexivity).
Qed.

Ltac fin :=
  eexists; split; [reflexivity|]; cbn [step_good chars length] in *; first [exact I | ec | lia].

Lemma lex_next_good l : exists s, lex_next l = Val s /\ step_good l s.
Proof.
  destruct l as [c hdr com]. unfold lex_next. cbn [chars in_header in_common].
  destruct c as [|x rest]; [fin|]. cbv zeta.
  destruct (x =? 42) eqn:E42.
  { apply of_lres_good with (n := length rest); [|cbn [chars length]; lia].
    apply read_mnemonic_strict. left. rewrite E42. reflexivity. }
  destruct (x =? 58).
  { destruct rest as [|y r].
    - destruct (negb hdr || com); fin.
    - destruct (negb (is_alpha y)); [fin|]. destruct (negb hdr || com); fin. }
  destruct (x =? 63).
  { destruct (match rest with [] => false | y :: _ => negb (is_ws y) && negb (y =? 59) end); [fin|].
    destruct (negb hdr); fin. }
  destruct (x =? 59).
  { pose proof (skip_ws_len rest). fin. }
  destruct (x =? 10).
  { destruct rest; fin. }
  destruct (x =? 44).
  { destruct hdr; [fin|].
    pose proof (skip_ws_len rest) as Hw.
    destruct (skip_ws rest) as [|y r]; [fin|].
    destruct ((y =? 44) || (y =? 59) || (y =? 10)); fin. }
  destruct (is_ws x) eqn:Ews.
  { rewrite ws_match.
    assert (Hw : (length (skip_ws (x :: rest)) <= length rest)%nat).
    { unfold skip_ws. cbn [skip_while]. rewrite Ews. apply skip_while_len. }
    destruct (hd_eqb 44 (skip_ws (x :: rest))); fin. }
  destruct (is_alpha x) eqn:Eal.
  { assert (Hm : is_mnemonic_char x = true).
    { unfold is_mnemonic_char, is_alnum. rewrite Eal. reflexivity. }
    destruct hdr.
    - apply of_lres_good with (n := length rest); [|cbn [chars length]; lia].
      apply read_mnemonic_strict. right. exact Hm.
    - apply of_lres_good with (n := length rest); [|cbn [chars length]; lia].
      apply read_character_data_strict. exact Hm. }
  destruct (is_digit x || (x =? 45) || (x =? 43) || (x =? 46)).
  { destruct hdr; [fin|].
    apply of_lres_good with (n := length rest); [|cbn [chars length]; lia].
    apply read_numeric_data_good. cbn [length]; lia. }
  destruct (x =? 35).
  { destruct hdr; [fin|].
    destruct rest as [|y rest']; [fin|].
    destruct (is_digit y).
    - apply of_lres_good with (n := length rest'); [|cbn [chars length]; lia].
      apply read_arbitrary_data_good.
    - apply of_lres_good with (n := length rest'); [|cbn [chars length]; lia].
      apply read_nondecimal_data_good. }
  destruct ((x =? 39) || (x =? 34)).
  { destruct hdr; [fin|].
    apply of_lres_good with (n := length rest); [|cbn [chars length]; lia].
    apply read_string_data_good. }
  destruct (x =? 40).
  { apply of_lres_good with (n := length rest); [|cbn [chars length]; lia].
    apply read_expression_data_good. }
  destruct (is_ascii x); fin.
Qed.

(* ------------------------------------------------------------------ *)
(* 1. totality, progress *)

Theorem lex_next_no_panic : forall l, exists s, lex_next l = Val s.
Proof. intros l. destruct (lex_next_good l) as [s [H _]]. eauto. Qed.

Theorem lex_progress : forall l t l', lex_next l = Val (STok t l') ->
  (length (chars l') < length (chars l))%nat.
Proof.
  intros l t l' H. destruct (lex_next_good l) as [s [E G]].
  rewrite H in E. inversion E; subst. exact G.
Qed.

Lemma tokenize_fuel_total : forall f l, (length (chars l) < f)%nat ->
  exists ts, tokenize_fuel f l = Val ts.
Proof.
  induction f as [|f IH]; intros l Hl; [lia|].
  cbn [tokenize_fuel].
  destruct (lex_next_good l) as [s [E G]]. rewrite E. cbn [obind].
  destruct s as [|e|t l']; [eauto|eauto|].
  cbn [step_good] in G.
  destruct (IH l' ltac:(lia)) as [ts Hts]. rewrite Hts. cbn [obind]. eauto.
Qed.

Theorem tokenize_from_total : forall l, exists ts, tokenize_from l = Val ts.
Proof. intros l. unfold tokenize_from. apply tokenize_fuel_total. lia. Qed.

Theorem lex_total : forall input, exists ts, tokenize input = Val ts.
Proof. intros input. apply tokenize_from_total. Qed.

Theorem lex_params_total : forall input, exists ts, tokenize_params input = Val ts.
Proof. intros input. apply tokenize_from_total. Qed.

Lemma tokenize_fuel_shape : forall f l ts, tokenize_fuel f l = Val ts ->
  exists toks, ts = map IOk toks \/ exists e, ts = map IOk toks ++ [IErr e].
Proof.
  induction f as [|f IH]; intros l ts H; cbn [tokenize_fuel] in H; [discriminate|].
  destruct (lex_next l) as [s|site]; cbn [obind] in H; [|discriminate].
  destruct s as [|e|t l'].
  - inversion H; subst. exists []. left. reflexivity.
  - inversion H; subst. exists []. right. exists e. reflexivity.
  - destruct (tokenize_fuel f l') as [r|site] eqn:E; cbn [obind] in H; [|discriminate].
    inversion H; subst.
    destruct (IH l' r E) as [toks [Ht|[e Ht]]]; subst r.
    + exists (t :: toks). left. reflexivity.
    + exists (t :: toks). right. exists e. reflexivity.
Qed.

Theorem tokenize_shape : forall l ts, tokenize_from l = Val ts ->
  exists toks, ts = map IOk toks \/ exists e, ts = map IOk toks ++ [IErr e].
Proof. intros l ts H. unfold tokenize_from in H. eapply tokenize_fuel_shape. exact H. Qed.

(* ------------------------------------------------------------------ *)
(* 2. error classes *)

Theorem lex_error_class : forall l e, lex_next l = Val (SErr e) ->
  ((-199 <= e <= -100)%Z \/ e = DataOutOfRange).
Proof.
  intros l e H. destruct (lex_next_good l) as [s [E G]].
  rewrite H in E. inversion E; subst. exact G.
Qed.

(* ------------------------------------------------------------------ *)
(* 3. rejection lemmas *)

Ltac bool_lia :=
  unfold is_ws, is_mnemonic_char, is_alnum, is_alpha, is_upper, is_lower, is_digit, is_ascii in *; lia.

(* decide the guard of one visible [if] by arithmetic on the byte *)
Ltac step_if :=
  match goal with
  | |- context [if ?b then _ else _] =>
      first [ replace b with false by (symmetry; bool_lia)
            | replace b with true by (symmetry; bool_lia) ];
      cbv beta iota
  end.

Lemma scan12_over p : forall m n rest, forallb p m = true ->
  (n <= 12)%nat -> (n + length m > 12)%nat -> scan12 p n (m ++ rest) = None.
Proof.
  induction m as [|a m IH]; intros n rest Hp Hn Hl; cbn [length] in Hl; [lia|].
  cbn [forallb] in Hp. apply andb_prop in Hp. destruct Hp as [Ha Hm].
  cbn [app scan12]. rewrite Ha.
  destruct (Nat.ltb 12 (S n)) eqn:E; [reflexivity|].
  apply Nat.ltb_ge in E. apply IH; [exact Hm|lia|lia].
Qed.

Lemma scan12_stop p : forall m n rest, forallb p m = true ->
  (n + length m <= 12)%nat -> hd true (map p rest) = false \/ rest = [] ->
  scan12 p n (m ++ rest) = Some rest.
Proof.
  induction m as [|a m IH]; intros n rest Hp Hl Hr.
  - cbn [app]. destruct rest as [|y rest]; [reflexivity|].
    destruct Hr as [Hr|Hr]; [|discriminate]. cbn [map hd] in Hr.
    cbn [scan12]. rewrite Hr. reflexivity.
  - cbn [forallb] in Hp. apply andb_prop in Hp. destruct Hp as [Ha Hm].
    cbn [length] in Hl. cbn [app scan12]. rewrite Ha.
    destruct (Nat.ltb 12 (S n)) eqn:E; [apply Nat.ltb_lt in E; lia|].
    apply IH; [exact Hm|lia|exact Hr].
Qed.

Lemma skip_ws_app w y rest : forallb is_ws w = true -> is_ws y = false ->
  skip_ws (w ++ y :: rest) = y :: rest.
Proof.
  intros Hw Hy. unfold skip_ws. induction w as [|a w IH]; cbn [app skip_while].
  - rewrite Hy. reflexivity.
  - cbn [forallb] in Hw. apply andb_prop in Hw. destruct Hw as [Ha Hw].
    rewrite Ha. apply IH. exact Hw.
Qed.

Lemma sws_sep_err e w y rest : forallb is_ws w = true -> is_ws y = false ->
  (y =? 44) = false -> (y =? 59) = false ->
  skip_ws_to_separator e (w ++ y :: rest) = Err e.
Proof.
  intros Hw Hy H44 H59. unfold skip_ws_to_separator. cbv zeta.
  rewrite (skip_ws_app w y rest Hw Hy).
  replace (negb (y =? 44) && negb (y =? 59) && negb (y =? 10)) with true
    by (symmetry; bool_lia).
  reflexivity.
Qed.

Theorem mnemonic_13 : forall m rest com, (length m = 13)%nat ->
  (exists x m', m = x :: m' /\ is_alpha x = true) ->
  forallb is_mnemonic_char m = true ->
  lex_next (mkLexer (m ++ rest) true com) = Val (SErr ProgramMnemonicTooLong).
Proof.
  intros m rest com Hl [x [m' [Hm Hx]]] Hp.
  assert (S : scan12 is_mnemonic_char 0 (m ++ rest) = None)
    by (apply scan12_over; [exact Hp|lia|lia]).
  subst m. cbn [app] in *. unfold lex_next. cbn [chars in_header in_common]. cbv zeta.
  do 7 step_if. rewrite Hx. cbv beta iota.
  unfold read_mnemonic. cbv zeta. rewrite andb_false_r. rewrite S. reflexivity.
Qed.

Theorem chardata_13 : forall m rest com, (length m = 13)%nat ->
  (exists x m', m = x :: m' /\ is_alpha x = true) ->
  forallb is_mnemonic_char m = true ->
  lex_next (mkLexer (m ++ rest) false com) = Val (SErr CharacterDataTooLong).
Proof.
  intros m rest com Hl [x [m' [Hm Hx]]] Hp.
  assert (S : scan12 is_mnemonic_char 0 (m ++ rest) = None)
    by (apply scan12_over; [exact Hp|lia|lia]).
  subst m. cbn [app] in *. unfold lex_next. cbn [chars in_header in_common]. cbv zeta.
  do 7 step_if. rewrite Hx. cbv beta iota.
  unfold read_character_data. rewrite S. reflexivity.
Qed.

Lemma string_loop_body q tail : forall body,
  forallb (fun b => negb (b =? q) && is_ascii b) body = true ->
  string_loop q (body ++ tail) = string_loop q tail.
Proof.
  induction body as [|a body IH]; intros H; [reflexivity|].
  cbn [forallb] in H. apply andb_prop in H. destruct H as [Ha Hb].
  apply andb_prop in Ha. destruct Ha as [Hq Has].
  cbn [app string_loop].
  destruct (a =? q); [discriminate|].
  rewrite Has. cbn [negb]. apply IH. exact Hb.
Qed.

(* dispatch of lex_next on an opening quote in data position *)
Lemma lex_next_quote q s com : (q =? 34) || (q =? 39) = true ->
  lex_next (mkLexer (q :: s) false com) = of_lres false com (read_string_data (q :: s)).
Proof.
  intros Hq. unfold lex_next. cbn [chars in_header in_common]. cbv zeta.
  do 11 step_if. reflexivity.
Qed.

Theorem unterminated_string : forall q body hdr_com, ((q =? 34) || (q =? 39))%N = true ->
  forallb (fun b => negb (b =? q)%N && is_ascii b) body = true ->
  lex_next (mkLexer (q :: body) false hdr_com) = Val (SErr InvalidStringData).
Proof.
  intros q body com Hq Hb. rewrite lex_next_quote by exact Hq.
  unfold read_string_data.
  rewrite <- (app_nil_r body). rewrite (string_loop_body q [] body Hb).
  reflexivity.
Qed.

Theorem non_ascii_in_string : forall q pre b rest com, ((q =? 34) || (q =? 39))%N = true ->
  forallb (fun b => negb (b =? q)%N && is_ascii b) pre = true -> is_ascii b = false ->
  lex_next (mkLexer (q :: pre ++ b :: rest) false com) = Val (SErr InvalidCharacter).
Proof.
  intros q pre b rest com Hq Hp Hb. rewrite lex_next_quote by exact Hq.
  unfold read_string_data. rewrite (string_loop_body q (b :: rest) pre Hp).
  cbn [string_loop].
  replace (b =? q) with false by (symmetry; bool_lia).
  rewrite Hb. reflexivity.
Qed.

Theorem non_ascii_outside : forall b rest hdr com, is_ascii b = false ->
  lex_next (mkLexer (b :: rest) hdr com) = Val (SErr InvalidCharacter).
Proof.
  intros b rest hdr com Hb. unfold lex_next. cbn [chars in_header in_common]. cbv zeta.
  do 13 step_if. reflexivity.
Qed.

Lemma firstn_len_app {A} (a b : list A) : firstn (length a) (a ++ b) = a.
Proof. induction a as [|x a IH]; cbn [length app firstn]; [destruct b; reflexivity|]. rewrite IH. reflexivity. Qed.

Lemma skipn_len_app {A} (a b : list A) : skipn (length a) (a ++ b) = b.
Proof. induction a as [|x a IH]; cbn [length app skipn]; [reflexivity|exact IH]. Qed.

Lemma lex_next_block nd c com : is_digit nd = true ->
  lex_next (mkLexer (35 :: nd :: c) false com) = of_lres false com (read_arbitrary_data nd c).
Proof.
  intros Hd. unfold lex_next. cbn [chars in_header in_common]. cbv zeta.
  rewrite Hd. reflexivity.
Qed.

Lemma block_prefix nd lenfield tail :
  (1 <= length lenfield <= 9)%nat -> nd = (48 + N.of_nat (length lenfield))%N ->
  read_arbitrary_data nd (lenfield ++ tail) =
  match parse_usize lenfield with
  | None => Val (Err InvalidBlockData)
  | Some plen =>
      if N.of_nat (length tail) <? plen then Val (Err InvalidBlockData)
      else match skip_ws_to_separator SuffixNotAllowed (skipn (N.to_nat plen) tail) with
           | Err e => Val (Err e)
           | Ok rest' => Val (Ok (TBlock (firstn (N.to_nat plen) tail), rest'))
           end
  end.
Proof.
  intros Hl Hnd. unfold read_arbitrary_data.
  assert (Ha : ascii_to_digit nd 10 = Some (N.of_nat (length lenfield))).
  { unfold ascii_to_digit.
    replace (is_digit nd && (nd - 48 <? 10)) with true by (symmetry; bool_lia).
    f_equal. lia. }
  rewrite Ha.
  destruct (N.of_nat (length lenfield)) as [|p] eqn:Ep; [lia|].
  cbv zeta. rewrite <- Ep. rewrite Nat2N.id.
  replace (Nat.ltb (length (lenfield ++ tail)) (length lenfield)) with false
    by (symmetry; apply Nat.ltb_ge; rewrite app_length; lia).
  rewrite firstn_len_app.
  destruct (parse_usize lenfield) as [plen|]; [|reflexivity].
  rewrite drop_unwrap_ok by (rewrite app_length; lia).
  cbn [obind]. rewrite skipn_len_app. reflexivity.
Qed.

Theorem block_truncated : forall nd lenfield payload com,
  (1 <= length lenfield <= 9)%nat -> nd = (48 + N.of_nat (length lenfield))%N ->
  forallb is_digit lenfield = true ->
  (N.of_nat (length payload) < fst (radix_digits 10 lenfield 0 0))%N ->
  lex_next (mkLexer (35 :: nd :: lenfield ++ payload) false com) = Val (SErr InvalidBlockData).
Proof.
  intros nd lenfield payload com Hl Hnd Hd Hp.
  rewrite lex_next_block by bool_lia.
  rewrite (block_prefix nd lenfield payload Hl Hnd).
  unfold parse_usize, all_digits. rewrite Hd.
  destruct lenfield as [|d ds]; [reflexivity|].
  destruct (radix_digits 10 (d :: ds) 0 0) as [v n]. cbn [fst] in Hp.
  destruct (u64_max <? v); [reflexivity|].
  replace (N.of_nat (length payload) <? v) with true by (symmetry; lia).
  reflexivity.
Qed.

Theorem block_bad_header : forall nd lenfield rest com, (1 <= length lenfield <= 9)%nat ->
  nd = (48 + N.of_nat (length lenfield))%N -> forallb is_digit lenfield = false ->
  lex_next (mkLexer (35 :: nd :: lenfield ++ rest) false com) = Val (SErr InvalidBlockData).
Proof.
  intros nd lenfield rest com Hl Hnd Hd.
  rewrite lex_next_block by bool_lia.
  rewrite (block_prefix nd lenfield rest Hl Hnd).
  unfold parse_usize, all_digits. rewrite Hd.
  destruct lenfield; reflexivity.
Qed.

Theorem doubled_colon : forall rest hdr com,
  lex_next (mkLexer (58 :: 58 :: rest) hdr com) = Val (SErr InvalidSeparator).
Proof. intros. reflexivity. Qed.

Theorem colon_in_data : forall rest com,
  lex_next (mkLexer (58 :: rest) false com) = Val (SErr InvalidSeparator).
Proof.
  intros rest com. unfold lex_next. cbn [chars in_header in_common]. cbv zeta.
  change (58 =? 42) with false. change (58 =? 58) with true. cbv beta iota.
  destruct rest as [|y r]; [reflexivity|].
  destruct (negb (is_alpha y)); reflexivity.
Qed.

Theorem colon_in_common : forall rest hdr,
  lex_next (mkLexer (58 :: rest) hdr true) = Val (SErr InvalidSeparator).
Proof.
  intros rest hdr. unfold lex_next. cbn [chars in_header in_common]. cbv zeta.
  change (58 =? 42) with false. change (58 =? 58) with true. cbv beta iota.
  rewrite orb_true_r.
  destruct rest as [|y r]; [reflexivity|].
  destruct (negb (is_alpha y)); reflexivity.
Qed.

Theorem comma_in_header : forall rest com,
  lex_next (mkLexer (44 :: rest) true com) = Val (SErr HeaderSeparatorError).
Proof. intros. reflexivity. Qed.

Theorem doubled_comma : forall w rest com, forallb is_ws w = true ->
  lex_next (mkLexer (44 :: w ++ 44 :: rest) false com) = Val (SErr SyntaxError).
Proof.
  intros w rest com Hw. unfold lex_next. cbn [chars in_header in_common]. cbv zeta.
  change (44 =? 42) with false. change (44 =? 58) with false. change (44 =? 63) with false.
  change (44 =? 59) with false. change (44 =? 10) with false. change (44 =? 44) with true.
  cbv beta iota.
  rewrite (skip_ws_app w 44 rest Hw eq_refl). reflexivity.
Qed.

Theorem comma_after_header_sep : forall x w rest hdr com, is_ws x = true -> (x =? 10)%N = false ->
  forallb is_ws w = true ->
  lex_next (mkLexer (x :: w ++ 44 :: rest) hdr com) = Val (SErr SyntaxError).
Proof.
  intros x w rest hdr com Hx H10 Hw. unfold lex_next. cbn [chars in_header in_common]. cbv zeta.
  do 6 step_if. rewrite Hx. cbv beta iota.
  rewrite ws_match.
  change (x :: w ++ 44 :: rest) with ((x :: w) ++ 44 :: rest).
  rewrite (skip_ws_app (x :: w) 44 rest); [reflexivity| |reflexivity].
  cbn [forallb]. rewrite Hx, Hw. reflexivity.
Qed.

Theorem missing_separator_after_chardata : forall m w y rest com, (1 <= length m <= 12)%nat ->
  (exists x m', m = x :: m' /\ is_alpha x = true) -> forallb is_mnemonic_char m = true ->
  forallb is_ws w = true ->
  is_mnemonic_char y = false -> is_ws y = false -> (y =? 44)%N = false -> (y =? 59)%N = false ->
  lex_next (mkLexer (m ++ w ++ y :: rest) false com) = Val (SErr InvalidCharacterData).
Proof.
  intros m w y rest com Hl [x [m' [Hm Hx]]] Hp Hw Hy Hyw H44 H59.
  assert (S : scan12 is_mnemonic_char 0 (m ++ w ++ y :: rest) = Some (w ++ y :: rest)).
  { apply scan12_stop; [exact Hp|lia|]. left.
    destruct w as [|a w]; cbn [app map hd]; [exact Hy|].
    cbn [forallb] in Hw. apply andb_prop in Hw. destruct Hw as [Ha _]. bool_lia. }
  assert (C : exists p, consumed (m ++ w ++ y :: rest) (w ++ y :: rest) 0 = Val p).
  { apply consumed_ok. rewrite (app_length m). lia. }
  destruct C as [p C].
  subst m. cbn [app] in *. unfold lex_next. cbn [chars in_header in_common]. cbv zeta.
  do 7 step_if. rewrite Hx. cbv beta iota.
  unfold read_character_data. rewrite S. rewrite C. cbn [obind].
  rewrite (sws_sep_err InvalidCharacterData w y rest Hw Hyw H44 H59). reflexivity.
Qed.

Theorem missing_separator_after_string : forall q body w y rest com, ((q =? 34) || (q =? 39))%N = true ->
  forallb (fun b => negb (b =? q)%N && is_ascii b) body = true -> forallb is_ws w = true ->
  is_ws y = false -> (y =? 44)%N = false -> (y =? 59)%N = false -> (y =? q)%N = false ->
  lex_next (mkLexer (q :: body ++ q :: w ++ y :: rest) false com) = Val (SErr SuffixNotAllowed).
Proof.
  intros q body w y rest com Hq Hb Hw Hyw H44 H59 Hyq.
  rewrite lex_next_quote by exact Hq.
  unfold read_string_data.
  assert (L : string_loop q (body ++ q :: w ++ y :: rest) = Ok (w ++ y :: rest)).
  { rewrite (string_loop_body q _ body Hb). cbn [string_loop]. rewrite N.eqb_refl.
    destruct w as [|a w]; cbn [app].
    - rewrite Hyq. reflexivity.
    - cbn [forallb] in Hw. apply andb_prop in Hw. destruct Hw as [Ha _].
      replace (a =? q) with false by (symmetry; bool_lia). reflexivity. }
  rewrite L.
  destruct (consumed_ok (body ++ q :: w ++ y :: rest) (w ++ y :: rest) 1) as [p C].
  { rewrite (app_length body). cbn [length]. lia. }
  rewrite C. cbn [obind].
  rewrite (sws_sep_err SuffixNotAllowed w y rest Hw Hyw H44 H59). reflexivity.
Qed.
