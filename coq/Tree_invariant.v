(* Tree_invariant.v — a generic lifting theorem for the dispatcher of Tree.v: whatever relation
   (reflexive, transitive) every handler program of every command of the tree establishes between
   the device it is started with and the device it ends with, [run] establishes between the
   initial and the final device — for EVERY input (no grammar, no well-formedness) and every
   formatter.  The argument is an invariant of the unit loop; the only facts used about the
   dispatcher are: a handler is only ever taken from the tree ([resolve] returns a command of
   [self] and a context that is [self]'s caller context or a branch of [self]); every other step
   of the loop leaves the device alone.

   How [run_prog] treats the device (read off Tree.v):
   - [Done d r]: the device [d] is KEPT whatever [r] is — also for [RetErr e] and for a
     [RetFinish] whose response unit recorded a formatter error.  Hence [prog_rel] constrains every
     [Done] leaf, successful or not;
   - a failing [Emit]/[Hdr] does not stop the program (the error is latched in the response unit and
     reported by [RetFinish]), so the continuation is constrained unconditionally;
   - when [response_unit] fails before a query handler is invoked, the device is untouched (R_refl).
   - a [Pull] only ever hands the program [Absent], [Failed e] or [Got t] with [is_data t = true]
     (Tree_proofs.pull_only_data): [prog_rel] quantifies over exactly these answers, which makes
     the hypothesis weaker (the theorem stronger) than quantifying over all [pull_result]s. *)
From VF Require Import Base Gen_Errors Lexer Lexer_proofs Mnemonic Response Tree Tree_proofs.
From Coq Require Import Lia.

(* what a pull can return *)
Definition pullable (r : pull_result) : Prop :=
  match r with Got t => is_data t = true | Absent => True | Failed _ => True end.

Lemma next_optional_token_pullable : forall toks r toks',
  next_optional_token toks = (r, toks') -> pullable r.
Proof.
  intros toks r toks' H. destruct r as [t| |e]; cbn [pullable]; [|exact I|exact I].
  eapply pull_only_data; exact H.
Qed.
Lemma next_token_pullable : forall toks r toks',
  next_token toks = (r, toks') -> pullable r.
Proof.
  intros toks r toks' H. destruct r as [t| |e]; cbn [pullable]; [|exact I|exact I].
  eapply pull_req_only_data; exact H.
Qed.

(* every command occurring in a tree *)
Fixpoint tree_cmds {D : Type} (t : tree D) : list (command D) :=
  match t with
  | Leaf _ _ c => [c]
  | Branch _ _ sub =>
    (fix go (l : list (tree D)) : list (command D) :=
       match l with [] => [] | ch :: l' => tree_cmds ch ++ go l' end) sub
  end.

Lemma tree_cmds_branch : forall {D : Type} n d (sub : list (tree D)) c,
  In c (tree_cmds (Branch n d sub)) <-> exists ch, In ch sub /\ In c (tree_cmds ch).
Proof.
  intros D n d sub c. cbn [tree_cmds].
  induction sub as [|ch l IH].
  - split; [intros []|intros [ch [[] _]]].
  - rewrite in_app_iff, IH. split.
    + intros [H|[ch' [H1 H2]]].
      * exists ch. split; [left; reflexivity|exact H].
      * exists ch'. split; [right; exact H1|exact H2].
    + intros [ch' [[H1|H1] H2]].
      * subst ch'. left. exact H2.
      * right. exists ch'. split; assumption.
Qed.

(* ------------------------------------------------------------------ *)
(* commands are only ever taken from the tree                          *)
(* ------------------------------------------------------------------ *)
Section Cmds.
  Context {D : Type}.
  Variable Pc : command D -> Prop.

  Definition cmds_ok (t : tree D) : Prop := forall c, In c (tree_cmds t) -> Pc c.

  Lemma cmds_ok_children : forall n d sub, cmds_ok (Branch n d sub) -> Forall cmds_ok sub.
  Proof.
    intros n d sub H. apply Forall_forall. intros ch Hch c Hc.
    apply H. apply tree_cmds_branch. exists ch. split; assumption.
  Qed.

  (* the result of a header resolution: a command satisfying Pc and a context all of whose commands do *)
  Definition rres_ok (r : @rres D) : Prop :=
    match r with RFound c _ leaf' _ => Pc c /\ cmds_ok leaf' | RFail _ _ => True end.
  Definition resolve_cmds_ok (self : tree D) : Prop :=
    forall leaf toks, cmds_ok leaf -> rres_ok (resolve self leaf toks).

  Lemma dflt_branch_cmds sub : Forall resolve_cmds_ok sub -> forall tk lf r,
    cmds_ok lf -> dflt_branch sub tk lf = Some r -> rres_ok r.
  Proof.
    induction 1 as [|ch l Hch Hl IH]; intros tk lf r Hlf H; cbn in H.
    - discriminate H.
    - destruct ch as [nm df c|nm df sb].
      + apply (IH tk lf r Hlf). exact H.
      + destruct df.
        * inversion H; subst. apply Hch. exact Hlf.
        * apply (IH tk lf r Hlf). exact H.
  Qed.
  Lemma dflt_leaf_cmds sub : Forall resolve_cmds_ok sub -> forall tk lf r,
    cmds_ok lf -> dflt_leaf sub tk lf = Some r -> rres_ok r.
  Proof.
    induction 1 as [|ch l Hch Hl IH]; intros tk lf r Hlf H; cbn in H.
    - discriminate H.
    - destruct ch as [nm df c|nm df sb].
      + destruct df.
        * inversion H; subst. apply Hch. exact Hlf.
        * apply (IH tk lf r Hlf). exact H.
      + apply (IH tk lf r Hlf). exact H.
  Qed.
  Lemma first_match_cmds sub : Forall resolve_cmds_ok sub -> forall self m tk r,
    cmds_ok self -> first_match_of self m tk sub = Some r -> rres_ok r.
  Proof.
    induction 1 as [|ch l Hch Hl IH]; intros self m tk r Hself H; cbn in H.
    - discriminate H.
    - destruct (mnemonic_match (node_name ch) m).
      + inversion H; subst. apply Hch. exact Hself.
      + apply (IH self m tk r Hself). exact H.
  Qed.

  Lemma resolve_cmds : forall self, cmds_ok self -> resolve_cmds_ok self.
  Proof.
    induction self as [n d c|n d sub Hsub] using tree_ind'; intros Hself leaf toks Hleaf.
    - assert (Hc : Pc c) by (apply Hself; cbn [tree_cmds]; left; reflexivity).
      destruct toks as [|[tk|e] rest]; cbn [resolve].
      + split; assumption.
      + destruct tk; cbn [rres_ok]; try exact I; split; assumption.
      + exact I.
    - assert (Hch : Forall resolve_cmds_ok sub).
      { pose proof (cmds_ok_children _ _ _ Hself) as Hc.
        rewrite Forall_forall in Hsub, Hc |- *. intros ch Hin. apply Hsub; [exact Hin|apply Hc; exact Hin]. }
      rewrite resolve_branch.
      assert (Hdef : forall tk lf, cmds_ok lf ->
        rres_ok (match dflt_leaf sub tk lf with
                 | Some r => r
                 | None => match dflt_branch sub tk lf with
                           | Some r => r
                           | None => RFail UndefinedHeader tk
                           end
                 end)).
      { intros tk lf Hlf. destruct (dflt_leaf sub tk lf) eqn:H1.
        - exact (dflt_leaf_cmds sub Hch _ _ _ Hlf H1).
        - destruct (dflt_branch sub tk lf) eqn:H2.
          + exact (dflt_branch_cmds sub Hch _ _ _ Hlf H2).
          + exact I. }
      assert (Hmn : forall m toks2,
        rres_ok (match first_match_of (Branch n d sub) m toks2 sub with
                 | Some r => r
                 | None => match dflt_branch sub (IOk (TMnemonic m) :: toks2) (Branch n d sub) with
                           | Some r => r
                           | None => RFail UndefinedHeader (IOk (TMnemonic m) :: toks2)
                           end
                 end)).
      { intros m toks2. destruct (first_match_of (Branch n d sub) m toks2 sub) eqn:H1.
        - exact (first_match_cmds sub Hch _ _ _ _ Hself H1).
        - destruct (dflt_branch sub (IOk (TMnemonic m) :: toks2) (Branch n d sub)) eqn:H2.
          + exact (dflt_branch_cmds sub Hch _ _ _ Hself H2).
          + exact I. }
      destruct toks as [|[tk|e] rest].
      + apply Hdef. exact Hleaf.
      + destruct tk; try (apply Hdef; exact Hleaf); try exact I.
        * cbv zeta.
          destruct rest as [|[tk2|e2] rest2]; try exact I.
          destruct tk2; try exact I. apply Hmn.
        * apply Hmn.
      + exact I.
  Qed.
End Cmds.

(* ------------------------------------------------------------------ *)
(* Part A: the lifting theorem                                         *)
(* ------------------------------------------------------------------ *)
Section Lift.
  Context {D : Type}.
  Variable R : D -> D -> Prop.
  Hypothesis R_refl : forall d, R d d.
  Hypothesis R_trans : forall a b c, R a b -> R b c -> R a c.

  (* every way the program can end (whatever the pulls return, whatever it returns) leaves a
     device related to [d0] *)
  Fixpoint prog_rel (d0 : D) (p : hprog D) : Prop :=
    match p with
    | Done d _ => R d0 d
    | Pull _ k => forall r, pullable r -> prog_rel d0 (k r)
    | Hdr _ k => prog_rel d0 k
    | Emit _ k => prog_rel d0 k
    end.
  Definition cmd_rel (c : command D) : Prop := forall d, prog_rel d (ev c d) /\ prog_rel d (qu c d).

  Lemma run_prog_rel : forall (p : hprog D) d0 toks f u toks' d f' r,
    prog_rel d0 p -> run_prog p toks f u = (toks', d, f', r) -> R d0 d.
  Proof.
    induction p as [required k IH | h k IH | dt k IH | d1 r1]; intros d0 toks f u toks' d f' r Hp H;
      cbn [run_prog] in H; cbn [prog_rel] in Hp.
    - destruct (if required then next_token toks else next_optional_token toks) as [pr t1] eqn:Hpull.
      eapply IH; [|exact H]. apply Hp.
      destruct required.
      + eapply next_token_pullable; exact Hpull.
      + eapply next_optional_token_pullable; exact Hpull.
    - destruct u as [ru|].
      + destruct (ru_header f ru h) as [f1 ru1]. eapply IH; eassumption.
      + eapply IH; eassumption.
    - destruct u as [ru|].
      + destruct (ru_data f ru dt) as [f1 ru1]. eapply IH; eassumption.
      + eapply IH; eassumption.
    - inversion H; subst. exact Hp.
  Qed.

  Lemma run_handler_rel : forall c q leaf s toks, cmd_rel c ->
    R (x_dev s) (x_dev (xres_state (run_handler c q leaf s toks))).
  Proof.
    intros c q leaf s toks Hc. unfold run_handler. destruct (Hc (x_dev s)) as [Hev Hqu]. destruct q.
    - destruct (response_unit (x_fmt s)) as [f0|e].
      + destruct (run_prog (qu c (x_dev s)) toks f0 (Some runit_new)) as [[[t' d'] f'] r] eqn:Hr.
        apply (run_prog_rel _ _ _ _ _ _ _ _ _ Hqu) in Hr.
        destruct r; cbn [xres_state x_dev]; exact Hr.
      + cbn [xres_state x_dev]. apply R_refl.
    - destruct (run_prog (ev c (x_dev s)) toks (x_fmt s) None) as [[[t' d'] f'] r] eqn:Hr.
      apply (run_prog_rel _ _ _ _ _ _ _ _ _ Hev) in Hr.
      destruct r; cbn [xres_state x_dev]; exact Hr.
  Qed.

  Definition xres_leaf_ok (r : xres D) : Prop :=
    match r with XOk leaf' _ => cmds_ok cmd_rel leaf' | XErr _ _ => True end.

  Lemma exec_rel : forall self leaf s, cmds_ok cmd_rel self -> cmds_ok cmd_rel leaf ->
    R (x_dev s) (x_dev (xres_state (exec self leaf s))) /\ xres_leaf_ok (exec self leaf s).
  Proof.
    intros self leaf s Hself Hleaf. unfold exec.
    pose proof (resolve_cmds cmd_rel self Hself leaf (x_toks s) Hleaf) as Hr.
    destruct (resolve self leaf (x_toks s)) as [c q leaf' t'|e t']; cbn [rres_ok] in Hr.
    - destruct Hr as [Hc Hl]. split; [apply run_handler_rel; exact Hc|].
      unfold run_handler. destruct q.
      + destruct (response_unit (x_fmt s)) as [f0|e]; [|exact I].
        destruct (run_prog (qu c (x_dev s)) t' f0 (Some runit_new)) as [[[t'' d'] f'] [e|]];
          [exact I|exact Hl].
      + destruct (run_prog (ev c (x_dev s)) t' (x_fmt s) None) as [[[t'' d'] f'] [e|]];
          [exact I|exact Hl].
    - cbn [xres_state with_toks x_dev xres_leaf_ok]. split; [apply R_refl|exact I].
  Qed.

  Lemma finish_message_dev : forall (s s' : xstate D) r, finish_message s = (s', r) -> x_dev s' = x_dev s.
  Proof.
    unfold finish_message. intros s s' r H. destruct (buf (x_fmt s)).
    - inversion H; subst. reflexivity.
    - destruct (message_end (x_fmt s)); inversion H; subst; reflexivity.
  Qed.

  Lemma unit_body_rel : forall root leaf s, cmds_ok cmd_rel root -> cmds_ok cmd_rel leaf ->
    match unit_body root leaf s with
    | UExec r => R (x_dev s) (x_dev (xres_state r)) /\ xres_leaf_ok r
    | UDone s' _ => x_dev s' = x_dev s
    end.
  Proof.
    intros root leaf s Hroot Hleaf. unfold unit_body.
    destruct (x_toks s) as [|[tk|e] rest] eqn:Ht.
    - destruct (finish_message s) as [s1 r1] eqn:Hf. eapply finish_message_dev; exact Hf.
    - destruct tk; try reflexivity.
      + exact (exec_rel root root (with_toks s rest) Hroot Hroot).
      + destruct (starts_with_star s0).
        * pose proof (exec_rel root root s Hroot Hroot) as [H1 H2].
          destruct (exec root root s) as [l1 s1|e1 s1]; cbn [xres_state xres_leaf_ok] in *.
          -- split; [exact H1|exact Hleaf].
          -- split; [exact H1|exact I].
        * exact (exec_rel leaf leaf s Hleaf Hleaf).
    - reflexivity.
  Qed.

  Lemma unit_after_dev : forall (leaf' : tree D) s',
    match unit_after leaf' s' with
    | UNext l'' s'' => l'' = leaf' /\ x_dev s'' = x_dev s'
    | UStop s'' _ => x_dev s'' = x_dev s'
    end.
  Proof.
    intros leaf' s'. unfold unit_after.
    destruct (x_toks s') as [|[tk|e0] rest] eqn:Ht.
    - destruct (finish_message s') as [s1 r1] eqn:Hf. eapply finish_message_dev; exact Hf.
    - destruct tk; cbn; try reflexivity. split; reflexivity.
    - reflexivity.
  Qed.

  (* the unit loop, from ANY state, ANY fuel, ANY context whose commands are covered *)
  Theorem unit_loop_lifts : forall fu root leaf s sf e,
    cmds_ok cmd_rel root -> cmds_ok cmd_rel leaf ->
    unit_loop fu root leaf s = Val (sf, e) -> R (x_dev s) (x_dev sf).
  Proof.
    induction fu as [|fu IH]; intros root leaf s sf e Hroot Hleaf H; [discriminate H|].
    cbn [unit_loop] in H.
    pose proof (unit_body_rel root leaf s Hroot Hleaf) as Hb.
    destruct (unit_body root leaf s) as [r|s' e'].
    - destruct Hb as [Hr Hl].
      destruct r as [leaf' s'|e' s']; cbn [xres_state xres_leaf_ok] in Hr, Hl.
      + pose proof (unit_after_dev leaf' s') as Ha.
        destruct (unit_after leaf' s') as [l'' s''|s'' e''].
        * destruct Ha as [Hl'' Hd]. subst l''.
          apply (R_trans _ (x_dev s')); [exact Hr|].
          rewrite <- Hd. exact (IH root leaf' s'' sf e Hroot Hl H).
        * inversion H; subst. rewrite Ha. exact Hr.
      + inversion H; subst. exact Hr.
    - inversion H; subst. rewrite Hb. apply R_refl.
  Qed.

  (* ANY token stream (also one that no byte string tokenizes to) *)
  Theorem run_tokens_lifts : forall root, (forall c, In c (tree_cmds root) -> cmd_rel c) ->
    forall toks d f s e, run_tokens root toks d f = Val (s, e) -> R d (x_dev s).
  Proof.
    intros root Hroot toks d f s e H. unfold run_tokens in H.
    apply (unit_loop_lifts _ _ _ _ _ _ Hroot Hroot) in H. exact H.
  Qed.

  Theorem run_lifts : forall root, (forall c, In c (tree_cmds root) -> cmd_rel c) ->
    forall input d f r, run root input d f = Val r -> R d (r_dev r).
  Proof.
    intros root Hroot input d f r H. unfold run in H.
    destruct (tokenize input) as [ts|site]; [|discriminate H]. cbn [obind] in H.
    destruct (run_tokens root ts d f) as [[s e]|site] eqn:Hr; [|discriminate H]. cbn [obind] in H.
    inversion H; subst r. cbn [r_dev]. eapply run_tokens_lifts; eassumption.
  Qed.
End Lift.

(* ------------------------------------------------------------------ *)
(* the relation need not be reflexive/transitive: its closure is lifted *)
(* ------------------------------------------------------------------ *)
Section Closure.
  Context {D : Type}.
  Variable R : D -> D -> Prop.
  Inductive rt_clos : D -> D -> Prop :=
  | rt_refl : forall d, rt_clos d d
  | rt_step : forall a b c, rt_clos a b -> R b c -> rt_clos a c.
  Lemma rt_clos_trans : forall a b c, rt_clos a b -> rt_clos b c -> rt_clos a c.
  Proof.
    intros a b c Hab Hbc. induction Hbc as [d|b' c' d' H1 IH H2]; [exact Hab|].
    eapply rt_step; [apply IH; exact Hab|exact H2].
  Qed.
  Lemma prog_rel_clos : forall p d0, prog_rel R d0 p -> prog_rel rt_clos d0 p.
  Proof.
    induction p as [required k IH | h k IH | dt k IH | d1 r1]; intros d0 H; cbn [prog_rel] in *.
    - intros r Hr. apply IH. apply H. exact Hr.
    - apply IH. exact H.
    - apply IH. exact H.
    - eapply rt_step; [apply rt_refl|exact H].
  Qed.
  (* the device after a message is reached from the initial one by finitely many handler steps *)
  Theorem run_lifts_closure : forall root, (forall c, In c (tree_cmds root) -> cmd_rel R c) ->
    forall input d f r, run root input d f = Val r -> rt_clos d (r_dev r).
  Proof.
    intros root Hroot. apply (run_lifts rt_clos rt_refl rt_clos_trans).
    intros c Hc d. destruct (Hroot c Hc d) as [H1 H2].
    split; apply prog_rel_clos; assumption.
  Qed.
End Closure.

(* ------------------------------------------------------------------ *)
(* unary corollary: invariant preservation                             *)
(* ------------------------------------------------------------------ *)
Section Preserve.
  Context {D : Type}.
  Variable P : D -> Prop.

  (* every way the program can end leaves a device satisfying P *)
  Fixpoint prog_inv (p : hprog D) : Prop :=
    match p with
    | Done d _ => P d
    | Pull _ k => forall r, pullable r -> prog_inv (k r)
    | Hdr _ k => prog_inv k
    | Emit _ k => prog_inv k
    end.
  Definition cmd_inv (c : command D) : Prop := forall d, P d -> prog_inv (ev c d) /\ prog_inv (qu c d).

  Lemma prog_inv_rel : forall p d0, (P d0 -> prog_inv p) -> prog_rel (fun a b => P a -> P b) d0 p.
  Proof.
    induction p as [required k IH | h k IH | dt k IH | d1 r1]; intros d0 H; cbn [prog_rel prog_inv] in *.
    - intros r Hr. apply IH. intros Hd. apply (H Hd). exact Hr.
    - apply IH. exact H.
    - apply IH. exact H.
    - exact H.
  Qed.

  Theorem run_tokens_preserves : forall root, (forall c, In c (tree_cmds root) -> cmd_inv c) ->
    forall toks d f s e, P d -> run_tokens root toks d f = Val (s, e) -> P (x_dev s).
  Proof.
    intros root Hroot toks d f s e Hd H.
    refine (run_tokens_lifts (fun a b => P a -> P b) _ _ root _ toks d f s e H Hd).
    - intros a Ha. exact Ha.
    - intros a b c Hab Hbc Ha. exact (Hbc (Hab Ha)).
    - intros c Hc d0. split; apply prog_inv_rel; intros Hd0; apply (Hroot c Hc d0 Hd0).
  Qed.

  Theorem run_preserves : forall root, (forall c, In c (tree_cmds root) -> cmd_inv c) ->
    forall input d f r, P d -> run root input d f = Val r -> P (r_dev r).
  Proof.
    intros root Hroot input d f r Hd H.
    refine (run_lifts (fun a b => P a -> P b) _ _ root _ input d f r H Hd).
    - intros a Ha. exact Ha.
    - intros a b c Hab Hbc Ha. exact (Hbc (Hab Ha)).
    - intros c Hc d0. split; apply prog_inv_rel; intros Hd0; apply (Hroot c Hc d0 Hd0).
  Qed.
End Preserve.

Print Assumptions run_lifts.
Print Assumptions run_tokens_lifts.
Print Assumptions run_lifts_closure.
Print Assumptions run_preserves.
