(* Response.v — model of scpi/src/parser/response/{mod,vecformatter,arrayformatter}.rs:
   the Formatter (growable or fixed capacity, every push all-or-nothing), the
   ResponseData formatters as the exact sequence of pushes they perform, and the
   ResponseUnit separator logic.  Model file: no proofs. *)
From VF Require Import Base Gen_Errors Gen_Consts ErrTable Fmt.
Open Scope N_scope.

(* ---- Formatter: Vec<u8> (cap = None) or ArrayVec<u8, CAP> (cap = Some CAP) ---- *)
Record fmt := mkFmt { cap : option nat; buf : list byte }.

(* push_str / push_byte: try_extend_from_slice / try_push are all-or-nothing *)
Definition push (f : fmt) (chunk : list byte) : res fmt :=
  match cap f with
  | Some c => if Nat.ltb c (length (buf f) + length chunk) then Err OutOfMemory
              else Ok (mkFmt (cap f) (buf f ++ chunk))
  | None => Ok (mkFmt (cap f) (buf f ++ chunk))
  end.

(* pushes in order; stops at the first that does not fit (earlier ones stay written) *)
Fixpoint push_all (f : fmt) (chunks : list (list byte)) : fmt * option Z :=
  match chunks with
  | [] => (f, None)
  | c :: cs => match push f c with
               | Ok f' => push_all f' cs
               | Err e => (f, Some e)
               end
  end.

(* ---- response data values ---- *)
Inductive rdata :=
| RInt (z : Z)                       (* any integer type, decimal *)
| RRadix (radix : N) (n : N)         (* Hex / Octal / Binary wrappers *)
| RBool (b : bool)
| RStr (s : list byte)               (* &[u8]: <STRING RESPONSE DATA> *)
| RBlock (s : list byte)             (* Arbitrary, &str: definite length block *)
| RChar (s : list byte)              (* Character *)
| RExpr (s : list byte)              (* Expression *)
| RErrItem (e : error)               (* scpi::error::Error *)
| RText (s : list byte)              (* text produced by an external writer (lexical float), one push *)
| RList (l : list rdata)             (* Vec<T> / ArrayVec<T,N> *)
| RFailing (code : Z).               (* a ResponseData impl that fails before writing anything *)

(* digits of n in a radix, upper-case letters (lexical_core::write_with_options) *)
Definition radix_char (d : N) : byte := if d <? 10 then 48 + d else 55 + d.
Fixpoint radix_aux (fuel : nat) (radix n : N) (acc : list byte) : list byte :=
  match fuel with
  | O => acc
  | S f => let acc' := radix_char (n mod radix) :: acc in
           if n / radix =? 0 then acc' else radix_aux f radix (n / radix) acc'
  end.
Definition fmt_radix (radix n : N) : list byte := radix_aux (S (N.to_nat (N.size n))) radix n [].
Definition radix_prefix (radix : N) : list byte :=
  if radix =? 16 then [35; 72] else if radix =? 8 then [35; 81] else [35; 66].

(* bytes between the quotes: `"` doubled; pushed segment by segment (split on `"`) *)
Fixpoint split_quote (s : list byte) (cur : list byte) : list (list byte) :=
  match s with
  | [] => [rev cur]
  | c :: s' => if c =? 34 then rev cur :: split_quote s' [] else split_quote s' (c :: cur)
  end.
Fixpoint quoted_body_chunks (segs : list (list byte)) (first : bool) : list (list byte) :=
  match segs with
  | [] => []
  | sg :: segs' => (if first then [] else [[34; 34]]) ++ [sg] ++ quoted_body_chunks segs' false
  end.
Definition quoted_body (s : list byte) : list (list byte) := quoted_body_chunks (split_quote s []) true.
Definition all_ascii (s : list byte) : bool := forallb is_ascii s.

(* the sequence of pushes a value performs, then an optional error of its own *)
Fixpoint chunks_of (d : rdata) : list (list byte) * option Z :=
  match d with
  | RInt z => ([fmt_Z z], None)
  | RRadix r n => ([radix_prefix r; fmt_radix r n], None)
  | RBool b => ([[if b then 49 else 48]], None)
  | RStr s =>
    if all_ascii s then ([[34]] ++ quoted_body s ++ [[34]], None)
    else ([], Some ExecutionError)
  | RBlock s =>
    let len := fmt_N (N.of_nat (length s)) in
    if Nat.ltb 9 (length len) then ([], Some ExecutionError)
    else ([[35]; fmt_N (N.of_nat (length len)); len; s], None)
  | RChar s => ([s], None)
  | RExpr s => ([[40]; s; [41]], None)
  | RErrItem e =>
    let head := [fmt_Z (ecode e); [RESPONSE_DATA_SEPARATOR]] in
    match eext e with
    | Some x => (head ++ [[34]] ++ quoted_body (error_message e) ++ [[59]] ++ quoted_body x ++ [[34]], None)
    | None =>
      if all_ascii (error_message e) then (head ++ [[34]] ++ quoted_body (error_message e) ++ [[34]], None)
      else (head, Some ExecutionError)
    end
  | RText s => ([s], None)
  | RList l =>
    match l with
    | [] => ([], Some DeviceSpecificError)
    | x :: l' =>
      (fix go (pre : list (list byte) * option Z) (l : list rdata) {struct l} : list (list byte) * option Z :=
         match pre with
         | (acc, Some e) => (acc, Some e)
         | (acc, None) =>
           match l with
           | [] => (acc, None)
           | y :: l'' => let '(c, e) := chunks_of y in go (acc ++ [[44]] ++ c, e) l''
           end
         end) (chunks_of x) l'
    end
  | RFailing c => ([], Some c)
  end.

(* data.format_response_data(fmt) *)
Definition format_data (f : fmt) (d : rdata) : fmt * option Z :=
  let '(chunks, own) := chunks_of d in
  match push_all f chunks with
  | (f', Some e) => (f', Some e)
  | (f', None) => (f', own)
  end.

(* the full text of a value in an unbounded buffer *)
Definition response_text (d : rdata) : list byte * option Z :=
  let '(f, e) := format_data (mkFmt None []) d in (buf f, e).

(* ---- ResponseUnit ---- *)
Record runit := mkRunit { ru_result : option Z; has_header : bool; has_data : bool }.
Definition runit_new : runit := mkRunit None false false.

(* ResponseUnit::header *)
Definition ru_header (f : fmt) (u : runit) (h : list byte) : fmt * runit :=
  match ru_result u with
  | Some e => (f, mkRunit (Some e) true (has_data u))
  | None =>
    let '(f', e) := push_all f ((if has_header u then [[58]] else []) ++ [h]) in
    (f', mkRunit e true (has_data u))
  end.

(* ResponseUnit::data *)
Definition ru_data (f : fmt) (u : runit) (d : rdata) : fmt * runit :=
  match ru_result u with
  | Some e => (f, mkRunit (Some e) (has_header u) true)
  | None =>
    let sep := if has_data u then [[RESPONSE_DATA_SEPARATOR]]
               else if has_header u then [[RESPONSE_HEADER_SEPARATOR]] else [] in
    match push_all f sep with
    | (f', Some e) => (f', mkRunit (Some e) (has_header u) true)
    | (f', None) => let '(f'', e) := format_data f' d in (f'', mkRunit e (has_header u) true)
    end
  end.

(* Formatter::response_unit: `;` first when the buffer is not empty *)
Definition response_unit (f : fmt) : res fmt :=
  match buf f with
  | [] => Ok f
  | _ => push f [RESPONSE_MESSAGE_UNIT_SEPARATOR]
  end.
Definition message_end (f : fmt) : res fmt := push f [RESPONSE_MESSAGE_TERMINATOR].
