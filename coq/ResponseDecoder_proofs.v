(* ResponseDecoder_proofs.v — a response message is UNIQUELY DECODABLE: the independent decoder of
   ResponseDecoder.v (written from IEEE 488.2 section 8, not from the formatter) recovers exactly the
   values that were emitted, for whole messages of header-less response units.
   Response headers (ru_header) are out of scope. *)
From Coq Require Import Lia ZifyBool ZifyN ZifyNat.
From VF Require Import Base Gen_Errors Gen_Consts ErrTable Fmt Lexer Grammar Grammar_proofs Response Conv
  Fmt_proofs Tree Resp_proofs ResponseDecoder.
Open Scope N_scope.

(* ================================================================== *)
(* 0. statements: what is emitted, what it must decode to              *)
(* ================================================================== *)

(* what each emitted value must decode to *)
Fixpoint items_of (d : rdata) : list item :=
  match d with
  | RInt z => [INum z]
  | RRadix r n => [INonDec r n]
  | RBool b => [INum (if b then 1 else 0)%Z]
  | RStr s => [IStr s]
  | RBlock s => [IBlock s]
  | RChar s => [IChar s]
  | RExpr s => [IExpr s]
  | RErrItem e => [INum (ecode e); IStr (error_message e ++ match eext e with Some x => 59 :: x | None => [] end)]
  | RText s => [IText s]
  | RList l => flat_map items_of l
  | RFailing _ => []
  end.

(* <CHARACTER RESPONSE DATA>: non-empty, a letter first, then letters / digits / underscore
   (no length limit is needed) *)
Definition char_ok (s : list byte) : bool :=
  match s with [] => false | c :: s' => is_alpha c && forallb is_char_byte s' end.
(* expression body: only the two parentheses are excluded; `;` `,` DQUOTE NL ... inside are data *)
Definition expr_body_ok (s : list byte) : bool :=
  forallb (fun c => negb (c =? 40) && negb (c =? 41)) s.
(* externally written text (a float): non-empty, starts with a digit, a sign or `.`, contains none of
   `,` `;` NL DQUOTE `#` `(`, and is NOT of the form [+-]?digits (it would be decoded as INum) *)
Definition text_ok (s : list byte) : bool :=
  match s with
  | [] => false
  | c :: s' => is_num_start c && forallb is_text_byte s'
               && match int_form s with None => true | Some _ => false end
  end.

(* the values for which formatting succeeds and the text is a legal, unambiguous response element.
   This is the WEAKEST condition the proof needs (so the theorem is as strong as possible):
   - RStr: ASCII (otherwise the formatter fails);  RBlock: fewer than 10^9 bytes (otherwise it fails);
   - RErrItem: with extended text nothing is required (the formatter does not check it and the decoder
     accepts any byte in a string); without it the message must be ASCII (otherwise the formatter fails);
   - RRadix: radix 16 / 8 / 2 (any other radix is printed with the prefix #B: radix_counterexample);
   - RChar, RExpr, RText: see above;  RList: non-empty, all elements decodable;  RFailing: never. *)
Fixpoint decodable (d : rdata) : bool :=
  match d with
  | RInt _ => true
  | RBool _ => true
  | RRadix r _ => (r =? 16) || (r =? 8) || (r =? 2)
  | RStr s => all_ascii s
  | RBlock s => N.of_nat (length s) <? 1000000000
  | RChar s => char_ok s
  | RExpr s => expr_body_ok s
  | RErrItem e => match eext e with Some _ => true | None => all_ascii (error_message e) end
  | RText s => text_ok s
  | RList l => match l with [] => false | _ :: _ => forallb decodable l end
  | RFailing _ => false
  end.

(* the bytes a message of header-less query units leaves in an empty unbounded buffer, built with the
   MODEL's own functions: per unit [response_unit], then [ru_data] for each datum starting from
   [runit_new]; finally [message_end] *)
Definition emit_unit (f : fmt) (ds : list rdata) : fmt :=
  match response_unit f with
  | Ok f1 => fst (fold_left (fun a x => ru_data (fst a) (snd a) x) ds (f1, runit_new))
  | Err _ => f
  end.
Definition emit_message (units : list (list rdata)) : list byte :=
  match message_end (fold_left emit_unit units (mkFmt None [])) with
  | Ok f => buf f
  | Err _ => []
  end.

Definition unit_text (ds : list rdata) : list byte := intercalate [44] (map text ds).

(* ================================================================== *)
(* 1. the fuel of the decoder suffices                                 *)
(* ================================================================== *)

Lemma span_length : forall p b, (length (snd (span p b)) <= length b)%nat.
Proof.
  intros p. induction b as [|c b IH]; cbn [span]; [cbn; lia|].
  destruct (p c); cbn [snd length]; lia.
Qed.

Lemma scan_string_length : forall n b s r,
  (length b <= n)%nat -> scan_string b = Some (s, r) -> (length r <= length b)%nat.
Proof.
  induction n as [|n IH]; intros b s r Hn H.
  - destruct b; [discriminate | cbn [length] in Hn; lia].
  - destruct b as [|c b']; [discriminate|]. cbn [scan_string] in H. cbn [length] in Hn.
    destruct (c =? 34).
    + destruct b' as [|c2 b''].
      * injection H as <- <-. cbn [length]. lia.
      * cbn [length] in Hn. destruct (c2 =? 34).
        -- destruct (scan_string b'') as [[s1 r1]|] eqn:E; [|discriminate]. injection H as <- <-.
           apply IH in E; [|lia]. cbn [length]. lia.
        -- injection H as <- <-. cbn [length]. lia.
    + destruct (scan_string b') as [[s1 r1]|] eqn:E; [|discriminate]. injection H as <- <-.
      apply IH in E; [|lia]. cbn [length]. lia.
Qed.

Lemma scan_expr_length : forall b s r, scan_expr b = Some (s, r) -> (length r <= length b)%nat.
Proof.
  induction b as [|c b IH]; intros s r H; [discriminate|]. cbn [scan_expr] in H.
  destruct (c =? 41).
  - injection H as <- <-. cbn [length]. lia.
  - destruct (c =? 40); [discriminate|].
    destruct (scan_expr b) as [[s1 r1]|] eqn:E; [|discriminate]. injection H as <- <-.
    specialize (IH _ _ eq_refl). cbn [length]. lia.
Qed.

Lemma decode_hash_length : forall b it r, decode_hash b = Some (it, r) -> (length r <= length b)%nat.
Proof.
  intros b it r H. unfold decode_hash in H. destruct b as [|c r0]; [discriminate|].
  destruct ((49 <=? c) && (c <=? 57)).
  - cbv zeta in H.
    destruct (Nat.ltb (length r0) (N.to_nat (c - 48))); [discriminate|].
    destruct (forallb is_digit (firstn (N.to_nat (c - 48)) r0)); [|discriminate].
    destruct (Nat.ltb _ _); [discriminate|]. injection H as _ <-.
    rewrite !skipn_length. cbn [length]. lia.
  - destruct (radix_of c) as [radix|]; [|discriminate].
    destruct (fst (span (nd_digit radix) r0)); [discriminate|]. injection H as _ <-.
    pose proof (span_length (nd_digit radix) r0). cbn [length]. lia.
Qed.

(* every element consumes at least one byte *)
Lemma decode_item_shrinks : forall b it r, decode_item b = Some (it, r) -> (length r < length b)%nat.
Proof.
  intros b it r H. unfold decode_item in H. destruct b as [|c b']; [discriminate|]. cbn [length].
  destruct (c =? 34).
  { destruct (scan_string b') as [[s r1]|] eqn:E; [|discriminate]. injection H as _ <-.
    apply (scan_string_length (length b')) in E; lia. }
  destruct (c =? 35).
  { apply decode_hash_length in H. lia. }
  destruct (c =? 40).
  { destruct (scan_expr b') as [[s r1]|] eqn:E; [|discriminate]. injection H as _ <-.
    apply scan_expr_length in E. lia. }
  destruct (is_alpha c).
  { injection H as _ <-. pose proof (span_length is_char_byte b'). lia. }
  destruct (is_num_start c); [|discriminate].
  injection H as _ <-. pose proof (span_length is_text_byte b'). lia.
Qed.

(* ... hence any fuel above the length of the input gives the same answer *)
Theorem decode_from_fuel : forall f1 f2 b,
  (length b < f1)%nat -> (length b < f2)%nat -> decode_from f1 b = decode_from f2 b.
Proof.
  induction f1 as [|f1 IH]; intros f2 b H1 H2; [lia|]. destruct f2 as [|f2]; [lia|].
  cbn [decode_from]. destruct (decode_item b) as [[it r]|] eqn:E; [|reflexivity].
  apply decode_item_shrinks in E. destruct r as [|c r']; [reflexivity|]. cbn [length] in E.
  rewrite (IH f2 r') by lia. reflexivity.
Qed.

Corollary decode_response_fuel : forall b fuel,
  (length b < fuel)%nat -> decode_from fuel b = decode_response b.
Proof. intros b fuel H. unfold decode_response. apply decode_from_fuel; lia. Qed.

(* the three ways a message continues after an element *)
Lemma decode_comma : forall b it r' u us,
  decode_item b = Some (it, 44 :: r') -> decode_response r' = Some (u :: us) ->
  decode_response b = Some ((it :: u) :: us).
Proof.
  intros b it r' u us Hi Hr. unfold decode_response at 1. cbn [decode_from]. rewrite Hi.
  change (44 =? 44) with true. cbv iota.
  apply decode_item_shrinks in Hi. cbn [length] in Hi.
  rewrite decode_response_fuel by lia. rewrite Hr. reflexivity.
Qed.

Lemma decode_semi : forall b it r' us,
  decode_item b = Some (it, 59 :: r') -> decode_response r' = Some us ->
  decode_response b = Some ([it] :: us).
Proof.
  intros b it r' us Hi Hr. unfold decode_response at 1. cbn [decode_from]. rewrite Hi.
  change (59 =? 44) with false. change (59 =? 59) with true. cbv iota.
  apply decode_item_shrinks in Hi. cbn [length] in Hi.
  rewrite decode_response_fuel by lia. rewrite Hr. reflexivity.
Qed.

Lemma decode_nl : forall b it,
  decode_item b = Some (it, [10]) -> decode_response b = Some [[it]].
Proof.
  intros b it Hi. unfold decode_response. cbn [decode_from]. rewrite Hi. reflexivity.
Qed.

(* ================================================================== *)
(* 2. one element: the text of an item, followed by a separator,       *)
(*    decodes to that item and stops exactly at the separator          *)
(* ================================================================== *)

(* proof device: the text of a decoded item (the formatter's text of the datum it came from) *)
Definition item_text (i : item) : list byte :=
  match i with
  | INum z => fmt_Z z
  | INonDec r n => radix_prefix r ++ fmt_radix r n
  | IStr s => 34 :: double_q 34 s ++ [34]
  | IBlock p => 35 :: (48 + N.of_nat (length (fmt_N (N.of_nat (length p))))) :: fmt_N (N.of_nat (length p)) ++ p
  | IChar s => s
  | IExpr s => 40 :: s ++ [41]
  | IText s => s
  end.
Definition item_ok (i : item) : bool :=
  match i with
  | INum _ => true
  | INonDec r _ => (r =? 16) || (r =? 8) || (r =? 2)
  | IStr _ => true
  | IBlock p => N.of_nat (length p) <? 1000000000
  | IChar s => char_ok s
  | IExpr s => expr_body_ok s
  | IText s => text_ok s
  end.
Definition enc_unit (u : list item) : list byte := intercalate [44] (map item_text u).

Definition sep_start (rest : list byte) : Prop := exists c r, rest = c :: r /\ is_sep c = true.

Ltac unf_dec :=
  unfold is_text_byte, is_sep, is_char_byte, is_num_start, nd_digit, nd_value in *; unf_classes.
Ltac dsolve := solve [ unf_dec; lia ].

Lemma span_app : forall p s rest,
  forallb p s = true -> match rest with [] => True | c :: _ => p c = false end ->
  span p (s ++ rest) = (s, rest).
Proof.
  intros p. induction s as [|c s IH]; intros rest Hs Hr.
  - cbn [app]. destruct rest as [|c r]; [reflexivity|]. cbn [span]. rewrite Hr. reflexivity.
  - cbn [forallb] in Hs. apply andb_prop in Hs. destruct Hs as [Hc Hs].
    cbn [app span]. rewrite Hc, (IH rest Hs Hr). reflexivity.
Qed.

Lemma span_sep : forall p s rest,
  forallb p s = true -> (forall c, is_sep c = true -> p c = false) -> sep_start rest ->
  span p (s ++ rest) = (s, rest).
Proof.
  intros p s rest Hs Hp (c & r & -> & Hc). apply span_app; [exact Hs | apply Hp; exact Hc].
Qed.

Lemma forallb_imp : forall (p q : byte -> bool) l,
  (forall x, p x = true -> q x = true) -> forallb p l = true -> forallb q l = true.
Proof.
  intros p q l Hpq. induction l as [|x l IH]; intros H; [reflexivity|].
  cbn [forallb] in *. apply andb_prop in H. destruct H as [Hx Hl].
  rewrite (Hpq x Hx), (IH Hl). reflexivity.
Qed.

Lemma firstn_app_exact : forall {A} (a b : list A), firstn (length a) (a ++ b) = a.
Proof. induction a as [|x a IH]; intros b; cbn [length firstn app]; [reflexivity | rewrite IH; reflexivity]. Qed.
Lemma skipn_app_exact' : forall {A} (a b : list A), skipn (length a) (a ++ b) = b.
Proof. induction a as [|x a IH]; intros b; cbn [length skipn app]; [reflexivity | apply IH]. Qed.

(* ---- strings ---- *)
Lemma scan_string_double : forall s rest,
  match rest with [] => True | c :: _ => (c =? 34) = false end ->
  scan_string (double_q 34 s ++ 34 :: rest) = Some (s, rest).
Proof.
  induction s as [|c s IH]; intros rest Hr.
  - cbn [double_q app scan_string]. change (34 =? 34) with true. cbv iota.
    destruct rest as [|c2 r]; [reflexivity|]. rewrite Hr. reflexivity.
  - cbn [double_q]. destruct (c =? 34) eqn:E.
    + apply N.eqb_eq in E. subst c. cbn [app scan_string]. change (34 =? 34) with true. cbv iota.
      rewrite (IH rest Hr). reflexivity.
    + cbn [app scan_string]. rewrite E, (IH rest Hr). reflexivity.
Qed.

Lemma decode_item_str : forall s rest, sep_start rest ->
  decode_item (item_text (IStr s) ++ rest) = Some (IStr s, rest).
Proof.
  intros s rest (c & r & -> & Hc). cbn [item_text app]. rewrite <- app_assoc. cbn [app decode_item].
  change (34 =? 34) with true. cbv iota.
  rewrite scan_string_double; [reflexivity|]. dsolve.
Qed.

(* ---- expressions ---- *)
Lemma scan_expr_app : forall s rest, expr_body_ok s = true ->
  scan_expr (s ++ 41 :: rest) = Some (s, rest).
Proof.
  unfold expr_body_ok. induction s as [|c s IH]; intros rest Hs.
  - cbn [app scan_expr]. change (41 =? 41) with true. reflexivity.
  - cbn [forallb] in Hs. apply andb_prop in Hs. destruct Hs as [Hc Hs].
    cbn [app scan_expr]. replace (c =? 41) with false by lia. replace (c =? 40) with false by lia.
    rewrite (IH rest Hs). reflexivity.
Qed.

Lemma decode_item_expr : forall s rest, expr_body_ok s = true ->
  decode_item (item_text (IExpr s) ++ rest) = Some (IExpr s, rest).
Proof.
  intros s rest Hs. cbn [item_text app]. rewrite <- app_assoc. cbn [app decode_item].
  change (40 =? 34) with false. change (40 =? 35) with false. change (40 =? 40) with true. cbv iota.
  rewrite scan_expr_app by exact Hs. reflexivity.
Qed.

(* ---- character data ---- *)
Lemma decode_item_char : forall s rest, char_ok s = true -> sep_start rest ->
  decode_item (item_text (IChar s) ++ rest) = Some (IChar s, rest).
Proof.
  intros s rest Hs Hr. cbn [item_text]. destruct s as [|c s]; [discriminate Hs|].
  cbn [char_ok] in Hs. apply andb_prop in Hs. destruct Hs as [Hc Hs].
  cbn [app decode_item].
  replace (c =? 34) with false by bsolve. replace (c =? 35) with false by bsolve.
  replace (c =? 40) with false by bsolve. rewrite Hc.
  rewrite span_sep; [reflexivity | exact Hs | intros x Hx; dsolve | exact Hr].
Qed.

(* ---- numeric runs ---- *)
Lemma decode_item_run : forall c t rest,
  is_num_start c = true -> forallb is_text_byte t = true -> sep_start rest ->
  decode_item ((c :: t) ++ rest) = Some (classify_run (c :: t), rest).
Proof.
  intros c t rest Hc Ht Hr. cbn [app decode_item].
  replace (c =? 34) with false by dsolve. replace (c =? 35) with false by dsolve.
  replace (c =? 40) with false by dsolve. replace (is_alpha c) with false by dsolve.
  rewrite Hc. rewrite span_sep; [reflexivity | exact Ht | intros x Hx; dsolve | exact Hr].
Qed.

Lemma decode_item_text_run : forall s rest, text_ok s = true -> sep_start rest ->
  decode_item (item_text (IText s) ++ rest) = Some (IText s, rest).
Proof.
  intros s rest Hs Hr. cbn [item_text]. destruct s as [|c t]; [discriminate Hs|].
  unfold text_ok in Hs. apply andb_prop in Hs. destruct Hs as [Hs Hi].
  apply andb_prop in Hs. destruct Hs as [Hc Ht].
  rewrite decode_item_run by assumption. unfold classify_run.
  destruct (int_form (c :: t)); [discriminate Hi | reflexivity].
Qed.

Lemma dec_val_digits_val : forall ds a,
  fold_left (fun a d => a * 10 + (d - 48)) ds a = digits_val ds a.
Proof. induction ds as [|d ds IH]; intros a; [reflexivity|]. cbn [fold_left digits_val]. apply IH. Qed.

Lemma dec_val_fmt_N : forall n, dec_val (fmt_N n) = n.
Proof. intros n. unfold dec_val. rewrite dec_val_digits_val. apply fmt_N_val. Qed.

Lemma all_digits1_fmt_N : forall n, all_digits1 (fmt_N n) = true.
Proof.
  intros n. unfold all_digits1. pose proof (fmt_N_nonempty n) as Hne.
  destruct (fmt_N n) as [|d t] eqn:E; [congruence|]. rewrite <- E. apply Grammar_proofs.fmt_N_digits.
Qed.

Lemma int_form_fmt_Z : forall z, int_form (fmt_Z z) = Some z.
Proof.
  intros [|p|p]; cbn [fmt_Z].
  - reflexivity.
  - destruct (fmt_N_head (N.pos p)) as (d & t & Heq & Hd).
    pose proof (all_digits1_fmt_N (N.pos p)) as Ha. pose proof (dec_val_fmt_N (N.pos p)) as Hv.
    rewrite Heq in *. unfold int_form.
    replace (d =? 45) with false by bsolve. replace (d =? 43) with false by bsolve.
    rewrite Ha, Hv. reflexivity.
  - unfold int_form. change (45 =? 45) with true. cbv iota.
    rewrite all_digits1_fmt_N, dec_val_fmt_N. reflexivity.
Qed.

Lemma digit_text_byte : forall x, is_digit x = true -> is_text_byte x = true.
Proof. intros x Hx. dsolve. Qed.

Lemma fmt_Z_shape : forall z, exists c t,
  fmt_Z z = c :: t /\ is_num_start c = true /\ forallb is_text_byte t = true.
Proof.
  intros [|p|p]; cbn [fmt_Z].
  - exists 48, []. repeat split; reflexivity.
  - destruct (fmt_N_head (N.pos p)) as (d & t & Heq & Hd).
    pose proof (Grammar_proofs.fmt_N_digits (N.pos p)) as Hds. rewrite Heq in *.
    cbn [forallb] in Hds. apply andb_prop in Hds. destruct Hds as [_ Hds].
    exists d, t. split; [reflexivity|]. split; [dsolve|].
    apply (forallb_imp is_digit); [apply digit_text_byte | exact Hds].
  - exists 45, (fmt_N (N.pos p)). split; [reflexivity|]. split; [reflexivity|].
    apply (forallb_imp is_digit); [apply digit_text_byte | apply Grammar_proofs.fmt_N_digits].
Qed.

Lemma decode_item_num : forall z rest, sep_start rest ->
  decode_item (item_text (INum z) ++ rest) = Some (INum z, rest).
Proof.
  intros z rest Hr. cbn [item_text].
  destruct (fmt_Z_shape z) as (c & t & Heq & Hc & Ht).
  pose proof (int_form_fmt_Z z) as Hi. rewrite Heq in *.
  rewrite decode_item_run by assumption. unfold classify_run. rewrite Hi. reflexivity.
Qed.

(* ---- definite-length blocks: the payload is never looked at ---- *)
Lemma decode_hash_block : forall c ld p rest,
  (1 <= length ld <= 9)%nat -> c = 48 + N.of_nat (length ld) ->
  forallb is_digit ld = true -> dec_val ld = N.of_nat (length p) ->
  decode_hash (c :: ld ++ p ++ rest) = Some (IBlock p, rest).
Proof.
  intros c ld p rest Hn Hc Hd Hv. unfold decode_hash.
  replace ((49 <=? c) && (c <=? 57)) with true by lia. cbv zeta.
  replace (N.to_nat (c - 48)) with (length ld) by lia.
  replace (Nat.ltb (length (ld ++ p ++ rest)) (length ld)) with false
    by (symmetry; apply Nat.ltb_ge; rewrite app_length; lia).
  rewrite firstn_app_exact, skipn_app_exact', Hd, Hv, Nat2N.id.
  replace (Nat.ltb (length (p ++ rest)) (length p)) with false
    by (symmetry; apply Nat.ltb_ge; rewrite app_length; lia).
  rewrite firstn_app_exact, skipn_app_exact'. reflexivity.
Qed.

Lemma decode_item_block : forall p rest, N.of_nat (length p) < 1000000000 ->
  decode_item (item_text (IBlock p) ++ rest) = Some (IBlock p, rest).
Proof.
  intros p rest Hp. cbn [item_text app]. rewrite <- app_assoc. cbn [decode_item].
  change (35 =? 34) with false. change (35 =? 35) with true. cbv iota.
  apply decode_hash_block.
  - split; [apply fmt_N_length_pos | apply block_len_9; exact Hp].
  - reflexivity.
  - apply Grammar_proofs.fmt_N_digits.
  - apply dec_val_fmt_N.
Qed.

(* ---- #H / #Q / #B ---- *)
Lemma decode_hash_nondec : forall l r ds rest,
  radix_of l = Some r -> ((49 <=? l) && (l <=? 57)) = false -> ds <> [] ->
  forallb (nd_digit r) ds = true -> sep_start rest ->
  decode_hash (l :: ds ++ rest) = Some (INonDec r (nd_val r ds), rest).
Proof.
  intros l r ds rest Hl Hnd Hne Hds Hr. unfold decode_hash. rewrite Hnd, Hl.
  rewrite span_sep; [| exact Hds | intros x Hx; dsolve | exact Hr].
  cbn [fst snd]. destruct ds; [congruence | reflexivity].
Qed.

Lemma nd_digit_radix_char : forall r d, r <= 16 -> d < r -> nd_digit r (radix_char d) = true.
Proof.
  intros r d Hr Hd. unfold nd_digit, nd_value, radix_char. destruct (d <? 10) eqn:E.
  - replace (is_digit (48 + d)) with true by bsolve. lia.
  - replace (is_digit (55 + d)) with false by bsolve. lia.
Qed.

Lemma radix_aux_nd : forall r f n acc, 2 <= r <= 16 ->
  forallb (nd_digit r) acc = true -> forallb (nd_digit r) (radix_aux f r n acc) = true.
Proof.
  intros r. induction f as [|f IH]; intros n acc Hr Hacc; cbn [radix_aux]; [exact Hacc|].
  assert (Hd : forallb (nd_digit r) (radix_char (n mod r) :: acc) = true).
  { cbn [forallb]. rewrite Hacc. pose proof (N.mod_lt n r ltac:(lia)).
    rewrite nd_digit_radix_char by lia. reflexivity. }
  destruct (n / r =? 0); [exact Hd | apply IH; [exact Hr | exact Hd]].
Qed.

Lemma fmt_radix_nd : forall r n, 2 <= r <= 16 -> forallb (nd_digit r) (fmt_radix r n) = true.
Proof. intros r n Hr. unfold fmt_radix. apply radix_aux_nd; [exact Hr | reflexivity]. Qed.

Lemma nd_value_digit_value : forall r d, nd_digit r d = true -> nd_value d = digit_value d.
Proof.
  intros r d H. unfold nd_digit, nd_value, digit_value in *. destruct (is_digit d) eqn:E; [reflexivity|].
  replace (is_upper d) with true by bsolve. reflexivity.
Qed.

Lemma nd_val_value : forall r ds a, forallb (nd_digit r) ds = true ->
  fold_left (fun a d => a * r + nd_value d) ds a = fold_left (fun acc d => acc * r + digit_value d) ds a.
Proof.
  intros r. induction ds as [|d ds IH]; intros a H; [reflexivity|].
  cbn [forallb] in H. apply andb_prop in H. destruct H as [Hd Hds].
  cbn [fold_left]. rewrite (nd_value_digit_value r d Hd). apply IH. exact Hds.
Qed.

Lemma nd_val_fmt_radix : forall r n, 2 <= r <= 16 -> nd_val r (fmt_radix r n) = n.
Proof.
  intros r n Hr. unfold nd_val. rewrite nd_val_value by (apply fmt_radix_nd; exact Hr).
  apply (fmt_radix_val r n Hr).
Qed.

Lemma decode_item_nondec : forall r n rest, (r = 16 \/ r = 8 \/ r = 2) -> sep_start rest ->
  decode_item (item_text (INonDec r n) ++ rest) = Some (INonDec r n, rest).
Proof.
  intros r n rest Hr Hrest. assert (Hr' : 2 <= r <= 16) by lia.
  assert (H : forall l, radix_of l = Some r -> ((49 <=? l) && (l <=? 57)) = false ->
            decode_item ((35 :: l :: fmt_radix r n) ++ rest) = Some (INonDec r n, rest)).
  { intros l Hl Hnd. cbn [app decode_item].
    change (35 =? 34) with false. change (35 =? 35) with true. cbv iota.
    rewrite <- (nd_val_fmt_radix r n Hr') at 2.
    apply decode_hash_nondec; [exact Hl | exact Hnd | apply fmt_radix_nonempty
                              | apply fmt_radix_nd; exact Hr' | exact Hrest]. }
  cbn [item_text]. destruct Hr as [-> | [-> | ->]].
  - apply (H 72); reflexivity.
  - apply (H 81); reflexivity.
  - apply (H 66); reflexivity.
Qed.

(* ---- every element ---- *)
Theorem decode_item_text : forall i rest, item_ok i = true -> sep_start rest ->
  decode_item (item_text i ++ rest) = Some (i, rest).
Proof.
  intros [z|r n|s|p|s|s|s] rest Hok Hr; cbn [item_ok] in Hok.
  - apply decode_item_num; exact Hr.
  - apply decode_item_nondec; [lia | exact Hr].
  - apply decode_item_str; exact Hr.
  - apply decode_item_block. lia.
  - apply decode_item_char; assumption.
  - apply decode_item_expr; assumption.
  - apply decode_item_text_run; assumption.
Qed.

(* ================================================================== *)
(* 3. a whole message of items                                         *)
(* ================================================================== *)
Definition enc_message (uis : list (list item)) : list byte :=
  intercalate [59] (map enc_unit uis) ++ [10].

Lemma sep_start_cons : forall c r, is_sep c = true -> sep_start (c :: r).
Proof. intros c r H. exists c, r. split; [reflexivity | exact H]. Qed.

Lemma enc_unit_cons2 : forall i j u, enc_unit (i :: j :: u) = item_text i ++ 44 :: enc_unit (j :: u).
Proof. reflexivity. Qed.

Lemma decode_unit : forall u i tail R,
  forallb item_ok (i :: u) = true ->
  (forall it, item_ok it = true -> decode_response (item_text it ++ tail) = Some ([it] :: R)) ->
  decode_response (enc_unit (i :: u) ++ tail) = Some ((i :: u) :: R).
Proof.
  induction u as [|j u IH]; intros i tail R Hok Htail;
    cbn [forallb] in Hok; apply andb_prop in Hok; destruct Hok as [Hi Hu].
  - apply Htail. exact Hi.
  - rewrite enc_unit_cons2, <- app_assoc. cbn [app].
    eapply decode_comma.
    + apply decode_item_text; [exact Hi | apply sep_start_cons; reflexivity].
    + apply IH; [exact Hu | exact Htail].
Qed.

Lemma enc_message_cons2 : forall u v us,
  enc_message (u :: v :: us) = enc_unit u ++ 59 :: enc_message (v :: us).
Proof.
  intros u v us. unfold enc_message. cbn [map]. rewrite intercalate_cons2, <- !app_assoc. reflexivity.
Qed.

Theorem decode_enc_message : forall uis,
  uis <> [] -> Forall (fun u => u <> [] /\ forallb item_ok u = true) uis ->
  decode_response (enc_message uis) = Some uis.
Proof.
  induction uis as [|u uis IH]; intros Hne HF; [congruence|].
  inversion HF as [|? ? [Hu Hok] HF']; subst.
  destruct u as [|i u]; [congruence|].
  destruct uis as [|v us].
  - unfold enc_message. cbn [map intercalate]. apply decode_unit; [exact Hok|].
    intros it Hit. apply decode_nl. apply decode_item_text; [exact Hit | apply sep_start_cons; reflexivity].
  - rewrite enc_message_cons2. apply decode_unit; [exact Hok|].
    intros it Hit. eapply decode_semi.
    + apply decode_item_text; [exact Hit | apply sep_start_cons; reflexivity].
    + apply IH; [discriminate | exact HF'].
Qed.

(* ================================================================== *)
(* 4. the text of a decodable datum is the text of its items           *)
(* ================================================================== *)
Section RdataInd.
Variable P : rdata -> Prop.
Hypothesis Hleaf : forall d, match d with RList _ => False | _ => True end -> P d.
Hypothesis Hlist : forall l, Forall P l -> P (RList l).
Fixpoint rdata_ind' (d : rdata) : P d :=
  match d with
  | RList l =>
    Hlist l ((fix go (l : list rdata) : Forall P l :=
                match l with
                | [] => Forall_nil P
                | x :: l' => Forall_cons x (rdata_ind' x) (go l')
                end) l)
  | RInt z => Hleaf (RInt z) I
  | RRadix r n => Hleaf (RRadix r n) I
  | RBool b => Hleaf (RBool b) I
  | RStr s => Hleaf (RStr s) I
  | RBlock s => Hleaf (RBlock s) I
  | RChar s => Hleaf (RChar s) I
  | RExpr s => Hleaf (RExpr s) I
  | RErrItem e => Hleaf (RErrItem e) I
  | RText s => Hleaf (RText s) I
  | RFailing c => Hleaf (RFailing c) I
  end.
End RdataInd.

Definition datum_good (d : rdata) : Prop :=
  response_text d = (enc_unit (items_of d), None)
  /\ items_of d <> [] /\ forallb item_ok (items_of d) = true.

Lemma intercalate_app : forall sep (a b : list (list byte)), a <> [] -> b <> [] ->
  intercalate sep (a ++ b) = intercalate sep a ++ sep ++ intercalate sep b.
Proof.
  intros sep [|x a] [|y b] Ha Hb; try congruence. cbn [app].
  rewrite !intercalate_cons, map_app, concat_app. cbn [map List.concat].
  rewrite <- !app_assoc. reflexivity.
Qed.

Lemma map_nonempty : forall {A B} (f : A -> B) l, l <> [] -> map f l <> [].
Proof. intros A B f [|x l] H; [congruence | discriminate]. Qed.

Lemma data_good_list : forall ds d, Forall datum_good (d :: ds) ->
  intercalate [44] (map text (d :: ds)) = enc_unit (flat_map items_of (d :: ds))
  /\ flat_map items_of (d :: ds) <> []
  /\ forallb item_ok (flat_map items_of (d :: ds)) = true.
Proof.
  induction ds as [|d2 ds IH]; intros d HF; inversion HF as [|? ? [Ht [Hne Hok]] HF']; subst.
  - cbn [map intercalate flat_map]. rewrite app_nil_r. unfold text. rewrite Ht. auto.
  - destruct (IH d2 HF') as (E & Ne & Ok).
    change (flat_map items_of (d :: d2 :: ds)) with (items_of d ++ flat_map items_of (d2 :: ds)).
    split; [|split].
    + cbn [map]. rewrite intercalate_cons2. change (text d2 :: map text ds) with (map text (d2 :: ds)).
      rewrite E. unfold enc_unit. rewrite map_app, intercalate_app by (apply map_nonempty; assumption).
      unfold text. rewrite Ht. reflexivity.
    + intros Habs. apply app_eq_nil in Habs. tauto.
    + rewrite forallb_app, Hok, Ok. reflexivity.
Qed.

(* error_text without the ASCII requirement when there is extended text *)
Lemma error_text' : forall e,
  match eext e with Some _ => true | None => all_ascii (error_message e) end = true ->
  response_text (RErrItem e)
  = (fmt_Z (ecode e) ++ (44 :: 34 :: double_q 34 (error_body e) ++ [34])%N, None).
Proof.
  intros e Hm. rewrite response_text_chunks. unfold error_body. cbn [chunks_of].
  destruct (eext e) as [x|].
  - cbn [fst snd]. repeat rewrite concat_app. repeat rewrite quoted_body_concat.
    rewrite double_q_app. cbn [double_q]. change (59 =? 34) with false. cbv iota.
    cbn [List.concat app]. repeat rewrite app_nil_r. repeat rewrite <- app_assoc. reflexivity.
  - rewrite Hm. cbn [fst snd]. repeat rewrite concat_app. rewrite quoted_body_concat.
    cbn [List.concat app]. repeat rewrite app_nil_r. repeat rewrite <- app_assoc. reflexivity.
Qed.

Lemma forallb_Forall_imp : forall (Q : rdata -> Prop) l,
  Forall (fun d => decodable d = true -> Q d) l -> forallb decodable l = true -> Forall Q l.
Proof.
  intros Q l HF. induction HF as [|x l Hx _ IH]; intros H; [constructor|].
  cbn [forallb] in H. apply andb_prop in H. destruct H as [H1 H2]. constructor; auto.
Qed.

Theorem decodable_good : forall d, decodable d = true -> datum_good d.
Proof.
  induction d as [d Hl | l IH] using rdata_ind'; intros Hd.
  - unfold datum_good. destruct d as [z|r n|b|s|s|s|s|e|s|l|c]; cbn [decodable items_of] in *.
    + rewrite int_text. repeat split; discriminate.
    + rewrite response_text_chunks. cbn [chunks_of fst snd List.concat]. rewrite app_nil_r.
      repeat split; [discriminate | cbn [forallb item_ok]; rewrite Hd; reflexivity].
    + destruct b; repeat split; discriminate.
    + rewrite string_text by exact Hd. repeat split; discriminate.
    + rewrite block_text by lia. repeat split; [discriminate | cbn [forallb item_ok]; rewrite Hd; reflexivity].
    + rewrite response_text_chunks. cbn [chunks_of fst snd List.concat]. rewrite app_nil_r.
      repeat split; [discriminate | cbn [forallb item_ok]; rewrite Hd; reflexivity].
    + rewrite response_text_chunks. cbn [chunks_of fst snd List.concat app].
      repeat split; [discriminate | cbn [forallb item_ok]; rewrite Hd; reflexivity].
    + rewrite error_text' by exact Hd. repeat split; discriminate.
    + rewrite response_text_chunks. cbn [chunks_of fst snd List.concat]. rewrite app_nil_r.
      repeat split; [discriminate | cbn [forallb item_ok]; rewrite Hd; reflexivity].
    + destruct Hl.
    + discriminate Hd.
  - destruct l as [|x xs]; [discriminate Hd|].
    change (decodable (RList (x :: xs))) with (forallb decodable (x :: xs)) in Hd.
    pose proof (forallb_Forall_imp datum_good _ IH Hd) as HF.
    destruct (data_good_list xs x HF) as (E & Ne & Ok).
    unfold datum_good. change (items_of (RList (x :: xs))) with (flat_map items_of (x :: xs)).
    split; [|split; assumption].
    rewrite list_text, E; [reflexivity|].
    eapply Forall_impl; [|exact HF]. intros y (Hy & _). unfold fmt_ok. rewrite Hy. reflexivity.
Qed.

(* ================================================================== *)
(* 5. what the model's ResponseUnit / Formatter leave in the buffer    *)
(* ================================================================== *)
Lemma item_text_nonempty : forall i, item_ok i = true -> item_text i <> [].
Proof.
  intros [z|r n|s|p|s|s|s] H; cbn [item_text item_ok] in *; try discriminate.
  - apply fmt_Z_nonempty.
  - unfold radix_prefix. destruct (r =? 16); [discriminate|]. destruct (r =? 8); discriminate.
  - destruct s; [discriminate H | discriminate].
  - destruct s; [discriminate H | discriminate].
Qed.

Lemma enc_unit_nonempty : forall u, u <> [] -> forallb item_ok u = true -> enc_unit u <> [].
Proof.
  intros [|i u] Hne Hok; [congruence|]. cbn [forallb] in Hok. apply andb_prop in Hok. destruct Hok as [Hi _].
  unfold enc_unit. cbn [map]. rewrite intercalate_cons. intros Habs. apply app_eq_nil in Habs.
  destruct Habs as [Habs _]. revert Habs. apply item_text_nonempty. exact Hi.
Qed.

Lemma unit_facts : forall ds, ds <> [] -> forallb decodable ds = true ->
  unit_text ds = enc_unit (flat_map items_of ds)
  /\ flat_map items_of ds <> [] /\ forallb item_ok (flat_map items_of ds) = true
  /\ Forall (fun x => snd (chunks_of x) = None) ds.
Proof.
  intros [|d ds] Hne Hd; [congruence|].
  assert (HF : Forall datum_good (d :: ds)).
  { apply (forallb_Forall_imp datum_good); [|exact Hd].
    apply Forall_forall. intros x _. apply decodable_good. }
  destruct (data_good_list ds d HF) as (E & Ne & Ok). unfold unit_text.
  repeat split; try assumption.
  eapply Forall_impl; [|exact HF]. intros y (Hy & _). rewrite <- response_text_snd, Hy. reflexivity.
Qed.

Lemma emit_unit_None : forall b ds, ds <> [] -> Forall (fun x => snd (chunks_of x) = None) ds ->
  emit_unit (mkFmt None b) ds
  = mkFmt None (b ++ match b with [] => [] | _ :: _ => [59] end ++ unit_text ds).
Proof.
  intros b [|x ds] Hne HF; [congruence|]. inversion HF as [|? ? Hx HF']; subst.
  unfold emit_unit. rewrite response_unit_None. cbn [fold_left fst snd]. unfold runit_new.
  rewrite ru_data_first, Hx, fold_data_more by exact HF'. cbn [fst].
  unfold unit_text. cbn [map]. rewrite intercalate_cons. change data_text with text.
  cbn [app]. rewrite <- !app_assoc. reflexivity.
Qed.

Definition unit_good (ds : list rdata) : Prop :=
  ds <> [] /\ Forall (fun x => snd (chunks_of x) = None) ds /\ unit_text ds <> [].

Lemma sep_of_nonempty : forall b : list byte, b <> [] ->
  match b with [] => [] | _ :: _ => [59] end = [59].
Proof. intros [|c b] H; [congruence | reflexivity]. Qed.

Lemma emit_fold : forall units b, units <> [] -> Forall unit_good units ->
  fold_left emit_unit units (mkFmt None b)
  = mkFmt None (b ++ match b with [] => [] | _ :: _ => [59] end ++ intercalate [59] (map unit_text units)).
Proof.
  induction units as [|u units IH]; intros b Hne HF; [congruence|].
  inversion HF as [|? ? (Hu & Hc & Ht) HF']; subst.
  cbn [fold_left]. rewrite emit_unit_None by assumption.
  destruct units as [|v us]; [reflexivity|].
  rewrite IH by (try discriminate; exact HF').
  rewrite (sep_of_nonempty (b ++ match b with [] => [] | _ :: _ => [59] end ++ unit_text u)).
  - cbn [map]. rewrite intercalate_cons2. cbn [map]. rewrite <- !app_assoc. reflexivity.
  - intros Habs. apply app_eq_nil in Habs. destruct Habs as [_ Habs].
    apply app_eq_nil in Habs. tauto.
Qed.

Lemma units_good : forall units,
  Forall (fun ds => ds <> [] /\ forallb decodable ds = true) units -> Forall unit_good units.
Proof.
  intros units HF. eapply Forall_impl; [|exact HF]. intros ds (Hne & Hd).
  destruct (unit_facts ds Hne Hd) as (E & Ne & Ok & Hc).
  split; [exact Hne | split; [exact Hc|]]. rewrite E. apply enc_unit_nonempty; assumption.
Qed.

(* [emit_message] is exactly the unit_texts form of Resp_proofs.framing:
   the unit texts joined by `;`, then NL; a unit text is its data texts joined by `,` *)
Theorem emit_message_text : forall units,
  units <> [] -> Forall (fun ds => ds <> [] /\ forallb decodable ds = true) units ->
  emit_message units = intercalate [59] (map unit_text units) ++ [10].
Proof.
  intros units Hne HF. unfold emit_message.
  rewrite emit_fold by (try exact Hne; apply units_good; exact HF).
  unfold message_end. rewrite push_None. reflexivity.
Qed.

(* ================================================================== *)
(* 6. the theorem                                                      *)
(* ================================================================== *)
Theorem response_decodes : forall units,
  units <> [] -> Forall (fun ds => ds <> [] /\ forallb decodable ds = true) units ->
  decode_response (emit_message units) = Some (map (flat_map items_of) units).
Proof.
  intros units Hne HF. rewrite emit_message_text by assumption.
  assert (E : map unit_text units = map enc_unit (map (flat_map items_of) units)).
  { rewrite map_map. apply map_ext_in. intros ds Hin.
    rewrite Forall_forall in HF. destruct (HF ds Hin) as (Hn & Hd).
    apply (unit_facts ds Hn Hd). }
  rewrite E. apply decode_enc_message.
  - destruct units; [congruence | discriminate].
  - apply Forall_forall. intros u Hin. apply in_map_iff in Hin. destruct Hin as (ds & <- & Hin).
    rewrite Forall_forall in HF. destruct (HF ds Hin) as (Hn & Hd).
    destruct (unit_facts ds Hn Hd) as (_ & Ne & Ok & _). auto.
Qed.

(* ... and for the dispatcher itself (Resp_proofs.framing): when a successful run has left the unit texts
   of [units] in its trace (header-less query units), what it wrote to the output buffer decodes to them *)
Corollary framed_run_decodes : forall (D : Type) (root : tree D) input d r units,
  run root input d (mkFmt None []) = Val r -> r_err r = None ->
  unit_texts (r_trace r) = map unit_text units ->
  units <> [] -> Forall (fun ds => ds <> [] /\ forallb decodable ds = true) units ->
  decode_response (r_out r) = Some (map (flat_map items_of) units).
Proof.
  intros D root input d r units Hrun Herr Htr Hne HF.
  rewrite (framing root input d r Hrun Herr).
  - rewrite Htr. destruct units as [|u us]; [congruence|].
    cbn [map]. change (unit_text u :: map unit_text us) with (map unit_text (u :: us)).
    rewrite <- emit_message_text by assumption. apply response_decodes; assumption.
  - rewrite Htr. apply Forall_forall. intros t Hin. apply in_map_iff in Hin. destruct Hin as (ds & <- & Hin).
    pose proof (units_good units HF) as HG. rewrite Forall_forall in HG. apply (HG ds Hin).
Qed.

(* no `;` is missing, duplicated or placed inside a unit *)
Corollary unit_count_preserved : forall units,
  units <> [] -> Forall (fun ds => ds <> [] /\ forallb decodable ds = true) units ->
  exists dec, decode_response (emit_message units) = Some dec /\ length dec = length units.
Proof.
  intros units Hne HF. eexists. split; [apply response_decodes; assumption | apply map_length].
Qed.

(* the number of elements a datum emits: an error item is two elements, a list the sum of its elements *)
Fixpoint n_elements (d : rdata) : nat :=
  match d with
  | RErrItem _ => 2
  | RList l => list_sum (map n_elements l)
  | RFailing _ => 0
  | _ => 1
  end.

Lemma items_of_length : forall d, length (items_of d) = n_elements d.
Proof.
  induction d as [d Hl | l IH] using rdata_ind'.
  - destruct d; try reflexivity. destruct Hl.
  - change (items_of (RList l)) with (flat_map items_of l).
    change (n_elements (RList l)) with (list_sum (map n_elements l)).
    induction IH as [|x l Hx _ IHl]; [reflexivity|].
    cbn [flat_map map list_sum]. rewrite app_length, Hx, IHl. reflexivity.
Qed.

Lemma flat_items_length : forall ds,
  length (flat_map items_of ds) = list_sum (map n_elements ds).
Proof.
  induction ds as [|d ds IH]; [reflexivity|].
  cbn [flat_map map list_sum]. rewrite app_length, items_of_length, IH. reflexivity.
Qed.

(* no `,` is missing, duplicated or placed inside an element *)
Corollary item_count_preserved : forall units,
  units <> [] -> Forall (fun ds => ds <> [] /\ forallb decodable ds = true) units ->
  exists dec, decode_response (emit_message units) = Some dec
    /\ map (@length item) dec = map (fun ds => list_sum (map n_elements ds)) units.
Proof.
  intros units Hne HF. eexists. split; [apply response_decodes; assumption|].
  rewrite map_map. apply map_ext. intros ds. apply flat_items_length.
Qed.

(* separators inside data are data: ANY ASCII string, ANY payload *)
Corollary separators_inside_string_are_data : forall s, all_ascii s = true ->
  decode_response (emit_message [[RStr s]; [RInt 1]]) = Some [[IStr s]; [INum 1]].
Proof.
  intros s Hs. rewrite response_decodes; [reflexivity | discriminate |].
  repeat constructor; try discriminate. cbn [forallb decodable]. rewrite Hs. reflexivity.
Qed.

Corollary separators_inside_block_are_data : forall p, N.of_nat (length p) < 1000000000 ->
  decode_response (emit_message [[RBlock p; RInt 2]]) = Some [[IBlock p; INum 2]].
Proof.
  intros p Hp. rewrite response_decodes; [reflexivity | discriminate |].
  repeat constructor; try discriminate. cbn [forallb decodable].
  replace (N.of_nat (length p) <? 1000000000) with true by lia. reflexivity.
Qed.

Corollary separators_inside_data_are_data :
  (forall s, all_ascii s = true ->
     decode_response (emit_message [[RStr s]; [RInt 1]]) = Some [[IStr s]; [INum 1]])
  /\ (forall p, N.of_nat (length p) < 1000000000 ->
     decode_response (emit_message [[RBlock p; RInt 2]]) = Some [[IBlock p; INum 2]]).
Proof. split; [apply separators_inside_string_are_data | apply separators_inside_block_are_data]. Qed.

(* the task's [decodable] for expressions and character data is covered *)
Lemma expr_char_ok_decodable : forall s, forallb expr_char_ok s = true -> decodable (RExpr s) = true.
Proof.
  intros s H. cbn [decodable]. unfold expr_body_ok.
  apply (forallb_imp expr_char_ok); [|exact H]. intros x Hx. bsolve.
Qed.

Lemma wf_mnemonic_decodable : forall m, wf_mnemonic m = true -> decodable (RChar m) = true.
Proof.
  intros [|x m] H; [discriminate H|]. cbn [decodable char_ok]. unfold wf_mnemonic in H.
  apply andb_prop in H. destruct H as [H _]. apply andb_prop in H. destruct H as [Hx Hm].
  rewrite Hx. apply (forallb_imp is_mnemonic_char); [|exact Hm]. intros y Hy. dsolve.
Qed.

(* ================================================================== *)
(* 7. why every hypothesis / every clause of [decodable] is needed     *)
(*    (each is the counterexample to the statement without it)         *)
(* ================================================================== *)
Fixpoint bs (s : string) : list byte :=
  match s with EmptyString => [] | String a s' => Ascii.N_of_ascii a :: bs s' end.

Definition refuted (units : list (list rdata)) (actual : option (list (list item))) : Prop :=
  decode_response (emit_message units) = actual /\ actual <> Some (map (flat_map items_of) units).

(* an RText of the form [+-]?digits is (rightly) decoded as an integer, not as text *)
Example rtext_integer_counterexample : refuted [[RText (bs "12")]] (Some [[INum 12]]).
Proof. split; [vm_compute; reflexivity | vm_compute; discriminate]. Qed.
(* an RText with a separator in it is two elements *)
Example rtext_separator_counterexample : refuted [[RText (bs "1,2")]] (Some [[INum 1; INum 2]]).
Proof. split; [vm_compute; reflexivity | vm_compute; discriminate]. Qed.
(* an RText that starts with `#` is a block (or refused); one that starts with a letter is character data *)
Example rtext_hash_counterexample : refuted [[RText (bs "#13a;b")]] (Some [[IBlock (bs "a;b")]]).
Proof. split; [vm_compute; reflexivity | vm_compute; discriminate]. Qed.
Example rtext_letter_counterexample : refuted [[RText (bs "NAN")]] (Some [[IChar (bs "NAN")]]).
Proof. split; [vm_compute; reflexivity | vm_compute; discriminate]. Qed.
(* an RChar that spells a number is a number; one with a space is refused *)
Example rchar_number_counterexample : refuted [[RChar (bs "12")]] (Some [[INum 12]]).
Proof. split; [vm_compute; reflexivity | vm_compute; discriminate]. Qed.
Example rchar_space_counterexample : refuted [[RChar (bs "A B")]] None.
Proof. split; [vm_compute; reflexivity | vm_compute; discriminate]. Qed.
(* a parenthesis inside an expression body breaks the framing *)
Example rexpr_paren_counterexample : refuted [[RExpr (bs "a)b")]] None /\ refuted [[RExpr (bs "a(b")]] None.
Proof. repeat split; try (vm_compute; reflexivity); vm_compute; discriminate. Qed.
(* a radix other than 16 / 8 / 2 is printed with the binary prefix *)
Example radix_counterexample : refuted [[RRadix 10 5]] None /\ refuted [[RRadix 10 1]] (Some [[INonDec 2 1]]).
Proof. repeat split; try (vm_compute; reflexivity); vm_compute; discriminate. Qed.
(* values whose formatting fails write nothing (and stop the unit) *)
Example rstr_non_ascii_counterexample : refuted [[RStr [200]]] None.
Proof. split; [vm_compute; reflexivity | vm_compute; discriminate]. Qed.
Example rlist_empty_counterexample : refuted [[RInt 1; RList []; RInt 2]] None.
Proof. split; [vm_compute; reflexivity | vm_compute; discriminate]. Qed.
Example rfailing_counterexample : refuted [[RInt 1; RFailing 5; RInt 2]] None.
Proof. split; [vm_compute; reflexivity | vm_compute; discriminate]. Qed.
(* an empty unit writes nothing, not even its `;` (response_unit looks at the buffer): the unit count changes *)
Example empty_unit_counterexample : refuted [[]; [RInt 1]] (Some [[INum 1]]).
Proof. split; [vm_compute; reflexivity | vm_compute; discriminate]. Qed.
(* the empty message is a lone NL, which is not a <RESPONSE MESSAGE> *)
Example empty_message_counterexample : refuted [] None.
Proof. split; [vm_compute; reflexivity | vm_compute; discriminate]. Qed.

(* ================================================================== *)
(* 8. non-vacuity                                                      *)
(* ================================================================== *)
(* three units: a string containing ; , and a quote, an integer | a block containing ; NL , a quote and a
   non-ASCII byte, an error item with extended text | a nested list, a float text, an expression *)
Definition ex_units : list (list rdata) :=
  [ [RStr (bs "a;,""b"); RInt (-7)];
    [RBlock [59; 10; 44; 34; 200]; RErrItem (ext_error (-113) (bs "x;y,z"))];
    [RList [RInt 1; RBool true; RList [RChar (bs "ABC_1"); RRadix 16 255]]; RText (bs "1.5E+3"); RExpr (bs "1,2;3")] ].

Example ex_units_hyps :
  ex_units <> [] /\ Forall (fun ds => ds <> [] /\ forallb decodable ds = true) ex_units.
Proof. split; [discriminate|]. repeat constructor; try discriminate; vm_compute; reflexivity. Qed.

Example ex_units_text :
  emit_message ex_units
  = bs """a;,""""b"",-7;#15;" ++ [10] ++ bs ",""" ++ [200]
    ++ bs ",-113,""Undefined header;x;y,z"";1,1,ABC_1,#HFF,1.5E+3,(1,2;3)" ++ [10].
Proof. vm_compute. reflexivity. Qed.

Example ex_units_decoded :
  decode_response (emit_message ex_units)
  = Some [ [IStr (bs "a;,""b"); INum (-7)];
           [IBlock [59; 10; 44; 34; 200]; INum (-113); IStr (bs "Undefined header;x;y,z")];
           [INum 1; INum 1; IChar (bs "ABC_1"); INonDec 16 255; IText (bs "1.5E+3"); IExpr (bs "1,2;3")] ].
Proof. vm_compute. reflexivity. Qed.

(* the same, as an instance of the theorem *)
Example ex_units_by_theorem :
  decode_response (emit_message ex_units) = Some (map (flat_map items_of) ex_units).
Proof. destruct ex_units_hyps as [Hne HF]. apply response_decodes; assumption. Qed.

Example ex_counts :
  map (@length item) (map (flat_map items_of) ex_units) = [2; 3; 6]%nat
  /\ map (fun ds => list_sum (map n_elements ds)) ex_units = [2; 3; 6]%nat.
Proof. split; vm_compute; reflexivity. Qed.

(* the decoder REJECTS broken framing: missing final NL, doubled `;`, `,` directly after `;`,
   a second NL, bytes after the NL, a `,` before the NL, an unterminated string, a short block *)
Example decoder_rejects :
  decode_response (bs "1;2" ++ [10]) = Some [[INum 1]; [INum 2]]
  /\ decode_response (bs "1;2") = None
  /\ decode_response (bs "1;;2" ++ [10]) = None
  /\ decode_response (bs "1;,2" ++ [10]) = None
  /\ decode_response (bs "1;2" ++ [10; 10]) = None
  /\ decode_response (bs "1;2" ++ [10] ++ bs "3" ++ [10]) = None
  /\ decode_response (bs "1;2," ++ [10]) = None
  /\ decode_response (bs """abc;1" ++ [10]) = None
  /\ decode_response (bs "#15ab" ++ [10]) = None
  /\ decode_response [10] = None
  /\ decode_response [] = None.
Proof. repeat split; vm_compute; reflexivity. Qed.

Print Assumptions decode_from_fuel.
Print Assumptions decode_item_text.
Print Assumptions decode_enc_message.
Print Assumptions decodable_good.
Print Assumptions emit_message_text.
Print Assumptions response_decodes.
Print Assumptions framed_run_decodes.
Print Assumptions unit_count_preserved.
Print Assumptions item_count_preserved.
Print Assumptions separators_inside_data_are_data.
Print Assumptions expr_char_ok_decodable.
Print Assumptions wf_mnemonic_decodable.
Print Assumptions rtext_integer_counterexample.
Print Assumptions empty_unit_counterexample.
Print Assumptions ex_units_decoded.
Print Assumptions ex_units_by_theorem.
Print Assumptions decoder_rejects.
