(* ErrSpec.v — specification side of C14, written from IEEE 488.2 §11.5.1 and
   SCPI-99 vol.2 §21.8; independent of the source tables. *)
From VF Require Import Base.
Open Scope Z_scope.

Definition in_i16 (c : Z) : Prop := -32768 <= c <= 32767.

(* Standard Event Status bit (as a mask) of the class an error/event number belongs to *)
Definition class_bit (c : Z) : N :=
  if (-99 <=? c) && (c <=? 0) then 0%N            (* no error / reserved: no bit *)
  else if (-199 <=? c) && (c <=? -100) then 32%N   (* command error, bit 5 *)
  else if (-299 <=? c) && (c <=? -200) then 16%N   (* execution error, bit 4 *)
  else if (-399 <=? c) && (c <=? -300) then 8%N    (* device-specific, bit 3 *)
  else if (-499 <=? c) && (c <=? -400) then 4%N    (* query error, bit 2 *)
  else if (-599 <=? c) && (c <=? -500) then 128%N  (* power on, bit 7 *)
  else if (-699 <=? c) && (c <=? -600) then 64%N   (* user request, bit 6 *)
  else if (-799 <=? c) && (c <=? -700) then 2%N    (* request control, bit 1 *)
  else if (-899 <=? c) && (c <=? -800) then 1%N    (* operation complete, bit 0 *)
  else 8%N.                                        (* positive / unclassified: device-specific *)

Definition is_command_error (c : Z) : bool := (-199 <=? c) && (c <=? -100).
Definition is_execution_error (c : Z) : bool := (-299 <=? c) && (c <=? -200).
