(* Base.v — bytes, byte classes, outcomes, results, errors.  Model file: no proofs. *)
From Coq Require Export NArith ZArith List Bool.
From Coq Require Export String.
Export ListNotations.
Notation length := List.length.
Open Scope N_scope.

Arguments N.add : simpl never.
Arguments N.sub : simpl never.
Arguments N.mul : simpl never.
Arguments N.eqb : simpl never.
Arguments N.ltb : simpl never.
Arguments N.leb : simpl never.

Notation byte := N (only parsing).

(* ---- byte classes (core u8 is_ascii_X) ---- *)
Definition is_digit (b : byte) : bool := (48 <=? b) && (b <=? 57).
Definition is_upper (b : byte) : bool := (65 <=? b) && (b <=? 90).
Definition is_lower (b : byte) : bool := (97 <=? b) && (b <=? 122).
Definition is_alpha (b : byte) : bool := is_upper b || is_lower b.
Definition is_alnum (b : byte) : bool := is_alpha b || is_digit b.
Definition is_ascii (b : byte) : bool := b <=? 127.
(* u8::is_ascii_whitespace: SP, HT, LF, FF, CR *)
Definition is_ws (b : byte) : bool :=
  (b =? 32) || (b =? 9) || (b =? 10) || (b =? 12) || (b =? 13).

Definition to_lower (b : byte) : byte := if is_upper b then b + 32 else b.
Definition to_upper (b : byte) : byte := if is_lower b then b - 32 else b.
(* u8::eq_ignore_ascii_case *)
Definition eq_nocase (a b : byte) : bool := to_lower a =? to_lower b.

Fixpoint bytes_eqb (a b : list byte) : bool :=
  match a, b with
  | [], [] => true
  | x :: a', y :: b' => (x =? y) && bytes_eqb a' b'
  | _, _ => false
  end.

(* <[u8]>::eq_ignore_ascii_case *)
Fixpoint bytes_eq_nocase (a b : list byte) : bool :=
  match a, b with
  | [], [] => true
  | x :: a', y :: b' => eq_nocase x y && bytes_eq_nocase a' b'
  | _, _ => false
  end.

(* ---- outcomes: every partial Rust operation is explicit (DESIGN 3.2) ---- *)
Inductive outcome (A : Type) : Type := Val (a : A) | Panic (site : string).
Arguments Val {A} a.
Arguments Panic {A} site.

Definition obind {A B} (x : outcome A) (f : A -> outcome B) : outcome B :=
  match x with Val a => f a | Panic s => Panic s end.
Notation "'let*' x ':=' e 'in' f" := (obind e (fun x => f))
  (at level 200, x pattern, right associativity).

Definition no_panic {A} (x : outcome A) : Prop := exists a, x = Val a.

(* checked primitives *)
Definition usub (a b : nat) : outcome nat :=
  if Nat.ltb a b then Panic "usize subtract overflow" else Val (a - b)%nat.
Definition slice_to {A} (s : list A) (k : nat) : outcome (list A) :=
  if Nat.ltb (length s) k then Panic "slice end out of range" else Val (firstn k s).

(* ---- SCPI results ---- *)
Inductive res (A : Type) : Type := Ok (a : A) | Err (code : Z).
Arguments Ok {A} a.
Arguments Err {A} code.

(* scpi::error::Error: code, and optional extended text.  The message text of a
   standard code is a function of the code (Gen_Errors.v); custom errors carry
   their own text. *)
Record error : Type := mkError {
  ecode : Z;
  ecustom : option (list byte);   (* Some msg for ErrorCode::Custom(code,msg) *)
  eext : option (list byte)       (* Error.1 *)
}.
Definition std_error (c : Z) : error := mkError c None None.
Definition ext_error (c : Z) (x : list byte) : error := mkError c None (Some x).

Definition opt_bytes_eqb (a b : option (list byte)) : bool :=
  match a, b with
  | None, None => true
  | Some x, Some y => bytes_eqb x y
  | _, _ => false
  end.
Definition error_eqb (a b : error) : bool :=
  Z.eqb (ecode a) (ecode b) && opt_bytes_eqb (ecustom a) (ecustom b)
  && opt_bytes_eqb (eext a) (eext b).
