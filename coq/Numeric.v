(* Numeric.v — model of scpi-contrib/src/scpi1999/numeric.rs: NumericValue<T>::try_from and
   NumericBuilder over an ABSTRACT carrier T with a (possibly partial) order, so that the
   theorems cover integers, floats (NaN: leb is not reflexive) and unit quantities alike.
   Model file: no proofs. *)
From VF Require Import Base Gen_Errors Lexer Mnemonic.

Definition kw_MAXimum : list byte := [77; 65; 88; 105; 109; 117; 109]%N.
Definition kw_MINimum : list byte := [77; 73; 78; 105; 109; 117; 109]%N.
Definition kw_DEFault : list byte := [68; 69; 70; 97; 117; 108; 116]%N.
Definition kw_UP : list byte := [85; 80]%N.
Definition kw_DOWN : list byte := [68; 79; 87; 78]%N.

Section Numeric.
Context {T : Type}.
Variable leb : T -> T -> bool.                 (* PartialOrd::le *)
Variable convT : token -> outcome (res T).     (* T::try_from(Token) *)
Variables tmax tmin : T.                       (* NumericValueDefaults *)

Inductive nv := NVal (t : T) | NMax | NMin | NDef | NUp | NDown.

Definition nv_value (tok : token) : outcome (res nv) :=
  let* r := convT tok in Val (match r with Ok t => Ok (NVal t) | Err e => Err e end).

(* TryFrom<Token> for NumericValue<T> *)
Definition nv_try_from (tok : token) : outcome (res nv) :=
  match tok with
  | TChar s =>
    if mnemonic_compare kw_MAXimum s then Val (Ok NMax)
    else if mnemonic_compare kw_MINimum s then Val (Ok NMin)
    else if mnemonic_compare kw_DEFault s then Val (Ok NDef)
    else if mnemonic_compare kw_UP s then Val (Ok NUp)
    else if mnemonic_compare kw_DOWN s then Val (Ok NDown)
    else nv_value tok
  | _ => nv_value tok
  end.

Record builder := mkBuilder { b_value : nv; b_max : T; b_min : T; b_default : option T }.
Inductive bop := BMax (t : T) | BMin (t : T) | BDefault (t : T).
Definition b_apply (b : builder) (o : bop) : builder :=
  match o with
  | BMax t => mkBuilder (b_value b) t (b_min b) (b_default b)
  | BMin t => mkBuilder (b_value b) (b_max b) t (b_default b)
  | BDefault t => mkBuilder (b_value b) (b_max b) (b_min b) (Some t)
  end.
(* value.build().<ops in order> *)
Definition build (v : nv) (ops : list bop) : builder := fold_left b_apply ops (mkBuilder v tmax tmin None).

(* NumericBuilder::finish *)
Definition finish (b : builder) : res T :=
  match b_value b with
  | NMax => Ok (b_max b)
  | NMin => Ok (b_min b)
  | NDef => match b_default b with Some d => Ok d | None => Err IllegalParameterValue end
  | NUp | NDown => Err IllegalParameterValue
  | NVal t => if leb t (b_max b) && leb (b_min b) t then Ok t else Err DataOutOfRange
  end.
End Numeric.
