(* GENERATED ONCE by tools/pin.py from Properties/C03.v and committed: the pinned statements. *)
From VF.Properties Require C03.
From VF Require Import Base Mnemonic MnemonicSpec Mnemonic_proofs.




Check (VF.Properties.C03.C03_match_is_spec : forall def cand, scpi_shape def ->
  mnemonic_match def cand = match_spec def cand).
Check (VF.Properties.C03.C03_match_iff : forall def cand, scpi_shape def ->
  (mnemonic_match def cand = true <->
   exists db ds cb cs, strip_digits def = (db, ds) /\ strip_digits cand = (cb, cs) /\
     norm_suffix ds = norm_suffix cs /\
     (bytes_eq_nocase (short_of db) cb = true \/ bytes_eq_nocase db cb = true))).
Check (VF.Properties.C03.C03_compare_keyword : forall U L s, keyword_shape U L ->
  mnemonic_compare (U ++ L) s = bytes_eq_nocase (U ++ L) s || bytes_eq_nocase U s).
Check (VF.Properties.C03.C03_compare_shape : forall P U L D s,
  (P = [] \/ P = [42]) -> U <> [] -> all_b is_upper U = true ->
  all_b is_lower L = true -> all_b is_digit D = true ->
  mnemonic_compare (P ++ U ++ L ++ D) s =
  bytes_eq_nocase (P ++ U ++ L ++ D) s || (is_nil D && bytes_eq_nocase (P ++ U) s)).
