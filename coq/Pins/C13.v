(* GENERATED ONCE by tools/pin.py from Properties/C13.v and committed: the pinned statements. *)
From VF.Properties Require C13.
From VF Require Import Base Gen_Errors ErrSpec Status Status_proofs Contrib ContribSpec Contrib_proofs Grammar MessageSpec ContribMeaning ContribMeaning_proofs.
Open Scope N_scope.



Check (VF.Properties.C13.C13_fail_queues_once : forall mav us d acc d' out e,
  msg_run mav d us acc = (d', out, Some e) ->
  exists pre post d1, us = pre ++ post /\ msg_run mav d pre acc = (d1, out, None)
    /\ (exists o, hd_error post = Some o /\ snd (sop_step mav d1 o) = Some e
          /\ let d2 := fst (fst (sop_step mav d1 o)) in
             queue d' = queue d2 ++ [e] /\ esr d' = N.lor (esr d2) (class_bit (ecode e))
             /\ ese d' = ese d2 /\ sre d' = sre d2 /\ oper d' = oper d2 /\ ques d' = ques d2)).
Check (VF.Properties.C13.C13_ok_queues_nothing : forall mav us d acc d' out,
  forallb quiet us = true -> msg_run mav d us acc = (d', out, None) ->
  is_suffix (queue d') (queue d) /\ (forall i, N.testbit (esr d') i = true -> N.testbit (esr d) i = true)).
Check (VF.Properties.C13.C13_syst_err_next : forall mav d,
  sop_step mav d SErrNext =
  match queue d with
  | [] => (d, Some [RErr (std_error 0%Z)], None)
  | e :: q => (set_queue d q, Some [RErr e], None)
  end).
Check (VF.Properties.C13.C13_syst_err_count : forall mav d,
  sop_step mav d SErrCount = (d, Some [RNum (N.of_nat (length (queue d)))], None)).
Check (VF.Properties.C13.C13_syst_err_all : forall mav d,
  sop_step mav d SErrAll =
  match queue d with
  | [] => (d, Some [RErr (std_error 0%Z)], None)
  | q => (set_queue d [], Some (map RErr q), None)
  end).
Check (VF.Properties.C13.C13_esr_read_clears : forall mav d,
  sop_step mav d SRdEsr = (set_esr d 0, Some [RNum (esr d)], None)).
Check (VF.Properties.C13.C13_full_stack_refines : forall msgs mav us,
  forallb (fun m => forallb renderable (snd m)) msgs = true -> forallb renderable us = true ->
  dev_message (session_ops dev_init msgs) mav (units_text us) = Val (op_message (session_ops dev_init msgs) mav us)).
Check (VF.Properties.C13.C13_full_stack_refines_iff : forall d,
  (forall mav us, forallb renderable us = true -> dev_message d mav (units_text us) = Val (op_message d mav us))
  <-> queue_printable d = true).
Check (VF.Properties.C13.C13_full_stack_all_messages : forall ms (m : msg) (mav : bool) (us : list sop),
  wf_msg m = true -> message_ops m = Some us ->
  dev_message (session_msgs dev_init ms) mav (render_msg m)
  = Val (with_stray m (op_message (session_msgs dev_init ms) mav us))).
Check (VF.Properties.C13.C13_full_stack_all_messages_exact : forall (m : msg) (mav : bool) (d : dev) (us : list sop),
  wf_msg m = true -> queue_printable d = true -> message_ops m = Some us ->
  (dev_message d mav (render_msg m) = Val (op_message d mav us) <-> stray_separator m = false)).
