(* GENERATED ONCE by tools/pin.py from Properties/C13.v and committed: the pinned statements. *)
From VF.Properties Require C13.
From VF Require Import Base Gen_Errors ErrSpec Status Status_proofs Contrib ContribSpec Contrib_proofs Grammar MessageSpec ContribMeaning ContribMeaning_proofs.
Open Scope N_scope.



Check (VF.Properties.C13.C13_fail_queues_once : forall mav us d acc d' out e,
  msg_run mav d us acc = (d', out, Some e) ->
  exists pre post d1, us = pre ++ post /\ msg_run mav d pre acc = (d1, out, None)
    /\ (exists o, hd_error post = Some o /\ snd (sop_step mav d1 o) = Some e
          /\ let d2 := fst (fst (sop_step mav d1 o)) in
             queue d' = queue d2 ++ [e] /\ esr d' = N.lor (esr d2) (class_bit (ecode e))
             /\ ese d' = ese d2 /\ sre d' = sre d2 /\ oper d' = oper d2 /\ ques d' = ques d2)).
Check (VF.Properties.C13.C13_ok_queues_nothing : forall mav us d acc d' out,
  forallb quiet us = true -> msg_run mav d us acc = (d', out, None) ->
  is_suffix (queue d') (queue d) /\ (forall i, N.testbit (esr d') i = true -> N.testbit (esr d) i = true)).
Check (VF.Properties.C13.C13_syst_err_next : forall mav d,
  sop_step mav d SErrNext =
  match queue d with
  | [] => (d, Some [RErr (std_error 0%Z)], None)
  | e :: q => (set_queue d q, Some [RErr e], None)
  end).
Check (VF.Properties.C13.C13_syst_err_count : forall mav d,
  sop_step mav d SErrCount = (d, Some [RNum (N.of_nat (length (queue d)))], None)).
Check (VF.Properties.C13.C13_syst_err_all : forall mav d,
  sop_step mav d SErrAll =
  match queue d with
  | [] => (d, Some [RErr (std_error 0%Z)], None)
  | q => (set_queue d [], Some (map RErr q), None)
  end).
Check (VF.Properties.C13.C13_esr_read_clears : forall mav d,
  sop_step mav d SRdEsr = (set_esr d 0, Some [RNum (esr d)], None)).
Check (VF.Properties.C13.C13_full_stack_refines : forall msgs mav us,
  forallb (fun m => forallb renderable (snd m)) msgs = true -> forallb renderable us = true ->
  dev_message (session_ops dev_init msgs) mav (units_text us) = Val (op_message (session_ops dev_init msgs) mav us)).
Check (VF.Properties.C13.C13_full_stack_refines_iff : forall d,
  (forall mav us, forallb renderable us = true -> dev_message d mav (units_text us) = Val (op_message d mav us))
  <-> queue_printable d = true).
Check (VF.Properties.C13.C13_full_stack_all_messages : forall ms (m : msg) (mav : bool) (us : list sop),
  wf_msg m = true -> message_ops m = Some us ->
  dev_message (session_msgs dev_init ms) mav (render_msg m)
  = Val (with_stray m (op_message (session_msgs dev_init ms) mav us))).
Check (VF.Properties.C13.C13_full_stack_all_messages_exact : forall (m : msg) (mav : bool) (d : dev) (us : list sop),
  wf_msg m = true -> queue_printable d = true -> message_ops m = Some us ->
  (dev_message d mav (render_msg m) = Val (op_message d mav us) <-> stray_separator m = false)).
From VF Require Import Gen_Esr ErrTable Lexer Tree Tree_invariant Contrib_anybytes.


Check (VF.Properties.C13.C13_dev_message_any_bytes : forall d mav bytes d' out r,
  dev_message d mav bytes = Val (d', out, r) ->
  exists dh, quiet_step d dh /\
    match r with
    | None => d' = dh
    | Some e => d' = push_error dh e
    end).
Check (VF.Properties.C13.C13_any_failed_message_queues_its_error_last : forall d mav bytes d' out e,
  dev_message d mav bytes = Val (d', out, Some e) ->
  exists q, queue d' = q ++ [e] /\ (forall x, In x q -> In x (queue d) \/ x = std_error OperationComplete)
  /\ N.land (esr d') (error_esr_mask e) = error_esr_mask e
  /\ (forall i, N.testbit err_bits i = true -> N.testbit (esr d') i = true ->
        N.testbit (esr d) i = true \/ N.testbit (error_esr_mask e) i = true)).
Check (VF.Properties.C13.C13_any_failed_message_exact : forall d mav bytes d' out e,
  dev_message d mav bytes = Val (d', out, Some e) ->
  exists n k dh,
    queue d' = skipn n (queue d) ++ repeat (std_error OperationComplete) k ++ [e]
    /\ esr d' = N.lor (esr dh) (error_esr_mask e)
    /\ (forall i, N.testbit (esr dh) i = true -> N.testbit (esr d) i = true \/ i = 0)
    /\ tst_result d' = tst_result d
    /\ ese d' = ese dh /\ sre d' = sre dh /\ oper d' = oper dh /\ ques d' = ques dh).
Check (VF.Properties.C13.C13_any_successful_message_queues_no_error : forall d mav bytes d' out,
  dev_message d mav bytes = Val (d', out, None) ->
  (forall x, In x (queue d') -> In x (queue d) \/ x = std_error OperationComplete)
  /\ (forall i, N.testbit err_bits i = true -> N.testbit (esr d') i = true -> N.testbit (esr d) i = true)).
Check (VF.Properties.C13.C13_any_successful_message_exact : forall d mav bytes d' out,
  dev_message d mav bytes = Val (d', out, None) ->
  (exists n k, queue d' = skipn n (queue d) ++ repeat (std_error OperationComplete) k)
  /\ (forall i, N.testbit (esr d') i = true -> N.testbit (esr d) i = true \/ i = 0)
  /\ tst_result d' = tst_result d).
Check (VF.Properties.C13.C13_dev_message_total : forall d mav bytes, exists r, dev_message d mav bytes = Val r).
Check (VF.Properties.C13.C13_queue_evolves_shape : forall q q',
  queue_evolves q q' <-> exists n k, q' = skipn n q ++ repeat opc_event k).
