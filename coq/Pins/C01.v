(* GENERATED ONCE by tools/pin.py from Properties/C01.v and committed: the pinned statements. *)
From VF.Properties Require C01.
From VF Require Import Base Gen_Errors Lexer Response Tree Conv Lists Lexer_proofs Tree_proofs Conv_proofs Lists_proofs.
Open Scope N_scope.

Section C01_statements.
Context {D : Type}.

Goal forall l, exists s, lex_next l = Val s.
Proof. apply VF.Properties.C01.C01_lex_next_no_panic. Qed.
Goal forall l t l', lex_next l = Val (STok t l') ->
  (length (chars l') < length (chars l))%nat.
Proof. apply VF.Properties.C01.C01_lex_progress. Qed.
Goal forall input, exists ts, tokenize input = Val ts.
Proof. apply VF.Properties.C01.C01_lex_total. Qed.
Goal forall input, exists ts, tokenize_params input = Val ts.
Proof. apply VF.Properties.C01.C01_lex_params_total. Qed.
Goal forall l ts, tokenize_from l = Val ts ->
  exists toks, ts = map IOk toks \/ exists e, ts = map IOk toks ++ [IErr e].
Proof. apply VF.Properties.C01.C01_tokenize_shape. Qed.
Goal forall (root : tree D) toks d f, exists r, run_tokens root toks d f = Val r.
Proof. apply VF.Properties.C01.C01_run_tokens_total. Qed.
Goal forall (root : tree D) input d f, exists r, run root input d f = Val r.
Proof. apply VF.Properties.C01.C01_run_total. Qed.
Goal forall toks t r,
  next_optional_token toks = (Got t, r) -> is_data t = true.
Proof. apply VF.Properties.C01.C01_pull_only_data. Qed.
Goal forall toks t r,
  next_token toks = (Got t, r) -> is_data t = true.
Proof. apply VF.Properties.C01.C01_pull_req_only_data. Qed.
Goal forall tok, is_data tok = true ->
  (forall t, exists r, conv_int t tok = Val r) /\ (forall t, exists r, conv_float t tok = Val r)
  /\ (exists r, conv_bool tok = Val r) /\ (forall t, exists r, conv_bytes t tok = Val r).
Proof. apply VF.Properties.C01.C01_conv_total. Qed.
Goal forall expr, exists l, nlist_entries expr = Val l.
Proof. apply VF.Properties.C01.C01_nlist_total. Qed.
Goal forall expr r, clist_entries expr = Some r -> exists l, r = Val l.
Proof. apply VF.Properties.C01.C01_clist_total. Qed.
Goal forall s, exists l, spec_values s = Val l.
Proof. apply VF.Properties.C01.C01_spec_values_total. Qed.
Goal forall k s,
  (exists r, spec_to_tuple k s = Val r) /\ (exists r, spec_to_utuple k s = Val r).
Proof. apply VF.Properties.C01.C01_spec_tuple_total. Qed.
End C01_statements.
