(* GENERATED ONCE by tools/pin.py from Properties/C10.v and committed: the pinned statements. *)
From VF.Properties Require C10.
From VF Require Import Base Gen_Errors Gen_Consts Fmt Lexer Response Tree Resp_proofs.
Open Scope N_scope.

Section C10_statements.
Context {D : Type}.

Goal forall (root : tree D) input d r,
  run root input d (mkFmt None []) = Val r -> r_err r = None ->
  Forall (fun t => t <> []) (unit_texts (r_trace r)) ->
  r_out r = match unit_texts (r_trace r) with [] => [] | us => intercalate [59] us ++ [10] end.
Proof. apply VF.Properties.C10.C10_framing. Qed.
Goal forall (hs : list (list byte)) (ds : list rdata) b,
  Forall (fun x => snd (chunks_of x) = None) ds ->
  let fu := fold_left (fun a x => ru_data (fst a) (snd a) x) ds
              (fold_left (fun a h => ru_header (fst a) (snd a) h) hs (mkFmt None b, runit_new)) in
  buf (fst fu) = b ++ intercalate [58] hs
                   ++ (match hs, ds with _ :: _, _ :: _ => [32] | _, _ => [] end)
                   ++ intercalate [44] (map data_text ds)
  /\ ru_result (snd fu) = None.
Proof. apply VF.Properties.C10.C10_unit_text_structure. Qed.
Goal forall (p : hprog D) toks f toks' d f' r,
  run_prog p toks f None = (toks', d, f', r) -> f' = f.
Proof. apply VF.Properties.C10.C10_event_writes_nothing. Qed.
End C10_statements.
