(* GENERATED ONCE by tools/pin.py from Properties/C10.v and committed: the pinned statements. *)
From VF.Properties Require C10.
From VF Require Import Base Gen_Errors Gen_Consts Fmt Lexer Grammar Response Tree HeaderSpec MessageSpec Resp_proofs Message_proofs Message_proofs2 ResponseDecoder ResponseDecoder_proofs.
Open Scope N_scope.

Section C10_statements.
Context {D : Type}.

Goal forall (root : tree D) input d r,
  run root input d (mkFmt None []) = Val r -> r_err r = None ->
  Forall (fun t => t <> []) (unit_texts (r_trace r)) ->
  r_out r = match unit_texts (r_trace r) with [] => [] | us => intercalate [59] us ++ [10] end.
Proof. apply VF.Properties.C10.C10_framing. Qed.
Goal forall (hs : list (list byte)) (ds : list rdata) b,
  Forall (fun x => snd (chunks_of x) = None) ds ->
  let fu := fold_left (fun a x => ru_data (fst a) (snd a) x) ds
              (fold_left (fun a h => ru_header (fst a) (snd a) h) hs (mkFmt None b, runit_new)) in
  buf (fst fu) = b ++ intercalate [58] hs
                   ++ (match hs, ds with _ :: _, _ :: _ => [32] | _, _ => [] end)
                   ++ intercalate [44] (map data_text ds)
  /\ ru_result (snd fu) = None.
Proof. apply VF.Properties.C10.C10_unit_text_structure. Qed.
Goal forall (p : hprog D) toks f toks' d f' r,
  run_prog p toks f None = (toks', d, f', r) -> f' = f.
Proof. apply VF.Properties.C10.C10_event_writes_nothing. Qed.
Goal forall (root : tree D) (m : msg) (d : D) r,
  spec_message root m d (mkFmt None []) = r -> r_err r = None ->
  Forall (fun t => t <> []) (unit_texts (r_trace r)) ->
  r_out r = match unit_texts (r_trace r) with [] => [] | us => intercalate [59] us ++ [10] end.
Proof. apply VF.Properties.C10.C10_spec_message_framing. Qed.
Goal forall (root : tree D) (w : list byte) (nl : bool) (d : D) (f : fmt),
  wf_ws w = true ->
  run root (w ++ (if nl then [10] else [])) d f = Val (spec_message root (mkMsg w [] nl) d f).
Proof. apply VF.Properties.C10.C10_message_semantics_empty. Qed.
Goal forall (root : tree D) (m : msg) (w : list byte) (d : D) (f : fmt),
  wf_tree root -> wf_msg m = true -> wf_ws w = true ->
  run root (m_lead m ++ render_units (m_units m) ++ 59 :: w ++ (if m_nl m then [10] else [])) d f
  = Val (spec_message root m d f).
Proof. apply VF.Properties.C10.C10_message_semantics_trailing_separator. Qed.
Goal forall (root : tree D) (m : msg) (d : D) (f : fmt),
  wf_tree root -> wf_msg m = true ->
  run root (render_msg m) d f = Val (spec_message root m d f).
Proof. apply VF.Properties.C10.C10_message_semantics. Qed.
Goal forall units,
  units <> [] -> Forall (fun ds => ds <> [] /\ forallb decodable ds = true) units ->
  decode_response (emit_message units) = Some (map (flat_map items_of) units).
Proof. apply VF.Properties.C10.C10_response_decodes. Qed.
Goal forall (D : Type) (root : tree D) input d r units,
  run root input d (mkFmt None []) = Val r -> r_err r = None ->
  unit_texts (r_trace r) = map unit_text units ->
  units <> [] -> Forall (fun ds => ds <> [] /\ forallb decodable ds = true) units ->
  decode_response (r_out r) = Some (map (flat_map items_of) units).
Proof. apply VF.Properties.C10.C10_framed_run_decodes. Qed.
Goal forall units,
  units <> [] -> Forall (fun ds => ds <> [] /\ forallb decodable ds = true) units ->
  exists dec, decode_response (emit_message units) = Some dec /\ length dec = length units.
Proof. apply VF.Properties.C10.C10_unit_count_preserved. Qed.
Goal forall units,
  units <> [] -> Forall (fun ds => ds <> [] /\ forallb decodable ds = true) units ->
  exists dec, decode_response (emit_message units) = Some dec
    /\ map (@length item) dec = map (fun ds => list_sum (map n_elements ds)) units.
Proof. apply VF.Properties.C10.C10_item_count_preserved. Qed.
End C10_statements.
