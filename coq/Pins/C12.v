(* GENERATED ONCE by tools/pin.py from Properties/C12.v and committed: the pinned statements. *)
From VF.Properties Require C12.
From VF Require Import Base Gen_Errors Queue Queue_proofs.
Open Scope nat_scope.

Notation aq_push := (aq_push error queue_overflow_error).
Notation q_run := (q_run error queue_overflow_error).
Definition is_overflow (e : error) : bool := Z.eqb (ecode e) (-350).


Check (VF.Properties.C12.C12_marker_is_350 : ecode queue_overflow_error = (-350)%Z).
Check (VF.Properties.C12.C12_bounded : forall cap ops q, 1 <= cap -> length q <= cap ->
  exists q' out, q_run (Some cap) q ops = Val (q', out) /\ length q' <= cap).
Check (VF.Properties.C12.C12_push_room : forall cap q e, length q < cap -> aq_push cap q e = Val (q ++ [e])).
Check (VF.Properties.C12.C12_push_full : forall cap q e, 1 <= cap -> length q = cap ->
  aq_push cap q e = Val (firstn (cap - 1) q ++ [queue_overflow_error])).
Check (VF.Properties.C12.C12_pop_head : forall q : list error, q_pop error q = (hd_error q, tl q)).
Check (VF.Properties.C12.C12_len_exact : forall cap q, q_step error queue_overflow_error cap q QLen = Val (q, [OLen (length q)])).
Check (VF.Properties.C12.C12_vec_fifo : forall ops q q' out,
  no_clear error ops = true -> q_run None q ops = Val (q', out) ->
  popped_of error out ++ q' = q ++ pushes_of error ops).
Check (VF.Properties.C12.C12_clear_restarts : forall cap ops q, (forall c, cap = Some c -> 1 <= c) ->
  q_run cap q (QClear :: ops) = q_run cap [] ops).
Check (VF.Properties.C12.C12_refines_fifo : forall cap ops q,
  fits error cap (length q) ops = true -> q_run (Some cap) q ops = q_run None q ops).
Check (VF.Properties.C12.C12_order_preserved : forall cap ops q q' out,
  q_run (Some cap) q ops = Val (q', out) ->
  sublist error (keep error is_overflow (popped_of error out ++ q'))
                (keep error is_overflow (q ++ pushes_of error ops))).
