(* GENERATED ONCE by tools/pin.py from Properties/C14.v and committed: the pinned statements. *)
From VF.Properties Require C14.
From VF Require Import Base Gen_Errors Gen_Esr ErrTable ErrSpec ErrTable_proofs.
Open Scope Z_scope.


Check (VF.Properties.C14.C14_esr_class : forall c, in_i16 c -> esr_mask c = class_bit c).
Check (VF.Properties.C14.C14_custom_class : forall c msg ext, in_i16 c ->
  error_esr_mask (mkError c (Some msg) ext) = class_bit c).
Check (VF.Properties.C14.C14_lookup_roundtrip : forall c v, get_error c = Some v -> get_code v = c).
Check (VF.Properties.C14.C14_every_std_error_found : forall c m, In (c, m) std_errors -> get_error c = Some (c, m)).
