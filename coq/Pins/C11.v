(* GENERATED ONCE by tools/pin.py from Properties/C11.v and committed: the pinned statements. *)
From VF.Properties Require C11.
From VF Require Import Base Gen_Errors Gen_Consts Fmt Lexer Response Tree Resp_proofs Tree_proofs.
Open Scope N_scope.

Section C11_statements.
Context {D : Type}.

Goal forall (root : tree D) input d c r,
  run root input d (mkFmt (Some c) []) = Val r -> (length (r_out r) <= c)%nat.
Proof. apply VF.Properties.C11.C11_run_never_exceeds_capacity. Qed.
Goal forall (root : tree D) input d c r_inf,
  run root input d (mkFmt None []) = Val r_inf -> (length (r_out r_inf) <= c)%nat ->
  run root input d (mkFmt (Some c) []) = Val r_inf.
Proof. apply VF.Properties.C11.C11_cap_fits. Qed.
Goal forall (root : tree D) input d c r_c r_inf, wb_tree root ->
  run root input d (mkFmt (Some c) []) = Val r_c -> run root input d (mkFmt None []) = Val r_inf ->
  is_prefix (r_out r_c) (r_out r_inf).
Proof. apply VF.Properties.C11.C11_cap_prefix. Qed.
Goal forall (root : tree D) input d c r_c r_inf, wb_tree root ->
  run root input d (mkFmt (Some c) []) = Val r_c -> run root input d (mkFmt None []) = Val r_inf ->
  r_err r_inf = None -> (c < length (r_out r_inf))%nat -> r_err r_c = Some (std_error OutOfMemory).
Proof. apply VF.Properties.C11.C11_cap_overflow. Qed.
Goal forall f c f', fits f -> push f c = Ok f' -> fits f'.
Proof. apply VF.Properties.C11.C11_push_fits. Qed.
Goal forall f c e, push f c = Err e -> e = OutOfMemory.
Proof. apply VF.Properties.C11.C11_push_error_is_225. Qed.
Goal forall f c f', push f c = Ok f' -> buf f' = buf f ++ c /\ cap f' = cap f.
Proof. apply VF.Properties.C11.C11_push_appends. Qed.
Goal forall (root : tree D) input d f, exists r, run root input d f = Val r.
Proof. apply VF.Properties.C11.C11_run_total. Qed.
End C11_statements.
