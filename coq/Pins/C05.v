(* GENERATED ONCE by tools/pin.py from Properties/C05.v and committed: the pinned statements. *)
From VF.Properties Require C05.
From VF Require Import Base Gen_Errors Lexer Grammar Response Tree Tree_proofs HeaderSpec MessageSpec Message_proofs Message_proofs2 MessageSpec3 Message_proofs3.
Open Scope N_scope.

Section C05_statements.
Context {D : Type}.

Goal forall (root : tree D) input d f r, run root input d f = Val r ->
  r_hook r = match r_err r with Some e => [e] | None => [] end.
Proof. apply VF.Properties.C05.C05_hook_exactly_once. Qed.
Goal forall (self leaf : tree D) s,
  exists added, x_trace (xres_state (exec self leaf s)) = x_trace s ++ added /\ (length added <= 1)%nat.
Proof. apply VF.Properties.C05.C05_exec_invokes_at_most_once. Qed.
Goal forall fu (root leaf : tree D) s e s',
  unit_body root leaf s = UExec (XErr e s') -> unit_loop (S fu) root leaf s = Val (s', Some e).
Proof. apply VF.Properties.C05.C05_first_error_aborts. Qed.
Goal forall fu (root leaf : tree D) s e rest,
  x_toks s = IErr e :: rest -> unit_loop (S fu) root leaf s = Val (s, Some (std_error e)).
Proof. apply VF.Properties.C05.C05_stream_error_aborts. Qed.
Goal forall (root : tree D) toks d f s e,
  run_tokens root toks d f = Val (s, e) -> (length (x_trace s) <= S (count_unit_seps toks))%nat.
Proof. apply VF.Properties.C05.C05_trace_bounded_by_units. Qed.
Goal forall fu (root leaf : tree D) s leaf' s' tok rest,
  unit_body root leaf s = UExec (XOk leaf' s') -> x_toks s' = IOk tok :: rest ->
  (is_data tok = true \/ tok = TDataSeparator) ->
  unit_loop (S fu) root leaf s = Val (with_toks s' rest, Some (std_error ParameterNotAllowed)).
Proof. apply VF.Properties.C05.C05_leftover_is_108. Qed.
Goal forall (root : tree D) (m : msg) (d : D) (f : fmt),
  wf_tree root -> wf_msg m = true ->
  run root (render_msg m) d f = Val (spec_message root m d f).
Proof. apply VF.Properties.C05.C05_message_semantics. Qed.
Goal forall (root : tree D) (m : msg) (d : D) (f : fmt),
  wf_tree root -> wf_msg m = true ->
  exists s e, run_tokens root (map IOk (tokens_of m)) d f = Val (s, e) /\
    (x_dev s, x_fmt s, x_trace s, e) = spec_units root root (m_units m) d f [].
Proof. apply VF.Properties.C05.C05_message_semantics_tokens. Qed.
Goal forall (root : tree D) m1 m2 d f, wf_tree root -> wf_msg m1 = true -> wf_msg m2 = true ->
  map (fun uw => (u_header (fst uw), unit_data (fst uw))) (m_units m1)
    = map (fun uw => (u_header (fst uw), unit_data (fst uw))) (m_units m2) ->
  run root (render_msg m1) d f = run root (render_msg m2) d f.
Proof. apply VF.Properties.C05.C05_layout_independent. Qed.
Goal forall (root ctx : tree D) us d f tr d' f' tr',
  spec_units root ctx us d f tr = (d', f', tr', None) -> length tr' = (length tr + length us)%nat.
Proof. apply VF.Properties.C05.C05_spec_units_ok_trace. Qed.
Goal forall (root ctx : tree D) us d f tr d' f' tr' e,
  spec_units root ctx us d f tr = (d', f', tr', Some e) -> (length tr' <= length tr + length us)%nat.
Proof. apply VF.Properties.C05.C05_spec_units_err_trace. Qed.
Goal forall (root ctx : tree D) us d f tr d' f' tr' e,
  spec_units root ctx us d f tr = (d', f', tr', e) -> exists added, tr' = tr ++ added.
Proof. apply VF.Properties.C05.C05_spec_units_trace_extends. Qed.
Goal forall (root : tree D) (w : list byte) (nl : bool) (d : D) (f : fmt),
  wf_ws w = true ->
  run root (w ++ (if nl then [10] else [])) d f = Val (spec_message root (mkMsg w [] nl) d f).
Proof. apply VF.Properties.C05.C05_message_semantics_empty. Qed.
Goal forall (root : tree D) (m : msg) (w : list byte) (d : D) (f : fmt),
  wf_tree root -> wf_msg m = true -> wf_ws w = true ->
  run root (m_lead m ++ render_units (m_units m) ++ 59 :: w ++ (if m_nl m then [10] else [])) d f
  = Val (spec_message root m d f).
Proof. apply VF.Properties.C05.C05_message_semantics_trailing_separator. Qed.
Goal forall (root : tree D) lead us w bad d f,
  wf_tree root -> wf_ws lead = true -> forallb Message_proofs.wf_uw us = true -> us <> [] -> wf_ws w = true ->
  run root (lead ++ render_units us ++ 59 :: w ++ bad) d f =
  match spec_prefix root root us d f [] with
  | PErr e d' f' tr => Val (mkRun (Some e) d' (buf f') tr [e])
  | POk ctx d' f' tr => run_from root ctx bad d' f' tr
  end.
Proof. apply VF.Properties.C05.C05_message_prefix_semantics. Qed.
Goal forall (root ctx0 : tree D) lead us w bad d f tr0,
  wf_tree root -> In ctx0 (all_subtrees root) ->
  wf_ws lead = true -> forallb Message_proofs.wf_uw us = true -> us <> [] -> wf_ws w = true ->
  run_from root ctx0 (lead ++ render_units us ++ 59 :: w ++ bad) d f tr0 =
  match spec_prefix root ctx0 us d f tr0 with
  | PErr e d' f' tr => Val (mkRun (Some e) d' (buf f') tr [e])
  | POk ctx d' f' tr => run_from root ctx bad d' f' tr
  end.
Proof. apply VF.Properties.C05.C05_run_from_prefix_semantics. Qed.
Goal forall (root : tree D) lead us w bad e rest d f,
  wf_tree root -> wf_ws lead = true -> forallb Message_proofs.wf_uw us = true -> us <> [] -> wf_ws w = true ->
  tokenize bad = Val (IErr e :: rest) ->
  run root (lead ++ render_units us ++ 59 :: w ++ bad) d f =
  match spec_prefix root root us d f [] with
  | PErr e' d' f' tr => Val (mkRun (Some e') d' (buf f') tr [e'])
  | POk ctx d' f' tr => Val (mkRun (Some (std_error e)) d' (buf f') tr [std_error e])
  end.
Proof. apply VF.Properties.C05.C05_bad_unit_aborts. Qed.
Goal forall (root : tree D) lead us w bad d f r,
  wf_tree root -> wf_ws lead = true -> forallb Message_proofs.wf_uw us = true -> us <> [] -> wf_ws w = true ->
  run root (lead ++ render_units us ++ 59 :: w ++ bad) d f = Val r ->
  exists tr_more,
    r_trace r = (match spec_prefix root root us d f [] with PErr _ _ _ tr => tr | POk _ _ _ tr => tr end) ++ tr_more.
Proof. apply VF.Properties.C05.C05_prefix_trace_preserved. Qed.
Goal forall (root : tree D) lead us w bad1 bad2 d f e d' f' tr,
  wf_tree root -> wf_ws lead = true -> forallb Message_proofs.wf_uw us = true -> us <> [] -> wf_ws w = true ->
  spec_prefix root root us d f [] = PErr e d' f' tr ->
  run root (lead ++ render_units us ++ 59 :: w ++ bad1) d f = run root (lead ++ render_units us ++ 59 :: w ++ bad2) d f.
Proof. apply VF.Properties.C05.C05_failed_prefix_tail_irrelevant. Qed.
Goal forall (root : tree D) lead us w bad d f r e d' f' tr,
  wf_tree root -> wf_ws lead = true -> forallb Message_proofs.wf_uw us = true -> us <> [] -> wf_ws w = true ->
  spec_prefix root root us d f [] = PErr e d' f' tr ->
  run root (lead ++ render_units us ++ 59 :: w ++ bad) d f = Val r ->
  r = mkRun (Some e) d' (buf f') tr [e].
Proof. apply VF.Properties.C05.C05_failed_prefix_trace_exact. Qed.
Goal forall (root ctx : tree D) us d f tr,
  spec_units root ctx us d f tr =
  match spec_prefix root ctx us d f tr with
  | PErr e d' f' tr' => (d', f', tr', Some e)
  | POk ctx' d' f' tr' => spec_units root ctx' [] d' f' tr'
  end.
Proof. apply VF.Properties.C05.C05_spec_units_prefix. Qed.
End C05_statements.
