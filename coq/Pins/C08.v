(* GENERATED ONCE by tools/pin.py from Properties/C08.v and committed: the pinned statements. *)
From VF.Properties Require C08.
From Coq Require Import QArith Qabs Floats.SpecFloat.
From VF Require Import Base Gen_Errors Fmt Lexer Mnemonic Conv Conv_proofs.
Local Open Scope Q_scope.

Check (VF.Properties.C08.C08_float_conv_dec : forall t s, conv_float t (TDec s) =
  Val (match parse_float t s with Some v => Ok v | None => Err NumericDataError end)).
Check (VF.Properties.C08.C08_float_keywords : forall t s, conv_float t (TChar s) = Val (
  if mnemonic_compare kw_inf s then Ok (S754_infinity false) else if mnemonic_compare kw_ninf s then Ok (S754_infinity true)
  else if mnemonic_compare kw_nan s then Ok S754_nan else if mnemonic_compare kw_max s then Ok (sf_max t false)
  else if mnemonic_compare kw_min s then Ok (sf_max t true) else Err DataTypeError)).
Check (VF.Properties.C08.C08_bool_numeric : forall s neg m e10 b, parse_nrf s = Some (neg, m, e10) -> conv_bool (TDec s) = Val (Ok b) ->
  (b = false <-> exists x, sf2Q (dec2sf 53 1024 neg m e10) = Some x /\ Qabs x < 1 # 2)).
Check (VF.Properties.C08.C08_bool_numeric_total : forall s neg m e10, parse_nrf s = Some (neg, m, e10) -> exists b, conv_bool (TDec s) = Val (Ok b)).
Check (VF.Properties.C08.C08_bool_onoff : forall s, conv_bool (TChar s) =
  Val (if bytes_eq_nocase s kw_on then Ok true else if bytes_eq_nocase s kw_off then Ok false else Err IllegalParameterValue)).
Check (VF.Properties.C08.C08_accept_float : forall t tok v, conv_float t tok = Val (Ok v) -> (exists s, tok = TDec s) \/ (exists s, tok = TChar s)).
Check (VF.Properties.C08.C08_accept_bool : forall tok b, conv_bool tok = Val (Ok b) -> (exists s, tok = TDec s) \/ (exists s, tok = TChar s)).
Check (VF.Properties.C08.C08_accept_bytes : forall t tok s, conv_bytes t tok = Val (Ok s) ->
  match t with BBytes => tok = TString s | BStr => (tok = TString s \/ tok = TBlock s) /\ utf8_valid s = true
             | BArb => tok = TBlock s | BChr => tok = TChar s | BExpr => tok = TExpr s end).
Check (VF.Properties.C08.C08_conv_error_codes : forall tok e,
  (forall t, conv_int t tok = Val (Err e) -> In e [DataTypeError; SuffixNotAllowed; DataOutOfRange; NumericDataError]) /\
  (forall t, conv_float t tok = Val (Err e) -> In e [DataTypeError; SuffixNotAllowed; NumericDataError]) /\
  (conv_bool tok = Val (Err e) -> In e [DataTypeError; IllegalParameterValue; NumericDataError]) /\
  (forall t, conv_bytes t tok = Val (Err e) -> In e [DataTypeError; StringDataError])).
Check (VF.Properties.C08.C08_conv_total : forall tok, is_data tok = true ->
  (forall t, exists r, conv_int t tok = Val r) /\ (forall t, exists r, conv_float t tok = Val r)
  /\ (exists r, conv_bool tok = Val r) /\ (forall t, exists r, conv_bytes t tok = Val r)).
From Coq Require Import Reals.
From Flocq Require Import Core.Core IEEE754.BinarySingleNaN.
From VF Require Import Float_proofs.
Local Close Scope Q_scope.
Local Open Scope Z_scope.

Check (VF.Properties.C08.C08_dec2sf_correct_f64 : forall neg m e10,
  let x := dec_valueN neg m e10 in
  let r := round radix2 (FLT_exp (-1074) 53) ZnearestE x in
  if Rlt_bool (Rabs r) (bpow radix2 1024)
  then SF2R radix2 (dec2sf 53 1024 neg m e10) = r
       /\ is_finite_SF (dec2sf 53 1024 neg m e10) = true
       /\ sign_SF (dec2sf 53 1024 neg m e10) = neg
  else dec2sf 53 1024 neg m e10 = S754_infinity neg).
Check (VF.Properties.C08.C08_dec2sf_correct_f32 : forall neg m e10,
  let x := dec_valueN neg m e10 in
  let r := round radix2 (FLT_exp (-149) 24) ZnearestE x in
  if Rlt_bool (Rabs r) (bpow radix2 128)
  then SF2R radix2 (dec2sf 24 128 neg m e10) = r
       /\ is_finite_SF (dec2sf 24 128 neg m e10) = true
       /\ sign_SF (dec2sf 24 128 neg m e10) = neg
  else dec2sf 24 128 neg m e10 = S754_infinity neg).
Check (VF.Properties.C08.C08_dec2sf_core_correct_f64 : forall neg m e10, e10 <> 0 ->
  let x := dec_value neg m e10 in
  let r := round radix2 (FLT_exp (-1074) 53) ZnearestE x in
  if Rlt_bool (Rabs r) (bpow radix2 1024)
  then SF2R radix2 (dec2sf_core 53 1024 neg m e10) = r
       /\ is_finite_SF (dec2sf_core 53 1024 neg m e10) = true
  else dec2sf_core 53 1024 neg m e10 = S754_infinity neg).
Check (VF.Properties.C08.C08_dec2sf_core_correct_f32 : forall neg m e10, e10 <> 0 ->
  let x := dec_value neg m e10 in
  let r := round radix2 (FLT_exp (-149) 24) ZnearestE x in
  if Rlt_bool (Rabs r) (bpow radix2 128)
  then SF2R radix2 (dec2sf_core 24 128 neg m e10) = r
       /\ is_finite_SF (dec2sf_core 24 128 neg m e10) = true
  else dec2sf_core 24 128 neg m e10 = S754_infinity neg).
Check (VF.Properties.C08.C08_dec_value_sign : forall neg m e10,
  dec_value neg m e10 = ((if neg then -1 else 1) * (IZR (Zpos m) * bpow radix10 e10))%R).
