(* GENERATED ONCE by tools/pin.py from Properties/C06.v and committed: the pinned statements. *)
From VF.Properties Require C06.
From VF Require Import Base Gen_Errors Lexer Grammar Response Tree Tree_proofs HeaderSpec MessageSpec Message_proofs.
Open Scope N_scope.

Section C06_statements.
Context {D : Type}.

Goal forall toks t r,
  next_optional_token toks = (Got t, r) -> is_data t = true.
Proof. apply VF.Properties.C06.C06_pull_only_data. Qed.
Goal forall toks t r,
  next_token toks = (Got t, r) -> is_data t = true.
Proof. apply VF.Properties.C06.C06_pull_req_only_data. Qed.
Goal forall toks r toks',
  next_optional_token toks = (r, toks') ->
  exists used, toks = used ++ toks' /\ Forall data_or_sep used.
Proof. apply VF.Properties.C06.C06_pull_consumes_only_data. Qed.
Goal forall toks r toks',
  next_token toks = (r, toks') ->
  exists used, toks = used ++ toks' /\ Forall data_or_sep used.
Proof. apply VF.Properties.C06.C06_pull_req_consumes_only_data. Qed.
Goal forall d rest, is_data d = true ->
  next_optional_token (IOk d :: rest) = (Got d, rest) /\ next_token (IOk d :: rest) = (Got d, rest).
Proof. apply VF.Properties.C06.C06_pull_first_datum. Qed.
Goal forall d rest, is_data d = true ->
  next_optional_token (IOk TDataSeparator :: IOk d :: rest) = (Got d, rest) /\
  next_token (IOk TDataSeparator :: IOk d :: rest) = (Got d, rest).
Proof. apply VF.Properties.C06.C06_pull_next_datum. Qed.
Goal forall toks, (toks = [] \/ exists r, toks = IOk TUnitSeparator :: r) ->
  next_optional_token toks = (Absent, toks) /\
  next_token toks = (Failed (std_error MissingParameter), toks).
Proof. apply VF.Properties.C06.C06_pull_at_unit_end. Qed.
Goal forall (p : hprog D) toks f u toks' d f' r,
  run_prog p toks f u = (toks', d, f', r) ->
  exists used, toks = used ++ toks' /\ Forall data_or_sep used.
Proof. apply VF.Properties.C06.C06_handler_stays_in_unit. Qed.
Goal forall fu (root leaf : tree D) s leaf' s' tok rest,
  unit_body root leaf s = UExec (XOk leaf' s') -> x_toks s' = IOk tok :: rest ->
  (is_data tok = true \/ tok = TDataSeparator) ->
  unit_loop (S fu) root leaf s = Val (with_toks s' rest, Some (std_error ParameterNotAllowed)).
Proof. apply VF.Properties.C06.C06_leftover_is_108. Qed.
Goal forall (root : tree D) (m : msg) (d : D) (f : fmt),
  wf_tree root -> wf_msg m = true ->
  run root (render_msg m) d f = Val (spec_message root m d f).
Proof. apply VF.Properties.C06.C06_message_semantics. Qed.
Goal forall (p : hprog D) data f u rest d' f' e,
  spec_prog p data f u = (rest, d', f', e) -> exists used, data = used ++ rest.
Proof. apply VF.Properties.C06.C06_spec_prog_consumes_prefix. Qed.
End C06_statements.
