(* GENERATED ONCE by tools/pin.py from Properties/C18.v and committed: the pinned statements. *)
From VF.Properties Require C18.
From Coq Require Import QArith String.
From VF Require Import Base Gen_Errors Lexer Conv Gen_Suffix SuffixSpec Suffix Suffix_proofs.
Open Scope string_scope.

Check (VF.Properties.C18.C18_suffix_table_ok : forallb table_ok suffix_tables = true).
Check (VF.Properties.C18.C18_suffix_conversion_is_scpi : forall q base ents num suf u v, table_of q = Some (base, ents) ->
  lookup_suffix ents suf = Some u -> lit_Q num = Some v ->
  exists sp s l l', In (sp, u) ents /\ In s sp /\ bytes_eq_nocase suf s = true /\
    scpi_suffix q s = Some l' /\ lin_eqb l l' = true /\ conv_unit q (TDecSuffix num suf) = Ok (apply_lin l v)).
Check (VF.Properties.C18.C18_lookup_sound : forall ents s u, lookup_suffix ents s = Some u ->
  exists sp, In (sp, u) ents /\ existsb (fun x => bytes_eq_nocase s x) sp = true).
Check (VF.Properties.C18.C18_lookup_none : forall ents s, lookup_suffix ents s = None <->
  (forall sp u, In (sp, u) ents -> existsb (fun x => bytes_eq_nocase s x) sp = false)).
Check (VF.Properties.C18.C18_unknown_suffix_rejected : forall q base ents num suf, table_of q = Some (base, ents) ->
  lookup_suffix ents suf = None -> conv_unit q (TDecSuffix num suf) = Err IllegalParameterValue).
Check (VF.Properties.C18.C18_non_numeric_rejected : forall q base ents tok, table_of q = Some (base, ents) ->
  (forall s, tok <> TDec s) -> (forall n s, tok <> TDecSuffix n s) -> conv_unit q tok = Err DataTypeError).
Check (VF.Properties.C18.C18_bare_number_in_base_unit : forall q base ents s v l, table_of q = Some (base, ents) ->
  lit_Q s = Some v -> uom_unit q base = Some l -> conv_unit q (TDec s) = Ok (apply_lin l v)).
Check (VF.Properties.C18.C18_suffixed_number_value : forall q base ents num suf u v l, table_of q = Some (base, ents) ->
  lookup_suffix ents suf = Some u -> lit_Q num = Some v -> uom_unit q u = Some l ->
  conv_unit q (TDecSuffix num suf) = Ok (apply_lin l v)).
Check (VF.Properties.C18.C18_amplitude_classifies : forall q num s,
  conv_amplitude q (TDecSuffix num s) =
  if ends_with_nocase s [80; 75]%N then (AmpPeak, conv_unit q (TDecSuffix num (strip_end s 2)))
  else if ends_with_nocase s [80; 80]%N then (AmpPP, conv_unit q (TDecSuffix num (strip_end s 2)))
  else if ends_with_nocase s [82; 77; 83]%N then (AmpRms, conv_unit q (TDecSuffix num (strip_end s 3)))
  else (AmpNone, conv_unit q (TDecSuffix num s))).
Check (VF.Properties.C18.C18_amplitude_plain : forall q tok, (forall n s, tok <> TDecSuffix n s) -> conv_amplitude q tok = (AmpNone, conv_unit q tok)).
Check (VF.Properties.C18.C18_db_number_unchanged : forall q num suf u v l, lookup_suffix (log_table_of q) suf = Some u ->
  lit_Q num = Some v -> uom_unit q u = Some l -> conv_db q (TDecSuffix num suf) = DbLog v (apply_lin l 1)).
Check (VF.Properties.C18.C18_db_bare_number : forall q s v, lit_Q s = Some v -> conv_db q (TDec s) = DbNone v).
