(* GENERATED ONCE by tools/pin.py from Properties/C15.v and committed: the pinned statements. *)
From VF.Properties Require C15.
From VF Require Import Base Status StatusSpec Status_proofs Contrib ContribSpec Contrib_proofs Grammar MessageSpec ContribMeaning ContribMeaning_proofs.
Open Scope N_scope.





Check (VF.Properties.C15.C15_event_latched : forall h i, i < 16 ->
  (N.testbit (event (reg_run h)) i = true <-> latched i h)).
Check (VF.Properties.C15.C15_event_read_clears : forall r,
  reg_step r RRdEvent = (mkReg (condition r) 0 (enable r) (ntr_filter r) (ptr_filter r), Some (N.land (event r) m15))).
Check (VF.Properties.C15.C15_other_reads_pure : forall r o, In o [RRdCondition; RRdEnable; RRdPtr; RRdNtr] -> fst (reg_step r o) = r).
Check (VF.Properties.C15.C15_readback : forall h,
  snd (reg_step (reg_run h) RRdEnable) = Some (N.land (enable_of h) m15)
  /\ snd (reg_step (reg_run h) RRdPtr) = Some (N.land (ptr_of h) m15)
  /\ snd (reg_step (reg_run h) RRdNtr) = Some (N.land (ntr_of h) m15)
  /\ snd (reg_step (reg_run h) RRdCondition) = Some (N.land (cond_of h) m15)).
Check (VF.Properties.C15.C15_bit15_clear : forall r o n, snd (reg_step r o) = Some n -> N.testbit n 15 = false).
Check (VF.Properties.C15.C15_low_bits_faithful : forall x i, i < 15 -> N.testbit (N.land x m15) i = N.testbit x i).
Check (VF.Properties.C15.C15_preset_values : forall r,
  enable (reg_preset r) = 0 /\ ptr_filter (reg_preset r) = m16 /\ ntr_filter (reg_preset r) = 0
  /\ event (reg_preset r) = event r).
Check (VF.Properties.C15.C15_full_stack_refines : forall msgs mav us,
  forallb (fun m => forallb renderable (snd m)) msgs = true -> forallb renderable us = true ->
  dev_message (session_ops dev_init msgs) mav (units_text us) = Val (op_message (session_ops dev_init msgs) mav us)).
Check (VF.Properties.C15.C15_full_stack_refines_iff : forall d,
  (forall mav us, forallb renderable us = true -> dev_message d mav (units_text us) = Val (op_message d mav us))
  <-> queue_printable d = true).
Check (VF.Properties.C15.C15_full_stack_all_messages : forall ms (m : msg) (mav : bool) (us : list sop),
  wf_msg m = true -> message_ops m = Some us ->
  dev_message (session_msgs dev_init ms) mav (render_msg m)
  = Val (with_stray m (op_message (session_msgs dev_init ms) mav us))).
Check (VF.Properties.C15.C15_full_stack_all_messages_exact : forall (m : msg) (mav : bool) (d : dev) (us : list sop),
  wf_msg m = true -> queue_printable d = true -> message_ops m = Some us ->
  (dev_message d mav (render_msg m) = Val (op_message d mav us) <-> stray_separator m = false)).
From VF Require Import Gen_Esr ErrTable Lexer Contrib_anybytes.


Check (VF.Properties.C15.C15_dev_message_preserves_regs_ok : forall d mav bytes d' out r,
  regs_ok d -> dev_message d mav bytes = Val (d', out, r) -> regs_ok d').
Check (VF.Properties.C15.C15_dev_session_regs_ok : forall msgs d d', regs_ok d -> dev_session d msgs = Val d' -> regs_ok d').
