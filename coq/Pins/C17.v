(* GENERATED ONCE by tools/pin.py from Properties/C17.v and committed: the pinned statements. *)
From VF.Properties Require C17.
From VF Require Import Base Gen_Errors Lexer Mnemonic MnemonicSpec Numeric Numeric_proofs.

Section C17_statements.
Context {T : Type}.
Variable leb : T -> T -> bool.
Variable convT : token -> outcome (res T).
Variables tmax tmin : T.
Notation try_from := (nv_try_from convT).
Notation fin := (finish leb).
Notation bld := (build tmax tmin).
Notation last_max := (@Numeric_proofs.last_max T tmax).
Notation last_min := (@Numeric_proofs.last_min T tmin).
Notation last_default := (@Numeric_proofs.last_default T).

Goal forall s,
  mnemonic_compare kw_MAXimum s = is_keyword [77; 65; 88]%N [105; 109; 117; 109]%N s /\
  mnemonic_compare kw_MINimum s = is_keyword [77; 73; 78]%N [105; 109; 117; 109]%N s /\
  mnemonic_compare kw_DEFault s = is_keyword [68; 69; 70]%N [97; 117; 108; 116]%N s /\
  mnemonic_compare kw_UP s = is_keyword [85; 80]%N [] s /\
  mnemonic_compare kw_DOWN s = is_keyword [68; 79; 87; 78]%N [] s.
Proof. apply VF.Properties.C17.C17_keyword_tests. Qed.
Goal forall s,
  try_from (TChar s) =
  if mnemonic_compare kw_MAXimum s then Val (Ok NMax)
  else if mnemonic_compare kw_MINimum s then Val (Ok NMin)
  else if mnemonic_compare kw_DEFault s then Val (Ok NDef)
  else if mnemonic_compare kw_UP s then Val (Ok NUp)
  else if mnemonic_compare kw_DOWN s then Val (Ok NDown)
  else nv_value convT (TChar s).
Proof. apply VF.Properties.C17.C17_nv_keywords. Qed.
Goal forall tok, (forall s, tok <> TChar s) -> try_from tok = nv_value convT tok.
Proof. apply VF.Properties.C17.C17_nv_other_elements. Qed.
Goal forall tok,
  nv_value convT tok = match convT tok with
                       | Val (Ok t) => Val (Ok (NVal t)) | Val (Err e) => Val (Err e) | Panic s => Panic s end.
Proof. apply VF.Properties.C17.C17_nv_value_spec. Qed.
Goal forall v ops,
  b_value (bld v ops) = v /\ b_max (bld v ops) = last_max ops
  /\ b_min (bld v ops) = last_min ops /\ b_default (bld v ops) = last_default ops.
Proof. apply VF.Properties.C17.C17_build_fields. Qed.
Goal forall b, b_value b = NMax -> fin b = Ok (b_max b).
Proof. apply VF.Properties.C17.C17_finish_max. Qed.
Goal forall b, b_value b = NMin -> fin b = Ok (b_min b).
Proof. apply VF.Properties.C17.C17_finish_min. Qed.
Goal forall b, b_value b = NDef ->
  fin b = match b_default b with Some d => Ok d | None => Err IllegalParameterValue end.
Proof. apply VF.Properties.C17.C17_finish_default. Qed.
Goal forall b, b_value b = NUp \/ b_value b = NDown -> fin b = Err IllegalParameterValue.
Proof. apply VF.Properties.C17.C17_finish_up_down. Qed.
Goal forall b t, b_value b = NVal t ->
  fin b = if leb t (b_max b) && leb (b_min b) t then Ok t else Err DataOutOfRange.
Proof. apply VF.Properties.C17.C17_finish_value. Qed.
Goal forall b t v, b_value b = NVal t -> fin b = Ok v ->
  v = t /\ leb v (b_max b) = true /\ leb (b_min b) v = true.
Proof. apply VF.Properties.C17.C17_value_in_range. Qed.
Goal forall b v,
  leb (b_min b) (b_max b) = true -> leb (b_max b) (b_max b) = true -> leb (b_min b) (b_min b) = true ->
  (forall d, b_default b = Some d -> leb d (b_max b) = true /\ leb (b_min b) d = true) ->
  fin b = Ok v -> leb v (b_max b) = true /\ leb (b_min b) v = true.
Proof. apply VF.Properties.C17.C17_resolved_in_range. Qed.
Goal forall b, fin b = Err DataOutOfRange ->
  exists t, b_value b = NVal t /\ leb t (b_max b) && leb (b_min b) t = false.
Proof. apply VF.Properties.C17.C17_out_of_range_only_for_values. Qed.
End C17_statements.
