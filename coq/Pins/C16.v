(* GENERATED ONCE by tools/pin.py from Properties/C16.v and committed: the pinned statements. *)
From VF.Properties Require C16.
From VF Require Import Base Gen_Errors Status Status_proofs Contrib ContribSpec Contrib_proofs Grammar MessageSpec ContribMeaning ContribMeaning_proofs.
Open Scope N_scope.






Check (VF.Properties.C16.C16_stb_bits : forall d mav k,
  N.testbit (stb_answer d mav) k = if k =? 6 then mss d mav else stb_reported d mav k).
Check (VF.Properties.C16.C16_summary_iff : forall r, reg_summary r = true <->
  exists i, i < 15 /\ N.testbit (condition r) i = true /\ N.testbit (enable r) i = true).
Check (VF.Properties.C16.C16_stb_pure : forall mav d, fst (fst (sop_step mav d SRdStb)) = d).
Check (VF.Properties.C16.C16_ese_sre_readback : forall mav d v,
  snd (fst (sop_step mav (fst (fst (sop_step mav d (SWrEse v)))) SRdEse)) = Some [RNum v]
  /\ snd (fst (sop_step mav (fst (fst (sop_step mav d (SWrSre v)))) SRdSre)) = Some [RNum v]).
Check (VF.Properties.C16.C16_cls_effect : forall d,
  let d' := scpi_cls d in
  esr d' = 0 /\ queue d' = [] /\ event (oper d') = 0 /\ event (ques d') = 0
  /\ ese d' = ese d /\ sre d' = sre d
  /\ enable (oper d') = enable (oper d) /\ enable (ques d') = enable (ques d)
  /\ ptr_filter (oper d') = ptr_filter (oper d) /\ ntr_filter (oper d') = ntr_filter (oper d)
  /\ ptr_filter (ques d') = ptr_filter (ques d) /\ ntr_filter (ques d') = ntr_filter (ques d)
  /\ condition (oper d') = condition (oper d) /\ condition (ques d') = condition (ques d)).
Check (VF.Properties.C16.C16_opc_sets_bit0 : forall d, esr (scpi_opc d) = N.lor (esr d) 1
  /\ queue (scpi_opc d) = queue d ++ [std_error OperationComplete]).
Check (VF.Properties.C16.C16_opcq_tst_answers : forall mav d,
  snd (fst (sop_step mav d SOpcQ)) = Some [RNum 1]
  /\ snd (fst (sop_step mav d STstQ)) = Some [RInt (match tst_result d with None => 0%Z | Some c => c end)]
  /\ fst (fst (sop_step mav d SOpcQ)) = d /\ fst (fst (sop_step mav d STstQ)) = d).
Check (VF.Properties.C16.C16_rst_wai_frame : forall mav d, fst (fst (sop_step mav d SRst)) = d /\ fst (fst (sop_step mav d SWai)) = d).
Check (VF.Properties.C16.C16_full_stack_refines : forall msgs mav us,
  forallb (fun m => forallb renderable (snd m)) msgs = true -> forallb renderable us = true ->
  dev_message (session_ops dev_init msgs) mav (units_text us) = Val (op_message (session_ops dev_init msgs) mav us)).
Check (VF.Properties.C16.C16_full_stack_refines_iff : forall d,
  (forall mav us, forallb renderable us = true -> dev_message d mav (units_text us) = Val (op_message d mav us))
  <-> queue_printable d = true).
Check (VF.Properties.C16.C16_full_stack_all_messages : forall ms (m : msg) (mav : bool) (us : list sop),
  wf_msg m = true -> message_ops m = Some us ->
  dev_message (session_msgs dev_init ms) mav (render_msg m)
  = Val (with_stray m (op_message (session_msgs dev_init ms) mav us))).
Check (VF.Properties.C16.C16_full_stack_all_messages_exact : forall (m : msg) (mav : bool) (d : dev) (us : list sop),
  wf_msg m = true -> queue_printable d = true -> message_ops m = Some us ->
  (dev_message d mav (render_msg m) = Val (op_message d mav us) <-> stray_separator m = false)).
From VF Require Import Gen_Esr ErrTable Lexer Contrib_anybytes.


Check (VF.Properties.C16.C16_dev_message_preserves_regs_ok : forall d mav bytes d' out r,
  regs_ok d -> dev_message d mav bytes = Val (d', out, r) -> regs_ok d').
Check (VF.Properties.C16.C16_dev_session_regs_ok : forall msgs d d', regs_ok d -> dev_session d msgs = Val d' -> regs_ok d').
Check (VF.Properties.C16.C16_dev_message_total : forall d mav bytes, exists r, dev_message d mav bytes = Val r).
Check (VF.Properties.C16.C16_any_successful_message_exact : forall d mav bytes d' out,
  dev_message d mav bytes = Val (d', out, None) ->
  (exists n k, queue d' = skipn n (queue d) ++ repeat (std_error OperationComplete) k)
  /\ (forall i, N.testbit (esr d') i = true -> N.testbit (esr d) i = true \/ i = 0)
  /\ tst_result d' = tst_result d).
