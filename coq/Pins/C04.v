From VF Require Import Base Gen_Errors Lexer Properties.C04.
Check (C04_skip_suffix : forall p c, exists pre, c = pre ++ skip_while p c).
