(* GENERATED ONCE by tools/pin.py from Properties/C04.v and committed: the pinned statements. *)
From VF.Properties Require C04.
From VF Require Import Base Gen_Errors Fmt Lexer Grammar Lexer_proofs Grammar_proofs Message_proofs2 Message_proofs3 Lexer_ranges.
Open Scope N_scope.

Check (VF.Properties.C04.C04_lex_faithful : forall m, wf_msg m = true -> tokenize (render_msg m) = Val (map IOk (tokens_of m))).
Check (VF.Properties.C04.C04_lex_faithful_trailing_separator : forall m w, wf_msg m = true -> wf_ws w = true ->
  tokenize (m_lead m ++ render_units (m_units m) ++ 59 :: w ++ (if m_nl m then [10] else []))
  = Val (map IOk (tokens_of m ++ [TUnitSeparator]))).
Check (VF.Properties.C04.C04_lex_empty : forall w (nl : bool), wf_ws w = true ->
  tokenize (w ++ (if nl then [10] else [])) = Val []).
Check (VF.Properties.C04.C04_tokenize_prefix : forall lead us w bad items,
  wf_ws lead = true -> forallb Grammar_proofs.wf_uw us = true -> us <> [] -> wf_ws w = true ->
  tokenize bad = Val items ->
  tokenize (lead ++ render_units us ++ 59 :: w ++ bad)
  = Val (map IOk (tokens_units us) ++ IOk TUnitSeparator :: items)).
Check (VF.Properties.C04.C04_lex_next_range : forall l t l', lex_next l = Val (STok t l') ->
  exists used, chars l = used ++ chars l' /\ used <> [] /\
    match payload t with
    | Some p => exists pre post, used = pre ++ p ++ post
    | None => True
    end).
Check (VF.Properties.C04.C04_lex_next_range_suffix : forall l v s l', lex_next l = Val (STok (TDecSuffix v s) l') ->
  exists used, chars l = used ++ chars l' /\ used <> [] /\
    exists pre mid post, used = pre ++ v ++ mid ++ s ++ post).
Check (VF.Properties.C04.C04_tokenize_ranges : forall input items, tokenize input = Val items ->
  ranges input (payloads items)).
Check (VF.Properties.C04.C04_tokenize_params_ranges : forall input items, tokenize_params input = Val items ->
  ranges input (payloads items)).
Check (VF.Properties.C04.C04_payload_bytes_from_input : forall input items p, tokenize input = Val items ->
  In p (payloads items) -> forall b, In b p -> In b input).
Check (VF.Properties.C04.C04_payload_total_length : forall input items, tokenize input = Val items ->
  (list_sum (map (@length byte) (payloads items)) <= length input)%nat).
Check (VF.Properties.C04.C04_tokenize_tiles : forall input items, tokenize input = Val items ->
  exists w, input = w ++ skip_ws input /\ all_ws w /\ tiles (skip_ws input) items).
Check (VF.Properties.C04.C04_tokenize_params_tiles : forall input items, tokenize_params input = Val items ->
  tiles input items).
Check (VF.Properties.C04.C04_range_mnemonic : forall l s l', lex_next l = Val (STok (TMnemonic s) l') ->
  chars l = s ++ chars l' /\ s <> [] /\ mnemonic_bytes s /\
  not_starting is_mnemonic_char (chars l')).
Check (VF.Properties.C04.C04_range_char : forall l s l', lex_next l = Val (STok (TChar s) l') ->
  exists w, chars l = s ++ w ++ chars l' /\ all_ws w /\ s <> [] /\
    forallb is_mnemonic_char s = true /\ (length s <= 12)%nat /\
    not_starting is_mnemonic_char (w ++ chars l') /\ at_sep (chars l')).
Check (VF.Properties.C04.C04_range_dec : forall l s l', lex_next l = Val (STok (TDec s) l') ->
  exists w, chars l = s ++ w ++ chars l' /\ all_ws w /\ s <> [] /\
    forallb is_num_char s = true /\ at_sep (chars l')).
Check (VF.Properties.C04.C04_range_decsuffix : forall l v s l', lex_next l = Val (STok (TDecSuffix v s) l') ->
  exists w1 w2, chars l = v ++ w1 ++ s ++ w2 ++ chars l' /\ all_ws w1 /\ all_ws w2 /\
    v <> [] /\ forallb is_num_char v = true /\
    suffix_start s /\ forallb is_suffix_char s = true /\ (length s <= 12)%nat /\
    not_starting is_suffix_char (w2 ++ chars l') /\ at_sep (chars l')).
Check (VF.Properties.C04.C04_range_nondec : forall l n l', lex_next l = Val (STok (TNonDec n) l') ->
  exists r ds w, chars l = 35 :: r :: ds ++ w ++ chars l' /\ ds <> [] /\ all_ws w /\
    at_sep (chars l')).
Check (VF.Properties.C04.C04_range_string : forall l s l', lex_next l = Val (STok (TString s) l') ->
  exists q w, chars l = q :: s ++ q :: w ++ chars l' /\ (q = 34 \/ q = 39) /\ all_ws w /\
    forallb is_ascii s = true /\ quotes_paired q s = true /\
    hd_eqb q (w ++ chars l') = false /\ at_sep (chars l')).
Check (VF.Properties.C04.C04_range_block : forall l s l', lex_next l = Val (STok (TBlock s) l') ->
  (chars l = 35 :: 48 :: s ++ [10] /\ chars l' = []) \/
  (exists d lenfield w, chars l = 35 :: d :: lenfield ++ s ++ w ++ chars l' /\
     is_digit d = true /\ d <> 48 /\ length lenfield = N.to_nat (d - 48) /\
     parse_usize lenfield = Some (N.of_nat (length s)) /\ all_ws w /\ at_sep (chars l'))).
Check (VF.Properties.C04.C04_range_block_definite : forall l s l', lex_next l = Val (STok (TBlock s) l') ->
  chars l' <> [] \/ (forall s0, chars l <> 35 :: 48 :: s0) ->
  exists d lenfield w, chars l = 35 :: d :: lenfield ++ s ++ w ++ chars l' /\
    (1 <= length lenfield <= 9)%nat /\ d = 48 + N.of_nat (length lenfield) /\
    forallb is_digit lenfield = true /\
    N.of_nat (length s) = fst (radix_digits 10 lenfield 0 0) /\ all_ws w /\ at_sep (chars l')).
Check (VF.Properties.C04.C04_range_expr : forall l s l', lex_next l = Val (STok (TExpr s) l') ->
  exists w, chars l = 40 :: s ++ 41 :: w ++ chars l' /\ all_ws w /\
    forallb expr_char s = true /\ at_sep (chars l')).
Check (VF.Properties.C04.C04_range_separator : forall l t l', lex_next l = Val (STok t l') ->
  payload t = None -> (forall n, t <> TNonDec n) ->
  exists x w, chars l = x :: w ++ chars l' /\ all_ws w /\
    match t with
    | THeaderMnemonicSeparator => x = 58 /\ w = []
    | THeaderQuerySuffix => x = 63 /\ w = []
    | TUnitSeparator => x = 59 /\ not_starting is_ws (chars l')
    | TDataSeparator => x = 44 /\ not_starting is_ws (chars l')
    | THeaderSeparator => is_ws x = true /\ not_starting is_ws (chars l')
    | _ => False
    end).
Check (VF.Properties.C04.C04_lex_total : forall input, exists ts, tokenize input = Val ts).
Check (VF.Properties.C04.C04_lex_params_total : forall input, exists ts, tokenize_params input = Val ts).
Check (VF.Properties.C04.C04_lex_progress : forall l t l', lex_next l = Val (STok t l') ->
  (length (chars l') < length (chars l))%nat).
Check (VF.Properties.C04.C04_tokenize_shape : forall l ts, tokenize_from l = Val ts ->
  exists toks, ts = map IOk toks \/ exists e, ts = map IOk toks ++ [IErr e]).
Check (VF.Properties.C04.C04_lex_error_class : forall l e, lex_next l = Val (SErr e) ->
  ((-199 <= e <= -100)%Z \/ e = DataOutOfRange)).
Check (VF.Properties.C04.C04_mnemonic_13 : forall m rest com, (length m = 13)%nat ->
  (exists x m', m = x :: m' /\ is_alpha x = true) ->
  forallb is_mnemonic_char m = true ->
  lex_next (mkLexer (m ++ rest) true com) = Val (SErr ProgramMnemonicTooLong)).
Check (VF.Properties.C04.C04_chardata_13 : forall m rest com, (length m = 13)%nat ->
  (exists x m', m = x :: m' /\ is_alpha x = true) ->
  forallb is_mnemonic_char m = true ->
  lex_next (mkLexer (m ++ rest) false com) = Val (SErr CharacterDataTooLong)).
Check (VF.Properties.C04.C04_unterminated_string : forall q body hdr_com, ((q =? 34) || (q =? 39))%N = true ->
  forallb (fun b => negb (b =? q)%N && is_ascii b) body = true ->
  lex_next (mkLexer (q :: body) false hdr_com) = Val (SErr InvalidStringData)).
Check (VF.Properties.C04.C04_non_ascii_in_string : forall q pre b rest com, ((q =? 34) || (q =? 39))%N = true ->
  forallb (fun b => negb (b =? q)%N && is_ascii b) pre = true -> is_ascii b = false ->
  lex_next (mkLexer (q :: pre ++ b :: rest) false com) = Val (SErr InvalidCharacter)).
Check (VF.Properties.C04.C04_non_ascii_outside : forall b rest hdr com, is_ascii b = false ->
  lex_next (mkLexer (b :: rest) hdr com) = Val (SErr InvalidCharacter)).
Check (VF.Properties.C04.C04_block_truncated : forall nd lenfield payload com,
  (1 <= length lenfield <= 9)%nat -> nd = (48 + N.of_nat (length lenfield))%N ->
  forallb is_digit lenfield = true ->
  (N.of_nat (length payload) < fst (radix_digits 10 lenfield 0 0))%N ->
  lex_next (mkLexer (35 :: nd :: lenfield ++ payload) false com) = Val (SErr InvalidBlockData)).
Check (VF.Properties.C04.C04_block_bad_header : forall nd lenfield rest com, (1 <= length lenfield <= 9)%nat ->
  nd = (48 + N.of_nat (length lenfield))%N -> forallb is_digit lenfield = false ->
  lex_next (mkLexer (35 :: nd :: lenfield ++ rest) false com) = Val (SErr InvalidBlockData)).
Check (VF.Properties.C04.C04_doubled_colon : forall rest hdr com,
  lex_next (mkLexer (58 :: 58 :: rest) hdr com) = Val (SErr InvalidSeparator)).
Check (VF.Properties.C04.C04_colon_in_data : forall rest com,
  lex_next (mkLexer (58 :: rest) false com) = Val (SErr InvalidSeparator)).
Check (VF.Properties.C04.C04_colon_in_common : forall rest hdr,
  lex_next (mkLexer (58 :: rest) hdr true) = Val (SErr InvalidSeparator)).
Check (VF.Properties.C04.C04_comma_in_header : forall rest com,
  lex_next (mkLexer (44 :: rest) true com) = Val (SErr HeaderSeparatorError)).
Check (VF.Properties.C04.C04_doubled_comma : forall w rest com, forallb is_ws w = true ->
  lex_next (mkLexer (44 :: w ++ 44 :: rest) false com) = Val (SErr SyntaxError)).
Check (VF.Properties.C04.C04_comma_after_header_sep : forall x w rest hdr com, is_ws x = true -> (x =? 10)%N = false ->
  forallb is_ws w = true ->
  lex_next (mkLexer (x :: w ++ 44 :: rest) hdr com) = Val (SErr SyntaxError)).
Check (VF.Properties.C04.C04_missing_separator_after_chardata : forall m w y rest com, (1 <= length m <= 12)%nat ->
  (exists x m', m = x :: m' /\ is_alpha x = true) -> forallb is_mnemonic_char m = true ->
  forallb is_ws w = true ->
  is_mnemonic_char y = false -> is_ws y = false -> (y =? 44)%N = false -> (y =? 59)%N = false ->
  lex_next (mkLexer (m ++ w ++ y :: rest) false com) = Val (SErr InvalidCharacterData)).
Check (VF.Properties.C04.C04_missing_separator_after_string : forall q body w y rest com, ((q =? 34) || (q =? 39))%N = true ->
  forallb (fun b => negb (b =? q)%N && is_ascii b) body = true -> forallb is_ws w = true ->
  is_ws y = false -> (y =? 44)%N = false -> (y =? 59)%N = false -> (y =? q)%N = false ->
  lex_next (mkLexer (q :: body ++ q :: w ++ y :: rest) false com) = Val (SErr SuffixNotAllowed)).
