(* GENERATED ONCE by tools/pin.py from Properties/C04.v and committed: the pinned statements. *)
From VF.Properties Require C04.
From VF Require Import Base Gen_Errors Fmt Lexer Grammar Lexer_proofs Grammar_proofs Message_proofs2.
Open Scope N_scope.

Check (VF.Properties.C04.C04_lex_faithful : forall m, wf_msg m = true -> tokenize (render_msg m) = Val (map IOk (tokens_of m))).
Check (VF.Properties.C04.C04_lex_faithful_trailing_separator : forall m w, wf_msg m = true -> wf_ws w = true ->
  tokenize (m_lead m ++ render_units (m_units m) ++ 59 :: w ++ (if m_nl m then [10] else []))
  = Val (map IOk (tokens_of m ++ [TUnitSeparator]))).
Check (VF.Properties.C04.C04_lex_empty : forall w (nl : bool), wf_ws w = true ->
  tokenize (w ++ (if nl then [10] else [])) = Val []).
Check (VF.Properties.C04.C04_lex_total : forall input, exists ts, tokenize input = Val ts).
Check (VF.Properties.C04.C04_lex_params_total : forall input, exists ts, tokenize_params input = Val ts).
Check (VF.Properties.C04.C04_lex_progress : forall l t l', lex_next l = Val (STok t l') ->
  (length (chars l') < length (chars l))%nat).
Check (VF.Properties.C04.C04_tokenize_shape : forall l ts, tokenize_from l = Val ts ->
  exists toks, ts = map IOk toks \/ exists e, ts = map IOk toks ++ [IErr e]).
Check (VF.Properties.C04.C04_lex_error_class : forall l e, lex_next l = Val (SErr e) ->
  ((-199 <= e <= -100)%Z \/ e = DataOutOfRange)).
Check (VF.Properties.C04.C04_mnemonic_13 : forall m rest com, (length m = 13)%nat ->
  (exists x m', m = x :: m' /\ is_alpha x = true) ->
  forallb is_mnemonic_char m = true ->
  lex_next (mkLexer (m ++ rest) true com) = Val (SErr ProgramMnemonicTooLong)).
Check (VF.Properties.C04.C04_chardata_13 : forall m rest com, (length m = 13)%nat ->
  (exists x m', m = x :: m' /\ is_alpha x = true) ->
  forallb is_mnemonic_char m = true ->
  lex_next (mkLexer (m ++ rest) false com) = Val (SErr CharacterDataTooLong)).
Check (VF.Properties.C04.C04_unterminated_string : forall q body hdr_com, ((q =? 34) || (q =? 39))%N = true ->
  forallb (fun b => negb (b =? q)%N && is_ascii b) body = true ->
  lex_next (mkLexer (q :: body) false hdr_com) = Val (SErr InvalidStringData)).
Check (VF.Properties.C04.C04_non_ascii_in_string : forall q pre b rest com, ((q =? 34) || (q =? 39))%N = true ->
  forallb (fun b => negb (b =? q)%N && is_ascii b) pre = true -> is_ascii b = false ->
  lex_next (mkLexer (q :: pre ++ b :: rest) false com) = Val (SErr InvalidCharacter)).
Check (VF.Properties.C04.C04_non_ascii_outside : forall b rest hdr com, is_ascii b = false ->
  lex_next (mkLexer (b :: rest) hdr com) = Val (SErr InvalidCharacter)).
Check (VF.Properties.C04.C04_block_truncated : forall nd lenfield payload com,
  (1 <= length lenfield <= 9)%nat -> nd = (48 + N.of_nat (length lenfield))%N ->
  forallb is_digit lenfield = true ->
  (N.of_nat (length payload) < fst (radix_digits 10 lenfield 0 0))%N ->
  lex_next (mkLexer (35 :: nd :: lenfield ++ payload) false com) = Val (SErr InvalidBlockData)).
Check (VF.Properties.C04.C04_block_bad_header : forall nd lenfield rest com, (1 <= length lenfield <= 9)%nat ->
  nd = (48 + N.of_nat (length lenfield))%N -> forallb is_digit lenfield = false ->
  lex_next (mkLexer (35 :: nd :: lenfield ++ rest) false com) = Val (SErr InvalidBlockData)).
Check (VF.Properties.C04.C04_doubled_colon : forall rest hdr com,
  lex_next (mkLexer (58 :: 58 :: rest) hdr com) = Val (SErr InvalidSeparator)).
Check (VF.Properties.C04.C04_colon_in_data : forall rest com,
  lex_next (mkLexer (58 :: rest) false com) = Val (SErr InvalidSeparator)).
Check (VF.Properties.C04.C04_colon_in_common : forall rest hdr,
  lex_next (mkLexer (58 :: rest) hdr true) = Val (SErr InvalidSeparator)).
Check (VF.Properties.C04.C04_comma_in_header : forall rest com,
  lex_next (mkLexer (44 :: rest) true com) = Val (SErr HeaderSeparatorError)).
Check (VF.Properties.C04.C04_doubled_comma : forall w rest com, forallb is_ws w = true ->
  lex_next (mkLexer (44 :: w ++ 44 :: rest) false com) = Val (SErr SyntaxError)).
Check (VF.Properties.C04.C04_comma_after_header_sep : forall x w rest hdr com, is_ws x = true -> (x =? 10)%N = false ->
  forallb is_ws w = true ->
  lex_next (mkLexer (x :: w ++ 44 :: rest) hdr com) = Val (SErr SyntaxError)).
Check (VF.Properties.C04.C04_missing_separator_after_chardata : forall m w y rest com, (1 <= length m <= 12)%nat ->
  (exists x m', m = x :: m' /\ is_alpha x = true) -> forallb is_mnemonic_char m = true ->
  forallb is_ws w = true ->
  is_mnemonic_char y = false -> is_ws y = false -> (y =? 44)%N = false -> (y =? 59)%N = false ->
  lex_next (mkLexer (m ++ w ++ y :: rest) false com) = Val (SErr InvalidCharacterData)).
Check (VF.Properties.C04.C04_missing_separator_after_string : forall q body w y rest com, ((q =? 34) || (q =? 39))%N = true ->
  forallb (fun b => negb (b =? q)%N && is_ascii b) body = true -> forallb is_ws w = true ->
  is_ws y = false -> (y =? 44)%N = false -> (y =? 59)%N = false -> (y =? q)%N = false ->
  lex_next (mkLexer (q :: body ++ q :: w ++ y :: rest) false com) = Val (SErr SuffixNotAllowed)).
