(* GENERATED ONCE by tools/pin.py from Properties/C20.v and committed: the pinned statements. *)
From VF.Properties Require C20.
From VF Require Import Base Gen_Errors Lexer Mnemonic MnemonicSpec Enum Enum_proofs.
Open Scope N_scope.

Check (VF.Properties.C20.C20_from_sound : forall defs s i, from_mnemonic defs s = Some i ->
  exists m, nth_error defs i = Some m /\ mnemonic_match m s = true).
Check (VF.Properties.C20.C20_from_first : forall defs s i j m, from_mnemonic defs s = Some i -> (j < i)%nat ->
  nth_error defs j = Some m -> mnemonic_match m s = false).
Check (VF.Properties.C20.C20_from_none : forall defs s, from_mnemonic defs s = None <->
  (forall m, In m defs -> mnemonic_match m s = false)).
Check (VF.Properties.C20.C20_from_iff : forall defs s i m, no_overlap defs -> nth_error defs i = Some m ->
  (from_mnemonic defs s = Some i <-> mnemonic_match m s = true)).
Check (VF.Properties.C20.C20_try_from_char : forall defs s, enum_try_from defs (TChar s) =
  match from_mnemonic defs s with Some i => Ok i | None => Err IllegalParameterValue end).
Check (VF.Properties.C20.C20_try_from_other : forall defs tok, (forall s, tok <> TChar s) -> enum_try_from defs tok = Err DataTypeError).
Check (VF.Properties.C20.C20_illegal_iff : forall defs s, enum_try_from defs (TChar s) = Err IllegalParameterValue <->
  (forall m, In m defs -> mnemonic_match m s = false)).
Check (VF.Properties.C20.C20_mnemonic_own : forall defs i, mnemonic_of defs i = nth_error defs i).
Check (VF.Properties.C20.C20_short_form_shape : forall U L Dg, U <> [] -> all_b is_upper U = true -> all_b is_lower L = true -> all_b is_digit Dg = true ->
  short_form (U ++ L ++ Dg) = match L with [] => U ++ Dg | _ => U end).
Check (VF.Properties.C20.C20_response_form : forall U L Dg, U <> [] -> all_b is_upper U = true -> all_b is_lower L = true -> all_b is_digit Dg = true ->
  enum_response (U ++ L ++ Dg) = U ++ Dg).
Check (VF.Properties.C20.C20_response_matches_own : forall m, enum_shape m -> mnemonic_match m (enum_response m) = true).
Check (VF.Properties.C20.C20_enum_roundtrip : forall defs i m, no_overlap defs -> nth_error defs i = Some m -> enum_shape m ->
  from_mnemonic defs (enum_response m) = Some i).
