(* Mnemonic.v — model of scpi/src/parser/tokenizer/util.rs:
   mnemonic_compare, mnemonic_split_index, mnemonic_match.  Model file: no proofs. *)
From VF Require Import Base.

(* mnemonic.iter().all(|m| { let x = s_iter.next();
       if m.is_ascii_lowercase() && x.is_some() { optional = false; }
       x.map_or(!(m.is_ascii_uppercase() || m.is_ascii_digit()) && optional,
                |x| m.eq_ignore_ascii_case(x)) })
   `all` stops at the first false. *)
Fixpoint cmp_loop (m s : list byte) (optional : bool) : bool :=
  match m with
  | [] => true
  | mb :: m' =>
    match s with
    | x :: s' =>
      let optional' := if is_lower mb then false else optional in
      eq_nocase mb x && cmp_loop m' s' optional'
    | [] => (negb (is_upper mb || is_digit mb) && optional) && cmp_loop m' [] optional
    end
  end.

Definition mnemonic_compare (m s : list byte) : bool :=
  Nat.leb (length s) (length m) && cmp_loop m s true.

(* Iterator::rposition *)
Fixpoint rposition (p : byte -> bool) (l : list byte) : option nat :=
  match l with
  | [] => None
  | x :: l' =>
    match rposition p l' with
    | Some i => Some (S i)
    | None => if p x then Some O else None
    end
  end.

Definition mnemonic_split_index (m : list byte) : option (list byte * list byte) :=
  match rposition (fun p => negb (is_digit p)) m with
  | Some index =>
    if Nat.eqb index (length m - 1) then None
    else Some (firstn (index + 1) m, skipn (index + 1) m)
  | None => None
  end.

Definition one : list byte := [49].   (* b"1" *)

Definition mnemonic_match (m s : list byte) : bool :=
  mnemonic_compare m s ||
  match mnemonic_split_index m, mnemonic_split_index s with
  | None, None => false
  | Some (mb, index), None => mnemonic_compare mb s && bytes_eqb index one
  | None, Some (x, index) => mnemonic_compare m x && bytes_eqb index one
  | Some (mb, index1), Some (x, index2) => mnemonic_compare mb x && bytes_eqb index1 index2
  end.
