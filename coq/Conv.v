(* Conv.v — model of the TryFrom<Token> conversions of scpi/src/parser/parameters.rs
   (integers, floats, bool, strings, blocks, character, expression) in the checked
   style: a non-data token reaches `parser_unreachable!` = Panic.
   lexical-core's float parser is NOT modelled algorithmically: its specification
   (the correctly rounded value, [dec2sf]) stands in for it (DESIGN 3.5).
   Model file: no proofs. *)
From Coq Require Import Floats.SpecFloat.
From VF Require Import Base Gen_Errors Fmt Lexer Mnemonic.
Open Scope Z_scope.

(* ---- decimal literals ---- *)
Fixpoint digits_val (ds : list byte) (acc : N) : N :=
  match ds with
  | [] => acc
  | d :: ds' => digits_val ds' (acc * 10 + (d - 48))%N
  end.
Definition take_digits (c : list byte) : list byte * list byte :=
  (firstn (length c - length (skip_while is_digit c)) c, skip_while is_digit c).

(* sign, mantissa digits as an integer, decimal exponent; None when [s] is not an NRf *)
Definition parse_nrf (s : list byte) : option (bool * N * Z) :=
  let neg := match s with 45%N :: _ => true | _ => false end in
  let c1 := skip_sign s in
  let '(ip, c2) := take_digits c1 in
  let '(fp, c3) := match c2 with 46%N :: c => take_digits c | _ => ([], c2) end in
  match ip, fp with
  | [], [] => None
  | _, _ =>
    let m := digits_val (ip ++ fp) 0 in
    let frac_len := Z.of_nat (length fp) in
    match c3 with
    | [] => Some (neg, m, - frac_len)
    | e :: c4 =>
      if ((e =? 69) || (e =? 101))%N then
        let eneg := match c4 with 45%N :: _ => true | _ => false end in
        let '(ed, c5) := take_digits (skip_sign c4) in
        match ed, c5 with
        | _ :: _, [] => let ev := Z.of_N (digits_val ed 0) in
                        Some (neg, m, (if eneg then - ev else ev) - frac_len)
        | _, _ => None
        end
      else None
    end
  end.

(* number of decimal digits of m (m > 0) *)
Definition dec_digits (m : N) : Z := Z.of_nat (length (fmt_N m)).

(* the correctly rounded binary float of (-1)^neg * m * 10^e10 in the format (prec, emax):
   round to nearest even; infinity beyond the range.  Far outside the range the result is
   decided without computing the power of ten. *)
Definition dec2sf_core (prec emax : Z) (neg : bool) (m : positive) (e10 : Z) : spec_float :=
  if 0 <=? e10 then binary_round prec emax neg (m * Pos.pow 10 (Z.to_pos e10))%positive 0
  else
    let '(q, e, l) := SFdiv_core_binary prec emax (Zpos m) 0 (Zpos (Pos.pow 10 (Z.to_pos (- e10)))) 0 in
    binary_round_aux prec emax neg q e l.
Definition dec2sf (prec emax : Z) (neg : bool) (m : N) (e10 : Z) : spec_float :=
  match m with
  | N0 => S754_zero neg
  | Npos p =>
    if e10 =? 0 then binary_round prec emax neg p 0
    else if 400 <=? dec_digits m - 1 + e10 then S754_infinity neg
    else if dec_digits m + e10 <=? -400 then S754_zero neg
    else dec2sf_core prec emax neg p e10
  end.

Inductive fty := F32 | F64.
Definition f_prec (t : fty) : Z := match t with F32 => 24 | F64 => 53 end.
Definition f_emax (t : fty) : Z := match t with F32 => 128 | F64 => 1024 end.
Definition parse_float (t : fty) (s : list byte) : option spec_float :=
  match parse_nrf s with
  | Some (neg, m, e10) => Some (dec2sf (f_prec t) (f_emax t) neg m e10)
  | None => None
  end.

(* IEEE-754 bit pattern *)
Definition sf_bits (t : fty) (f : spec_float) : Z :=
  let p := f_prec t in let w := match t with F32 => 32 | F64 => 64 end in
  let ebits := w - p in
  let sgn (s : bool) := if s then 2 ^ (w - 1) else 0 in
  match f with
  | S754_zero s => sgn s
  | S754_infinity s => sgn s + (2 ^ ebits - 1) * 2 ^ (p - 1)
  | S754_nan => (2 ^ ebits - 1) * 2 ^ (p - 1) + 2 ^ (p - 2)         (* the canonical quiet NaN of Rust's NAN constant *)
  | S754_finite s m e =>
    if Zpos m <? 2 ^ (p - 1) then sgn s + Zpos m                       (* subnormal *)
    else sgn s + (e + (f_emax t - 2) + p) * 2 ^ (p - 1) + (Zpos m - 2 ^ (p - 1))
  end.
(* largest finite value *)
Definition sf_max (t : fty) (neg : bool) : spec_float :=
  S754_finite neg (Z.to_pos (2 ^ f_prec t - 1)) (f_emax t - f_prec t).

(* exact value rounded to the nearest integer, ties away from zero; None for NaN / infinities *)
Definition sf_round_half_away (f : spec_float) : option Z :=
  match f with
  | S754_zero _ => Some 0
  | S754_finite s m e =>
    let mag := if 0 <=? e then Zpos m * 2 ^ e
               else let d := 2 ^ (- e) in Zpos m / d + (if d <=? 2 * (Zpos m mod d) then 1 else 0) in
    Some (if s then - mag else mag)
  | _ => None
  end.

(* ---- integer targets ---- *)
Inductive ity := I8 | U8 | I16 | U16 | I32 | U32 | I64 | U64 | Isize | Usize.
Definition ity_min (t : ity) : Z :=
  match t with I8 => -128 | I16 => -32768 | I32 => -2147483648 | I64 | Isize => -9223372036854775808 | _ => 0 end.
Definition ity_max (t : ity) : Z :=
  match t with
  | I8 => 127 | U8 => 255 | I16 => 32767 | U16 => 65535 | I32 => 2147483647 | U32 => 4294967295
  | I64 | Isize => 9223372036854775807 | U64 | Usize => 18446744073709551615
  end.
Definition ity_signed (t : ity) : bool := match t with I8 | I16 | I32 | I64 | Isize => true | _ => false end.
(* impl_tryfrom_integer!(T, f32) for 8/16-bit targets, f64 otherwise *)
Definition ity_float (t : ity) : fty := match t with I8 | U8 | I16 | U16 => F32 | _ => F64 end.

(* lexical_core::parse::<i128> narrowed with try_from: optional sign, then digits only; the value
   is exact (an undetected i128 wrap of lexical-core is far outside every target range) *)
Inductive intparse := IPValue (z : Z) | IPInvalidDigit | IPRange.
Definition lexical_parse_int (t : ity) (s : list byte) : intparse :=
  let neg := match s with 45%N :: _ => true | _ => false end in
  let body := skip_sign s in
  match body with
  | [] => IPInvalidDigit
  | _ =>
    if negb (forallb is_digit body) then IPInvalidDigit
    else let v := Z.of_N (digits_val body 0) in
         let z := if neg then - v else v in
         if (ity_min t <=? z) && (z <=? ity_max t) then IPValue z else IPRange
  end.

Definition kw_max : list byte := [77; 65; 88; 105; 109; 117; 109]%N.       (* MAXimum *)
Definition kw_min : list byte := [77; 73; 78; 105; 109; 117; 109]%N.       (* MINimum *)
Definition kw_inf : list byte := [73; 78; 70; 105; 110; 105; 116; 121]%N.  (* INFinity *)
Definition kw_ninf : list byte := [78; 73; 78; 70; 105; 110; 105; 116; 121]%N. (* NINFinity *)
Definition kw_nan : list byte := [78; 65; 78]%N.                            (* NAN *)

Definition internal {A} : outcome A := Panic "parser_unreachable: non-data token converted".
Definition type_error {A} (t : token) : outcome (res A) := if is_data t then Val (Err DataTypeError) else internal.

Definition conv_int (t : ity) (tok : token) : outcome (res Z) :=
  match tok with
  | TDec s =>
    match lexical_parse_int t s with
    | IPValue z => Val (Ok z)
    | IPRange => Val (Err DataOutOfRange)
    | IPInvalidDigit =>
      match parse_float (ity_float t) s with
      | None => Val (Err NumericDataError)
      | Some v =>
        match sf_round_half_away v with
        | None => Val (Err DataOutOfRange)
        | Some n => if (ity_min t <=? n) && (n <=? ity_max t) then Val (Ok n) else Val (Err DataOutOfRange)
        end
      end
    end
  | TNonDec n => if Z.of_N n <=? ity_max t then Val (Ok (Z.of_N n)) else Val (Err DataOutOfRange)
  | TChar s =>
    if mnemonic_compare kw_max s then Val (Ok (ity_max t))
    else if mnemonic_compare kw_min s then Val (Ok (ity_min t))
    else Val (Err DataTypeError)
  | TDecSuffix _ _ => Val (Err SuffixNotAllowed)
  | _ => type_error tok
  end.

Definition conv_float (t : fty) (tok : token) : outcome (res spec_float) :=
  match tok with
  | TDec s => match parse_float t s with
              | Some v => Val (Ok v)
              | None => Val (Err NumericDataError)
              end
  | TChar s =>
    if mnemonic_compare kw_inf s then Val (Ok (S754_infinity false))
    else if mnemonic_compare kw_ninf s then Val (Ok (S754_infinity true))
    else if mnemonic_compare kw_nan s then Val (Ok S754_nan)
    else if mnemonic_compare kw_max s then Val (Ok (sf_max t false))
    else if mnemonic_compare kw_min s then Val (Ok (sf_max t true))
    else Val (Err DataTypeError)
  | TDecSuffix _ _ => Val (Err SuffixNotAllowed)
  | _ => type_error tok
  end.

Definition kw_on : list byte := [79; 78]%N.
Definition kw_off : list byte := [79; 70; 70]%N.
Definition conv_bool (tok : token) : outcome (res bool) :=
  match tok with
  | TDec s =>
    match parse_float F64 s with
    | None => Val (Err NumericDataError)
    | Some v => match sf_round_half_away v with
                | Some n => Val (Ok (negb (n =? 0)))
                | None => Val (Ok true)                    (* beyond the double range: rounds to non-zero *)
                end
    end
  | TChar s =>
    if bytes_eq_nocase s kw_on then Val (Ok true)
    else if bytes_eq_nocase s kw_off then Val (Ok false)
    else Val (Err IllegalParameterValue)
  | _ => type_error tok
  end.

(* core::str::from_utf8 validity (Unicode 15, table 3-7) *)
Fixpoint utf8_valid_fuel (fuel : nat) (s : list byte) : bool :=
  match fuel with
  | O => true
  | S f =>
    let cont (b : byte) := ((128 <=? b) && (b <=? 191))%N in
    match s with
    | [] => true
    | b0 :: r =>
      if (b0 <=? 127)%N then utf8_valid_fuel f r
      else if ((194 <=? b0) && (b0 <=? 223))%N then
        match r with b1 :: r' => cont b1 && utf8_valid_fuel f r' | _ => false end
      else if ((224 <=? b0) && (b0 <=? 239))%N then
        match r with
        | b1 :: b2 :: r' =>
          (if (b0 =? 224)%N then ((160 <=? b1) && (b1 <=? 191))%N
           else if (b0 =? 237)%N then ((128 <=? b1) && (b1 <=? 159))%N else cont b1)
          && cont b2 && utf8_valid_fuel f r'
        | _ => false
        end
      else if ((240 <=? b0) && (b0 <=? 244))%N then
        match r with
        | b1 :: b2 :: b3 :: r' =>
          (if (b0 =? 240)%N then ((144 <=? b1) && (b1 <=? 191))%N
           else if (b0 =? 244)%N then ((128 <=? b1) && (b1 <=? 143))%N else cont b1)
          && cont b2 && cont b3 && utf8_valid_fuel f r'
        | _ => false
        end
      else false
    end
  end.
Definition utf8_valid (s : list byte) : bool := utf8_valid_fuel (S (length s)) s.

Inductive bty := BBytes | BStr | BArb | BChr | BExpr.
Definition conv_bytes (t : bty) (tok : token) : outcome (res (list byte)) :=
  match t, tok with
  | BBytes, TString s => Val (Ok s)
  | BStr, TString s | BStr, TBlock s => if utf8_valid s then Val (Ok s) else Val (Err StringDataError)
  | BArb, TBlock s => Val (Ok s)
  | BChr, TChar s => Val (Ok s)
  | BExpr, TExpr s => Val (Ok s)
  | _, _ => type_error tok
  end.

(* IEEE-754 bit pattern -> value (inverse of sf_bits on canonical patterns; every NaN is S754_nan) *)
Definition sf_of_bits (t : fty) (z : Z) : spec_float :=
  let p := f_prec t in let w := match t with F32 => 32 | F64 => 64 end in
  let ebits := w - p in
  let s := 2 ^ (w - 1) <=? z in
  let r := z mod 2 ^ (w - 1) in
  let e := r / 2 ^ (p - 1) in
  let m := r mod 2 ^ (p - 1) in
  if e =? 2 ^ ebits - 1 then (if m =? 0 then S754_infinity s else S754_nan)
  else if e =? 0 then (match m with Zpos mp => S754_finite s mp (3 - f_emax t - p) | _ => S754_zero s end)
  else S754_finite s (Z.to_pos (m + 2 ^ (p - 1))) (e - (f_emax t - 2) - p).
