(* Lexer.v — model of scpi/src/parser/tokenizer/{mod,util}.rs, statement by
   statement, in the checked style of DESIGN 3.2: every Rust operation that can
   panic (unwrap on an exhausted iterator, slice index out of range, usize
   subtraction below zero) is an explicit [Panic] outcome.  Model file: no proofs.

   A byte cursor (core::slice::Iter<u8>) is the remaining slice, [list N]. *)
From VF Require Import Base Gen_Errors.
Open Scope N_scope.

Inductive token : Type :=
| THeaderMnemonicSeparator | THeaderQuerySuffix | TUnitSeparator | THeaderSeparator | TDataSeparator
| TMnemonic (s : list byte)
| TChar (s : list byte)
| TDec (s : list byte)
| TDecSuffix (v s : list byte)
| TNonDec (n : N)
| TString (s : list byte)
| TBlock (s : list byte)
| TExpr (s : list byte).

Definition is_data (t : token) : bool :=
  match t with
  | TChar _ | TDec _ | TDecSuffix _ _ | TNonDec _ | TString _ | TBlock _ | TExpr _ => true
  | _ => false
  end.

(* ---- util.rs ---- *)
Fixpoint skip_while (p : byte -> bool) (c : list byte) : list byte :=
  match c with
  | x :: c' => if p x then skip_while p c' else c
  | [] => []
  end.
Definition skip_ws (c : list byte) : list byte := skip_while is_ws c.
(* skip_digits: returns (any digit skipped, rest) *)
Definition skip_digits (c : list byte) : bool * list byte :=
  (match c with x :: _ => is_digit x | [] => false end, skip_while is_digit c).
Definition is_sign (b : byte) : bool := (b =? 43) || (b =? 45).
Definition skip_sign (c : list byte) : list byte :=
  match c with x :: c' => if is_sign x then c' else c | [] => [] end.

(* ascii_to_digit(digit, radix) *)
Definition ascii_to_digit (d radix : N) : option N :=
  let lc := to_lower d in
  if is_digit d && (d - 48 <? radix) then Some (d - 48)
  else if (10 <? radix) && is_alpha lc && (lc - 97 <? radix - 10) then Some (lc - 97 + 10)
  else None.

(* &s[0 .. s.len() - rest.len() - k] *)
Definition consumed (s rest : list byte) (k : nat) : outcome (list byte) :=
  let* a := usub (length s) (length rest) in
  let* b := usub a k in
  slice_to s b.

(* iter.nth(n - 1).unwrap() for n >= 1: drops n bytes, panics when fewer are left *)
Definition drop_unwrap (n : nat) (c : list byte) : outcome (list byte) :=
  if Nat.ltb (length c) n then Panic "nth(..).unwrap() on exhausted iterator" else Val (skipn n c).

(* the `while next is in class { next(); len += 1; if len > 12 { return Err } }` loops;
   None: the 12-character limit was exceeded *)
Fixpoint scan12 (p : byte -> bool) (len : nat) (c : list byte) : option (list byte) :=
  match c with
  | x :: c' => if p x then (if Nat.ltb 12 (S len) then None else scan12 p (S len) c') else Some c
  | [] => Some []
  end.

Definition is_mnemonic_char (b : byte) : bool := is_alnum b || (b =? 95).
Definition is_suffix_char (b : byte) : bool := is_alnum b || (b =? 45) || (b =? 47) || (b =? 46).

(* result of a reader: SCPI result of (token, rest) *)
Definition lres := res (token * list byte).

(* skip_ws_to_separator(error): Ok rest / Err *)
Definition skip_ws_to_separator (err : Z) (c : list byte) : res (list byte) :=
  let c' := skip_ws c in
  match c' with
  | x :: _ => if negb (x =? 44) && negb (x =? 59) && negb (x =? 10) then Err err else Ok c'
  | [] => Ok []
  end.

Definition read_mnemonic (common : bool) (c : list byte) : outcome lres :=
  let r := match c with
           | x :: c' => if (x =? 42) && common then scan12 is_mnemonic_char 0 c' else scan12 is_mnemonic_char 0 c
           | [] => Some []
           end in
  match r with
  | None => Val (Err ProgramMnemonicTooLong)
  | Some rest => let* p := consumed c rest 0 in Val (Ok (TMnemonic p, rest))
  end.

Definition read_character_data (c : list byte) : outcome lres :=
  match scan12 is_mnemonic_char 0 c with
  | None => Val (Err CharacterDataTooLong)
  | Some rest =>
    let* p := consumed c rest 0 in
    match skip_ws_to_separator InvalidCharacterData rest with
    | Err e => Val (Err e)
    | Ok rest' => Val (Ok (TChar p, rest'))
    end
  end.

(* read_nrf: returns the rest after the number, or Err *)
Definition read_exponent (c : list byte) : res (list byte) :=
  match c with
  | x :: c' =>
    if (x =? 69) || (x =? 101) then
      let '(d, c'') := skip_digits (skip_sign c') in
      if d then Ok c'' else Err NumericDataError
    else Ok c
  | [] => Ok []
  end.
Definition read_nrf_rest (c : list byte) : res (list byte) :=
  let '(leading, c2) := skip_digits (skip_sign c) in
  match c2 with
  | 46 :: c3 =>
    let '(frac, c4) := skip_digits c3 in
    if negb frac && negb leading then Err NumericDataError else read_exponent c4
  | _ => if negb leading then Err NumericDataError else read_exponent c2
  end.

Definition read_suffix_data (val : list byte) (c : list byte) : outcome lres :=
  match scan12 is_suffix_char 0 c with
  | None => Val (Err SuffixTooLong)
  | Some rest =>
    let* p := consumed c rest 0 in
    match skip_ws_to_separator InvalidSuffix rest with
    | Err e => Val (Err e)
    | Ok rest' => Val (Ok (TDecSuffix val p, rest'))
    end
  end.

Definition read_numeric_data (c : list byte) : outcome lres :=
  match read_nrf_rest c with
  | Err e => Val (Err e)
  | Ok rest =>
    let* s := consumed c rest 0 in
    let rest' := skip_ws rest in
    match rest' with
    | x :: _ =>
      if is_alpha x || (x =? 47) then read_suffix_data s rest'
      else match skip_ws_to_separator InvalidSuffix rest' with
           | Err e => Val (Err e)
           | Ok r => Val (Ok (TDec s, r))
           end
    | [] => Val (Ok (TDec s, []))
    end
  end.

(* lexical_core::parse_partial::<u64, radix>: optional '+', then digits of the radix;
   (value, bytes consumed); '-' first is InvalidDigit; overflow beyond u64 is an error.
   [acc] is unbounded; the u64 range is tested on the result. *)
Fixpoint radix_digits (radix : N) (c : list byte) (acc : N) (n : nat) : N * nat :=
  match c with
  | x :: c' => match ascii_to_digit x radix with
               | Some d => radix_digits radix c' (acc * radix + d) (S n)
               | None => (acc, n)
               end
  | [] => (acc, n)
  end.
Definition u64_max : N := 18446744073709551615.
Inductive lexerr := LexInvalidDigit | LexOverflow | LexOther.
Definition parse_partial_u64 (radix : N) (c : list byte) : lexerr + (N * nat) :=
  match c with
  | 45 :: _ => inl LexOther            (* read_nondecimal_data rejects a sign before calling lexical *)
  | 43 :: _ => inl LexOther
  | _ => let '(v, n) := radix_digits radix c 0 0 in
         if u64_max <? v then inl LexOverflow else inr (v, n)
  end.

Definition read_nondecimal_data (radix : byte) (c : list byte) : outcome lres :=
  let base := if (radix =? 72) || (radix =? 104) then Some 16
              else if (radix =? 81) || (radix =? 113) then Some 8
              else if (radix =? 66) || (radix =? 98) then Some 2 else None in
  match base with
  | None => Val (Err NumericDataError)
  | Some b =>
    match parse_partial_u64 b c with
    | inl LexInvalidDigit => Val (Err InvalidCharacterInNumber)
    | inl LexOverflow => Val (Err DataOutOfRange)
    | inl LexOther => Val (Err NumericDataError)
    | inr (v, len) =>
      if Nat.ltb 0 len then
        let* rest := drop_unwrap len c in
        match skip_ws_to_separator SuffixNotAllowed rest with
        | Err e => Val (Err e)
        | Ok rest' => Val (Ok (TNonDec v, rest'))
        end
      else Val (Err NumericDataError)
    end
  end.

(* read_string_data: the loop after the opening quote; returns the rest after the closing quote *)
Fixpoint string_loop (q : byte) (c : list byte) : res (list byte) :=
  match c with
  | [] => Err InvalidStringData
  | ch :: c' =>
    if ch =? q then
      match c' with
      | c2 :: c'' => if c2 =? q then string_loop q c'' else Ok c'
      | [] => Ok []
      end
    else if negb (is_ascii ch) then Err InvalidCharacter
    else string_loop q c'
  end.
Definition read_string_data (c : list byte) : outcome lres :=
  match c with
  | [] => Val (Err InvalidStringData)          (* not reachable: called on a quote *)
  | q :: s =>
    match string_loop q s with
    | Err e => Val (Err e)
    | Ok rest =>
      let* p := consumed s rest 1 in
      match skip_ws_to_separator SuffixNotAllowed rest with
      | Err e => Val (Err e)
      | Ok rest' => Val (Ok (TString p, rest'))
      end
    end
  end.

(* lexical_core::parse::<usize> on the whole slice: optional '+', one or more decimal digits *)
Definition all_digits (c : list byte) : bool := forallb is_digit c.
Definition parse_usize (c : list byte) : option N :=
  let body := c in                  (* read_arbitrary_data requires ASCII digits only *)
  match body with
  | [] => None
  | _ => if all_digits body then
           let '(v, _) := radix_digits 10 body 0 0 in
           if u64_max <? v then None else Some v
         else None
  end.

Definition read_arbitrary_data (format : byte) (c : list byte) : outcome lres :=
  match ascii_to_digit format 10 with
  | None => Val (Err InvalidBlockData)
  | Some 0 =>
    match c with
    | [] => Val (Err InvalidBlockData)
    | _ =>
      let* n := usub (length c) 1 in
      let* body := slice_to c n in
      let* rest := drop_unwrap n c in            (* `for _ in u8str { next() }` *)
      match rest with
      | [] => Panic "next().unwrap() on exhausted iterator"
      | last :: rest' => if last =? 10 then Val (Ok (TBlock body, rest')) else Val (Err InvalidBlockData)
      end
    end
  | Some len =>
    let l := N.to_nat len in
    if Nat.ltb (length c) l then Val (Err InvalidBlockData)          (* .get(..len) *)
    else match parse_usize (firstn l c) with
         | None => Val (Err InvalidBlockData)
         | Some plen =>
           let* c1 := drop_unwrap l c in
           if N.of_nat (length c1) <? plen then Val (Err InvalidBlockData)   (* .get(0..payload_len) *)
           else
             let p := N.to_nat plen in
             let body := firstn p c1 in
             let rest := skipn p c1 in
             match skip_ws_to_separator SuffixNotAllowed rest with
             | Err e => Val (Err e)
             | Ok rest' => Val (Ok (TBlock body, rest'))
             end
         end
  end.

Definition expr_illegal (b : byte) : bool :=
  (b =? 34) || (b =? 39) || (b =? 59) || (b =? 40) || (b =? 41) || negb (is_ascii b).
Fixpoint expr_loop (c : list byte) : res (list byte) :=     (* rest, starting at ')' or empty *)
  match c with
  | [] => Ok []
  | x :: c' => if x =? 41 then Ok c else if expr_illegal x then Err InvalidExpression else expr_loop c'
  end.
Definition read_expression_data (c : list byte) : outcome lres :=
  match c with
  | [] => Val (Err InvalidExpression)
  | _ :: s =>
    match expr_loop s with
    | Err e => Val (Err e)
    | Ok rest =>
      let* p := consumed s rest 0 in
      match rest with
      | [] => Val (Err InvalidExpression)
      | _ :: rest1 =>
        match skip_ws_to_separator SuffixNotAllowed rest1 with
        | Err e => Val (Err e)
        | Ok rest' => Val (Ok (TExpr p, rest'))
        end
      end
    end
  end.

(* ---- the Iterator ---- *)
Record lexer := mkLexer { chars : list byte; in_header : bool; in_common : bool }.
Definition lexer_new (buf : list byte) : lexer := mkLexer (skip_ws buf) true false.
Definition lexer_params (buf : list byte) : lexer := mkLexer buf false false.

Inductive step :=
| SEnd                              (* None *)
| SErr (code : Z)                   (* Some(Err(code)): the stream is not read past it *)
| STok (t : token) (l : lexer).

Definition of_lres (hdr com : bool) (r : outcome lres) : outcome step :=
  let* x := r in
  Val (match x with Err e => SErr e | Ok (t, rest) => STok t (mkLexer rest hdr com) end).

Definition lex_next (l : lexer) : outcome step :=
  match chars l with
  | [] => Val SEnd
  | x :: rest =>
    let hdr := in_header l in
    let com := in_common l in
    if x =? 42 then of_lres hdr true (read_mnemonic true (chars l))
    else if x =? 58 then
      match rest with
      | y :: _ => if negb (is_alpha y) then Val (SErr InvalidSeparator)
                  else if negb hdr || com then Val (SErr InvalidSeparator)
                  else Val (STok THeaderMnemonicSeparator (mkLexer rest hdr com))
      | [] => if negb hdr || com then Val (SErr InvalidSeparator)
              else Val (STok THeaderMnemonicSeparator (mkLexer rest hdr com))
      end
    else if x =? 63 then
      let bad := match rest with y :: _ => negb (is_ws y) && negb (y =? 59) | [] => false end in
      if bad then Val (SErr SyntaxError)
      else if negb hdr then Val (SErr SyntaxError)
      else Val (STok THeaderQuerySuffix (mkLexer rest false com))
    else if x =? 59 then Val (STok TUnitSeparator (mkLexer (skip_ws rest) true false))
    else if x =? 10 then
      match rest with
      | [] => Val SEnd
      | _ :: _ => Val (SErr SyntaxError)
      end
    else if x =? 44 then
      if hdr then Val (SErr HeaderSeparatorError)
      else let r := skip_ws rest in
           match r with
           | y :: _ => if (y =? 44) || (y =? 59) || (y =? 10) then Val (SErr SyntaxError)
                       else Val (STok TDataSeparator (mkLexer r hdr com))
           | [] => Val (STok TDataSeparator (mkLexer r hdr com))
           end
    else if is_ws x then
      match skip_ws (chars l) with
      | 44 :: _ => Val (SErr SyntaxError)       (* a data separator cannot follow the header separator *)
      | r => Val (STok THeaderSeparator (mkLexer r false com))
      end
    else if is_alpha x then
      if hdr then of_lres hdr com (read_mnemonic false (chars l))
      else of_lres hdr com (read_character_data (chars l))
    else if is_digit x || (x =? 45) || (x =? 43) || (x =? 46) then
      if hdr then Val (SErr CommandHeaderError) else of_lres hdr com (read_numeric_data (chars l))
    else if x =? 35 then
      if hdr then Val (SErr CommandHeaderError)
      else match rest with
           | y :: rest' => if is_digit y then of_lres hdr com (read_arbitrary_data y rest')
                           else of_lres hdr com (read_nondecimal_data y rest')
           | [] => Val (SErr BlockDataError)
           end
    else if (x =? 39) || (x =? 34) then
      if hdr then Val (SErr CommandHeaderError) else of_lres hdr com (read_string_data (chars l))
    else if x =? 40 then of_lres hdr com (read_expression_data (chars l))
    else if is_ascii x then Val (SErr SyntaxError) else Val (SErr InvalidCharacter)
  end.

(* The token stream as the consumers see it: tokens up to and including the first
   error (DESIGN 3.3).  Fuel = S (length input) always suffices (Lexer_proofs.lex_progress). *)
Inductive titem := IOk (t : token) | IErr (code : Z).

Fixpoint tokenize_fuel (fuel : nat) (l : lexer) : outcome (list titem) :=
  match fuel with
  | O => Panic "out of fuel"
  | S f =>
    let* s := lex_next l in
    match s with
    | SEnd => Val []
    | SErr e => Val [IErr e]
    | STok t l' => let* r := tokenize_fuel f l' in Val (IOk t :: r)
    end
  end.
Definition tokenize_from (l : lexer) : outcome (list titem) := tokenize_fuel (S (length (chars l))) l.
Definition tokenize (input : list byte) : outcome (list titem) := tokenize_from (lexer_new input).
Definition tokenize_params (input : list byte) : outcome (list titem) := tokenize_from (lexer_params input).
