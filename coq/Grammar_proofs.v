(* Grammar_proofs.v — the lexer model (Lexer.v) is faithful to the IEEE 488.2
   message grammar (Grammar.v): every well-formed message AST is tokenized to
   exactly the token sequence the grammar assigns. *)
From VF Require Import Base Gen_Errors Fmt Lexer Grammar.
From Coq Require Import Lia ZifyBool ZifyN ZifyNat.
Open Scope N_scope.

(* ------------------------------------------------------------------ *)
(* 0. tactics                                                          *)
(* ------------------------------------------------------------------ *)

Ltac unf_classes :=
  unfold is_mnemonic_char, is_suffix_char, is_alnum, is_alpha, is_upper, is_lower,
         is_digit, is_ws, is_layout, is_sign, is_ascii, expr_char_ok, expr_illegal in *.

Ltac bsolve := solve [ unf_classes; lia ].

(* decide one boolean test in the goal *)
Ltac decide_test b :=
  first [ let H := fresh "Hb" in assert (H : b = false) by bsolve; rewrite H; clear H
        | let H := fresh "Hb" in assert (H : b = true) by bsolve; rewrite H; clear H ].

Ltac step_if :=
  match goal with
  | |- context [if ?b then _ else _] => decide_test b; cbv iota
  end.

(* ------------------------------------------------------------------ *)
(* 1. fuel-free view of tokenize                                       *)
(* ------------------------------------------------------------------ *)

Inductive lexes : lexer -> list token -> Prop :=
| lexes_end : forall l, lex_next l = Val SEnd -> lexes l []
| lexes_tok : forall l t l' ts,
    lex_next l = Val (STok t l') ->
    (length (chars l') < length (chars l))%nat ->
    lexes l' ts -> lexes l (t :: ts).

Lemma lexes_fuel : forall l ts, lexes l ts ->
  forall f, (length (chars l) < f)%nat -> tokenize_fuel f l = Val (map IOk ts).
Proof.
  induction 1 as [l H | l t l' ts H Hlen _ IH]; intros f Hf.
  - destruct f as [|f]; [lia|]. cbn [tokenize_fuel]. rewrite H. reflexivity.
  - destruct f as [|f]; [lia|]. cbn [tokenize_fuel]. rewrite H. cbn [obind].
    rewrite (IH f) by lia. reflexivity.
Qed.

Lemma lexes_tokenize_from : forall l ts, lexes l ts -> tokenize_from l = Val (map IOk ts).
Proof. intros l ts H. unfold tokenize_from. apply lexes_fuel; [exact H | lia]. Qed.

(* ------------------------------------------------------------------ *)
(* 2. list utilities                                                   *)
(* ------------------------------------------------------------------ *)

(* the continuation is empty or starts with a byte outside class p *)
Definition stop (p : byte -> bool) (R : list byte) : Prop :=
  match R with [] => True | x :: _ => p x = false end.

Lemma skip_while_app : forall p a R,
  forallb p a = true -> stop p R -> skip_while p (a ++ R) = R.
Proof.
  induction a as [|x a IH]; intros R Ha HR; cbn [app].
  - destruct R as [|y R]; [reflexivity|]. cbn [skip_while]. cbn [stop] in HR. rewrite HR. reflexivity.
  - cbn [forallb] in Ha. apply andb_prop in Ha. destruct Ha as [Hx Ha].
    cbn [skip_while]. rewrite Hx. apply IH; assumption.
Qed.

Lemma skip_while_stop : forall p R, stop p R -> skip_while p R = R.
Proof. intros p R H. apply (skip_while_app p [] R); [reflexivity | exact H]. Qed.

Lemma skip_while_length : forall p c, (length (skip_while p c) <= length c)%nat.
Proof.
  induction c as [|x c IH]; cbn [skip_while length]; [lia|].
  destruct (p x); cbn [length]; lia.
Qed.

Lemma usub_ok : forall a b, (b <= a)%nat -> usub a b = Val (a - b)%nat.
Proof.
  intros a b H. unfold usub. destruct (Nat.ltb a b) eqn:E; [apply Nat.ltb_lt in E; lia | reflexivity].
Qed.

Lemma slice_to_app : forall (a R : list byte) k, k = length a -> slice_to (a ++ R) k = Val a.
Proof.
  intros a R k ->. unfold slice_to. rewrite app_length.
  destruct (Nat.ltb (length a + length R) (length a)) eqn:E; [apply Nat.ltb_lt in E; lia|].
  rewrite firstn_app, Nat.sub_diag, firstn_all. cbn [firstn]. rewrite app_nil_r. reflexivity.
Qed.

Lemma consumed_app : forall a R, consumed (a ++ R) R 0 = Val a.
Proof.
  intros a R. unfold consumed. rewrite app_length.
  rewrite usub_ok by lia. cbn [obind]. rewrite usub_ok by lia. cbn [obind].
  apply slice_to_app. lia.
Qed.

Lemma consumed_app1 : forall a q R, consumed (a ++ q :: R) R 1 = Val a.
Proof.
  intros a q R. unfold consumed. rewrite app_length. cbn [length].
  rewrite usub_ok by lia. cbn [obind]. rewrite usub_ok by lia. cbn [obind].
  apply slice_to_app. lia.
Qed.

Lemma drop_unwrap_app : forall a R, drop_unwrap (length a) (a ++ R) = Val R.
Proof.
  intros a R. unfold drop_unwrap. rewrite app_length.
  destruct (Nat.ltb (length a + length R) (length a)) eqn:E; [apply Nat.ltb_lt in E; lia|].
  rewrite skipn_app, Nat.sub_diag, skipn_all. reflexivity.
Qed.

Lemma scan12_app : forall p m R n,
  forallb p m = true -> (n + length m <= 12)%nat -> stop p R ->
  scan12 p n (m ++ R) = Some R.
Proof.
  induction m as [|x m IH]; intros R n Hm Hn HR; cbn [app].
  - destruct R as [|y R]; [reflexivity|]. cbn [scan12]. cbn [stop] in HR. rewrite HR. reflexivity.
  - cbn [forallb] in Hm. apply andb_prop in Hm. destruct Hm as [Hx Hm].
    cbn [length] in Hn. cbn [scan12]. rewrite Hx.
    destruct (Nat.ltb 12 (S n)) eqn:E; [apply Nat.ltb_lt in E; lia|].
    apply IH; [assumption | lia | assumption].
Qed.

(* ------------------------------------------------------------------ *)
(* 3. follow sets, white space                                         *)
(* ------------------------------------------------------------------ *)

(* what may follow a data element and its trailing white space *)
Definition sep_follow (rest : list byte) : Prop :=
  match rest with [] => True | x :: r => x = 44 \/ x = 59 \/ (x = 10 /\ r = []) end.

Definition sepws_byte (x : byte) : Prop := is_layout x = true \/ x = 44 \/ x = 59 \/ x = 10.
Definition sepws_head (R : list byte) : Prop :=
  match R with [] => True | x :: _ => sepws_byte x end.

Lemma sepws_head_app : forall w rest, wf_ws w = true -> sep_follow rest -> sepws_head (w ++ rest).
Proof.
  intros [|x w] rest Hw Hr; cbn [app].
  - destruct rest as [|y r]; cbn in *; [exact I|]. unfold sepws_byte. intuition.
  - cbn in Hw. apply andb_prop in Hw. cbn. left. tauto.
Qed.

Lemma sepws_stop : forall p R,
  (forall x, sepws_byte x -> p x = false) -> sepws_head R -> stop p R.
Proof. intros p [|x R] Hp H; cbn in *; auto. Qed.

Lemma skip_while_app_all : forall p a R, forallb p a = true -> skip_while p (a ++ R) = skip_while p R.
Proof.
  induction a as [|x a IH]; intros R Ha; cbn [app]; [reflexivity|].
  cbn [forallb] in Ha. apply andb_prop in Ha. destruct Ha as [Hx Ha].
  cbn [skip_while]. rewrite Hx. apply IH. exact Ha.
Qed.

Lemma layout_is_ws : forall x, is_layout x = true -> is_ws x = true.
Proof. intros x H. bsolve. Qed.

Lemma wf_ws_forall_ws : forall w, wf_ws w = true -> forallb is_ws w = true.
Proof.
  unfold wf_ws. induction w as [|x w IH]; cbn [forallb]; intros H; [reflexivity|].
  apply andb_prop in H. destruct H as [Hx Hw]. rewrite (layout_is_ws x Hx), (IH Hw). reflexivity.
Qed.

Lemma skip_ws_layout : forall w R, wf_ws w = true -> skip_ws (w ++ R) = skip_ws R.
Proof. intros. unfold skip_ws. apply skip_while_app_all. apply wf_ws_forall_ws. assumption. Qed.

Lemma skip_ws_sep : forall rest, sep_follow rest ->
  skip_ws rest = [] \/ exists x r, skip_ws rest = x :: r /\ (x = 44 \/ x = 59).
Proof.
  intros [|x r] H; cbn in *; [left; reflexivity|].
  destruct H as [-> | [-> | [-> ->]]].
  - right. exists 44, r. split; [reflexivity | auto].
  - right. exists 59, r. split; [reflexivity | auto].
  - left. reflexivity.
Qed.

Lemma skip_ws_length : forall c, (length (skip_ws c) <= length c)%nat.
Proof. intros. apply skip_while_length. Qed.

Lemma sws2sep : forall e w rest, wf_ws w = true -> sep_follow rest ->
  skip_ws_to_separator e (w ++ rest) = Ok (skip_ws rest).
Proof.
  intros e w rest Hw Hr. unfold skip_ws_to_separator. rewrite skip_ws_layout by assumption.
  destruct (skip_ws_sep rest Hr) as [-> | (x & r & -> & Hx)]; [reflexivity|].
  destruct Hx as [-> | ->]; reflexivity.
Qed.

Lemma sws2sep0 : forall e rest, sep_follow rest ->
  skip_ws_to_separator e rest = Ok (skip_ws rest).
Proof. intros e rest H. apply (sws2sep e [] rest); [reflexivity | exact H]. Qed.

(* ------------------------------------------------------------------ *)
(* 4. data elements                                                    *)
(* ------------------------------------------------------------------ *)

Lemma sepws_not_mnemonic : forall x, sepws_byte x -> is_mnemonic_char x = false.
Proof. unfold sepws_byte. intros x H. bsolve. Qed.
Lemma sepws_not_suffix : forall x, sepws_byte x -> is_suffix_char x = false.
Proof. unfold sepws_byte. intros x H. bsolve. Qed.
Lemma sepws_not_digit : forall x, sepws_byte x -> is_digit x = false.
Proof. unfold sepws_byte. intros x H. bsolve. Qed.

Lemma wf_mnemonic_inv : forall m, wf_mnemonic m = true ->
  exists x m', m = x :: m' /\ is_alpha x = true /\ forallb is_mnemonic_char (x :: m') = true
               /\ (length (x :: m') <= 12)%nat.
Proof.
  intros [|x m'] H; cbn in H; [discriminate|].
  apply andb_prop in H. destruct H as [H H3]. apply andb_prop in H. destruct H as [H1 H2].
  exists x, m'. repeat split; auto.
  - cbn [forallb]. rewrite H2. replace (is_mnemonic_char x) with true by bsolve. reflexivity.
  - apply Nat.leb_le in H3. cbn [length]. lia.
Qed.

Lemma lex_char : forall m w rest com,
  wf_mnemonic m = true -> wf_ws w = true -> sep_follow rest ->
  lex_next (mkLexer (m ++ w ++ rest) false com)
  = Val (STok (TChar m) (mkLexer (skip_ws rest) false com)).
Proof.
  intros m w rest com Hm Hw Hr.
  destruct (wf_mnemonic_inv m Hm) as (x & m' & -> & Hx & Hall & Hlen).
  unfold lex_next. cbn [chars in_header in_common app].
  repeat step_if.
  unfold read_character_data.
  change (x :: m' ++ w ++ rest) with ((x :: m') ++ (w ++ rest)).
  rewrite scan12_app; [| exact Hall | cbn [length] in *; lia
                       | apply sepws_stop; [exact sepws_not_mnemonic | apply sepws_head_app; assumption]].
  rewrite consumed_app. cbn [obind]. rewrite sws2sep by assumption. reflexivity.
Qed.

(* strings *)
Lemma string_loop_ok : forall q body R,
  forallb is_ascii body = true -> stop (fun x => x =? q) R ->
  string_loop q (double_q q body ++ q :: R) = Ok R.
Proof.
  intros q body R. induction body as [|c body IH]; intros Hb HR.
  - cbn [double_q app string_loop]. rewrite N.eqb_refl.
    destruct R as [|c2 R']; [reflexivity|]. cbn [stop] in HR. rewrite HR. reflexivity.
  - cbn [forallb] in Hb. apply andb_prop in Hb. destruct Hb as [Hc Hb].
    cbn [double_q]. destruct (c =? q) eqn:E.
    + cbn [app string_loop]. rewrite N.eqb_refl. apply IH; assumption.
    + cbn [app string_loop]. rewrite E, Hc. cbn [negb]. apply IH; assumption.
Qed.

Lemma lex_string : forall q body w rest com,
  ((q =? 34) || (q =? 39)) = true -> forallb is_ascii body = true ->
  wf_ws w = true -> sep_follow rest ->
  lex_next (mkLexer ((q :: double_q q body ++ [q]) ++ w ++ rest) false com)
  = Val (STok (TString (double_q q body)) (mkLexer (skip_ws rest) false com)).
Proof.
  intros q body w rest com Hq Hb Hw Hr.
  unfold lex_next. cbn [chars in_header in_common app].
  repeat step_if.
  unfold read_string_data.
  rewrite <- app_assoc. cbn [app].
  rewrite string_loop_ok;
    [| exact Hb | apply sepws_stop; [| apply sepws_head_app; assumption]].
  - rewrite consumed_app1. cbn [obind]. rewrite sws2sep by assumption. reflexivity.
  - unfold sepws_byte. intros x Hx. bsolve.
Qed.

(* expressions *)
Lemma expr_loop_ok : forall body R,
  forallb expr_char_ok body = true -> expr_loop (body ++ 41 :: R) = Ok (41 :: R).
Proof.
  induction body as [|x body IH]; intros R Hb.
  - reflexivity.
  - cbn [forallb] in Hb. apply andb_prop in Hb. destruct Hb as [Hx Hb].
    cbn [app expr_loop].
    replace (x =? 41) with false by bsolve.
    replace (expr_illegal x) with false by (unfold expr_char_ok in Hx; destruct (expr_illegal x); [discriminate | reflexivity]).
    apply IH. exact Hb.
Qed.

Lemma lex_expr : forall body w rest com,
  forallb expr_char_ok body = true -> wf_ws w = true -> sep_follow rest ->
  lex_next (mkLexer ((40 :: body ++ [41]) ++ w ++ rest) false com)
  = Val (STok (TExpr body) (mkLexer (skip_ws rest) false com)).
Proof.
  intros body w rest com Hb Hw Hr.
  unfold lex_next. cbn [chars in_header in_common app].
  repeat step_if.
  unfold read_expression_data.
  rewrite <- app_assoc. cbn [app].
  rewrite expr_loop_ok by exact Hb.
  rewrite consumed_app. cbn [obind]. rewrite sws2sep by assumption. reflexivity.
Qed.

(* non-decimal numbers *)
Lemma a2d_radix : forall r d, is_radix_digit r d = true -> ascii_to_digit d r = Some (digit_value d).
Proof.
  intros r d H. unfold is_radix_digit, ascii_to_digit, digit_value, to_lower in *.
  unfold is_alpha, is_lower in *.
  destruct (is_digit d) eqn:Ed; destruct (is_upper d) eqn:Eu; unfold is_digit, is_upper in *;
  repeat match goal with
         | |- context [if ?b then _ else _] => destruct b eqn:?
         end; try (f_equal; lia); try lia.
Qed.

Lemma a2d_sepws : forall r x, sepws_byte x -> ascii_to_digit x r = None.
Proof.
  intros r x H. unfold ascii_to_digit, to_lower.
  replace (is_digit x) with false by (unfold sepws_byte in H; bsolve).
  replace (is_upper x) with false by (unfold sepws_byte in H; bsolve).
  replace (is_alpha x) with false by (unfold sepws_byte in H; bsolve).
  cbn [andb]. rewrite andb_false_r. reflexivity.
Qed.

Definition dig_stop (r : N) (R : list byte) : Prop :=
  match R with [] => True | x :: _ => ascii_to_digit x r = None end.

Lemma radix_digits_app : forall r ds R acc n,
  forallb (is_radix_digit r) ds = true -> dig_stop r R ->
  radix_digits r (ds ++ R) acc n
  = (fold_left (fun a d => a * r + digit_value d) ds acc, (n + length ds)%nat).
Proof.
  induction ds as [|d ds IH]; intros R acc n Hd HR; cbn [app].
  - cbn [fold_left length]. rewrite Nat.add_0_r.
    destruct R as [|x R]; [reflexivity|]. cbn [radix_digits]. cbn [dig_stop] in HR. rewrite HR. reflexivity.
  - cbn [forallb] in Hd. apply andb_prop in Hd. destruct Hd as [Hx Hd].
    cbn [radix_digits]. rewrite (a2d_radix r d Hx).
    rewrite IH by assumption. cbn [fold_left length]. f_equal. lia.
Qed.

Lemma ppu_unfold : forall r d c, (d =? 45) = false -> (d =? 43) = false ->
  parse_partial_u64 r (d :: c)
  = (let '(v, n) := radix_digits r (d :: c) 0 0 in
     if u64_max <? v then inl LexOverflow else inr (v, n)).
Proof.
  intros r d c H45 H43. unfold parse_partial_u64.
  destruct d as [|p]; [reflexivity|].
  do 6 (try (destruct p as [p|p|]; try reflexivity)); try (vm_compute in H45; discriminate);
    try (vm_compute in H43; discriminate).
Qed.

Lemma read_nondecimal_unfold : forall l c,
  read_nondecimal_data l c =
  match radix_of_letter l with
  | None => Val (Err NumericDataError)
  | Some b =>
    match parse_partial_u64 b c with
    | inl LexInvalidDigit => Val (Err InvalidCharacterInNumber)
    | inl LexOverflow => Val (Err DataOutOfRange)
    | inl LexOther => Val (Err NumericDataError)
    | inr (v, len) =>
      if Nat.ltb 0 len then
        let* rest := drop_unwrap len c in
        match skip_ws_to_separator SuffixNotAllowed rest with
        | Err e => Val (Err e)
        | Ok rest' => Val (Ok (TNonDec v, rest'))
        end
      else Val (Err NumericDataError)
    end
  end.
Proof. reflexivity. Qed.

Lemma radix_letter_not_digit : forall l r, radix_of_letter l = Some r -> is_digit l = false.
Proof.
  intros l r H. unfold radix_of_letter in H.
  destruct ((l =? 72) || (l =? 104)) eqn:E1; [bsolve|].
  destruct ((l =? 81) || (l =? 113)) eqn:E2; [bsolve|].
  destruct ((l =? 66) || (l =? 98)) eqn:E3; [bsolve|discriminate].
Qed.

Lemma lex_nondec : forall l r ds w rest com,
  radix_of_letter l = Some r -> ds <> [] ->
  forallb (is_radix_digit r) ds = true -> (value_of_digits r ds <=? u64_max) = true ->
  wf_ws w = true -> sep_follow rest ->
  lex_next (mkLexer ((35 :: l :: ds) ++ w ++ rest) false com)
  = Val (STok (TNonDec (value_of_digits r ds)) (mkLexer (skip_ws rest) false com)).
Proof.
  intros l r ds w rest com Hl Hne Hds Hv Hw Hr.
  pose proof (radix_letter_not_digit l r Hl) as Hld.
  unfold lex_next. cbn [chars in_header in_common app].
  repeat step_if.
  rewrite read_nondecimal_unfold, Hl.
  destruct ds as [|d ds']; [congruence|].
  assert (Hd : is_radix_digit r d = true) by (cbn [forallb] in Hds; apply andb_prop in Hds; tauto).
  cbn [app]. rewrite ppu_unfold by (unfold is_radix_digit in Hd; bsolve).
  change (d :: ds' ++ w ++ rest) with ((d :: ds') ++ (w ++ rest)).
  rewrite radix_digits_app;
    [| exact Hds
     | pose proof (sepws_head_app w rest Hw Hr) as Hh;
       destruct (w ++ rest) as [|y t]; [exact I | cbn in Hh |- *; apply a2d_sepws; exact Hh]].
  fold (value_of_digits r (d :: ds')).
  replace (u64_max <? value_of_digits r (d :: ds')) with false by lia.
  cbn [length Nat.add Nat.ltb Nat.leb].
  change (S (length ds')) with (length (d :: ds')).
  rewrite drop_unwrap_app. cbn [obind]. rewrite sws2sep by assumption. reflexivity.
Qed.

(* block data: decimal printing followed by the digit loop is the identity *)
Lemma a2d_dec : forall d, is_digit d = true -> ascii_to_digit d 10 = Some (d - 48).
Proof.
  intros d H. unfold ascii_to_digit. rewrite H.
  replace (d - 48 <? 10) with true by bsolve. reflexivity.
Qed.

Lemma digits_aux_digits : forall f n acc,
  forallb is_digit acc = true -> forallb is_digit (digits_aux f n acc) = true.
Proof.
  induction f as [|f IH]; intros n acc Hacc; cbn [digits_aux]; [exact Hacc|].
  assert (Hd : forallb is_digit ((48 + n mod 10) :: acc) = true).
  { cbn [forallb]. rewrite Hacc. pose proof (N.mod_lt n 10 ltac:(lia)).
    replace (is_digit (48 + n mod 10)) with true by bsolve. reflexivity. }
  destruct (n / 10 =? 0); [exact Hd | apply IH; exact Hd].
Qed.

Lemma digits_aux_read : forall f n acc,
  n / 10 < 2 ^ N.of_nat f ->
  forall k, exists k', radix_digits 10 (digits_aux (S f) n acc) 0 k = radix_digits 10 acc n k'.
Proof.
  induction f as [|f IH]; intros n acc Hn k.
  - change (2 ^ N.of_nat 0) with 1 in Hn.
    assert (Hz : n / 10 = 0) by lia.
    cbn [digits_aux]. rewrite Hz. change (0 =? 0) with true. cbv iota.
    pose proof (N.mod_lt n 10 ltac:(lia)) as Hm.
    pose proof (N.div_mod n 10 ltac:(lia)) as Hdm.
    cbn [radix_digits]. rewrite a2d_dec by bsolve.
    exists (S k). f_equal. lia.
  - pose proof (N.mod_lt n 10 ltac:(lia)) as Hm.
    pose proof (N.div_mod n 10 ltac:(lia)) as Hdm.
    remember (S f) as f1 eqn:Ef1.
    cbn [digits_aux]. destruct (n / 10 =? 0) eqn:Ez.
    + cbn [radix_digits]. rewrite a2d_dec by bsolve.
      exists (S k). f_equal. lia.
    + subst f1.
      assert (Hn' : n / 10 / 10 < 2 ^ N.of_nat f).
      { rewrite Nat2N.inj_succ, N.pow_succ_r' in Hn.
        apply N.div_lt_upper_bound; [lia|]. lia. }
      destruct (IH (n / 10) ((48 + n mod 10) :: acc) Hn' k) as [k' Hk'].
      rewrite Hk'. cbn [radix_digits]. rewrite a2d_dec by bsolve.
      exists (S k'). f_equal. lia.
Qed.

Lemma fmt_N_read : forall n k0, exists k, radix_digits 10 (fmt_N n) 0 k0 = (n, k).
Proof.
  intros n k0. unfold fmt_N.
  destruct (digits_aux_read (N.to_nat (N.size n)) n [] ) with (k := k0) as [k' Hk'].
  - rewrite N2Nat.id. pose proof (N.size_gt n).
    apply N.le_lt_trans with n; [|assumption].
    apply N.div_le_upper_bound; lia.
  - exists k'. rewrite Hk'. reflexivity.
Qed.

Lemma fmt_N_digits : forall n, forallb is_digit (fmt_N n) = true.
Proof. intros. unfold fmt_N. apply digits_aux_digits. reflexivity. Qed.

Lemma zeros_read : forall pad X k,
  radix_digits 10 (zeros pad ++ X) 0 k = radix_digits 10 X 0 (pad + k)%nat.
Proof.
  induction pad as [|pad IH]; intros X k; [reflexivity|].
  unfold zeros in *. cbn [repeat app radix_digits].
  rewrite a2d_dec by reflexivity. change (0 * 10 + (48 - 48)) with 0.
  rewrite IH. f_equal. lia.
Qed.

Lemma zeros_digits : forall pad, forallb is_digit (zeros pad) = true.
Proof. induction pad as [|pad IH]; [reflexivity|]. unfold zeros in *. cbn [repeat forallb]. rewrite IH. reflexivity. Qed.

Lemma radix_digits_bound : forall ds a k,
  forallb is_digit ds = true ->
  fst (radix_digits 10 ds a k) < (a + 1) * 10 ^ N.of_nat (length ds).
Proof.
  induction ds as [|d ds IH]; intros a k Hd.
  - cbn [radix_digits fst length]. change (10 ^ N.of_nat 0) with 1. lia.
  - cbn [forallb] in Hd. apply andb_prop in Hd. destruct Hd as [Hx Hd].
    cbn [radix_digits]. rewrite a2d_dec by exact Hx.
    eapply N.lt_le_trans; [apply IH; exact Hd|].
    cbn [length]. rewrite Nat2N.inj_succ, N.pow_succ_r'.
    rewrite N.mul_assoc. apply N.mul_le_mono_r. bsolve.
Qed.

Lemma firstn_len_app : forall (a R : list byte), firstn (length a) (a ++ R) = a.
Proof. intros. rewrite firstn_app, Nat.sub_diag, firstn_all. cbn [firstn]. apply app_nil_r. Qed.
Lemma skipn_len_app : forall (a R : list byte), skipn (length a) (a ++ R) = R.
Proof. intros. rewrite skipn_app, Nat.sub_diag, skipn_all. reflexivity. Qed.

Lemma parse_usize_ok : forall pad n,
  (1 <= length (zeros pad ++ fmt_N n) <= 9)%nat ->
  parse_usize (zeros pad ++ fmt_N n) = Some n.
Proof.
  intros pad n Hlen. unfold parse_usize.
  assert (Hdig : all_digits (zeros pad ++ fmt_N n) = true).
  { unfold all_digits. rewrite forallb_app, zeros_digits, fmt_N_digits. reflexivity. }
  pose proof (radix_digits_bound (zeros pad ++ fmt_N n) 0 0 Hdig) as Hb.
  destruct (zeros pad ++ fmt_N n) as [|d f'] eqn:Ef; [cbn [length] in Hlen; lia|].
  rewrite Hdig. rewrite <- Ef in *. clear Ef.
  rewrite zeros_read in *. destruct (fmt_N_read n (pad + 0)%nat) as [k Hk]. rewrite Hk in *.
  cbn [fst] in Hb.
  assert (H9 : 10 ^ N.of_nat (length (zeros pad ++ fmt_N n)) <= 10 ^ 9).
  { apply N.pow_le_mono_r; lia. }
  change (10 ^ 9) with 1000000000 in H9.
  replace (u64_max <? n) with false by (unfold u64_max; lia). reflexivity.
Qed.

Lemma lex_block : forall pad payload w rest com,
  (1 <= length (block_len_field pad payload) <= 9)%nat ->
  wf_ws w = true -> sep_follow rest ->
  lex_next (mkLexer ((35 :: (48 + N.of_nat (length (block_len_field pad payload)))
                         :: block_len_field pad payload ++ payload) ++ w ++ rest) false com)
  = Val (STok (TBlock payload) (mkLexer (skip_ws rest) false com)).
Proof.
  intros pad payload w rest com Hlen Hw Hr.
  pose proof (parse_usize_ok pad (N.of_nat (length payload)) Hlen) as Hpu.
  fold (block_len_field pad payload) in Hpu.
  remember (block_len_field pad payload) as f eqn:Ef.
  assert (HL : 1 <= N.of_nat (length f) <= 9) by lia.
  unfold lex_next. cbn [chars in_header in_common app].
  repeat step_if.
  unfold read_arbitrary_data.
  rewrite a2d_dec by bsolve.
  replace (48 + N.of_nat (length f) - 48) with (N.of_nat (length f)) by lia.
  destruct (N.of_nat (length f)) as [|p] eqn:EL; [lia|].
  assert (Hp : N.to_nat (N.pos p) = length f) by lia. rewrite Hp.
  rewrite <- app_assoc.
  replace (Nat.ltb (length (f ++ payload ++ w ++ rest)) (length f)) with false
    by (rewrite app_length; symmetry; apply Nat.ltb_ge; lia).
  rewrite firstn_len_app, Hpu, drop_unwrap_app. cbn [obind].
  replace (N.of_nat (length (payload ++ w ++ rest)) <? N.of_nat (length payload)) with false
    by (rewrite app_length; lia).
  rewrite Nat2N.id, firstn_len_app, skipn_len_app.
  rewrite sws2sep by assumption. reflexivity.
Qed.

(* decimal numbers *)
Definition starts46 (c : list byte) : bool := match c with x :: _ => x =? 46 | [] => false end.

Lemma read_nrf_unfold : forall c,
  read_nrf_rest c =
  let '(leading, c2) := skip_digits (skip_sign c) in
  if starts46 c2 then
    let '(frac, c4) := skip_digits (tl c2) in
    if negb frac && negb leading then Err NumericDataError else read_exponent c4
  else if negb leading then Err NumericDataError else read_exponent c2.
Proof.
  intros c. unfold read_nrf_rest. destruct (skip_digits (skip_sign c)) as [leading c2].
  destruct c2 as [|x c2]; [reflexivity|].
  destruct x as [|p]; [reflexivity|].
  do 6 (try (destruct p as [p|p|]; try reflexivity)).
Qed.

Lemma skip_digits_app : forall ds R,
  forallb is_digit ds = true -> stop is_digit R ->
  skip_digits (ds ++ R) = (negb (Nat.eqb (length ds) 0), R).
Proof.
  intros ds R Hd HR. unfold skip_digits. rewrite skip_while_app by assumption. f_equal.
  destruct ds as [|d ds]; cbn [app length Nat.eqb negb].
  - destruct R as [|x R]; [reflexivity | exact HR].
  - cbn [forallb] in Hd. apply andb_prop in Hd. tauto.
Qed.

Definition nosign (T : list byte) : Prop := match T with [] => True | x :: _ => is_sign x = false end.

Lemma skip_sign_opt : forall s T, wf_sign s = true -> (s = None -> nosign T) ->
  skip_sign (opt_byte s ++ T) = T.
Proof.
  intros [b|] T Hs HT; cbn [opt_byte app].
  - cbn [wf_sign] in Hs. cbn [skip_sign]. rewrite Hs. reflexivity.
  - specialize (HT eq_refl). destruct T as [|x T]; [reflexivity|]. cbn [skip_sign]. cbn [nosign] in HT.
    rewrite HT. reflexivity.
Qed.

Definition render_exp (ex : option (byte * option byte * list byte)) : list byte :=
  match ex with Some (e, s, ds) => e :: opt_byte s ++ ds | None => [] end.
Definition wf_exp (ex : option (byte * option byte * list byte)) : bool :=
  match ex with
  | Some (e, s, ds) => ((e =? 69) || (e =? 101)) && wf_sign s && forallb is_digit ds && negb (Nat.eqb (length ds) 0)
  | None => true
  end.
Definition exp_stop (ex : option (byte * option byte * list byte)) (R : list byte) : Prop :=
  match R with
  | [] => True
  | x :: _ => is_digit x = false /\ (ex = None -> (x =? 69) || (x =? 101) = false)
  end.

Lemma read_exponent_ok : forall ex R, wf_exp ex = true -> exp_stop ex R ->
  read_exponent (render_exp ex ++ R) = Ok R.
Proof.
  intros [[[e s] ds]|] R Hwf HR; cbn [render_exp app].
  - cbn [wf_exp] in Hwf.
    apply andb_prop in Hwf. destruct Hwf as [Hwf Hne].
    apply andb_prop in Hwf. destruct Hwf as [Hwf Hds].
    apply andb_prop in Hwf. destruct Hwf as [He Hs].
    cbn [read_exponent]. rewrite He. rewrite <- app_assoc.
    rewrite skip_sign_opt; [| exact Hs |].
    + rewrite skip_digits_app; [rewrite Hne; reflexivity | exact Hds |].
      destruct R as [|x R]; [exact I | cbn in HR |- *; tauto].
    + intros _. destruct ds as [|d ds]; [discriminate Hne|]. cbn [app nosign].
      cbn [forallb] in Hds. apply andb_prop in Hds. destruct Hds as [Hd _]. bsolve.
  - destruct R as [|x R]; [reflexivity|]. cbn [exp_stop] in HR. destruct HR as [_ HR].
    cbn [read_exponent]. rewrite (HR eq_refl). reflexivity.
Qed.

Definition num_stop (ex : option (byte * option byte * list byte)) (R : list byte) : Prop :=
  match R with
  | [] => True
  | x :: _ => is_digit x = false /\ (x =? 46) = false /\ (ex = None -> (x =? 69) || (x =? 101) = false)
  end.

Lemma num_stop_exp_stop : forall ex R, num_stop ex R -> exp_stop ex R.
Proof. intros ex [|x R] H; cbn in *; tauto. Qed.

Lemma exp_R_head : forall ex R, wf_exp ex = true -> num_stop ex R ->
  stop is_digit (render_exp ex ++ R) /\ starts46 (render_exp ex ++ R) = false.
Proof.
  intros [[[e s] ds]|] R Hwf HR; cbn [render_exp app].
  - cbn [wf_exp] in Hwf.
    apply andb_prop in Hwf. destruct Hwf as [Hwf _].
    apply andb_prop in Hwf. destruct Hwf as [Hwf _].
    apply andb_prop in Hwf. destruct Hwf as [He _].
    cbn [stop starts46]. split; bsolve.
  - destruct R as [|x R]; cbn in *; [auto | tauto].
Qed.

Lemma render_number_eq : forall sg int fr ex,
  render_number (mkNumber sg int fr ex)
  = opt_byte sg ++ int ++ match fr with Some ds => 46 :: ds | None => [] end ++ render_exp ex.
Proof. reflexivity. Qed.

Lemma wf_number_eq : forall sg int fr ex,
  wf_number (mkNumber sg int fr ex)
  = wf_sign sg && forallb is_digit int
    && match fr with Some ds => forallb is_digit ds | None => true end
    && (negb (Nat.eqb (length int) 0)
        || match fr with Some ds => negb (Nat.eqb (length ds) 0) | None => false end)
    && wf_exp ex.
Proof. reflexivity. Qed.

Lemma read_nrf_ok : forall n R, wf_number n = true -> num_stop (n_exp n) R ->
  read_nrf_rest (render_number n ++ R) = Ok R.
Proof.
  intros [sg int fr ex] R Hwf HR. cbn [n_exp] in HR.
  rewrite wf_number_eq in Hwf. rewrite render_number_eq.
  apply andb_prop in Hwf. destruct Hwf as [Hwf Hex].
  apply andb_prop in Hwf. destruct Hwf as [Hwf Hmant].
  apply andb_prop in Hwf. destruct Hwf as [Hwf Hfr].
  apply andb_prop in Hwf. destruct Hwf as [Hsg Hint].
  destruct (exp_R_head ex R Hex HR) as [Hstop H46].
  pose proof (num_stop_exp_stop ex R HR) as Hes.
  rewrite read_nrf_unfold. repeat rewrite <- app_assoc.
  destruct fr as [fd|].
  - rewrite skip_sign_opt; [| exact Hsg |].
    2:{ intros _. destruct int as [|d int']; cbn [app nosign]; [reflexivity|].
        cbn [forallb] in Hint. apply andb_prop in Hint. destruct Hint as [Hd _]. bsolve. }
    rewrite skip_digits_app; [| exact Hint | cbn [app stop]; reflexivity].
    cbn [app starts46 tl]. change (46 =? 46) with true. cbv iota.
    rewrite skip_digits_app; [| exact Hfr | exact Hstop].
    destruct (Nat.eqb (length int) 0); destruct (Nat.eqb (length fd) 0); cbn [negb andb orb] in *;
      try discriminate Hmant; apply read_exponent_ok; assumption.
  - cbn [app]. rewrite orb_false_r in Hmant.
    rewrite skip_sign_opt; [| exact Hsg |].
    2:{ intros _. destruct int as [|d int']; [discriminate Hmant|]. cbn [app nosign].
        cbn [forallb] in Hint. apply andb_prop in Hint. destruct Hint as [Hd _]. bsolve. }
    rewrite skip_digits_app; [| exact Hint | exact Hstop].
    rewrite H46, Hmant. cbn [negb]. apply read_exponent_ok; assumption.
Qed.

Definition num_start (x : byte) : bool := is_digit x || (x =? 45) || (x =? 43) || (x =? 46).

Lemma render_number_head : forall n, wf_number n = true ->
  exists x t, render_number n = x :: t /\ num_start x = true.
Proof.
  intros [sg int fr ex] Hwf. rewrite wf_number_eq in Hwf. rewrite render_number_eq.
  apply andb_prop in Hwf. destruct Hwf as [Hwf Hex].
  apply andb_prop in Hwf. destruct Hwf as [Hwf Hmant].
  apply andb_prop in Hwf. destruct Hwf as [Hwf Hfr].
  apply andb_prop in Hwf. destruct Hwf as [Hsg Hint].
  destruct sg as [b|]; cbn [opt_byte app].
  - eexists _, _. split; [reflexivity|]. cbn [wf_sign] in Hsg. unfold num_start. bsolve.
  - destruct int as [|d int']; cbn [app].
    + destruct fr as [fd|]; [|discriminate Hmant]. cbn [app].
      eexists _, _. split; reflexivity.
    + cbn [forallb] in Hint. apply andb_prop in Hint. destruct Hint as [Hd _].
      eexists _, _. split; [reflexivity|]. unfold num_start. rewrite Hd. reflexivity.
Qed.

Lemma lex_next_num : forall x t com, num_start x = true ->
  lex_next (mkLexer (x :: t) false com) = of_lres false com (read_numeric_data (x :: t)).
Proof.
  intros x t com Hx. unfold num_start in Hx.
  unfold lex_next. cbn [chars in_header in_common].
  repeat step_if. reflexivity.
Qed.

Lemma sepws_num_stop : forall ex R, sepws_head R -> num_stop ex R.
Proof.
  intros ex [|x R] H; cbn in *; [exact I|]. unfold sepws_byte in H.
  repeat split; try intros _; bsolve.
Qed.

Lemma lex_dec : forall n w rest com,
  wf_number n = true -> wf_ws w = true -> sep_follow rest ->
  lex_next (mkLexer (render_number n ++ w ++ rest) false com)
  = Val (STok (TDec (render_number n)) (mkLexer (skip_ws rest) false com)).
Proof.
  intros n w rest com Hn Hw Hr.
  destruct (render_number_head n Hn) as (x & t & Heq & Hx).
  assert (Hc : render_number n ++ w ++ rest = x :: (t ++ w ++ rest)) by (rewrite Heq; reflexivity).
  rewrite Hc, (lex_next_num _ _ _ Hx), <- Hc. clear Hc Heq Hx x t.
  unfold read_numeric_data.
  rewrite read_nrf_ok; [| exact Hn | apply sepws_num_stop, sepws_head_app; assumption].
  rewrite consumed_app. cbn [obind]. rewrite skip_ws_layout by exact Hw.
  destruct (skip_ws_sep rest Hr) as [-> | (y & r & -> & Hy)]; [reflexivity|].
  destruct Hy as [-> | ->]; reflexivity.
Qed.

Lemma wf_suffix_inv : forall suf, wf_suffix suf = true ->
  exists x s', suf = x :: s' /\ (is_alpha x || (x =? 47)) = true
               /\ forallb is_suffix_char (x :: s') = true /\ (length (x :: s') <= 12)%nat.
Proof.
  intros [|x s'] H; cbn in H; [discriminate|].
  apply andb_prop in H. destruct H as [H H3]. apply andb_prop in H. destruct H as [H1 H2].
  exists x, s'. repeat split; auto.
  - cbn [forallb]. rewrite H2. replace (is_suffix_char x) with true by bsolve. reflexivity.
  - apply Nat.leb_le in H3. cbn [length]. lia.
Qed.

Lemma lex_decsuffix : forall n w0 suf w rest com,
  wf_datum (DDecSuffix n w0 suf) = true -> wf_ws w = true -> sep_follow rest ->
  lex_next (mkLexer ((render_number n ++ w0 ++ suf) ++ w ++ rest) false com)
  = Val (STok (TDecSuffix (render_number n) suf) (mkLexer (skip_ws rest) false com)).
Proof.
  intros n w0 suf w rest com Hd Hw Hr. cbn [wf_datum] in Hd.
  apply andb_prop in Hd. destruct Hd as [Hd Hglue].
  apply andb_prop in Hd. destruct Hd as [Hd Hsuf].
  apply andb_prop in Hd. destruct Hd as [Hn Hw0].
  destruct (wf_suffix_inv suf Hsuf) as (sx & s' & -> & Hsx & Hsall & Hslen).
  destruct (render_number_head n Hn) as (x & t & Heq & Hx).
  repeat rewrite <- app_assoc.
  assert (Hc : render_number n ++ w0 ++ (sx :: s') ++ w ++ rest
               = x :: (t ++ w0 ++ (sx :: s') ++ w ++ rest)) by (rewrite Heq; reflexivity).
  rewrite Hc, (lex_next_num _ _ _ Hx), <- Hc. clear Hc Heq Hx x t.
  unfold read_numeric_data.
  rewrite read_nrf_ok; [| exact Hn |].
  2:{ destruct w0 as [|y w0']; cbn [app num_stop].
      - destruct (n_exp n) eqn:Eex.
        + split; [bsolve | split; [bsolve | intros; discriminate]].
        + split; [bsolve | split; [bsolve | ]]. intros _. destruct (sx =? 69) eqn:E1; destruct (sx =? 101) eqn:E2;
            cbn in Hglue |- *; congruence.
      - cbn in Hw0. apply andb_prop in Hw0. destruct Hw0 as [Hy _].
        repeat split; try intros _; bsolve. }
  rewrite consumed_app. cbn [obind]. rewrite skip_ws_layout by exact Hw0.
  unfold skip_ws. rewrite skip_while_stop by (cbn [app stop]; bsolve).
  cbn [app]. rewrite Hsx.
  unfold read_suffix_data.
  change (sx :: s' ++ w ++ rest) with ((sx :: s') ++ (w ++ rest)).
  rewrite scan12_app; [| exact Hsall | cbn [length] in *; lia
                       | apply sepws_stop; [exact sepws_not_suffix | apply sepws_head_app; assumption]].
  rewrite consumed_app. cbn [obind]. rewrite sws2sep by assumption. reflexivity.
Qed.

(* all seven kinds *)
Lemma lex_datum : forall d w rest com,
  wf_datum d = true -> wf_ws w = true -> sep_follow rest ->
  lex_next (mkLexer (render_datum d ++ w ++ rest) false com)
  = Val (STok (token_of_datum d) (mkLexer (skip_ws rest) false com)).
Proof.
  intros d w rest com Hd Hw Hr. destruct d as [m | n | n w0 suf | l ds | q body | pad payload | body];
    cbn [render_datum token_of_datum].
  - apply lex_char; assumption.
  - apply lex_dec; assumption.
  - apply lex_decsuffix; assumption.
  - cbn [wf_datum] in Hd. destruct (radix_of_letter l) as [r|] eqn:El; [|discriminate].
    apply andb_prop in Hd. destruct Hd as [Hd Hv]. apply andb_prop in Hd. destruct Hd as [Hne Hds].
    apply lex_nondec; try assumption. intros ->. discriminate Hne.
  - cbn [wf_datum] in Hd. apply andb_prop in Hd. destruct Hd as [Hq Hb].
    apply lex_string; assumption.
  - cbn [wf_datum] in Hd. cbv zeta in Hd. apply andb_prop in Hd. destruct Hd as [H1 H9].
    apply Nat.leb_le in H1. apply Nat.leb_le in H9.
    cbv zeta. apply lex_block; [lia | assumption | assumption].
  - cbn [wf_datum] in Hd. apply lex_expr; assumption.
Qed.

Definition datum_start (x : byte) : bool :=
  is_alpha x || num_start x || (x =? 35) || (x =? 39) || (x =? 34) || (x =? 40).

Lemma datum_head : forall d, wf_datum d = true ->
  exists x t, render_datum d = x :: t /\ datum_start x = true.
Proof.
  intros d Hd. destruct d as [m | n | n w0 suf | l ds | q body | pad payload | body];
    cbn [render_datum].
  - cbn [wf_datum] in Hd. destruct (wf_mnemonic_inv m Hd) as (x & m' & -> & Hx & _).
    exists x, m'. split; [reflexivity|]. unfold datum_start. rewrite Hx. reflexivity.
  - cbn [wf_datum] in Hd. destruct (render_number_head n Hd) as (x & t & -> & Hx).
    exists x, t. split; [reflexivity|]. unfold datum_start. rewrite Hx. apply orb_true_iff. left.
    apply orb_true_iff. left. apply orb_true_iff. left. apply orb_true_iff. left. apply orb_true_r.
  - cbn [wf_datum] in Hd.
    apply andb_prop in Hd. destruct Hd as [Hd _].
    apply andb_prop in Hd. destruct Hd as [Hd _].
    apply andb_prop in Hd. destruct Hd as [Hn _].
    destruct (render_number_head n Hn) as (x & t & -> & Hx).
    exists x, (t ++ w0 ++ suf). split; [reflexivity|]. unfold datum_start. rewrite Hx.
    apply orb_true_iff. left.
    apply orb_true_iff. left. apply orb_true_iff. left. apply orb_true_iff. left. apply orb_true_r.
  - eexists _, _. split; reflexivity.
  - cbn [wf_datum] in Hd. apply andb_prop in Hd. destruct Hd as [Hq _].
    eexists _, _. split; [reflexivity|]. unfold datum_start, num_start. bsolve.
  - eexists _, _. split; reflexivity.
  - eexists _, _. split; reflexivity.
Qed.

Lemma datum_start_props : forall x, datum_start x = true ->
  is_ws x = false /\ (x =? 44) = false /\ (x =? 59) = false /\ (x =? 10) = false.
Proof. intros x H. unfold datum_start, num_start in H. repeat split; bsolve. Qed.

(* ------------------------------------------------------------------ *)
(* 5. argument lists                                                   *)
(* ------------------------------------------------------------------ *)

Definition unit_follow (rest : list byte) : Prop :=
  match rest with [] => True | x :: r => x = 59 \/ (x = 10 /\ r = []) end.

Lemma unit_follow_sep : forall rest, unit_follow rest -> sep_follow rest.
Proof. intros [|x r] H; cbn in *; tauto. Qed.

(* the continuation after a unit: reached either exactly at [rest] or after skipping white space *)
Definition cont (rest : list byte) (ts : list token) : Prop :=
  forall hdr com, lexes (mkLexer rest hdr com) ts /\ lexes (mkLexer (skip_ws rest) hdr com) ts.

Lemma lexes_datum_step : forall d w rest com ts,
  wf_datum d = true -> wf_ws w = true -> sep_follow rest ->
  lexes (mkLexer (skip_ws rest) false com) ts ->
  lexes (mkLexer (render_datum d ++ w ++ rest) false com) (token_of_datum d :: ts).
Proof.
  intros d w rest com ts Hd Hw Hr Hk.
  eapply lexes_tok; [apply lex_datum; assumption | | exact Hk].
  cbn [chars]. destruct (datum_head d Hd) as (x & t & -> & _).
  pose proof (skip_ws_length rest). cbn [app length]. repeat rewrite app_length. lia.
Qed.

Lemma lex_comma : forall w2 x t com,
  wf_ws w2 = true -> datum_start x = true ->
  lex_next (mkLexer (44 :: w2 ++ x :: t) false com)
  = Val (STok TDataSeparator (mkLexer (x :: t) false com)).
Proof.
  intros w2 x t com Hw Hx. destruct (datum_start_props x Hx) as (H1 & H2 & H3 & H4).
  unfold lex_next. cbn [chars in_header in_common].
  change (44 =? 42) with false. change (44 =? 58) with false. change (44 =? 63) with false.
  change (44 =? 59) with false. change (44 =? 10) with false. change (44 =? 44) with true.
  cbv iota. rewrite skip_ws_layout by exact Hw.
  unfold skip_ws. rewrite skip_while_stop by exact H1.
  rewrite H2, H3, H4. reflexivity.
Qed.

Lemma render_args_cons2 : forall d w1 w2 a l,
  render_args ((d, w1, w2) :: a :: l) = render_datum d ++ w1 ++ 44 :: w2 ++ render_args (a :: l).
Proof. reflexivity. Qed.
Lemma tokens_args_cons2 : forall d w1 w2 a l,
  tokens_args ((d, w1, w2) :: a :: l) = token_of_datum d :: TDataSeparator :: tokens_args (a :: l).
Proof. reflexivity. Qed.

Definition wf_arg (a : datum * list byte * list byte) : bool :=
  match a with (d, w1, w2) => wf_datum d && wf_ws w1 && wf_ws w2 end.

Lemma args_head : forall a args rest, wf_arg a = true ->
  exists x t, render_args (a :: args) ++ rest = x :: t /\ datum_start x = true.
Proof.
  intros [[d w1] w2] args rest Ha. cbn [wf_arg] in Ha.
  apply andb_prop in Ha. destruct Ha as [Ha _]. apply andb_prop in Ha. destruct Ha as [Hd _].
  destruct (datum_head d Hd) as (x & t & Heq & Hx).
  destruct args as [|a2 args'].
  - cbn [render_args]. rewrite Heq. eexists _, _. split; [reflexivity | exact Hx].
  - rewrite render_args_cons2, Heq. eexists _, _. split; [reflexivity | exact Hx].
Qed.

Lemma lexes_args : forall args, forallb wf_arg args = true -> args <> [] ->
  forall rest ts com, unit_follow rest -> cont rest ts ->
  lexes (mkLexer (render_args args ++ rest) false com) (tokens_args args ++ ts).
Proof.
  induction args as [|a args IH]; intros Hwf Hne rest ts com Hr Hk; [congruence|].
  cbn [forallb] in Hwf. apply andb_prop in Hwf. destruct Hwf as [Ha Hargs].
  destruct a as [[d w1] w2]. pose proof Ha as Ha'. cbn [wf_arg] in Ha'.
  apply andb_prop in Ha'. destruct Ha' as [Ha' Hw2]. apply andb_prop in Ha'. destruct Ha' as [Hd Hw1].
  destruct args as [|a2 args'].
  - cbn [render_args tokens_args app]. rewrite <- app_assoc.
    apply lexes_datum_step; try assumption; [apply unit_follow_sep; exact Hr | apply Hk].
  - rewrite render_args_cons2, tokens_args_cons2.
    repeat rewrite <- app_assoc. cbn [app]. rewrite <- app_assoc.
    cbn [forallb] in Hargs. pose proof Hargs as Hargs'. apply andb_prop in Hargs'. destruct Hargs' as [Ha2 _].
    destruct (args_head a2 args' rest Ha2) as (x & t & Heq & Hx).
    apply lexes_datum_step; try assumption; [cbn; auto|].
    change (skip_ws (44 :: w2 ++ render_args (a2 :: args') ++ rest))
      with (44 :: w2 ++ render_args (a2 :: args') ++ rest).
    eapply lexes_tok.
    + rewrite Heq. apply lex_comma; assumption.
    + cbn [chars length]. rewrite app_length, Heq. cbn [length]. lia.
    + rewrite <- Heq. apply IH; [exact Hargs | discriminate | exact Hr | exact Hk].
Qed.

(* ------------------------------------------------------------------ *)
(* 6. headers and separators                                           *)
(* ------------------------------------------------------------------ *)

Lemma lex_mnemonic : forall m R com,
  wf_mnemonic m = true -> stop is_mnemonic_char R ->
  lex_next (mkLexer (m ++ R) true com) = Val (STok (TMnemonic m) (mkLexer R true com)).
Proof.
  intros m R com Hm HR.
  destruct (wf_mnemonic_inv m Hm) as (x & m' & -> & Hx & Hall & Hlen).
  unfold lex_next. cbn [chars in_header in_common app].
  repeat step_if.
  unfold read_mnemonic. repeat step_if.
  change (x :: m' ++ R) with ((x :: m') ++ R).
  rewrite scan12_app; [| exact Hall | cbn [length] in *; lia | exact HR].
  rewrite consumed_app. reflexivity.
Qed.

Lemma lex_common : forall m R com,
  wf_mnemonic m = true -> stop is_mnemonic_char R ->
  lex_next (mkLexer (42 :: m ++ R) true com) = Val (STok (TMnemonic (42 :: m)) (mkLexer R true true)).
Proof.
  intros m R com Hm HR.
  destruct (wf_mnemonic_inv m Hm) as (x & m' & -> & Hx & Hall & Hlen).
  unfold lex_next. cbn [chars in_header in_common].
  change (42 =? 42) with true. cbv iota.
  unfold read_mnemonic. change ((42 =? 42) && true) with true. cbv iota.
  rewrite scan12_app; [| exact Hall | cbn [length] in *; lia | exact HR].
  change (42 :: (x :: m') ++ R) with ((42 :: x :: m') ++ R).
  rewrite consumed_app. reflexivity.
Qed.

Lemma lex_colon : forall y t, is_alpha y = true ->
  lex_next (mkLexer (58 :: y :: t) true false)
  = Val (STok THeaderMnemonicSeparator (mkLexer (y :: t) true false)).
Proof.
  intros y t Hy. unfold lex_next. cbn [chars in_header in_common].
  change (58 =? 42) with false. change (58 =? 58) with true. cbv iota.
  rewrite Hy. reflexivity.
Qed.

Definition hdr_follow (R : list byte) : Prop :=
  match R with [] => True | y :: _ => is_ws y = true \/ y = 59 end.

Lemma lex_query : forall R com, hdr_follow R ->
  lex_next (mkLexer (63 :: R) true com) = Val (STok THeaderQuerySuffix (mkLexer R false com)).
Proof.
  intros R com HR. unfold lex_next. cbn [chars in_header in_common].
  change (63 =? 42) with false. change (63 =? 58) with false. change (63 =? 63) with true. cbv iota.
  destruct R as [|y R']; [reflexivity|]. cbn [hdr_follow] in HR.
  replace (negb (is_ws y) && negb (y =? 59)) with false by (destruct HR as [H | ->]; [rewrite H|]; reflexivity).
  reflexivity.
Qed.

Definition starts44 (c : list byte) : bool := match c with x :: _ => x =? 44 | [] => false end.

Lemma lex_hsep : forall x w A hdr com,
  is_layout x = true -> wf_ws w = true -> starts44 (skip_ws A) = false ->
  lex_next (mkLexer (x :: w ++ A) hdr com)
  = Val (STok THeaderSeparator (mkLexer (skip_ws A) false com)).
Proof.
  intros x w A hdr com Hx Hw HA. unfold lex_next. cbn [chars in_header in_common].
  repeat step_if.
  change (x :: w ++ A) with ((x :: w) ++ A).
  rewrite skip_ws_layout by (cbn; rewrite Hx; exact Hw).
  revert HA. generalize (skip_ws A). intros c H.
  destruct c as [|y c]; [reflexivity|].
  destruct y as [|p]; [reflexivity|].
  do 6 (try (destruct p as [p|p|]; try reflexivity)). discriminate H.
Qed.

Lemma lex_semicolon : forall w A hdr com,
  wf_ws w = true -> stop is_ws A ->
  lex_next (mkLexer (59 :: w ++ A) hdr com) = Val (STok TUnitSeparator (mkLexer A true false)).
Proof.
  intros w A hdr com Hw HA. unfold lex_next. cbn [chars in_header in_common].
  change (59 =? 42) with false. change (59 =? 58) with false. change (59 =? 63) with false.
  change (59 =? 59) with true. cbv iota.
  rewrite skip_ws_layout by exact Hw. unfold skip_ws. rewrite skip_while_stop by exact HA. reflexivity.
Qed.

Lemma lexes_nil : forall hdr com, lexes (mkLexer [] hdr com) [].
Proof. intros. apply lexes_end. reflexivity. Qed.
Lemma lexes_nl : forall hdr com, lexes (mkLexer [10] hdr com) [].
Proof. intros. apply lexes_end. reflexivity. Qed.

Lemma lexes_mnemonic_step : forall m R com ts,
  wf_mnemonic m = true -> stop is_mnemonic_char R ->
  lexes (mkLexer R true com) ts -> lexes (mkLexer (m ++ R) true com) (TMnemonic m :: ts).
Proof.
  intros m R com ts Hm HR Hk.
  eapply lexes_tok; [apply lex_mnemonic; assumption | | exact Hk].
  destruct (wf_mnemonic_inv m Hm) as (x & m' & -> & _).
  cbn [chars app length]. rewrite app_length. lia.
Qed.

Lemma render_path_cons2 : forall m a l, render_path (m :: a :: l) = m ++ 58 :: render_path (a :: l).
Proof. reflexivity. Qed.
Lemma tokens_path_cons2 : forall m a l,
  tokens_path (m :: a :: l) = TMnemonic m :: THeaderMnemonicSeparator :: tokens_path (a :: l).
Proof. reflexivity. Qed.

Lemma path_head : forall m ms R, wf_mnemonic m = true ->
  exists y t, render_path (m :: ms) ++ R = y :: t /\ is_alpha y = true.
Proof.
  intros m ms R Hm. destruct (wf_mnemonic_inv m Hm) as (x & m' & -> & Hx & _).
  destruct ms as [|a l].
  - cbn [render_path app]. eexists _, _. split; [reflexivity | exact Hx].
  - rewrite render_path_cons2. cbn [app]. eexists _, _. split; [reflexivity | exact Hx].
Qed.

Lemma lexes_path : forall ms, forallb wf_mnemonic ms = true -> ms <> [] ->
  forall R ts, stop is_mnemonic_char R ->
  lexes (mkLexer R true false) ts ->
  lexes (mkLexer (render_path ms ++ R) true false) (tokens_path ms ++ ts).
Proof.
  induction ms as [|m ms IH]; intros Hwf Hne R ts HR Hk; [congruence|].
  cbn [forallb] in Hwf. apply andb_prop in Hwf. destruct Hwf as [Hm Hms].
  destruct ms as [|m2 ms'].
  - cbn [render_path tokens_path app]. apply lexes_mnemonic_step; assumption.
  - rewrite render_path_cons2, tokens_path_cons2. rewrite <- app_assoc. cbn [app].
    pose proof Hms as Hms'. cbn [forallb] in Hms'. apply andb_prop in Hms'. destruct Hms' as [Hm2 _].
    destruct (path_head m2 ms' R Hm2) as (y & t & Heq & Hy).
    apply lexes_mnemonic_step; [exact Hm | reflexivity |].
    eapply lexes_tok.
    + rewrite Heq. apply lex_colon. exact Hy.
    + cbn [chars length]. rewrite Heq. cbn [length]. lia.
    + rewrite <- Heq. apply IH; [exact Hms | discriminate | exact HR | exact Hk].
Qed.

Lemma hdr_follow_stop : forall R, hdr_follow R -> stop is_mnemonic_char R.
Proof. intros [|y R] H; cbn in *; [exact I|]. destruct H as [H | ->]; [bsolve | reflexivity]. Qed.

Lemma lexes_query : forall (q : bool) R com ts, hdr_follow R ->
  (forall hdr, lexes (mkLexer R hdr com) ts) ->
  lexes (mkLexer ((if q then [63] else []) ++ R) true com)
        ((if q then [THeaderQuerySuffix] else []) ++ ts).
Proof.
  intros [|] R com ts HR Hk; cbn [app]; [|apply Hk].
  eapply lexes_tok; [apply lex_query; exact HR | cbn [chars length]; lia | apply Hk].
Qed.

Lemma query_stop : forall (q : bool) R, hdr_follow R ->
  stop is_mnemonic_char ((if q then [63] else []) ++ R).
Proof. intros [|] R H; cbn [app]; [reflexivity | apply hdr_follow_stop; exact H]. Qed.

Lemma lexes_header : forall h R ts, wf_header h = true -> hdr_follow R ->
  (forall hdr com, lexes (mkLexer R hdr com) ts) ->
  lexes (mkLexer (render_header h ++ R) true false) (tokens_header h ++ ts).
Proof.
  intros [ab common ms q] R ts Hwf HR Hk. unfold wf_header, render_header, tokens_header in *.
  cbn [h_absolute h_common h_mnems h_query] in *.
  apply andb_prop in Hwf. destruct Hwf as [Hms Hshape].
  repeat rewrite <- app_assoc.
  destruct common.
  - destruct ms as [|m [|m2 ms']]; cbn in Hshape; try discriminate.
    cbn [forallb] in Hms. apply andb_prop in Hms. destruct Hms as [Hm _].
    cbn [app]. eapply lexes_tok.
    + apply lex_common; [exact Hm | apply query_stop; exact HR].
    + cbn [chars length]. repeat rewrite app_length. lia.
    + apply lexes_query; [exact HR | intros; apply Hk].
  - assert (Hne : ms <> []) by (intros ->; discriminate Hshape).
    assert (Hpath : lexes (mkLexer (render_path ms ++ (if q then [63] else []) ++ R) true false)
                          (tokens_path ms ++ (if q then [THeaderQuerySuffix] else []) ++ ts)).
    { apply lexes_path; [exact Hms | exact Hne | apply query_stop; exact HR |].
      apply lexes_query; [exact HR | intros; apply Hk]. }
    destruct ab; cbn [app]; [|exact Hpath].
    destruct ms as [|m ms']; [congruence|].
    cbn [forallb] in Hms. apply andb_prop in Hms. destruct Hms as [Hm _].
    destruct (path_head m ms' ((if q then [63] else []) ++ R) Hm) as (y & t & Heq & Hy).
    eapply lexes_tok.
    + rewrite Heq. apply lex_colon. exact Hy.
    + cbn [chars length]. rewrite Heq. cbn [length]. lia.
    + rewrite <- Heq. exact Hpath.
Qed.

(* ------------------------------------------------------------------ *)
(* 7. units, messages                                                  *)
(* ------------------------------------------------------------------ *)

Definition unit_start (y : byte) : bool := (y =? 42) || (y =? 58) || is_alpha y.

Lemma header_head : forall h R, wf_header h = true ->
  exists y t, render_header h ++ R = y :: t /\ unit_start y = true.
Proof.
  intros [ab common ms q] R Hwf. unfold wf_header, render_header in *.
  cbn [h_absolute h_common h_mnems h_query] in *.
  apply andb_prop in Hwf. destruct Hwf as [Hms Hshape].
  repeat rewrite <- app_assoc.
  destruct common.
  - destruct ms as [|m ms']; cbn in Hshape; try discriminate.
    cbn [app]. eexists _, _. split; reflexivity.
  - destruct ab; cbn [app]; [eexists _, _; split; reflexivity|].
    destruct ms as [|m ms']; [discriminate Hshape|].
    cbn [forallb] in Hms. apply andb_prop in Hms. destruct Hms as [Hm _].
    destruct (path_head m ms' ((if q then [63] else []) ++ R) Hm) as (y & t & Heq & Hy).
    exists y, t. split; [exact Heq|]. unfold unit_start. rewrite Hy. apply orb_true_r.
Qed.

Lemma unit_start_not_ws : forall y, unit_start y = true -> is_ws y = false.
Proof. intros y H. unfold unit_start in H. bsolve. Qed.

Lemma unit_follow_hdr : forall rest, unit_follow rest -> hdr_follow rest.
Proof. intros [|x r] H; cbn in *; [exact I|]. destruct H as [-> | [-> _]]; [right | left]; reflexivity. Qed.

Lemma unit_follow_skip : forall rest, unit_follow rest -> starts44 (skip_ws rest) = false.
Proof. intros [|x r] H; cbn in *; [reflexivity|]. destruct H as [-> | [-> ->]]; reflexivity. Qed.

Lemma lexes_unit : forall u rest ts, wf_unit u = true -> unit_follow rest -> cont rest ts ->
  lexes (mkLexer (render_unit u ++ rest) true false) (tokens_unit u ++ ts).
Proof.
  intros [h hs args] rest ts Hwf Hr Hk. unfold wf_unit, render_unit, tokens_unit in *.
  cbn [u_header u_hsep u_args] in *.
  apply andb_prop in Hwf. destruct Hwf as [Hwf Hargs].
  apply andb_prop in Hwf. destruct Hwf as [Hwf Hshape].
  apply andb_prop in Hwf. destruct Hwf as [Hh Hhs].
  change (forallb wf_arg args = true) in Hargs.
  repeat rewrite <- app_assoc.
  destruct hs as [|x w].
  - destruct args as [|a args']; [|discriminate Hshape].
    cbn [app render_args tokens_args].
    apply lexes_header; [exact Hh | apply unit_follow_hdr; exact Hr | intros; apply Hk].
  - cbn in Hhs. apply andb_prop in Hhs. destruct Hhs as [Hx Hw].
    apply lexes_header; [exact Hh | cbn [app hdr_follow]; left; apply layout_is_ws; exact Hx |].
    intros hdr com. cbn [app].
    destruct args as [|a args'].
    + cbn [render_args tokens_args app].
      eapply lexes_tok.
      * apply lex_hsep; [exact Hx | exact Hw | apply unit_follow_skip; exact Hr].
      * cbn [chars length]. rewrite app_length. pose proof (skip_ws_length rest). lia.
      * apply Hk.
    + pose proof Hargs as Hargs'. cbn [forallb] in Hargs'. apply andb_prop in Hargs'. destruct Hargs' as [Ha _].
      destruct (args_head a args' rest Ha) as (y & t & Heq & Hy).
      destruct (datum_start_props y Hy) as (Hy1 & Hy2 & _).
      assert (Hskip : skip_ws (render_args (a :: args') ++ rest) = render_args (a :: args') ++ rest).
      { rewrite Heq. unfold skip_ws. apply skip_while_stop. exact Hy1. }
      eapply lexes_tok.
      * apply lex_hsep; [exact Hx | exact Hw |]. rewrite Hskip, Heq. exact Hy2.
      * cbn [chars length]. rewrite Hskip. rewrite (app_length w). lia.
      * rewrite Hskip. apply lexes_args; [exact Hargs | discriminate | exact Hr | exact Hk].
Qed.

Definition wf_uw (uw : munit * list byte) : bool := wf_unit (fst uw) && wf_ws (snd uw).

Lemma render_units_cons2 : forall u w a l,
  render_units ((u, w) :: a :: l) = render_unit u ++ 59 :: w ++ render_units (a :: l).
Proof. reflexivity. Qed.
Lemma tokens_units_cons2 : forall u w a l,
  tokens_units ((u, w) :: a :: l) = tokens_unit u ++ TUnitSeparator :: tokens_units (a :: l).
Proof. reflexivity. Qed.

Lemma units_head : forall uw us R, wf_uw uw = true ->
  exists y t, render_units (uw :: us) ++ R = y :: t /\ unit_start y = true.
Proof.
  intros [u w] us R Huw. unfold wf_uw in Huw. cbn [fst snd] in Huw.
  apply andb_prop in Huw. destruct Huw as [Hu _].
  unfold wf_unit in Hu.
  apply andb_prop in Hu. destruct Hu as [Hu _].
  apply andb_prop in Hu. destruct Hu as [Hu _].
  apply andb_prop in Hu. destruct Hu as [Hh _].
  destruct us as [|a l].
  - cbn [render_units]. unfold render_unit. repeat rewrite <- app_assoc. apply header_head. exact Hh.
  - rewrite render_units_cons2. unfold render_unit. repeat rewrite <- app_assoc. apply header_head. exact Hh.
Qed.

Lemma lexes_units : forall us, forallb wf_uw us = true -> us <> [] ->
  forall nl, nl = [] \/ nl = [10] ->
  lexes (mkLexer (render_units us ++ nl) true false) (tokens_units us).
Proof.
  induction us as [|uw us IH]; intros Hwf Hne nl Hnl; [congruence|].
  cbn [forallb] in Hwf. apply andb_prop in Hwf. destruct Hwf as [Huw Hus].
  destruct uw as [u w]. pose proof Huw as Huw'. unfold wf_uw in Huw'. cbn [fst snd] in Huw'.
  apply andb_prop in Huw'. destruct Huw' as [Hu Hw].
  destruct us as [|uw2 us'].
  - cbn [render_units tokens_units]. rewrite <- (app_nil_r (tokens_unit u)).
    apply lexes_unit; [exact Hu | destruct Hnl as [-> | ->]; cbn; auto |].
    intros hdr com. destruct Hnl as [-> | ->]; split; try apply lexes_nil; apply lexes_nl.
  - rewrite render_units_cons2, tokens_units_cons2. rewrite <- app_assoc. cbn [app]. rewrite <- app_assoc.
    pose proof Hus as Hus'. cbn [forallb] in Hus'. apply andb_prop in Hus'. destruct Hus' as [Huw2 _].
    destruct (units_head uw2 us' nl Huw2) as (y & t & Heq & Hy).
    assert (Hstep : forall hdr com,
      lexes (mkLexer (59 :: w ++ render_units (uw2 :: us') ++ nl) hdr com)
            (TUnitSeparator :: tokens_units (uw2 :: us'))).
    { intros hdr com. eapply lexes_tok.
      - apply lex_semicolon; [exact Hw | rewrite Heq; cbn [stop]; apply unit_start_not_ws; exact Hy].
      - cbn [chars length]. rewrite (app_length w). lia.
      - apply IH; [exact Hus | discriminate | exact Hnl]. }
    apply lexes_unit; [exact Hu | cbn; auto |].
    intros hdr com. split; apply Hstep.
Qed.

Theorem lex_faithful : forall m, wf_msg m = true -> tokenize (render_msg m) = Val (map IOk (tokens_of m)).
Proof.
  intros [lead us nl] Hwf. unfold wf_msg, render_msg, tokens_of in *. cbn [m_lead m_units m_nl] in *.
  apply andb_prop in Hwf. destruct Hwf as [Hwf Hus].
  apply andb_prop in Hwf. destruct Hwf as [Hlead Hne].
  change (forallb wf_uw us = true) in Hus.
  destruct us as [|uw us']; [discriminate Hne|].
  pose proof Hus as Hus'. cbn [forallb] in Hus'. apply andb_prop in Hus'. destruct Hus' as [Huw _].
  destruct (units_head uw us' (if nl then [10] else []) Huw) as (y & t & Heq & Hy).
  unfold tokenize, lexer_new. rewrite skip_ws_layout by exact Hlead.
  unfold skip_ws. rewrite skip_while_stop by (rewrite Heq; cbn [stop]; apply unit_start_not_ws; exact Hy).
  apply lexes_tokenize_from.
  apply lexes_units; [exact Hus | discriminate | destruct nl; auto].
Qed.

Print Assumptions lex_faithful.
