(* ResponseDecoder.v — an independent decoder of <RESPONSE MESSAGE>s, written from IEEE 488.2
   section 8 (response message syntax) and NOT from the formatter model (Response.v is not even
   imported here; only the byte classes of Base.v are used).  Spec/model file: no proofs.

     <RESPONSE MESSAGE>       ::= <RESPONSE MESSAGE UNIT> { ; <RESPONSE MESSAGE UNIT> } NL          (8.3.1 - 8.5)
     <RESPONSE MESSAGE UNIT>  ::= <RESPONSE DATA> { , <RESPONSE DATA> }        (header-less units only: 8.4.1 without
                                                                                <RESPONSE HEADER>; headers are out of scope)
     <RESPONSE DATA>          ::= decided by its FIRST byte:
        DQUOTE (34)  <STRING RESPONSE DATA> (8.7.8): up to the closing quote, two quotes inside are one quote
        # 1..9       <DEFINITE LENGTH ARBITRARY BLOCK RESPONSE DATA> (8.7.9): that many length digits, then
                     exactly that many payload bytes, WHATEVER they are
        # H / Q / B  <HEXADECIMAL / OCTAL / BINARY NUMERIC RESPONSE DATA> (8.7.5 - 8.7.7): digits of the radix
                     (upper-case A-F), at least one
        (            <EXPRESSION RESPONSE DATA> (8.7.12): up to the closing `)`; no nesting, a `(` inside is refused
        letter       <CHARACTER RESPONSE DATA> (8.7.1): letters, digits, underscore
        digit + - .  a numeric run (8.7.2 - 8.7.4): the bytes up to the next `,` `;` NL DQUOTE `#` `(`;
                     an <NR1> ([+-]?digits) is decoded to its value, anything else (NR2/NR3, e.g. a float) is
                     kept as text
        anything else (a separator, NL, white space, `*`, non-ASCII, ...) is refused: an element is never empty.
   After every element exactly one of `,` (next element of the unit), `;` (next unit), NL (end; nothing may
   follow) is required.  Indefinite-length blocks (#0) are refused.  The receiver is liberal about the
   CONTENT of strings / blocks / expressions (any byte), never about the framing. *)
From VF Require Import Base.
Open Scope N_scope.

(* a decoded response element *)
Inductive item :=
| INum (z : Z)                 (* NR1 decimal integer, optional sign *)
| INonDec (radix : N) (n : N)  (* #H.. #Q.. #B.. *)
| IStr (s : list byte)         (* quoted string, doubled quotes undoubled *)
| IBlock (s : list byte)       (* #<n><len><payload>: exactly len bytes, whatever they are *)
| IChar (s : list byte)        (* character response data: letters, digits, underscore *)
| IExpr (s : list byte)        (* ( ... ) *)
| IText (s : list byte).       (* a numeric run that is not an NR1 (e.g. a float) *)

(* ---- byte classes of section 8 ---- *)
Definition is_sep (b : byte) : bool := (b =? 44) || (b =? 59) || (b =? 10).          (* , ; NL *)
Definition is_char_byte (b : byte) : bool := is_alpha b || is_digit b || (b =? 95).
Definition is_num_start (b : byte) : bool := is_digit b || (b =? 43) || (b =? 45) || (b =? 46).
Definition is_text_byte (b : byte) : bool :=
  negb (is_sep b) && negb (b =? 34) && negb (b =? 35) && negb (b =? 40).

(* longest prefix of bytes satisfying [p], and the rest *)
Fixpoint span (p : byte -> bool) (b : list byte) : list byte * list byte :=
  match b with
  | c :: b' => if p c then (c :: fst (span p b'), snd (span p b')) else ([], b)
  | [] => ([], [])
  end.

(* ---- numbers ---- *)
Definition dec_val (ds : list byte) : N := fold_left (fun a d => a * 10 + (d - 48)) ds 0.
Definition all_digits1 (ds : list byte) : bool :=
  match ds with [] => false | _ => forallb is_digit ds end.
(* <NR1>: [+-]?digits *)
Definition int_form (s : list byte) : option Z :=
  match s with
  | [] => None
  | c :: s' =>
    if c =? 45 then (if all_digits1 s' then Some (- Z.of_N (dec_val s'))%Z else None)
    else if c =? 43 then (if all_digits1 s' then Some (Z.of_N (dec_val s')) else None)
    else if all_digits1 s then Some (Z.of_N (dec_val s)) else None
  end.
Definition classify_run (s : list byte) : item :=
  match int_form s with Some z => INum z | None => IText s end.

Definition radix_of (l : byte) : option N :=
  if l =? 72 then Some 16 else if l =? 81 then Some 8 else if l =? 66 then Some 2 else None.
Definition nd_value (d : byte) : N := if is_digit d then d - 48 else d - 55.
Definition nd_digit (radix : N) (d : byte) : bool :=
  (is_digit d || ((65 <=? d) && (d <=? 70))) && (nd_value d <? radix).
Definition nd_val (radix : N) (ds : list byte) : N :=
  fold_left (fun a d => a * radix + nd_value d) ds 0.

(* ---- delimited elements; the opening byte is already consumed ---- *)
(* string body: -> (undoubled contents, rest after the closing quote) *)
Fixpoint scan_string (b : list byte) : option (list byte * list byte) :=
  match b with
  | [] => None                                            (* unterminated *)
  | c :: b' =>
    if c =? 34 then
      match b' with
      | c2 :: b'' =>
        if c2 =? 34 then
          match scan_string b'' with Some (s, r) => Some (34 :: s, r) | None => None end
        else Some ([], b')
      | [] => Some ([], [])
      end
    else match scan_string b' with Some (s, r) => Some (c :: s, r) | None => None end
  end.

(* expression body: -> (contents, rest after the closing parenthesis) *)
Fixpoint scan_expr (b : list byte) : option (list byte * list byte) :=
  match b with
  | [] => None
  | c :: b' =>
    if c =? 41 then Some ([], b')
    else if c =? 40 then None
    else match scan_expr b' with Some (s, r) => Some (c :: s, r) | None => None end
  end.

(* after `#` *)
Definition decode_hash (b : list byte) : option (item * list byte) :=
  match b with
  | [] => None
  | c :: r =>
    if (49 <=? c) && (c <=? 57) then
      let n := N.to_nat (c - 48) in
      if Nat.ltb (length r) n then None
      else
        let ld := firstn n r in
        if forallb is_digit ld then
          let len := N.to_nat (dec_val ld) in
          let r2 := skipn n r in
          if Nat.ltb (length r2) len then None
          else Some (IBlock (firstn len r2), skipn len r2)
        else None
    else
      match radix_of c with
      | Some radix =>
        match fst (span (nd_digit radix) r) with
        | [] => None
        | ds => Some (INonDec radix (nd_val radix ds), snd (span (nd_digit radix) r))
        end
      | None => None
      end
  end.

(* one <RESPONSE DATA> element: -> (element, rest starting at the separator) *)
Definition decode_item (b : list byte) : option (item * list byte) :=
  match b with
  | [] => None
  | c :: b' =>
    if c =? 34 then match scan_string b' with Some (s, r) => Some (IStr s, r) | None => None end
    else if c =? 35 then decode_hash b'
    else if c =? 40 then match scan_expr b' with Some (s, r) => Some (IExpr s, r) | None => None end
    else if is_alpha c then Some (IChar (c :: fst (span is_char_byte b')), snd (span is_char_byte b'))
    else if is_num_start c then
      Some (classify_run (c :: fst (span is_text_byte b')), snd (span is_text_byte b'))
    else None
  end.

(* units (split at ;) of items (split at ,); the message must end with exactly one NL.
   Every element consumes at least one byte, so fuel = S (length of the input) suffices
   (ResponseDecoder_proofs.decode_from_fuel: any larger fuel gives the same answer). *)
Fixpoint decode_from (fuel : nat) (b : list byte) : option (list (list item)) :=
  match fuel with
  | O => None
  | S fuel' =>
    match decode_item b with
    | None => None
    | Some (it, r) =>
      match r with
      | [] => None                                                       (* missing terminator *)
      | c :: r' =>
        if c =? 44 then
          match decode_from fuel' r' with
          | Some (u :: us) => Some ((it :: u) :: us)
          | _ => None
          end
        else if c =? 59 then
          match decode_from fuel' r' with
          | Some us => Some ([it] :: us)
          | None => None
          end
        else if c =? 10 then
          match r' with [] => Some [[it]] | _ :: _ => None end           (* nothing after NL *)
        else None
      end
    end
  end.

Definition decode_response (b : list byte) : option (list (list item)) :=
  decode_from (S (length b)) b.
