(* MessageSpec.v — what a well-formed program message MEANS on a command tree, stated on the grammar AST of
   Grammar.v and the designation relation of HeaderSpec.v, with no reference to bytes, tokens, separators or the
   dispatcher's loop: the units are executed in order; a unit's header designates a command by the SCPI path rules
   (absolute / common / relative to the context left by the previous unit); the command's handler is offered exactly
   the data elements of its own unit; a missing required element is -109, an element left over is -108, an
   undesignated header is -113; the first error ends the message; what was written is framed by `;` and one NL.
   This is the one-page specification that the theorem [message_semantics] (Message_proofs.v) proves equal to the
   pipeline  bytes -> Lexer.tokenize -> Tree.run_tokens  for every well-formed message in every layout.
   Specification file: no proofs. *)
From VF Require Import Base Gen_Errors Lexer Mnemonic Grammar Response Tree HeaderSpec.
Open Scope N_scope.

Section MessageSpec.
Context {D : Type}.

(* a handler program run against the data elements of ITS OWN unit, in order *)
Fixpoint spec_prog (p : hprog D) (data : list token) (f : fmt) (u : option runit)
  : list token * D * fmt * option error :=
  match p with
  | Pull required k =>
    match data with
    | t :: data' => spec_prog (k (Got t)) data' f u
    | [] => spec_prog (k (if required then Failed (std_error MissingParameter) else Absent)) [] f u
    end
  | Hdr h k =>
    match u with
    | Some ru => let '(f', ru') := ru_header f ru h in spec_prog k data f' (Some ru')
    | None => spec_prog k data f u
    end
  | Emit d k =>
    match u with
    | Some ru => let '(f', ru') := ru_data f ru d in spec_prog k data f' (Some ru')
    | None => spec_prog k data f u
    end
  | Done d r =>
    (data, d, f,
     match r with
     | RetOk => None
     | RetErr e => Some e
     | RetFinish => match u with
                    | Some ru => option_map std_error (ru_result ru)
                    | None => None
                    end
     end)
  end.

Definition trace := list (N * bool * list byte).

(* the mnemonic path a header spells: a common command is the single mnemonic `*XXX` looked up at the root *)
Definition header_path (h : header) : list (list byte) :=
  if h_common h then match h_mnems h with m :: _ => [42 :: m] | [] => [] end else h_mnems h.
Definition unit_data (u : munit) : list token := map (fun a => token_of_datum (fst (fst a))) (u_args u).

Inductive ures := UOk (ctx : tree D) (d : D) (f : fmt) (tr : trace) | UErr (e : error) (d : D) (f : fmt) (tr : trace).

(* one message unit; [ctx] is the header-path context left by the previous unit (the root for the first) *)
Definition spec_unit (root ctx : tree D) (u : munit) (d : D) (f : fmt) (tr : trace) : ures :=
  let h := u_header u in
  let from := if h_common h || h_absolute h then root else ctx in
  match desig from from (header_path h) with
  | [] => UErr (std_error UndefinedHeader) d f tr                     (* nothing is invoked *)
  | (c, ctx') :: _ =>
    let next_ctx := if h_common h then ctx else ctx' in                (* a common command does not move the context *)
    let finish (f0 : fmt) (r : list token * D * fmt * option error) : ures :=
      let '(rest, d', f', e) := r in
      let tr' := tr ++ [(cid c, h_query h, skipn (length (buf f0)) (buf f'))] in
      match e with
      | Some x => UErr x d' f' tr'
      | None => match rest with
                | [] => UOk next_ctx d' f' tr'
                | _ :: _ => UErr (std_error ParameterNotAllowed) d' f' tr'   (* the handler has run; its effects stay *)
                end
      end in
    if h_query h then
      match response_unit f with
      | Err e => UErr (std_error e) d f tr                              (* no room for the unit separator: not invoked *)
      | Ok f0 => finish f0 (spec_prog (qu c d) (unit_data u) f0 (Some runit_new))
      end
    else finish f (spec_prog (ev c d) (unit_data u) f None)
  end.

(* the units in order; the first error ends the message; a non-empty response is terminated *)
Fixpoint spec_units (root ctx : tree D) (us : list (munit * list byte)) (d : D) (f : fmt) (tr : trace)
  : D * fmt * trace * option error :=
  match us with
  | [] =>
    match buf f with
    | [] => (d, f, tr, None)
    | _ :: _ => match message_end f with
                | Ok f' => (d, f', tr, None)
                | Err e => (d, f, tr, Some (std_error e))
                end
    end
  | (u, _) :: us' =>
    match spec_unit root ctx u d f tr with
    | UErr e d' f' tr' => (d', f', tr', Some e)
    | UOk ctx' d' f' tr' => spec_units root ctx' us' d' f' tr'
    end
  end.

Definition spec_message (root : tree D) (m : msg) (d : D) (f : fmt) : run_result D :=
  let '(d', f', tr, e) := spec_units root root (m_units m) d f [] in
  mkRun e d' (buf f') tr (match e with Some x => [x] | None => [] end).

End MessageSpec.
