(* Suffix.v — model of the unit-suffix conversions of scpi/src/parser/suffix.rs: impl_unit!
   (first case-insensitive match in the table regenerated from the source, bare numbers in the base
   unit), Amplitude (PK / PP / RMS classification) and Db (dB classification).  Values are exact
   rationals in the SI unit of the quantity; the f32 arithmetic of uom is not modelled (the
   correspondence check compares with a relative tolerance).  Model file: no proofs. *)
From Coq Require Import QArith String.
From VF Require Import Base Gen_Errors Lexer Conv Gen_Suffix SuffixSpec.
Open Scope string_scope.

Definition table_of (q : string) : option (string * list (list (list byte) * string)) :=
  match find (fun t => String.eqb (fst (fst t)) q) suffix_tables with
  | Some (_, base, ents) => Some (base, ents)
  | None => None
  end.
(* `s if s.eq_ignore_ascii_case(b"..") || .. => unit` : first matching arm *)
Fixpoint lookup_suffix (ents : list (list (list byte) * string)) (s : list byte) : option string :=
  match ents with
  | [] => None
  | (sp, u) :: ents' => if existsb (fun x => bytes_eq_nocase s x) sp then Some u else lookup_suffix ents' s
  end.

(* exact value of a decimal literal *)
Definition lit_Q (s : list byte) : option Q :=
  match parse_nrf s with
  | Some (neg, m, e10) => Some ((if neg then -1 else 1) * inject_Z (Z.of_N m) * Qpower 10 e10)%Q
  | None => None
  end.
Definition apply_lin (l : lin) (v : Q) : Q := (v * fst l + snd l)%Q.

(* TryFrom<Token> for a uom quantity; the result is the value in the SI unit of the quantity *)
Definition conv_unit (q : string) (tok : token) : res Q :=
  match table_of q with
  | None => Err DataTypeError
  | Some (base, ents) =>
    match tok with
    | TDec s =>
      match lit_Q s, uom_unit q base with
      | Some v, Some l => Ok (apply_lin l v)
      | _, _ => Err NumericDataError
      end
    | TDecSuffix num suf =>
      match lookup_suffix ents suf with
      | None => Err IllegalParameterValue
      | Some u => match lit_Q num, uom_unit q u with
                  | Some v, Some l => Ok (apply_lin l v)
                  | _, _ => Err NumericDataError
                  end
      end
    | _ => Err DataTypeError
    end
  end.

(* Amplitude<UNIT> *)
Inductive amp_class := AmpNone | AmpPeak | AmpPP | AmpRms.
Definition ends_with_nocase (s needle : list byte) : bool :=
  Nat.leb (length needle) (length s) && bytes_eq_nocase needle (skipn (length s - length needle) s).
Definition strip_end (s : list byte) (k : nat) : list byte := firstn (length s - k) s.
Definition conv_amplitude (q : string) (tok : token) : amp_class * res Q :=
  match tok with
  | TDecSuffix num s =>
    if ends_with_nocase s [80; 75]%N then (AmpPeak, conv_unit q (TDecSuffix num (strip_end s 2)))
    else if ends_with_nocase s [80; 80]%N then (AmpPP, conv_unit q (TDecSuffix num (strip_end s 2)))
    else if ends_with_nocase s [82; 77; 83]%N then (AmpRms, conv_unit q (TDecSuffix num (strip_end s 3)))
    else (AmpNone, conv_unit q tok)
  | _ => (AmpNone, conv_unit q tok)
  end.

(* Db<V, UNIT> *)
Inductive db_result := DbNone (v : Q) | DbLinear (x : Q) | DbLog (v : Q) (reference : Q) | DbErr (e : Z).
Definition log_table_of (q : string) : list (list (list byte) * string) :=
  match find (fun t => String.eqb (fst t) q) log_tables with Some t => snd t | None => [] end.
Definition conv_db (q : string) (tok : token) : db_result :=
  match tok with
  | TDec s => match lit_Q s with Some v => DbNone v | None => DbErr NumericDataError end
  | TDecSuffix num suf =>
    match lookup_suffix (log_table_of q) suf with
    | Some u => match lit_Q num, uom_unit q u with
                | Some v, Some l => DbLog v (apply_lin l 1)
                | _, _ => DbErr NumericDataError
                end
    | None => match conv_unit q tok with Ok x => DbLinear x | Err e => DbErr e end
    end
  | _ => DbErr DataTypeError
  end.
