(* ContribSpec.v — canonical program-message text of the abstract device operations of Status.v, so that the
   operation-level model (for which the theorems of C13/C15/C16 are stated) can be related to the full-stack model of
   Contrib.v (bytes -> lexer -> dispatcher -> contrib handlers).  Spec file: no proofs. *)
From VF Require Import Base Gen_Errors ErrTable Fmt Lexer Response Tree Queue Status Contrib.
Open Scope N_scope.

Definition reg_path (r : regname) : list byte := match r with Oper => b_ ":STAT:OPER" | Ques => b_ ":STAT:QUES" end.
(* one unit, absolute header (leading colon) so that the header-path context never matters *)
Definition sop_text (o : sop) : option (list byte) :=
  match o with
  | SReg r RRdEvent => Some (reg_path r ++ b_ ":EVEN?")
  | SReg r RRdCondition => Some (reg_path r ++ b_ ":COND?")
  | SReg r RRdEnable => Some (reg_path r ++ b_ ":ENAB?")
  | SReg r RRdPtr => Some (reg_path r ++ b_ ":PTR?")
  | SReg r RRdNtr => Some (reg_path r ++ b_ ":NTR?")
  | SReg r (RWrEnable v) => Some (reg_path r ++ b_ ":ENAB " ++ fmt_N v)
  | SReg r (RWrPtr v) => Some (reg_path r ++ b_ ":PTR " ++ fmt_N v)
  | SReg r (RWrNtr v) => Some (reg_path r ++ b_ ":NTR " ++ fmt_N v)
  | SCls => Some (b_ "*CLS") | SPreset => Some (b_ ":STAT:PRES")
  | SWrEse v => Some (b_ "*ESE " ++ fmt_N v) | SWrSre v => Some (b_ "*SRE " ++ fmt_N v)
  | SRdEse => Some (b_ "*ESE?") | SRdSre => Some (b_ "*SRE?") | SRdEsr => Some (b_ "*ESR?") | SRdStb => Some (b_ "*STB?")
  | SOpc => Some (b_ "*OPC") | SOpcQ => Some (b_ "*OPC?") | STstQ => Some (b_ "*TST?") | SRst => Some (b_ "*RST") | SWai => Some (b_ "*WAI")
  | SErrNext => Some (b_ ":SYST:ERR:NEXT?") | SErrCount => Some (b_ ":SYST:ERR:COUN?") | SErrAll => Some (b_ ":SYST:ERR:ALL?")
  | SFail e =>                                   (* a handler-raised standard error: the harness' *ERR <code> *)
    match ecustom e, eext e, get_error (ecode e) with
    | None, None, Some _ => Some (b_ "*ERR " ++ fmt_Z (ecode e))
    | _, _, _ => None
    end
  | _ => None
  end.
(* values a real message can carry *)
Definition sop_wf (o : sop) : bool :=
  match o with
  | SReg _ (RWrEnable v) | SReg _ (RWrPtr v) | SReg _ (RWrNtr v) => v <=? 65535
  | SWrEse v | SWrSre v => v <=? 255
  | SFail e => ((-32768 <=? ecode e) && (ecode e <=? 32767))%Z
  | _ => true
  end.
Definition renderable (o : sop) : bool := match sop_text o with Some _ => sop_wf o | None => false end.
Definition units_text (us : list sop) : list byte :=
  intercalate [59] (map (fun o => match sop_text o with Some t => t | None => [] end) us).

(* what the operation-level model says the message does: final device, response bytes, returned error *)
Definition render_ritem (i : ritem) : list byte :=
  match i with
  | RNum n => fmt_N n
  | Status.RInt z => fmt_Z z
  | RErr e => fmt_Z (ecode e) ++ [44] ++ fmt_quoted (error_message e ++ match eext e with Some x => 59 :: x | None => [] end)
  end.
Definition render_response (us : list (list ritem)) : list byte :=
  match us with
  | [] => []
  | _ => intercalate [59] (map (fun u => intercalate [44] (map render_ritem u)) us) ++ [10]
  end.
(* a failed message leaves the units written so far in the buffer, without terminator *)
Definition render_partial (us : list (list ritem)) : list byte :=
  intercalate [59] (map (fun u => intercalate [44] (map render_ritem u)) us).
Definition op_message (d : dev) (mav : bool) (us : list sop) : dev * list byte * option error :=
  let '(d', out, e) := msg_run mav d us [] in
  (d', match e with None => render_response out | Some _ => render_partial out end, e).

(* every queued error can be rendered by the response formatter: an item without extended text is written through
   the ASCII-checked string formatter, so its message must be ASCII (all standard messages are) *)
Definition err_printable (e : error) : bool :=
  match eext e with Some _ => true | None => all_ascii (error_message e) end.
Definition queue_printable (d : dev) : bool := forallb err_printable (queue d).

(* the device after a session of messages, operation level *)
Fixpoint session_ops (d : dev) (msgs : list (bool * list sop)) : dev :=
  match msgs with
  | [] => d
  | (mav, us) :: msgs' => session_ops (fst (fst (op_message d mav us))) msgs'
  end.
