(* Proofs for C03: mnemonic_match is exactly the short/long-form rule with the
   default-1 suffix, for definitions and candidates of ANY length over ALL bytes. *)
From Coq Require Import Lia ZifyBool ZifyN ZifyNat.
From VF Require Import Base Mnemonic MnemonicSpec.

Local Open Scope N_scope.

(* ---------- byte class facts ---------- *)
Lemma upper_not_lower : forall b, is_upper b = true -> is_lower b = false.
Proof. unfold is_upper, is_lower. intros. lia. Qed.
Lemma upper_not_digit : forall b, is_upper b = true -> is_digit b = false.
Proof. unfold is_upper, is_digit. intros. lia. Qed.
Lemma lower_not_upper : forall b, is_lower b = true -> is_upper b = false.
Proof. unfold is_upper, is_lower. intros. lia. Qed.
Lemma lower_not_digit : forall b, is_lower b = true -> is_digit b = false.
Proof. unfold is_lower, is_digit. intros. lia. Qed.
Lemma digit_not_lower : forall b, is_digit b = true -> is_lower b = false.
Proof. unfold is_lower, is_digit. intros. lia. Qed.
Lemma digit_not_upper : forall b, is_digit b = true -> is_upper b = false.
Proof. unfold is_upper, is_digit. intros. lia. Qed.
Lemma star_class : is_upper 42 = false /\ is_lower 42 = false /\ is_digit 42 = false.
Proof. repeat split; reflexivity. Qed.

Lemma eq_nocase_digit_l : forall d x, is_digit d = true -> eq_nocase d x = true -> x = d.
Proof. unfold eq_nocase, to_lower, is_digit, is_upper. intros d x Hd H.
  destruct ((65 <=? d) && (d <=? 90)) eqn:E1; destruct ((65 <=? x) && (x <=? 90)) eqn:E2; lia. Qed.
Lemma eq_nocase_refl : forall b, eq_nocase b b = true.
Proof. intro. unfold eq_nocase. apply N.eqb_refl. Qed.
Lemma eq_nocase_class : forall a x, eq_nocase a x = true ->
  is_digit a = is_digit x /\ (is_upper a || is_lower a = is_upper x || is_lower x).
Proof. unfold eq_nocase, to_lower, is_digit, is_upper, is_lower. intros a x H.
  destruct ((65 <=? a) && (a <=? 90)) eqn:E1; destruct ((65 <=? x) && (x <=? 90)) eqn:E2; split; lia. Qed.

(* ---------- bytes_eq_nocase / bytes_eqb ---------- *)
Lemma eqnc_length : forall a b, bytes_eq_nocase a b = true -> length a = length b.
Proof. induction a as [|x a IH]; destruct b as [|y b]; cbn; intros H; try discriminate; auto.
  apply andb_prop in H. destruct H. f_equal. auto. Qed.
Lemma eqnc_app : forall a1 a2 b, bytes_eq_nocase (a1 ++ a2) b =
  bytes_eq_nocase a1 (firstn (length a1) b) && bytes_eq_nocase a2 (skipn (length a1) b)
  && Nat.leb (length a1) (length b).
Proof. induction a1 as [|x a1 IH]; intros a2 b.
  - cbn. rewrite andb_true_r. reflexivity.
  - destruct b as [|y b]; cbn [app bytes_eq_nocase length firstn skipn Nat.leb].
    + reflexivity.
    + rewrite IH. rewrite !andb_assoc. reflexivity. Qed.
Lemma bytes_eqb_eq : forall a b, bytes_eqb a b = true <-> a = b.
Proof. induction a as [|x a IH]; destruct b as [|y b]; cbn; split; intros H; try discriminate; auto.
  - apply andb_prop in H. destruct H as [H1 H2]. apply N.eqb_eq in H1. apply IH in H2. congruence.
  - inversion H; subst. rewrite N.eqb_refl. apply IH. reflexivity. Qed.
Lemma bytes_eqb_refl : forall a, bytes_eqb a a = true.
Proof. intro. apply bytes_eqb_eq. reflexivity. Qed.
Lemma eqnc_digits : forall d x, all_b is_digit d = true -> bytes_eq_nocase d x = bytes_eqb d x.
Proof. induction d as [|c d IH]; destruct x as [|y x]; cbn; intros H; try reflexivity.
  apply andb_prop in H. destruct H as [Hc Hd]. rewrite IH by assumption. f_equal.
  destruct (eq_nocase c y) eqn:E.
  - apply eq_nocase_digit_l in E; [|assumption]. subst. symmetry. apply N.eqb_refl.
  - symmetry. apply N.eqb_neq. intro. subst. rewrite eq_nocase_refl in E. discriminate. Qed.

(* ---------- cmp_loop: closed forms ---------- *)
Definition nonUD (b : byte) : bool := negb (is_upper b || is_digit b).
Definition is_nil {A} (l : list A) : bool := match l with [] => true | _ => false end.

(* once the candidate is exhausted: every remaining definition byte must be
   neither upper-case nor digit, and the latch must still be open *)
Lemma cmp_loop_exhausted : forall m opt,
  cmp_loop m [] opt = forallb nonUD m && (opt || is_nil m).
Proof. induction m as [|b m IH]; intro opt; cbn [cmp_loop forallb is_nil].
  - rewrite orb_true_r. reflexivity.
  - rewrite IH. unfold nonUD. destruct (negb (is_upper b || is_digit b)), opt, (forallb _ m); reflexivity. Qed.

(* with the latch closed only an exact (case-insensitive) match remains *)
Lemma cmp_loop_closed_latch : forall m s, (length s <= length m)%nat ->
  cmp_loop m s false = bytes_eq_nocase m s.
Proof. induction m as [|b m IH]; destruct s as [|x s]; cbn [cmp_loop bytes_eq_nocase length]; intro H; try reflexivity.
  - lia.
  - rewrite andb_false_r. reflexivity.
  - destruct (is_lower b); rewrite IH by lia; reflexivity. Qed.

Lemma cmp_loop_digits : forall d s opt, all_b is_digit d = true -> (length s <= length d)%nat ->
  cmp_loop d s opt = bytes_eq_nocase d s.
Proof. induction d as [|c d IH]; destruct s as [|x s]; cbn [cmp_loop bytes_eq_nocase length all_b forallb]; intros opt Hd H; try reflexivity.
  - lia.
  - apply andb_prop in Hd. destruct Hd as [Hc _]. rewrite Hc. rewrite orb_true_r. reflexivity.
  - apply andb_prop in Hd. destruct Hd as [Hc Hd]. rewrite IH by (assumption || lia). reflexivity. Qed.

Lemma forallb_nonUD_lower : forall l, all_b is_lower l = true -> forallb nonUD l = true.
Proof. induction l as [|b l IH]; cbn; intro H; [reflexivity|]. apply andb_prop in H. destruct H as [Hb Hl].
  rewrite IH by assumption. unfold nonUD. rewrite (lower_not_upper _ Hb), (lower_not_digit _ Hb). reflexivity. Qed.
Lemma forallb_nonUD_digits : forall d, all_b is_digit d = true -> forallb nonUD d = is_nil d.
Proof. destruct d as [|c d]; cbn; intro H; [reflexivity|]. apply andb_prop in H. destruct H as [Hc _].
  unfold nonUD. rewrite Hc, orb_true_r. reflexivity. Qed.

(* lower-case tail followed by the digits: either nothing more is given (and then
   there must be no digits), or everything is given *)
Lemma cmp_loop_tail : forall L D s, all_b is_lower L = true -> all_b is_digit D = true ->
  (length s <= length (L ++ D))%nat ->
  cmp_loop (L ++ D) s true = (is_nil s && is_nil D) || bytes_eq_nocase (L ++ D) s.
Proof.
  intros L D s HL HD Hlen. destruct L as [|l L].
  - cbn [app] in *. rewrite cmp_loop_digits by assumption.
    destruct s, D; cbn; try reflexivity.
  - destruct s as [|x s].
    + rewrite cmp_loop_exhausted. cbn [is_nil orb andb]. rewrite andb_true_r.
      rewrite forallb_app, (forallb_nonUD_lower _ HL), (forallb_nonUD_digits _ HD).
      cbn [app bytes_eq_nocase]. rewrite orb_false_r. reflexivity.
    + cbn [app cmp_loop bytes_eq_nocase is_nil andb orb].
      cbn [all_b forallb] in HL. apply andb_prop in HL. destruct HL as [Hl HL]. rewrite Hl.
      rewrite cmp_loop_closed_latch; [reflexivity|]. cbn [app length] in Hlen. lia. Qed.

(* the upper-case head (with optional `*`): never optional *)
Lemma cmp_loop_head_short : forall X u m' s opt, is_upper u = true ->
  (length s < length (X ++ [u]))%nat -> cmp_loop ((X ++ [u]) ++ m') s opt = false.
Proof.
  intros X u m' s. revert X. induction s as [|x s IH]; intros X opt Hu Hlen.
  - rewrite cmp_loop_exhausted. rewrite !forallb_app. cbn [forallb]. unfold nonUD at 2. rewrite Hu. cbn.
    rewrite andb_false_r. reflexivity.
  - destruct X as [|b X].
    + cbn [app length] in Hlen. lia.
    + cbn [app cmp_loop].
      rewrite IH; [apply andb_false_r|assumption|]. rewrite app_length in *. cbn [length] in *. lia. Qed.

Lemma cmp_loop_head : forall X m' s opt, (forall b, In b X -> is_lower b = false) ->
  (length X <= length s)%nat ->
  cmp_loop (X ++ m') s opt = bytes_eq_nocase X (firstn (length X) s) && cmp_loop m' (skipn (length X) s) opt.
Proof.
  induction X as [|b X IH]; intros m' s opt HX Hlen.
  - reflexivity.
  - destruct s as [|x s]; [cbn in Hlen; lia|].
    cbn [app cmp_loop length firstn skipn bytes_eq_nocase].
    rewrite (HX b (or_introl eq_refl)). rewrite IH; [rewrite andb_assoc; reflexivity| |cbn in Hlen; lia].
    intros b' Hb'. apply HX. right. assumption. Qed.

(* ---------- mnemonic_compare on a definition of SCPI shape ---------- *)
Lemma all_b_In : forall p l b, all_b p l = true -> In b l -> p b = true.
Proof. intros p l b H Hin. unfold all_b in H. rewrite forallb_forall in H. auto. Qed.

Lemma exists_last' : forall (U : list byte), U <> [] -> exists U' u, U = U' ++ [u].
Proof. intros U H. destruct (exists_last H) as (U' & u & E). eauto. Qed.

Theorem compare_shape : forall P U L D s,
  (P = [] \/ P = [42]) -> U <> [] -> all_b is_upper U = true ->
  all_b is_lower L = true -> all_b is_digit D = true ->
  mnemonic_compare (P ++ U ++ L ++ D) s =
  bytes_eq_nocase (P ++ U ++ L ++ D) s || (is_nil D && bytes_eq_nocase (P ++ U) s).
Proof.
  intros P U L D s HP HU HUu HL HD.
  assert (HXl : forall b, In b (P ++ U) -> is_lower b = false).
  { intros b Hb. apply in_app_or in Hb. destruct Hb as [Hb|Hb].
    - destruct HP as [->| ->]; [destruct Hb|]. destruct Hb as [<-|[]]. reflexivity.
    - apply upper_not_lower. eapply all_b_In; eassumption. }
  unfold mnemonic_compare.
  match goal with |- context [Nat.leb ?a ?b] => destruct (Nat.leb_spec a b) as [Hle|Hgt] end.
  2:{ cbn [andb]. symmetry. apply orb_false_iff. split.
      - destruct (bytes_eq_nocase (P ++ U ++ L ++ D) s) eqn:E; [apply eqnc_length in E; lia|reflexivity].
      - destruct (bytes_eq_nocase (P ++ U) s) eqn:E; [|apply andb_false_r].
        apply eqnc_length in E. rewrite !app_length in *. lia. }
  cbn [andb]. rewrite (app_assoc P U (L ++ D)).
  destruct (Nat.ltb_spec (length s) (length (P ++ U))) as [Hshort|Hlong].
  - (* candidate ends inside the head: no match *)
    destruct (exists_last' U HU) as (U' & u & ->).
    assert (Hu : is_upper u = true) by (eapply all_b_In; [eassumption|apply in_or_app; right; left; reflexivity]).
    rewrite (app_assoc P U' [u]) in *. rewrite cmp_loop_head_short by assumption.
    symmetry. apply orb_false_iff. split.
    + destruct (bytes_eq_nocase _ s) eqn:E; [|reflexivity]. apply eqnc_length in E. rewrite !app_length in *. lia.
    + destruct (bytes_eq_nocase ((P ++ U') ++ [u]) s) eqn:E; [|apply andb_false_r]. apply eqnc_length in E. lia.
  - rewrite cmp_loop_head by assumption.
    rewrite cmp_loop_tail; [|assumption|assumption|].
    2:{ rewrite skipn_length. rewrite !app_length in *. lia. }
    rewrite (eqnc_app (P ++ U) (L ++ D) s). rewrite (proj2 (Nat.leb_le _ _) Hlong), andb_true_r.
    set (h := bytes_eq_nocase (P ++ U) (firstn (length (P ++ U)) s)).
    set (t := bytes_eq_nocase (L ++ D) (skipn (length (P ++ U)) s)).
    (* eqnc (P++U) s  <->  head matches and nothing follows *)
    assert (Hs : bytes_eq_nocase (P ++ U) s = h && is_nil (skipn (length (P ++ U)) s)).
    { subst h. rewrite <- (firstn_skipn (length (P ++ U)) s) at 1.
      pose proof (eqnc_app (P ++ U) [] (firstn (length (P ++ U)) s ++ skipn (length (P ++ U)) s)) as E.
      rewrite app_nil_r in E. rewrite E. clear E.
      rewrite firstn_app, firstn_firstn, Nat.min_id, firstn_length_le by assumption.
      rewrite Nat.sub_diag. cbn [firstn]. rewrite app_nil_r.
      rewrite skipn_app, firstn_length_le by assumption. rewrite Nat.sub_diag. cbn [skipn].
      rewrite skipn_all2 by (rewrite firstn_length_le by assumption; lia). cbn [app].
      assert (Nat.leb (length (P ++ U)) (length (firstn (length (P ++ U)) s ++ skipn (length (P ++ U)) s)) = true) as ->.
      { apply Nat.leb_le. rewrite firstn_skipn. assumption. }
      rewrite andb_true_r. destruct (skipn (length (P ++ U)) s); reflexivity. }
    rewrite Hs. destruct h, t, (is_nil (skipn (length (P ++ U)) s)), (is_nil D); reflexivity.
Qed.

(* ---------- strip_digits ---------- *)
Lemma strip_digits_all : forall d, all_b is_digit d = true -> strip_digits d = ([], d).
Proof. induction d as [|c d IH]; cbn; intro H; [reflexivity|].
  apply andb_prop in H. destruct H as [Hc Hd]. rewrite IH by assumption. rewrite Hc. reflexivity. Qed.

Lemma strip_digits_app : forall b' c d, is_digit c = false -> all_b is_digit d = true ->
  strip_digits ((b' ++ [c]) ++ d) = (b' ++ [c], d).
Proof. induction b' as [|x b' IH]; intros c d Hc Hd.
  - cbn [app strip_digits]. rewrite strip_digits_all by assumption. rewrite Hc. reflexivity.
  - cbn [app strip_digits]. rewrite IH by assumption. destruct b'; reflexivity. Qed.

Lemma strip_digits_inv : forall x b d, strip_digits x = (b, d) ->
  x = b ++ d /\ all_b is_digit d = true /\ (b = [] \/ exists b' c, b = b' ++ [c] /\ is_digit c = false).
Proof. induction x as [|y x IH]; intros b d H.
  - cbn in H. inversion H; subst. cbn. auto.
  - cbn [strip_digits] in H. destruct (strip_digits x) as [b0 d0] eqn:E.
    destruct (IH b0 d0 eq_refl) as (Hx & Hd & Hb).
    destruct b0 as [|z b0].
    + destruct (is_digit y) eqn:Ey; inversion H; subst; cbn [app] in *.
      * repeat split; auto. cbn. rewrite Ey. assumption.
      * repeat split; auto. right. exists [], y. auto.
    + inversion H; subst. cbn [app]. repeat split; auto. right.
      destruct Hb as [Hb|(b' & c & Hb & Hc)]; [discriminate|].
      exists (y :: b'), c. rewrite Hb. auto. Qed.

Lemma strip_digits_body : forall x b d, strip_digits x = (b, d) -> strip_digits b = (b, []).
Proof. intros x b d H. apply strip_digits_inv in H. destruct H as (_ & _ & [->|(b' & c & -> & Hc)]).
  - reflexivity.
  - rewrite <- (app_nil_r (b' ++ [c])) at 1. apply strip_digits_app; auto. Qed.

(* case-insensitive equality factors through the (body, suffix) decomposition *)
Lemma eqnc_strip_fwd : forall a b ab ad bb bd, bytes_eq_nocase a b = true ->
  strip_digits a = (ab, ad) -> strip_digits b = (bb, bd) -> bytes_eq_nocase ab bb = true /\ ad = bd.
Proof. induction a as [|x a IH]; intros b ab ad bb bd He Ha Hb.
  - destruct b; [|discriminate]. cbn in *. inversion Ha; inversion Hb; subst. auto.
  - destruct b as [|y b]; [discriminate|]. cbn [bytes_eq_nocase] in He. apply andb_prop in He. destruct He as [Hxy He].
    cbn [strip_digits] in Ha, Hb.
    destruct (strip_digits a) as [ab' ad'] eqn:Ea. destruct (strip_digits b) as [bb' bd'] eqn:Eb.
    destruct (IH b ab' ad' bb' bd' He eq_refl Eb) as [Hbody ->].
    destruct (eq_nocase_class _ _ Hxy) as [Hdig _].
    destruct ab' as [|p ab']; destruct bb' as [|q bb']; try discriminate.
    + rewrite <- Hdig in Hb. destruct (is_digit x) eqn:Ex; inversion Ha; inversion Hb; subst.
      * split; [reflexivity|]. f_equal. symmetry. eapply eq_nocase_digit_l; eassumption.
      * split; [|reflexivity]. cbn. rewrite Hxy. reflexivity.
    + inversion Ha; inversion Hb; subst. split; [|reflexivity]. cbn [bytes_eq_nocase]. rewrite Hxy. exact Hbody. Qed.

Lemma eqnc_refl : forall a, bytes_eq_nocase a a = true.
Proof. induction a; cbn; [reflexivity|]. rewrite eq_nocase_refl. assumption. Qed.

Lemma eqnc_strip : forall a b ab ad bb bd,
  strip_digits a = (ab, ad) -> strip_digits b = (bb, bd) ->
  bytes_eq_nocase a b = bytes_eq_nocase ab bb && bytes_eqb ad bd.
Proof. intros a b ab ad bb bd Ha Hb. apply eq_true_iff_eq. split; intro H.
  - destruct (eqnc_strip_fwd _ _ _ _ _ _ H Ha Hb) as [-> ->]. rewrite bytes_eqb_refl. reflexivity.
  - apply andb_prop in H. destruct H as [H1 H2]. apply bytes_eqb_eq in H2. subst bd.
    apply strip_digits_inv in Ha, Hb. destruct Ha as (-> & _ & _). destruct Hb as (-> & _ & _).
    rewrite eqnc_app. pose proof (eqnc_length _ _ H1) as Hl.
    rewrite Hl, firstn_app, Nat.sub_diag, firstn_all, skipn_app, Nat.sub_diag, skipn_all. cbn [firstn skipn app].
    rewrite app_nil_r, H1, eqnc_refl. cbn. apply Nat.leb_le. rewrite app_length. lia. Qed.

(* ---------- mnemonic_split_index in terms of strip_digits ---------- *)
Lemma rposition_strip : forall m b d, strip_digits m = (b, d) ->
  rposition (fun p => negb (is_digit p)) m = if is_nil b then None else Some (length b - 1)%nat.
Proof. induction m as [|x m IH]; intros b d H.
  - cbn in H. inversion H; subst. reflexivity.
  - cbn [strip_digits] in H. destruct (strip_digits m) as [b0 d0] eqn:E. cbn [rposition].
    rewrite (IH b0 d0 eq_refl). destruct b0 as [|z b0]; cbn [is_nil].
    + destruct (is_digit x); inversion H; subst; reflexivity.
    + inversion H; subst. cbn [is_nil length]. f_equal. lia. Qed.

Lemma split_index_strip : forall m b d, strip_digits m = (b, d) ->
  mnemonic_split_index m = if is_nil b || is_nil d then None else Some (b, d).
Proof. intros m b d H. unfold mnemonic_split_index. rewrite (rposition_strip m b d H).
  apply strip_digits_inv in H. destruct H as (-> & _ & _).
  destruct b as [|x b]; [reflexivity|]. cbn [is_nil orb]. rewrite app_length. cbn [length].
  destruct d as [|y d]; cbn [is_nil length].
  - replace (S (length b) - 1 =? S (length b) + 0 - 1)%nat with true by (symmetry; apply Nat.eqb_eq; lia). reflexivity.
  - replace (S (length b) - 1 =? S (length b) + S (length d) - 1)%nat with false by (symmetry; apply Nat.eqb_neq; lia).
    replace (S (length b) - 1 + 1)%nat with (length (x :: b)) by (cbn; lia).
    rewrite firstn_app, Nat.sub_diag, firstn_all, skipn_app, Nat.sub_diag, skipn_all. cbn [firstn skipn app].
    rewrite app_nil_r. reflexivity. Qed.

(* ---------- the shape of a definition ---------- *)
Lemma short_of_head : forall X L, (forall b, In b X -> is_lower b = false) -> all_b is_lower L = true ->
  short_of (X ++ L) = X.
Proof. induction X as [|b X IH]; intros L HX HL.
  - destruct L as [|l L]; [reflexivity|]. cbn in *. apply andb_prop in HL. destruct HL as [-> _]. reflexivity.
  - cbn [app short_of]. rewrite (HX b (or_introl eq_refl)). f_equal. apply IH; [|assumption].
    intros b' Hb'. apply HX. right. assumption. Qed.

Lemma body_last_nondigit : forall P U L, (P = [] \/ P = [42]) -> U <> [] -> all_b is_upper U = true ->
  all_b is_lower L = true -> exists B' c, P ++ U ++ L = B' ++ [c] /\ is_digit c = false.
Proof. intros P U L HP HU HUu HL.
  destruct (exists_last' (U ++ L)) as (B' & c & E). { destruct U; [congruence|discriminate]. }
  exists (P ++ B'), c. rewrite E, app_assoc. split; [reflexivity|].
  assert (Hin : In c (U ++ L)) by (rewrite E; apply in_or_app; right; left; reflexivity).
  apply in_app_or in Hin. destruct Hin as [Hin|Hin].
  - apply upper_not_digit. eapply all_b_In; eassumption.
  - apply lower_not_digit. eapply all_b_In; eassumption. Qed.

Lemma bytes_eqb_sym : forall a b, bytes_eqb a b = bytes_eqb b a.
Proof. induction a as [|x a IH]; destruct b as [|y b]; cbn; try reflexivity. rewrite IH, N.eqb_sym. reflexivity. Qed.

Lemma eqnc_nil_r : forall a, bytes_eq_nocase a [] = is_nil a.
Proof. destruct a; reflexivity. Qed.

(* ---------- main theorem ---------- *)
Theorem match_iff_spec : forall def cand, scpi_shape def ->
  mnemonic_match def cand = match_spec def cand.
Proof.
  intros def cand (P & U & L & D & -> & HP & HU & HUu & HL & HD).
  destruct (body_last_nondigit P U L HP HU HUu HL) as (B' & c & EB & Hc).
  assert (HXl : forall b, In b (P ++ U) -> is_lower b = false).
  { intros b Hb. apply in_app_or in Hb. destruct Hb as [Hb|Hb].
    - destruct HP as [->| ->]; [destruct Hb|]. destruct Hb as [<-|[]]. reflexivity.
    - apply upper_not_lower. eapply all_b_In; eassumption. }
  assert (Hdef : strip_digits (P ++ U ++ L ++ D) = (P ++ U ++ L, D)).
  { replace (P ++ U ++ L ++ D) with ((P ++ U ++ L) ++ D) by (rewrite <- !app_assoc; reflexivity).
    rewrite EB. apply strip_digits_app; assumption. }
  assert (HB : strip_digits (P ++ U ++ L) = (P ++ U ++ L, [])) by (eapply strip_digits_body; eassumption).
  assert (HPU : strip_digits (P ++ U) = (P ++ U, [])).
  { destruct (exists_last' U HU) as (U' & u & ->). rewrite app_assoc.
    rewrite <- (app_nil_r ((P ++ U') ++ [u])) at 1. apply strip_digits_app; [|reflexivity].
    apply upper_not_digit. eapply all_b_In; [eassumption|]. apply in_or_app. right. left. reflexivity. }
  assert (Hshort : short_of (P ++ U ++ L) = P ++ U) by (rewrite app_assoc; apply short_of_head; assumption).
  assert (HBne : is_nil (P ++ U ++ L) = false) by (rewrite EB; destruct B'; reflexivity).
  assert (HPUne : is_nil (P ++ U) = false) by (destruct P; [destruct U; [congruence|reflexivity]|reflexivity]).
  destruct (strip_digits cand) as [cb cs] eqn:Ecand.
  assert (Hcb : strip_digits cb = (cb, [])) by (eapply strip_digits_body; eassumption).
  unfold mnemonic_match, match_spec. rewrite Hdef, Ecand, Hshort.
  rewrite (split_index_strip _ _ _ Hdef), (split_index_strip _ _ _ Ecand), HBne. cbn [orb].
  (* every comparison, through compare_shape and eqnc_strip *)
  rewrite (compare_shape P U L D cand HP HU HUu HL HD).
  rewrite (eqnc_strip _ _ _ _ _ _ Hdef Ecand), (eqnc_strip _ _ _ _ _ _ HPU Ecand).
  set (e1 := bytes_eq_nocase (P ++ U ++ L) cb). set (e2 := bytes_eq_nocase (P ++ U) cb).
  assert (Hcmp_cb : mnemonic_compare (P ++ U ++ L ++ D) cb = (e1 && is_nil D) || (is_nil D && e2)).
  { rewrite (compare_shape P U L D cb HP HU HUu HL HD).
    rewrite (eqnc_strip _ _ _ _ _ _ Hdef Hcb), (eqnc_strip _ _ _ _ _ _ HPU Hcb). fold e1 e2.
    destruct D; cbn; rewrite ?andb_true_r; reflexivity. }
  assert (HcmpB : forall x xb xs, strip_digits x = (xb, xs) ->
            mnemonic_compare (P ++ U ++ L) x =
            (bytes_eq_nocase (P ++ U ++ L) xb || bytes_eq_nocase (P ++ U) xb) && is_nil xs).
  { intros x xb xs Hx. pose proof (compare_shape P U L [] x HP HU HUu HL eq_refl) as E.
    rewrite app_nil_r in E. rewrite E.
    rewrite (eqnc_strip _ _ _ _ _ _ HB Hx), (eqnc_strip _ _ _ _ _ _ HPU Hx).
    destruct xs; cbn; rewrite ?andb_true_r, ?andb_false_r; reflexivity. }
  (* e1, e2 are false on an empty candidate body *)
  assert (He1 : is_nil cb = true -> e1 = false).
  { intro Hn. destruct cb; [|discriminate]. subst e1. rewrite eqnc_nil_r. exact HBne. }
  assert (He2 : is_nil cb = true -> e2 = false).
  { intro Hn. destruct cb; [|discriminate]. subst e2. rewrite eqnc_nil_r. exact HPUne. }
  unfold norm_suffix, one.
  destruct D as [|d0 D]; destruct cs as [|c0 cs]; destruct cb as [|b0 cb];
    cbn [is_nil orb andb bytes_eqb];
    rewrite ?Hcmp_cb, ?(HcmpB _ _ _ Ecand), ?(HcmpB _ _ _ Hcb); fold e1 e2;
    cbn [is_nil orb andb bytes_eqb];
    try (rewrite (He1 eq_refl), (He2 eq_refl));
    rewrite ?(bytes_eqb_sym [49]); cbn [bytes_eqb];
    destruct e1, e2; cbn [orb andb]; rewrite ?andb_true_r, ?andb_false_r, ?orb_false_r, ?orb_true_r;
    try reflexivity.
  all: try (rewrite (N.eqb_sym c0 49); destruct cs; reflexivity).
  all: apply orb_diag.
Qed.

(* keywords (MAXimum, INFinity, DEFault, ...): exactly the short and the long form, any case *)
Theorem compare_keyword : forall U L s, keyword_shape U L ->
  mnemonic_compare (U ++ L) s = bytes_eq_nocase (U ++ L) s || bytes_eq_nocase U s.
Proof.
  intros U L s (HU & HUu & HL).
  pose proof (compare_shape [] U L [] s (or_introl eq_refl) HU HUu HL eq_refl) as E.
  cbn [app is_nil andb] in E. rewrite app_nil_r in E. exact E.
Qed.

(* Prop reading of the spec *)
Theorem match_iff : forall def cand, scpi_shape def ->
  (mnemonic_match def cand = true <->
   exists db ds cb cs, strip_digits def = (db, ds) /\ strip_digits cand = (cb, cs) /\
     norm_suffix ds = norm_suffix cs /\
     (bytes_eq_nocase (short_of db) cb = true \/ bytes_eq_nocase db cb = true)).
Proof.
  intros def cand Hs. rewrite (match_iff_spec def cand Hs). unfold match_spec.
  destruct (strip_digits def) as [db ds]. destruct (strip_digits cand) as [cb cs]. split.
  - intro H. apply andb_prop in H. destruct H as [H1 H2]. apply bytes_eqb_eq in H1. apply orb_prop in H2.
    exists db, ds, cb, cs. auto.
  - intros (db' & ds' & cb' & cs' & E1 & E2 & Hn & Ho). inversion E1; inversion E2; subst.
    apply andb_true_intro. split; [apply bytes_eqb_eq; assumption|]. apply orb_true_intro. assumption.
Qed.
