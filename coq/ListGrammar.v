(* ListGrammar.v — the SCPI-99 section 8.3 list grammars as ASTs with renderers and the entry
   sequences they denote.  SPECIFICATION side of C19: nothing here mentions the iterators'
   algorithm.  Spec file: no proofs. *)
From VF Require Import Base Fmt Lexer Grammar Lists.
Open Scope N_scope.

(* ---- numeric list: entries are numbers or a:b ranges, separated by commas ---- *)
Inductive nl_ast := NLNum (n : number) | NLRange (a b : number).
Definition render_nl_entry (e : nl_ast) : list byte :=
  match e with NLNum n => render_number n | NLRange a b => render_number a ++ 58 :: render_number b end.
Definition render_nl (l : list nl_ast) : list byte := intercalate [44] (map render_nl_entry l).
Definition nl_denotes (e : nl_ast) : nentry :=
  match e with NLNum n => NNum (render_number n) | NLRange a b => NRange (render_number a) (render_number b) end.
Definition wf_nl_entry (e : nl_ast) : bool :=
  match e with NLNum n => wf_number n | NLRange a b => wf_number a && wf_number b end.

(* ---- channel list: `@` then specs, ranges of specs, quoted path names ---- *)
(* a channel spec: 1..n dimension values, written in canonical decimal, joined by `!` *)
Definition render_spec (vals : list Z) : list byte := intercalate [33] (map fmt_Z vals).
Inductive cl_ast := CLSpec (vals : list Z) | CLRange (a b : list Z) | CLPath (q : byte) (body : list byte).
Definition render_cl_entry (e : cl_ast) : list byte :=
  match e with
  | CLSpec v => render_spec v
  | CLRange a b => render_spec a ++ 58 :: render_spec b
  | CLPath q body => q :: double_q q body ++ [q]
  end.
Definition render_cl (l : list cl_ast) : list byte := 64 :: intercalate [44] (map render_cl_entry l).
Definition spec_of (vals : list Z) : cspec := mkSpec (render_spec vals) (length vals).
Definition cl_denotes (e : cl_ast) : centry :=
  match e with
  | CLSpec v => CSpec (spec_of v)
  | CLRange a b => CRange (spec_of a) (spec_of b)
  | CLPath q body => CPath (double_q q body)          (* zero-copy: the bytes between the quotes *)
  end.
Definition isize_ok (z : Z) : bool := ((isize_min <=? z) && (z <=? isize_max))%Z.
Definition wf_vals (v : list Z) : bool := negb (Nat.eqb (length v) 0) && forallb isize_ok v.
Definition wf_cl_entry (e : cl_ast) : bool :=
  match e with
  | CLSpec v => wf_vals v
  | CLRange a b => wf_vals a && wf_vals b && Nat.eqb (length a) (length b)
  | CLPath q body => ((q =? 34) || (q =? 39)) && forallb is_ascii body
  end.
