(* SuffixSpec.v — what a SCPI unit suffix MEANS (SCPI-99 vol. 1, 7.1.1 and table 7-1), written by hand
   from the standard, and what a uom unit name means (SI prefixes and named units).  Specification
   side of C18: the library's own tables (Gen_Suffix.v, regenerated from the source) are checked
   against it.  Spec file: no proofs. *)
From Coq Require Import QArith String Ascii.
From VF Require Import Base.
Open Scope string_scope.
Open Scope Q_scope.

(* a linear unit: value_in_SI = v * factor + offset *)
Definition lin := (Q * Q)%type.
Definition ten (p : Z) : Q := Qpower 10 p%Z.
Definition scale (f : Q) : lin := (f, 0%Q).

(* ---- uom unit names ---- *)
Definition si_prefix_words : list (string * Z) :=
  [("giga", 9); ("mega", 6); ("kilo", 3); ("milli", -3); ("micro", -6); ("nano", -9); ("pico", -12)]%Z.
(* coherent SI units: quantity -> its unit word *)
Definition si_unit_word (q : string) : option string :=
  match q with
  | "ElectricPotential" => Some "volt" | "ElectricCurrent" => Some "ampere" | "ElectricalResistance" => Some "ohm"
  | "Capacitance" => Some "farad" | "Inductance" => Some "henry" | "Frequency" => Some "hertz" | "Time" => Some "second"
  | "Power" => Some "watt" | "Energy" => Some "joule" | "ElectricCharge" => Some "coulomb" | "ElectricalConductance" => Some "siemens"
  | "Angle" => Some "radian" | "Ratio" => Some "ratio" | "ThermodynamicTemperature" => Some "kelvin"
  | _ => None
  end.
Definition pi_q : Q := (3141592653589793 # 1000000000000000).
(* named (non-prefixed or derived) units, per quantity *)
Definition named_unit (q u : string) : option lin :=
  match q, u with
  | "Time", "minute" => Some (scale 60) | "Time", "hour" => Some (scale 3600) | "Time", "day" => Some (scale 86400)
  | "Time", "year" => Some (scale 31536000)
  | "Angle", "degree" => Some (scale (pi_q / 180)) | "Angle", "minute" => Some (scale (pi_q / 10800))
  | "Angle", "second" => Some (scale (pi_q / 648000)) | "Angle", "revolution" => Some (scale (2 * pi_q))
  | "Angle", "gon" => Some (scale (pi_q / 200))
  | "Ratio", "percent" => Some (scale (1 # 100)) | "Ratio", "part_per_million" => Some (scale (1 # 1000000))
  | "ThermodynamicTemperature", "degree_celsius" => Some (1, 27315 # 100)
  | "ThermodynamicTemperature", "degree_fahrenheit" => Some (5 # 9, (45967 # 100) * (5 # 9))
  | "Energy", "electronvolt" => Some (scale ((1602176634 # 1000000000) * ten (-19)))
  | "Energy", "watt_hour" => Some (scale 3600) | "Energy", "milliwatt_hour" => Some (scale (3600 * ten (-3)))
  | "Energy", "megawatt_hour" => Some (scale (3600 * ten 6))
  | "ElectricCharge", "ampere_hour" => Some (scale 3600) | "ElectricCharge", "milliampere_hour" => Some (scale (3600 * ten (-3)))
  | _, _ => None
  end.

Fixpoint strip_prefix (p s : string) : option string :=
  match p, s with
  | EmptyString, _ => Some s
  | String a p', String b s' => if Ascii.eqb a b then strip_prefix p' s' else None
  | _, _ => None
  end.
(* prefixed coherent unit: `milli` ++ `volt` *)
Fixpoint prefixed (ps : list (string * Z)) (word u : string) : option lin :=
  match ps with
  | [] => None
  | (p, e) :: ps' => match strip_prefix p u with
                     | Some r => if String.eqb r word then Some (scale (ten e)) else prefixed ps' word u
                     | None => prefixed ps' word u
                     end
  end.
Definition uom_unit (q u : string) : option lin :=
  match named_unit q u with
  | Some l => Some l
  | None => match si_unit_word q with
            | Some w => if String.eqb u w then Some (scale 1) else prefixed si_prefix_words w u
            | None => None
            end
  end.

(* ---- SCPI suffixes ---- *)
Fixpoint bytes_of (s : string) : list byte :=
  match s with EmptyString => [] | String a s' => N_of_ascii a :: bytes_of s' end.
(* suffix multipliers, SCPI-99 table 7-1 *)
Definition scpi_multipliers : list (string * Z) :=
  [("EX", 18); ("PE", 15); ("T", 12); ("G", 9); ("MA", 6); ("K", 3); ("M", -3); ("U", -6); ("N", -9); ("P", -12); ("F", -15); ("A", -18)]%Z.
(* unit symbols that take multipliers, per quantity: symbol, meaning of the bare symbol *)
Definition scpi_units (q : string) : list (string * lin) :=
  match q with
  | "ElectricPotential" => [("V", scale 1)] | "ElectricCurrent" => [("A", scale 1)] | "ElectricalResistance" => [("OHM", scale 1)]
  | "Capacitance" => [("F", scale 1)] | "Inductance" => [("H", scale 1)] | "Frequency" => [("HZ", scale 1)] | "Time" => [("S", scale 1)]
  | "Power" => [("W", scale 1)] | "Energy" => [("J", scale 1); ("W.HR", scale 3600)] | "ElectricCharge" => [("C", scale 1); ("A.HR", scale 3600); ("AH", scale 3600)]
  | "ElectricalConductance" => [("SIE", scale 1)]
  | _ => []
  end.
(* suffixes that take no multiplier *)
Definition scpi_plain (q : string) : list (string * lin) :=
  match q with
  | "Time" => [("MIN", scale 60); ("HR", scale 3600); ("D", scale 86400); ("ANN", scale 31536000)]
  | "Angle" => [("RAD", scale 1); ("DEG", scale (pi_q / 180)); ("MNT", scale (pi_q / 10800)); ("SEC", scale (pi_q / 648000));
                ("REV", scale (2 * pi_q)); ("GON", scale (pi_q / 200))]
  | "Ratio" => [("PCT", scale (1 # 100)); ("PPM", scale (1 # 1000000))]
  | "ThermodynamicTemperature" => [("CEL", (1, 27315 # 100)); ("FAR", (5 # 9, (45967 # 100) * (5 # 9))); ("K", scale 1)]
  | "Energy" => [("EV", scale ((1602176634 # 1000000000) * ten (-19))); ("WH", scale 3600)]
  | _ => []
  end.
(* the two exceptions of table 7-1: MHZ and MOHM are mega *)
Definition scpi_exceptions : list (string * string * lin) :=
  [("Frequency", "MHZ", scale (ten 6)); ("ElectricalResistance", "MOHM", scale (ten 6))].

Definition assoc_bytes {A} (l : list (string * A)) (s : list byte) : option A :=
  match find (fun p => bytes_eqb (bytes_of (fst p)) s) l with Some p => Some (snd p) | None => None end.
Definition times (f : Q) (l : lin) : lin := (fst l * f, snd l * f).

(* meaning of an (upper-case) suffix for a quantity: exception, plain suffix, or multiplier ++ unit symbol *)
Definition scpi_suffix (q : string) (s : list byte) : option lin :=
  match find (fun e => String.eqb (fst (fst e)) q && bytes_eqb (bytes_of (snd (fst e))) s) scpi_exceptions with
  | Some e => Some (snd e)
  | None =>
    match assoc_bytes (scpi_plain q) s with
    | Some l => Some l
    | None =>
      match assoc_bytes (scpi_units q) s with
      | Some l => Some l
      | None =>
        (fix go (ms : list (string * Z)) : option lin :=
           match ms with
           | [] => None
           | (m, e) :: ms' =>
             let mb := bytes_of m in
             if Nat.leb (length mb) (length s) && bytes_eqb (firstn (length mb) s) mb then
               match assoc_bytes (scpi_units q) (skipn (length mb) s) with
               | Some l => Some (times (ten e) l)
               | None => go ms'
               end
             else go ms'
           end) scpi_multipliers
      end
    end
  end.

Definition lin_eqb (a b : lin) : bool := Qeq_bool (fst a) (fst b) && Qeq_bool (snd a) (snd b).
(* one table entry (spellings -> uom unit) of quantity q denotes what SCPI says for each spelling *)
Definition entry_ok (q : string) (e : list (list byte) * string) : bool :=
  match uom_unit q (snd e) with
  | Some l => forallb (fun s => match scpi_suffix q s with Some l' => lin_eqb l l' | None => false end) (fst e)
  | None => false
  end.
Definition table_ok (t : string * string * list (list (list byte) * string)) : bool :=
  let '(q, base, ents) := t in
  (* the base unit for bare numbers is a known unit of the quantity, and every entry is right *)
  match uom_unit q base with Some _ => true | None => false end && forallb (entry_ok q) ents.
