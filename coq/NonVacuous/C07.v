(* NonVacuous/C07.v — every C07 theorem with a hypothesis, on concrete literals.
   Each example: hypotheses /\ instantiated conclusion (by applying the theorem).
   The equivalence C07_round_half_away_none is exemplified in both directions.
   Skipped (no implication premise): C07_nondec_exact, C07_int_keywords,
   C07_int_suffix_rejected, C07_dec2sf_correct_f64, C07_dec2sf_correct_f32. *)
From Coq Require Import QArith Qabs Floats.SpecFloat Lia.
From VF Require Import Base Gen_Errors Fmt Lexer Mnemonic Conv Conv_proofs.
From VF.NonVacuous Require Import Common.
From VF.Properties Require C07.
Import C07.
Open Scope N_scope.

(* "2.5" read as an i16: the tie goes away from zero *)
Example C07_int_conv_correct_nonvacuous :
  let s := bs "2.5" in
  parse_nrf s = Some (false, 25, (-1)%Z) /\
  (exists r, conv_int I16 (TDec s) = Val r /\
     int_conv_ok I16 (lit2Q false 25 (-1)) (dec2sf (f_prec (ity_float I16)) (f_emax (ity_float I16)) false 25 (-1)) r) /\
  conv_int I16 (TDec s) = Val (Ok 3%Z).
Proof.
  intro s. assert (h : parse_nrf s = Some (false, 25, (-1)%Z)) by (vm_compute; reflexivity).
  exact (conj h (conj (C07_int_conv_correct I16 s false 25 (-1)%Z h) eq_refl)).
Qed.
(* ... and one that is out of range: "-4.0e4" as an i16 *)
Example C07_int_conv_correct_nonvacuous_range :
  let s := bs "-4.0e4" in
  parse_nrf s = Some (true, 40, 3%Z) /\
  (exists r, conv_int I16 (TDec s) = Val r /\
     int_conv_ok I16 (lit2Q true 40 3) (dec2sf (f_prec (ity_float I16)) (f_emax (ity_float I16)) true 40 3) r) /\
  conv_int I16 (TDec s) = Val (Err DataOutOfRange).
Proof.
  intro s. assert (h : parse_nrf s = Some (true, 40, 3%Z)) by (vm_compute; reflexivity).
  exact (conj h (conj (C07_int_conv_correct I16 s true 40 3%Z h) eq_refl)).
Qed.

(* the float 5 * 2^-1 = 2.5 *)
Example C07_round_half_away_nearest_nonvacuous :
  let f := S754_finite true 5 (-1) in
  let x := (sign_Q true * inject_Z 5 * Qpower 2 (-1))%Q in
  sf_round_half_away f = Some (-3)%Z /\ sf2Q f = Some x /\ nearest (-3) x.
Proof.
  intros f x.
  exact (conj eq_refl (conj eq_refl (C07_round_half_away_nearest f (-3)%Z x eq_refl eq_refl))).
Qed.

Example C07_nr1_exact_nonvacuous :
  let s := bs "-123" in
  lexical_parse_int I16 s = IPValue (-123)%Z /\ parse_nrf s = Some (true, 123, 0%Z) /\
  (lit2Q true 123 0 == inject_Z (-123))%Q.
Proof.
  intro s.
  assert (h1 : lexical_parse_int I16 s = IPValue (-123)%Z) by (vm_compute; reflexivity).
  assert (h2 : parse_nrf s = Some (true, 123, 0%Z)) by (vm_compute; reflexivity).
  exact (conj h1 (conj h2 (C07_nr1_exact I16 s _ _ _ _ h1 h2))).
Qed.

Example C07_nr1_range_nonvacuous :
  let s := bs "+300" in
  lexical_parse_int I8 s = IPRange /\ parse_nrf s = Some (false, 300, 0%Z) /\
  exists z, (lit2Q false 300 0 == inject_Z z)%Q /\ ~ in_range I8 z.
Proof.
  intro s.
  assert (h1 : lexical_parse_int I8 s = IPRange) by (vm_compute; reflexivity).
  assert (h2 : parse_nrf s = Some (false, 300, 0%Z)) by (vm_compute; reflexivity).
  exact (conj h1 (conj h2 (C07_nr1_range I8 s _ _ _ h1 h2))).
Qed.

Example C07_int_result_in_range_nonvacuous :
  let tok := TDec (bs "2.55e2") in
  conv_int U8 tok = Val (Ok 255%Z) /\ in_range U8 255.
Proof.
  intro tok. assert (h : conv_int U8 tok = Val (Ok 255%Z)) by (vm_compute; reflexivity).
  exact (conj h (C07_int_result_in_range U8 tok _ h)).
Qed.

Example C07_int_other_rejected_nonvacuous :
  let tok := TString (bs "12") in
  is_data tok = true /\ (forall s, tok <> TDec s) /\ (forall n, tok <> TNonDec n) /\ (forall s, tok <> TChar s)
  /\ (forall v s, tok <> TDecSuffix v s) /\
  conv_int I32 tok = Val (Err DataTypeError).
Proof.
  intro tok.
  assert (h1 : forall s, tok <> TDec s) by (intros; discriminate).
  assert (h2 : forall n, tok <> TNonDec n) by (intros; discriminate).
  assert (h3 : forall s, tok <> TChar s) by (intros; discriminate).
  assert (h4 : forall v s, tok <> TDecSuffix v s) by (intros; discriminate).
  exact (conj eq_refl (conj h1 (conj h2 (conj h3 (conj h4 (C07_int_other_rejected I32 tok eq_refl h1 h2 h3 h4)))))).
Qed.

Example C07_accept_int_nonvacuous :
  let tok := TChar (bs "maximum") in
  conv_int I32 tok = Val (Ok 2147483647%Z) /\
  ((exists s, tok = TDec s) \/ (exists k, tok = TNonDec k) \/ (exists s, tok = TChar s)).
Proof.
  intro tok. assert (h : conv_int I32 tok = Val (Ok 2147483647%Z)) by (vm_compute; reflexivity).
  exact (conj h (C07_accept_int I32 tok _ h)).
Qed.

(* an equivalence: both sides hold for an infinity; -2.5 rounds to -3 *)
Example C07_round_half_away_none_nonvacuous :
  (sf_round_half_away (S754_infinity true) = None <-> sf2Q (S754_infinity true) = None) /\
  sf2Q (S754_infinity true) = None /\ sf_round_half_away (S754_infinity true) = None /\
  sf_round_half_away (S754_finite true 5 (-1)) = Some (-3)%Z.
Proof.
  pose proof (C07_round_half_away_none (S754_infinity true)) as E.
  split; [exact E|]. split; [reflexivity|]. split; [apply (proj2 E); reflexivity|reflexivity].
Qed.

Print Assumptions C07_int_conv_correct_nonvacuous.
Print Assumptions C07_round_half_away_nearest_nonvacuous.
Print Assumptions C07_nr1_range_nonvacuous.
