(* NonVacuous/C08.v — every C08 theorem with a hypothesis, on concrete tokens.
   Each example: hypotheses /\ instantiated conclusion (by applying the theorem).
   C08_conv_error_codes has its premises inside a conjunction; one instance per conjunct is given.
   Skipped (no implication premise): C08_float_conv_dec, C08_float_keywords, C08_bool_onoff, C08_dec2sf_correct_f64,
   C08_dec2sf_correct_f32, C08_dec_value_sign. *)
From Coq Require Import QArith Qabs Floats.SpecFloat Lia.
From VF Require Import Base Gen_Errors Fmt Lexer Mnemonic Conv Conv_proofs.
From VF.NonVacuous Require Import Common.
From VF.Properties Require C08.
Import C08.
Open Scope N_scope.

(* "0.4" is false, "-0.5" is true *)
Example C08_bool_numeric_nonvacuous :
  let s := bs "0.4" in
  parse_nrf s = Some (false, 4, (-1)%Z) /\ conv_bool (TDec s) = Val (Ok false) /\
  (false = false <-> exists x, sf2Q (dec2sf 53 1024 false 4 (-1)) = Some x /\ (Qabs x < 1 # 2)%Q).
Proof.
  intro s.
  assert (h1 : parse_nrf s = Some (false, 4, (-1)%Z)) by (vm_compute; reflexivity).
  assert (h2 : conv_bool (TDec s) = Val (Ok false)) by (vm_compute; reflexivity).
  exact (conj h1 (conj h2 (C08_bool_numeric s false 4 (-1)%Z false h1 h2))).
Qed.
Example C08_bool_numeric_nonvacuous_true :
  let s := bs "-0.5" in
  parse_nrf s = Some (true, 5, (-1)%Z) /\ conv_bool (TDec s) = Val (Ok true) /\
  (true = false <-> exists x, sf2Q (dec2sf 53 1024 true 5 (-1)) = Some x /\ (Qabs x < 1 # 2)%Q).
Proof.
  intro s.
  assert (h1 : parse_nrf s = Some (true, 5, (-1)%Z)) by (vm_compute; reflexivity).
  assert (h2 : conv_bool (TDec s) = Val (Ok true)) by (vm_compute; reflexivity).
  exact (conj h1 (conj h2 (C08_bool_numeric s true 5 (-1)%Z true h1 h2))).
Qed.

Example C08_bool_numeric_total_nonvacuous :
  let s := bs "1.5E+400" in
  parse_nrf s = Some (false, 15, 399%Z) /\ (exists b, conv_bool (TDec s) = Val (Ok b)) /\ conv_bool (TDec s) = Val (Ok true).
Proof.
  intro s. assert (h1 : parse_nrf s = Some (false, 15, 399%Z)) by (vm_compute; reflexivity).
  exact (conj h1 (conj (C08_bool_numeric_total s false 15 399%Z h1) eq_refl)).
Qed.

Example C08_accept_float_nonvacuous :
  let tok := TDec (bs "-2.5e-1") in let v := S754_finite true 4503599627370496 (-54) in
  conv_float F64 tok = Val (Ok v) /\ ((exists s, tok = TDec s) \/ (exists s, tok = TChar s)).
Proof.
  intros tok v. assert (h : conv_float F64 tok = Val (Ok v)) by (vm_compute; reflexivity).
  exact (conj h (C08_accept_float F64 tok v h)).
Qed.

Example C08_accept_bool_nonvacuous :
  let tok := TChar (bs "oFf") in
  conv_bool tok = Val (Ok false) /\ ((exists s, tok = TDec s) \/ (exists s, tok = TChar s)).
Proof.
  intro tok. assert (h : conv_bool tok = Val (Ok false)) by (vm_compute; reflexivity).
  exact (conj h (C08_accept_bool tok false h)).
Qed.

(* a block holding the UTF-8 text "héllo" converts to &str *)
Example C08_accept_bytes_nonvacuous :
  let s := [104; 195; 169; 108; 108; 111] in let tok := TBlock s in
  conv_bytes BStr tok = Val (Ok s) /\ ((tok = TString s \/ tok = TBlock s) /\ utf8_valid s = true).
Proof.
  intros s tok. assert (h : conv_bytes BStr tok = Val (Ok s)) by (vm_compute; reflexivity).
  exact (conj h (C08_accept_bytes BStr tok s h)).
Qed.

(* one failing conversion per target family *)
Example C08_conv_error_codes_nonvacuous :
  (conv_int U8 (TDec (bs "256")) = Val (Err DataOutOfRange)
   /\ In DataOutOfRange [DataTypeError; SuffixNotAllowed; DataOutOfRange; NumericDataError]) /\
  (conv_float F32 (TDecSuffix (bs "1.5") (bs "V")) = Val (Err SuffixNotAllowed)
   /\ In SuffixNotAllowed [DataTypeError; SuffixNotAllowed; NumericDataError]) /\
  (conv_bool (TChar (bs "MAYBE")) = Val (Err IllegalParameterValue)
   /\ In IllegalParameterValue [DataTypeError; IllegalParameterValue; NumericDataError]) /\
  (conv_bytes BStr (TString [104; 195; 40]) = Val (Err StringDataError)
   /\ In StringDataError [DataTypeError; StringDataError]).
Proof.
  assert (h1 : conv_int U8 (TDec (bs "256")) = Val (Err DataOutOfRange)) by (vm_compute; reflexivity).
  assert (h2 : conv_float F32 (TDecSuffix (bs "1.5") (bs "V")) = Val (Err SuffixNotAllowed)) by (vm_compute; reflexivity).
  assert (h3 : conv_bool (TChar (bs "MAYBE")) = Val (Err IllegalParameterValue)) by (vm_compute; reflexivity).
  assert (h4 : conv_bytes BStr (TString [104; 195; 40]) = Val (Err StringDataError)) by (vm_compute; reflexivity).
  split; [split; [exact h1|exact (proj1 (C08_conv_error_codes _ _) U8 h1)]|].
  split; [split; [exact h2|exact (proj1 (proj2 (C08_conv_error_codes _ _)) F32 h2)]|].
  split; [split; [exact h3|exact (proj1 (proj2 (proj2 (C08_conv_error_codes _ _))) h3)]|].
  split; [exact h4|exact (proj2 (proj2 (proj2 (C08_conv_error_codes _ _))) BStr h4)].
Qed.

Example C08_conv_total_nonvacuous :
  let tok := TDecSuffix (bs "1.5e3") (bs "mV") in
  is_data tok = true /\
  ((forall t, exists r, conv_int t tok = Val r) /\ (forall t, exists r, conv_float t tok = Val r)
   /\ (exists r, conv_bool tok = Val r) /\ (forall t, exists r, conv_bytes t tok = Val r)).
Proof. intro tok. exact (conj eq_refl (C08_conv_total tok eq_refl)). Qed.

(* the Flocq statements with a premise: 1.5 = 15 * 10^-1 *)
From Coq Require Import Reals.
From Flocq Require Import Core.Core IEEE754.BinarySingleNaN.
From VF Require Import Float_proofs.
Local Open Scope Z_scope.

Example C08_dec2sf_core_correct_f64_nonvacuous :
  (-1) <> 0 /\
  (let x := dec_value true 15 (-1) in
   let r := round radix2 (FLT_exp (-1074) 53) ZnearestE x in
   if Rlt_bool (Rabs r) (bpow radix2 1024)
   then SF2R radix2 (dec2sf_core 53 1024 true 15 (-1)) = r
        /\ is_finite_SF (dec2sf_core 53 1024 true 15 (-1)) = true
   else dec2sf_core 53 1024 true 15 (-1) = S754_infinity true) /\
  dec2sf_core 53 1024 true 15 (-1) = S754_finite true 6755399441055744 (-52).
Proof.
  assert (h : (-1) <> 0) by discriminate.
  split; [exact h|]. split; [exact (C08_dec2sf_core_correct_f64 true 15 (-1) h)|vm_compute; reflexivity].
Qed.

Example C08_dec2sf_core_correct_f32_nonvacuous :
  40 <> 0 /\
  (let x := dec_value false 1 40 in
   let r := round radix2 (FLT_exp (-149) 24) ZnearestE x in
   if Rlt_bool (Rabs r) (bpow radix2 128)
   then SF2R radix2 (dec2sf_core 24 128 false 1 40) = r
        /\ is_finite_SF (dec2sf_core 24 128 false 1 40) = true
   else dec2sf_core 24 128 false 1 40 = S754_infinity false) /\
  dec2sf_core 24 128 false 1 40 = S754_infinity false.       (* 1e40 overflows binary32 *)
Proof.
  assert (h : 40 <> 0) by discriminate.
  split; [exact h|]. split; [exact (C08_dec2sf_core_correct_f32 false 1 40 h)|vm_compute; reflexivity].
Qed.

Print Assumptions C08_bool_numeric_nonvacuous.
Print Assumptions C08_accept_bytes_nonvacuous.
Print Assumptions C08_conv_error_codes_nonvacuous.
Print Assumptions C08_dec2sf_core_correct_f64_nonvacuous.
