(* NonVacuous/C04.v — every C04 theorem with a hypothesis, on concrete inputs.
   Each example: hypotheses /\ instantiated conclusion (the conclusion by applying the theorem).
   Skipped (no hypothesis): C04_lex_total, C04_lex_params_total, C04_doubled_colon, C04_colon_in_data,
   C04_colon_in_common, C04_comma_in_header. *)
From VF Require Import Base Gen_Errors Fmt Lexer Grammar Lexer_proofs Grammar_proofs.
From Coq Require Import Lia.
From VF.NonVacuous Require Import Common.
From VF.Properties Require C04.
Import C04.
Open Scope N_scope.

(* the three-unit message of Common.v *)
Example C04_lex_faithful_nonvacuous :
  wf_msg ex_msg = true /\ tokenize (render_msg ex_msg) = Val (map IOk (tokens_of ex_msg)).
Proof. exact (conj ex_msg_wf (C04_lex_faithful ex_msg ex_msg_wf)). Qed.
Example C04_lex_faithful_nonvacuous_value :
  tokens_of ex_msg =
  [THeaderMnemonicSeparator; TMnemonic (bs "SOURce"); THeaderMnemonicSeparator; TMnemonic (bs "VOLT"); THeaderSeparator;
   TDecSuffix (bs "-1.50E+3") (bs "mV"); TDataSeparator; TChar (bs "MAX"); TUnitSeparator;
   TMnemonic (bs "FREQ"); THeaderQuerySuffix; THeaderSeparator; TNonDec 255; TDataSeparator; TString (bs "a''b");
   TUnitSeparator; TMnemonic (bs "*IDN"); THeaderSeparator; TBlock (bs "hello"); TDataSeparator; TExpr (bs "1:3")].
Proof. vm_compute. reflexivity. Qed.

Example C04_lex_progress_nonvacuous :
  let l := mkLexer (bs "1.5e3 V, 2") false false in
  let l' := mkLexer (bs ", 2") false false in
  lex_next l = Val (STok (TDecSuffix (bs "1.5e3") (bs "V")) l') /\ (length (chars l') < length (chars l))%nat.
Proof.
  intros l l'.
  assert (h : lex_next l = Val (STok (TDecSuffix (bs "1.5e3") (bs "V")) l')) by (vm_compute; reflexivity).
  exact (conj h (C04_lex_progress _ _ _ h)).
Qed.

(* a stream that ends in an error item: "VOLT 1,,2" *)
Example C04_tokenize_shape_nonvacuous :
  let l := lexer_new (bs "VOLT 1,,2") in
  let ts := [IOk (TMnemonic (bs "VOLT")); IOk THeaderSeparator; IOk (TDec (bs "1")); IErr SyntaxError] in
  tokenize_from l = Val ts /\
  exists toks, ts = map IOk toks \/ exists e, ts = map IOk toks ++ [IErr e].
Proof.
  intros l ts.
  assert (h : tokenize_from l = Val ts) by (vm_compute; reflexivity).
  exact (conj h (C04_tokenize_shape _ _ h)).
Qed.

Example C04_lex_error_class_nonvacuous :
  let l := mkLexer (bs "#HFFFFFFFFFFFFFFFFF") false false in      (* 17 hex digits: beyond u64 *)
  lex_next l = Val (SErr DataOutOfRange) /\ ((-199 <= DataOutOfRange <= -100)%Z \/ DataOutOfRange = DataOutOfRange).
Proof.
  intro l.
  assert (h : lex_next l = Val (SErr DataOutOfRange)) by (vm_compute; reflexivity).
  exact (conj h (C04_lex_error_class _ _ h)).
Qed.
Example C04_lex_error_class_nonvacuous2 :
  let l := mkLexer (bs "1.5 V V") false false in
  lex_next l = Val (SErr InvalidSuffix) /\ ((-199 <= InvalidSuffix <= -100)%Z \/ InvalidSuffix = DataOutOfRange).
Proof.
  intro l.
  assert (h : lex_next l = Val (SErr InvalidSuffix)) by (vm_compute; reflexivity).
  exact (conj h (C04_lex_error_class _ _ h)).
Qed.

Definition m13 : list byte := bs "MEASurement_1".
Lemma m13_hyps : (length m13 = 13)%nat /\ (exists x m', m13 = x :: m' /\ is_alpha x = true)
  /\ forallb is_mnemonic_char m13 = true.
Proof. split; [reflexivity|]. split; [eexists _, _; split; reflexivity|vm_compute; reflexivity]. Qed.

Example C04_mnemonic_13_nonvacuous :
  ((length m13 = 13)%nat /\ (exists x m', m13 = x :: m' /\ is_alpha x = true) /\ forallb is_mnemonic_char m13 = true) /\
  lex_next (mkLexer (m13 ++ bs ":X 1") true false) = Val (SErr ProgramMnemonicTooLong).
Proof.
  destruct m13_hyps as (h1 & h2 & h3).
  exact (conj (conj h1 (conj h2 h3)) (C04_mnemonic_13 m13 (bs ":X 1") false h1 h2 h3)).
Qed.

Example C04_chardata_13_nonvacuous :
  ((length m13 = 13)%nat /\ (exists x m', m13 = x :: m' /\ is_alpha x = true) /\ forallb is_mnemonic_char m13 = true) /\
  lex_next (mkLexer (m13 ++ bs ",2") false false) = Val (SErr CharacterDataTooLong).
Proof.
  destruct m13_hyps as (h1 & h2 & h3).
  exact (conj (conj h1 (conj h2 h3)) (C04_chardata_13 m13 (bs ",2") false h1 h2 h3)).
Qed.

Example C04_unterminated_string_nonvacuous :
  let q := 39 in let body := bs "ab ""c" in
  ((q =? 34) || (q =? 39)) = true /\ forallb (fun b => negb (b =? q) && is_ascii b) body = true /\
  lex_next (mkLexer (q :: body) false false) = Val (SErr InvalidStringData).
Proof.
  intros q body.
  assert (h1 : ((q =? 34) || (q =? 39)) = true) by reflexivity.
  assert (h2 : forallb (fun b => negb (b =? q) && is_ascii b) body = true) by (vm_compute; reflexivity).
  exact (conj h1 (conj h2 (C04_unterminated_string q body false h1 h2))).
Qed.

Example C04_non_ascii_in_string_nonvacuous :
  let q := 34 in let pre := bs "caf" in let b := 233 in let rest := bs """,1" in
  ((q =? 34) || (q =? 39)) = true /\ forallb (fun b => negb (b =? q) && is_ascii b) pre = true /\ is_ascii b = false /\
  lex_next (mkLexer (q :: pre ++ b :: rest) false true) = Val (SErr InvalidCharacter).
Proof.
  intros q pre b rest.
  assert (h1 : ((q =? 34) || (q =? 39)) = true) by reflexivity.
  assert (h2 : forallb (fun b => negb (b =? q) && is_ascii b) pre = true) by (vm_compute; reflexivity).
  assert (h3 : is_ascii b = false) by reflexivity.
  exact (conj h1 (conj h2 (conj h3 (C04_non_ascii_in_string q pre b rest true h1 h2 h3)))).
Qed.

Example C04_non_ascii_outside_nonvacuous :
  is_ascii 200 = false /\ lex_next (mkLexer (200 :: bs "VOLT 1") true false) = Val (SErr InvalidCharacter).
Proof. exact (conj eq_refl (C04_non_ascii_outside 200 (bs "VOLT 1") true false eq_refl)). Qed.

(* "#212hello": the length field announces 12 bytes, 5 follow *)
Example C04_block_truncated_nonvacuous :
  let lenfield := bs "12" in let payload := bs "hello" in let nd := 50 in
  (1 <= length lenfield <= 9)%nat /\ nd = 48 + N.of_nat (length lenfield) /\ forallb is_digit lenfield = true /\
  N.of_nat (length payload) < fst (radix_digits 10 lenfield 0 0) /\
  lex_next (mkLexer (35 :: nd :: lenfield ++ payload) false false) = Val (SErr InvalidBlockData).
Proof.
  intros lenfield payload nd.
  assert (h1 : (1 <= length lenfield <= 9)%nat) by (cbn; lia).
  assert (h2 : nd = 48 + N.of_nat (length lenfield)) by reflexivity.
  assert (h3 : forallb is_digit lenfield = true) by (vm_compute; reflexivity).
  assert (h4 : N.of_nat (length payload) < fst (radix_digits 10 lenfield 0 0)) by (vm_compute; reflexivity).
  exact (conj h1 (conj h2 (conj h3 (conj h4 (C04_block_truncated nd lenfield payload false h1 h2 h3 h4))))).
Qed.

(* "#21xhello": a non-digit in the length field *)
Example C04_block_bad_header_nonvacuous :
  let lenfield := bs "1x" in let rest := bs "hello,2" in let nd := 50 in
  (1 <= length lenfield <= 9)%nat /\ nd = 48 + N.of_nat (length lenfield) /\ forallb is_digit lenfield = false /\
  lex_next (mkLexer (35 :: nd :: lenfield ++ rest) false false) = Val (SErr InvalidBlockData).
Proof.
  intros lenfield rest nd.
  assert (h1 : (1 <= length lenfield <= 9)%nat) by (cbn; lia).
  assert (h2 : nd = 48 + N.of_nat (length lenfield)) by reflexivity.
  assert (h3 : forallb is_digit lenfield = false) by (vm_compute; reflexivity).
  exact (conj h1 (conj h2 (conj h3 (C04_block_bad_header nd lenfield rest false h1 h2 h3)))).
Qed.

Example C04_doubled_comma_nonvacuous :
  let w := [32; 9] in
  forallb is_ws w = true /\ lex_next (mkLexer (44 :: w ++ 44 :: bs "2") false false) = Val (SErr SyntaxError).
Proof.
  intro w. assert (h : forallb is_ws w = true) by (vm_compute; reflexivity).
  exact (conj h (C04_doubled_comma w (bs "2") false h)).
Qed.

Example C04_comma_after_header_sep_nonvacuous :
  let x := 32 in let w := [9; 32] in
  is_ws x = true /\ (x =? 10) = false /\ forallb is_ws w = true /\
  lex_next (mkLexer (x :: w ++ 44 :: bs "1") true false) = Val (SErr SyntaxError).
Proof.
  intros x w.
  assert (h1 : is_ws x = true) by reflexivity.
  assert (h2 : (x =? 10) = false) by reflexivity.
  assert (h3 : forallb is_ws w = true) by (vm_compute; reflexivity).
  exact (conj h1 (conj h2 (conj h3 (C04_comma_after_header_sep x w (bs "1") true false h1 h2 h3)))).
Qed.

(* "MAX  #..." : character data followed by something that is not a separator *)
Example C04_missing_separator_after_chardata_nonvacuous :
  let m := bs "MAX_1" in let w := [32; 32] in let y := 35 in
  (1 <= length m <= 12)%nat /\ (exists x m', m = x :: m' /\ is_alpha x = true) /\ forallb is_mnemonic_char m = true /\
  forallb is_ws w = true /\ is_mnemonic_char y = false /\ is_ws y = false /\ (y =? 44) = false /\ (y =? 59) = false /\
  lex_next (mkLexer (m ++ w ++ y :: bs "HFF") false false) = Val (SErr InvalidCharacterData).
Proof.
  intros m w y.
  assert (h1 : (1 <= length m <= 12)%nat) by (cbn; lia).
  assert (h2 : exists x m', m = x :: m' /\ is_alpha x = true) by (eexists _, _; split; reflexivity).
  assert (h3 : forallb is_mnemonic_char m = true) by (vm_compute; reflexivity).
  assert (h4 : forallb is_ws w = true) by (vm_compute; reflexivity).
  exact (conj h1 (conj h2 (conj h3 (conj h4 (conj eq_refl (conj eq_refl (conj eq_refl (conj eq_refl
    (C04_missing_separator_after_chardata m w y (bs "HFF") false h1 h2 h3 h4 eq_refl eq_refl eq_refl eq_refl))))))))).
Qed.

(* "'it''s' V" : a string followed by a suffix *)
Example C04_missing_separator_after_string_nonvacuous :
  let q := 39 in let body := bs "it" in let w := [32] in let y := 86 in
  ((q =? 34) || (q =? 39)) = true /\ forallb (fun b => negb (b =? q) && is_ascii b) body = true /\
  forallb is_ws w = true /\ is_ws y = false /\ (y =? 44) = false /\ (y =? 59) = false /\ (y =? q) = false /\
  lex_next (mkLexer (q :: body ++ q :: w ++ y :: bs ",1") false false) = Val (SErr SuffixNotAllowed).
Proof.
  intros q body w y.
  assert (h1 : ((q =? 34) || (q =? 39)) = true) by reflexivity.
  assert (h2 : forallb (fun b => negb (b =? q) && is_ascii b) body = true) by (vm_compute; reflexivity).
  assert (h3 : forallb is_ws w = true) by (vm_compute; reflexivity).
  exact (conj h1 (conj h2 (conj h3 (conj eq_refl (conj eq_refl (conj eq_refl (conj eq_refl
    (C04_missing_separator_after_string q body w y (bs ",1") false h1 h2 h3 eq_refl eq_refl eq_refl eq_refl)))))))).
Qed.

Print Assumptions C04_lex_faithful_nonvacuous.
Print Assumptions C04_block_truncated_nonvacuous.
Print Assumptions C04_missing_separator_after_string_nonvacuous.
