(* NonVacuous/C09.v — every C09 theorem with a hypothesis, on concrete response data.
   Each example: hypotheses /\ instantiated conclusion (by applying the theorem).
   Skipped (no hypothesis): C09_int_text, C09_fmt_N_digits, C09_bool_rt, C09_list_empty, C09_int_list_rt. *)
From Coq Require Import Lia.
From VF Require Import Base Gen_Errors Gen_Consts ErrTable Fmt Lexer Grammar Response Conv Fmt_proofs.
From VF.NonVacuous Require Import Common.
From VF.Properties Require C09.
Import C09.
Open Scope N_scope.

Example C09_int_dec_rt_nonvacuous :
  let n := (-12345)%Z in
  (ity_min I16 <= n <= ity_max I16)%Z /\
  (tokenize_params (text (RInt n)) = Val [IOk (TDec (fmt_Z n))] /\ conv_int I16 (TDec (fmt_Z n)) = Val (Ok n))
  /\ fmt_Z n = bs "-12345".
Proof.
  intro n. assert (h : (ity_min I16 <= n <= ity_max I16)%Z) by (cbn; lia).
  exact (conj h (conj (C09_int_dec_rt I16 n h) eq_refl)).
Qed.

Example C09_radix_rt_nonvacuous :
  let r := 16 in let n := 48879 in
  (r = 16 \/ r = 8 \/ r = 2) /\ n <= u64_max /\ (Z.of_N n <= ity_max U16)%Z /\
  (fmt_ok (RRadix r n) /\ tokenize_params (text (RRadix r n)) = Val [IOk (TNonDec n)]
   /\ conv_int U16 (TNonDec n) = Val (Ok (Z.of_N n)))
  /\ text (RRadix r n) = bs "#HBEEF".
Proof.
  intros r n.
  assert (h1 : r = 16 \/ r = 8 \/ r = 2) by (left; reflexivity).
  assert (h2 : n <= u64_max) by (unfold n, u64_max; lia).
  assert (h3 : (Z.of_N n <= ity_max U16)%Z) by (cbn; lia).
  exact (conj h1 (conj h2 (conj h3 (conj (C09_radix_rt r n U16 h1 h2 h3) eq_refl)))).
Qed.

Definition s_quote : list byte := bs "say ""hi"", ok".     (* say "hi", ok *)

Example C09_string_text_nonvacuous :
  all_ascii s_quote = true /\
  response_text (RStr s_quote) = (34 :: double_q 34 s_quote ++ [34], None) /\
  34 :: double_q 34 s_quote ++ [34] = bs """say """"hi"""", ok""".
Proof.
  assert (h : all_ascii s_quote = true) by (vm_compute; reflexivity).
  exact (conj h (conj (C09_string_text s_quote h) eq_refl)).
Qed.

Example C09_string_non_ascii_nonvacuous :
  let s := bs "caf" ++ [233] in
  all_ascii s = false /\ response_text (RStr s) = ([], Some ExecutionError).
Proof.
  intro s. assert (h : all_ascii s = false) by (vm_compute; reflexivity).
  exact (conj h (C09_string_non_ascii s h)).
Qed.

Example C09_string_rt_nonvacuous :
  all_ascii s_quote = true /\
  (tokenize_params (text (RStr s_quote)) = Val [IOk (TString (double_q 34 s_quote))]
   /\ undouble 34 (double_q 34 s_quote) = s_quote
   /\ conv_bytes BBytes (TString (double_q 34 s_quote)) = Val (Ok (double_q 34 s_quote))).
Proof.
  assert (h : all_ascii s_quote = true) by (vm_compute; reflexivity).
  exact (conj h (C09_string_rt s_quote h)).
Qed.

Example C09_string_exact_when_no_quote_nonvacuous :
  let s := bs "it's 5 o'clock" in
  forallb (fun b => negb (b =? 34)) s = true /\ double_q 34 s = s.
Proof.
  intro s. assert (h : forallb (fun b => negb (b =? 34)) s = true) by (vm_compute; reflexivity).
  exact (conj h (C09_string_exact_when_no_quote s h)).
Qed.

Definition p12 : list byte := bs "hello, world".

Example C09_block_text_nonvacuous :
  N.of_nat (length p12) < 1000000000 /\
  response_text (RBlock p12)
  = (35 :: (48 + N.of_nat (length (fmt_N (N.of_nat (length p12))))) :: fmt_N (N.of_nat (length p12)) ++ p12, None) /\
  35 :: (48 + N.of_nat (length (fmt_N (N.of_nat (length p12))))) :: fmt_N (N.of_nat (length p12)) ++ p12
  = bs "#212hello, world".
Proof.
  assert (h : N.of_nat (length p12) < 1000000000) by (vm_compute; reflexivity).
  exact (conj h (conj (C09_block_text p12 h) eq_refl)).
Qed.

(* a payload of 10^9 bytes (never built: only its length is reasoned about) *)
Example C09_block_too_long_nonvacuous :
  let p := repeat 65 (N.to_nat 1000000000) in
  1000000000 <= N.of_nat (length p) /\ response_text (RBlock p) = ([], Some ExecutionError).
Proof.
  intro p.
  assert (h : 1000000000 <= N.of_nat (length p)).
  { unfold p. rewrite repeat_length, N2Nat.id. apply N.le_refl. }
  exact (conj h (C09_block_too_long p h)).
Qed.

Example C09_block_rt_nonvacuous :
  N.of_nat (length p12) < 1000000000 /\
  (tokenize_params (text (RBlock p12)) = Val [IOk (TBlock p12)] /\ conv_bytes BArb (TBlock p12) = Val (Ok p12)).
Proof.
  assert (h : N.of_nat (length p12) < 1000000000) by (vm_compute; reflexivity).
  exact (conj h (C09_block_rt p12 h)).
Qed.

Example C09_char_rt_nonvacuous :
  let m := bs "CHAN_2b" in
  wf_mnemonic m = true /\
  (fmt_ok (RChar m) /\ tokenize_params (text (RChar m)) = Val [IOk (TChar m)] /\ conv_bytes BChr (TChar m) = Val (Ok m)).
Proof.
  intro m. assert (h : wf_mnemonic m = true) by (vm_compute; reflexivity).
  exact (conj h (C09_char_rt m h)).
Qed.

Example C09_expr_rt_nonvacuous :
  let body := bs "@1!2,3:5" in
  forallb expr_char_ok body = true /\
  (fmt_ok (RExpr body) /\ tokenize_params (text (RExpr body)) = Val [IOk (TExpr body)]
   /\ conv_bytes BExpr (TExpr body) = Val (Ok body)).
Proof.
  intro body. assert (h : forallb expr_char_ok body = true) by (vm_compute; reflexivity).
  exact (conj h (C09_expr_rt body h)).
Qed.

(* a standard error with extended text, and a custom error *)
Definition e_std : error := ext_error DataOutOfRange (bs "ch ""2""").
Definition e_cust : error := mkError 101%Z (Some (bs "Fuse blown")) None.

Example C09_error_text_nonvacuous :
  all_ascii (error_message e_std) = true /\
  response_text (RErrItem e_std) = (fmt_Z (ecode e_std) ++ 44 :: 34 :: double_q 34 (error_body e_std) ++ [34], None) /\
  fmt_Z (ecode e_std) ++ 44 :: 34 :: double_q 34 (error_body e_std) ++ [34] = bs "-222,""Data out of range;ch """"2""""""" /\
  all_ascii (error_message e_cust) = true /\
  response_text (RErrItem e_cust) = (bs "101,""Fuse blown""", None).
Proof.
  assert (h1 : all_ascii (error_message e_std) = true) by (vm_compute; reflexivity).
  assert (h2 : all_ascii (error_message e_cust) = true) by (vm_compute; reflexivity).
  exact (conj h1 (conj (C09_error_text e_std h1) (conj eq_refl (conj h2 (C09_error_text e_cust h2))))).
Qed.

Example C09_error_rt_nonvacuous :
  all_ascii (error_body e_std) = true /\
  (tokenize_params (text (RErrItem e_std))
   = Val [IOk (TDec (fmt_Z (ecode e_std))); IOk TDataSeparator; IOk (TString (double_q 34 (error_body e_std)))]
   /\ undouble 34 (double_q 34 (error_body e_std)) = error_body e_std).
Proof.
  assert (h : all_ascii (error_body e_std) = true) by (vm_compute; reflexivity).
  exact (conj h (C09_error_rt e_std h)).
Qed.

Example C09_list_text_nonvacuous :
  let x := RInt (-7) in let xs := [RStr (bs "a""b"); RBool true; RRadix 2 5] in
  Forall fmt_ok (x :: xs) /\
  response_text (RList (x :: xs)) = (intercalate [44] (map text (x :: xs)), None) /\
  intercalate [44] (map text (x :: xs)) = bs "-7,""a""""b"",1,#B101".
Proof.
  intros x xs. assert (h : Forall fmt_ok (x :: xs)) by (repeat constructor).
  exact (conj h (conj (C09_list_text x xs h) eq_refl)).
Qed.

Print Assumptions C09_radix_rt_nonvacuous.
Print Assumptions C09_block_too_long_nonvacuous.
Print Assumptions C09_error_text_nonvacuous.
